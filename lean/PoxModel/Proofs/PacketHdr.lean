import PoxModel.Model.PacketHdr
import PoxModel.Proofs.Checksum
import PoxModel.Proofs.PacketLayout
/-!
# Lemmas about the header models (C14): closed forms of `hdr`, round trips through `parse`, position of the length
and checksum fields.  Core only.
-/
namespace Pox.Packet
open Pox Pox.PktLayout Pox.Checksum

/-! ## small tools -/

theorem shl4 (v hl : Nat) (h : hl < 16) : ((v <<< 4) + hl) / 16 = v ∧ ((v <<< 4) + hl) % 16 = hl := by
  rw [Nat.shiftLeft_eq]; omega

theorem shl_or (a b k : Nat) (h : b < 2 ^ k) : (a <<< k) ||| b = a * 2 ^ k + b := by
  rw [← Nat.shiftLeft_add_eq_or_of_lt h, Nat.shiftLeft_eq]

theorem sl_mid (a b c : Bytes) (i j : Nat) (hi : i = a.length) (hj : j = a.length + b.length) :
    sl (a ++ (b ++ c)) i j = b := by
  subst hi; subst hj
  unfold sl
  rw [← List.append_assoc, List.take_append_of_le_length (by simp), List.take_of_length_le (by simp)]
  simp

theorem sl_tail (a b : Bytes) (i j : Nat) (hi : i = a.length) (hj : j = a.length + b.length) :
    sl (a ++ b) i j = b := by
  have := sl_mid a b [] i j hi hj
  simpa using this

theorem drop_left (a b : Bytes) (i : Nat) (hi : i = a.length) : (a ++ b).drop i = b := by
  subst hi; simp

theorem take_left (a b : Bytes) (i : Nat) (hi : i = a.length) : (a ++ b).take i = a := by
  subst hi; simp

theorem pk_of_encode {L : Layout} {vs : List Val} {bs : Bytes} (h : encode L vs = some bs) : pk L vs = .ok bs := by
  simp [pk, h]

theorem be16_eq (n : Nat) (h : n < 65536) : be16 n = [UInt8.ofNat (n / 256), UInt8.ofNat (n % 256)] := beEnc2 n h

theorem be16_zero : be16 0 = [0, 0] := by decide

@[simp] theorem be16_length (n : Nat) : (be16 n).length = 2 := by simp [be16]

/-- the model's `checksum` of data that carries a zero checksum word equals RFC 1071 of it -/
theorem checksum_eq (d : Bytes) (h : d.length ≤ 131072) : checksum d 0 none = rfc1071 d := by
  have := le_sum_rfc1071 d h
  simpa [checksum, sumLE] using this

theorem checksum_skip_eq (d : Bytes) (k : Nat) (h : d.length ≤ 131072) :
    checksum d 0 (some k) = rfc1071 (zeroWord k d) := by
  have := le_sum_rfc1071 (zeroWord k d) (by rw [zeroWord_length]; exact h)
  simp only [checksum, sumLE, Nat.zero_add] at this ⊢
  rw [sumSkip_zeroWord, ← oddLE_zeroWord k d]
  exact this

/-! ## IPv4 -/

/-- field ranges of an IPv4 object that `hdr` can serialise and `parse` accepts back -/
structure IPv4.Fits (h : IPv4) : Prop where
  v : h.v = 4
  hl5 : 5 ≤ h.hl
  hl : h.hl < 16
  tos : h.tos < 256
  id : h.id < 65536
  flags : h.flags < 8
  frag : h.frag < 8192
  ttl : h.ttl < 256
  proto : h.proto < 256
  src : h.src < 4294967296
  dst : h.dst < 4294967296
  opts : h.opts.length + 20 = 4 * h.hl

/-- first ten bytes of the header (up to, excluding, the checksum) -/
def ipv4Pre (h : IPv4) (iplen : Nat) : Bytes :=
  beEnc 1 ((h.v <<< 4) + h.hl) ++ (beEnc 1 h.tos ++ (beEnc 2 iplen ++ (beEnc 2 h.id ++
    (beEnc 2 ((h.flags <<< 13) ||| h.frag) ++ (beEnc 1 h.ttl ++ beEnc 1 h.proto)))))

/-- the bytes after the checksum: addresses and options -/
def ipv4Post (h : IPv4) : Bytes := beEnc 4 h.src ++ (beEnc 4 h.dst ++ h.opts)

theorem ipv4Pre_length (h : IPv4) (n : Nat) : (ipv4Pre h n).length = 10 := by simp [ipv4Pre]

theorem ipv4_encode (h : IPv4) (hf : h.Fits) (iplen c : Nat) (hn : iplen < 65536) (hc : c < 65536) :
    encode ipv4L (ipv4Vals h iplen c) = some (ipv4Pre h iplen ++ (be16 c ++ (beEnc 4 h.src ++ beEnc 4 h.dst))) := by
  have h1 : (h.v <<< 4) + h.hl < 256 := by rw [Nat.shiftLeft_eq, hf.v]; have := hf.hl; omega
  have h2 : (h.flags <<< 13) ||| h.frag < 65536 := by
    rw [shl_or _ _ 13 (by have := hf.frag; omega)]; have := hf.flags; have := hf.frag; omega
  simp [ipv4L, ipv4Vals, encode, ipv4Pre, be16, h1, h2, hf.tos, hf.id, hf.ttl, hf.proto, hf.src, hf.dst, hn, hc]

/-- closed form of `ipv4.hdr(payload)` -/
theorem ipv4Hdr_eq (h : IPv4) (n : Nat) (hf : h.Fits) (hn : h.hl * 4 + n < 65536) :
    ipv4Hdr h n = .ok
      ({ h with iplen := h.hl * 4 + n, csum := rfc1071 (ipv4Pre h (h.hl * 4 + n) ++ 0 :: 0 :: ipv4Post h) },
       ipv4Pre h (h.hl * 4 + n) ++ (be16 (rfc1071 (ipv4Pre h (h.hl * 4 + n) ++ 0 :: 0 :: ipv4Post h)) ++ ipv4Post h)) := by
  have e0 := ipv4_encode h hf (h.hl * 4 + n) 0 hn (by decide)
  have hlen : (ipv4Pre h (h.hl * 4 + n) ++ (be16 0 ++ (beEnc 4 h.src ++ beEnc 4 h.dst)) ++ h.opts).length ≤ 131072 := by
    have := hf.opts; have := hf.hl
    simp [ipv4Pre_length]; omega
  have ec := ipv4_encode h hf (h.hl * 4 + n)
    (rfc1071 (ipv4Pre h (h.hl * 4 + n) ++ 0 :: 0 :: ipv4Post h)) hn (rfc1071_lt _)
  have hd0 : (ipv4Pre h (h.hl * 4 + n) ++ (be16 0 ++ (beEnc 4 h.src ++ beEnc 4 h.dst))) ++ h.opts
      = ipv4Pre h (h.hl * 4 + n) ++ 0 :: 0 :: ipv4Post h := by simp [ipv4Post, be16_zero]
  rw [hd0] at hlen
  unfold ipv4Hdr
  simp only [pk_of_encode e0, bind, Except.bind, pure, Except.pure]
  rw [hd0, checksum_eq _ hlen]
  simp only [pk_of_encode ec]
  simp [ipv4Post]

/-- the RFC 1071 checksum `ipv4.hdr` stores: over the header with a zero checksum word -/
def ipv4Csum (h : IPv4) (n : Nat) : Nat := rfc1071 (ipv4Pre h (h.hl * 4 + n) ++ 0 :: 0 :: ipv4Post h)

/-- the header bytes `ipv4.hdr` returns for a payload of `n` bytes -/
def ipv4Bytes (h : IPv4) (n : Nat) : Bytes :=
  ipv4Pre h (h.hl * 4 + n) ++ (be16 (ipv4Csum h n) ++ ipv4Post h)

/-- the object after `hdr` ran (`iplen` and `csum` are assigned there) -/
def ipv4Upd (h : IPv4) (n : Nat) : IPv4 := { h with iplen := h.hl * 4 + n, csum := ipv4Csum h n }

theorem ipv4Hdr_ok (h : IPv4) (n : Nat) (hf : h.Fits) (hn : h.hl * 4 + n < 65536) :
    ipv4Hdr h n = .ok (ipv4Upd h n, ipv4Bytes h n) := ipv4Hdr_eq h n hf hn

theorem ipv4Bytes_length (h : IPv4) (n : Nat) (hf : h.Fits) : (ipv4Bytes h n).length = 4 * h.hl := by
  have := hf.opts
  simp [ipv4Bytes, ipv4Pre_length, ipv4Post]; omega

theorem ipv4_len_field (h : IPv4) (n : Nat) (hn : h.hl * 4 + n < 65536) :
    beDec (sl (ipv4Bytes h n) 2 4) = h.hl * 4 + n := by
  have : sl (ipv4Bytes h n) 2 4 = beEnc 2 (h.hl * 4 + n) := by
    unfold ipv4Bytes ipv4Pre
    rw [List.append_assoc, List.append_assoc, ← List.append_assoc (beEnc 1 _) (beEnc 1 _)]
    exact sl_mid (beEnc 1 ((h.v <<< 4) + h.hl) ++ beEnc 1 h.tos) (beEnc 2 (h.hl * 4 + n)) _ 2 4 (by simp) (by simp)
  rw [this, beDec_beEnc 2 _ (by simpa using hn)]

theorem ipv4_csum_field (h : IPv4) (n : Nat) : beDec (sl (ipv4Bytes h n) 10 12) = ipv4Csum h n := by
  have : sl (ipv4Bytes h n) 10 12 = be16 (ipv4Csum h n) := by
    unfold ipv4Bytes
    exact sl_mid _ _ _ 10 12 (by rw [ipv4Pre_length]) (by rw [ipv4Pre_length, be16_length])
  have hlt : ipv4Csum h n < 256 ^ 2 := by unfold ipv4Csum; exact rfc1071_lt _
  rw [this, be16, beDec_beEnc 2 _ hlt]

/-- the stored checksum is RFC 1071 of the emitted header with its checksum word (word 5) zeroed -/
theorem ipv4_csum_spec (h : IPv4) (n : Nat) : ipv4Csum h n = rfc1071 (zeroWord 5 (ipv4Bytes h n)) := by
  have hlt : ipv4Csum h n < 65536 := by unfold ipv4Csum; exact rfc1071_lt _
  unfold ipv4Bytes
  rw [be16_eq _ hlt]
  simp only [List.cons_append, List.nil_append]
  rw [zeroWord_at 5 _ _ _ _ (by rw [ipv4Pre_length])]
  rfl

/-- a receiver summing the emitted header (checksum included) gets 0xffff -/
theorem ipv4_verifies (h : IPv4) (n : Nat) : rfc1071 (ipv4Bytes h n) = 0 := by
  unfold ipv4Bytes ipv4Csum
  rw [← List.append_assoc]
  exact rfc1071_verifies _ _ (by simp [ipv4Pre_length])

theorem ipv4_fits (h : IPv4) (hf : h.Fits) (iplen c : Nat) (hn : iplen < 65536) (hc : c < 65536) :
    fits ipv4L (ipv4Vals h iplen c) := by
  have h1 : (h.v <<< 4) + h.hl < 256 := by rw [Nat.shiftLeft_eq, hf.v]; have := hf.hl; omega
  have h2 : (h.flags <<< 13) ||| h.frag < 65536 := by
    rw [shl_or _ _ 13 (by have := hf.frag; omega)]; have := hf.flags; have := hf.frag; omega
  simp [ipv4L, ipv4Vals, fits, h1, h2, hf.tos, hf.id, hf.ttl, hf.proto, hf.src, hf.dst, hn, hc]

/-- `ipv4(raw = hdr(payload) + payload)`: every field comes back, the payload slice is exact -/
theorem ipv4_parse (next : Kind → Bytes → Pkt) (h : IPv4) (payload : Bytes) (hf : h.Fits)
    (hn : h.hl * 4 + payload.length < 65536) :
    ipv4Parse next (ipv4Bytes h payload.length ++ payload)
      = .ipv4 (ipv4Upd h payload.length) (ipv4Dispatch next h.frag h.proto payload false) := by
  have hc := rfc1071_lt (ipv4Pre h (h.hl * 4 + payload.length) ++ 0 :: 0 :: ipv4Post h)
  have he := ipv4_encode h hf _ _ hn hc
  have hfit := ipv4_fits h hf _ _ hn hc
  obtain ⟨hu, _, hl20⟩ := unpack_take ipv4L _ _ (h.opts ++ payload) he hfit
  have hsz : size ipv4L = 20 := rfl
  rw [hsz] at hu hl20
  have hraw : ipv4Bytes h payload.length ++ payload
      = (ipv4Pre h (h.hl * 4 + payload.length) ++ (be16 (ipv4Csum h payload.length) ++ (beEnc 4 h.src ++ beEnc 4 h.dst)))
        ++ (h.opts ++ payload) := by
    simp [ipv4Bytes, ipv4Post, List.append_assoc]
  have hlen : (ipv4Bytes h payload.length ++ payload).length = 4 * h.hl + payload.length := by
    rw [List.length_append, ipv4Bytes_length h _ hf]
  have ho := hf.opts
  have hhl := hf.hl
  have hhl5 := hf.hl5
  have hv4 := shl4 h.v h.hl hf.hl
  have hff : (h.flags <<< 13) ||| h.frag = h.flags * 8192 + h.frag := shl_or _ _ 13 (by have := hf.frag; omega)
  have hfr := hf.frag
  unfold ipv4Parse
  simp only [hlen]
  rw [hraw]
  unfold ipv4Csum
  rw [hu]
  simp only [ipv4Vals]
  have c1 : ¬ (4 * h.hl + payload.length < 20) := by omega
  have c2 : ¬ (((h.v <<< 4) + h.hl) / 16 ≠ 4) := by rw [hv4.1, hf.v]; simp
  have c3 : ¬ (((h.v <<< 4) + h.hl) % 16 < 5) := by rw [hv4.2]; omega
  have c4 : ¬ (h.hl * 4 + payload.length < 20) := by omega
  have c5 : ¬ (((h.v <<< 4) + h.hl) % 16 * 4 > h.hl * 4 + payload.length) := by rw [hv4.2]; omega
  have c6 : ¬ (((h.v <<< 4) + h.hl) % 16 * 4 > 4 * h.hl + payload.length) := by rw [hv4.2]; omega
  simp only [c1, c2, c3, c4, c5, c6, if_false]
  have c7 : ¬ (h.hl * 4 + payload.length > 4 * h.hl + payload.length) := by omega
  simp only [c7, if_false, hv4.1, hv4.2, hff]
  have s1 : sl ((ipv4Pre h (h.hl * 4 + payload.length) ++ (be16 (rfc1071 (ipv4Pre h (h.hl * 4 + payload.length) ++ 0 :: 0 :: ipv4Post h)) ++ (beEnc 4 h.src ++ beEnc 4 h.dst)))
        ++ (h.opts ++ payload)) 20 (h.hl * 4) = h.opts :=
    sl_mid _ _ _ _ _ (by rw [hl20]) (by rw [hl20]; omega)
  have s2 : sl ((ipv4Pre h (h.hl * 4 + payload.length) ++ (be16 (rfc1071 (ipv4Pre h (h.hl * 4 + payload.length) ++ 0 :: 0 :: ipv4Post h)) ++ (beEnc 4 h.src ++ beEnc 4 h.dst)))
        ++ (h.opts ++ payload)) (h.hl * 4) (h.hl * 4 + payload.length) = payload := by
    rw [← List.append_assoc]
    exact sl_tail _ _ _ _ (by rw [List.length_append, hl20]; omega) (by rw [List.length_append, hl20]; omega)
  rw [s1, s2]
  have e1 : (h.flags * 8192 + h.frag) / 8192 = h.flags := by omega
  have e2 : (h.flags * 8192 + h.frag) % 8192 = h.frag := by omega
  rw [e1, e2, hf.v]
  simp [ipv4Upd, ipv4Csum, hf.v]

/-- `hdr` ignores the two attributes it assigns: re-serialising the parsed object gives the same bytes -/
theorem ipv4Hdr_idem (h : IPv4) (n m : Nat) : ipv4Hdr (ipv4Upd h m) n = ipv4Hdr h n := by
  simp [ipv4Hdr, ipv4Upd, ipv4Vals]

/-! ## pseudo header (RFC 768 / RFC 793 over IPv4) -/

structure IPCtx.Fits (c : IPCtx) : Prop where
  src : c.src < 4294967296
  dst : c.dst < 4294967296
  proto : c.proto < 256

/-- source address, destination address, zero, protocol, upper-layer length -/
def pseudo (c : IPCtx) (len : Nat) : Bytes :=
  beEnc 4 c.src ++ (beEnc 4 c.dst ++ (0 :: (beEnc 1 c.proto ++ be16 len)))

theorem pseudo_length (c : IPCtx) (len : Nat) : (pseudo c len).length = 12 := by simp [pseudo]

theorem pseudo_encode (c : IPCtx) (hc : c.Fits) (len : Nat) (hl : len < 65536) :
    encode pseudoL [.num c.src, .num c.dst, .num 0, .num c.proto, .num len] = some (pseudo c len) := by
  have : beEnc 1 0 = [0] := by decide
  simp [pseudoL, encode, pseudo, be16, hc.src, hc.dst, hc.proto, hl, this]

/-! ## UDP -/

structure Udp.Fits (h : Udp) : Prop where
  sport : h.sport < 65536
  dport : h.dport < 65536

/-- the six bytes before the checksum: ports and length -/
def udpPre (h : Udp) (n : Nat) : Bytes := be16 h.sport ++ (be16 h.dport ++ be16 (n + 8))

theorem udpPre_length (h : Udp) (n : Nat) : (udpPre h n).length = 6 := by simp [udpPre]

/-- RFC 768: RFC 1071 over pseudo header, UDP header with zero checksum, data; an all-zero result is sent as 0xffff -/
def udpCsumSpec (c : IPCtx) (h : Udp) (payload : Bytes) : Nat :=
  let r := rfc1071 (pseudo c (payload.length + 8) ++ (udpPre h payload.length ++ 0 :: 0 :: payload))
  if r = 0 then 65535 else r

theorem udpCsumSpec_lt (c : IPCtx) (h : Udp) (p : Bytes) : udpCsumSpec c h p < 65536 := by
  unfold udpCsumSpec
  have := rfc1071_lt (pseudo c (p.length + 8) ++ (udpPre h p.length ++ 0 :: 0 :: p))
  simp only []
  split <;> omega

def udpBytes (c : IPCtx) (h : Udp) (payload : Bytes) : Bytes :=
  udpPre h payload.length ++ be16 (udpCsumSpec c h payload)

def udpUpd (c : IPCtx) (h : Udp) (payload : Bytes) : Udp :=
  { h with len := payload.length + 8, csum := udpCsumSpec c h payload }

theorem udp_encode (h : Udp) (hf : h.Fits) (len cs : Nat) (hl : len + 8 < 65536) (hc : cs < 65536) :
    encode udpL [.num h.sport, .num h.dport, .num (len + 8), .num cs] = some (udpPre h len ++ be16 cs) := by
  simp [udpL, encode, udpPre, be16, hf.sport, hf.dport, hl, hc]

theorem udpHdr_ok (c : IPCtx) (h : Udp) (payload : Bytes) (hc : c.Fits) (hf : h.Fits)
    (hn : payload.length + 8 < 65536) :
    udpHdr (some c) h payload = .ok (udpUpd c h payload, udpBytes c h payload) := by
  have e0 := udp_encode h hf payload.length 0 hn (by decide)
  have ep := pseudo_encode c hc (payload.length + 8) hn
  have ec := udp_encode h hf payload.length (udpCsumSpec c h payload) hn (udpCsumSpec_lt c h payload)
  have hcomm : 8 + payload.length = payload.length + 8 := Nat.add_comm _ _
  have hdata : pseudo c (payload.length + 8) ++ (udpPre h payload.length ++ be16 0 ++ payload)
      = (pseudo c (payload.length + 8) ++ udpPre h payload.length) ++ 0 :: 0 :: payload := by
    simp [be16_zero, List.append_assoc]
  have hlen : ((pseudo c (payload.length + 8) ++ udpPre h payload.length) ++ 0 :: 0 :: payload).length ≤ 131072 := by
    simp [pseudo_length, udpPre_length]; omega
  have hz := zeroWord_already 9 (pseudo c (payload.length + 8) ++ udpPre h payload.length) payload
    (by simp [pseudo_length, udpPre_length])
  unfold udpHdr udpChecksum
  simp only [hcomm, pk_of_encode e0, pk_of_encode ep, bind, Except.bind, pure, Except.pure]
  rw [hdata, checksum_skip_eq _ 9 hlen, hz]
  have hspec : (if rfc1071 ((pseudo c (payload.length + 8) ++ udpPre h payload.length) ++ 0 :: 0 :: payload) = 0 then 65535
      else rfc1071 ((pseudo c (payload.length + 8) ++ udpPre h payload.length) ++ 0 :: 0 :: payload))
      = udpCsumSpec c h payload := by
    simp [udpCsumSpec, List.append_assoc]
  rw [hspec]
  simp only [pk_of_encode ec]
  rfl

theorem udp_len_field (c : IPCtx) (h : Udp) (payload : Bytes) (hn : payload.length + 8 < 65536) :
    beDec (sl (udpBytes c h payload) 4 6) = payload.length + 8 := by
  have : sl (udpBytes c h payload) 4 6 = be16 (payload.length + 8) := by
    unfold udpBytes udpPre
    rw [List.append_assoc, List.append_assoc, ← List.append_assoc (be16 _) (be16 _)]
    exact sl_mid (be16 h.sport ++ be16 h.dport) (be16 (payload.length + 8)) _ 4 6 (by simp) (by simp)
  rw [this, be16, beDec_beEnc 2 _ (by simpa using hn)]

theorem udp_csum_field (c : IPCtx) (h : Udp) (payload : Bytes) :
    beDec (sl (udpBytes c h payload) 6 8) = udpCsumSpec c h payload := by
  have : sl (udpBytes c h payload) 6 8 = be16 (udpCsumSpec c h payload) := by
    unfold udpBytes
    exact sl_tail _ _ 6 8 (by rw [udpPre_length]) (by rw [udpPre_length, be16_length])
  have hlt : udpCsumSpec c h payload < 256 ^ 2 := udpCsumSpec_lt c h payload
  rw [this, be16, beDec_beEnc 2 _ hlt]

theorem udpBytes_length (c : IPCtx) (h : Udp) (p : Bytes) : (udpBytes c h p).length = 8 := by
  simp [udpBytes, udpPre_length]

/-- ports that make `udp.parse` hand the payload to another parser -/
def udpPlain (h : Udp) : Prop :=
  h.dport ≠ 67 ∧ h.dport ≠ 68 ∧ h.dport ≠ 53 ∧ h.sport ≠ 53 ∧ h.dport ≠ 5353 ∧ h.sport ≠ 5353 ∧ h.dport ≠ 520 ∧
  h.sport ≠ 520 ∧ h.dport ≠ 4789 ∧ h.sport ≠ 4789

theorem udp_fits (h : Udp) (hf : h.Fits) (len cs : Nat) (hl : len + 8 < 65536) (hc : cs < 65536) :
    fits udpL [.num h.sport, .num h.dport, .num (len + 8), .num cs] := by
  simp [udpL, fits, hf.sport, hf.dport, hl, hc]

theorem udp_parse (c : IPCtx) (h : Udp) (payload : Bytes) (hf : h.Fits) (hp : udpPlain h)
    (hn : payload.length + 8 < 65536) :
    udpParse (udpBytes c h payload ++ payload) = .udp (udpUpd c h payload) (.raw payload) := by
  have hcs := udpCsumSpec_lt c h payload
  have he := udp_encode h hf payload.length _ hn hcs
  obtain ⟨hu, hd, hl8⟩ := unpack_take udpL _ _ payload he (udp_fits h hf _ _ hn hcs)
  have hsz : size udpL = 8 := rfl
  rw [hsz] at hu hd hl8
  obtain ⟨p1, p2, p3, p4, p5, p6, p7, p8, p9, p10⟩ := hp
  unfold udpParse udpBytes
  simp only [hu, hd, List.length_append, hl8]
  have c1 : ¬ (8 + payload.length < 8) := by omega
  have c2 : ¬ (payload.length + 8 < 8) := by omega
  have c3 : ¬ (8 + payload.length < payload.length + 8) := by omega
  simp [c1, c2, c3, p1, p2, p3, p4, p5, p6, p7, p8, p9, p10, udpUpd]

theorem udpHdr_idem (ctx : Option IPCtx) (c : IPCtx) (h : Udp) (p q : Bytes) :
    udpHdr ctx (udpUpd c h p) q = udpHdr ctx h q := by
  cases ctx <;> simp [udpHdr, udpChecksum, udpUpd]

/-! ## TCP (header, data offset, pseudo-header checksum; options as the packed, padded byte string `op`) -/

structure Tcp.Fits (h : Tcp) : Prop where
  sport : h.sport < 65536
  dport : h.dport < 65536
  seq : h.seq < 4294967296
  ack : h.ack < 4294967296
  res : h.res < 16
  flags : h.flags < 256
  win : h.win < 65536
  urg : h.urg < 65536

/-- the sixteen bytes before the checksum -/
def tcpPre (h : Tcp) (off : Nat) : Bytes :=
  be16 h.sport ++ (be16 h.dport ++ (beEnc 4 h.seq ++ (beEnc 4 h.ack ++ (beEnc 1 ((off <<< 4) ||| h.res) ++
    (beEnc 1 h.flags ++ be16 h.win)))))

theorem tcpPre_length (h : Tcp) (off : Nat) : (tcpPre h off).length = 16 := by simp [tcpPre]

/-- RFC 793: RFC 1071 over pseudo header (TCP length = header + options + data), header with zero checksum, data -/
def tcpCsumSpec (c : IPCtx) (h : Tcp) (op payload : Bytes) : Nat :=
  rfc1071 (pseudo c (20 + op.length + payload.length) ++
    (tcpPre h ((20 + op.length) / 4) ++ 0 :: 0 :: (be16 h.urg ++ (op ++ payload))))

def tcpBytes (c : IPCtx) (h : Tcp) (op payload : Bytes) : Bytes :=
  tcpPre h ((20 + op.length) / 4) ++ (be16 (tcpCsumSpec c h op payload) ++ (be16 h.urg ++ op))

def tcpUpd (c : IPCtx) (h : Tcp) (op payload : Bytes) : Tcp :=
  { h with off := (20 + op.length) / 4, csum := tcpCsumSpec c h op payload }

theorem tcpOptsPadded_mod4 (os : List TcpOpt) (op : Bytes) (h : tcpOptsPadded os = .ok op) : op.length % 4 = 0 := by
  unfold tcpOptsPadded at h
  cases hp : tcpOptsPack os with
  | error e => simp [hp, bind, Except.bind] at h
  | ok op0 =>
    simp only [hp, bind, Except.bind, pure, Except.pure] at h
    injection h with h
    subst h
    by_cases h4 : (20 + op0.length) % 4 = 0
    · simp [h4]; omega
    · simp [h4]; omega

theorem tcp_encode (h : Tcp) (hf : h.Fits) (off cs : Nat) (ho : off < 16) (hc : cs < 65536) :
    encode tcpL (tcpVals h off cs) = some (tcpPre h off ++ (be16 cs ++ be16 h.urg)) := by
  have h1 : (off <<< 4) ||| h.res < 256 := by
    rw [shl_or _ _ 4 (by have := hf.res; omega)]; have := hf.res; omega
  simp [tcpL, tcpVals, encode, tcpPre, be16, h1, hf.sport, hf.dport, hf.seq, hf.ack, hf.flags, hf.win, hf.urg, hc]

theorem tcpHdr_ok (c : IPCtx) (h : Tcp) (op payload : Bytes) (hc : c.Fits) (hf : h.Fits)
    (hop : tcpOptsPadded h.opts = .ok op) (hol : op.length ≤ 40) (hn : 20 + op.length + payload.length < 65536) :
    tcpHdr (some c) h payload = .ok (tcpUpd c h op payload, tcpBytes c h op payload) := by
  have ho : (20 + op.length) / 4 < 16 := by omega
  have e0 := tcp_encode h hf _ 0 ho (by decide)
  have hcs : tcpCsumSpec c h op payload < 65536 := rfc1071_lt _
  have ec := tcp_encode h hf _ (tcpCsumSpec c h op payload) ho hcs
  have hseglen : (tcpPre h ((20 + op.length) / 4) ++ (be16 0 ++ be16 h.urg) ++ op ++ payload).length
      = 20 + op.length + payload.length := by
    simp [tcpPre_length]; omega
  have ep := pseudo_encode c hc (20 + op.length + payload.length) hn
  have hdata : pseudo c (20 + op.length + payload.length)
        ++ (tcpPre h ((20 + op.length) / 4) ++ (be16 0 ++ be16 h.urg) ++ op ++ payload)
      = (pseudo c (20 + op.length + payload.length) ++ tcpPre h ((20 + op.length) / 4))
        ++ 0 :: 0 :: (be16 h.urg ++ (op ++ payload)) := by
    simp [be16_zero, List.append_assoc]
  have hlen : ((pseudo c (20 + op.length + payload.length) ++ tcpPre h ((20 + op.length) / 4))
        ++ 0 :: 0 :: (be16 h.urg ++ (op ++ payload))).length ≤ 131072 := by
    simp [pseudo_length, tcpPre_length]; omega
  have hz := zeroWord_already 14 (pseudo c (20 + op.length + payload.length) ++ tcpPre h ((20 + op.length) / 4))
    (be16 h.urg ++ (op ++ payload)) (by simp [pseudo_length, tcpPre_length])
  unfold tcpHdr
  simp only [hop, pk_of_encode e0, bind, Except.bind, pure, Except.pure, hseglen, pk_of_encode ep]
  rw [hdata, checksum_skip_eq _ 14 hlen, hz]
  have hspec : rfc1071 ((pseudo c (20 + op.length + payload.length) ++ tcpPre h ((20 + op.length) / 4))
        ++ 0 :: 0 :: (be16 h.urg ++ (op ++ payload))) = tcpCsumSpec c h op payload := by
    simp [tcpCsumSpec, List.append_assoc]
  rw [hspec]
  simp only [pk_of_encode ec]
  simp [tcpUpd, tcpBytes, List.append_assoc]

theorem tcpBytes_length (c : IPCtx) (h : Tcp) (op p : Bytes) : (tcpBytes c h op p).length = 20 + op.length := by
  simp [tcpBytes, tcpPre_length]; omega

/-- the data-offset nibble counts the 32-bit words of header + padded options -/
theorem tcp_data_offset (c : IPCtx) (h : Tcp) (op payload : Bytes) (hf : h.Fits) (hol : op.length ≤ 40)
    (h4 : op.length % 4 = 0) :
    beDec (sl (tcpBytes c h op payload) 12 13) / 16 * 4 = (tcpBytes c h op payload).length := by
  have ho : (20 + op.length) / 4 < 16 := by omega
  have hres := hf.res
  have h1 : (((20 + op.length) / 4) <<< 4) ||| h.res = (20 + op.length) / 4 * 16 + h.res := by
    rw [shl_or _ _ 4 (by omega)]
  have : sl (tcpBytes c h op payload) 12 13 = beEnc 1 ((((20 + op.length) / 4) <<< 4) ||| h.res) := by
    unfold tcpBytes tcpPre
    simp only [List.append_assoc]
    rw [← List.append_assoc (be16 _) (be16 _), ← List.append_assoc (be16 _ ++ be16 _) (beEnc 4 _),
      ← List.append_assoc ((be16 _ ++ be16 _) ++ beEnc 4 _) (beEnc 4 _)]
    exact sl_mid (((be16 h.sport ++ be16 h.dport) ++ beEnc 4 h.seq) ++ beEnc 4 h.ack)
      (beEnc 1 ((((20 + op.length) / 4) <<< 4) ||| h.res)) _ 12 13 (by simp) (by simp)
  rw [this, beDec_beEnc 1 _ (by rw [h1]; omega), h1, tcpBytes_length]
  omega

theorem tcp_csum_field (c : IPCtx) (h : Tcp) (op payload : Bytes) :
    beDec (sl (tcpBytes c h op payload) 16 18) = tcpCsumSpec c h op payload := by
  have : sl (tcpBytes c h op payload) 16 18 = be16 (tcpCsumSpec c h op payload) := by
    unfold tcpBytes
    exact sl_mid _ _ _ 16 18 (by rw [tcpPre_length]) (by rw [tcpPre_length, be16_length])
  have hlt : tcpCsumSpec c h op payload < 256 ^ 2 := rfc1071_lt _
  rw [this, be16, beDec_beEnc 2 _ hlt]

theorem tcp_fits (h : Tcp) (hf : h.Fits) (off cs : Nat) (ho : off < 16) (hc : cs < 65536) :
    fits tcpL (tcpVals h off cs) := by
  have h1 : (off <<< 4) ||| h.res < 256 := by
    rw [shl_or _ _ 4 (by have := hf.res; omega)]; have := hf.res; omega
  simp [tcpL, tcpVals, fits, h1, hf.sport, hf.dport, hf.seq, hf.ack, hf.flags, hf.win, hf.urg, hc]

theorem tcpHdr_idem (ctx : Option IPCtx) (c : IPCtx) (h : Tcp) (op p q : Bytes) :
    tcpHdr ctx (tcpUpd c h op p) q = tcpHdr ctx h q := by
  cases ctx <;> simp [tcpHdr, tcpUpd, tcpVals]

/-- `tcp(raw = hdr + payload)` for a header without options -/
theorem tcp_parse_noopts (c : IPCtx) (h : Tcp) (payload : Bytes) (hf : h.Fits) (hno : h.opts = []) :
    tcpParse (tcpBytes c h [] payload ++ payload) = .tcp (tcpUpd c h [] payload) (.raw payload) := by
  have hcs : tcpCsumSpec c h [] payload < 65536 := rfc1071_lt _
  have he := tcp_encode h hf 5 _ (by decide) hcs
  obtain ⟨hu, hd, hl⟩ := unpack_take tcpL _ _ payload he (tcp_fits h hf 5 _ (by decide) hcs)
  have hsz : size tcpL = 20 := rfl
  rw [hsz] at hu hd hl
  have hb : tcpBytes c h [] payload = tcpPre h 5 ++ (be16 (tcpCsumSpec c h [] payload) ++ be16 h.urg) := by
    simp [tcpBytes]
  have hres := hf.res
  have hor : (5 <<< 4) ||| h.res = 80 + h.res := by rw [shl_or _ _ 4 (by omega)]
  unfold tcpParse
  rw [hb]
  simp only [hu, hd, List.length_append, hl, tcpVals, hor]
  have e1 : (80 + h.res) / 16 = 5 := by omega
  have e2 : (80 + h.res) % 16 = h.res := by omega
  have c1 : ¬ (20 + payload.length < 20) := by omega
  have c2 : ¬ (5 * 4 < 20 ∨ 5 * 4 > 20 + payload.length) := by omega
  simp only [e1, e2, c1, c2, if_false]
  have hp : tcpParseOpts (5 * 4) (tcpPre h 5 ++ (be16 (tcpCsumSpec c h [] payload) ++ be16 h.urg) ++ payload) (5 * 4) 20
      = .ok [] := by
    simp [tcpParseOpts]
  rw [hp]
  have hd' : List.drop (5 * 4) (tcpPre h 5 ++ (be16 (tcpCsumSpec c h [] payload) ++ be16 h.urg) ++ payload) = payload := hd
  simp only [hd']
  cases h
  simp_all [tcpUpd]

/-! ## ICMP -/

structure Icmp.Fits (h : Icmp) : Prop where
  type : h.type < 256
  code : h.code < 256

def icmpPre (h : Icmp) : Bytes := beEnc 1 h.type ++ beEnc 1 h.code

/-- RFC 792: RFC 1071 over the ICMP message with a zero checksum -/
def icmpCsumSpec (h : Icmp) (payload : Bytes) : Nat := rfc1071 (icmpPre h ++ 0 :: 0 :: payload)

def icmpBytes (h : Icmp) (payload : Bytes) : Bytes := icmpPre h ++ be16 (icmpCsumSpec h payload)

def icmpUpd (h : Icmp) (payload : Bytes) : Icmp := { h with csum := icmpCsumSpec h payload }

theorem icmp_encode (h : Icmp) (hf : h.Fits) (cs : Nat) (hc : cs < 65536) :
    encode icmpL [.num h.type, .num h.code, .num cs] = some (icmpPre h ++ be16 cs) := by
  simp [icmpL, encode, icmpPre, be16, hf.type, hf.code, hc]

theorem icmpHdr_ok (h : Icmp) (payload : Bytes) (hf : h.Fits) (hn : payload.length + 4 ≤ 131072) :
    icmpHdr h payload = .ok (icmpUpd h payload, icmpBytes h payload) := by
  have e0 := icmp_encode h hf 0 (by decide)
  have ec := icmp_encode h hf (icmpCsumSpec h payload) (rfc1071_lt _)
  have hdata : icmpPre h ++ be16 0 ++ payload = icmpPre h ++ 0 :: 0 :: payload := by simp [be16_zero]
  have hlen : (icmpPre h ++ 0 :: 0 :: payload).length ≤ 131072 := by simp [icmpPre]; omega
  unfold icmpHdr
  simp only [pk_of_encode e0, bind, Except.bind, pure, Except.pure]
  rw [hdata, checksum_eq _ hlen]
  have : rfc1071 (icmpPre h ++ 0 :: 0 :: payload) = icmpCsumSpec h payload := rfl
  rw [this]
  simp only [pk_of_encode ec]
  rfl

theorem icmp_csum_field (h : Icmp) (payload : Bytes) : beDec (sl (icmpBytes h payload) 2 4) = icmpCsumSpec h payload := by
  have : sl (icmpBytes h payload) 2 4 = be16 (icmpCsumSpec h payload) := by
    unfold icmpBytes
    exact sl_tail _ _ 2 4 (by simp [icmpPre]) (by simp [icmpPre])
  have hlt : icmpCsumSpec h payload < 256 ^ 2 := rfc1071_lt _
  rw [this, be16, beDec_beEnc 2 _ hlt]

/-- a receiver summing the whole ICMP message gets 0xffff -/
theorem icmp_verifies (h : Icmp) (payload : Bytes) : rfc1071 (icmpBytes h payload ++ payload) = 0 := by
  unfold icmpBytes icmpCsumSpec
  exact rfc1071_verifies _ _ (by simp [icmpPre])

theorem icmp_fits (h : Icmp) (hf : h.Fits) (cs : Nat) (hc : cs < 65536) :
    fits icmpL [.num h.type, .num h.code, .num cs] := by
  simp [icmpL, fits, hf.type, hf.code, hc]

theorem icmp_parse (next : Kind → Bytes → Pkt) (h : Icmp) (payload : Bytes) (hf : h.Fits) :
    icmpParse next (icmpBytes h payload ++ payload) = .icmp (icmpUpd h payload) (icmpDispatch next h.type payload) := by
  have hcs : icmpCsumSpec h payload < 65536 := rfc1071_lt _
  have he := icmp_encode h hf _ hcs
  obtain ⟨hu, hd, hl4⟩ := unpack_take icmpL _ _ payload he (icmp_fits h hf _ hcs)
  have hsz : size icmpL = 4 := rfl
  rw [hsz] at hu hd hl4
  unfold icmpParse icmpBytes
  simp only [hu, hd, List.length_append, hl4]
  have c1 : ¬ (4 + payload.length < 4) := by omega
  simp [c1, icmpUpd]

theorem icmpHdr_idem (h : Icmp) (p q : Bytes) : icmpHdr (icmpUpd h p) q = icmpHdr h q := by
  simp [icmpHdr, icmpUpd]

/-! ## Ethernet, 802.1Q, ARP, ICMP echo / unreachable / time-exceeded: fixed layouts, via the generic round trip -/

structure Eth.Fits (h : Eth) : Prop where
  dst : h.dst.length = 6
  src : h.src.length = 6
  type : h.type < 65536

def ethBytes (h : Eth) : Bytes := h.dst ++ (h.src ++ be16 h.type)

theorem eth_encode (h : Eth) (hf : h.Fits) : encode ethL [.raw h.dst, .raw h.src, .num h.type] = some (ethBytes h) := by
  simp [ethL, encode, ethBytes, be16, hf.dst, hf.src, hf.type]

theorem ethHdr_ok (h : Eth) (hf : h.Fits) : ethHdr h = .ok (ethBytes h) := pk_of_encode (eth_encode h hf)

theorem ethBytes_length (h : Eth) (hf : h.Fits) : (ethBytes h).length = 14 := by
  simp [ethBytes, hf.dst, hf.src]

theorem eth_parse (next : Kind → Bytes → Pkt) (h : Eth) (payload : Bytes) (hf : h.Fits) :
    ethParse next (ethBytes h ++ payload) = .eth h (parseNext next h.type payload) := by
  have hfit : fits ethL [.raw h.dst, .raw h.src, .num h.type] := by simp [ethL, fits, hf.dst, hf.src, hf.type]
  obtain ⟨hu, hd, hl⟩ := unpack_take ethL _ _ payload (eth_encode h hf) hfit
  have hsz : size ethL = 14 := rfl
  rw [hsz] at hu hd hl
  unfold ethParse
  simp only [hu, hd, List.length_append, hl]
  have c1 : ¬ (14 + payload.length < 14) := by omega
  simp [c1]

structure Vlan.Fits (h : Vlan) : Prop where
  pcp : h.pcp < 8
  cfi : h.cfi < 2
  id : h.id < 4096
  ethType : h.ethType < 65536

/-- the tag control word: 3 bits priority, 1 bit CFI/DEI, 12 bits VLAN id -/
def vlanTci (h : Vlan) : Nat := h.pcp * 8192 + h.cfi * 4096 + h.id

def vlanBytes (h : Vlan) : Bytes := be16 (vlanTci h) ++ be16 h.ethType

theorem vlan_tci (h : Vlan) (hf : h.Fits) : ((h.pcp <<< 13) ||| (h.cfi <<< 12)) ||| h.id = vlanTci h := by
  have hc := hf.cfi
  have hi := hf.id
  have e1 : (h.pcp <<< 13) ||| (h.cfi <<< 12) = (h.pcp * 2 + h.cfi) <<< 12 := by
    rw [shl_or _ _ 13 (by rw [Nat.shiftLeft_eq]; omega), Nat.shiftLeft_eq, Nat.shiftLeft_eq]; omega
  rw [e1, shl_or _ _ 12 (by omega)]
  unfold vlanTci; omega

theorem vlan_encode (h : Vlan) (hf : h.Fits) : encode vlanL [.num (vlanTci h), .num h.ethType] = some (vlanBytes h) := by
  have : vlanTci h < 65536 := by unfold vlanTci; have := hf.pcp; have := hf.cfi; have := hf.id; omega
  simp [vlanL, encode, vlanBytes, be16, this, hf.ethType]

theorem vlanHdr_ok (h : Vlan) (hf : h.Fits) : vlanHdr h = .ok (vlanBytes h) := by
  unfold vlanHdr; rw [vlan_tci h hf]; exact pk_of_encode (vlan_encode h hf)

theorem vlan_parse (next : Kind → Bytes → Pkt) (h : Vlan) (payload : Bytes) (hf : h.Fits) :
    vlanParse next (vlanBytes h ++ payload) = .vlan h (parseNext next h.ethType payload) := by
  have ht : vlanTci h < 65536 := by unfold vlanTci; have := hf.pcp; have := hf.cfi; have := hf.id; omega
  have hfit : fits vlanL [.num (vlanTci h), .num h.ethType] := by simp [vlanL, fits, ht, hf.ethType]
  obtain ⟨hu, hd, hl⟩ := unpack_take vlanL _ _ payload (vlan_encode h hf) hfit
  have hsz : size vlanL = 4 := rfl
  rw [hsz] at hu hd hl
  unfold vlanParse
  simp only [hu, hd, List.length_append, hl]
  have c1 : ¬ (4 + payload.length < 4) := by omega
  have hp := hf.pcp; have hc := hf.cfi; have hi := hf.id
  have e1 : vlanTci h / 8192 = h.pcp := by unfold vlanTci; omega
  have e2 : vlanTci h / 4096 % 2 = h.cfi := by unfold vlanTci; omega
  have e3 : vlanTci h % 4096 = h.id := by unfold vlanTci; omega
  simp [c1, e1, e2, e3]

structure Arp.Fits (h : Arp) : Prop where
  hwtype : h.hwtype = 1
  prototype : h.prototype = 0x0800
  hwlen : h.hwlen = 6
  protolen : h.protolen = 4
  opcode : h.opcode < 65536
  hwsrc : h.hwsrc.length = 6
  protosrc : h.protosrc < 4294967296
  hwdst : h.hwdst.length = 6
  protodst : h.protodst < 4294967296

def arpVals (h : Arp) : List Val :=
  [.num h.hwtype, .num h.prototype, .num h.hwlen, .num h.protolen, .num h.opcode, .raw h.hwsrc, .num h.protosrc,
   .raw h.hwdst, .num h.protodst]

theorem arp_fits (h : Arp) (hf : h.Fits) : fits arpL (arpVals h) := by
  simp [arpL, arpVals, fits, hf.hwtype, hf.prototype, hf.hwlen, hf.protolen, hf.opcode, hf.hwsrc, hf.protosrc, hf.hwdst,
    hf.protodst]

theorem arp_parse (h : Arp) (payload : Bytes) (hf : h.Fits) :
    ∃ bs, arpHdr h = .ok bs ∧ bs.length = 28 ∧ arpParse (bs ++ payload) = .arp h (.raw payload) := by
  obtain ⟨bs, he⟩ := encode_some_of_fits arpL (arpVals h) (arp_fits h hf)
  obtain ⟨hu, hd, hl⟩ := unpack_take arpL _ _ payload he (arp_fits h hf)
  have hsz : size arpL = 28 := rfl
  rw [hsz] at hu hd hl
  refine ⟨bs, pk_of_encode he, hl, ?_⟩
  unfold arpParse
  simp only [hu, hd, List.length_append, hl, arpVals]
  have c1 : ¬ (28 + payload.length < 28) := by omega
  have h1 := hf.hwtype; have h2 := hf.prototype; have h3 := hf.hwlen; have h4 := hf.protolen
  simp [c1, hf.hwtype, hf.prototype, hf.hwlen, hf.protolen]
  cases h; simp_all

structure Echo.Fits (h : Echo) : Prop where
  id : h.id < 65536
  seq : h.seq < 65536

def echoBytes (h : Echo) : Bytes := be16 h.id ++ be16 h.seq

theorem echo_encode (h : Echo) (hf : h.Fits) : encode echoL [.num h.id, .num h.seq] = some (echoBytes h) := by
  simp [echoL, encode, echoBytes, be16, hf.id, hf.seq]

theorem echoHdr_ok (h : Echo) (hf : h.Fits) : echoHdr h = .ok (echoBytes h) := pk_of_encode (echo_encode h hf)

theorem echo_parse (h : Echo) (payload : Bytes) (hf : h.Fits) :
    echoParse (echoBytes h ++ payload) = .echo h (.raw payload) := by
  have hfit : fits echoL [.num h.id, .num h.seq] := by simp [echoL, fits, hf.id, hf.seq]
  obtain ⟨hu, hd, hl⟩ := unpack_take echoL _ _ payload (echo_encode h hf) hfit
  have hsz : size echoL = 4 := rfl
  rw [hsz] at hu hd hl
  unfold echoParse
  simp only [hu, hd, List.length_append, hl]
  have c1 : ¬ (4 + payload.length < 4) := by omega
  simp [c1]

structure Unreach.Fits (h : Unreach) : Prop where
  unused : h.unused < 65536
  nextMtu : h.nextMtu < 65536

def unreachBytes (h : Unreach) : Bytes := be16 h.unused ++ be16 h.nextMtu

theorem unreach_encode (h : Unreach) (hf : h.Fits) :
    encode unreachL [.num h.unused, .num h.nextMtu] = some (unreachBytes h) := by
  simp [unreachL, encode, unreachBytes, be16, hf.unused, hf.nextMtu]

theorem unreachHdr_ok (h : Unreach) (hf : h.Fits) : unreachHdr h = .ok (unreachBytes h) :=
  pk_of_encode (unreach_encode h hf)

/-- an ICMP error quotes the offending datagram: ≥ 24 quoted bytes are parsed as IPv4 -/
def quoted (next : Kind → Bytes → Pkt) (payload : Bytes) : Pkt :=
  if payload.length ≥ 24 then next .ipv4 payload else .raw payload

theorem quoteDispatch_eq (next : Kind → Bytes → Pkt) (hd payload : Bytes) (hl : hd.length = 4) :
    quoteDispatch next (hd ++ payload) = quoted next payload := by
  unfold quoteDispatch quoted
  rw [drop_left hd payload 4 hl.symm, List.length_append, hl]
  by_cases h : payload.length ≥ 24
  · have : 4 + payload.length ≥ 28 := by omega
    simp [h, this]
  · have : ¬ (4 + payload.length ≥ 28) := by omega
    simp [h, this]

theorem unreach_parse (next : Kind → Bytes → Pkt) (h : Unreach) (payload : Bytes) (hf : h.Fits) :
    unreachParse next (unreachBytes h ++ payload) = .unreach h (quoted next payload) := by
  have hfit : fits unreachL [.num h.unused, .num h.nextMtu] := by simp [unreachL, fits, hf.unused, hf.nextMtu]
  obtain ⟨hu, hd, hl⟩ := unpack_take unreachL _ _ payload (unreach_encode h hf) hfit
  have hsz : size unreachL = 4 := rfl
  rw [hsz] at hu hd hl
  unfold unreachParse
  rw [quoteDispatch_eq next _ payload hl]
  simp only [hu, List.length_append, hl]
  have c1 : ¬ (4 + payload.length < 4) := by omega
  simp [c1]

structure TimeEx.Fits (h : TimeEx) : Prop where
  unused : h.unused < 4294967296

def timeExBytes (h : TimeEx) : Bytes := beEnc 4 h.unused

theorem timeEx_encode (h : TimeEx) (hf : h.Fits) : encode timeExL [.num h.unused] = some (timeExBytes h) := by
  simp [timeExL, encode, timeExBytes, hf.unused]

theorem timeExHdr_ok (h : TimeEx) (hf : h.Fits) : timeExHdr h = .ok (timeExBytes h) :=
  pk_of_encode (timeEx_encode h hf)

theorem timeEx_parse (next : Kind → Bytes → Pkt) (h : TimeEx) (payload : Bytes) (hf : h.Fits) :
    timeExParse next (timeExBytes h ++ payload) = .timeEx h (quoted next payload) := by
  have hfit : fits timeExL [.num h.unused] := by simp [timeExL, fits, hf.unused]
  obtain ⟨hu, hd, hl⟩ := unpack_take timeExL _ _ payload (timeEx_encode h hf) hfit
  have hsz : size timeExL = 4 := rfl
  rw [hsz] at hu hd hl
  unfold timeExParse
  rw [quoteDispatch_eq next _ payload hl]
  simp only [hu, List.length_append, hl]
  have c1 : ¬ (4 + payload.length < 4) := by omega
  simp [c1]

end Pox.Packet
