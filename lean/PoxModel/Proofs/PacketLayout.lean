import PoxModel.Model.PacketLayout
/-! Generic struct-layout round trip (DESIGN Appendix D.6), core only. -/
namespace Pox.PktLayout
open Pox

attribute [simp] beEnc_length

theorem decode_encode (L : Layout) (vs : List Val) (rest : Bytes) (hf : fits L vs) :
    ∃ bs, encode L vs = some bs ∧ decode L (bs ++ rest) = some (vs, rest) ∧ bs.length = size L := by
  induction L generalizing vs with
  | nil =>
    cases vs with
    | nil => exact ⟨[], rfl, rfl, rfl⟩
    | cons v vs => simp [fits] at hf
  | cons f L ih =>
    cases f with
    | uint w =>
      cases vs with
      | nil => simp [fits] at hf
      | cons v vs =>
        cases v with
        | raw b => simp [fits] at hf
        | num n =>
          obtain ⟨hn, hf'⟩ := hf
          obtain ⟨bs, he, hd, hl⟩ := ih vs hf'
          refine ⟨beEnc w n ++ bs, by simp [encode, he, hn], ?_, by simp [size, hl]⟩
          simp [decode, List.append_assoc, List.drop_append, List.take_append, hd, beDec_beEnc w n hn]
    | pad n =>
      obtain ⟨bs, he, hd, hl⟩ := ih vs (by simpa [fits] using hf)
      refine ⟨List.replicate n 0 ++ bs, by simp [encode, he], ?_, by simp [size, hl]⟩
      simp [decode, List.append_assoc, List.drop_append, hd]
    | blob n =>
      cases vs with
      | nil => simp [fits] at hf
      | cons v vs =>
        cases v with
        | num k => simp [fits] at hf
        | raw b =>
          obtain ⟨hb, hf'⟩ := hf
          obtain ⟨bs, he, hd, hl⟩ := ih vs hf'
          refine ⟨b ++ bs, by simp [encode, he, hb], ?_, by simp [size, hl, hb]⟩
          subst hb
          simp [decode, List.append_assoc, List.drop_append, List.take_append, hd]

/-- `struct.unpack(fmt, struct.pack(fmt, *vs)) == vs` -/
theorem unpack_encode (L : Layout) (vs : List Val) (hf : fits L vs) :
    ∃ bs, encode L vs = some bs ∧ unpack L bs = some vs ∧ bs.length = size L := by
  obtain ⟨bs, he, hd, hl⟩ := decode_encode L vs [] hf
  refine ⟨bs, he, ?_, hl⟩
  simp only [List.append_nil] at hd
  simp [unpack, hl, hd]

/-- the header followed by a payload: decoding the first `size L` bytes gives the values back -/
theorem unpack_take (L : Layout) (vs : List Val) (bs rest : Bytes) (he : encode L vs = some bs) (hf : fits L vs) :
    unpack L ((bs ++ rest).take (size L)) = some vs ∧ (bs ++ rest).drop (size L) = rest ∧ bs.length = size L := by
  obtain ⟨bs', he', hu, hl⟩ := unpack_encode L vs hf
  have : bs' = bs := by rw [he] at he'; exact (Option.some.inj he').symm
  subst this
  refine ⟨?_, ?_, hl⟩
  · rw [← hl]; simp [hu]
  · rw [← hl]; simp

theorem encode_some_of_fits (L : Layout) (vs : List Val) (hf : fits L vs) : ∃ bs, encode L vs = some bs :=
  let ⟨bs, he, _, _⟩ := decode_encode L vs [] hf
  ⟨bs, he⟩

end Pox.PktLayout
