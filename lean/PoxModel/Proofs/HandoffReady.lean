import PoxModel.Proofs.HandoffWake
/-! # C07: the ready queue under `schedule()` (`schedule_atmost1`, no lost wake-up) -/
namespace Pox.Handoff

/-! ## the ready queue under `schedule()` -/

/-- the scheduler thread is executing task `u` or is committed to put it into `ready` -/
def holds (pc : SPc) (tasks : List Kind) (u : TaskId) : Prop :=
  match pc with
  | .userBody t => t = u
  | .cycAppend t => t = u
  | .stFs st .append => ∃ r, tasks[st]? = some (.st u r)
  | .usContains t _ => t = u
  | .usFs t v .append => t = u ∨ v = u
  | .usFs t _ _ => t = u
  | .ucLock t | .ucIsNone t | .ucCreate t | .ucContains t _ | .ucUnlock t | .ucAppend t | .ucPing t => t = u
  | .ucFs t c .append => t = u ∨ c = u
  | .ucFs t _ _ => t = u
  | _ => False

structure InvU (s : State) : Prop where
  len : s.nUsers ≤ s.tasks.length
  fsp : ∀ (i : Nat) (f : FThread) ctx st p, s.fs[i]? = some f → f.pc = FPc.fsp ctx st p → s.nUsers ≤ st
  clt : ∀ c, s.cltTask = some c → s.nUsers ≤ c
  hubS : ∀ t p, s.s = .hub (.ret t p) → s.nUsers ≤ t
  hubH : ∀ t p, s.h = .hub (.ret t p) → s.nUsers ≤ t
  stS : ∀ st p, s.s = .stFs st p → ∃ tg r, s.tasks[st]? = some (.st tg r)
  cnt : ∀ u, u < s.nUsers → s.ready.count u ≤ 1
  hold : ∀ u, u < s.nUsers → holds s.s s.tasks u → u ∉ s.ready
  sig : ∀ st tg r, s.s = .stFs st .signal → s.tasks[st]? = some (.st tg r) → tg ∈ s.ready
  /-- no user task's program schedules the task itself (the documented exception of `schedule()`) -/
  noSelf : ∀ (t : Nat) (prog : List UItem), s.tasks[t]? = some (.user prog) → UItem.sched t ∉ prog
  usNe : ∀ t v, (s.s = .usContains t v ∨ ∃ p, s.s = .usFs t v p) → v ≠ t
  ucS : ∀ t c, (s.s = .ucContains t c ∨ ∃ p, s.s = .ucFs t c p) → s.nUsers ≤ c

theorem cltReadable_some {s : State} {c : TaskId} (h : cltReadable s = some c) : s.cltTask = some c := by
  simp only [cltReadable] at h
  split at h
  · split at h
    · cases h; assumption
    · cases h
  · cases h

theorem count_tail_le {u t : Nat} {l rest : List Nat} (h : l = t :: rest) (hc : l.count u ≤ 1) : rest.count u ≤ 1 := by
  subst h; rw [List.count_cons] at hc; omega

theorem not_mem_tail_of_count {t : Nat} {l rest : List Nat} (h : l = t :: rest) (hc : l.count t ≤ 1) : t ∉ rest := by
  subst h; simp at hc
  exact List.count_eq_zero.mp hc

theorem count_append_single {u t : Nat} {l : List Nat} (hc : l.count u ≤ 1) (hn : u = t → u ∉ l) :
    (l ++ [t]).count u ≤ 1 := by
  by_cases h : u = t
  · subst h; simp [List.count_eq_zero.mpr (hn rfl)]
  · have : (t == u) = false := by simp; exact fun e => h e.symm
    simp [List.count_cons, this, hc]

theorem count_cons_single {u t : Nat} {l : List Nat} (hc : l.count u ≤ 1) (hn : u = t → u ∉ l) :
    (t :: l).count u ≤ 1 := by
  by_cases h : u = t
  · subst h; simp [List.count_eq_zero.mpr (hn rfl)]
  · have : (t == u) = false := by simp; exact fun e => h e.symm
    simp [List.count_cons, this, hc]

/-- user-task entries of the heap are only ever shortened by the scheduler thread; nobody creates new ones -/
def UStable (l l' : List Kind) : Prop :=
  ∀ (t : Nat) (prog : List UItem), l'[t]? = some (Kind.user prog) → l[t]? = some (Kind.user prog)

theorem UStable.refl (l : List Kind) : UStable l l := fun _ _ h => h

theorem UStable.append (l : List Kind) (x : Kind) (hx : ∀ p, x ≠ .user p) : UStable l (l ++ [x]) := by
  intro t prog h
  rcases Nat.lt_trichotomy t l.length with hlt | heq | hgt
  · rwa [List.getElem?_append_left hlt] at h
  · subst heq; simp at h; exact absurd h (hx prog)
  · rw [List.getElem?_eq_none (by simp; omega)] at h; cases h

theorem UStable.set (l : List Kind) (k : Nat) (v : Kind) (hv : ∀ p, v ≠ .user p) : UStable l (l.set k v) := by
  intro t prog h
  rw [List.getElem?_set] at h
  split at h
  · split at h
    · cases h; exact absurd rfl (hv prog)
    · cases h
  · exact h

theorem noSelf_set {l : List Kind} {t : Nat} {old new : Kind}
    (h : ∀ (t : Nat) (prog : List UItem), l[t]? = some (.user prog) → UItem.sched t ∉ prog) (ht : l[t]? = some old)
    (hnew : ∀ p', new = .user p' → ∃ p, old = .user p ∧ ∀ x ∈ p', x ∈ p) :
    ∀ (t' : Nat) (prog' : List UItem), (l.set t new)[t']? = some (.user prog') → UItem.sched t' ∉ prog' := by
  intro t' prog' hl hm
  rcases set_cases ht hl with ⟨rfl, hx⟩ | ⟨_, hl⟩
  · obtain ⟨p, rfl, hsub⟩ := hnew prog' hx.symm
    exact h _ p ht (hsub _ hm)
  · exact h t' prog' hl hm

theorem stepS_U {s s' : State} (h : InvU s) (hs : stepS s = some s') : InvU s' := by
  obtain ⟨hlen, hfsp, hclt, hhubS, hhubH, hstS, hcnt, hhold, hsig, hnoSelf, husNe, hucS⟩ := h
  s_cases hs s hpc
  all_goals refine ⟨?_, hfsp, ?_, ?_, hhubH, ?_, ?_, ?_, ?_, ?_, ?_, ?_⟩
  all_goals first
    -- len
    | exact hlen
    | (show _ ≤ (List.set _ _ _).length; rw [List.length_set]; exact hlen)
    | (show _ ≤ (_ ++ [_]).length; rw [List.length_append]; exact Nat.le_trans hlen (Nat.le_add_right _ _))
    -- clt
    | exact hclt
    | (intro c hc; cases hc; exact hlen)
    -- noSelf
    | exact hnoSelf
    | exact noSelf_set hnoSelf (by assumption) (by
        intro p' hp'
        first
          | (cases hp'; done)
          | (cases hp'; exact ⟨_, rfl, fun x hx => List.mem_cons_of_mem _ hx⟩))
    | exact fun t prog hl => hnoSelf t prog (UStable.append _ _ (by intro p hp; cases hp) t prog hl)
    -- usNe / ucS
    | (intro a b hp; rcases hp with hp | ⟨p, hp⟩ <;> first
        | (cases hp; done)
        | (cases hp; exact husNe _ _ (Or.inl hpc))
        | (cases hp; exact husNe _ _ (Or.inr ⟨_, hpc⟩))
        | (cases hp; exact hucS _ _ (Or.inl hpc))
        | (cases hp; exact hucS _ _ (Or.inr ⟨_, hpc⟩))
        | (cases hp; exact hlen)
        | (cases hp; intro e; subst e; rename_i heq; exact hnoSelf _ _ heq List.mem_cons_self))
    -- hubS / stS : the new program counter is not of that shape
    | (intro a b hp; cases hp; done)
    -- hubS
    | (intro a b hp; cases hp; exact hhubS _ _ hpc)
    | (intro a b hp; cases hp; exact hclt _ (by assumption))
    | (intro a b hp; cases hp; exact hclt _ (cltReadable_some (by assumption)))
    -- stS
    | (intro a b hp; cases hp; exact ⟨_, _, by assumption⟩)
    | (intro a b hp; cases hp; done)
    -- sig : not at the signal position
    | (intro a b c hp; cases hp; done)
    -- cnt
    | exact hcnt
    | (intro u hu; exact count_tail_le (by assumption) (hcnt u hu))
    -- hold : nothing held
    | (intro u hu hh; simp only [holds] at hh; done)
    -- cnt : something is appended
    | (intro u hu; exact count_append_single (hcnt u hu)
        (fun e => hhold u hu (by rw [hpc]; simp only [holds]; exact e.symm)))
    | (intro u hu; exact count_append_single (hcnt u hu)
        (fun e => hhold u hu (by rw [hpc]; simp only [holds]; exact Or.inr e.symm)))
    | (intro u hu; dsimp only at hu; exact count_append_single (hcnt u hu) (fun e => by have := hhubS _ _ hpc; omega))
    | (intro u hu; dsimp only at hu; exact count_append_single (hcnt u hu)
        (fun e => by have := hucS _ _ (Or.inr ⟨_, hpc⟩); omega))
    | (intro u hu; rename_i heq; exact count_cons_single (hcnt u hu)
        (fun e => hhold u hu (by rw [hpc]; simp only [holds]; exact ⟨_, e ▸ heq⟩)))
    -- hold : a task was popped / keeps being held
    | (intro u hu hh; simp only [holds] at hh; subst hh; exact not_mem_tail_of_count (by assumption) (hcnt _ hu))
    | (intro u hu hh; simp only [holds] at hh; subst hh; exact hhold _ hu (by rw [hpc]; simp only [holds]))
    | (intro u hu hh; simp only [holds] at hh; subst hh; exact hhold _ hu (by rw [hpc]; exact Or.inl rfl))
    | (intro u hu hh; simp only [holds] at hh; obtain ⟨r, hr⟩ := hh; rename_i heq hni; rw [heq] at hr; cases hr; exact hni)
    | (intro u hu hh; simp only [holds] at hh; rcases hh with hh | hh
       · subst hh; exact hhold _ hu (by rw [hpc]; simp only [holds])
       · subst hh; assumption)
    | (intro u hu hh; dsimp only at hu; simp only [holds] at hh; rcases hh with hh | hh
       · subst hh; exact hhold _ hu (by rw [hpc]; simp only [holds])
       · subst hh; have := hucS _ _ (Or.inl hpc); omega)
    | (intro u hu hh hm; dsimp only at hh hm; simp only [holds] at hh; subst hh
       rcases List.mem_append.mp hm with hm | hm
       · exact hhold _ hu (by rw [hpc]; exact Or.inl rfl) hm
       · have := List.mem_singleton.mp hm; exact husNe _ _ (Or.inr ⟨_, hpc⟩) this.symm)
    | (intro u hu hh hm; dsimp only at hh hm hu; simp only [holds] at hh; subst hh
       rcases List.mem_append.mp hm with hm | hm
       · exact hhold _ hu (by rw [hpc]; exact Or.inl rfl) hm
       · have := List.mem_singleton.mp hm; have := hucS _ _ (Or.inr ⟨_, hpc⟩); omega)
    -- sig
    | (intro a b c hp hl; cases hp; rename_i heq; rw [heq] at hl; cases hl; exact List.mem_cons_self)

theorem stepH_U {s s' : State} (h : InvU s) (hs : stepH s = some s') : InvU s' := by
  obtain ⟨hlen, hfsp, hclt, hhubS, hhubH, hstS, hcnt, hhold, hsig, hnoSelf, husNe, hucS⟩ := h
  h_cases hs s hpc
  all_goals refine ⟨hlen, hfsp, hclt, hhubS, ?_, hstS, ?_, ?_, ?_, hnoSelf, husNe, hucS⟩
  all_goals first
    -- hubH
    | (intro a b hp; cases hp; done)
    | (intro a b hp; cases hp; exact hhubH _ _ hpc)
    | (intro a b hp; cases hp; exact hclt _ (by assumption))
    | (intro a b hp; cases hp; exact hclt _ (cltReadable_some (by assumption)))
    -- cnt / hold / sig unchanged
    | exact hcnt
    | exact hhold
    | exact hsig
    -- ret append
    | (intro u hu; dsimp only at hu; exact count_append_single (hcnt u hu) (fun e => by have := hhubH _ _ hpc; omega))
    | (intro u hu hh hm; dsimp only at hu; rcases List.mem_append.mp hm with hm | hm
       · exact hhold u hu hh hm
       · simp at hm; have := hhubH _ _ hpc; omega)
    | (intro a b c hp hl; exact List.mem_append_left _ (hsig a b c hp hl))

/-- lookups of ScheduleTask entries are not disturbed -/
def StStable (l l' : List Kind) : Prop :=
  ∀ (st : Nat) (tg : TaskId) (r : Bool), (∃ tg0 r0, l[st]? = some (Kind.st tg0 r0)) →
    (l'[st]? = some (Kind.st tg r) ↔ l[st]? = some (Kind.st tg r))

theorem StStable.refl (l : List Kind) : StStable l l := fun _ _ _ _ => Iff.rfl

theorem StStable.append (l : List Kind) (x : Kind) : StStable l (l ++ [x]) := by
  intro st tg r ⟨tg0, r0, h0⟩
  rw [List.getElem?_append_left (getElem?_lt h0)]

theorem StStable.set_sync {l : List Kind} {k : Nat} {o il ol ph} (v : Kind) (hk : l[k]? = some (.sync o il ol ph)) :
    StStable l (l.set k v) := by
  intro st tg r ⟨tg0, r0, h0⟩
  have : k ≠ st := by intro e; subst e; rw [hk] at h0; cases h0
  rw [List.getElem?_set]; simp [this]

theorem holds_stable {pc : SPc} {l l' : List Kind} {u : TaskId} (hst : StStable l l')
    (h0 : ∀ st p, pc = .stFs st p → ∃ tg r, l[st]? = some (.st tg r)) (h : holds pc l' u) : holds pc l u := by
  cases pc with
  | stFs st p =>
    cases p with
    | append => obtain ⟨r, hr⟩ := h; exact ⟨r, (hst st u r (h0 st _ rfl)).mp hr⟩
    | assert => exact h
    | signal => exact h
  | usFs t v p => cases p <;> exact h
  | ucFs t c p => cases p <;> exact h
  | _ => exact h

theorem InvU.frameF {s s' : State} {i : Nat} {f f' : FThread} (h : InvU s) (hf : s.fs[i]? = some f)
    (hfs : s'.fs = s.fs.set i f') (hS : s'.s = s.s) (hH : s'.h = s.h) (hn : s'.nUsers = s.nUsers)
    (hlen : s.tasks.length ≤ s'.tasks.length) (hst : StStable s.tasks s'.tasks) (hus : UStable s.tasks s'.tasks)
    (hclt : ∀ c, s'.cltTask = some c → s.cltTask = some c ∨ s.nUsers ≤ c)
    (hpc : ∀ ctx st p, f'.pc = .fsp ctx st p → (∃ ctx' p', f.pc = .fsp ctx' st p') ∨ s.nUsers ≤ st)
    (hready : s'.ready = s.ready ∨ ∃ t, s.nUsers ≤ t ∧ s'.ready = s.ready ++ [t]) : InvU s' := by
  obtain ⟨h1, h2, h3, h4, h5, h6, h7, h8, h9, h10, h11, h12⟩ := h
  have hmem : ∀ u, u < s.nUsers → (u ∈ s'.ready ↔ u ∈ s.ready) := by
    intro u hu
    rcases hready with hr | ⟨t, ht, hr⟩
    · rw [hr]
    · rw [hr]; simp; omega
  have hsub : ∀ x, x ∈ s.ready → x ∈ s'.ready := by
    intro x hx
    rcases hready with hr | ⟨t, _, hr⟩
    · rw [hr]; exact hx
    · rw [hr]; exact List.mem_append_left _ hx
  refine ⟨by rw [hn]; omega, ?_, ?_, ?_, ?_, ?_, ?_, ?_, ?_, fun t prog hl => h10 t prog (hus t prog hl),
    fun t v hp => h11 t v (by rw [hS] at hp; exact hp),
    fun t c hp => by rw [hn]; exact h12 t c (by rw [hS] at hp; exact hp)⟩
  · intro j g ctx st p hg hp
    rw [hn]; rw [hfs] at hg
    rcases set_cases hf hg with ⟨rfl, rfl⟩ | ⟨_, hg⟩
    · rcases hpc ctx st p hp with ⟨ctx', p', hp'⟩ | hb
      · exact h2 _ f ctx' st p' hf hp'
      · exact hb
    · exact h2 j g ctx st p hg hp
  · intro c hc; rw [hn]
    rcases hclt c hc with hc | hc
    · exact h3 c hc
    · exact hc
  · intro t p hp; rw [hn]; rw [hS] at hp; exact h4 t p hp
  · intro t p hp; rw [hn]; rw [hH] at hp; exact h5 t p hp
  · intro st p hp; rw [hS] at hp
    obtain ⟨tg, r, hl⟩ := h6 st p hp
    exact ⟨tg, r, (hst st tg r ⟨tg, r, hl⟩).mpr hl⟩
  · intro u hu; rw [hn] at hu
    rcases hready with hr | ⟨t, ht, hr⟩
    · rw [hr]; exact h7 u hu
    · rw [hr]; exact count_append_single (h7 u hu) (fun e => by omega)
  · intro u hu hh; rw [hn] at hu; rw [hS] at hh
    rw [hmem u hu]
    exact h8 u hu (holds_stable hst (fun st p hp => h6 st p hp) hh)
  · intro st tg r hp hl; rw [hS] at hp
    obtain ⟨tg0, r0, hl0⟩ := h6 st _ hp
    exact hsub _ (h9 st tg r hp ((hst st tg r ⟨tg0, r0, hl0⟩).mp hl))

theorem stepF_U {s s' : State} {i : Nat} (h : InvU s) (hs : stepF s i = some s') : InvU s' := by
  f_cases hs s i f hf hpc
  all_goals refine h.frameF hf rfl rfl rfl rfl ?_ ?_ ?_ ?_ ?_ ?_
  all_goals first
    -- user entries
    | exact UStable.refl _
    | exact UStable.append _ _ (by intro p hp; cases hp)
    | exact UStable.set _ _ _ (by intro p hp; cases hp)
    -- length
    | exact Nat.le_refl _
    | (show _ ≤ (List.set _ _ _).length; rw [List.length_set]; exact Nat.le_refl _)
    | (show _ ≤ (_ ++ [_]).length; simp)
    -- lookups of ScheduleTasks
    | exact StStable.refl _
    | exact StStable.append _ _
    | exact StStable.set_sync _ (by assumption)
    -- _callLaterTask
    | (intro c hc; exact Or.inl hc)
    | (intro c hc; cases hc; exact Or.inr h.len)
    -- the thread's own pending append
    | (intro a b c hp; cases hp; done)
    | (intro a b c hp; cases hp; exact Or.inr h.len)
    | (intro a b c hp; cases hp; exact Or.inl ⟨_, _, hpc⟩)
    -- ready
    | exact Or.inl rfl
    | exact Or.inr ⟨_, h.fsp _ _ _ _ _ hf hpc, rfl⟩

theorem stepT_U {s s' : State} {t : Tid} (h : InvU s) (hs : stepT s t = some s') : InvU s' := by
  obtain ⟨hlen, hfsp, hclt, hhubS, hhubH, hstS, hcnt, hhold, hsig, hnoSelf, husNe, hucS⟩ := h
  t_cases hs s t hpc
  all_goals first
    | exact ⟨hlen, hfsp, hclt, hhubS, hhubH, hstS, hcnt, hhold, hsig, hnoSelf, husNe, hucS⟩
    | (refine ⟨hlen, hfsp, hclt, ?_, hhubH, ?_, hcnt, ?_, ?_, hnoSelf, ?_, ?_⟩ <;> first
        | (intro a b hp; cases hp; done)
        | (intro a b c hp; cases hp; done)
        | (intro a b hp; rcases hp with hp | ⟨p, hp⟩ <;> (cases hp; done))
        | (intro u hu hh; simp only [holds] at hh; done))

/-- no user task's program schedules the task itself (`Scheduler.schedule`: "The one exception is if a Task actually
    schedules itself.  The easiest way to avoid this is simply not to do it.") -/
def usersOk (users : List (List UItem)) : Prop :=
  ∀ (t : Nat) (prog : List UItem), users[t]? = some prog → UItem.sched t ∉ prog

theorem init_U (threaded : Bool) (users : List (List UItem)) (progs : List (List Op)) (hok : usersOk users) :
    InvU (Handoff.init threaded users progs) := by
  refine ⟨by simp [Handoff.init], ?_, ?_, ?_, ?_, ?_, ?_, ?_, ?_, ?_, ?_, ?_⟩
  rotate_right 3
  · intro t prog hl
    simp only [Handoff.init, List.getElem?_map] at hl
    rcases hu : users[t]? with _ | q
    · simp [hu] at hl
    · simp [hu] at hl; subst hl; exact hok t q hu
  · intro t v hp; rcases hp with hp | ⟨p, hp⟩ <;> cases hp
  · intro t v hp; rcases hp with hp | ⟨p, hp⟩ <;> cases hp
  · intro i f ctx st p hf hp; obtain ⟨q, rfl⟩ := init_fs hf; cases hp
  · intro c hc; cases hc
  · intro t p hp; cases hp
  · intro t p hp; simp only [Handoff.init] at hp; split at hp <;> cases hp
  · intro st p hp; cases hp
  · intro u _; simp [Handoff.init]
  · intro u _ hh; simp [Handoff.init, holds] at hh
  · intro st tg r hp; cases hp

theorem reach_U {threaded users progs} {s : State} (hok : usersOk users) (hr : Reachable threaded users progs s) :
    InvU s :=
  hr.induct (init_U _ _ _ hok) (fun _ _ _ h hs => stepS_U h hs) (fun _ _ _ h hs => stepH_U h hs)
    (fun _ _ _ _ h hs => stepF_U h hs) (fun _ _ _ _ h hs => stepT_U h hs)

/-- the number of user tasks never changes -/
theorem reach_nUsers {threaded users progs} {s : State} (hr : Reachable threaded users progs s) :
    s.nUsers = users.length := by
  refine hr.induct (P := fun s => s.nUsers = users.length) rfl ?_ ?_ ?_ ?_
  · intro s s' _ h hs; s_cases hs s hpc <;> exact h
  · intro s s' _ h hs; h_cases hs s hpc <;> exact h
  · intro s s' i _ h hs; f_cases hs s i f hf hpc <;> exact h
  · intro s s' t _ h hs; t_cases hs s t hpc <;> exact h


/-- when a ScheduleTask's slice is over (the scheduler thread is back in its run loop), the task it was created for is
    in the ready queue: the wake-up was not lost -/
theorem st_done_in_ready {s s' : State} (h : InvU s) (hs : stepS s = some s') (st tg : TaskId) (r : Bool)
    (hpc0 : s.s = .stContains st ∨ ∃ p, s.s = .stFs st p) (hdone : s'.s = .runLen)
    (hl : s.tasks[st]? = some (.st tg r)) : tg ∈ s'.ready := by
  have hsig := h.sig
  have huniq : ∀ st', (s.s = .stContains st' ∨ ∃ p, s.s = .stFs st' p) → st' = st := by
    intro st' h'
    rcases hpc0 with hp | ⟨p, hp⟩ <;> rcases h' with hp' | ⟨p', hp'⟩ <;>
      (rw [hp] at hp'; first | (cases hp'; rfl) | cases hp')
  s_cases hs s hpc
  all_goals try (rcases hpc0 with hp | ⟨p, hp⟩ <;> (rw [hpc] at hp; cases hp; done))
  all_goals try (cases hdone; done)
  all_goals first
    | have hst := huniq _ (Or.inl hpc)
    | have hst := huniq _ (Or.inr ⟨_, hpc⟩)
  all_goals subst hst
  all_goals (rename_i heq; first
    | (rw [heq] at hl; cases hl; assumption)
    | (rw [heq] at hl; cases hl; exact hsig _ _ _ hpc heq)
    | (rename_i heq2; rw [heq2] at hl; cases hl; assumption)
    | (rename_i heq2; rw [heq2] at hl; cases hl; exact hsig _ _ _ hpc heq2))

end Pox.Handoff
