import PoxModel.Model.STree
/-! Post-condition of `_update_tree` (C19): whatever `_prev` held before, afterwards every port below `OFPP_MAX` of every
    connected switch that is in the tree has `_prev = (port in tree_ports or is_edge_port)`.  Core only. -/
namespace Pox.STree

theorem Prev.get_cons (k' : Nat × Nat) (b : Bool) (r : Prev) (k : Nat × Nat) :
    Prev.get ((k', b) :: r) k = if k' = k then some b else Prev.get r k := rfl

theorem Prev.get_filter_ne (k : Nat × Nat) : ∀ (pv : Prev) (k' : Nat × Nat), k ≠ k' →
    Prev.get (pv.filter fun e => e.1 ≠ k) k' = Prev.get pv k'
  | [], _, _ => rfl
  | (k0, b) :: r, k', hne => by
    by_cases h0 : k0 = k
    · subst h0
      simp only [List.filter_cons, ne_eq, not_true_eq_false, decide_false, Bool.false_eq_true, if_false, Prev.get_cons,
        if_neg hne]
      exact Prev.get_filter_ne k0 r k' hne
    · simp only [List.filter_cons, ne_eq, h0, not_false_eq_true, decide_true, if_true, Prev.get_cons]
      rw [Prev.get_filter_ne k r k' hne]

theorem Prev.get_set (pv : Prev) (k : Nat × Nat) (b : Bool) (k' : Nat × Nat) :
    (pv.set k b).get k' = if k = k' then some b else pv.get k' := by
  unfold Prev.set
  rw [Prev.get_cons]
  by_cases h : k = k'
  · simp [h]
  · simp only [h, if_false]; exact Prev.get_filter_ne k pv k' h

theorem Prev.get_clear (d : Nat) : ∀ (pv : Prev) (k : Nat × Nat),
    (pv.clear d).get k = if k.1 = d then none else pv.get k
  | [], k => by simp [Prev.clear, Prev.get]
  | (k0, b) :: r, k => by
    have ih := Prev.get_clear d r k
    unfold Prev.clear at ih ⊢
    by_cases h0 : k0.1 = d
    · simp only [List.filter_cons, ne_eq, h0, not_true_eq_false, decide_false, Bool.false_eq_true, if_false, Prev.get_cons]
      rw [ih]
      by_cases hk : k.1 = d
      · simp [hk]
      · have : k0 ≠ k := fun e => hk (e ▸ h0)
        simp [hk, this]
    · simp only [List.filter_cons, ne_eq, h0, not_false_eq_true, decide_true, if_true, Prev.get_cons]
      rw [ih]
      by_cases hk : k.1 = d
      · have : k0 ≠ k := fun e => h0 (e ▸ hk)
        simp [hk, this]
      · simp [hk]

theorem portLoop_get (adj : List Link) (tp : List Nat) (sw : Nat) :
    ∀ (ports : List Nat) (pv : Prev) (out : List PortMod) (k : Nat × Nat),
      (portLoop adj tp sw ports (pv, out)).1.get k =
        if k.1 = sw ∧ k.2 ∈ ports ∧ k.2 < OFPP_MAX then some (floodOf adj tp sw k.2) else pv.get k
  | [], pv, out, k => by simp [portLoop]
  | p :: ps, pv, out, k => by
    have lift : (k.1 = sw ∧ k.2 ∈ ps ∧ k.2 < OFPP_MAX) → (k.1 = sw ∧ k.2 ∈ p :: ps ∧ k.2 < OFPP_MAX) :=
      fun hc => ⟨hc.1, List.mem_cons_of_mem _ hc.2.1, hc.2.2⟩
    have head : ¬ (k.1 = sw ∧ k.2 ∈ ps ∧ k.2 < OFPP_MAX) → (k.1 = sw ∧ k.2 ∈ p :: ps ∧ k.2 < OFPP_MAX) → k = (sw, p) := by
      intro hc hc'
      rcases List.mem_cons.mp hc'.2.1 with e | e
      · exact Prod.ext hc'.1 e
      · exact absurd ⟨hc'.1, e, hc'.2.2⟩ hc
    unfold portLoop
    by_cases hp : p < OFPP_MAX
    · rw [if_pos hp]
      by_cases hg : pv.get (sw, p) = some (floodOf adj tp sw p)
      · rw [if_pos hg, portLoop_get adj tp sw ps pv out k]
        by_cases hc : k.1 = sw ∧ k.2 ∈ ps ∧ k.2 < OFPP_MAX
        · rw [if_pos hc, if_pos (lift hc)]
        · rw [if_neg hc]
          by_cases hc' : k.1 = sw ∧ k.2 ∈ p :: ps ∧ k.2 < OFPP_MAX
          · rw [if_pos hc', head hc hc']; exact hg
          · rw [if_neg hc']
      · rw [if_neg hg, portLoop_get adj tp sw ps _ _ k, Prev.get_set]
        by_cases hc : k.1 = sw ∧ k.2 ∈ ps ∧ k.2 < OFPP_MAX
        · rw [if_pos hc, if_pos (lift hc)]
        · rw [if_neg hc]
          by_cases hk : (sw, p) = k
          · subst hk
            rw [if_pos rfl, if_pos ⟨rfl, List.mem_cons_self, hp⟩]
          · rw [if_neg hk]
            have : ¬ (k.1 = sw ∧ k.2 ∈ p :: ps ∧ k.2 < OFPP_MAX) := fun c => hk (head hc c).symm
            rw [if_neg this]
    · rw [if_neg hp, portLoop_get adj tp sw ps pv out k]
      by_cases hc : k.1 = sw ∧ k.2 ∈ ps ∧ k.2 < OFPP_MAX
      · rw [if_pos hc, if_pos (lift hc)]
      · rw [if_neg hc]
        have : ¬ (k.1 = sw ∧ k.2 ∈ p :: ps ∧ k.2 < OFPP_MAX) := by
          intro c
          have := head hc c
          subst this
          exact hp c.2.2
        rw [if_neg this]

/-- what `_update_tree` establishes for switch `sw` -/
def Good (adj : List Link) (t : List TEdge) (conns : Conns) (pv : Prev) (sw : Nat) : Prop :=
  ∀ ports, conns.get sw = some ports → ∀ p ∈ ports, p < OFPP_MAX →
    pv.get (sw, p) = some (floodOf adj (treePorts t sw) sw p)

theorem swLoop_good (adj : List Link) (t : List TEdge) (conns : Conns) :
    ∀ (ks : List Nat) (acc : Prev × List PortMod),
      (∀ sw, Good adj t conns acc.1 sw → Good adj t conns (swLoop adj t conns ks acc).1 sw) ∧
      (∀ sw ∈ ks, Good adj t conns (swLoop adj t conns ks acc).1 sw)
  | [], acc => ⟨fun _ h => h, by simp⟩
  | k :: ks, acc => by
    unfold swLoop
    cases hc : conns.get k with
    | none =>
      simp only []
      obtain ⟨i1, i2⟩ := swLoop_good adj t conns ks acc
      refine ⟨i1, ?_⟩
      intro sw hsw
      rcases List.mem_cons.mp hsw with e | e
      · subst e; intro ports hp; rw [hc] at hp; cases hp
      · exact i2 sw e
    | some ports =>
      simp only []
      obtain ⟨pv, out⟩ := acc
      obtain ⟨i1, i2⟩ := swLoop_good adj t conns ks (portLoop adj (treePorts t k) k ports (pv, out))
      have pres : ∀ sw, Good adj t conns pv sw → Good adj t conns (portLoop adj (treePorts t k) k ports (pv, out)).1 sw := by
        intro sw hg ports' hp' p hp hlt
        rw [portLoop_get]
        by_cases hcnd : (sw, p).1 = k ∧ (sw, p).2 ∈ ports ∧ (sw, p).2 < OFPP_MAX
        · have hk : sw = k := hcnd.1
          subst hk
          simp [hcnd.2.1, hcnd.2.2]
        · simp only [hcnd, if_false]
          exact hg ports' hp' p hp hlt
      have estab : Good adj t conns (portLoop adj (treePorts t k) k ports (pv, out)).1 k := by
        intro ports' hp' p hp hlt
        rw [hc] at hp'; cases hp'
        rw [portLoop_get]
        simp [hp, hlt]
      refine ⟨fun sw h => i1 sw (pres sw h), ?_⟩
      intro sw hsw
      rcases List.mem_cons.mp hsw with e | e
      · subst e; exact i1 _ estab
      · exact i2 sw e

theorem Conns.mem_keys_of_get : ∀ (c : Conns) (k : Nat) (ps : List Nat), Conns.get c k = some ps → k ∈ c.map (·.1)
  | [], _, _, h => by simp [Conns.get] at h
  | (d, ps0) :: r, k, ps, h => by
    unfold Conns.get at h
    by_cases hd : d = k
    · simp [hd]
    · rw [if_neg hd] at h
      simp only [List.map_cons, List.mem_cons]
      exact .inr (Conns.mem_keys_of_get r k ps h)

/-- POST-CONDITION of `_update_tree()`, from ANY previous `_prev`, for every switch it goes through. -/
theorem updateTree_post (va : Bool) (adj : List Link) (order : List Nat) (conns : Conns) (pv pv' : Prev) (mods : List PortMod)
    (t : List TEdge) (ht : calcTreeL adj order = .ok t) (h : updateTree va adj order conns pv = .ok (pv', mods)) :
    ∀ sw ∈ visited va t conns, Good adj t conns pv' sw := by
  unfold updateTree at h
  rw [ht] at h
  simp only [Except.ok.injEq] at h
  intro sw hsw
  have := (swLoop_good adj t conns (visited va t conns) (pv, [])).2 sw hsw
  rw [h] at this
  exact this

/-- with the repair (every connected switch is visited) the post-condition holds for EVERY switch -/
theorem updateTree_post_all (adj : List Link) (order : List Nat) (conns : Conns) (pv pv' : Prev) (mods : List PortMod)
    (t : List TEdge) (ht : calcTreeL adj order = .ok t) (h : updateTree true adj order conns pv = .ok (pv', mods)) :
    ∀ sw, Good adj t conns pv' sw := by
  intro sw ports hp
  have hm : sw ∈ visited true t conns := by
    unfold visited; simp only [if_true]; exact Conns.mem_keys_of_get conns sw ports hp
  exact updateTree_post true adj order conns pv pv' mods t ht h sw hm ports hp

theorem updateTree_ok (va : Bool) (adj : List Link) (order : List Nat) (conns : Conns) (pv : Prev) (t : List TEdge)
    (ht : calcTreeL adj order = .ok t) : ∃ pv' mods, updateTree va adj order conns pv = .ok (pv', mods) := by
  unfold updateTree; rw [ht]; exact ⟨_, _, rfl⟩

end Pox.STree
