import PoxModel.Proofs.PacketExt
/-!
# LLDP: TLV lists survive `lldp.hdr` → `lldp.parse` (C14 phase 2; core only)
-/
namespace Pox.Packet
open Pox Pox.PktLayout Pox.Checksum

/-- TLVs the classes of lldp.py serialise and read back as themselves -/
def Tlv.OK : Tlv → Prop
  | .chassis st id => st < 256 ∧ 1 ≤ id.length ∧ id.length + 1 < 512
  | .port st id => st < 256 ∧ 1 ≤ id.length ∧ id.length + 1 < 512
  | .ttl v => v < 65536
  | .end_ => True
  | .payload t d => t < 128 ∧ t ≠ 0 ∧ t ≠ 1 ∧ t ≠ 2 ∧ t ≠ 3 ∧ t ≠ 7 ∧ t ≠ 8 ∧ t ≠ 127 ∧ d.length < 512
  | .caps c e => c < 65536 ∧ e < 65536
  | .mgmt ast addr ins ifn oid => ast < 256 ∧ addr.length + 1 < 256 ∧ ins < 256 ∧ ifn < 4294967296 ∧ oid.length < 256 ∧
      addr.length + oid.length + 8 < 512
  | .org oui st d => oui.length = 3 ∧ st < 256 ∧ d.length + 4 < 512

/-- the TLV information string -/
def tlvDataBytes : Tlv → Bytes
  | .chassis st id => beEnc 1 st ++ id
  | .port st id => beEnc 1 st ++ id
  | .ttl v => be16 v
  | .end_ => []
  | .payload _ d => d
  | .caps c e => be16 c ++ be16 e
  | .mgmt ast addr ins ifn oid =>
      (beEnc 1 (addr.length + 1) ++ beEnc 1 ast) ++ (addr ++ ((beEnc 1 ins ++ (beEnc 4 ifn ++ beEnc 1 oid.length)) ++ oid))
  | .org oui st d => (oui ++ beEnc 1 st) ++ d

/-- 7 bits type, 9 bits length, information string -/
def tlvBytes (t : Tlv) : Bytes := be16 (tlvType t * 512 + (tlvDataBytes t).length) ++ tlvDataBytes t

def lldpBytes : List Tlv → Bytes
  | [] => []
  | t :: r => tlvBytes t ++ lldpBytes r

theorem tlvData_len (t : Tlv) (h : t.OK) : (tlvDataBytes t).length < 512 := by
  cases t <;> simp only [Tlv.OK] at h <;> simp [tlvDataBytes] <;> omega

theorem tlvType_lt (t : Tlv) (h : t.OK) : tlvType t < 128 := by
  cases t <;> simp only [Tlv.OK] at h <;> simp [tlvType] <;> omega

theorem tlvData_ok (t : Tlv) (h : t.OK) : tlvData t = .ok (tlvDataBytes t) := by
  cases t with
  | chassis st id => simp only [Tlv.OK] at h; simp [tlvData, tlvDataBytes, pk, encode, h.1, bind, Except.bind, pure, Except.pure]
  | port st id => simp only [Tlv.OK] at h; simp [tlvData, tlvDataBytes, pk, encode, h.1, bind, Except.bind, pure, Except.pure]
  | ttl v => simp only [Tlv.OK] at h; simp [tlvData, tlvDataBytes, pk, encode, be16, h]
  | end_ => rfl
  | payload t d => rfl
  | caps c e => simp only [Tlv.OK] at h; simp [tlvData, tlvDataBytes, pk, encode, be16, h.1, h.2]
  | mgmt ast addr ins ifn oid =>
    simp only [Tlv.OK] at h
    obtain ⟨h1, h2, h3, h4, h5, _⟩ := h
    simp [tlvData, tlvDataBytes, pk, encode, h1, h2, h3, h4, h5, bind, Except.bind, pure, Except.pure]
  | org oui st d =>
    simp only [Tlv.OK] at h
    simp [tlvData, tlvDataBytes, pk, encode, h.1, h.2.1, bind, Except.bind, pure, Except.pure]

theorem tlvPack_ok (t : Tlv) (h : t.OK) : tlvPack t = .ok (tlvBytes t) := by
  have hl := tlvData_len t h
  have ht := tlvType_lt t h
  have hm : (tlvDataBytes t).length % 512 = (tlvDataBytes t).length := Nat.mod_eq_of_lt hl
  have hlt : tlvType t * 512 + (tlvDataBytes t).length < 65536 := by omega
  simp [tlvPack, tlvData_ok t h, pk, encode, hm, hlt, tlvBytes, be16, bind, Except.bind, pure, Except.pure]

theorem lldpHdr_ok (ts : List Tlv) (h : ∀ t ∈ ts, t.OK) : lldpHdr ts = .ok (lldpBytes ts) := by
  induction ts with
  | nil => rfl
  | cons t r ih =>
    have ih' := ih (fun q hq => h q (by simp [hq]))
    simp [lldpHdr, tlvPack_ok t (h t (by simp)), ih', lldpBytes, bind, Except.bind, pure, Except.pure]

/-! ## reading one TLV back -/

theorem headD_toNat_be1 (n : Nat) (h : n < 256) (r : Bytes) : ((beEnc 1 n ++ r).headD 0).toNat = n := by
  simp [beEnc, Nat.mod_eq_of_lt h]

theorem getU8_nil_at (X R : Bytes) (j : Nat) (hj : j < X.length) : getU8 (X ++ R) j = getU8 X j := by
  have := getU8_at' [] X R j hj
  simpa using this

theorem sl_nil_at (X R : Bytes) (a b : Nat) (hb : b ≤ X.length) : sl (X ++ R) a b = sl X a b := by
  have := sl_at [] X R a b hb
  simpa using this

theorem tlvParseData_rt (t : Tlv) (h : t.OK) : tlvParseData (tlvType t) (tlvDataBytes t) = some t := by
  cases t with
  | chassis st id =>
    simp only [Tlv.OK] at h
    have hl : ¬ ((beEnc 1 st ++ id).length < 2) := by simp; omega
    simp only [tlvParseData, tlvType, tlvDataBytes, hl, if_true, if_false, headD_toNat_be1 st h.1]
    simp [beEnc]
  | port st id =>
    simp only [Tlv.OK] at h
    have hl : ¬ ((beEnc 1 st ++ id).length < 2) := by simp; omega
    simp only [tlvParseData, tlvType, tlvDataBytes, hl, if_false, headD_toNat_be1 st h.1]
    simp [beEnc]
  | ttl v =>
    simp only [Tlv.OK] at h
    simp [tlvParseData, tlvType, tlvDataBytes, be16, beDec_beEnc 2 v (by simpa using h)]
  | end_ => simp [tlvParseData, tlvType, tlvDataBytes]
  | payload t d =>
    simp only [Tlv.OK] at h
    obtain ⟨_, n0, n1, n2, n3, n7, n8, n127, _⟩ := h
    simp [tlvParseData, tlvType, tlvDataBytes, n0, n1, n2, n3, n7, n8, n127]
  | caps c e =>
    simp only [Tlv.OK] at h
    have t1 : (be16 c ++ be16 e).take 2 = be16 c := take_left _ _ 2 (by simp)
    have t2 : (be16 c ++ be16 e).drop 2 = be16 e := drop_left _ _ 2 (by simp)
    simp [tlvParseData, tlvType, tlvDataBytes, t1, t2, be16, beDec_beEnc 2 c (by simpa using h.1),
      beDec_beEnc 2 e (by simpa using h.2)]
  | mgmt ast addr ins ifn oid =>
    simp only [Tlv.OK] at h
    obtain ⟨h1, h2, h3, h4, h5, _⟩ := h
    -- data = A ++ (addr ++ (B ++ oid)),  A = [len+1, subtype],  B = [ins, ifn(4), oidlen]
    have hA : (beEnc 1 (addr.length + 1) ++ beEnc 1 ast).length = 2 := by simp
    have hB : (beEnc 1 ins ++ (beEnc 4 ifn ++ beEnc 1 oid.length)).length = 6 := by simp
    have g0 : getU8 (tlvDataBytes (.mgmt ast addr ins ifn oid)) 0 = some (addr.length + 1) := by
      simp only [tlvDataBytes]
      rw [getU8_nil_at _ _ 0 (by simp)]
      simp [getU8, beEnc, Nat.mod_eq_of_lt h2]
    have g1 : getU8 (tlvDataBytes (.mgmt ast addr ins ifn oid)) 1 = some ast := by
      simp only [tlvDataBytes]
      rw [getU8_nil_at _ _ 1 (by simp)]
      simp [getU8, beEnc, Nat.mod_eq_of_lt h1]
    have g2 : getU8 (tlvDataBytes (.mgmt ast addr ins ifn oid)) (2 + addr.length) = some ins := by
      simp only [tlvDataBytes]
      rw [← List.append_assoc _ addr]
      have := getU8_at' ((beEnc 1 (addr.length + 1) ++ beEnc 1 ast) ++ addr)
        (beEnc 1 ins ++ (beEnc 4 ifn ++ beEnc 1 oid.length)) oid 0 (by simp)
      simp only [List.length_append, hA, Nat.add_zero] at this
      rw [this]
      simp [getU8, beEnc, Nat.mod_eq_of_lt h3]
    have g3 : getU8 (tlvDataBytes (.mgmt ast addr ins ifn oid)) (7 + addr.length) = some oid.length := by
      simp only [tlvDataBytes]
      rw [← List.append_assoc _ addr]
      have := getU8_at' ((beEnc 1 (addr.length + 1) ++ beEnc 1 ast) ++ addr)
        (beEnc 1 ins ++ (beEnc 4 ifn ++ beEnc 1 oid.length)) oid 5 (by simp)
      simp only [List.length_append, hA] at this
      have e : 7 + addr.length = 2 + addr.length + 5 := by omega
      rw [e, this]
      simp [getU8, beEnc, Nat.mod_eq_of_lt h5]
    have s1 : sl (tlvDataBytes (.mgmt ast addr ins ifn oid)) 2 (2 + addr.length) = addr := by
      simp only [tlvDataBytes]
      exact sl_mid _ addr _ 2 _ (by simp) (by simp)
    have s2 : sl (tlvDataBytes (.mgmt ast addr ins ifn oid)) (3 + addr.length) (7 + addr.length) = beEnc 4 ifn := by
      simp only [tlvDataBytes]
      rw [← List.append_assoc _ addr]
      have := sl_at ((beEnc 1 (addr.length + 1) ++ beEnc 1 ast) ++ addr)
        (beEnc 1 ins ++ (beEnc 4 ifn ++ beEnc 1 oid.length)) oid 1 5 (by simp)
      simp only [List.length_append, hA] at this
      have e1 : 3 + addr.length = 2 + addr.length + 1 := by omega
      have e2 : 7 + addr.length = 2 + addr.length + 5 := by omega
      rw [e1, e2, this]
      exact sl_mid (beEnc 1 ins) (beEnc 4 ifn) (beEnc 1 oid.length) 1 5 (by simp) (by simp)
    have s3 : sl (tlvDataBytes (.mgmt ast addr ins ifn oid)) (8 + addr.length) (8 + addr.length + oid.length) = oid := by
      simp only [tlvDataBytes]
      rw [← List.append_assoc _ addr, ← List.append_assoc _ (beEnc 1 ins ++ _)]
      exact sl_tail _ oid _ _ (by simp [hA]; omega) (by simp [hA]; omega)
    have hne : ¬ (addr.length + 1 = 0) := by omega
    have hsub : addr.length + 1 - 1 = addr.length := by omega
    simp only [tlvParseData, tlvType]
    simp only [g0, g1, hne, if_false, hsub, g2, g3, s1, s2, s3]
    simp [beDec_beEnc 4 ifn (by simpa using h4)]
  | org oui st d =>
    simp only [Tlv.OK] at h
    obtain ⟨h1, h2, h3⟩ := h
    have hl : ¬ (((oui ++ beEnc 1 st) ++ d).length < 4) := by simp [h1]; omega
    have t1 : ((oui ++ beEnc 1 st) ++ d).take 3 = oui := by
      rw [List.append_assoc]; exact take_left _ _ 3 h1.symm
    have t2 : ((oui ++ beEnc 1 st) ++ d).drop 3 = beEnc 1 st ++ d := by
      rw [List.append_assoc]; exact drop_left _ _ 3 h1.symm
    have t3 : ((oui ++ beEnc 1 st) ++ d).drop 4 = d := drop_left _ _ 4 (by simp [h1])
    simp only [tlvParseData, tlvType, tlvDataBytes]
    simp only [hl, t1, t2, t3, headD_toNat_be1 st h2]
    simp

theorem mgmt_len_ne0 (t : Tlv) (h : t.OK) (h8 : tlvType t = 8) : ¬ (getU8 (tlvDataBytes t) 0 = some 0) := by
  cases t with
  | mgmt ast addr ins ifn oid =>
    simp only [Tlv.OK] at h
    have g0 : getU8 (tlvDataBytes (.mgmt ast addr ins ifn oid)) 0 = some (addr.length + 1) := by
      simp only [tlvDataBytes]
      rw [getU8_nil_at _ _ 0 (by simp)]
      simp [getU8, beEnc, Nat.mod_eq_of_lt h.2.1]
    rw [g0]; simp
  | payload t d => simp only [Tlv.OK] at h; simp only [tlvType] at h8; omega
  | _ => simp [tlvType] at h8

/-- `next_tlv` on a serialised TLV followed by anything -/
theorem nextTlv_rt (t : Tlv) (h : t.OK) (rest : Bytes) :
    nextTlv (tlvBytes t ++ rest) = some (some (t, (tlvBytes t).length)) := by
  have hl := tlvData_len t h
  have ht := tlvType_lt t h
  have hlt : tlvType t * 512 + (tlvDataBytes t).length < 65536 := by omega
  have htake : (tlvBytes t ++ rest).take 2 = be16 (tlvType t * 512 + (tlvDataBytes t).length) := by
    unfold tlvBytes; rw [List.append_assoc]; exact take_left _ _ 2 (by simp)
  have hdec : beDec (be16 (tlvType t * 512 + (tlvDataBytes t).length)) = tlvType t * 512 + (tlvDataBytes t).length := by
    rw [be16, beDec_beEnc 2 _ (by simpa using hlt)]
  have e1 : (tlvType t * 512 + (tlvDataBytes t).length) / 512 = tlvType t := by omega
  have e2 : (tlvType t * 512 + (tlvDataBytes t).length) % 512 = (tlvDataBytes t).length := by omega
  have hbody : sl (tlvBytes t ++ rest) 2 (2 + (tlvDataBytes t).length) = tlvDataBytes t := by
    unfold tlvBytes; rw [List.append_assoc]
    exact sl_mid _ _ _ 2 _ (by simp) (by simp)
  have hlen : (tlvBytes t ++ rest).length = 2 + (tlvDataBytes t).length + rest.length := by
    simp [tlvBytes]; omega
  unfold nextTlv
  simp only [htake, hdec, e1, e2, hbody, hlen]
  have c0 : ¬ (2 + (tlvDataBytes t).length + rest.length < 2) := by omega
  have c1 : ¬ (2 + (tlvDataBytes t).length + rest.length < 2 + (tlvDataBytes t).length) := by omega
  have c2 : ¬ (tlvType t = 8 ∧ getU8 (tlvDataBytes t) 0 = some 0) := fun hh => mgmt_len_ne0 t h hh.1 hh.2
  simp only [c0, c1, c2, if_false, tlvParseData_rt t h]
  simp [tlvBytes]

/-! ## the PDU -/

theorem lldpBytes_append (a b : List Tlv) : lldpBytes (a ++ b) = lldpBytes a ++ lldpBytes b := by
  induction a with
  | nil => rfl
  | cons t r ih => simp [lldpBytes, ih, List.append_assoc]

theorem tlvBytes_length (t : Tlv) : (tlvBytes t).length = 2 + (tlvDataBytes t).length := by
  simp [tlvBytes]

theorem lldpBytes_length_ge (l : List Tlv) : l.length ≤ (lldpBytes l).length := by
  induction l with
  | nil => simp [lldpBytes]
  | cons q r ih => simp [lldpBytes, tlvBytes_length]; omega

theorem end_bytes : lldpBytes [.end_] = tlvBytes .end_ := by simp [lldpBytes]

/-- the loop over the optional TLVs (lldp.py:210-224) returns them all, up to and including the END TLV -/
theorem lldpLoop_rt (mid : List Tlv) (hok : ∀ t ∈ mid, t.OK ∧ tlvType t ≠ 0) :
    ∀ (P : Bytes) (acc : List Tlv) (fuel : Nat), mid.length < fuel →
      lldpLoop fuel (P ++ (lldpBytes mid ++ tlvBytes .end_)) P.length acc = some (some (acc ++ mid ++ [.end_])) := by
  induction mid with
  | nil =>
    intro P acc fuel hf
    cases fuel with
    | zero => simp at hf
    | succ f =>
      have hd : (P ++ (lldpBytes [] ++ tlvBytes .end_)).drop P.length = tlvBytes .end_ ++ [] := by
        simp [lldpBytes]
      unfold lldpLoop
      rw [hd, nextTlv_rt .end_ trivial []]
      simp [tlvType]
  | cons t r ih =>
    intro P acc fuel hf
    cases fuel with
    | zero => simp at hf
    | succ f =>
      obtain ⟨hto, htn⟩ := hok t (by simp)
      have hr : ∀ q ∈ r, q.OK ∧ tlvType q ≠ 0 := fun q hq => hok q (by simp [hq])
      have hd : (P ++ (lldpBytes (t :: r) ++ tlvBytes .end_)).drop P.length
          = tlvBytes t ++ (lldpBytes r ++ tlvBytes .end_) := by
        simp [lldpBytes, List.append_assoc]
      have hlen : (P ++ (lldpBytes (t :: r) ++ tlvBytes .end_)).length
          = P.length + (tlvBytes t).length + ((lldpBytes r).length + 2) := by
        simp [lldpBytes, tlvBytes_length, tlvDataBytes]; omega
      have hraw : P ++ (lldpBytes (t :: r) ++ tlvBytes .end_) = (P ++ tlvBytes t) ++ (lldpBytes r ++ tlvBytes .end_) := by
        simp [lldpBytes, List.append_assoc]
      have ihr := ih hr (P ++ tlvBytes t) (acc ++ [t]) f (by simp at hf; omega)
      unfold lldpLoop
      rw [hd, nextTlv_rt t hto]
      simp only [htn, if_false, hlen]
      have c : ¬ (P.length + (tlvBytes t).length ≥ P.length + (tlvBytes t).length + ((lldpBytes r).length + 2)) := by omega
      simp only [c, if_false]
      rw [hraw, ← List.length_append, ihr]
      simp

/-- **LLDP PDU round trip.**  A PDU is chassis-id, port-id, TTL, any optional TLVs (port/system description, system
name, capabilities, management address, organisationally specific, unknown types) and the END TLV.  `lldp.hdr`
serialises it, every TLV's 9-bit length field is the length of its information string, and `lldp(raw = bytes)` returns
the same TLV list. -/
theorem lldp_parse (c p t : Tlv) (mid : List Tlv) (hc : c.OK) (hp : p.OK) (ht : t.OK) (tc : tlvType c = 1)
    (tp : tlvType p = 2) (tt : tlvType t = 3) (hmid : ∀ q ∈ mid, q.OK ∧ tlvType q ≠ 0) :
    lldpHdr (c :: p :: t :: (mid ++ [.end_])) = .ok (lldpBytes (c :: p :: t :: (mid ++ [.end_]))) ∧
    lldpParse (lldpBytes (c :: p :: t :: (mid ++ [.end_]))) = .lldp (c :: p :: t :: (mid ++ [.end_])) := by
  constructor
  · apply lldpHdr_ok
    intro q hq
    simp only [List.mem_cons, List.mem_append, List.not_mem_nil, or_false] at hq
    rcases hq with rfl | rfl | rfl | hq | rfl
    · exact hc
    · exact hp
    · exact ht
    · exact (hmid q hq).1
    · trivial
  · have hraw : lldpBytes (c :: p :: t :: (mid ++ [.end_]))
        = tlvBytes c ++ (tlvBytes p ++ (tlvBytes t ++ (lldpBytes mid ++ tlvBytes .end_))) := by
      simp [lldpBytes, lldpBytes_append]
    -- each of the three mandatory TLVs is at least 4 bytes long
    have lc : 4 ≤ (tlvBytes c).length := by
      cases c <;> simp [tlvType] at tc <;> simp only [Tlv.OK] at hc <;> simp [tlvBytes, tlvDataBytes] <;> omega
    have lp : 4 ≤ (tlvBytes p).length := by
      cases p <;> simp [tlvType] at tp <;> simp only [Tlv.OK] at hp <;> simp [tlvBytes, tlvDataBytes] <;> omega
    have lt : 4 ≤ (tlvBytes t).length := by
      cases t <;> simp [tlvType] at tt <;> simp only [Tlv.OK] at ht <;> simp [tlvBytes, tlvDataBytes] <;> omega
    have hlen : ¬ ((tlvBytes c ++ (tlvBytes p ++ (tlvBytes t ++ (lldpBytes mid ++ tlvBytes .end_)))).length < 14) := by
      simp only [List.length_append, tlvBytes_length .end_, tlvDataBytes, List.length_nil]; omega
    have d1 : (tlvBytes c ++ (tlvBytes p ++ (tlvBytes t ++ (lldpBytes mid ++ tlvBytes .end_)))).drop (tlvBytes c).length
        = tlvBytes p ++ (tlvBytes t ++ (lldpBytes mid ++ tlvBytes .end_)) := drop_left _ _ _ rfl
    have d2 : (tlvBytes c ++ (tlvBytes p ++ (tlvBytes t ++ (lldpBytes mid ++ tlvBytes .end_)))).drop
        ((tlvBytes c).length + (tlvBytes p).length) = tlvBytes t ++ (lldpBytes mid ++ tlvBytes .end_) := by
      rw [← List.append_assoc]; exact drop_left _ _ _ (by simp)
    have hloop := lldpLoop_rt mid hmid (tlvBytes c ++ (tlvBytes p ++ tlvBytes t)) [c, p, t]
      ((tlvBytes c ++ (tlvBytes p ++ (tlvBytes t ++ (lldpBytes mid ++ tlvBytes .end_)))).length + 1)
      (by
        have h1 := lldpBytes_length_ge mid
        simp only [List.length_append]; omega)
    have hraw2 : tlvBytes c ++ (tlvBytes p ++ (tlvBytes t ++ (lldpBytes mid ++ tlvBytes .end_)))
        = (tlvBytes c ++ (tlvBytes p ++ tlvBytes t)) ++ (lldpBytes mid ++ tlvBytes .end_) := by
      simp [List.append_assoc]
    have hhead : (tlvBytes c ++ (tlvBytes p ++ tlvBytes t)).length
        = (tlvBytes c).length + (tlvBytes p).length + (tlvBytes t).length := by simp; omega
    rw [hraw]
    unfold lldpParse
    simp only [hlen, if_false]
    rw [nextTlv_rt c hc]
    simp only [tc, ne_eq, not_true_eq_false, if_false, d1]
    rw [nextTlv_rt p hp]
    simp only [tp, ne_eq, not_true_eq_false, if_false, d2]
    rw [nextTlv_rt t ht]
    simp only [tt, ne_eq, not_true_eq_false, if_false]
    rw [← hhead]
    rw [hraw2] at hloop ⊢
    rw [hloop]
    simp

end Pox.Packet
