import PoxModel.Model.Checksum
/-!
# `packet_utils.checksum` = RFC 1071   (helper lemmas for C14; core only)

Idea (RFC 1071 §2(B) "byte order independence"): 2^16 ≡ 1 (mod 65535), so the end-around-carry fold of `s` is the
representative of `s` mod 65535 in [1, 65535] (`F`), byte-swapping a 16-bit word multiplies it by 256 mod 65535, and
256·256 ≡ 1.  The code sums little-endian words, folds twice (enough below 2^32) and swaps; the specification sums
big-endian words and folds to a fixed point.
-/
namespace Pox.Checksum

/-- closed form of "fold carries until < 2^16" -/
def F (s : Nat) : Nat := if s = 0 then 0 else (s - 1) % 65535 + 1

theorem mod_helper (c t : Nat) (ht : t < 65535) : (65535 * c + t) % 65535 = t := by omega

theorem fold2_eq (s : Nat) (h : s < 4294967296) : fold2 s = F s := by
  unfold fold2 F
  have hs : s = 65536 * (s / 65536) + s % 65536 := (Nat.div_add_mod s 65536).symm
  have hr : s % 65536 < 65536 := Nat.mod_lt _ (by decide)
  have hd1 : (65536 * (s / 65536) + s % 65536) / 65536 = s / 65536 := by rw [← hs]
  have hd2 : (65536 * (s / 65536) + s % 65536) % 65536 = s % 65536 := by rw [← hs]
  generalize s / 65536 = c at *
  generalize s % 65536 = r at *
  have hc : c < 65536 := by omega
  subst hs
  simp only []
  by_cases h0 : 65536 * c + r = 0
  · simp [h0]; omega
  · simp only [h0, if_false]
    by_cases h1 : c + r < 65536
    · have e : 65536 * c + r - 1 = 65535 * c + (c + r - 1) := by omega
      rw [e, mod_helper _ _ (by omega)]; omega
    · have e : 65536 * c + r - 1 = 65535 * (c + 1) + (c + r - 65536) := by omega
      rw [e, mod_helper _ _ (by omega)]
      have hd : (c + r) / 65536 = 1 := by omega
      rw [hd]
      have hm : (c + r + 1) % 65536 = c + r + 1 - 65536 := by omega
      rw [hm]; omega

theorem swap_mod (x : Nat) (h : x < 65536) : ntohs x % 65535 = (256 * x) % 65535 := by
  unfold ntohs
  have hx : x = 256 * (x / 256) + x % 256 := (Nat.div_add_mod x 256).symm
  have hb : x % 256 < 256 := Nat.mod_lt _ (by decide)
  have hd1 : (256 * (x / 256) + x % 256) / 256 = x / 256 := by rw [← hx]
  have hd2 : (256 * (x / 256) + x % 256) % 256 = x % 256 := by rw [← hx]
  generalize x / 256 = a at *
  generalize x % 256 = b at *
  have ha : a < 256 := by omega
  subst hx
  have e1 : a % 256 = a := Nat.mod_eq_of_lt ha
  rw [e1]
  have e2 : 256 * (256 * a + b) = 65535 * a + (b * 256 + a) := by omega
  rw [e2]
  omega

theorem swap_range (x : Nat) (h1 : 0 < x) (h : x < 65536) : 0 < ntohs x ∧ ntohs x < 65536 := by
  unfold ntohs; omega

/-- uniqueness of the representative in [1,65535] -/
theorem rep_unique (a b : Nat) (ha : 0 < a) (ha' : a < 65536) (hb : 0 < b) (hb' : b < 65536)
    (h : a % 65535 = b % 65535) : a = b := by omega

theorem F_range (s : Nat) (h : 0 < s) : 0 < F s ∧ F s < 65536 ∧ F s % 65535 = s % 65535 := by
  unfold F; split <;> omega

theorem F_lt (s : Nat) : F s < 65536 := by unfold F; split <;> omega

/-- the heart: byte-swapping the folded little-endian sum gives the folded big-endian sum -/
theorem swap_F (sle sbe : Nat) (h : sle % 65535 = (256 * sbe) % 65535) (hz : sle = 0 ↔ sbe = 0) :
    ntohs (F sle) = F sbe := by
  by_cases h0 : sbe = 0
  · have : sle = 0 := hz.mpr h0
    subst h0; subst this; decide
  · have hs : sle ≠ 0 := fun e => h0 (hz.mp e)
    have r1 := F_range sle (by omega)
    have r2 := F_range sbe (by omega)
    have sw := swap_mod (F sle) r1.2.1
    have sr := swap_range (F sle) r1.1 r1.2.1
    apply rep_unique _ _ sr.1 sr.2 r2.1 r2.2.1
    rw [sw, r2.2.2]
    omega

/-! ### the specification's fold loop -/

theorem foldN_eq_F : ∀ (n s : Nat), s ≤ n → foldN n s = F s := by
  intro n
  induction n with
  | zero => intro s h; have : s = 0 := by omega
            subst this; rfl
  | succ n ih =>
    intro s h
    unfold foldN
    by_cases h16 : s < 65536
    · simp only [h16, if_true]; unfold F; split <;> omega
    · simp only [h16, if_false]
      have hs : s = 65536 * (s / 65536) + s % 65536 := (Nat.div_add_mod s 65536).symm
      have hr : s % 65536 < 65536 := Nat.mod_lt _ (by decide)
      have hle : s / 65536 + s % 65536 ≤ n := by omega
      rw [ih _ hle]
      unfold F
      generalize s / 65536 = c at *
      generalize s % 65536 = r at *
      subst hs
      have hc : 0 < c := by omega
      have h1 : ¬ (c + r = 0) := by omega
      have h2 : ¬ (65536 * c + r = 0) := by omega
      simp only [h1, h2, if_false]
      have e : 65536 * c + r - 1 = 65535 * c + (c + r - 1) := by omega
      rw [e, Nat.mul_add_mod]

theorem foldAll_eq_F (s : Nat) : foldAll s = F s := foldN_eq_F s s (Nat.le_refl _)

/-- the fuel in `foldAll` is adequate: it satisfies the defining equation of the unbounded loop
    `while s >> 16: s = (s >> 16) + (s & 0xffff)` and ends below 2^16 -/
theorem foldAll_unfold (s : Nat) : foldAll s = if s < 65536 then s else foldAll (s / 65536 + s % 65536) := by
  rw [foldAll_eq_F, foldAll_eq_F]
  by_cases h16 : s < 65536
  · simp only [h16, if_true]; unfold F; split <;> omega
  · simp only [h16, if_false]
    unfold F
    have hs : s = 65536 * (s / 65536) + s % 65536 := (Nat.div_add_mod s 65536).symm
    have hr : s % 65536 < 65536 := Nat.mod_lt _ (by decide)
    generalize s / 65536 = c at *
    generalize s % 65536 = r at *
    subst hs
    have hc : 0 < c := by omega
    have h1 : ¬ (c + r = 0) := by omega
    have h2 : ¬ (65536 * c + r = 0) := by omega
    simp only [h1, h2, if_false]
    have e : 65536 * c + r - 1 = 65535 * c + (c + r - 1) := by omega
    rw [e, Nat.mul_add_mod]

theorem foldAll_lt (s : Nat) : foldAll s < 65536 := by rw [foldAll_eq_F]; exact F_lt s

theorem rfc1071_lt (d : Bytes) : rfc1071 d < 65536 := by unfold rfc1071; omega

theorem ntohs_compl (x : Nat) (h : x < 65536) : ntohs (65535 - x) = 65535 - ntohs x := by
  unfold ntohs
  have hx : x = 256 * (x / 256) + x % 256 := (Nat.div_add_mod x 256).symm
  have hb : x % 256 < 256 := Nat.mod_lt _ (by decide)
  generalize x / 256 = a at *
  generalize x % 256 = b at *
  have ha : a < 256 := by omega
  subst hx
  have e : 65535 - (256 * a + b) = 256 * (255 - a) + (255 - b) := by omega
  rw [e]
  have d1 : (256 * (255 - a) + (255 - b)) % 256 = 255 - b := by omega
  have d2 : (256 * (255 - a) + (255 - b)) / 256 = 255 - a := by omega
  have d3 : (256 * a + b) % 256 = b := by omega
  have d4 : (256 * a + b) / 256 = a := by omega
  rw [d1, d2]
  have d5 : (255 - a) % 256 = 255 - a := Nat.mod_eq_of_lt (by omega)
  have d6 : a % 256 = a := Nat.mod_eq_of_lt ha
  rw [d5, d6]
  omega

/-! ### little-endian sum of the code versus big-endian sum of the specification -/

/-- what the code's loop accumulates when nothing is skipped -/
def sumLE (d : Bytes) : Nat := sumSkip (fullWordsLE d) none + oddLE d

theorem sums_rel : ∀ d : Bytes, sumLE d % 65535 = (256 * sumBE d) % 65535 ∧ (sumLE d = 0 ↔ sumBE d = 0)
                     ∧ sumLE d ≤ 65535 * ((d.length + 1) / 2)
  | [] => by simp [sumLE, sumBE, fullWordsLE, sumSkip, oddLE, wordsBE]
  | [a] => by
    have := a.toNat_lt
    simp only [sumLE, sumBE, fullWordsLE, sumSkip, oddLE, wordsBE, List.sum_cons, List.sum_nil, List.length_cons,
      List.length_nil]
    refine ⟨by omega, by omega, by omega⟩
  | a :: b :: r => by
    have ha := a.toNat_lt
    have hb := b.toNat_lt
    obtain ⟨h1, h2, h3⟩ := sums_rel r
    simp only [sumLE, sumBE, fullWordsLE, sumSkip, oddLE, wordsBE, List.sum_cons, List.length_cons] at *
    generalize sumSkip (fullWordsLE r) none = S at *
    generalize oddLE r = T at *
    generalize (wordsBE r).sum = S' at *
    refine ⟨by omega, by omega, by omega⟩

theorem sumLE_lt (d : Bytes) (hlen : d.length ≤ 131072) : sumLE d < 4294967296 := by
  obtain ⟨_, _, h3⟩ := sums_rel d
  have : (d.length + 1) / 2 ≤ 65536 := by omega
  calc sumLE d ≤ 65535 * ((d.length + 1) / 2) := h3
    _ ≤ 65535 * 65536 := Nat.mul_le_mul_left _ this
    _ < 4294967296 := by decide

/-- core statement on sums: `ntohs (~fold2 (Σ LE words))` is the RFC 1071 checksum -/
theorem le_sum_rfc1071 (d : Bytes) (hlen : d.length ≤ 131072) :
    ntohs (65535 - fold2 (sumLE d)) = rfc1071 d := by
  obtain ⟨h1, h2, _⟩ := sums_rel d
  unfold rfc1071
  rw [fold2_eq _ (sumLE_lt d hlen), foldAll_eq_F]
  rw [ntohs_compl _ (F_lt _), swap_F _ _ h1 h2]

/-! ### `skip_word` -/

theorem oddLE_zeroWord : ∀ (k : Nat) (d : Bytes), oddLE (zeroWord k d) = oddLE d
  | 0, [] => rfl
  | 0, [_] => rfl
  | 0, _ :: _ :: _ => rfl
  | _+1, [] => rfl
  | _+1, [_] => rfl
  | k+1, _ :: _ :: r => by simp only [zeroWord, oddLE]; exact oddLE_zeroWord k r

theorem sumSkip_zeroWord : ∀ (k : Nat) (d : Bytes),
    sumSkip (fullWordsLE d) (some k) = sumSkip (fullWordsLE (zeroWord k d)) none
  | 0, [] => rfl
  | 0, [_] => rfl
  | 0, _ :: _ :: r => by simp [zeroWord, fullWordsLE, sumSkip]
  | _+1, [] => rfl
  | _+1, [_] => rfl
  | k+1, a :: b :: r => by
    simp only [zeroWord, fullWordsLE, sumSkip]
    rw [sumSkip_zeroWord k r]

theorem zeroWord_length : ∀ (k : Nat) (d : Bytes), (zeroWord k d).length = d.length
  | 0, [] => rfl
  | 0, [_] => rfl
  | 0, _ :: _ :: _ => rfl
  | _+1, [] => rfl
  | _+1, [_] => rfl
  | k+1, _ :: _ :: r => by simp only [zeroWord, List.length_cons]; rw [zeroWord_length k r]

/-- zeroing a word that is already zero changes nothing: `a ++ 0 :: 0 :: b` with `|a| = 2k` -/
theorem zeroWord_already : ∀ (k : Nat) (a b : Bytes), a.length = 2 * k → zeroWord k (a ++ 0 :: 0 :: b) = a ++ 0 :: 0 :: b
  | 0, [], _, _ => rfl
  | 0, _ :: _, _, h => by simp at h
  | k+1, [], _, h => by simp at h
  | k+1, [_], _, h => by simp at h; omega
  | k+1, x :: y :: a, b, h => by
    have : a.length = 2 * k := by simp at h; omega
    simp only [List.cons_append, zeroWord]
    rw [zeroWord_already k a b this]

/-- zeroing the word at byte offset `2k` of `a ++ x :: y :: b` -/
theorem zeroWord_at : ∀ (k : Nat) (a b : Bytes) (x y : UInt8), a.length = 2 * k →
    zeroWord k (a ++ x :: y :: b) = a ++ 0 :: 0 :: b
  | 0, [], _, _, _, _ => rfl
  | 0, _ :: _, _, _, _, h => by simp at h
  | k+1, [], _, _, _, h => by simp at h
  | k+1, [_], _, _, _, h => by simp at h; omega
  | k+1, p :: q :: a, b, x, y, h => by
    have : a.length = 2 * k := by simp at h; omega
    simp only [List.cons_append, zeroWord]
    rw [zeroWord_at k a b x y this]

/-! ### sums of concatenations (used for "the emitted checksum verifies") -/

theorem wordsBE_append_even : ∀ (a b : Bytes), a.length % 2 = 0 → sumBE (a ++ b) = sumBE a + sumBE b
  | [], b, _ => by simp [sumBE, wordsBE]
  | [_], _, h => by simp at h
  | x :: y :: a, b, h => by
    have h' : a.length % 2 = 0 := by simp at h; omega
    have ih := wordsBE_append_even a b h'
    simp only [sumBE, List.cons_append, wordsBE, List.sum_cons] at *
    omega

theorem sumBE_word (x y : UInt8) (r : Bytes) : sumBE (x :: y :: r) = 256 * x.toNat + y.toNat + sumBE r := by
  simp [sumBE, wordsBE]

theorem beEnc2 (n : Nat) (_h : n < 65536) : beEnc 2 n = [UInt8.ofNat (n / 256), UInt8.ofNat (n % 256)] := by
  simp [beEnc]

theorem sumBE_be16 (n : Nat) (h : n < 65536) (r : Bytes) : sumBE (be16 n ++ r) = n + sumBE r := by
  unfold be16
  rw [beEnc2 n h]
  simp only [List.cons_append, List.nil_append, sumBE_word]
  have h1 : n / 256 < 256 := by omega
  have h2 : n % 256 < 256 := Nat.mod_lt _ (by decide)
  have e1 : (UInt8.ofNat (n / 256)).toNat = n / 256 := by simp [Nat.mod_eq_of_lt h1]
  have e2 : (UInt8.ofNat (n % 256)).toNat = n % 256 := by simp
  rw [e1, e2]; omega

/-- adding the complement of the folded sum makes the folded sum all-ones -/
theorem F_complete (s : Nat) : F (s + (65535 - F s)) = 65535 := by
  by_cases h0 : s = 0
  · subst h0; decide
  · have r := F_range s (by omega)
    unfold F at *
    simp only [h0, if_false] at *
    have hne : ¬ (s + (65535 - ((s - 1) % 65535 + 1)) = 0) := by omega
    simp only [hne, if_false]
    have hq : s - 1 = 65535 * ((s - 1) / 65535) + (s - 1) % 65535 := (Nat.div_add_mod _ _).symm
    have hr : (s - 1) % 65535 < 65535 := Nat.mod_lt _ (by decide)
    generalize (s - 1) / 65535 = q at *
    generalize (s - 1) % 65535 = t at *
    have e : s + (65535 - (t + 1)) - 1 = 65535 * q + 65534 := by omega
    rw [e, mod_helper _ _ (by omega)]

/-- **the emitted checksum verifies**: put the RFC 1071 checksum of `a ++ 00 00 ++ b` into the zeroed word
    (at an even offset) and the receiver's sum over the whole datagram is 0xffff, i.e. its `rfc1071` is 0 -/
theorem rfc1071_verifies (a b : Bytes) (ha : a.length % 2 = 0) :
    rfc1071 (a ++ be16 (rfc1071 (a ++ 0 :: 0 :: b)) ++ b) = 0 := by
  have hz : sumBE (a ++ 0 :: 0 :: b) = sumBE a + sumBE b := by
    rw [wordsBE_append_even a _ ha, sumBE_word]; simp
  have hc : rfc1071 (a ++ 0 :: 0 :: b) < 65536 := rfc1071_lt _
  have hs : sumBE (a ++ be16 (rfc1071 (a ++ 0 :: 0 :: b)) ++ b)
      = (sumBE a + sumBE b) + (65535 - F (sumBE a + sumBE b)) := by
    rw [List.append_assoc, wordsBE_append_even a _ ha, sumBE_be16 _ hc]
    unfold rfc1071
    rw [hz, foldAll_eq_F]; omega
  unfold rfc1071 at hs ⊢
  rw [hz, foldAll_eq_F] at hs
  simp only [hz, foldAll_eq_F] at hs ⊢
  rw [hs, F_complete]

/-! ### `start`: continuing a sum over an even-length prefix -/

theorem sumLE_append_even : ∀ (a b : Bytes), a.length % 2 = 0 → sumLE (a ++ b) = sumSkip (fullWordsLE a) none + sumLE b
  | [], b, _ => by simp [sumLE, fullWordsLE, sumSkip]
  | [_], _, h => by simp at h
  | x :: y :: a, b, h => by
    have h' : a.length % 2 = 0 := by simp at h; omega
    have ih := sumLE_append_even a b h'
    simp only [sumLE, List.cons_append, fullWordsLE, sumSkip, oddLE] at *
    omega

end Pox.Checksum
