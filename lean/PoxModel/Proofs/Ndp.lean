import PoxModel.Proofs.PacketValid
/-!
# ICMPv6 Neighbor Discovery: options and the four message classes survive pack → parse (C14 phase 4; core only)
-/
namespace Pox.Packet
open Pox Pox.PktLayout Pox.Checksum

/-- options the classes of icmpv6.py serialise and read back as themselves -/
def NdOpt.OK : NdOpt → Prop
  | .lla t a => (t = 1 ∨ t = 2) ∧ a.length = 6
  | .prefix pl _ _ v p pre => pl < 256 ∧ v < 4294967296 ∧ p < 4294967296 ∧ pre.length = 16
  | .mtu v => v < 4294967296
  | .generic t r => t < 256 ∧ t ≠ 1 ∧ t ≠ 2 ∧ t ≠ 3 ∧ t ≠ 5 ∧ r.length % 8 = 6 ∧ r.length < 2038

/-- the option body as the class packs it (already a multiple of 8 minus 2 for well-formed options) -/
def ndBodyBytes : NdOpt → Bytes
  | .lla _ a => a
  | .prefix pl on au v p pre =>
    (beEnc 1 pl ++ (beEnc 1 ((if on then 0x80 else 0) + (if au then 0x40 else 0)) ++ (beEnc 4 v ++ beEnc 4 p))) ++ ([0, 0, 0, 0] ++ pre)
  | .mtu v => be16 0 ++ beEnc 4 v
  | .generic _ r => r

/-- type, length in units of 8 octets, body -/
def ndOptBytes (o : NdOpt) : Bytes :=
  beEnc 1 (ndOptType o) ++ (beEnc 1 (((ndBodyBytes o).length + 2) / 8) ++ ndBodyBytes o)

def ndOptsBytes : List NdOpt → Bytes
  | [] => []
  | o :: r => ndOptBytes o ++ ndOptsBytes r

theorem ndBody_len (o : NdOpt) (h : o.OK) : ((ndBodyBytes o).length + 2) % 8 = 0 ∧ 6 ≤ (ndBodyBytes o).length ∧
    (ndBodyBytes o).length < 2038 := by
  cases o with
  | lla t a => simp only [NdOpt.OK] at h; simp [ndBodyBytes, h.2]
  | «prefix» pl on au v p pre => simp only [NdOpt.OK] at h; simp [ndBodyBytes, h.2.2.2]
  | mtu v => simp [ndBodyBytes]
  | generic t r => simp only [NdOpt.OK] at h; simp only [ndBodyBytes]; omega

theorem ndOptBody_ok (o : NdOpt) (h : o.OK) : ndOptBody o = .ok (ndBodyBytes o) := by
  cases o with
  | lla t a => rfl
  | «prefix» pl on au v p pre =>
    simp only [NdOpt.OK] at h
    have hfl : (if on then 0x80 else 0) + (if au then 0x40 else 0) < 256 := by split <;> split <;> omega
    simp [ndOptBody, ndBodyBytes, pk, encode, h.1, h.2.1, h.2.2.1, hfl, bind, Except.bind, pure, Except.pure]
  | mtu v => simp only [NdOpt.OK] at h; simp [ndOptBody, ndBodyBytes, pk, encode, be16, h]
  | generic t r => rfl

theorem ndOptType_lt (o : NdOpt) (h : o.OK) : ndOptType o < 256 := by
  cases o <;> simp only [NdOpt.OK] at h <;> simp [ndOptType] <;> omega

theorem ndOptPack_ok (o : NdOpt) (h : o.OK) : ndOptPack o = .ok (ndOptBytes o) := by
  obtain ⟨h8, _, hl⟩ := ndBody_len o h
  have hpad : (8 - ((ndBodyBytes o).length + 2) % 8) % 8 = 0 := by omega
  have hlen : ((ndBodyBytes o).length + 2) / 8 < 256 := by omega
  simp [ndOptPack, ndOptBody_ok o h, hpad, pk, encode, ndOptType_lt o h, hlen, ndOptBytes, bind, Except.bind, pure, Except.pure]

theorem ndOptsPack_ok (os : List NdOpt) (h : ∀ o ∈ os, o.OK) : ndOptsPack os = .ok (ndOptsBytes os) := by
  induction os with
  | nil => rfl
  | cons o r ih =>
    have ih' := ih (fun q hq => h q (by simp [hq]))
    simp [ndOptsPack, ndOptPack_ok o (h o (by simp)), ih', ndOptsBytes, bind, Except.bind, pure, Except.pure]

theorem ndOptBytes_length (o : NdOpt) : (ndOptBytes o).length = (ndBodyBytes o).length + 2 := by
  simp [ndOptBytes]; omega

/-! ## reading one option back -/

theorem ndBody_decode (o : NdOpt) (h : o.OK) :
    let body := ndBodyBytes o
    let t := ndOptType o
    (if t = 1 ∨ t = 2 then (if body.length ≠ 6 then none else some (NdOpt.lla t body))
     else if t = 3 then
       if body.length ≠ 30 then none else
       let fl := (getU8 body 1).getD 0
       some (NdOpt.prefix ((getU8 body 0).getD 0) ((fl / 128) % 2 == 1) ((fl / 64) % 2 == 1) (beDec (sl body 2 6))
         (beDec (sl body 6 10)) (sl body 14 30))
     else if t = 5 then (if body.length ≠ 6 then none else some (NdOpt.mtu (beDec (sl body 2 6))))
     else some (NdOpt.generic t body)) = some o := by
  cases o with
  | lla t a =>
    simp only [NdOpt.OK] at h
    simp [ndBodyBytes, ndOptType, h.1, h.2]
  | «prefix» pl on au v p pre =>
    simp only [NdOpt.OK] at h
    obtain ⟨h1, h2, h3, h4⟩ := h
    have hfl : (if on then 0x80 else 0) + (if au then 0x40 else 0) < 256 := by split <;> split <;> omega
    obtain ⟨a0, e0, d0⟩ := be8_ex pl h1
    obtain ⟨a1, e1, d1⟩ := be8_ex _ hfl
    obtain ⟨v1, v2, v3, v4, ev, dv⟩ := be32_ex v h2
    obtain ⟨p1, p2, p3, p4, ep, dp⟩ := be32_ex p h3
    have hpre : ∀ R : Bytes, sl (a0 :: a1 :: v1 :: v2 :: v3 :: v4 :: p1 :: p2 :: p3 :: p4 :: 0 :: 0 :: 0 :: 0 :: (pre ++ R)) 14 30 = pre := by
      intro R
      have := sl_mid [a0, a1, v1, v2, v3, v4, p1, p2, p3, p4, 0, 0, 0, 0] pre R 14 30 (by simp) (by simp [h4])
      simpa using this
    have hp0 := hpre []
    simp only [List.append_nil] at hp0
    have hbits : (a1.toNat / 128 % 2 == 1) = on ∧ (a1.toNat / 64 % 2 == 1) = au := by
      simp only [beDec, List.length_nil, Nat.pow_zero, Nat.mul_one, Nat.add_zero] at d1
      rw [d1]
      cases on <;> cases au <;> simp
    simp only [ndBodyBytes, ndOptType, e0, e1, ev, ep]
    simp [getU8, sl, hbits.1, hbits.2, h4]
    refine ⟨?_, ?_, ?_, ?_⟩
    · simpa [beDec] using d0
    · simpa [beDec] using dv
    · simpa [beDec] using dp
    · have := hp0; simp [sl] at this; exact this
  | mtu v =>
    simp only [NdOpt.OK] at h
    obtain ⟨v1, v2, v3, v4, ev, dv⟩ := be32_ex v h
    simp only [ndBodyBytes, ndOptType, ev, be16_zero]
    simp [sl]
    simpa [beDec] using dv
  | generic t r =>
    simp only [NdOpt.OK] at h
    obtain ⟨_, n1, n2, n3, n5, _, _⟩ := h
    simp [ndBodyBytes, ndOptType, n1, n2, n3, n5]

theorem ndOptUnpack_rt (A R : Bytes) (o : NdOpt) (h : o.OK) :
    ndOptUnpack (A ++ (ndOptBytes o ++ R)) A.length = some (o, A.length + (ndOptBytes o).length) := by
  obtain ⟨h8, h6, hl⟩ := ndBody_len o h
  have ht := ndOptType_lt o h
  have hlen : ((ndBodyBytes o).length + 2) / 8 < 256 := by omega
  have hol := ndOptBytes_length o
  have g0 : getU8 (A ++ (ndOptBytes o ++ R)) A.length = some (ndOptType o) := by
    have := getU8_at' A (ndOptBytes o) R 0 (by rw [hol]; omega)
    simp only [Nat.add_zero] at this
    rw [this]; simp [ndOptBytes, getU8, beEnc, Nat.mod_eq_of_lt ht]
  have g1 : getU8 (A ++ (ndOptBytes o ++ R)) (A.length + 1) = some (((ndBodyBytes o).length + 2) / 8) := by
    rw [getU8_at' A (ndOptBytes o) R 1 (by rw [hol]; omega)]
    simp [ndOptBytes, getU8, beEnc, Nat.mod_eq_of_lt hlen]
  have hne : ¬ (((ndBodyBytes o).length + 2) / 8 = 0) := by omega
  have hl8 : ((ndBodyBytes o).length + 2) / 8 * 8 - 2 = (ndBodyBytes o).length := by omega
  have hbody : sl (A ++ (ndOptBytes o ++ R)) (A.length + 2) (A.length + 2 + (ndBodyBytes o).length) = ndBodyBytes o := by
    have := sl_at A (ndOptBytes o) R 2 (2 + (ndBodyBytes o).length) (by rw [hol]; omega)
    rw [Nat.add_assoc, this]
    unfold ndOptBytes
    rw [← List.append_assoc]
    exact sl_tail _ _ 2 _ (by simp) (by simp)
  have hrem : ¬ ((A ++ (ndOptBytes o ++ R)).length - (A.length + 2) < (ndBodyBytes o).length) := by
    simp only [List.length_append, hol]; omega
  have hdec := ndBody_decode o h
  simp only at hdec
  unfold ndOptUnpack
  simp only [g0, g1, hne, if_false, hl8, hrem, hbody]
  have hoff : A.length + 2 + (ndBodyBytes o).length = A.length + (ndOptBytes o).length := by rw [hol]; omega
  rw [hoff]
  -- push the decode result through the branches
  by_cases c12 : ndOptType o = 1 ∨ ndOptType o = 2
  · simp only [c12, if_true] at hdec ⊢
    by_cases c6 : (ndBodyBytes o).length ≠ 6
    · simp [c6] at hdec
    · simp only [c6, if_false] at hdec ⊢
      injection hdec with hdec; rw [hdec]
  · simp only [c12, if_false] at hdec ⊢
    by_cases c3 : ndOptType o = 3
    · simp only [c3, if_true] at hdec ⊢
      by_cases c30 : (ndBodyBytes o).length ≠ 30
      · simp [c30] at hdec
      · simp only [c30, if_false] at hdec ⊢
        injection hdec with hdec; rw [hdec]
    · simp only [c3, if_false] at hdec ⊢
      by_cases c5 : ndOptType o = 5
      · simp only [c5, if_true] at hdec ⊢
        by_cases c6 : (ndBodyBytes o).length ≠ 6
        · simp [c6] at hdec
        · simp only [c6, if_false] at hdec ⊢
          injection hdec with hdec; rw [hdec]
      · simp only [c5, if_false] at hdec ⊢
        injection hdec with hdec; rw [hdec]

/-! ## option lists and messages -/

theorem ndOptsBytes_mod8 (os : List NdOpt) (h : ∀ o ∈ os, o.OK) :
    (ndOptsBytes os).length % 8 = 0 ∧ 8 * os.length ≤ (ndOptsBytes os).length := by
  induction os with
  | nil => simp [ndOptsBytes]
  | cons o r ih =>
    obtain ⟨i1, i2⟩ := ih (fun q hq => h q (by simp [hq]))
    obtain ⟨h8, h6, _⟩ := ndBody_len o (h o (by simp))
    simp only [ndOptsBytes, List.length_append, ndOptBytes_length, List.length_cons]
    omega

theorem ndOptsParse_rt (os : List NdOpt) (hok : ∀ o ∈ os, o.OK) :
    ∀ (A : Bytes) (fuel : Nat), os.length < fuel → ndOptsParse fuel (A ++ ndOptsBytes os) A.length = some os := by
  induction os with
  | nil =>
    intro A fuel hf
    cases fuel with
    | zero => simp at hf
    | succ f =>
      simp only [ndOptsParse, ndOptsBytes, List.append_nil]
      rw [if_neg (by omega)]
  | cons o r ih =>
    intro A fuel hf
    cases fuel with
    | zero => simp at hf
    | succ f =>
      have ho := hok o (by simp)
      have hr : ∀ q ∈ r, q.OK := fun q hq => hok q (by simp [hq])
      obtain ⟨m8, _⟩ := ndOptsBytes_mod8 (o :: r) hok
      obtain ⟨h8, h6, _⟩ := ndBody_len o ho
      have hol := ndOptBytes_length o
      have hlen : (A ++ ndOptsBytes (o :: r)).length = A.length + (ndOptsBytes (o :: r)).length := by simp
      have htot : 8 ≤ (ndOptsBytes (o :: r)).length := by simp [ndOptsBytes, hol]; omega
      have c1 : A.length + 2 < (A ++ ndOptsBytes (o :: r)).length := by rw [hlen]; omega
      have c2 : ¬ (((A ++ ndOptsBytes (o :: r)).length - A.length) % 8 ≠ 0) := by rw [hlen]; simp; omega
      have hraw : A ++ ndOptsBytes (o :: r) = A ++ (ndOptBytes o ++ ndOptsBytes r) := by simp [ndOptsBytes]
      have hraw2 : A ++ (ndOptBytes o ++ ndOptsBytes r) = (A ++ ndOptBytes o) ++ ndOptsBytes r := by simp [List.append_assoc]
      unfold ndOptsParse
      simp only [c1, if_true, c2, if_false]
      rw [hraw, ndOptUnpack_rt A (ndOptsBytes r) o ho]
      simp only []
      rw [hraw2, ← List.length_append, ih hr (A ++ ndOptBytes o) f (by simp at hf; omega)]
      rfl

def NdMsg.opts : NdMsg → List NdOpt
  | .rs os => os | .ra _ _ _ _ _ _ os => os | .ns _ os => os | .na _ _ _ _ os => os

structure NdMsg.Fits (m : NdMsg) : Prop where
  opts : ∀ o ∈ m.opts, o.OK
  fields : match m with
    | .rs _ => True
    | .ra hop _ _ lt rc rt _ => hop < 256 ∧ lt < 65536 ∧ rc < 4294967296 ∧ rt < 4294967296
    | .ns tg _ => tg.length = 16
    | .na _ _ _ tg _ => tg.length = 16

/-- the message body after the 4-byte ICMPv6 header -/
def ndMsgBytes : NdMsg → Bytes
  | .rs os => [0, 0, 0, 0] ++ ndOptsBytes os
  | .ra hop m ot lt rc rt os =>
    (beEnc 1 hop ++ (beEnc 1 ((if m then 0x80 else 0) + (if ot then 0x40 else 0)) ++ (be16 lt ++ (beEnc 4 rc ++ beEnc 4 rt)))) ++ ndOptsBytes os
  | .ns tg os => [0, 0, 0, 0] ++ (tg ++ ndOptsBytes os)
  | .na r so ov tg os =>
    [UInt8.ofNat ((if r then 0x80 else 0) + (if so then 0x40 else 0) + (if ov then 0x20 else 0)), 0, 0, 0] ++ (tg ++ ndOptsBytes os)

theorem ndMsgPack_ok (m : NdMsg) (hf : m.Fits) : ndMsgPack m = .ok (ndMsgBytes m) := by
  have ho : ∀ o ∈ m.opts, o.OK := hf.opts
  cases m with
  | rs os => simp [ndMsgPack, ndOptsPack_ok os ho, ndMsgBytes, bind, Except.bind, pure, Except.pure]
  | ra hop m ot lt rc rt os =>
    have hfl : (if m then 0x80 else 0) + (if ot then 0x40 else 0) < 256 := by split <;> split <;> omega
    obtain ⟨h1, h2, h3, h4⟩ := hf.fields
    simp [ndMsgPack, ndOptsPack_ok os ho, ndMsgBytes, pk, encode, be16, h1, h2, h3, h4, hfl, bind, Except.bind, pure, Except.pure]
  | ns tg os => simp [ndMsgPack, ndOptsPack_ok os ho, ndMsgBytes, bind, Except.bind, pure, Except.pure]
  | na r so ov tg os => simp [ndMsgPack, ndOptsPack_ok os ho, ndMsgBytes, bind, Except.bind, pure, Except.pure]

/-- **NDP message round trip**: the class selected by the ICMPv6 type, given the whole ICMPv6 message (any 4-byte
header `hd`), returns the message that was packed — fields, flags, target and every option -/
theorem nd_parse (m : NdMsg) (hd : Bytes) (hf : m.Fits) (hh : hd.length = 4) :
    ndParse (ndMsgType m) (hd ++ ndMsgBytes m) = .nd m := by
  have ho : ∀ o ∈ m.opts, o.OK := hf.opts
  cases m with
  | rs os =>
    have hraw : hd ++ ndMsgBytes (.rs os) = (hd ++ [0, 0, 0, 0]) ++ ndOptsBytes os := by simp [ndMsgBytes, List.append_assoc]
    have hp := ndOptsParse_rt os ho (hd ++ [0, 0, 0, 0]) ((hd ++ ndMsgBytes (.rs os)).length + 1)
      (by have := (ndOptsBytes_mod8 os ho).2; simp [ndMsgBytes]; omega)
    have hl8 : (hd ++ [0, 0, 0, 0]).length = 8 := by simp [hh]
    rw [hl8, ← hraw] at hp
    simp only [ndParse, ndMsgType, hp, ↓reduceIte, Option.getD_some]
  | ra hop m ot lt rc rt os =>
    obtain ⟨h1, h2, h3, h4⟩ := hf.fields
    have hfl : (if m then 0x80 else 0) + (if ot then 0x40 else 0) < 256 := by split <;> split <;> omega
    obtain ⟨a0, e0, d0⟩ := be8_ex hop h1
    obtain ⟨a1, e1, d1⟩ := be8_ex _ hfl
    obtain ⟨l1, l2, el, dl⟩ := be16_ex lt h2
    obtain ⟨r1, r2, r3, r4, er, dr⟩ := be32_ex rc h3
    obtain ⟨t1, t2, t3, t4, et, dt⟩ := be32_ex rt h4
    obtain ⟨x0, x1, x2, x3, hx⟩ : ∃ x0 x1 x2 x3, hd = [x0, x1, x2, x3] := by
      match hd, hh with
      | [a, b, c, d], _ => exact ⟨a, b, c, d, rfl⟩
    have hraw : hd ++ ndMsgBytes (.ra hop m ot lt rc rt os)
        = [x0, x1, x2, x3, a0, a1, l1, l2, r1, r2, r3, r4, t1, t2, t3, t4] ++ ndOptsBytes os := by
      simp [ndMsgBytes, hx, e0, e1, el, er, et]
    have hp := ndOptsParse_rt os ho [x0, x1, x2, x3, a0, a1, l1, l2, r1, r2, r3, r4, t1, t2, t3, t4]
      ((hd ++ ndMsgBytes (.ra hop m ot lt rc rt os)).length + 1)
      (by have := (ndOptsBytes_mod8 os ho).2; rw [hraw]; simp; omega)
    have hl16 : ([x0, x1, x2, x3, a0, a1, l1, l2, r1, r2, r3, r4, t1, t2, t3, t4] : Bytes).length = 16 := rfl
    rw [hl16, ← hraw] at hp
    have hbits : (a1.toNat / 128 % 2 == 1) = m ∧ (a1.toNat / 64 % 2 == 1) = ot := by
      simp only [beDec, List.length_nil, Nat.pow_zero, Nat.mul_one, Nat.add_zero] at d1
      rw [d1]
      cases m <;> cases ot <;> simp
    have hlen : ¬ ((hd ++ ndMsgBytes (.ra hop m ot lt rc rt os)).length - 4 < 12) := by rw [hraw]; simp
    unfold ndParse
    simp only [ndMsgType, show ¬ ((134 : Nat) = 133) by decide, if_false, if_true, hlen, hp]
    rw [hraw]
    simp [getU8, sl, hbits.1, hbits.2]
    refine ⟨?_, ?_, ?_, ?_⟩
    · simpa [beDec] using d0
    · simpa [beDec] using dl
    · simpa [beDec] using dr
    · simpa [beDec] using dt
  | ns tg os =>
    have htg : tg.length = 16 := hf.fields
    have hraw : hd ++ ndMsgBytes (.ns tg os) = ((hd ++ [0, 0, 0, 0]) ++ tg) ++ ndOptsBytes os := by
      simp [ndMsgBytes, List.append_assoc]
    have hl24 : ((hd ++ [0, 0, 0, 0]) ++ tg).length = 24 := by simp [hh, htg]
    have hp := ndOptsParse_rt os ho ((hd ++ [0, 0, 0, 0]) ++ tg) ((hd ++ ndMsgBytes (.ns tg os)).length + 1)
      (by have := (ndOptsBytes_mod8 os ho).2; simp [ndMsgBytes]; omega)
    rw [hl24, ← hraw] at hp
    have hs : sl (hd ++ ndMsgBytes (.ns tg os)) 8 24 = tg := by
      rw [hraw, List.append_assoc]
      exact sl_mid (hd ++ [0, 0, 0, 0]) tg _ 8 24 (by simp [hh]) (by simp [hh, htg])
    have hlen : ¬ ((hd ++ ndMsgBytes (.ns tg os)).length - 4 < 20) := by simp [ndMsgBytes, hh, htg]
    unfold ndParse
    simp only [ndMsgType, show ¬ ((135 : Nat) = 133) by decide, show ¬ ((135 : Nat) = 134) by decide, if_false, if_true, hlen, hp, hs]
    rfl
  | na r so ov tg os =>
    have htg : tg.length = 16 := hf.fields
    have hfl : (if r then 0x80 else 0) + (if so then 0x40 else 0) + (if ov then 0x20 else 0) < 256 := by
      split <;> split <;> split <;> omega
    have hraw : hd ++ ndMsgBytes (.na r so ov tg os)
        = ((hd ++ [UInt8.ofNat ((if r then 0x80 else 0) + (if so then 0x40 else 0) + (if ov then 0x20 else 0)), 0, 0, 0]) ++ tg)
          ++ ndOptsBytes os := by simp [ndMsgBytes, List.append_assoc]
    have hl24 : ((hd ++ [UInt8.ofNat ((if r then 0x80 else 0) + (if so then 0x40 else 0) + (if ov then 0x20 else 0)), 0, 0, 0]) ++ tg).length
        = 24 := by simp [hh, htg]
    have hp := ndOptsParse_rt os ho
      ((hd ++ [UInt8.ofNat ((if r then 0x80 else 0) + (if so then 0x40 else 0) + (if ov then 0x20 else 0)), 0, 0, 0]) ++ tg)
      ((hd ++ ndMsgBytes (.na r so ov tg os)).length + 1)
      (by have := (ndOptsBytes_mod8 os ho).2; simp [ndMsgBytes]; omega)
    rw [hl24, ← hraw] at hp
    have hs : sl (hd ++ ndMsgBytes (.na r so ov tg os)) 8 24 = tg := by
      rw [hraw, List.append_assoc]
      exact sl_mid _ tg _ 8 24 (by simp [hh]) (by simp [hh, htg])
    have hg : getU8 (hd ++ ndMsgBytes (.na r so ov tg os)) 4
        = some ((if r then 0x80 else 0) + (if so then 0x40 else 0) + (if ov then 0x20 else 0)) := by
      have := getU8_at' hd (ndMsgBytes (.na r so ov tg os)) [] 0 (by simp [ndMsgBytes])
      simp only [List.append_nil, hh] at this
      rw [this]
      simp [ndMsgBytes, getU8, Nat.mod_eq_of_lt hfl]
    have hlen : ¬ ((hd ++ ndMsgBytes (.na r so ov tg os)).length - 4 < 20) := by simp [ndMsgBytes, hh, htg]
    unfold ndParse
    simp only [ndMsgType, show ¬ ((136 : Nat) = 133) by decide, show ¬ ((136 : Nat) = 134) by decide,
      show ¬ ((136 : Nat) = 135) by decide, if_false, hlen, hp, hs, hg]
    cases r <;> cases so <;> cases ov <;> simp

/-! ## ICMPv6 dispatch to the message classes -/

/-- icmpv6.py `_type_to_class`: which class gets the body (the NDP classes get the whole message) -/
def icmp6Next (next : XNext) (h : Icmp) (raw payload : Bytes) : XPkt :=
  if h.type = 128 ∨ h.type = 129 then next none .echo6 payload
  else if h.type = 133 ∨ h.type = 134 ∨ h.type = 135 ∨ h.type = 136 then next none (.nd h.type) raw
  else if h.type = 2 then next none .toobig6 payload
  else if h.type = 3 then next none .timeex6 payload
  else if h.type = 1 then next none .unreach6 payload
  else .raw payload

/-- `icmp6_parse` for every message type -/
theorem icmp6_parse_any (next : XNext) (src dst : Bytes) (nh : Nat) (h : Icmp) (payload : Bytes) (hs : src.length = 16)
    (hd : dst.length = 16) (hf : h.Fits) (hn : payload.length + 4 ≤ 131000) :
    icmp6Parse (some (.v6 src dst nh)) next (icmp6Bytes src dst h payload ++ payload)
      = .icmp6 { h with csum := icmp6CsumSpec src dst h payload }
          (icmp6Next next h (icmp6Bytes src dst h payload ++ payload) payload) := by
  have hcs : icmp6CsumSpec src dst h payload < 65536 := rfc1071_lt _
  have he := icmp_encode h hf _ hcs
  obtain ⟨hu, hdr, hl4⟩ := unpack_take icmpL _ _ payload he (icmp_fits h hf _ hcs)
  have hsz : size icmpL = 4 := rfl
  rw [hsz] at hu hdr hl4
  have hlen : (icmp6Bytes src dst h payload ++ payload).length = 4 + payload.length := by
    unfold icmp6Bytes; rw [List.length_append, hl4]
  have ep := pseudo6_encode (4 + payload.length) 58 (by omega) (by decide)
  have hpl : (icmpPre h).length = 2 := by simp [icmpPre]
  -- the verification sum
  have hver : checksum ((src ++ (dst ++ (beEnc 4 (4 + payload.length) ++ (be16 0 ++ (beEnc 1 0 ++ beEnc 1 58)))))
        ++ (icmp6Bytes src dst h payload ++ payload)) 0 (some 21) = icmp6CsumSpec src dst h payload := by
    have hdata : (src ++ (dst ++ (beEnc 4 (4 + payload.length) ++ (be16 0 ++ (beEnc 1 0 ++ beEnc 1 58)))))
          ++ (icmp6Bytes src dst h payload ++ payload)
        = (pseudo6 src dst (payload.length + 4) 58 ++ icmpPre h) ++ (be16 (icmp6CsumSpec src dst h payload) ++ payload) := by
      simp [pseudo6, icmp6Bytes, List.append_assoc, Nat.add_comm]
    have hlen2 : ((pseudo6 src dst (payload.length + 4) 58 ++ icmpPre h)
        ++ (be16 (icmp6CsumSpec src dst h payload) ++ payload)).length ≤ 131072 := by
      simp [pseudo6_length _ _ _ _ hs hd, hpl]; omega
    rw [hdata, checksum_skip_eq _ 21 hlen2, be16_eq _ hcs]
    simp only [List.cons_append, List.nil_append]
    rw [zeroWord_at 21 _ _ _ _ (by simp [pseudo6_length _ _ _ _ hs hd, hpl])]
    simp [icmp6CsumSpec, List.append_assoc]
  unfold icmp6Parse
  simp only [hlen]
  unfold icmp6Bytes at hver ⊢
  simp only [hu, hdr, pk_of_encode ep, hver]
  have c0 : ¬ (4 + payload.length < 4) := by omega
  simp only [c0, if_false, decide_true, Bool.true_eq_false, icmp6Next]
  by_cases t1 : h.type = 128 ∨ h.type = 129
  · simp only [if_pos t1]
  · simp only [if_neg t1]
    by_cases t2 : h.type = 133 ∨ h.type = 134 ∨ h.type = 135 ∨ h.type = 136
    · simp only [if_pos t2]
    · simp only [if_neg t2]
      by_cases t3 : h.type = 2
      · simp only [if_pos t3]
      · simp only [if_neg t3]
        by_cases t4 : h.type = 3
        · simp only [if_pos t4]
        · simp only [if_neg t4]
          by_cases t5 : h.type = 1
          · simp only [if_pos t5]
          · simp only [if_neg t5]

theorem toobig6_parse (mtu : Nat) (q : Bytes) (h : mtu < 4294967296) : toobig6Parse (beEnc 4 mtu ++ q) = .toobig6 mtu (.raw q) := by
  obtain ⟨a, b, c, d, e, hd⟩ := be32_ex mtu h
  rw [e]
  simp [toobig6Parse, hd]

theorem timeex6_parse (q : Bytes) : timeex6Parse ([0, 0, 0, 0] ++ q) = .timeex6 (.raw q) := by
  simp [timeex6Parse]

/-- fewer than 44 quoted bytes stay opaque (a longer quote is parsed as IPv6: `unreach6Parse`) -/
theorem unreach6_parse (next : XNext) (u : Nat) (q : Bytes) (h : u < 4294967296) (hq : q.length < 44) :
    unreach6Parse next (beEnc 4 u ++ q) = .unreach6 u (.raw q) := by
  obtain ⟨a, b, c, d, e, hd⟩ := be32_ex u h
  rw [e]
  have : ¬ (q.length + 4 ≥ 48) := by omega
  simp [unreach6Parse, hd, this]

end Pox.Packet
