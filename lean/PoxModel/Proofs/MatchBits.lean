import PoxModel.Model.Match
set_option linter.unusedSimpArgs false
/-! Bit-level lemmas about the wildcard word of `Model/Match.lean`: what `clearBits`, `normalize`, `unwire` and
`fromHeaders` do to each flag bit and to the two 6-bit prefix counters.  Core only. -/
namespace Pox.OF

theorem testBit_clearBits (x m i : Nat) : (clearBits x m).testBit i = (x.testBit i && !m.testBit i) := by
  simp only [clearBits, Nat.testBit_xor, Nat.testBit_and]
  cases x.testBit i <;> cases m.testBit i <;> rfl

/-- the 6-bit field of `w` at bit offset `sh` -/
def cnt (sh w : Nat) : Nat := (w >>> sh) % 2 ^ 6

theorem cnt_lt (sh w : Nat) : cnt sh w < 64 := Nat.mod_lt _ (by decide)

theorem cnt_or (sh a b : Nat) : cnt sh (a ||| b) = cnt sh a ||| cnt sh b := by
  simp only [cnt, Nat.shiftRight_or_distrib, Nat.or_mod_two_pow]

theorem cnt_clearBits (sh a m : Nat) : cnt sh (clearBits a m) = clearBits (cnt sh a) (cnt sh m) := by
  simp only [cnt, clearBits, Nat.shiftRight_xor_distrib, Nat.shiftRight_and_distrib, Nat.xor_mod_two_pow, Nat.and_mod_two_pow]

theorem clearBits_zero (x : Nat) : clearBits x 0 = x := by simp [clearBits]

theorem clearBits_63 (x : Nat) (h : x < 64) : clearBits x 63 = 0 := by
  have : x &&& 63 = x := by
    have := Nat.and_two_pow_sub_one_eq_mod x 6
    simp only [show (2:Nat) ^ 6 - 1 = 63 from rfl, show (2:Nat) ^ 6 = 64 from rfl] at this
    rw [this]; exact Nat.mod_eq_of_lt h
  simp [clearBits, this]

theorem or_63 (x : Nat) (h : x < 64) : x ||| 63 = 63 := by
  apply Nat.eq_of_testBit_eq
  intro i
  rw [Nat.testBit_or]
  by_cases hi : i < 6
  · have : Nat.testBit 63 i = true := by
      have := Nat.testBit_two_pow_sub_one 6 i
      simpa [hi] using this
    simp [this]
  · have h1 : Nat.testBit 63 i = false := by
      have := Nat.testBit_two_pow_sub_one 6 i
      simpa [hi] using this
    have h2 : x.testBit i = false := by
      apply Nat.testBit_lt_two_pow
      calc x < 64 := h
        _ = 2 ^ 6 := rfl
        _ ≤ 2 ^ i := Nat.pow_le_pow_right (by decide) (by omega)
    simp [h1, h2]

theorem srcCnt_eq (w : Nat) : srcCnt w = cnt 8 w := by
  simp only [srcCnt, cnt, NW_SRC_MASK, NW_SRC_SHIFT, Nat.shiftRight_and_distrib]
  have := Nat.and_two_pow_sub_one_eq_mod (w >>> 8) 6
  simpa using this

theorem dstCnt_eq (w : Nat) : dstCnt w = cnt 14 w := by
  simp only [dstCnt, cnt, NW_DST_MASK, NW_DST_SHIFT, Nat.shiftRight_and_distrib]
  have := Nat.and_two_pow_sub_one_eq_mod (w >>> 14) 6
  simpa using this

theorem cnt_eq_div (sh w : Nat) : cnt sh w = w / 2 ^ sh % 64 := by
  simp [cnt, Nat.shiftRight_eq_div_pow]

/-! ### `normalize` -/

theorem normalize_testBit (w i : Nat) (h : i < 8 ∨ 20 ≤ i) : (normalize w).testBit i = w.testBit i := by
  have hs : Nat.testBit NW_SRC_MASK i = false ∧ Nat.testBit (32 <<< NW_SRC_SHIFT) i = false ∧
            Nat.testBit NW_DST_MASK i = false ∧ Nat.testBit (32 <<< NW_DST_SHIFT) i = false := by
    rcases h with h | h
    · have : i = 0 ∨ i = 1 ∨ i = 2 ∨ i = 3 ∨ i = 4 ∨ i = 5 ∨ i = 6 ∨ i = 7 := by omega
      rcases this with rfl | rfl | rfl | rfl | rfl | rfl | rfl | rfl <;> decide
    · refine ⟨?_, ?_, ?_, ?_⟩ <;>
      · apply Nat.testBit_lt_two_pow
        calc _ < 2 ^ 20 := by decide
          _ ≤ 2 ^ i := Nat.pow_le_pow_right (by decide) h
  unfold normalize
  simp only
  split <;> split <;> simp [Nat.testBit_or, testBit_clearBits, hs.1, hs.2.1, hs.2.2.1, hs.2.2.2]

theorem normalize_srcCnt (w : Nat) : srcCnt (normalize w) = min 32 (srcCnt w) := by
  have h1 : cnt 8 NW_SRC_MASK = 63 := by decide
  have h2 : cnt 8 (32 <<< NW_SRC_SHIFT) = 32 := by decide
  have h3 : cnt 8 NW_DST_MASK = 0 := by decide
  have h4 : cnt 8 (32 <<< NW_DST_SHIFT) = 0 := by decide
  have hlt := cnt_lt 8 w
  unfold normalize
  simp only [srcCnt_eq, dstCnt_eq]
  split <;> split <;>
    (try simp only [cnt_or, cnt_clearBits, h1, h2, h3, h4, clearBits_zero, clearBits_63 _ hlt, Nat.or_zero, Nat.zero_or] at *) <;> omega

theorem normalize_dstCnt (w : Nat) : dstCnt (normalize w) = min 32 (dstCnt w) := by
  have h1 : cnt 14 NW_SRC_MASK = 0 := by decide
  have h2 : cnt 14 (32 <<< NW_SRC_SHIFT) = 0 := by decide
  have h3 : cnt 14 NW_DST_MASK = 63 := by decide
  have h4 : cnt 14 (32 <<< NW_DST_SHIFT) = 32 := by decide
  have hlt := cnt_lt 14 w
  unfold normalize
  simp only [srcCnt_eq, dstCnt_eq]
  split <;> split <;>
    (try simp only [cnt_or, cnt_clearBits, h1, h2, h3, h4, clearBits_zero, clearBits_63 _ hlt, Nat.or_zero, Nat.zero_or] at *) <;> omega

end Pox.OF

namespace Pox.OF
open OfMatch

/-! ### `unwire` / `ofWire` -/

/-- the bits `_unwire_wildcards` adds -/
def unwireMask (dlType nwProto : Nat) : Nat :=
  if dlType = 0x0800 then (if isL4Proto nwProto then 0 else TP_BITS)
  else if dlType = 0x0806 then ARP_IGNORED else NONIP_IGNORED

theorem unwire_eq (t p w : Nat) : unwire t p w = w ||| unwireMask t p := by
  unfold unwire unwireMask
  split
  · split <;> simp
  · split <;> rfl

/-- nw_proto / nw_src / nw_dst are forced to "wildcarded": the raw dl_type is neither IPv4 nor ARP -/
def nwIgnored (r : OfMatch) : Bool := !(r.dlType == 0x0800 || r.dlType == 0x0806)
/-- nw_tos is forced to "wildcarded" -/
def tosIgnored (r : OfMatch) : Bool := !(r.dlType == 0x0800)
/-- tp_src / tp_dst are forced to "wildcarded" -/
def tpIgnored (r : OfMatch) : Bool := !(r.dlType == 0x0800 && isL4Proto r.nwProto)

def ignoredFlag (r : OfMatch) : Fld → Bool
  | .tpSrc | .tpDst => tpIgnored r
  | .nwTos => tosIgnored r
  | .nwProto => nwIgnored r
  | _ => false

theorem Fld.bit_range (f : Fld) : f.bit < 8 ∨ 20 ≤ f.bit := by cases f <;> decide

theorem unwireMask_testBit (r : OfMatch) (f : Fld) :
    (unwireMask r.dlType r.nwProto).testBit f.bit = ignoredFlag r f := by
  unfold unwireMask ignoredFlag tpIgnored tosIgnored nwIgnored
  by_cases h1 : r.dlType = 0x0800
  · have e1 : (r.dlType == 0x0800) = true := by simpa using h1
    by_cases h2 : isL4Proto r.nwProto = true
    · simp only [if_pos h1, if_pos h2, e1, h2, Bool.true_or, Bool.false_or, Bool.false_and, Bool.true_and, if_true]; cases f <;> decide
    · have h2' : isL4Proto r.nwProto = false := by simpa using h2
      simp only [if_pos h1, h2', e1, Bool.true_or, Bool.false_or, Bool.false_and, Bool.true_and, if_true]; cases f <;> decide
  · have e1 : (r.dlType == 0x0800) = false := by simpa using h1
    by_cases h3 : r.dlType = 0x0806
    · have e3 : (r.dlType == 0x0806) = true := by simpa using h3
      simp only [if_neg h1, if_pos h3, e1, e3, Bool.true_or, Bool.false_or, Bool.false_and, Bool.true_and, if_true]; cases f <;> decide
    · have e3 : (r.dlType == 0x0806) = false := by simpa using h3
      simp only [if_neg h1, if_neg h3, e1, e3, Bool.true_or, Bool.false_or, Bool.false_and, Bool.true_and, if_true]; cases f <;> decide

theorem ofWire_wild (r : OfMatch) (f : Fld) : (ofWire r).wild f = (r.wild f || ignoredFlag r f) := by
  simp only [wild, ofWire, normalize_testBit _ _ (Fld.bit_range f), unwire_eq, Nat.testBit_or, unwireMask_testBit]

theorem ofWire_get (r : OfMatch) (f : Fld) : (ofWire r).get f = r.get f := by cases f <;> rfl

theorem unwireMask_cnt (r : OfMatch) :
    cnt 8 (unwireMask r.dlType r.nwProto) = (if nwIgnored r then 63 else 0) ∧
    cnt 14 (unwireMask r.dlType r.nwProto) = (if nwIgnored r then 63 else 0) := by
  unfold unwireMask nwIgnored
  by_cases h1 : r.dlType = 0x0800
  · have e1 : (r.dlType == 0x0800) = true := by simpa using h1
    by_cases h2 : isL4Proto r.nwProto = true
    · simp only [if_pos h1, if_pos h2, e1, Bool.true_or, Bool.false_or, Bool.false_and, Bool.true_and, if_true]; decide
    · have h2' : isL4Proto r.nwProto = false := by simpa using h2
      simp only [if_pos h1, h2', e1, Bool.true_or, Bool.false_or, Bool.false_and, Bool.true_and, if_true]; decide
  · have e1 : (r.dlType == 0x0800) = false := by simpa using h1
    by_cases h3 : r.dlType = 0x0806
    · have e3 : (r.dlType == 0x0806) = true := by simpa using h3
      simp only [if_neg h1, if_pos h3, e1, e3, Bool.true_or, Bool.false_or, Bool.false_and, Bool.true_and, if_true]; decide
    · have e3 : (r.dlType == 0x0806) = false := by simpa using h3
      simp only [if_neg h1, if_neg h3, e1, e3, Bool.true_or, Bool.false_or, Bool.false_and, Bool.true_and, if_true]; decide

theorem ofWire_srcCnt (r : OfMatch) :
    srcCnt (ofWire r).wildcards = if nwIgnored r then 32 else min 32 (srcCnt r.wildcards) := by
  show srcCnt (normalize (unwire r.dlType r.nwProto r.wildcards)) = _
  rw [normalize_srcCnt, unwire_eq, srcCnt_eq, cnt_or, (unwireMask_cnt r).1, srcCnt_eq]
  have := cnt_lt 8 r.wildcards
  split
  · rw [or_63 _ this]; rfl
  · simp

theorem ofWire_dstCnt (r : OfMatch) :
    dstCnt (ofWire r).wildcards = if nwIgnored r then 32 else min 32 (dstCnt r.wildcards) := by
  show dstCnt (normalize (unwire r.dlType r.nwProto r.wildcards)) = _
  rw [normalize_dstCnt, unwire_eq, dstCnt_eq, cnt_or, (unwireMask_cnt r).2, dstCnt_eq]
  have := cnt_lt 14 r.wildcards
  split
  · rw [or_63 _ this]; rfl
  · simp

/-! ### `fromHeaders` -/

theorem empty_wildcards : empty.wildcards = 0x3820ff := by decide

theorem setFlagWild_testBit (w : Nat) (f : Fld) (v : Option Nat) (i : Nat) :
    (setFlagWild w f v).testBit i = (w.testBit i && !(v.isSome && decide (f.bit = i))) := by
  cases v <;> simp [setFlagWild, testBit_clearBits, Fld.mask, Nat.testBit_two_pow]

theorem setNwWild_testBit (w mask shift : Nat) (v : Option Nat) (i : Nat) :
    (setNwWild w mask shift v).testBit i = (w.testBit i && !(v.isSome && mask.testBit i)) := by
  cases v <;> simp [setNwWild, testBit_clearBits]

theorem setFlagWild_cnt (sh w : Nat) (f : Fld) (v : Option Nat) (h : cnt sh f.mask = 0) :
    cnt sh (setFlagWild w f v) = cnt sh w := by
  cases v <;> simp [setFlagWild, cnt_clearBits, h, clearBits_zero]

theorem Fld.mask_cnt (f : Fld) : cnt 8 f.mask = 0 ∧ cnt 14 f.mask = 0 := by cases f <;> decide

theorem fromHeaders_wild (o : OHeaders) (f : Fld) : (fromHeaders o).wild f = (o.get f).isNone := by
  have hs : Nat.testBit NW_SRC_MASK f.bit = false := by cases f <;> decide
  have hd : Nat.testBit NW_DST_MASK f.bit = false := by cases f <;> decide
  have he : Nat.testBit 0x3820ff f.bit = true := by cases f <;> decide
  simp only [wild, fromHeaders, Fld.all, List.foldl_cons, List.foldl_nil, setNwWild_testBit, setFlagWild_testBit, hs, hd,
    empty_wildcards, he, Bool.and_false, Bool.not_false, Bool.and_true, Bool.true_and]
  cases f <;> simp [Fld.bit, OHeaders.get]

theorem fromHeaders_get (o : OHeaders) (f : Fld) : (fromHeaders o).get f = (o.get f).getD 0 := by cases f <;> rfl

theorem flags_cnt (sh : Nat) (o : OHeaders) (w : Nat) (h : ∀ f : Fld, cnt sh f.mask = 0) :
    cnt sh (Fld.all.foldl (fun w f => setFlagWild w f (o.get f)) w) = cnt sh w := by
  simp only [Fld.all, List.foldl_cons, List.foldl_nil, setFlagWild_cnt _ _ _ _ (h _)]

theorem setNwWild_cnt_same (sh w mask : Nat) (v : Option Nat) (h : cnt sh mask = 63) (shift : Nat) :
    cnt sh (setNwWild w mask shift v) = if v.isSome then 0 else cnt sh w := by
  cases v
  · simp [setNwWild]
  · have : cnt sh 0 = 0 := by simp [cnt]
    simp [setNwWild, cnt_or, cnt_clearBits, h, clearBits_63 _ (cnt_lt sh w), this]

theorem setNwWild_cnt_other (sh w mask : Nat) (v : Option Nat) (h : cnt sh mask = 0) (shift : Nat) :
    cnt sh (setNwWild w mask shift v) = cnt sh w := by
  cases v
  · simp [setNwWild]
  · have : cnt sh 0 = 0 := by simp [cnt]
    simp [setNwWild, cnt_or, cnt_clearBits, h, clearBits_zero, this]

theorem fromHeaders_srcCnt (o : OHeaders) : srcCnt (fromHeaders o).wildcards = if o.nwSrc.isSome then 0 else 32 := by
  have e : cnt 8 (0x3820ff : Nat) = 32 := by decide
  simp only [fromHeaders, srcCnt_eq, setNwWild_cnt_other 8 _ NW_DST_MASK _ (by decide),
    setNwWild_cnt_same 8 _ NW_SRC_MASK _ (by decide), flags_cnt 8 o _ (fun f => (Fld.mask_cnt f).1), empty_wildcards, e]

theorem fromHeaders_dstCnt (o : OHeaders) : dstCnt (fromHeaders o).wildcards = if o.nwDst.isSome then 0 else 32 := by
  have e : cnt 14 (0x3820ff : Nat) = 32 := by decide
  simp only [fromHeaders, dstCnt_eq, setNwWild_cnt_other 14 _ NW_SRC_MASK _ (by decide),
    setNwWild_cnt_same 14 _ NW_DST_MASK _ (by decide), flags_cnt 14 o _ (fun f => (Fld.mask_cnt f).2), empty_wildcards, e]

end Pox.OF
