import PoxModel.Proofs.HandoffAlive
/-! # C07: the CallLaterTask is in exactly one place; no thread dies of an assertion -/
namespace Pox.Handoff

/-- the scheduler thread holds the CallLaterTask `c`: it is executing it (before it re-registers with the hub), or is
    the hub runner about to put it back into `ready`, or is starting it (`callLater` from cooperative code) -/
def sTokC (pc : SPc) (c : TaskId) : Nat :=
  match pc with
  | .rsPut x | .cltPong x | .cltPop x | .cltCall x _ => if x = c then 1 else 0
  | .hub (.ret x .assert) | .hub (.ret x .append) => if x = c then 1 else 0
  | .ucContains _ x | .ucFs _ x .assert | .ucFs _ x .append => if x = c then 1 else 0
  | _ => 0

def hTokC (pc : HPc) (c : TaskId) : Nat :=
  match pc with
  | .hub (.ret x .assert) | .hub (.ret x .append) => if x = c then 1 else 0
  | _ => 0

/-- ScheduleTasks for `c` that have not run -/
def stTok (tasks : List Kind) (c : TaskId) : Nat := tasks.countP fun k => k == .st c false

/-- foreign threads about to create the ScheduleTask that starts `c` -/
def spawnTok (fs : List FThread) (c : TaskId) : Nat := fs.countP fun f => f.pc == .spawn .cl c

/-- the ScheduleTask for `c` has put `c` into `ready` but is not yet marked as run -/
def sigAdj (pc : SPc) (tasks : List Kind) (c : TaskId) : Nat :=
  match pc with
  | .stFs st .signal => if tasks[st]? = some (.st c false) then 1 else 0
  | _ => 0

def tok (s : State) (c : TaskId) : Nat :=
  s.ready.count c + s.incoming.count c + s.hubTasks.count c + sTokC s.s c + hTokC s.h c + stTok s.tasks c + spawnTok s.fs c

def cpPc : HubPc → Bool
  | .pong cp | .empty cp | .get cp => cp
  | _ => false

def cpS : SPc → Bool
  | .hub q => cpPc q
  | _ => false

def cpH : HPc → Bool
  | .hub q => cpPc q
  | _ => false

structure InvL (s : State) : Prop where
  one : ∀ c, s.cltTask = some c → tok s c = 1 + sigAdj s.s s.tasks c
  cps : cpS s.s = true → ∃ c, s.cltTask = some c ∧ c ∈ s.hubTasks
  cph : cpH s.h = true → ∃ c, s.cltTask = some c ∧ c ∈ s.hubTasks

theorem stTok_set {l : List Kind} {t : Nat} {old : Kind} (ht : l[t]? = some old) (new : Kind) (c : TaskId) :
    stTok (l.set t new) c = stTok l c + b2n (new == .st c false) - b2n (old == .st c false) ∧
    b2n (old == .st c false) ≤ stTok l c :=
  countP_set_eq (fun k : Kind => k == .st c false) ht new

theorem stTok_append (l : List Kind) (x : Kind) (c : TaskId) : stTok (l ++ [x]) c = stTok l c + b2n (x == .st c false) :=
  countP_append_one _ l x

theorem spawnTok_set {fs : List FThread} {i : Nat} {f : FThread} (hf : fs[i]? = some f) (f' : FThread) (c : TaskId) :
    spawnTok (fs.set i f') c = spawnTok fs c + b2n (f'.pc == .spawn .cl c) - b2n (f.pc == .spawn .cl c) ∧
    b2n (f.pc == .spawn .cl c) ≤ spawnTok fs c :=
  countP_set_eq (fun g : FThread => g.pc == .spawn .cl c) hf f'

/-- an id of CallLaterTask kind is the CallLaterTask -/
theorem eq_clt {s : State} (hC : InvC s) {c a : TaskId} (hc : s.cltTask = some c) (ha : tagAt s.tasks a = some 1) : a = c := by
  have := hC.cltU a ha; rw [hc] at this; exact (Option.some.inj this).symm

theorem ne_clt {s : State} (hK : InvK s) {c a : TaskId} {n : Nat} (hc : s.cltTask = some c) (ha : tagAt s.tasks a = some n)
    (hn : n ≠ 1) : a ≠ c := by
  intro e; subst e; rw [hK.cltT a hc] at ha; cases ha; exact hn rfl

theorem stTok_set_same {l : List Kind} {t : Nat} {old new : Kind} (c : TaskId) (ht : l[t]? = some old)
    (ho : old ≠ .st c false) (hn : new ≠ .st c false) : stTok (l.set t new) c = stTok l c := by
  obtain ⟨h1, _⟩ := stTok_set ht new c
  have e1 : (new == Kind.st c false) = false := by simpa using hn
  have e2 : (old == Kind.st c false) = false := by simpa using ho
  rw [h1, e1, e2]; simp [b2n]

theorem cltReadable_mem {s : State} {c : TaskId} (h : cltReadable s = some c) : c ∈ s.hubTasks := by
  simp only [cltReadable] at h
  split at h
  · split at h
    · cases h; rename_i hh; exact hh.1
    · cases h
  · cases h

theorem count_erase_mem {l : List Nat} {c : Nat} (h : c ∈ l) : (l.erase c).count c + 1 = l.count c := by
  have := List.count_erase_self (a := c) (l := l)
  have hp := count_pos_of_mem h
  omega

/-- the scheduler thread is running a ScheduleTask that has not been marked as run -/
theorem running_st_fresh {s : State} (hS : InvS s) {st : Nat} {tg : TaskId} {r : Bool} (hrun : sRunsST s.s st = 1)
    (hl : s.tasks[st]? = some (.st tg r)) : r = false := by
  cases r with
  | false => rfl
  | true => have := hS.dead st tg hl; simp only [occ] at this; omega

theorem sigAdj_le_stTok (pc : SPc) (tasks : List Kind) (c : TaskId) : sigAdj pc tasks c ≤ stTok tasks c := by
  unfold sigAdj
  split
  · split
    · rename_i hl
      exact countP_pos_of (fun k : Kind => k == Kind.st c false) hl (by simp)
    · exact Nat.zero_le _
  · exact Nat.zero_le _

theorem sTokC_typed {l : List Kind} {pc : SPc} {c : TaskId} (hok : sOk l pc) (h : sTokC pc c ≠ 0) : tagAt l c = some 1 := by
  unfold sTokC at h
  split at h <;> first
    | (exact absurd rfl h)
    | (split at h
       · rename_i e; subst e
         simp only [sOk, hubOk] at hok
         first | exact hok | exact hok.2
       · exact absurd rfl h)

/-- nothing refers to an id that has not been allocated yet -/
theorem tok_fresh {s : State} (hK : InvK s) :
    s.incoming.count s.tasks.length = 0 ∧ s.hubTasks.count s.tasks.length = 0 ∧ hTokC s.h s.tasks.length = 0 ∧
    stTok s.tasks s.tasks.length = 0 ∧ spawnTok s.fs s.tasks.length = 0 := by
  refine ⟨?_, ?_, ?_, ?_, ?_⟩
  · apply List.count_eq_zero.mpr; intro hm; have := tagAt_lt (hK.inc _ hm); omega
  · apply List.count_eq_zero.mpr; intro hm; have := tagAt_lt (hK.hubT _ hm); omega
  · have hh := hK.href
    cases hpc : s.h with
    | hub q =>
      cases q with
      | ret x p =>
        simp only [hpc, hOk, hubOk] at hh
        cases p <;> simp only [hTokC] <;> first | rfl | (split <;> first | rfl | (rename_i e; subst e; have := tagAt_lt hh; omega))
      | _ => rfl
    | _ => rfl
  · apply List.countP_eq_zero.mpr
    intro k hk hp
    have e : k = Kind.st s.tasks.length false := by simpa using hp
    subst e
    obtain ⟨j, hj⟩ := List.mem_iff_getElem?.mp hk
    obtain ⟨n, hn, _⟩ := hK.stTg j _ _ hj
    have := tagAt_lt hn; omega
  · apply List.countP_eq_zero.mpr
    intro g hg hp
    have e : g.pc = FPc.spawn .cl s.tasks.length := by simpa using hp
    obtain ⟨j, hj⟩ := List.mem_iff_getElem?.mp hg
    have hok := hK.fref j g hj
    simp only [e, fOk] at hok
    have := tagAt_lt hok; omega

theorem stepS_L_one {s s' : State} (hK : InvK s) (hC : InvC s) (hS : InvS s) (hW : InvW s) (h : InvL s)
    (hs : stepS s = some s') : ∀ c, s'.cltTask = some c → tok s' c = 1 + sigAdj s'.s s'.tasks c := by
  have hsok := hK.sref
  obtain ⟨hone, hcps, hcph⟩ := h
  s_cases hs s hpc
  all_goals simp only [hpc, sOk, hubOk] at hsok
  all_goals intro c hc
  all_goals first
    | (have h1 := hone c hc
       simp only [tok, sTokC, sigAdj, hpc] at h1 ⊢
       first
         | exact h1
         | (rw [stTok_set_same c (by assumption) (fun e => Kind.noConfusion e) (fun e => Kind.noConfusion e)]; exact h1))
    -- a task is popped from `ready`
    | (have h1 := hone c hc
       have hp := pop_count c (by assumption)
       simp only [tok, sTokC, sigAdj, hpc] at h1 ⊢
       rw [hp] at h1
       try rw [stTok_set_same c (by assumption) (fun e => Kind.noConfusion e) (fun e => Kind.noConfusion e)]
       first
         | (have e := eq_clt hC hc (tagAt_clt (by assumption)); subst e; simp only [↓reduceIte] at h1 ⊢; omega)
         | (have e := ne_clt hK hc (tagAt_user (by assumption)) (by decide); simp only [if_neg e] at h1 ⊢; omega)
         | (have e := ne_clt hK hc (tagAt_st (by assumption)) (by decide); simp only [if_neg e] at h1 ⊢; omega)
         | (have e := ne_clt hK hc (tagAt_sync (by assumption)) (by decide); simp only [if_neg e] at h1 ⊢; omega))
    -- a task that is not the CallLaterTask is appended to `ready`
    | (have h1 := hone c hc
       simp only [tok, sTokC, sigAdj, hpc, count_append_self] at h1 ⊢
       have e := ne_clt hK hc hsok.2 (by decide)
       simp only [beq_false_of_ne e, b2n, Bool.false_eq_true, ↓reduceIte] at h1 ⊢
       omega)
    | (have h1 := hone c hc
       simp only [tok, sTokC, sigAdj, hpc, count_append_self] at h1 ⊢
       have e := hsok.elim (fun h => ne_clt hK hc h (by decide)) (fun h => ne_clt hK hc h (by decide))
       simp only [beq_false_of_ne e, b2n, Bool.false_eq_true, ↓reduceIte] at h1 ⊢
       omega)
    -- the CallLaterTask moves: executed -> `_incoming`; started by cooperative code; returned by the hub runner
    | (have h1 := hone c hc
       have e := eq_clt hC hc hsok
       subst e
       simp only [tok, sTokC, sigAdj, hpc, count_append_self, ↓reduceIte, beq_self_eq_true, b2n] at h1 ⊢
       first
         | omega
         | (have := count_pos_of_mem (by assumption : _ ∈ s.ready); omega))
    | (have h1 := hone c hc
       have e := eq_clt hC hc hsok.2
       subst e
       simp only [tok, sTokC, sigAdj, hpc, count_append_self, ↓reduceIte, beq_self_eq_true, b2n] at h1 ⊢
       first
         | omega
         | (have := count_pos_of_mem (by assumption : _ ∈ s.ready); omega))
    | skip
  · -- select reports the CallLaterTask's pinger: the hub runner takes it out of its table
    rename_i hq
    have h1 := hone c hc
    have e := Option.some.inj ((cltReadable_some hq).symm.trans hc)
    subst e
    have hm := count_erase_mem (cltReadable_mem hq)
    simp only [tok, sTokC, sigAdj, hpc, ↓reduceIte] at h1 ⊢
    omega
  · -- … the same after the `_incoming` queue was emptied
    rename_i cp _ hcp _ c' hq
    have h1 := hone c hc
    have e := Option.some.inj (hq.symm.trans hc)
    subst e
    obtain ⟨c0, hc0, hm0⟩ := hcps (by rw [hpc]; exact hcp)
    have e0 := Option.some.inj (hc0.symm.trans hc)
    subst e0
    have hm := count_erase_mem hm0
    simp only [tok, sTokC, sigAdj, hpc, ↓reduceIte] at h1 ⊢
    omega
  · -- `assert task not in tasks` would fail: impossible, the task is in one place only
    rename_i cp _ y rest hq hm
    exfalso
    have hcl : s.cltTask = some c := hc
    have h1 := hone c hcl
    have e := eq_clt hC hcl (hK.inc y (head_mem hq))
    subst e
    have := count_pos_of_mem (head_mem hq)
    have := count_pos_of_mem hm
    simp only [tok] at h1
    have : sigAdj s.s s.tasks y = 0 := by simp only [sigAdj, hpc]
    omega
  · -- the CallLaterTask moves from `_incoming` into the hub's table
    rename_i cp _ y rest hq hm
    have h1 := hone c hc
    have e := eq_clt hC hc (hK.inc y (head_mem hq))
    subst e
    have hp := pop_count y hq
    simp only [tok, sTokC, sigAdj, hpc, count_append_self, ↓reduceIte, beq_self_eq_true, b2n] at h1 ⊢
    rw [hp] at h1
    simp only [↓reduceIte] at h1
    omega
  -- the slices of ScheduleTasks
  all_goals try (
    rename_i st _ tg r hq hm
    have hr := running_st_fresh hS (by simp only [sRunsST, hpc, ↓reduceIte]) hq
    subst hr
    have h1 := hone c hc
    obtain ⟨e1, e2⟩ := stTok_set hq (Kind.st tg true) c
    have f1 : (Kind.st tg true == Kind.st c false) = false := by simp
    simp only [tok, sTokC, sigAdj, hpc, hq] at h1 ⊢
    by_cases e : tg = c
    · subst e
      simp only [beq_self_eq_true, b2n, ↓reduceIte, f1, Bool.false_eq_true] at e1 e2
      first
        | (have := count_pos_of_mem (by assumption : tg ∈ s.ready); omega)
        | (simp only [↓reduceIte] at h1 ⊢; omega)
    · have f2 : (Kind.st tg false == Kind.st c false) = false := by simp [e]
      have f3 : ¬ (some (Kind.st tg false) = some (Kind.st c false)) := by simp [e]
      simp only [f1, f2, b2n, Bool.false_eq_true, ↓reduceIte, f3] at e1 h1 ⊢
      omega)
  · -- the ScheduleTask puts its target at the head of `ready`
    rename_i st _ tg r hq
    have hr := running_st_fresh hS (by simp only [sRunsST, hpc, ↓reduceIte]) hq
    subst hr
    have h1 := hone c hc
    simp only [tok, sTokC, sigAdj, hpc, hq, List.count_cons] at h1 ⊢
    by_cases e : tg = c
    · subst e; simp only [beq_self_eq_true, ↓reduceIte] at h1 ⊢; omega
    · have f2 : (tg == c) = false := by simp [e]
      have f3 : ¬ (some (Kind.st tg false) = some (Kind.st c false)) := by simp [e]
      simp only [f2, f3, Bool.false_eq_true, ↓reduceIte] at h1 ⊢; omega
  · -- `self._callLaterTask = CallLaterTask()` on the scheduler thread: a brand-new id, held by this thread
    have e : s.tasks.length = c := Option.some.inj hc
    subst e
    obtain ⟨f1, f2, f3, f4, f5⟩ := tok_fresh hK
    have f0 := count_fresh hK
    simp only [tok, sTokC, sigAdj, stTok_append, ↓reduceIte, f0, f1, f2, f3, f4, f5]
    have : (Kind.clt false == Kind.st s.tasks.length false) = false := by simp
    simp [this, b2n]

theorem stepS_L {s s' : State} (hK : InvK s) (hC : InvC s) (hS : InvS s) (hW : InvW s) (h : InvL s)
    (hs : stepS s = some s') : InvL s' := by
  refine ⟨stepS_L_one hK hC hS hW h hs, ?_, ?_⟩
  · obtain ⟨hone, hcps, hcph⟩ := h
    s_cases hs s hpc
    all_goals intro hq
    all_goals first
      | (simp only [cpS, cpPc] at hq; done)
      | (cases hq; done)
      | (have hq' : cpS s.s = true := by rw [hpc]; exact hq
         obtain ⟨c, hc, hm⟩ := hcps hq'
         first | exact ⟨c, hc, hm⟩ | exact ⟨c, hc, List.mem_append_left _ hm⟩)
      | (simp only [cpS, cpPc] at hq
         rcases hr : cltReadable s with _ | c
         · rw [hr] at hq; simp at hq
         · exact ⟨c, cltReadable_some hr, cltReadable_mem hr⟩)
  · obtain ⟨hone, hcps, hcph⟩ := h
    have hoff : ∀ q, s.s = .hub q → cpH s.h = false := by
      intro q hq
      cases ht : s.threaded with
      | true => exact absurd hq (hW.thr ht q)
      | false => rw [(hW.inl ht).1]; rfl
    s_cases hs s hpc
    all_goals first
      | exact hcph
      | (intro hq; have := hoff _ hpc; rw [this] at hq; cases hq)
      | (intro hq; obtain ⟨c, hc, _⟩ := hcph hq; rw [hC.crS ⟨_, hpc⟩] at hc; cases hc)

theorem stepH_L {s s' : State} (hK : InvK s) (hC : InvC s) (hW : InvW s) (h : InvL s)
    (hs : stepH s = some s') : InvL s' := by
  have hsok := hK.href
  obtain ⟨hone, hcps, hcph⟩ := h
  have hnoS : ∀ q, s.h = .hub q → cpS s.s = false := by
    intro q hq
    cases ht : s.threaded with
    | false => have := (hW.inl ht).1; rw [hq] at this; cases this
    | true =>
      cases hp : s.s with
      | hub q' => exact absurd hp (hW.thr ht q')
      | _ => rfl
  refine ⟨?_, ?_, ?_⟩
  · h_cases hs s hpc
    all_goals simp only [hpc, hOk, hubOk] at hsok
    all_goals intro c hc
    all_goals first
      | (have h1 := hone c hc
         simp only [tok, hTokC, hpc] at h1 ⊢
         exact h1)
      | (have h1 := hone c hc
         have hsa := sigAdj_le_stTok s.s s.tasks c
         have e := eq_clt hC hc hsok
         subst e
         simp only [tok, hTokC, hpc, count_append_self, ↓reduceIte, beq_self_eq_true, b2n] at h1 ⊢
         first
           | omega
           | (have := count_pos_of_mem (by assumption : _ ∈ s.ready); omega))
      | skip
    · -- select reports the CallLaterTask's pinger
      rename_i hq
      have h1 := hone c hc
      have e := Option.some.inj ((cltReadable_some hq).symm.trans hc)
      subst e
      have hm := count_erase_mem (cltReadable_mem hq)
      simp only [tok, hTokC, hpc, ↓reduceIte] at h1 ⊢
      omega
    · rename_i cp _ hcp _ c' hq
      have h1 := hone c hc
      have e := Option.some.inj (hq.symm.trans hc)
      subst e
      obtain ⟨c0, hc0, hm0⟩ := hcph (by rw [hpc]; exact hcp)
      have e0 := Option.some.inj (hc0.symm.trans hc)
      subst e0
      have hm := count_erase_mem hm0
      simp only [tok, hTokC, hpc, ↓reduceIte] at h1 ⊢
      omega
    · rename_i cp _ y rest hq hm
      exfalso
      have hcl : s.cltTask = some c := hc
      have h1 := hone c hcl
      have e := eq_clt hC hcl (hK.inc y (head_mem hq))
      subst e
      have := count_pos_of_mem (head_mem hq)
      have := count_pos_of_mem hm
      simp only [tok] at h1
      have hsa := sigAdj_le_stTok s.s s.tasks y
      omega
    · rename_i cp _ y rest hq hm
      have h1 := hone c hc
      have e := eq_clt hC hc (hK.inc y (head_mem hq))
      subst e
      have hp := pop_count y hq
      simp only [tok, hTokC, hpc, count_append_self, ↓reduceIte, beq_self_eq_true, b2n] at h1 ⊢
      rw [hp] at h1
      simp only [↓reduceIte] at h1
      omega
  · h_cases hs s hpc
    all_goals (intro hq; have := hnoS _ hpc; rw [this] at hq; cases hq)
  · h_cases hs s hpc
    all_goals intro hq
    all_goals first
      | (simp only [cpH, cpPc] at hq; done)
      | (cases hq; done)
      | (have hq' : cpH s.h = true := by rw [hpc]; exact hq
         obtain ⟨c, hc, hm⟩ := hcph hq'
         first | exact ⟨c, hc, hm⟩ | exact ⟨c, hc, List.mem_append_left _ hm⟩)
      | (simp only [cpH, cpPc] at hq
         rcases hr : cltReadable s with _ | c
         · rw [hr] at hq; simp at hq
         · exact ⟨c, cltReadable_some hr, cltReadable_mem hr⟩)

theorem sigAdj_append {pc : SPc} {l : List Kind} (hok : sOk l pc) (x : Kind) (c : TaskId) :
    sigAdj pc (l ++ [x]) c = sigAdj pc l c := by
  cases pc with
  | stFs st p =>
    cases p with
    | signal =>
      simp only [sOk] at hok
      simp only [sigAdj, List.getElem?_append_left (tagAt_lt hok)]
    | _ => rfl
  | _ => rfl

theorem sigAdj_set_sync {pc : SPc} {l : List Kind} {k : Nat} {o : Tid} {a b : Bool} {ph : Nat}
    (hk : l[k]? = some (.sync o a b ph)) (new : Kind) (c : TaskId) (hnew : ∀ tg r, new ≠ .st tg r) :
    sigAdj pc (l.set k new) c = sigAdj pc l c := by
  cases pc with
  | stFs st p =>
    cases p with
    | signal =>
      simp only [sigAdj]
      by_cases e : st = k
      · subst e
        have h1 : (l.set st new)[st]? = some new := by rw [List.getElem?_set]; simp [getElem?_lt hk]
        rw [h1, hk]
        have : ¬ (some new = some (Kind.st c false)) := by intro h; cases h; exact hnew _ _ rfl
        simp [this]
      · rw [List.getElem?_set]; simp [Ne.symm e]
    | _ => rfl
  | _ => rfl

theorem stepF_L {s s' : State} {i : Nat} (hK : InvK s) (hC : InvC s) (h : InvL s)
    (hs : stepF s i = some s') : InvL s' := by
  obtain ⟨hone, hcps, hcph⟩ := h
  refine ⟨?_, ?_, ?_⟩
  · f_cases hs s i f hf hpc
    all_goals (have hsok := hK.fref i f hf; simp only [hpc, fOk] at hsok)
    all_goals intro c hc
    all_goals first
      -- nothing that concerns the CallLaterTask
      | (have h1 := hone c hc
         simp only [tok] at h1 ⊢
         rw [(spawnTok_set hf _ c).1]
         have hge := (spawnTok_set hf f c).2
         simp only [hpc] at hge ⊢
         try rw [sigAdj_append hK.sref]
         try rw [stTok_append]
         try rw [sigAdj_set_sync (by assumption) _ c (fun a b hp => Kind.noConfusion hp)]
         try rw [stTok_set_same c (by assumption) (fun e => Kind.noConfusion e) (fun e => Kind.noConfusion e)]
         simp [b2n] at hge ⊢
         omega)
      -- an id that is not the CallLaterTask: a new ScheduleTask is appended to `ready` / created for another task
      | (have h1 := hone c hc
         have e := ne_clt hK hc hsok (by decide)
         simp only [tok] at h1 ⊢
         rw [(spawnTok_set hf _ c).1]
         have hge := (spawnTok_set hf f c).2
         simp only [hpc] at hge ⊢
         try rw [sigAdj_append hK.sref]
         try rw [stTok_append]
         try rw [count_append_self]
         simp [b2n, e] at hge ⊢
         omega)
      | skip
    · -- `self._callLaterTask = CallLaterTask()` on a foreign thread
      have e : s.tasks.length = c := Option.some.inj hc
      subst e
      obtain ⟨f1, f2, f3, f4, f5⟩ := tok_fresh hK
      have f0 := count_fresh hK
      have f6 : sTokC s.s s.tasks.length = 0 := by
        by_cases hz : sTokC s.s s.tasks.length = 0
        · exact hz
        · have := tagAt_lt (sTokC_typed hK.sref hz); omega
      simp only [tok, f0, f1, f2, f3, f6]
      rw [(spawnTok_set hf _ _).1, stTok_append, sigAdj_append hK.sref]
      have hs1 := sigAdj_le_stTok s.s s.tasks s.tasks.length
      simp [b2n, hpc, f4, f5] at hs1 ⊢
      omega
  · f_cases hs s i f hf hpc
    all_goals first
      | exact hcps
      | (intro hq; obtain ⟨c, hc, _⟩ := hcps hq; rw [hC.crF i f hf hpc] at hc; cases hc)
  · f_cases hs s i f hf hpc
    all_goals first
      | exact hcph
      | (intro hq; obtain ⟨c, hc, _⟩ := hcph hq; rw [hC.crF i f hf hpc] at hc; cases hc)

theorem stepT_L {s s' : State} {t : Tid} (h : InvL s) (hs : stepT s t = some s') : InvL s' := by
  obtain ⟨hone, hcps, hcph⟩ := h
  t_cases hs s t hpc
  all_goals first
    | exact ⟨hone, hcps, hcph⟩
    | (refine ⟨?_, ?_, hcph⟩
       · intro c hc
         have h1 := hone c hc
         simp only [tok, sTokC, sigAdj, hpc] at h1 ⊢
         exact h1
       · intro hq; cases hq)

theorem init_L (threaded : Bool) (users : List (List UItem)) (progs : List (List Op)) :
    InvL (Handoff.init threaded users progs) := by
  refine ⟨?_, ?_, ?_⟩
  · intro c hc; simp [Handoff.init] at hc
  · intro hq; simp [Handoff.init, cpS] at hq
  · intro hq; simp only [Handoff.init] at hq; split at hq <;> simp [cpH, cpPc] at hq

/-- all the invariants of this file, for every reachable state -/
structure InvAll (s : State) : Prop where
  k : InvK s
  st : InvS s
  c : InvC s
  w : InvW s
  l : InvL s

theorem reach_all {threaded users progs} {s : State} (hok : namesOk users progs) (hr : Reachable threaded users progs s) :
    InvAll s :=
  hr.induct (P := InvAll)
    ⟨init_K _ _ _ hok, init_S _ _ _, init_C _ _ _, init_W _ _ _, init_L _ _ _⟩
    (fun _ _ _ h hs => ⟨stepS_K h.k hs, stepS_S h.k h.st hs, stepS_C h.c hs, stepS_W h.w hs, stepS_L h.k h.c h.st h.w h.l hs⟩)
    (fun _ _ _ h hs => ⟨stepH_K h.k hs, stepH_S h.k h.st hs, stepH_C h.c hs, stepH_W h.w hs, stepH_L h.k h.c h.w h.l hs⟩)
    (fun _ _ _ _ h hs => ⟨stepF_K h.k hs, stepF_S h.k h.st hs, stepF_C h.c hs, stepF_W h.w hs, stepF_L h.k h.c h.l hs⟩)
    (fun _ _ _ _ h hs => ⟨stepT_K h.k hs, stepT_S h.st hs, stepT_C h.c hs, stepT_W h.w hs, stepT_L h.l hs⟩)

/-! ## no assertion fails, no thread dies -/

/-- `assert task not in tasks` in `_select` holds -/
theorem get_ok {s : State} (ha : InvAll s) {y : TaskId} {rest : List TaskId} (hq : s.incoming = y :: rest) :
    y ∉ s.hubTasks := by
  intro hm
  have hty := ha.k.inc y (head_mem hq)
  have hc := ha.c.cltU y hty
  have h1 := ha.l.one y hc
  have := count_pos_of_mem (head_mem hq)
  have := count_pos_of_mem hm
  have := sigAdj_le_stTok s.s s.tasks y
  simp only [tok] at h1; omega

/-- `assert task not in self._ready` holds when the hub runner puts the CallLaterTask back -/
theorem ret_assert_ok {s : State} (ha : InvAll s) {t : TaskId}
    (hp : s.s = .hub (.ret t .assert) ∨ s.h = .hub (.ret t .assert)) : t ∉ s.ready := by
  intro hm
  have hty : tagAt s.tasks t = some 1 := by
    rcases hp with hp | hp
    · have := ha.k.sref; simpa only [hp, sOk, hubOk] using this
    · have := ha.k.href; simpa only [hp, hOk, hubOk] using this
  have hc := ha.c.cltU t hty
  have h1 := ha.l.one t hc
  have := count_pos_of_mem hm
  have := sigAdj_le_stTok s.s s.tasks t
  have : 1 ≤ sTokC s.s t + hTokC s.h t := by
    rcases hp with hp | hp
    · simp only [hp, sTokC, ↓reduceIte]; omega
    · simp only [hp, hTokC, ↓reduceIte]; omega
  simp only [tok] at h1; omega

def NoCrash (s : State) : Prop :=
  s.s ≠ .crashed ∧ s.h ≠ .crashed ∧ ∀ (i : Nat) (f : FThread), s.fs[i]? = some f → f.pc ≠ .crashed

theorem stepS_NC {s s' : State} (ha : InvAll s) (h : NoCrash s) (hs : stepS s = some s') : NoCrash s' := by
  obtain ⟨h1, h2, h3⟩ := h
  s_cases hs s hpc
  all_goals first
    | exact ⟨fun e => SPc.noConfusion e, h2, h3⟩
    | (exfalso; exact get_ok ha (by assumption) (by assumption))
    | (exfalso; exact ret_assert_ok ha (Or.inl hpc) (by assumption))
    | (exfalso; exact h1 hpc)

theorem stepH_NC {s s' : State} (ha : InvAll s) (h : NoCrash s) (hs : stepH s = some s') : NoCrash s' := by
  obtain ⟨h1, h2, h3⟩ := h
  h_cases hs s hpc
  all_goals first
    | exact ⟨h1, fun e => HPc.noConfusion e, h3⟩
    | (exfalso; exact get_ok ha (by assumption) (by assumption))
    | (exfalso; exact ret_assert_ok ha (Or.inr hpc) (by assumption))

theorem stepT_NC {s s' : State} {t : Tid} (h : NoCrash s) (hs : stepT s t = some s') : NoCrash s' := by
  obtain ⟨h1, h2, h3⟩ := h
  t_cases hs s t hpc
  all_goals first
    | exact ⟨h1, h2, h3⟩
    | exact ⟨fun e => SPc.noConfusion e, h2, h3⟩

theorem stepF_NC {s s' : State} {i : Nat} (ha : InvAll s) (hsy : InvSy s) (h : NoCrash s) (hs : stepF s i = some s') :
    NoCrash s' := by
  obtain ⟨h1, h2, h3⟩ := h
  f_cases hs s i f hf hpc
  all_goals (have hsok := ha.k.fref i f hf; simp only [hpc, fOk] at hsok)
  all_goals first
    | (refine ⟨h1, h2, ?_⟩
       intro j g hg
       rcases set_cases hf hg with ⟨rfl, rfl⟩ | ⟨_, hg⟩
       · exact fun e => FPc.noConfusion e
       · exact h3 j g hg)
    | (exfalso; exact ha.st.pending_not_ready ha.k hf (by rw [hpc]; simp [pendB]) hsok (by assumption))
    | (exfalso
       -- `outlock.release()` of an unlocked lock: the thread is inside its section, where `outlock` is held
       obtain ⟨hv, _⟩ := hsy.sec i f hf (by rw [hpc]; rfl)
       simp only [viewT] at hv
       rw [(by assumption : s.tasks[f.syncer]? = some _)] at hv; simp [syncView] at hv)

theorem reach_nocrash {threaded users progs} {s : State} (hok : namesOk users progs)
    (hr : Reachable threaded users progs s) : NoCrash s :=
  hr.induct (P := NoCrash)
    (by
      refine ⟨fun e => SPc.noConfusion e, ?_, ?_⟩
      · simp only [Handoff.init]; split <;> exact fun e => HPc.noConfusion e
      · intro i f hf; obtain ⟨q, rfl⟩ := init_fs hf; exact fun e => FPc.noConfusion e)
    (fun _ _ hr h hs => stepS_NC (reach_all hok hr) h hs)
    (fun _ _ hr h hs => stepH_NC (reach_all hok hr) h hs)
    (fun _ _ _ hr h hs => stepF_NC (reach_all hok hr) (reach_Sy hr) h hs)
    (fun _ _ _ _ h hs => stepT_NC h hs)

/-! ## the CallLaterTask is always somewhere -/

theorem clt_somewhere {s : State} (ha : InvAll s) {c : TaskId} (hc : s.cltTask = some c) :
    c ∈ s.ready ∨ c ∈ s.incoming ∨ c ∈ s.hubTasks ∨ sTokC s.s c = 1 ∨ hTokC s.h c = 1 ∨
    (∃ st : Nat, s.tasks[st]? = some (Kind.st c false)) ∨
    (∃ (i : Nat) (f : FThread), s.fs[i]? = some f ∧ f.pc = .spawn .cl c) := by
  have h1 := ha.l.one c hc
  simp only [tok] at h1
  by_cases a1 : c ∈ s.ready
  · exact Or.inl a1
  by_cases a2 : c ∈ s.incoming
  · exact Or.inr (Or.inl a2)
  by_cases a3 : c ∈ s.hubTasks
  · exact Or.inr (Or.inr (Or.inl a3))
  have z1 := List.count_eq_zero.mpr a1
  have z2 := List.count_eq_zero.mpr a2
  have z3 := List.count_eq_zero.mpr a3
  have b1 : sTokC s.s c ≤ 1 := by unfold sTokC; split <;> first | omega | (split <;> omega)
  have b2 : hTokC s.h c ≤ 1 := by unfold hTokC; split <;> first | omega | (split <;> omega)
  by_cases a4 : sTokC s.s c = 1
  · exact Or.inr (Or.inr (Or.inr (Or.inl a4)))
  by_cases a5 : hTokC s.h c = 1
  · exact Or.inr (Or.inr (Or.inr (Or.inr (Or.inl a5))))
  by_cases a6 : stTok s.tasks c = 0
  · right; right; right; right; right; right
    have : 0 < spawnTok s.fs c := by omega
    obtain ⟨g, hg, hp⟩ := List.countP_pos_iff.mp this
    obtain ⟨j, hj⟩ := List.mem_iff_getElem?.mp hg
    exact ⟨j, g, hj, by simpa using hp⟩
  · right; right; right; right; right; left
    have : 0 < stTok s.tasks c := by omega
    obtain ⟨k, hk, hp⟩ := List.countP_pos_iff.mp this
    obtain ⟨j, hj⟩ := List.mem_iff_getElem?.mp hk
    have e : k = Kind.st c false := by simpa using hp
    subst e; exact ⟨j, hj⟩

/-! ## a wake-up is never lost (over histories) -/

/-- any number of atomic actions and time-outs, by any threads -/
inductive Steps : State → State → Prop
  | refl (s : State) : Steps s s
  | step {s s' s'' : State} (tid : Tid) : Steps s s' → step s' tid = some s'' → Steps s s''
  | timeout {s s' s'' : State} (tid : Tid) : Steps s s' → stepT s' tid = some s'' → Steps s s''

theorem Steps.reachable {threaded users progs} {s s' : State} (hr : Reachable threaded users progs s) (h : Steps s s') :
    Reachable threaded users progs s' := by
  induction h with
  | refl => exact hr
  | step tid _ hs ih => exact .step tid ih hs
  | timeout tid _ hs ih => exact .timeout tid ih hs

/-- the task is queued, or its slice is starting, or it has run since (`n0` = number of its slices at the wake-up) -/
def Woken (v : TaskId) (n0 : Nat) (s : State) : Prop :=
  n0 ≤ s.slices.count v ∧ (v ∈ s.ready ∨ s.s = .userBody v ∨ n0 < s.slices.count v)

theorem woken_stepS {s s' : State} {v : TaskId} {n0 : Nat} (hK : InvK s) (hv : v < s.nUsers) (h : Woken v n0 s)
    (hs : stepS s = some s') : Woken v n0 s' := by
  have hty := hK.low v hv
  obtain ⟨hn, h⟩ := h
  s_cases hs s hpc
  all_goals first
    -- the slice of a user task starts: it is logged
    | (refine ⟨by simp only [List.count_append]; omega, ?_⟩
       rcases h with h | h | h
       · exact Or.inl h
       · rw [hpc] at h; cases h; right; right; simp only [List.count_append, List.count_singleton_self]; omega
       · right; right; simp only [List.count_append]; omega)
    -- a task is popped and dispatched
    | (refine ⟨hn, ?_⟩
       rcases h with h | h | h
       · rw [(by assumption : s.ready = _ :: _)] at h
         rcases List.mem_cons.mp h with h | h
         · subst h
           first
             | exact Or.inr (Or.inl rfl)
             | (have := tagAt_of (by assumption : s.tasks[v]? = some _); rw [hty] at this; cases this)
         · exact Or.inl h
       · rw [hpc] at h; cases h
       · exact Or.inr (Or.inr h))
    -- `ready` unchanged or grown, no slice logged
    | (refine ⟨hn, ?_⟩
       rcases h with h | h | h
       · first | exact Or.inl h | exact Or.inl (List.mem_append_left _ h) | exact Or.inl (List.mem_cons_of_mem _ h)
       · rw [hpc] at h; cases h
       · exact Or.inr (Or.inr h))

theorem woken_other {s s' : State} {v : TaskId} {n0 : Nat} (h : Woken v n0 s) (hS : s'.s = s.s) (hsl : s'.slices = s.slices)
    (hr : ∀ x ∈ s.ready, x ∈ s'.ready) : Woken v n0 s' := by
  obtain ⟨hn, h⟩ := h
  refine ⟨by rw [hsl]; exact hn, ?_⟩
  rcases h with h | h | h
  · exact Or.inl (hr v h)
  · exact Or.inr (Or.inl (by rw [hS]; exact h))
  · exact Or.inr (Or.inr (by rw [hsl]; exact h))

theorem woken_stepH {s s' : State} {v : TaskId} {n0 : Nat} (h : Woken v n0 s) (hs : stepH s = some s') : Woken v n0 s' := by
  h_cases hs s hpc
  all_goals first
    | exact woken_other h rfl rfl (fun x hx => hx)
    | exact woken_other h rfl rfl (fun x hx => List.mem_append_left _ hx)

theorem woken_stepF {s s' : State} {v : TaskId} {n0 : Nat} {i : Nat} (h : Woken v n0 s) (hs : stepF s i = some s') :
    Woken v n0 s' := by
  f_cases hs s i f hf hpc
  all_goals first
    | exact woken_other h rfl rfl (fun x hx => hx)
    | exact woken_other h rfl rfl (fun x hx => List.mem_append_left _ hx)

theorem woken_stepT {s s' : State} {v : TaskId} {n0 : Nat} {t : Tid} (h : Woken v n0 s) (hs : stepT s t = some s') :
    Woken v n0 s' := by
  obtain ⟨hn, h⟩ := h
  t_cases hs s t hpc
  all_goals first
    | exact ⟨hn, h⟩
    | (refine ⟨hn, ?_⟩
       rcases h with h | h | h
       · exact Or.inl h
       · rw [hpc] at h; cases h
       · exact Or.inr (Or.inr h))

/-- **a wake-up is never lost**: once a user task is in `ready` it stays there until the scheduler thread starts its
    slice, and that slice is then logged — in every continuation of every interleaving -/
theorem woken_forever {threaded users progs} {s s' : State} (hok : namesOk users progs)
    (hr : Reachable threaded users progs s) {v : TaskId} (hv : v < s.nUsers) (hin : v ∈ s.ready) (hst : Steps s s') :
    Woken v (s.slices.count v) s' ∧ s'.nUsers = s.nUsers := by
  induction hst with
  | refl => exact ⟨⟨Nat.le_refl _, Or.inl hin⟩, rfl⟩
  | @step s1 s2 tid hpre hs ih =>
    obtain ⟨hw, hnu⟩ := ih
    have hr' := hpre.reachable hr
    have hnu' : s2.nUsers = s.nUsers := by
      rw [← hnu]
      have e1 := reach_nUsers (hr'.step tid hs); have e2 := reach_nUsers hr'; rw [e1, e2]
    refine ⟨?_, hnu'⟩
    match tid, hs with
    | 0, hs => exact woken_stepS (reach_all hok hr').k (by rw [hnu]; exact hv) hw hs
    | 1, hs => exact woken_stepH hw hs
    | i + 2, hs => exact woken_stepF hw hs
  | @timeout s1 s2 tid hpre hs ih =>
    obtain ⟨hw, hnu⟩ := ih
    have hr' := hpre.reachable hr
    have hnu' : s2.nUsers = s.nUsers := by
      rw [← hnu]
      have e1 := reach_nUsers (hr'.timeout tid hs); have e2 := reach_nUsers hr'; rw [e1, e2]
    exact ⟨woken_stepT hw hs, hnu'⟩

/-! ## the direct branch of `schedule()` (a cooperative task wakes another one) -/

/-- after `fast_schedule(v)`'s append, `v` is in `ready` -/
def DirSig (s : State) : Prop := ∀ t v, s.s = .usFs t v .signal → v ∈ s.ready

theorem reach_DirSig {threaded users progs} {s : State} (hr : Reachable threaded users progs s) : DirSig s := by
  refine hr.induct (P := DirSig) (fun t v hp => by cases hp) ?_ ?_ ?_ ?_
  · intro s s' _ h hs
    s_cases hs s hpc
    all_goals intro t v hp
    all_goals first
      | (cases hp; done)
      | (cases hp; exact List.mem_append_right _ List.mem_cons_self)
  · intro s s' _ h hs
    h_cases hs s hpc
    all_goals intro t v hp
    all_goals first
      | exact h t v hp
      | exact List.mem_append_left _ (h t v hp)
  · intro s s' i _ h hs
    f_cases hs s i f hf hpc
    all_goals intro t v hp
    all_goals first
      | exact h t v hp
      | exact List.mem_append_left _ (h t v hp)
  · intro s s' t _ h hs
    t_cases hs s t hpc
    all_goals intro t v hp
    all_goals first
      | exact h t v hp
      | (cases hp; done)

/-- when `schedule(v)` called by a cooperative task returns, `v` is in the ready queue -/
theorem direct_done_in_ready {s s' : State} (h : DirSig s) (hs : stepS s = some s') (t v : TaskId)
    (hpc0 : s.s = .usContains t v ∨ s.s = .usFs t v .signal)
    (hdone : ∀ p, s'.s ≠ .usFs t v p) : v ∈ s'.ready := by
  s_cases hs s hpc
  all_goals first
    | (rcases hpc0 with hp | hp <;> (rw [hpc] at hp; cases hp; done))
    | (exact absurd rfl (hdone _))
    | (rcases hpc0 with hp | hp
       · rw [hpc] at hp; cases hp; exact absurd rfl (hdone _)
       · rw [hpc] at hp; cases hp)
    | (rcases hpc0 with hp | hp
       · rw [hpc] at hp; cases hp; assumption
       · rw [hpc] at hp; cases hp)
    | (rcases hpc0 with hp | hp
       · rw [hpc] at hp; cases hp
       · rw [hpc] at hp; cases hp; exact h _ _ hpc)

end Pox.Handoff
