import PoxModel.Proofs.HandoffAlive
/-! # C07: the CallLaterTask is in exactly one place; no thread dies of an assertion -/
namespace Pox.Handoff

/-- the scheduler thread holds the CallLaterTask `c`: it is executing it (before it re-registers with the hub), or is
    the hub runner about to put it back into `ready`, or is starting it (`callLater` from cooperative code) -/
def sTokC (pc : SPc) (c : TaskId) : Nat :=
  match pc with
  | .rsPut x | .cltPong x | .cltPop x | .cltCall x _ => if x = c then 1 else 0
  | .hub (.ret x .assert) | .hub (.ret x .append) => if x = c then 1 else 0
  | .ucContains _ x | .ucFs _ x .assert | .ucFs _ x .append => if x = c then 1 else 0
  | _ => 0

def hTokC (pc : HPc) (c : TaskId) : Nat :=
  match pc with
  | .hub (.ret x .assert) | .hub (.ret x .append) => if x = c then 1 else 0
  | _ => 0

/-- ScheduleTasks for `c` that have not run -/
def stTok (tasks : List Kind) (c : TaskId) : Nat := tasks.countP fun k => k == .st c false

/-- foreign threads about to create the ScheduleTask that starts `c` -/
def spawnTok (fs : List FThread) (c : TaskId) : Nat := fs.countP fun f => f.pc == .spawn .cl c

/-- the ScheduleTask for `c` has put `c` into `ready` but is not yet marked as run -/
def sigAdj (pc : SPc) (tasks : List Kind) (c : TaskId) : Nat :=
  match pc with
  | .stFs st .signal => if tasks[st]? = some (.st c false) then 1 else 0
  | _ => 0

def tok (s : State) (c : TaskId) : Nat :=
  s.ready.count c + s.incoming.count c + s.hubTasks.count c + sTokC s.s c + hTokC s.h c + stTok s.tasks c + spawnTok s.fs c

def cpPc : HubPc → Bool
  | .pong true | .empty true | .get true => true
  | _ => false

def cpS : SPc → Bool
  | .hub q => cpPc q
  | _ => false

def cpH : HPc → Bool
  | .hub q => cpPc q
  | _ => false

structure InvL (s : State) : Prop where
  one : ∀ c, s.cltTask = some c → tok s c = 1 + sigAdj s.s s.tasks c
  cps : cpS s.s = true → ∃ c, s.cltTask = some c ∧ c ∈ s.hubTasks
  cph : cpH s.h = true → ∃ c, s.cltTask = some c ∧ c ∈ s.hubTasks

theorem stTok_set {l : List Kind} {t : Nat} {old : Kind} (ht : l[t]? = some old) (new : Kind) (c : TaskId) :
    stTok (l.set t new) c = stTok l c + b2n (new == .st c false) - b2n (old == .st c false) ∧
    b2n (old == .st c false) ≤ stTok l c :=
  countP_set_eq (fun k : Kind => k == .st c false) ht new

theorem stTok_append (l : List Kind) (x : Kind) (c : TaskId) : stTok (l ++ [x]) c = stTok l c + b2n (x == .st c false) :=
  countP_append_one _ l x

theorem spawnTok_set {fs : List FThread} {i : Nat} {f : FThread} (hf : fs[i]? = some f) (f' : FThread) (c : TaskId) :
    spawnTok (fs.set i f') c = spawnTok fs c + b2n (f'.pc == .spawn .cl c) - b2n (f.pc == .spawn .cl c) ∧
    b2n (f.pc == .spawn .cl c) ≤ spawnTok fs c :=
  countP_set_eq (fun g : FThread => g.pc == .spawn .cl c) hf f'

/-- an id of CallLaterTask kind is the CallLaterTask -/
theorem eq_clt {s : State} (hC : InvC s) {c a : TaskId} (hc : s.cltTask = some c) (ha : tagAt s.tasks a = some 1) : a = c := by
  have := hC.cltU a ha; rw [hc] at this; exact (Option.some.inj this).symm

theorem ne_clt {s : State} (hK : InvK s) {c a : TaskId} {n : Nat} (hc : s.cltTask = some c) (ha : tagAt s.tasks a = some n)
    (hn : n ≠ 1) : a ≠ c := by
  intro e; subst e; rw [hK.cltT a hc] at ha; cases ha; exact hn rfl

theorem stTok_set_same {l : List Kind} {t : Nat} {old new : Kind} (c : TaskId) (ht : l[t]? = some old)
    (ho : old ≠ .st c false) (hn : new ≠ .st c false) : stTok (l.set t new) c = stTok l c := by
  obtain ⟨h1, _⟩ := stTok_set ht new c
  have e1 : (new == Kind.st c false) = false := by simpa using hn
  have e2 : (old == Kind.st c false) = false := by simpa using ho
  rw [h1, e1, e2]; simp [b2n]

theorem cltReadable_mem {s : State} {c : TaskId} (h : cltReadable s = some c) : c ∈ s.hubTasks := by
  simp only [cltReadable] at h
  split at h
  · split at h
    · cases h; rename_i hh; exact hh.1
    · cases h
  · cases h

theorem count_erase_mem {l : List Nat} {c : Nat} (h : c ∈ l) : (l.erase c).count c + 1 = l.count c := by
  have := List.count_erase_self (a := c) (l := l)
  have hp := count_pos_of_mem h
  omega

/-- the scheduler thread is running a ScheduleTask that has not been marked as run -/
theorem running_st_fresh {s : State} (hS : InvS s) {st : Nat} {tg : TaskId} {r : Bool} (hrun : sRunsST s.s st = 1)
    (hl : s.tasks[st]? = some (.st tg r)) : r = false := by
  cases r with
  | false => rfl
  | true => have := hS.dead st tg hl; simp only [occ] at this; omega

end Pox.Handoff
