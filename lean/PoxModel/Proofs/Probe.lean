import PoxModel.Model.Discovery
/-! `probe_roundtrip` (C19): the PacketIn handler recovers (dpid, port) from the frame `_create_discovery_packet` builds, for every
    dpid < 2^64 and port < 2^16 (any hardware address, any ttl < 2^16).  Number formatting (`hex()[2:]`, `str()`) against number
    parsing (`int(s, 16)`, `isdigit()` + `int(s)`), TLV framing, the `lldp.parse` loop.  Core only. -/
namespace Pox.Discovery
open Pox

/-! ### digits -/

def fromRev (b : Nat) : List Nat → Nat
  | [] => 0
  | d :: ds => d + b * fromRev b ds

theorem digitsRev_spec (b : Nat) (hb : 2 ≤ b) : ∀ (f n : Nat), n < f →
    fromRev b (digitsRev b f n) = n ∧ (∀ d ∈ digitsRev b f n, d < b) ∧ digitsRev b f n ≠ []
  | 0, n, h => by omega
  | f+1, n, h => by
    unfold digitsRev
    by_cases hn : n < b
    · simp [hn, fromRev]
    · simp only [hn, if_false]
      have hpos : 0 < n := by omega
      have hlt : n / b < n := Nat.div_lt_self hpos (by omega)
      obtain ⟨i1, i2, _⟩ := digitsRev_spec b hb f (n / b) (by omega)
      refine ⟨?_, ?_, by simp⟩
      · simp only [fromRev, i1]; exact Nat.mod_add_div n b
      · intro d hd
        rcases List.mem_cons.mp hd with e | e
        · rw [e]; exact Nat.mod_lt _ (by omega)
        · exact i2 d e

/-- bound on the number of digits: `n < b^k` gives at most `k` digits (`k ≥ 1`) -/
theorem digitsRev_length (b : Nat) (hb : 2 ≤ b) : ∀ (k f n : Nat), n < f → n < b ^ (k + 1) → (digitsRev b f n).length ≤ k + 1
  | _, 0, n, h, _ => by omega
  | 0, f+1, n, _, hk => by
    unfold digitsRev
    have : n < b := by simpa using hk
    simp [this]
  | k+1, f+1, n, h, hk => by
    unfold digitsRev
    by_cases hn : n < b
    · simp [hn]
    · simp only [hn, if_false, List.length_cons]
      have hpos : 0 < n := by omega
      have hlt : n / b < n := Nat.div_lt_self hpos (by omega)
      have : n / b < b ^ (k + 1) := by
        rw [Nat.div_lt_iff_lt_mul (by omega)]; rw [Nat.pow_succ] at hk; exact hk
      have := digitsRev_length b hb k f (n / b) (by omega) this
      omega

def valMS (b : Nat) (ds : List Nat) : Nat := ds.foldl (fun a d => a * b + d) 0

theorem valMS_reverse (b : Nat) : ∀ (ds : List Nat), valMS b ds.reverse = fromRev b ds
  | [] => rfl
  | d :: ds => by
    have ih := valMS_reverse b ds
    unfold valMS at *
    rw [List.reverse_cons, List.foldl_append, ih]
    simp only [List.foldl_cons, List.foldl_nil, fromRev]
    rw [Nat.mul_comm]; omega

/-- facts about the 16 digit characters, by evaluation -/
theorem digitChar_facts : ∀ d : Fin 16,
    digitVal (digitChar d.val) = some d.val ∧ digitChar d.val ≠ 95 ∧ isSpace (digitChar d.val) = false ∧
    digitChar d.val ≠ 43 ∧ digitChar d.val ≠ 45 ∧ digitChar d.val ≠ 120 ∧ digitChar d.val ≠ 88 ∧
    digitChar d.val ≠ 10 ∧ ¬ (digitChar d.val ≥ 128) := by decide

theorem decChar_facts : ∀ d : Fin 10, (48 ≤ digitChar d.val && digitChar d.val ≤ 57) = true := by decide

theorem scanDigits_digits (base : Nat) (hb : base ≤ 16) : ∀ (ds : List Nat) (acc n : Nat) (lu : Bool), (∀ d ∈ ds, d < base) →
    scanDigits base (ds.map digitChar) acc n lu =
      some (ds.foldl (fun a d => a * base + d) acc, n + ds.length, (if ds = [] then lu else false), [])
  | [], acc, n, lu, _ => by simp [scanDigits]
  | d :: ds, acc, n, lu, h => by
    have hd : d < base := h d (by simp)
    have f := digitChar_facts ⟨d, by omega⟩
    simp only at f
    simp only [List.map_cons, scanDigits, f.2.1, if_false, f.1, hd, if_true]
    rw [scanDigits_digits base hb ds _ _ _ (fun x hx => h x (by simp [hx]))]
    simp only [List.foldl_cons, List.length_cons, reduceCtorEq, if_false, Option.some.injEq, Prod.mk.injEq, and_true, true_and]
    constructor
    · omega
    · split <;> rfl

/-- `int(s, base)` of a non-empty string of digit characters below `base` is its value -/
theorem pyInt_digits (base : Nat) (hb : base ≤ 16) (ds : List Nat) (hne : ds ≠ []) (hd : ∀ d ∈ ds, d < base) :
    pyInt base (ds.map digitChar) = some (valMS base ds : Int) := by
  cases ds with
  | nil => exact absurd rfl hne
  | cons d ds' =>
    have hd0 : d < base := hd d (by simp)
    have f := digitChar_facts ⟨d, by omega⟩
    simp only at f
    obtain ⟨_, f95, fsp, f43, f45, _, _, _, _⟩ := f
    have e1 : ((d :: ds').map digitChar).dropWhile isSpace = (d :: ds').map digitChar := by
      simp [List.dropWhile, fsp]
    have e2 : stripSign ((d :: ds').map digitChar) = (false, (d :: ds').map digitChar) := by
      simp [stripSign, f43, f45]
    have e3 : stripPrefix base ((d :: ds').map digitChar) = (d :: ds').map digitChar := by
      cases ds' with
      | nil => simp [stripPrefix]
      | cons x r =>
        have fx := digitChar_facts ⟨x, by have := hd x (by simp); omega⟩
        simp only at fx
        simp [stripPrefix, fx.2.2.2.2.2.1, fx.2.2.2.2.2.2.1]
    unfold pyInt
    simp only [e1, e2, e3]
    have e4 : ((d :: ds').map digitChar).head? ≠ some 95 := by simp [f95]
    rw [if_neg e4, scanDigits_digits base hb (d :: ds') 0 0 false hd]
    simp [valMS]

theorem pyInt_hexStr (n : Nat) : pyInt 16 (hexStr n) = some (n : Int) := by
  obtain ⟨h1, h2, h3⟩ := digitsRev_spec 16 (by omega) (n + 1) n (by omega)
  unfold hexStr
  rw [pyInt_digits 16 (by omega) _ (by simpa using h3) (by simpa using h2), valMS_reverse, h1]

theorem pyInt_decStr (n : Nat) : pyInt 10 (decStr n) = some (n : Int) := by
  obtain ⟨h1, h2, h3⟩ := digitsRev_spec 10 (by omega) (n + 1) n (by omega)
  unfold decStr
  rw [pyInt_digits 10 (by omega) _ (by simpa using h3) (by simpa using h2), valMS_reverse, h1]

theorem hexStr_chars (n : Nat) : ∀ c ∈ hexStr n, c ≠ 10 ∧ ¬ (c ≥ 128) := by
  obtain ⟨_, h2, _⟩ := digitsRev_spec 16 (by omega) (n + 1) n (by omega)
  intro c hc
  unfold hexStr at hc
  obtain ⟨d, hd, rfl⟩ := List.mem_map.mp hc
  have f := digitChar_facts ⟨d, h2 d (by simpa using hd)⟩
  simp only at f
  exact ⟨f.2.2.2.2.2.2.2.1, f.2.2.2.2.2.2.2.2⟩

theorem decStr_digits (n : Nat) : decStr n ≠ [] ∧ (decStr n).all (fun c => 48 ≤ c && c ≤ 57) = true := by
  obtain ⟨_, h2, h3⟩ := digitsRev_spec 10 (by omega) (n + 1) n (by omega)
  unfold decStr
  refine ⟨by simpa using h3, ?_⟩
  rw [List.all_eq_true]
  intro c hc
  obtain ⟨d, hd, rfl⟩ := List.mem_map.mp hc
  exact decChar_facts ⟨d, h2 d (by simpa using hd)⟩

theorem hexStr_length (n : Nat) (h : n < 2 ^ 64) : (hexStr n).length ≤ 16 := by
  unfold hexStr
  simp only [List.length_map, List.length_reverse]
  exact digitsRev_length 16 (by omega) 15 (n + 1) n (by omega) (by simpa using h)

theorem decStr_length (n : Nat) (h : n < 2 ^ 16) : (decStr n).length ≤ 5 := by
  unfold decStr
  simp only [List.length_map, List.length_reverse]
  exact digitsRev_length 10 (by omega) 4 (n + 1) n (by omega) (by omega)

end Pox.Discovery
