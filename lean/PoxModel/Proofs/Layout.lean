import PoxModel.Base.Layout
/-! Generic theorems about `Base/Layout`: `decode_encode` (lossless round trip for every layout, every well-formed
    record, in front of any following bytes), `encode_length`, `lenfield_exact`.  Core only. -/
set_option linter.unusedSimpArgs false
namespace Pox.Layout
open Pox

@[simp] theorem zeros_length (n : Nat) : (zeros n).length = n := by simp [zeros]

theorem takeWhile_append_zeros (b : Bytes) (k : Nat) (h : b.all (· ≠ 0) = true) :
    (b ++ zeros k).takeWhile (· ≠ 0) = b := by
  induction b with
  | nil => cases k <;> simp [zeros, List.replicate, List.takeWhile]
  | cons x xs ih =>
    simp only [List.all_cons, Bool.and_eq_true] at h
    simp only [List.cons_append, List.takeWhile_cons, h.1, ↓reduceIte, ih h.2]

theorem unzs_pad (b : Bytes) (k : Nat) (h : b.all (· ≠ 0) = true) : unzs (b ++ zeros k) = some b := by
  unfold unzs
  simp only [takeWhile_append_zeros b k h, List.drop_left']
  simp [zeros]

/-- the declared length a layout decodes to when every `lenSelf` carries `tot` -/
def lenOf (tot : Nat) (L : List Field) : Option Nat := bif hasLen L then some tot else none

@[simp] theorem lenOf_nil (tot : Nat) : lenOf tot [] = none := rfl
@[simp] theorem lenOf_uint (tot : Nat) (nm w L) : lenOf tot (.uint nm w :: L) = lenOf tot L := rfl
@[simp] theorem lenOf_pad (tot : Nat) (n L) : lenOf tot (.pad n :: L) = lenOf tot L := rfl
@[simp] theorem lenOf_blob (tot : Nat) (nm n L) : lenOf tot (.blob nm n :: L) = lenOf tot L := rfl
@[simp] theorem lenOf_zstr (tot : Nat) (nm n L) : lenOf tot (.zstr nm n :: L) = lenOf tot L := rfl
@[simp] theorem lenOf_const (tot : Nat) (w v L) : lenOf tot (.const w v :: L) = lenOf tot L := rfl
@[simp] theorem lenOf_lenSelf (tot : Nat) (w L) : lenOf tot (.lenSelf w :: L) = some tot := rfl
theorem lenOf_of_hasLen (tot : Nat) (L) (h : hasLen L = true) : lenOf tot L = some tot := by simp [lenOf, h]

theorem encFixed_length (tot : Nat) (L : List Field) (vs : List Val) (bs : Bytes)
    (h : encFixed tot L vs = some bs) : bs.length = fixedSize L := by
  induction L generalizing vs bs with
  | nil => cases vs <;> simp_all [encFixed, fixedSize]
  | cons f L ih =>
    cases f with
    | uint nm w =>
      cases vs with
      | nil => simp [encFixed] at h
      | cons v vs =>
        cases v with
        | raw b => simp [encFixed] at h
        | num n =>
          simp only [encFixed] at h
          split at h
          · obtain ⟨x, hx, rfl⟩ := Option.map_eq_some_iff.mp h
            simp [fixedSize, beEnc_length, ih vs x hx]
          · simp at h
    | pad n =>
      simp only [encFixed] at h
      obtain ⟨x, hx, rfl⟩ := Option.map_eq_some_iff.mp h
      simp [fixedSize, ih vs x hx]
    | blob nm n =>
      cases vs with
      | nil => simp [encFixed] at h
      | cons v vs =>
        cases v with
        | num k => simp [encFixed] at h
        | raw b =>
          simp only [encFixed] at h
          split at h
          · rename_i hb
            obtain ⟨x, hx, rfl⟩ := Option.map_eq_some_iff.mp h
            simp [fixedSize, hb, ih vs x hx]
          · simp at h
    | zstr nm n =>
      cases vs with
      | nil => simp [encFixed] at h
      | cons v vs =>
        cases v with
        | num k => simp [encFixed] at h
        | raw b =>
          simp only [encFixed] at h
          split at h
          · rename_i hb
            have hb1 := hb.1
            obtain ⟨x, hx, rfl⟩ := Option.map_eq_some_iff.mp h
            simp only [List.length_append, zeros_length, fixedSize, ih vs x hx]
            omega
          · simp at h
    | lenSelf w =>
      simp only [encFixed] at h
      split at h
      · obtain ⟨x, hx, rfl⟩ := Option.map_eq_some_iff.mp h
        simp [fixedSize, beEnc_length, ih vs x hx]
      · simp at h
    | const w v =>
      simp only [encFixed] at h
      split at h
      · obtain ⟨x, hx, rfl⟩ := Option.map_eq_some_iff.mp h
        simp [fixedSize, beEnc_length, ih vs x hx]
      · simp at h

/-- fixed part round trip -/
theorem decFixed_encFixed (tot : Nat) (L : List Field) (vs : List Val)
    (hf : fitsFixed L vs = true) (hl : lenFits tot L = true) :
    ∃ bs, encFixed tot L vs = some bs ∧ ∀ tl, decFixed L (bs ++ tl) = some (vs, lenOf tot L, tl) := by
  induction L generalizing vs with
  | nil =>
    cases vs with
    | nil => exact ⟨[], rfl, fun tl => by simp [decFixed]⟩
    | cons v vs => simp [fitsFixed] at hf
  | cons f L ih =>
    cases f with
    | uint nm w =>
      cases vs with
      | nil => simp [fitsFixed] at hf
      | cons v vs =>
        cases v with
        | raw b => simp [fitsFixed] at hf
        | num n =>
          simp only [fitsFixed, Bool.and_eq_true, decide_eq_true_eq] at hf
          obtain ⟨bs, he, hd⟩ := ih vs hf.2 (by simpa [lenFits] using hl)
          refine ⟨beEnc w n ++ bs, by simp [encFixed, hf.1, he], fun tl => ?_⟩
          simp [decFixed, List.append_assoc, List.drop_append, List.take_append, beEnc_length, hd,
            beDec_beEnc w n hf.1]
    | pad n =>
      obtain ⟨bs, he, hd⟩ := ih vs (by simpa [fitsFixed] using hf) (by simpa [lenFits] using hl)
      refine ⟨zeros n ++ bs, by simp [encFixed, he], fun tl => ?_⟩
      simp [decFixed, List.append_assoc, List.drop_append, hd]
    | blob nm n =>
      cases vs with
      | nil => simp [fitsFixed] at hf
      | cons v vs =>
        cases v with
        | num k => simp [fitsFixed] at hf
        | raw b =>
          simp only [fitsFixed, Bool.and_eq_true, decide_eq_true_eq] at hf
          obtain ⟨bs, he, hd⟩ := ih vs hf.2 (by simpa [lenFits] using hl)
          refine ⟨b ++ bs, by simp [encFixed, hf.1, he], fun tl => ?_⟩
          have hb := hf.1
          subst hb
          simp [decFixed, List.append_assoc, List.drop_append, List.take_append, hd]
    | zstr nm n =>
      cases vs with
      | nil => simp [fitsFixed] at hf
      | cons v vs =>
        cases v with
        | num k => simp [fitsFixed] at hf
        | raw b =>
          simp only [fitsFixed, Bool.and_eq_true, decide_eq_true_eq] at hf
          obtain ⟨bs, he, hd⟩ := ih vs hf.2 (by simpa [lenFits] using hl)
          refine ⟨b ++ zeros (n - b.length) ++ bs, by
            have h0 := hf.1.2
            simp only [encFixed]
            rw [if_pos ⟨hf.1.1, h0⟩, he]; simp, fun tl => ?_⟩
          have hlen : (b ++ zeros (n - b.length)).length = n := by
            simp only [List.length_append, zeros_length]; omega
          have htake : ((b ++ zeros (n - b.length)) ++ (bs ++ tl)).take n = b ++ zeros (n - b.length) := by
            exact List.take_left' hlen
          have hdrop : ((b ++ zeros (n - b.length)) ++ (bs ++ tl)).drop n = bs ++ tl := by
            exact List.drop_left' hlen
          have hnot : ¬ ((b ++ zeros (n - b.length)) ++ (bs ++ tl)).length < n := by
            simp only [List.length_append, zeros_length]; omega
          simp only [decFixed, List.append_assoc] at *
          simp only [hnot, ↓reduceIte, htake, hdrop, unzs_pad b _ hf.1.2, hd]
          simp
    | lenSelf w =>
      simp only [lenFits, Bool.and_eq_true, decide_eq_true_eq] at hl
      obtain ⟨bs, he, hd⟩ := ih vs (by simpa [fitsFixed] using hf) hl.2
      refine ⟨beEnc w tot ++ bs, by simp [encFixed, hl.1, he], fun tl => ?_⟩
      simp only [decFixed, List.append_assoc, List.length_append, beEnc_length]
      have h1 : ¬ (w + (bs.length + tl.length) < w) := by omega
      simp only [h1, ↓reduceIte, List.drop_left' (beEnc_length w tot), List.take_left' (beEnc_length w tot), hd,
        beDec_beEnc w tot hl.1, Option.map_some]
      simp only [lenOf_lenSelf]
    | const w v =>
      simp only [fitsFixed, Bool.and_eq_true, decide_eq_true_eq] at hf
      obtain ⟨bs, he, hd⟩ := ih vs hf.2 (by simpa [lenFits] using hl)
      refine ⟨beEnc w v ++ bs, by simp [encFixed, hf.1, he], fun tl => ?_⟩
      simp only [decFixed, List.append_assoc, List.length_append, beEnc_length]
      have h1 : ¬ (w + (bs.length + tl.length) < w) := by omega
      simp [h1, List.drop_left' (beEnc_length w v), List.take_left' (beEnc_length w v), hd,
        beDec_beEnc w v hf.1]

/-- the element loop inverts concatenated encodings: `_unpack_actions` and friends -/
theorem decList_encList {E : Type} (enc : E → Option Bytes) (dec : Bytes → Option (E × Bytes)) (xs : List E)
    (h : ∀ e ∈ xs, ∃ bs, enc e = some bs ∧ bs ≠ [] ∧ ∀ tl, dec (bs ++ tl) = some (e, tl)) :
    ∃ bs, encList enc xs = some bs ∧ ∀ fuel, bs.length ≤ fuel → decList dec fuel bs = some xs := by
  induction xs with
  | nil => exact ⟨[], rfl, fun fuel _ => by cases fuel <;> rfl⟩
  | cons x xs ih =>
    obtain ⟨a, ha, hne, hda⟩ := h x (List.mem_cons_self ..)
    obtain ⟨b, hb, hdb⟩ := ih (fun e he => h e (List.mem_cons_of_mem _ he))
    refine ⟨a ++ b, by simp [encList, ha, hb], fun fuel hfuel => ?_⟩
    have hpos : 0 < a.length := List.length_pos_iff.mpr hne
    cases fuel with
    | zero => rw [List.length_append] at hfuel; omega
    | succ fuel =>
      cases hab : a ++ b with
      | nil => simp at hab; exact absurd hab.1 hne
      | cons y ys =>
        rw [← hab]
        have : decList dec (fuel + 1) (a ++ b) =
            match dec (a ++ b) with
            | none => none
            | some (x, r) => if r.length < (a ++ b).length then (decList dec fuel r).map (x :: ·) else none := by
          rw [hab]; rfl
        rw [this, hda b]
        simp only [List.length_append]
        have hlt : b.length < a.length + b.length := by omega
        simp only [hlt, ↓reduceIte]
        rw [hdb fuel (by rw [List.length_append] at hfuel; omega)]
        rfl

variable {E : Type}

/-- **Round trip.**  For every layout, every element codec that is good on `ok` elements, every well-formed record,
    and whatever bytes follow: `encode` succeeds, `decode` of the encoding followed by `tl` returns exactly the
    record and leaves exactly `tl` (so it consumed exactly the encoded bytes), and the encoding is
    `fixedSize + tail length` bytes long.  `havail`: a layout with a tail but without its own length field is decoded
    with the length handed down by the enclosing message. -/
theorem decode_encode (C : Codec E) (ok : String → E → Prop) (hC : C.Good ok) (L : Layout) (r : Rec E)
    (avail : Option Nat) (tl : Bytes) (hf : Fits C ok L r)
    (havail : hasLen L.fixed = true ∨ L.tail = .none ∨
      ∀ t, encTail C L.tail r.tail = some t → avail = some (fixedSize L.fixed + t.length)) :
    ∃ bs t, encode C L r = some bs ∧ encTail C L.tail r.tail = some t ∧
      decode C L avail (bs ++ tl) = some (r, tl) ∧ bs.length = fixedSize L.fixed + t.length := by
  obtain ⟨hfx, hft, hfl⟩ := hf
  obtain ⟨fixed, tail⟩ := L
  obtain ⟨vals, tv⟩ := r
  simp only at hfx hft hfl havail
  -- the tail encodes to some `t` and decodes back from exactly `t`
  have htail : ∃ t, encTail C tail tv = some t ∧ (tail ≠ .none → decTail C tail t = some tv) ∧
      (tail = .none → t = [] ∧ tv = .none) := by
    cases tail with
    | none =>
      cases tv with
      | none => exact ⟨[], rfl, fun h => absurd rfl h, fun _ => ⟨rfl, rfl⟩⟩
      | rest b => simp [FitsTail] at hft
      | items xs => simp [FitsTail] at hft
    | rest nm =>
      cases tv with
      | none => simp [FitsTail] at hft
      | rest b => exact ⟨b, rfl, fun _ => rfl, fun h => by cases h⟩
      | items xs => simp [FitsTail] at hft
    | list nm fam =>
      cases tv with
      | none => simp [FitsTail] at hft
      | rest b => simp [FitsTail] at hft
      | items xs =>
        simp only [FitsTail] at hft
        obtain ⟨t, ht, hd⟩ := decList_encList (C.enc fam) (C.dec fam) xs (fun e he => hC fam e (hft e he))
        exact ⟨t, ht, fun _ => by simp [decTail, hd t.length (Nat.le_refl _)], fun h => by cases h⟩
  obtain ⟨t, het, hdt, hnone⟩ := htail
  obtain ⟨fb, hef, hdf⟩ := decFixed_encFixed (fixedSize fixed + t.length) fixed vals hfx (hfl t het)
  have hlen := encFixed_length _ _ _ _ hef
  refine ⟨fb ++ t, t, by simp [encode, het, hef], het, ?_, by simp [hlen]⟩
  simp only [decode, List.append_assoc, hdf (t ++ tl)]
  cases tail with
  | none =>
    obtain ⟨rfl, rfl⟩ := hnone rfl
    simp
  | rest nm =>
    have hd := hdt (by simp)
    have hav : declared (lenOf (fixedSize fixed + t.length) fixed) avail
        = some (fixedSize fixed + t.length) := by
      unfold declared
      rcases havail with h | h | h
      · simp [lenOf_of_hasLen _ _ h]
      · cases h
      · unfold lenOf; cases hasLen fixed <;> simp [h t het]
    have h0 : ¬ (Tail.rest nm = Tail.none) := by simp
    simp only [h0, ↓reduceIte, hav]
    have h1 : ¬ (fixedSize fixed + t.length < fixedSize fixed) := by omega
    have h2 : fixedSize fixed + t.length - fixedSize fixed = t.length := by omega
    have h3 : ¬ ((t ++ tl).length < t.length) := by simp
    simp only [h1, ↓reduceIte, h2, h3, List.take_left' rfl, List.drop_left' rfl, hd, Option.map_some]
  | list nm fam =>
    have hd := hdt (by simp)
    have hav : declared (lenOf (fixedSize fixed + t.length) fixed) avail
        = some (fixedSize fixed + t.length) := by
      unfold declared
      rcases havail with h | h | h
      · simp [lenOf_of_hasLen _ _ h]
      · cases h
      · unfold lenOf; cases hasLen fixed <;> simp [h t het]
    have h0 : ¬ (Tail.list nm fam = Tail.none) := by simp
    simp only [h0, ↓reduceIte, hav]
    have h1 : ¬ (fixedSize fixed + t.length < fixedSize fixed) := by omega
    have h2 : fixedSize fixed + t.length - fixedSize fixed = t.length := by omega
    have h3 : ¬ ((t ++ tl).length < t.length) := by simp
    simp only [h1, ↓reduceIte, h2, h3, List.take_left' rfl, List.drop_left' rfl, hd, Option.map_some]

/-- whatever `encode` returns has the length `__len__` computes: fixed part plus encoded tail -/
theorem encode_length (C : Codec E) (L : Layout) (r : Rec E) (bs : Bytes) (h : encode C L r = some bs) :
    ∃ t, encTail C L.tail r.tail = some t ∧ bs.length = fixedSize L.fixed + t.length := by
  unfold encode at h
  split at h
  · simp at h
  · rename_i t ht
    obtain ⟨x, hx, rfl⟩ := Option.map_eq_some_iff.mp h
    exact ⟨t, ht, by simp [encFixed_length _ _ _ _ hx]⟩

/-- **Length-field exactness.**  If the layout has a length field, the value on the wire is the number of bytes
    `encode` produced (the `ofp_header.length == len(bytes)` half of the property). -/
theorem lenfield_exact (C : Codec E) (L : Layout) (r : Rec E) (bs tl : Bytes)
    (hfx : fitsFixed L.fixed r.vals = true) (hl : hasLen L.fixed = true) (h : encode C L r = some bs) :
    hdrLen L (bs ++ tl) = some bs.length := by
  obtain ⟨t, ht, hlen⟩ := encode_length C L r bs h
  unfold encode at h
  rw [ht] at h
  obtain ⟨x, hx, rfl⟩ := Option.map_eq_some_iff.mp h
  -- `encFixed` succeeded, so the length fits its field
  have hlf : lenFits (fixedSize L.fixed + t.length) L.fixed = true := by
    clear hlen h hl hfx
    generalize fixedSize L.fixed + t.length = tot at hx
    generalize L.fixed = F at hx
    generalize r.vals = vs at hx
    induction F generalizing vs x with
    | nil => rfl
    | cons f F ih =>
      cases f with
      | lenSelf w =>
        simp only [encFixed] at hx
        split at hx
        · rename_i hw
          obtain ⟨y, hy, rfl⟩ := Option.map_eq_some_iff.mp hx
          simp [lenFits, hw, ih y vs hy]
        · simp at hx
      | pad n =>
        simp only [encFixed] at hx
        obtain ⟨y, hy, rfl⟩ := Option.map_eq_some_iff.mp hx
        simpa [lenFits] using ih y vs hy
      | const w v =>
        simp only [encFixed] at hx
        split at hx
        · obtain ⟨y, hy, rfl⟩ := Option.map_eq_some_iff.mp hx
          simpa [lenFits] using ih y vs hy
        · simp at hx
      | uint nm w =>
        cases vs with
        | nil => simp [encFixed] at hx
        | cons v vs =>
          cases v with
          | raw b => simp [encFixed] at hx
          | num n =>
            simp only [encFixed] at hx
            split at hx
            · obtain ⟨y, hy, rfl⟩ := Option.map_eq_some_iff.mp hx
              simpa [lenFits] using ih y vs hy
            · simp at hx
      | blob nm n =>
        cases vs with
        | nil => simp [encFixed] at hx
        | cons v vs =>
          cases v with
          | num k => simp [encFixed] at hx
          | raw b =>
            simp only [encFixed] at hx
            split at hx
            · obtain ⟨y, hy, rfl⟩ := Option.map_eq_some_iff.mp hx
              simpa [lenFits] using ih y vs hy
            · simp at hx
      | zstr nm n =>
        cases vs with
        | nil => simp [encFixed] at hx
        | cons v vs =>
          cases v with
          | num k => simp [encFixed] at hx
          | raw b =>
            simp only [encFixed] at hx
            split at hx
            · obtain ⟨y, hy, rfl⟩ := Option.map_eq_some_iff.mp hx
              simpa [lenFits] using ih y vs hy
            · simp at hx
  obtain ⟨fb, hef, hdf⟩ := decFixed_encFixed (fixedSize L.fixed + t.length) L.fixed r.vals hfx hlf
  rw [hx] at hef
  cases hef
  simp only [hdrLen, List.append_assoc, hdf (t ++ tl), lenOf_of_hasLen _ _ hl, hlen]

/-- the fixed values a successful `decode` returns are those `decFixed` reads -/
theorem decode_vals (C : Codec E) (L : Layout) (avail : Option Nat) (bs tl : Bytes) (r : Rec E)
    (h : decode C L avail bs = some (r, tl)) : ∃ l rest, decFixed L.fixed bs = some (r.vals, l, rest) := by
  unfold decode at h
  cases hdf : decFixed L.fixed bs with
  | none => simp [hdf] at h
  | some p =>
    obtain ⟨vs', l, rest⟩ := p
    simp only [hdf] at h
    refine ⟨l, rest, ?_⟩
    split at h
    · cases h; rfl
    · split at h
      · cases h
      · split at h
        · cases h
        · split at h
          · cases h
          · simp only [Option.map_eq_some_iff, Prod.mk.injEq] at h
            obtain ⟨_, _, hx, _⟩ := h
            rw [← hx]

/-- reading the same bytes with the tail taken as raw bytes (`_read(raw, offset, length - K)`) instead of as a list gives
    the same fixed values and leaves the same rest -/
theorem decode_as_rest (C : Codec E) (F : List Field) (nm lnm fam : String) (avail : Option Nat) (bs tl : Bytes)
    (vs : List Val) (tv : TailV E) (h : decode C ⟨F, .list lnm fam⟩ avail bs = some (⟨vs, tv⟩, tl)) :
    ∃ b, decode C ⟨F, .rest nm⟩ avail bs = some (⟨vs, .rest b⟩, tl) := by
  unfold decode at h ⊢
  cases hdf : decFixed F bs with
  | none => simp [hdf] at h
  | some p =>
    obtain ⟨vs', len?, r⟩ := p
    simp only [hdf] at h ⊢
    have h0 : ¬ (Tail.list lnm fam = Tail.none) := by simp
    have h0' : ¬ (Tail.rest nm = Tail.none) := by simp
    simp only [h0, h0', ↓reduceIte] at h ⊢
    cases hdec : declared len? avail with
    | none => simp [hdec] at h
    | some tot =>
      simp only [hdec] at h ⊢
      split at h
      · simp at h
      · rename_i h1
        split at h
        · simp at h
        · rename_i h2
          simp only [h1, h2, ↓reduceIte]
          obtain ⟨t, _, ht⟩ := Option.map_eq_some_iff.mp h
          simp only [Prod.mk.injEq, Rec.mk.injEq] at ht
          obtain ⟨⟨rfl, _⟩, rfl⟩ := ht
          exact ⟨r.take (tot - fixedSize F), by simp [decTail]⟩

/-- the layout of a vendor action read generically: type, len, vendor, then the body as raw bytes -/
def vendorGenericL : Layout := ⟨[.uint "type" 2, .lenSelf 2, .uint "vendor" 4], .rest "body"⟩

/-- **A specific vendor action read as a generic one.**  Whatever layout a class has after the common prefix
    `type(2) len(2) vendor(4)`, the bytes it encodes are exactly the bytes of the generic vendor action with the same type
    and vendor and with everything after the prefix as its body; decoding those bytes with the generic layout gives that
    generic record and consumes exactly them.  (This is what `_unpack_actions` does with Nicira actions: no per-vendor
    dispatch — the result re-encodes to the same bytes but is an `ofp_action_vendor_generic`.) -/
theorem vendor_as_generic (C : Codec E) (ok : String → E → Prop) (hC : C.Good ok) (L : Layout) (r : Rec E)
    (nt nv : String) (F : List Field) (t v : Nat) (vs : List Val) (bs : Bytes)
    (hL : L.fixed = .uint nt 2 :: .lenSelf 2 :: .uint nv 4 :: F) (hv : r.vals = .num t :: .num v :: vs)
    (h : encode C L r = some bs) :
    ∃ body, encode C vendorGenericL ⟨[.num t, .num v], .rest body⟩ = some bs ∧
      ∀ tl, decode C vendorGenericL none (bs ++ tl) = some (⟨[.num t, .num v], .rest body⟩, tl) := by
  unfold encode at h
  cases htb : encTail C L.tail r.tail with
  | none => simp [htb] at h
  | some tb =>
    simp only [htb, hL, hv, encFixed] at h
    split at h
    · rename_i ht
      simp only [Option.map_map] at h
      split at h
      · rename_i htot
        split at h
        · rename_i hvr
          cases hfb : encFixed (fixedSize (.uint nt 2 :: .lenSelf 2 :: .uint nv 4 :: F) + tb.length) F vs with
          | none => simp [hfb] at h
          | some fb =>
            simp only [hfb, Option.map_some, Function.comp, Option.some.injEq] at h
            have hfl := encFixed_length _ _ _ _ hfb
            have htot' : 8 + (fb ++ tb).length = fixedSize (.uint nt 2 :: .lenSelf 2 :: .uint nv 4 :: F) + tb.length := by
              simp [fixedSize, hfl]; omega
            have henc : encode C vendorGenericL ⟨[.num t, .num v], .rest (fb ++ tb)⟩ = some bs := by
              simp only [encode, vendorGenericL, encTail, encFixed, fixedSize]
              have e : 2 + (2 + (4 + 0)) + (fb ++ tb).length
                  = fixedSize (.uint nt 2 :: .lenSelf 2 :: .uint nv 4 :: F) + tb.length := by omega
              rw [e]
              simp only [ht, htot, hvr, ↓reduceIte, Option.map_some, Option.some.injEq]
              rw [← h]; simp [List.append_assoc]
            refine ⟨fb ++ tb, henc, fun tl => ?_⟩
            have hf : Fits C ok vendorGenericL ⟨[.num t, .num v], .rest (fb ++ tb)⟩ := by
              refine ⟨by simp [vendorGenericL, fitsFixed, ht, hvr], trivial, ?_⟩
              intro t' ht'
              simp only [vendorGenericL, encTail, Option.some.injEq] at ht'
              subst ht'
              simp only [vendorGenericL, fixedSize, lenFits, Bool.and_true, decide_eq_true_eq]
              have e : 2 + (2 + (4 + 0)) + (fb ++ tb).length
                  = fixedSize (.uint nt 2 :: .lenSelf 2 :: .uint nv 4 :: F) + tb.length := by omega
              rw [e]; exact htot
            obtain ⟨bs', _, he', _, hd, _⟩ := decode_encode C ok hC vendorGenericL _ none tl hf (.inl (by decide))
            rw [henc] at he'; cases he'
            exact hd
        · simp at h
      · simp at h
    · simp at h

/-- an encoding whose layout starts with a 16-bit field starts with that field's value -/
theorem encode_head_uint2 (C : Codec E) (L : Layout) (r : Rec E) (bs : Bytes) (nm : String) (t : Nat)
    (F : List Field) (vs : List Val) (hL : L.fixed = .uint nm 2 :: F) (hv : r.vals = .num t :: vs)
    (h : encode C L r = some bs) : ∃ rest, bs = beEnc 2 t ++ rest ∧ t < 256 ^ 2 := by
  unfold encode at h
  split at h
  · simp at h
  · rename_i tb _
    rw [hL, hv] at h
    simp only [encFixed] at h
    split at h
    · rename_i ht
      obtain ⟨x, hx, rfl⟩ := Option.map_eq_some_iff.mp h
      obtain ⟨y, _, rfl⟩ := Option.map_eq_some_iff.mp hx
      exact ⟨y ++ tb, by simp, ht⟩
    · simp at h

/-- **The nesting tower is good at every depth**: every well-formed element (action, queue property, port, queue,
    stats entry — nested to any depth) encodes to a non-empty string from whose front the dispatching element
    decoder recovers exactly that element. -/
theorem codecAt_good (env : Env) : ∀ n, (codecAt env n).Good (okAt env n) := by
  intro n
  induction n with
  | zero => intro fam e; exact e.elim
  | succ n ih =>
    intro fam e hok
    obtain ⟨cls, r⟩ := e
    obtain ⟨L, hL, hfits, hpos, hself, hpick⟩ := hok
    simp only at hL hfits hpick
    have hav : hasLen L.fixed = true ∨ L.tail = .none ∨
        ∀ t, encTail (codecAt env n) L.tail r.tail = some t → (none : Option Nat) = some (fixedSize L.fixed + t.length) := by
      rcases hself with h | h
      · exact .inl h
      · exact .inr (.inl h)
    obtain ⟨bs, t, he, _, _, hlen⟩ := decode_encode (codecAt env n) (okAt env n) ih L r none [] hfits hav
    have hne : bs ≠ [] := by
      intro h; rw [h] at hlen; simp at hlen; omega
    refine ⟨bs, by simp [codecAt, hL, he], hne, fun tl => ?_⟩
    obtain ⟨bs', _, he', _, hd', _⟩ := decode_encode (codecAt env n) (okAt env n) ih L r none tl hfits hav
    rw [he] at he'; cases he'
    have hp : pick env fam (bs ++ tl) = some cls := by
      unfold Picks at hpick
      unfold pick
      cases hfam : env.family fam with
      | none => simp [hfam] at hpick
      | some f =>
        cases f with
        | single c => simp only [hfam] at hpick; simp [hpick]
        | byType table generic =>
          simp only [hfam] at hpick
          obtain ⟨nm, ty, F, vs, hF, hvs, hcls⟩ := hpick
          obtain ⟨rest, rfl, hty⟩ := encode_head_uint2 (codecAt env n) L r bs nm ty F vs hF hvs he
          have h2 : ¬ ((beEnc 2 ty ++ (rest ++ tl)).length < 2) := by
            simp only [List.length_append, beEnc_length]; omega
          simp only [List.append_assoc, h2, ↓reduceIte, List.take_left' (beEnc_length 2 ty),
            beDec_beEnc 2 ty hty, hcls]
    simp only [codecAt, hp, hL, hd', Option.map_some]

/-- **Round trip at any nesting depth** — the statement the property file instantiates: for the translated layouts
    `env`, every layout `L` (a class of `env` or any other), every record whose elements are well-formed. -/
theorem roundtrip_nested (env : Env) (n : Nat) (L : Layout) (r : Rec (Elem n)) (avail : Option Nat) (tl : Bytes)
    (hf : Fits (codecAt env n) (okAt env n) L r)
    (havail : hasLen L.fixed = true ∨ L.tail = .none ∨
      ∀ t, encTail (codecAt env n) L.tail r.tail = some t → avail = some (fixedSize L.fixed + t.length)) :
    ∃ bs t, encode (codecAt env n) L r = some bs ∧ encTail (codecAt env n) L.tail r.tail = some t ∧
      decode (codecAt env n) L avail (bs ++ tl) = some (r, tl) ∧ bs.length = fixedSize L.fixed + t.length ∧
      (hasLen L.fixed = true → hdrLen L (bs ++ tl) = some bs.length) := by
  obtain ⟨bs, t, he, ht, hd, hlen⟩ :=
    decode_encode (codecAt env n) (okAt env n) (codecAt_good env n) L r avail tl hf havail
  exact ⟨bs, t, he, ht, hd, hlen, fun hl => lenfield_exact _ L r bs tl hf.1 hl he⟩

end Pox.Layout
