import PoxModel.Proofs.Framing
import PoxModel.Model.FramingIO
/-! Helper lemmas for the C02 theorems about raising handlers and the end of the stream. -/
namespace Pox.Framing
variable {Msg : Type}

/-- the outcome of the handlers is not an input of the controller-side loop -/
theorem ctlLoopH_eq (U : Unpack Msg) (H : Msg → HOut) (k : Nat) : ∀ (fuel : Nat) (buf : Bytes) (off : Nat) (acc : List Msg),
    ctlLoopH U H k fuel buf off acc = ctlLoop U k fuel buf off acc := by
  intro fuel
  induction fuel with
  | zero => intro buf off acc; rfl
  | succ f ih =>
    intro buf off acc
    rw [ctlLoopH, ctlLoop]
    by_cases c1 : buf.length - off < 8
    · simp only [if_pos c1]
    · by_cases c2 : byteAt buf off ≠ 1 ∧ byteAt buf (off + 1) ≠ 0
      · simp only [if_neg c1, if_pos c2]
      · by_cases c3 : declLen buf off < k
        · simp only [if_neg c1, if_neg c2, if_pos c3]
        · by_cases c4 : buf.length - off < declLen buf off
          · simp only [if_neg c1, if_neg c2, if_neg c3, if_pos c4]
          · simp only [if_neg c1, if_neg c2, if_neg c3, if_neg c4]
            cases hU : U (byteAt buf (off + 1)) buf off with
            | raise => rfl
            | none => rfl
            | ok p =>
              obtain ⟨off', m⟩ := p
              simp only []
              by_cases c5 : off' - off ≠ declLen buf off ∨ off' < off
              · simp only [if_pos c5]
              · simp only [if_neg c5]
                cases H m <;> exact ih buf off' (acc ++ [m])

theorem ctlFeedH_eq (U : Unpack Msg) (H : Msg → HOut) (k : Nat) : ctlFeedH U H k = ctlFeed U k := by
  funext s c
  unfold ctlFeedH ctlFeed
  cases s.st <;> simp only []
  rw [ctlLoopH_eq]

/-- the outcome of the handlers is not an input of the switch-side loop -/
theorem swLoopH_eq (U : Unpack Msg) (H : Msg → HOut) : ∀ (fuel : Nat) (buf : Bytes) (acc : List Msg),
    swLoopH U H fuel buf acc = swLoop U fuel buf acc := by
  intro fuel
  induction fuel with
  | zero => intro buf acc; rfl
  | succ f ih =>
    intro buf acc
    rw [swLoopH, swLoop]
    by_cases c1 : buf.length < 4
    · simp only [if_pos c1]
    · by_cases c2 : byteAt buf 0 ≠ 1
      · simp only [if_neg c1, if_pos c2]
      · by_cases c3 : declLen buf 0 < 8
        · simp only [if_neg c1, if_neg c2, if_pos c3]
        · by_cases c4 : declLen buf 0 > buf.length
          · simp only [if_neg c1, if_neg c2, if_neg c3, if_pos c4]
          · simp only [if_neg c1, if_neg c2, if_neg c3, if_neg c4]
            cases hU : U (byteAt buf 1) buf 0 with
            | raise => exact ih _ _
            | none => exact ih _ _
            | ok p =>
              obtain ⟨off', m⟩ := p
              simp only []
              by_cases c5 : off' ≠ declLen buf 0
              · simp only [if_pos c5]; exact ih _ _
              · simp only [if_neg c5]
                cases H m <;> exact ih _ _

theorem swFeedH_eq (U : Unpack Msg) (H : Msg → HOut) : swFeedH U H = swFeed U := by
  funext s c
  unfold swFeedH swFeed
  cases s.st <;> simp only []
  rw [swLoopH_eq]

theorem connEnd_delivered (s : CS Msg) : (connEnd s).delivered = s.delivered := by
  unfold connEnd; cases s.st <;> rfl

theorem connEnd_closed (s : CS Msg) (h : s.st = .alive) : (connEnd s).st = .closed := by
  unfold connEnd; rw [h]

/-! ### a replaced table entry -/

theorem be32_embed (pre e post : Bytes) (i : Nat) (h : i + 4 ≤ e.length) :
    be32 (pre ++ e ++ post) (pre.length + i) = be32 e i := by
  unfold be32
  have a0 := byteAt_append_left e post i (by omega)
  have a1 := byteAt_append_left e post (i+1) (by omega)
  have a2 := byteAt_append_left e post (i+2) (by omega)
  have a3 := byteAt_append_left e post (i+3) (by omega)
  rw [List.append_assoc, Nat.add_assoc, Nat.add_assoc, Nat.add_assoc,
    byteAt_append_right, byteAt_append_right, byteAt_append_right, byteAt_append_right, a0, a1, a2, a3]

/-- a message of a type whose entry was not replaced is decoded as before -/
theorem replaceEntry_wf_other (U V : Unpack Msg) (ty0 : Nat) (e : Bytes) (m : Msg) (h : WF U e m) (ht : byteAt e 1 ≠ ty0) :
    WF (replaceEntry U ty0 V) e m :=
  { toHdr := h.toHdr, dec := fun pre post => by unfold replaceEntry; rw [if_neg ht]; exact h.dec pre post }

/-- a message of the replaced type is decoded by the new entry -/
theorem replaceEntry_wf_same (U V : Unpack Msg) (ty0 : Nat) (e : Bytes) (m : Msg) (h : WF V e m) (ht : byteAt e 1 = ty0) :
    WF (replaceEntry U ty0 V) e m :=
  { toHdr := h.toHdr, dec := fun pre post => by unfold replaceEntry; rw [if_pos ht]; exact h.dec pre post }

/-- another vendor's message of any legal length (12 bytes and up) goes through the Nicira entry unchanged, whatever
    follows it in the buffer (nothing, too) -/
theorem nxVendor_wf_foreign (old : Unpack Msg) (N : Nat → Option (Unpack Msg)) (e : Bytes) (m : Msg) (h : WF old e m)
    (h12 : 12 ≤ e.length) (hv : be32 e 8 ≠ nxVendorId) : WF (nxVendor old N) e m :=
  { toHdr := h.toHdr, dec := fun pre post => by
      unfold nxVendor
      have hl : ¬ (pre ++ e ++ post).length < pre.length + 12 := by simp only [List.length_append]; omega
      rw [if_neg hl, be32_embed pre e post 8 (by omega), if_pos hv]
      exact h.dec pre post }

/-- a Nicira message (16 bytes and up) is decoded by the decoder of its subtype -/
theorem nxVendor_wf_nicira (old : Unpack Msg) (N : Nat → Option (Unpack Msg)) (e : Bytes) (m : Msg)
    (h16 : 16 ≤ e.length) (hv : be32 e 8 = nxVendorId) (h : WF ((N (be32 e 12)).getD old) e m) : WF (nxVendor old N) e m :=
  { toHdr := h.toHdr, dec := fun pre post => by
      unfold nxVendor
      have hl : ¬ (pre ++ e ++ post).length < pre.length + 12 := by simp only [List.length_append]; omega
      have hl2 : ¬ (pre ++ e ++ post).length < pre.length + 16 := by simp only [List.length_append]; omega
      rw [if_neg hl, be32_embed pre e post 8 (by omega), if_neg (by simpa using hv), if_neg hl2,
        be32_embed pre e post 12 (by omega)]
      have := h.dec pre post
      cases hN : N (be32 e 12) with
      | none => rw [hN] at this; simpa using this
      | some d => rw [hN] at this; simpa using this }

/-- well-formed for a controller whose OFPT_VENDOR (4) entry is the Nicira one: any message of another type; another
    vendor's message of 12 bytes and up; a Nicira message of 16 bytes and up that the decoder of its subtype (the old
    entry when the subtype has none) consumes exactly -/
def NxWF (U : Unpack Msg) (N : Nat → Option (Unpack Msg)) (e : Bytes) (m : Msg) : Prop :=
  (byteAt e 1 ≠ 4 ∧ WF U e m) ∨
  (byteAt e 1 = 4 ∧ 12 ≤ e.length ∧ be32 e 8 ≠ nxVendorId ∧ WF U e m) ∨
  (byteAt e 1 = 4 ∧ 16 ≤ e.length ∧ be32 e 8 = nxVendorId ∧ WF ((N (be32 e 12)).getD U) e m)

theorem NxWF.wf {U : Unpack Msg} {N : Nat → Option (Unpack Msg)} {e : Bytes} {m : Msg} (h : NxWF U N e m) :
    WF (replaceEntry U 4 (nxVendor U N)) e m := by
  rcases h with ⟨h1, h2⟩ | ⟨h1, h2, h3, h4⟩ | ⟨h1, h2, h3, h4⟩
  · exact replaceEntry_wf_other U _ 4 e m h2 h1
  · exact replaceEntry_wf_same U _ 4 e m (nxVendor_wf_foreign U N e m h4 h2 h3) h1
  · exact replaceEntry_wf_same U _ 4 e m (nxVendor_wf_nicira U N e m h2 h3 h4) h1

end Pox.Framing
