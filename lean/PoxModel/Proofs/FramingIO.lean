import PoxModel.Proofs.Framing
import PoxModel.Model.FramingIO
/-! Helper lemmas for the C02 theorems about raising handlers and the end of the stream. -/
namespace Pox.Framing
variable {Msg : Type}

/-- the outcome of the handlers is not an input of the controller-side loop -/
theorem ctlLoopH_eq (U : Unpack Msg) (H : Msg → HOut) (k : Nat) : ∀ (fuel : Nat) (buf : Bytes) (off : Nat) (acc : List Msg),
    ctlLoopH U H k fuel buf off acc = ctlLoop U k fuel buf off acc := by
  intro fuel
  induction fuel with
  | zero => intro buf off acc; rfl
  | succ f ih =>
    intro buf off acc
    rw [ctlLoopH, ctlLoop]
    by_cases c1 : buf.length - off < 8
    · simp only [if_pos c1]
    · by_cases c2 : byteAt buf off ≠ 1 ∧ byteAt buf (off + 1) ≠ 0
      · simp only [if_neg c1, if_pos c2]
      · by_cases c3 : declLen buf off < k
        · simp only [if_neg c1, if_neg c2, if_pos c3]
        · by_cases c4 : buf.length - off < declLen buf off
          · simp only [if_neg c1, if_neg c2, if_neg c3, if_pos c4]
          · simp only [if_neg c1, if_neg c2, if_neg c3, if_neg c4]
            cases hU : U (byteAt buf (off + 1)) buf off with
            | raise => rfl
            | none => rfl
            | ok p =>
              obtain ⟨off', m⟩ := p
              simp only []
              by_cases c5 : off' - off ≠ declLen buf off ∨ off' < off
              · simp only [if_pos c5]
              · simp only [if_neg c5]
                cases H m <;> exact ih buf off' (acc ++ [m])

theorem ctlFeedH_eq (U : Unpack Msg) (H : Msg → HOut) (k : Nat) : ctlFeedH U H k = ctlFeed U k := by
  funext s c
  unfold ctlFeedH ctlFeed
  cases s.st <;> simp only []
  rw [ctlLoopH_eq]

/-- the outcome of the handlers is not an input of the switch-side loop -/
theorem swLoopH_eq (U : Unpack Msg) (H : Msg → HOut) : ∀ (fuel : Nat) (buf : Bytes) (acc : List Msg),
    swLoopH U H fuel buf acc = swLoop U fuel buf acc := by
  intro fuel
  induction fuel with
  | zero => intro buf acc; rfl
  | succ f ih =>
    intro buf acc
    rw [swLoopH, swLoop]
    by_cases c1 : buf.length < 4
    · simp only [if_pos c1]
    · by_cases c2 : byteAt buf 0 ≠ 1
      · simp only [if_neg c1, if_pos c2]
      · by_cases c3 : declLen buf 0 < 8
        · simp only [if_neg c1, if_neg c2, if_pos c3]
        · by_cases c4 : declLen buf 0 > buf.length
          · simp only [if_neg c1, if_neg c2, if_neg c3, if_pos c4]
          · simp only [if_neg c1, if_neg c2, if_neg c3, if_neg c4]
            cases hU : U (byteAt buf 1) buf 0 with
            | raise => exact ih _ _
            | none => exact ih _ _
            | ok p =>
              obtain ⟨off', m⟩ := p
              simp only []
              by_cases c5 : off' ≠ declLen buf 0
              · simp only [if_pos c5]; exact ih _ _
              · simp only [if_neg c5]
                cases H m <;> exact ih _ _

theorem swFeedH_eq (U : Unpack Msg) (H : Msg → HOut) : swFeedH U H = swFeed U := by
  funext s c
  unfold swFeedH swFeed
  cases s.st <;> simp only []
  rw [swLoopH_eq]

theorem connEnd_delivered (s : CS Msg) : (connEnd s).delivered = s.delivered := by
  unfold connEnd; cases s.st <;> rfl

theorem connEnd_closed (s : CS Msg) (h : s.st = .alive) : (connEnd s).st = .closed := by
  unfold connEnd; rw [h]

end Pox.Framing
