import PoxModel.Model.SendPath
namespace Pox.SendPath

/-! ## Part A -/

structure Inv (s : St) : Prop where
  stream : s.accepted ++ s.sendBuf = s.queued
  once : s.closeEvents = (if s.closed then 1 else 0)
  quiet : s.offeredAfterClose = 0
  /-- every shutdown-for-writing happened when the socket had taken everything queued until then -/
  drained : ∀ e ∈ s.shutLog, e.1 = e.2
  /-- the socket is shut down for writing at most once -/
  shutOnce : s.shutLog.length ≤ 1
  pendReq : s.pendSinceReq = true → s.shutReq = true
  /-- a requested shutdown that had to wait for data is carried out as soon as the buffer is drained -/
  happens : s.shutReq = true → s.pendSinceReq = true → s.sendBuf = [] → s.closed = false → s.shutLog ≠ []

theorem eff_accept {s : St} {o : Outcome} {k : Nat} (h : s.eff o = .accept k) : s.shutLog = [] := by
  unfold St.eff at h
  split at h
  · rename_i he; simpa using he
  · cases h

/-- `_do_send`'s write on a live worker with a non-empty buffer -/
theorem writeBuf_inv (s : St) (o : Outcome) (h : Inv s) (hc : s.closed = false) (hb : s.sendBuf ≠ []) :
    Inv (writeBuf s o) := by
  obtain ⟨hs, ho, hq, hd, h1, hp, hh⟩ := h
  unfold writeBuf
  simp only []
  cases he : s.offer.eff o with
  | again =>
    simp only []
    exact ⟨hs, ho, by simp [St.offer, hc, hq], hd, h1, hp, hh⟩
  | fatal =>
    simp only []
    refine ⟨hs, by simp [St.fail, St.offer, hc, ho], by simp [St.fail, St.offer, hc, hq], hd, h1, hp, ?_⟩
    intro _ _ _ hcl; simp [St.fail] at hcl
  | accept k =>
    simp only []
    have hl0 : s.shutLog = [] := eff_accept (s := s.offer) he
    split
    · exact ⟨hs, ho, by simp [St.offer, hc, hq], hd, h1, hp, hh⟩
    · rename_i hk
      have hk' : s.offer.sendBuf = s.sendBuf := rfl
      rw [hk']
      generalize min k s.sendBuf.length = m at hk
      unfold St.took St.afterWrite
      have hstream : s.accepted ++ List.take m s.sendBuf ++ List.drop m s.sendBuf = s.queued := by
        rw [List.append_assoc, List.take_append_drop]; exact hs
      split
      · rename_i hsh
        obtain ⟨hreq, hemp⟩ := hsh
        have hemp' : List.drop m s.sendBuf = [] := List.length_eq_zero_iff.mp hemp
        refine ⟨hstream, ho, by simp [St.offer, hc, hq], ?_, ?_, hp, ?_⟩
        · intro e hmem
          have : e = (s.accepted ++ List.take m s.sendBuf, s.queued) := by
            simpa [St.offer, hl0] using hmem
          subst this
          show s.accepted ++ List.take m s.sendBuf = s.queued
          rw [← hstream]
          show _ = s.accepted ++ List.take m s.sendBuf ++ List.drop m s.sendBuf
          rw [hemp']; simp
        · simp [St.offer, hl0]
        · intro _ _ _ _; simp [St.offer]
      · rename_i hsh
        refine ⟨hstream, ho, by simp [St.offer, hc, hq], hd, h1, hp, ?_⟩
        intro hreq _ hemp _
        exfalso; apply hsh
        exact ⟨hreq, by
          have : List.drop m s.sendBuf = [] := hemp
          simp [St.offer, this]⟩

theorem doSend_inv (s : St) (o : Outcome) (h : Inv s) : Inv (doSend s o) := by
  unfold doSend
  by_cases hc : s.closed
  · simp only [hc, if_true]; exact h
  · by_cases h0 : s.sendBuf.length = 0
    · simp only [hc, h0, if_true, Bool.false_eq_true, if_false]; exact h
    · simp only [hc, h0, Bool.false_eq_true, if_false]
      exact writeBuf_inv s o h (by simpa using hc) (by intro hb; apply h0; simp [hb])

theorem doRecv_inv (s : St) (rx : Rx) (h : Inv s) : Inv (doRecv s rx) := by
  obtain ⟨hs, ho, hq, hd, h1, hp, hh⟩ := h
  cases rx <;> simp only [doRecv]
  · exact ⟨hs, ho, hq, hd, h1, hp, hh⟩
  all_goals
    by_cases hc : s.closed
    · simp only [hc, if_true]; exact ⟨hs, ho, hq, hd, h1, hp, hh⟩
    · have hc' : s.closed = false := by simpa using hc
      simp only [hc, Bool.false_eq_true, if_false]
      refine ⟨hs, by simp [ho, hc'], hq, hd, h1, hp, ?_⟩
      intro _ _ _ hcl; simp at hcl

theorem doRecv_guard (s : St) (rx : Rx) : (doRecv s rx).guardClosed = s.guardClosed := by
  cases rx <;> simp only [doRecv] <;> (try rfl) <;> (split <;> rfl)

theorem afterWrite_guard (s : St) : s.afterWrite.guardClosed = s.guardClosed := by
  unfold St.afterWrite; split <;> rfl

theorem writeBuf_guard (s : St) (o : Outcome) : (writeBuf s o).guardClosed = s.guardClosed := by
  unfold writeBuf
  simp only []
  cases s.offer.eff o <;> simp only [] <;> (try rfl)
  split
  · rfl
  · unfold St.took; rw [afterWrite_guard]; rfl

theorem doSend_guard (s : St) (o : Outcome) : (doSend s o).guardClosed = s.guardClosed := by
  unfold doSend
  split
  · rfl
  · split
    · rfl
    · exact writeBuf_guard s o

theorem doSendRaw_guard (s : St) (o : Outcome) : (doSendRaw s o).guardClosed = s.guardClosed := by
  unfold doSendRaw
  split
  · rfl
  · exact writeBuf_guard s o

theorem step0_guard (s : St) (op : Op) : (step0 s op).guardClosed = s.guardClosed := by
  cases op with
  | shutdown => rfl
  | close => rfl
  | send d => rfl
  | pump o => exact doSend_guard s o
  | sendFast d o =>
    simp only [step0]
    split
    · cases s.offer.eff o <;> simp only [] <;> (try rfl)
      split <;> rfl
    · rfl
  | pumpRW rx o =>
    simp only [step0]
    split
    · rfl
    · split
      · rw [doSend_guard, doRecv_guard]
      · rw [doSendRaw_guard, doRecv_guard]

theorem step_guard (s : St) (op : Op) : (step s op).guardClosed = s.guardClosed := by
  unfold step; exact step0_guard s op

theorem step0_inv (s : St) (op : Op) (h : Inv s) (hg : s.guardClosed = true) : Inv (step0 s op) := by
  cases op with
  | shutdown =>
    obtain ⟨hs, ho, hq, hd, h1, hp, hh⟩ := h
    refine ⟨hs, ho, hq, hd, h1, fun _ => rfl, ?_⟩
    intro _ hpend hemp hcl
    exact hh (hp hpend) hpend hemp hcl
  | close =>
    obtain ⟨hs, ho, hq, hd, h1, hp, hh⟩ := h
    refine ⟨hs, ?_, hq, hd, h1, hp, ?_⟩
    · show s.closeEvents + (if s.closed then 0 else 1) = (if true = true then 1 else 0)
      rw [ho]; cases s.closed <;> rfl
    · intro _ _ _ hcl; exact absurd hcl (by simp [step0, St.fail])
  | send d =>
    obtain ⟨hs, ho, hq, hd, h1, hp, hh⟩ := h
    refine ⟨by simp [step0, ← hs, List.append_assoc], ho, hq, hd, h1, hp, ?_⟩
    intro hreq hpend hemp hcl
    have hemp' : s.sendBuf ++ d = [] := hemp
    have : s.sendBuf = [] := (List.append_eq_nil_iff.mp hemp').1
    exact hh hreq hpend this hcl
  | pump o => exact doSend_inv s o h
  | pumpRW rx o =>
    simp only [step0]
    by_cases hc : s.closed
    · simp only [hc, if_true]; exact h
    · simp only [hc, hg, if_true, Bool.false_eq_true, if_false]
      exact doSend_inv _ o (doRecv_inv s rx h)
  | sendFast d o =>
    obtain ⟨hs, ho, hq, hd, h1, hp, hh⟩ := h
    unfold step0
    by_cases hg : s.sendBuf.length = 0 ∧ ¬ s.closed
    · obtain ⟨h0, hc⟩ := hg
      have hb : s.sendBuf = [] := List.length_eq_zero_iff.mp h0
      have hqq : s.accepted = s.queued := by rw [hb] at hs; simpa using hs
      have hc' : s.closed = false := by simpa using hc
      simp only [h0, hc', Bool.false_eq_true, not_false_eq_true, and_self, if_true]
      cases s.offer.eff o with
      | again =>
        simp only []
        refine ⟨by simp [St.offer, ← hs, List.append_assoc], ho, by simp [St.offer, hc', hq], hd, h1, hp, ?_⟩
        intro hreq hpend hemp hcl
        have hemp' : s.sendBuf ++ d = [] := hemp
        exact hh hreq hpend (List.append_eq_nil_iff.mp hemp').1 hcl
      | fatal =>
        simp only []
        refine ⟨hs, by simp [St.offer, ho, hc'], by simp [St.offer, hc', hq], hd, h1, hp, ?_⟩
        intro _ _ _ hcl; simp at hcl
      | accept k =>
        simp only []
        by_cases hk : min k d.length = d.length
        · simp only [hk, if_true]
          refine ⟨by simp [St.offer, hb, hqq], ho, by simp [St.offer, hc', hq], hd, h1, hp, ?_⟩
          intro hreq hpend _ hcl
          exact hh hreq hpend hb hcl
        · simp only [hk, if_false]
          refine ⟨?_, ho, by simp [St.offer, hc', hq], hd, h1, hp, ?_⟩
          · show s.accepted ++ List.take _ d ++ List.drop _ d = s.queued ++ d
            rw [List.append_assoc, List.take_append_drop, hqq]
          · intro _ _ hemp _
            exfalso
            have hemp' : List.drop (min k d.length) d = [] := hemp
            have := List.drop_eq_nil_iff.mp hemp'
            omega
    · simp only [hg, if_false]
      refine ⟨by simp [← hs, List.append_assoc], ho, hq, hd, h1, hp, ?_⟩
      intro hreq hpend hemp hcl
      have hemp' : s.sendBuf ++ d = [] := hemp
      exact hh hreq hpend (List.append_eq_nil_iff.mp hemp').1 hcl

theorem step_inv (s : St) (op : Op) (h : Inv s) (hg : s.guardClosed = true) : Inv (step s op) := by
  obtain ⟨hs, ho, hq, hd, h1, hp, hh⟩ := step0_inv s op h hg
  unfold step
  refine ⟨hs, ho, hq, hd, h1, ?_, ?_⟩
  · intro hpend
    have hpend' : ((step0 s op).pendSinceReq || ((step0 s op).shutReq && !(step0 s op).sendBuf.isEmpty)) = true := hpend
    rcases Bool.or_eq_true_iff.mp hpend' with h' | h'
    · exact hp h'
    · exact (Bool.and_eq_true_iff.mp h').1
  · intro hreq hpend hemp hcl
    have hemp' : (step0 s op).sendBuf = [] := hemp
    have hpend' : ((step0 s op).pendSinceReq || ((step0 s op).shutReq && !(step0 s op).sendBuf.isEmpty)) = true := hpend
    rw [hemp'] at hpend'
    have : (step0 s op).pendSinceReq = true := by simpa using hpend'
    exact hh hreq this hemp' hcl

theorem run_inv (ops : List Op) : Inv (run ops) := by
  have : ∀ (s : St), Inv s → s.guardClosed = true → Inv (ops.foldl step s) := by
    induction ops with
    | nil => intro s h _; exact h
    | cons o os ih => intro s h hg; exact ih _ (step_inv s o h hg) (by rw [step_guard]; exact hg)
  exact this {} ⟨rfl, rfl, rfl, by simp, by simp, by simp, by simp⟩ rfl

/-! ## Part B -/

theorem flatten_sliceup (pb : Nat) : ∀ (f : Nat) (d : Bytes), (sliceup pb f d).flatten = d
  | 0, d => by
    unfold sliceup
    split
    · simp
    · rename_i h; simp at h; simp [h]
  | f+1, d => by
    unfold sliceup
    split
    · simp [flatten_sliceup pb f]
    · split
      · simp
      · rename_i h; simp at h; simp [h]

/-- the invariant of the two-actor system -/
structure CInv (s : Ctl) : Prop where
  /-- nothing lost, duplicated or reordered while the connection is up -/
  stream : s.disc = false → s.accepted ++ s.pending.flatten ++ inflight s = s.queued
  /-- in every state what the socket took is a prefix of what was queued -/
  pref : ∃ t, s.accepted ++ t = s.queued
  /-- the global flag is only clear when nothing is pending anywhere -/
  flag : s.sending = false → s.pending = [] ∧ s.othersPending = false
  /-- a send that read `sending = False` really has nothing queued in front of it, on a live connection -/
  direct : ∀ d, s.coop = .checked d false → s.pending = [] ∧ s.disc = false
  /-- the sender is inside its critical section exactly when it holds the lock -/
  lock : s.lockHeld = true ↔ s.sender ≠ .idle
  /-- while the sender is flushing, the flag is set -/
  busy : s.sender ≠ .idle → s.sending = true
  /-- a fatal socket error marks the connection disconnected, for good -/
  fat : s.fatal = true → s.disc = true

theorem cinit_inv (pb : Nat) : CInv { pb := pb } :=
  CInv.mk (by intro _; rfl) (⟨[], rfl⟩) (by intro _; exact ⟨rfl, rfl⟩) (by intro d h; cases h) (by simp) (by simp)
    (by intro h; cases h)

theorem fatal_false_of_live {s : Ctl} (hfa : s.fatal = true → s.disc = true) (hd : s.disc = false) : s.fatal = false := by
  cases hf : s.fatal with
  | false => rfl
  | true => have := hfa hf; rw [hd] at this; cases this

theorem cstep_inv (s s' : Ctl) (a : Act) (h : CInv s) (hs : cstep s a = some s') : CInv s' := by
  obtain ⟨hst, ⟨t, hpf⟩, hfl, hdi, hlk, hbz, hfa⟩ := h
  cases a with
  | coopCheck d =>
    simp only [cstep] at hs
    split at hs
    · cases hs
    · rename_i hen
      simp only [not_or] at hen
      obtain ⟨hidle, hd0⟩ := hen
      have hidle' : s.coop = .idle := by simpa using hidle
      split at hs
      · cases hs; exact CInv.mk (hst) (⟨t, hpf⟩) (hfl) (hdi) (hlk) (hbz) (by first | exact hfa | (intro hf; cases hf))
      · rename_i hdisc
        have hdisc' : s.disc = false := by simpa using hdisc
        cases hs
        refine CInv.mk (?_) (⟨t ++ d, by simp [← hpf, List.append_assoc]⟩) (hfl) (?_) (hlk) (hbz) (by first | exact hfa | (intro hf; cases hf))
        · intro _
          have := hst hdisc'
          simp only [inflight, hidle', List.append_nil] at this
          simp [inflight, ← this, List.append_assoc]
        · intro d' hc
          simp only [CoopPc.checked.injEq] at hc
          exact ⟨(hfl (by simpa using hc.2.symm)).1, hdisc'⟩
  | coopGo o =>
    simp only [cstep] at hs
    split at hs
    · -- saw = true: go to the deferred path
      rename_i d hco
      cases hs
      refine CInv.mk (?_) (⟨t, hpf⟩) (hfl) (?_) (hlk) (hbz) (by first | exact hfa | (intro hf; cases hf))
      · intro hd; have := hst hd; simpa [inflight, hco] using this
      · intro d' hc; cases hc
    · rename_i d hco
      obtain ⟨hp0, hd0⟩ := hdi d hco
      have hf0 : s.fatal = false := fatal_false_of_live hfa hd0
      have hstream : s.accepted ++ d = s.queued := by
        have := hst hd0; simpa [inflight, hco, hp0] using this
      simp only [hd0, hf0, Bool.false_eq_true, if_false] at hs
      cases o with
      | again =>
        simp only [] at hs
        cases hs
        refine CInv.mk (?_) (⟨t, hpf⟩) (hfl) (?_) (hlk) (hbz) (by first | exact hfa | (intro hf; cases hf))
        · intro _; simpa [inflight, hp0] using hstream
        · intro d' hc; cases hc
      | fatal =>
        simp only [] at hs
        cases hs
        exact CInv.mk (by intro hh; cases hh) (⟨t, hpf⟩) (hfl) (by intro d' hc; cases hc) (hlk) (hbz) (fun _ => rfl)
      | accept k =>
        simp only [] at hs
        split at hs
        · cases hs
          refine CInv.mk (?_) (⟨[], by simpa using hstream⟩) (hfl) (?_) (hlk) (hbz) (by first | exact hfa | (intro hf; cases hf))
          · intro _; simpa [inflight, hp0] using hstream
          · intro d' hc; cases hc
        · cases hs
          refine CInv.mk (?_) (⟨d.drop (min k d.length), by rw [List.append_assoc, List.take_append_drop]; exact hstream⟩) (hfl) (?_) (hlk) (hbz) (by first | exact hfa | (intro hf; cases hf))
          · intro _
            simp only [inflight, hp0, List.flatten_nil, List.append_nil]
            rw [List.append_assoc, List.take_append_drop]; exact hstream
          · intro d' hc; cases hc
    · cases hs
  | coopEnq =>
    simp only [cstep] at hs
    split at hs
    · rename_i d hco
      split at hs
      · cases hs
      · split at hs
        · rename_i hdisc
          cases hs
          exact CInv.mk (by intro hd; simp [hdisc] at hd) (⟨t, hpf⟩) (hfl) (by intro d' hc; cases hc) (hlk) (hbz) (by first | exact hfa | (intro hf; cases hf))
        · cases hs
          refine CInv.mk (?_) (⟨t, hpf⟩) (by intro hh; cases hh) (by intro d' hc; cases hc) (hlk) (by intro _; rfl) (by first | exact hfa | (intro hf; cases hf))
          intro hd
          have := hst hd
          simp only [inflight, hco] at this
          simp [enq, inflight, flatten_sliceup, ← this, List.append_assoc]
    · cases hs
  | senderBegin =>
    simp only [cstep] at hs
    split at hs
    · rename_i hen
      obtain ⟨hidle, hnl, hpn⟩ := hen
      cases hs
      refine CInv.mk (by intro hd; simpa [inflight] using hst hd) (⟨t, hpf⟩) (hfl) (hdi) (by simp) (?_) (by first | exact hfa | (intro hf; cases hf))
      intro _
      cases hsd : s.sending with
      | true => rfl
      | false => exact absurd (hfl hsd).1 hpn
    · cases hs
  | senderSend o =>
    simp only [cstep] at hs
    split at hs
    · cases hs
    · rename_i hfl'
      have hflush : s.sender = .flushing := by simpa using hfl'
      have hlock : s.lockHeld = true := hlk.mpr (by simp [hflush])
      have hsend : s.sending = true := hbz (by simp [hflush])
      split at hs
      · cases hs
        exact CInv.mk (by intro hd; simpa [inflight] using hst hd) (⟨t, hpf⟩) (hfl) (hdi) (by simp [hlock]) (by intro _; exact hsend) (by first | exact hfa | (intro hf; cases hf))
      · rename_i d rest hpend
        have hnodirect : ∀ d', s.coop ≠ .checked d' false := by
          intro d' hc; have := (hdi d' hc).1; rw [hpend] at this; cases this
        by_cases hdisc : s.disc = true
        · cases hf : s.fatal <;>
          · simp only [hdisc, hf, Bool.false_eq_true, if_true, if_false] at hs
            cases hs
            exact CInv.mk (by intro hh; cases hh) (⟨t, hpf⟩) (by simp [hsend]) (by intro d' hc; exact absurd hc (hnodirect d')) (by simp) (by simp) (fun _ => rfl)
        · have hd0 : s.disc = false := by simpa using hdisc
          have hf0 : s.fatal = false := fatal_false_of_live hfa hd0
          simp only [hd0, hf0, Bool.false_eq_true, if_false] at hs
          have hstream := hst hd0
          rw [hpend] at hstream
          cases o with
          | again =>
            simp only [] at hs
            cases hs
            exact CInv.mk (by intro _; simpa [inflight, hpend] using hstream) (⟨t, hpf⟩) (hfl) (by intro d' hc; exact absurd hc (hnodirect d')) (by simp [hlock]) (by intro _; exact hsend) (by first | exact hfa | (intro hf; cases hf))
          | fatal =>
            simp only [] at hs
            cases hs
            exact CInv.mk (by intro hh; cases hh) (⟨t, hpf⟩) (by simp [hsend]) (by intro d' hc; exact absurd hc (hnodirect d')) (by simp) (by simp) (fun _ => rfl)
          | accept k =>
            simp only [] at hs
            split at hs
            · cases hs
              refine CInv.mk (?_) (⟨rest.flatten ++ inflight s, ?_⟩) (by simp [hsend]) (?_) (by simp [hlock, hflush]) (by intro _; exact hsend) (by first | exact hfa | (intro hf; cases hf))
              · intro _
                simp only [List.flatten_cons] at hstream
                simpa [inflight, List.append_assoc] using hstream
              · simp only [List.flatten_cons] at hstream
                simpa [List.append_assoc] using hstream
              · intro d' hc; exact absurd hc (hnodirect d')
            · cases hs
              refine CInv.mk (?_) (⟨(d.drop (min k d.length) :: rest).flatten ++ inflight s, ?_⟩) (by simp [hsend]) (?_) (by simp [hlock]) (by intro _; exact hsend) (by first | exact hfa | (intro hf; cases hf))
              · intro _
                simp only [List.flatten_cons] at hstream ⊢
                have : s.accepted ++ List.take (min k d.length) d ++ (List.drop (min k d.length) d ++ rest.flatten)
                    = s.accepted ++ (d ++ rest.flatten) := by
                  rw [List.append_assoc, ← List.append_assoc (List.take _ d), List.take_append_drop]
                simp only [inflight] at hstream ⊢
                rw [this]; exact hstream
              · simp only [List.flatten_cons] at hstream ⊢
                have : s.accepted ++ List.take (min k d.length) d ++ (List.drop (min k d.length) d ++ rest.flatten ++ inflight s)
                    = s.accepted ++ (d ++ rest.flatten) ++ inflight s := by
                  simp only [List.append_assoc]
                  rw [← List.append_assoc (List.take _ d), List.take_append_drop]
                rw [this]; exact hstream
              · intro d' hc; exact absurd hc (hnodirect d')
  | senderFinish =>
    simp only [cstep] at hs
    split at hs
    · cases hs
    · split at hs
      · rename_i hcond
        cases hs
        exact CInv.mk (by intro hd; simpa [inflight] using hst hd) (⟨t, hpf⟩) (by intro _; exact ⟨hcond.1, by simpa using hcond.2⟩) (hdi) (by simp) (by simp) (by first | exact hfa | (intro hf; cases hf))
      · cases hs
        exact CInv.mk (by intro hd; simpa [inflight] using hst hd) (⟨t, hpf⟩) (hfl) (hdi) (by simp) (by simp) (by first | exact hfa | (intro hf; cases hf))
  | envEnq =>
    simp only [cstep] at hs
    split at hs
    · cases hs
    · cases hs
      exact CInv.mk (by intro hd; simpa [inflight] using hst hd) (⟨t, hpf⟩) (by intro hh; cases hh) (hdi) (hlk) (by intro _; rfl) (by first | exact hfa | (intro hf; cases hf))
  | envDone reset =>
    simp only [cstep] at hs
    split at hs
    · cases hs
    · rename_i hen
      simp only [not_or, Bool.not_eq_true] at hen
      have hidle : s.sender = .idle := by
        cases hsd : s.sender with
        | idle => rfl
        | flushing => have := hlk.mpr (by simp [hsd]); simp [this] at hen
        | finishing => have := hlk.mpr (by simp [hsd]); simp [this] at hen
      split at hs
      · rename_i hcond
        cases hs
        exact CInv.mk (by intro hd; simpa [inflight] using hst hd) (⟨t, hpf⟩) (by intro _; exact ⟨hcond.2, rfl⟩) (hdi) (hlk) (by intro hh; exact absurd hidle hh) (by first | exact hfa | (intro hf; cases hf))
      · cases hs
        exact CInv.mk (by intro hd; simpa [inflight] using hst hd) (⟨t, hpf⟩) (by intro hh; exact ⟨(hfl hh).1, rfl⟩) (hdi) (hlk) (hbz) (by first | exact hfa | (intro hf; cases hf))
  | envDisc =>
    simp only [cstep] at hs
    cases hs
    exact CInv.mk (hst) (⟨t, hpf⟩) (hfl) (hdi) (hlk) (hbz) (by first | exact hfa | (intro hf; cases hf))
  | coopDisc =>
    simp only [cstep] at hs
    split at hs
    · cases hs
    · rename_i hidle
      have hidle' : s.coop = .idle := by simpa using hidle
      cases hs
      exact CInv.mk (by intro hh; cases hh) (⟨t, hpf⟩) (hfl) (by intro d' hc; rw [hidle'] at hc; cases hc) (hlk) (hbz) (fun _ => rfl)
  | senderPurge =>
    simp only [cstep] at hs
    split at hs
    · rename_i hen
      obtain ⟨hidle, hnl, hdisc⟩ := hen
      cases hs
      refine CInv.mk (by intro hh; rw [hdisc] at hh; cases hh) (⟨t, hpf⟩) (by intro hh; exact ⟨rfl, (hfl hh).2⟩) (?_) (hlk) (hbz) (by first | exact hfa | (intro hf; cases hf))
      intro d' hc
      have := (hdi d' hc).2; rw [hdisc] at this; cases this
    · cases hs

theorem crun_inv (acts : List Act) : ∀ (s : Ctl), CInv s → CInv (crun s acts) := by
  induction acts with
  | nil => intro s h; exact h
  | cons a as ih =>
    intro s h
    simp only [crun]
    cases hs : cstep s a with
    | none => simpa using ih s h
    | some s' => simpa using ih s' (cstep_inv s s' a h hs)

/-- second invariant (needs repair C20-R1): after a fatal socket error nothing is queued for the sender thread and no
`sock.send` has ever been attempted on that socket again -/
structure NoAtt (s : Ctl) : Prop where
  empty : s.fatal = true → s.pending = []
  quiet : s.offeredAfterDisc = 0

theorem cinit_noatt (pb : Nat) : NoAtt { pb := pb } := NoAtt.mk (by intro h; cases h) (rfl)

theorem cstep_noatt (s s' : Ctl) (a : Act) (h : CInv s) (n : NoAtt s) (hs : cstep s a = some s') : NoAtt s' := by
  obtain ⟨hem, hno⟩ := n
  cases a with
  | coopCheck d =>
    simp only [cstep] at hs
    split at hs
    · cases hs
    · split at hs <;> (cases hs; exact ⟨by first | exact hem | (intro hf; cases hf), hno⟩)
  | coopGo o =>
    simp only [cstep] at hs
    split at hs
    · cases hs; exact ⟨by first | exact hem | (intro hf; cases hf), hno⟩
    · rename_i d hco
      obtain ⟨hp0, hd0⟩ := h.direct d hco
      have hf0 : s.fatal = false := fatal_false_of_live h.fat hd0
      simp only [hd0, hf0, Bool.false_eq_true, if_false] at hs
      cases o with
      | again => simp only [] at hs; cases hs; exact ⟨by first | exact hem | (intro hf; cases hf), hno⟩
      | fatal => simp only [] at hs; cases hs; exact ⟨fun _ => hp0, hno⟩
      | accept k =>
        simp only [] at hs
        split at hs <;> (cases hs; exact ⟨by first | exact hem | (intro hf; cases hf), hno⟩)
    · cases hs
  | coopEnq =>
    simp only [cstep] at hs
    split at hs
    · split at hs
      · cases hs
      · split at hs
        · cases hs; exact ⟨by first | exact hem | (intro hf; cases hf), hno⟩
        · rename_i hdisc
          have hd0 : s.disc = false := by simpa using hdisc
          have hf0 : s.fatal = false := fatal_false_of_live h.fat hd0
          cases hs
          exact ⟨by intro hf; simp only [enq] at hf; first | cases hf | (rw [hf0] at hf; cases hf) | (simp [hf0] at hf), hno⟩
    · cases hs
  | senderBegin =>
    simp only [cstep] at hs
    split at hs
    · cases hs; exact ⟨by first | exact hem | (intro hf; cases hf), hno⟩
    · cases hs
  | senderSend o =>
    simp only [cstep] at hs
    split at hs
    · cases hs
    · split at hs
      · cases hs; exact ⟨by first | exact hem | (intro hf; cases hf), hno⟩
      · rename_i d rest hpend
        have hf0 : s.fatal = false := by
          cases hf : s.fatal with
          | false => rfl
          | true => have := hem hf; rw [hpend] at this; cases this
        by_cases hdisc : s.disc = true
        · simp only [hdisc, hf0, Bool.false_eq_true, if_true, if_false] at hs
          cases hs
          exact ⟨fun _ => rfl, hno⟩
        · have hd0 : s.disc = false := by simpa using hdisc
          simp only [hd0, hf0, Bool.false_eq_true, if_false] at hs
          cases o with
          | again => simp only [] at hs; cases hs; exact ⟨by first | exact hem | (intro hf; cases hf), hno⟩
          | fatal => simp only [] at hs; cases hs; exact ⟨fun _ => rfl, hno⟩
          | accept k =>
            simp only [] at hs
            split at hs <;> (cases hs; exact ⟨by intro hf; first | cases hf | (rw [hf0] at hf; cases hf) | (simp [hf0] at hf), hno⟩)
  | senderFinish =>
    simp only [cstep] at hs
    split at hs
    · cases hs
    · split at hs <;> (cases hs; exact ⟨by first | exact hem | (intro hf; cases hf), hno⟩)
  | envEnq =>
    simp only [cstep] at hs
    split at hs
    · cases hs
    · cases hs; exact ⟨by first | exact hem | (intro hf; cases hf), hno⟩
  | envDone reset =>
    simp only [cstep] at hs
    split at hs
    · cases hs
    · split at hs <;> (cases hs; exact ⟨by first | exact hem | (intro hf; cases hf), hno⟩)
  | envDisc => simp only [cstep] at hs; cases hs; exact ⟨by first | exact hem | (intro hf; cases hf), hno⟩
  | coopDisc =>
    simp only [cstep] at hs
    split at hs
    · cases hs
    · cases hs; exact ⟨by first | exact hem | (intro hf; cases hf), hno⟩
  | senderPurge =>
    simp only [cstep] at hs
    split at hs
    · cases hs; exact ⟨fun _ => rfl, hno⟩
    · cases hs

theorem crun_noatt (acts : List Act) : ∀ (s : Ctl), CInv s → NoAtt s → NoAtt (crun s acts) := by
  induction acts with
  | nil => intro s _ n; exact n
  | cons a as ih =>
    intro s h n
    simp only [crun]
    cases hs : cstep s a with
    | none => simpa using ih s h n
    | some s' => simpa using ih s' (cstep_inv s s' a h hs) (cstep_noatt s s' a h n hs)

/-! ## Part C: every connection's view of a multi-connection history is a Part-B run -/

theorem crun_append (a b : List Act) : ∀ (s : Ctl), crun s (a ++ b) = crun (crun s a) b := by
  induction a with
  | nil => intro s; rfl
  | cons x xs ih => intro s; simp only [List.cons_append, crun]; exact ih _

/-- the view's state is what `crun` makes of the view's own action list from the initial state -/
def MOk (pb : Nat) (v : MView) : Prop := v.st = crun { pb := pb } v.trace

theorem app_ok (pb : Nat) (v : MView) (acts : List Act) (h : MOk pb v) : MOk pb (v.app acts) := by
  unfold MOk MView.app at *
  simp only [crun_append, ← h]

theorem appAll_ok (pb : Nat) (f : Nat → MView → List Act) : ∀ (vs : List MView) (i : Nat),
    (∀ v ∈ vs, MOk pb v) → ∀ v ∈ appAll f i vs, MOk pb v := by
  intro vs
  induction vs with
  | nil => intro i _ v hv; simp [appAll] at hv
  | cons x xs ih =>
    intro i h v hv
    simp only [appAll, List.mem_cons] at hv
    rcases hv with rfl | hv
    · exact app_ok pb x _ (h x (by simp))
    · exact ih (i + 1) (fun w hw => h w (by simp [hw])) v hv

theorem setClosed_ok (pb c : Nat) : ∀ (vs : List MView) (i : Nat),
    (∀ v ∈ vs, MOk pb v) → ∀ v ∈ setClosed c i vs, MOk pb v := by
  intro vs
  induction vs with
  | nil => intro i _ v hv; simp [setClosed] at hv
  | cons x xs ih =>
    intro i h v hv
    simp only [setClosed, List.mem_cons] at hv
    rcases hv with rfl | hv
    · have hx := h x (by simp)
      split
      · exact hx
      · exact hx
    · exact ih (i + 1) (fun w hw => h w (by simp [hw])) v hv

theorem setStamp_ok (pb c t : Nat) : ∀ (vs : List MView) (i : Nat),
    (∀ v ∈ vs, MOk pb v) → ∀ v ∈ setStamp c t i vs, MOk pb v := by
  intro vs
  induction vs with
  | nil => intro i _ v hv; simp [setStamp] at hv
  | cons x xs ih =>
    intro i h v hv
    simp only [setStamp, List.mem_cons] at hv
    rcases hv with rfl | hv
    · have hx := h x (by simp)
      split
      · exact hx
      · exact hx
    · exact ih (i + 1) (fun w hw => h w (by simp [hw])) v hv

theorem project_ok (pb : Nat) (vs : List MView) (c : Nat) (b a : Ctl) (h : ∀ v ∈ vs, MOk pb v) :
    ∀ v ∈ project vs c b a, MOk pb v := by
  unfold project; exact appAll_ok pb _ vs 0 h

theorem actOn_ok (pb : Nat) (vs : List MView) (c : Nat) (acts : List Act) (h : ∀ v ∈ vs, MOk pb v) :
    ∀ v ∈ actOn vs c acts, MOk pb v := by
  unfold actOn
  split
  · exact h
  · have h' := appAll_ok pb (fun i _ => if i = c then acts else []) vs 0 h
    simp only []
    split
    · exact h'
    · apply project_ok
      split
      · exact setStamp_ok pb c _ _ 0 h'
      · exact h'

theorem flushOne_ok (pb : Nat) (vs : List MView) (w : Nat × List Outcome) (h : ∀ v ∈ vs, MOk pb v) :
    ∀ v ∈ flushOne vs w, MOk pb v := by
  unfold flushOne
  split
  · exact h
  · split
    · exact h
    · exact actOn_ok pb vs _ _ h

theorem purgeOne_ok (pb : Nat) (vs : List MView) (c : Nat) (h : ∀ v ∈ vs, MOk pb v) :
    ∀ v ∈ purgeOne vs c, MOk pb v := by
  unfold purgeOne
  split
  · exact h
  · split
    · exact actOn_ok pb vs _ _ h
    · exact h

theorem foldl_ok {α : Type} (pb : Nat) (f : List MView → α → List MView)
    (hf : ∀ vs x, (∀ v ∈ vs, MOk pb v) → ∀ v ∈ f vs x, MOk pb v) :
    ∀ (xs : List α) (vs : List MView), (∀ v ∈ vs, MOk pb v) → ∀ v ∈ xs.foldl f vs, MOk pb v := by
  intro xs
  induction xs with
  | nil => intro vs h; exact h
  | cons x xs ih => intro vs h; exact ih (f vs x) (hf vs x h)

theorem mstep_ok (pb : Nat) (vs : List MView) (op : MOp) (h : ∀ v ∈ vs, MOk pb v) : ∀ v ∈ mstep vs op, MOk pb v := by
  cases op with
  | send c d o => exact actOn_ok pb vs c _ h
  | disc c close =>
    simp only [mstep]
    have h' := appAll_ok pb (fun i _ => if i = c then [Act.coopDisc] else [Act.envDisc]) vs 0 h
    split
    · exact setClosed_ok pb c _ 0 h'
    · exact h'
  | flush ws =>
    simp only [mstep]
    apply foldl_ok pb flushOne (fun vs x hx => flushOne_ok pb vs x hx)
    split
    · exact foldl_ok pb purgeOne (fun vs x hx => purgeOne_ok pb vs x hx) _ vs h
    · exact h

theorem minit_ok (pb n : Nat) : ∀ v ∈ minit pb n, MOk pb v := by
  intro v hv
  have := List.eq_of_mem_replicate hv
  subst this; rfl

/-- in every multi-connection history every connection's state is `crun` of that connection's own action list -/
theorem mrun_ok (pb n : Nat) (ops : List MOp) : ∀ v ∈ mrun pb n ops, MOk pb v :=
  foldl_ok pb mstep (fun vs x hx => mstep_ok pb vs x hx) ops (minit pb n) (minit_ok pb n)

/-! ## Part A over time: what the socket accepted is never retracted, the queued stream grows by exactly the message handed in -/

/-- bytes the operation hands to the send path -/
def Op.payload : Op → Bytes
  | .send d => d
  | .sendFast d _ => d
  | _ => []

theorem writeBuf_hist (s : St) (o : Outcome) :
    (∃ t, (writeBuf s o).accepted = s.accepted ++ t) ∧ (writeBuf s o).queued = s.queued ∧ (writeBuf s o).dropped = s.dropped := by
  unfold writeBuf
  simp only []
  split
  · split
    · exact ⟨⟨[], by simp [St.offer]⟩, rfl, rfl⟩
    · unfold St.took St.afterWrite
      split <;> exact ⟨⟨_, rfl⟩, rfl, rfl⟩
  · exact ⟨⟨[], by simp [St.offer]⟩, rfl, rfl⟩
  · exact ⟨⟨[], by simp [St.offer, St.fail]⟩, rfl, rfl⟩

theorem doSend_hist (s : St) (o : Outcome) :
    (∃ t, (doSend s o).accepted = s.accepted ++ t) ∧ (doSend s o).queued = s.queued ∧ (doSend s o).dropped = s.dropped := by
  unfold doSend
  split
  · exact ⟨⟨[], by simp⟩, rfl, rfl⟩
  · split
    · exact ⟨⟨[], by simp⟩, rfl, rfl⟩
    · exact writeBuf_hist s o

theorem doSendRaw_hist (s : St) (o : Outcome) :
    (∃ t, (doSendRaw s o).accepted = s.accepted ++ t) ∧ (doSendRaw s o).queued = s.queued ∧ (doSendRaw s o).dropped = s.dropped := by
  unfold doSendRaw
  split
  · exact ⟨⟨[], by simp⟩, rfl, rfl⟩
  · exact writeBuf_hist s o

theorem doRecv_hist (s : St) (rx : Rx) :
    (doRecv s rx).accepted = s.accepted ∧ (doRecv s rx).queued = s.queued ∧ (doRecv s rx).dropped = s.dropped := by
  cases rx
  · exact ⟨rfl, rfl, rfl⟩
  · show (if s.closed then s else _).accepted = _ ∧ (if s.closed then s else _).queued = _ ∧ (if s.closed then s else _).dropped = _
    cases s.closed <;> exact ⟨rfl, rfl, rfl⟩
  · show (if s.closed then s else _).accepted = _ ∧ (if s.closed then s else _).queued = _ ∧ (if s.closed then s else _).dropped = _
    cases s.closed <;> exact ⟨rfl, rfl, rfl⟩

theorem step_hist (s : St) (op : Op) :
    (∃ t, (step s op).accepted = s.accepted ++ t) ∧
    (((step s op).queued = s.queued ++ op.payload ∧ (step s op).dropped = s.dropped) ∨
     ((∃ d o, op = .sendFast d o) ∧ (step s op).queued = s.queued ∧ (step s op).dropped = s.dropped + 1)) := by
  show (∃ t, (step0 s op).accepted = s.accepted ++ t) ∧
    (((step0 s op).queued = s.queued ++ op.payload ∧ (step0 s op).dropped = s.dropped) ∨
     ((∃ d o, op = .sendFast d o) ∧ (step0 s op).queued = s.queued ∧ (step0 s op).dropped = s.dropped + 1))
  cases op with
  | shutdown => exact ⟨⟨[], by simp [step0]⟩, .inl ⟨by simp [step0, Op.payload], rfl⟩⟩
  | close => exact ⟨⟨[], by simp [step0, St.fail]⟩, .inl ⟨by simp [step0, St.fail, Op.payload], rfl⟩⟩
  | send d => exact ⟨⟨[], by simp [step0]⟩, .inl ⟨rfl, rfl⟩⟩
  | pump o =>
    obtain ⟨a, q, d⟩ := doSend_hist s o
    exact ⟨a, .inl ⟨by simpa [step0, Op.payload] using q, d⟩⟩
  | pumpRW rx o =>
    obtain ⟨ra, rq, rd⟩ := doRecv_hist s rx
    simp only [step0, Op.payload, List.append_nil]
    split
    · exact ⟨⟨[], by simp⟩, .inl ⟨rfl, rfl⟩⟩
    · split
      · obtain ⟨a, q, d⟩ := doSend_hist (doRecv s rx) o
        rw [ra] at a; rw [rq] at q; rw [rd] at d
        exact ⟨a, .inl ⟨q, d⟩⟩
      · obtain ⟨a, q, d⟩ := doSendRaw_hist (doRecv s rx) o
        rw [ra] at a; rw [rq] at q; rw [rd] at d
        exact ⟨a, .inl ⟨q, d⟩⟩
  | sendFast d o =>
    simp only [step0, Op.payload]
    split
    · split
      · split
        · exact ⟨⟨_, rfl⟩, .inl ⟨rfl, rfl⟩⟩
        · exact ⟨⟨_, rfl⟩, .inl ⟨rfl, rfl⟩⟩
      · exact ⟨⟨[], by simp [St.offer]⟩, .inl ⟨rfl, rfl⟩⟩
      · exact ⟨⟨[], by simp [St.offer]⟩, .inr ⟨⟨d, o, rfl⟩, rfl, rfl⟩⟩
    · exact ⟨⟨[], by simp⟩, .inl ⟨rfl, rfl⟩⟩

theorem run_snoc (ops : List Op) (op : Op) : run (ops ++ [op]) = step (run ops) op := by
  simp [run, List.foldl_append]


theorem foldl_accepted_mono (b : List Op) : ∀ s : St, ∃ t, (b.foldl step s).accepted = s.accepted ++ t := by
  induction b with
  | nil => intro s; exact ⟨[], by simp⟩
  | cons op b ih =>
    intro s
    obtain ⟨t1, h1⟩ := (step_hist s op).1
    obtain ⟨t2, h2⟩ := ih (step s op)
    exact ⟨t1 ++ t2, by simp only [List.foldl_cons, h2, h1, List.append_assoc]⟩

/-! ## Part B over time: in every interleaving the accepted stream and the queued stream only ever grow at the end -/

/-- extends: `y = x ++ t` for some `t` -/
def Ext (x y : Bytes) : Prop := ∃ t, y = x ++ t
theorem Ext.refl (x : Bytes) : Ext x x := ⟨[], by simp⟩
theorem Ext.app (x t : Bytes) : Ext x (x ++ t) := ⟨t, rfl⟩
theorem Ext.trans {x y z : Bytes} (h1 : Ext x y) (h2 : Ext y z) : Ext x z := by
  obtain ⟨a, rfl⟩ := h1; obtain ⟨b, rfl⟩ := h2; exact ⟨a ++ b, by simp⟩

theorem cstep_hist (s s' : Ctl) (a : Act) (hs : cstep s a = some s') :
    Ext s.accepted s'.accepted ∧ Ext s.queued s'.queued := by
  cases a with
  | coopCheck d =>
    simp only [cstep] at hs
    split at hs
    · cases hs
    · split at hs <;> (cases hs; first | exact ⟨Ext.refl _, Ext.refl _⟩ | exact ⟨Ext.refl _, Ext.app _ _⟩)
  | coopGo o =>
    simp only [cstep] at hs
    split at hs
    · cases hs; exact ⟨Ext.refl _, Ext.refl _⟩
    · split at hs
      · split at hs <;> (cases hs; split <;> first | exact ⟨Ext.app _ _, Ext.refl _⟩ | exact ⟨Ext.refl _, Ext.refl _⟩)
      · cases hs; split <;> exact ⟨Ext.refl _, Ext.refl _⟩
      · cases hs; split <;> exact ⟨Ext.refl _, Ext.refl _⟩
    · cases hs
  | coopEnq =>
    simp only [cstep] at hs
    split at hs
    · split at hs
      · cases hs
      · split at hs <;> (cases hs; exact ⟨Ext.refl _, Ext.refl _⟩)
    · cases hs
  | senderBegin =>
    simp only [cstep] at hs
    split at hs <;> (cases hs; try exact ⟨Ext.refl _, Ext.refl _⟩)
  | senderSend o =>
    simp only [cstep] at hs
    split at hs
    · cases hs
    · split at hs
      · cases hs; exact ⟨Ext.refl _, Ext.refl _⟩
      · split at hs
        · split at hs <;> (cases hs; split <;> first | exact ⟨Ext.app _ _, Ext.refl _⟩ | exact ⟨Ext.refl _, Ext.refl _⟩)
        · cases hs; split <;> exact ⟨Ext.refl _, Ext.refl _⟩
        · cases hs; split <;> exact ⟨Ext.refl _, Ext.refl _⟩
  | senderFinish =>
    simp only [cstep] at hs
    split at hs
    · cases hs
    · split at hs <;> (cases hs; exact ⟨Ext.refl _, Ext.refl _⟩)
  | envEnq =>
    simp only [cstep] at hs
    split at hs <;> (cases hs; try exact ⟨Ext.refl _, Ext.refl _⟩)
  | envDone r =>
    simp only [cstep] at hs
    split at hs
    · cases hs
    · split at hs <;> (cases hs; exact ⟨Ext.refl _, Ext.refl _⟩)
  | envDisc => cases hs; exact ⟨Ext.refl _, Ext.refl _⟩
  | coopDisc =>
    simp only [cstep] at hs
    split at hs <;> (cases hs; try exact ⟨Ext.refl _, Ext.refl _⟩)
  | senderPurge =>
    simp only [cstep] at hs
    split at hs <;> (cases hs; try exact ⟨Ext.refl _, Ext.refl _⟩)

theorem crun_hist (acts : List Act) : ∀ s : Ctl, Ext s.accepted (crun s acts).accepted ∧ Ext s.queued (crun s acts).queued := by
  induction acts with
  | nil => intro s; exact ⟨Ext.refl _, Ext.refl _⟩
  | cons a as ih =>
    intro s
    show Ext s.accepted (crun ((cstep s a).getD s) as).accepted ∧ Ext s.queued (crun ((cstep s a).getD s) as).queued
    cases h : cstep s a with
    | none => exact ih s
    | some s' =>
      have h1 := cstep_hist s s' a h
      have h2 := ih s'
      exact ⟨h1.1.trans h2.1, h1.2.trans h2.2⟩
/-! ## Part A: closed is final -/

theorem step_closed (s : St) (op : Op) (hc : s.closed = true) (hg : s.guardClosed = true) :
    (step s op).closed = true ∧ (step s op).offered = s.offered ∧ (step s op).accepted = s.accepted ∧
    (step s op).closeEvents = s.closeEvents := by
  show (step0 s op).closed = true ∧ (step0 s op).offered = s.offered ∧ (step0 s op).accepted = s.accepted ∧
    (step0 s op).closeEvents = s.closeEvents
  cases op with
  | shutdown => exact ⟨hc, rfl, rfl, rfl⟩
  | close => simp [step0, St.fail, hc]
  | send d => exact ⟨hc, rfl, rfl, rfl⟩
  | pump o => simp [step0, doSend, hc]
  | pumpRW rx o => simp [step0, hc]
  | sendFast d o => simp [step0, hc]

theorem foldl_closed (b : List Op) : ∀ s : St, s.closed = true → s.guardClosed = true →
    (b.foldl step s).closed = true ∧ (b.foldl step s).offered = s.offered ∧ (b.foldl step s).accepted = s.accepted ∧
    (b.foldl step s).closeEvents = s.closeEvents := by
  induction b with
  | nil => intro s hc _; exact ⟨hc, rfl, rfl, rfl⟩
  | cons op b ih =>
    intro s hc hg
    obtain ⟨c1, o1, a1, e1⟩ := step_closed s op hc hg
    obtain ⟨c2, o2, a2, e2⟩ := ih (step s op) c1 (by rw [step_guard]; exact hg)
    exact ⟨c2, by rw [List.foldl_cons, o2, o1], by rw [List.foldl_cons, a2, a1], by rw [List.foldl_cons, e2, e1]⟩

theorem run_guard (ops : List Op) : (run ops).guardClosed = true := by
  have : ∀ s : St, s.guardClosed = true → (ops.foldl step s).guardClosed = true := by
    induction ops with
    | nil => intro s h; exact h
    | cons op ops ih => intro s h; exact ih _ (by rw [step_guard]; exact h)
  exact this {} rfl
/-! ## Part C over time: every connection's view only ever moves forward through `crun` -/

/-- view `v'` is view `v` after some more actions -/
def VG (v v' : MView) : Prop := ∃ acts, v'.st = crun v.st acts
/-- the views grew, index by index -/
inductive Grows : List MView → List MView → Prop
  | nil : Grows [] []
  | cons {v v' : MView} {vs vs' : List MView} : VG v v' → Grows vs vs' → Grows (v :: vs) (v' :: vs')

theorem VG.refl (v : MView) : VG v v := ⟨[], rfl⟩
theorem VG.trans {a b c : MView} (h1 : VG a b) (h2 : VG b c) : VG a c := by
  obtain ⟨x, hx⟩ := h1; obtain ⟨y, hy⟩ := h2
  exact ⟨x ++ y, by rw [hy, hx, crun_append]⟩
theorem Grows.refl : ∀ vs : List MView, Grows vs vs
  | [] => .nil
  | v :: vs => .cons (VG.refl v) (Grows.refl vs)
theorem Grows.trans : ∀ {a b c : List MView}, Grows a b → Grows b c → Grows a c
  | _, _, _, .nil, .nil => .nil
  | _, _, _, .cons h1 t1, .cons h2 t2 => .cons (h1.trans h2) (Grows.trans t1 t2)

theorem appAll_grows (f : Nat → MView → List Act) : ∀ (vs : List MView) (i : Nat), Grows vs (appAll f i vs)
  | [], _ => .nil
  | v :: vs, i => .cons ⟨f i v, rfl⟩ (appAll_grows f vs (i + 1))
theorem setClosed_grows (c : Nat) : ∀ (vs : List MView) (i : Nat), Grows vs (setClosed c i vs)
  | [], _ => .nil
  | v :: vs, i => .cons (by unfold VG; split <;> exact ⟨[], rfl⟩) (setClosed_grows c vs (i + 1))
theorem setStamp_grows (c t : Nat) : ∀ (vs : List MView) (i : Nat), Grows vs (setStamp c t i vs)
  | [], _ => .nil
  | v :: vs, i => .cons (by unfold VG; split <;> exact ⟨[], rfl⟩) (setStamp_grows c t vs (i + 1))

theorem project_grows (vs : List MView) (c : Nat) (b a : Ctl) : Grows vs (project vs c b a) := appAll_grows _ vs 0

theorem actOn_grows (vs : List MView) (c : Nat) (acts : List Act) : Grows vs (actOn vs c acts) := by
  unfold actOn
  split
  · exact Grows.refl vs
  · have h1 := appAll_grows (fun i _ => if i = c then acts else []) vs 0
    simp only []
    split
    · exact h1
    · split
      · exact h1.trans ((setStamp_grows c _ _ 0).trans (project_grows _ c _ _))
      · exact h1.trans (project_grows _ c _ _)

theorem flushOne_grows (vs : List MView) (w : Nat × List Outcome) : Grows vs (flushOne vs w) := by
  unfold flushOne
  split
  · exact Grows.refl vs
  · split
    · exact Grows.refl vs
    · exact actOn_grows vs _ _

theorem purgeOne_grows (vs : List MView) (c : Nat) : Grows vs (purgeOne vs c) := by
  unfold purgeOne
  split
  · exact Grows.refl vs
  · split
    · exact actOn_grows vs _ _
    · exact Grows.refl vs

theorem foldl_grows {α : Type} (f : List MView → α → List MView) (hf : ∀ vs x, Grows vs (f vs x)) :
    ∀ (xs : List α) (vs : List MView), Grows vs (xs.foldl f vs)
  | [], vs => Grows.refl vs
  | x :: xs, vs => (hf vs x).trans (foldl_grows f hf xs (f vs x))

theorem mstep_grows (vs : List MView) (op : MOp) : Grows vs (mstep vs op) := by
  cases op with
  | send c d o => exact actOn_grows vs c _
  | disc c close =>
    simp only [mstep]
    split
    · exact (appAll_grows _ vs 0).trans (setClosed_grows c _ 0)
    · exact appAll_grows _ vs 0
  | flush ws =>
    simp only [mstep]
    split
    · exact (foldl_grows purgeOne purgeOne_grows _ vs).trans (foldl_grows flushOne flushOne_grows _ _)
    · exact foldl_grows flushOne flushOne_grows _ _

theorem mrun_grows (pb n : Nat) (a b : List MOp) : Grows (mrun pb n a) (mrun pb n (a ++ b)) := by
  simp only [mrun, List.foldl_append]
  exact foldl_grows mstep mstep_grows b _

theorem Grows.get : ∀ {vs vs' : List MView}, Grows vs vs' → ∀ (i : Nat) (v : MView), vs[i]? = some v →
    ∃ v', vs'[i]? = some v' ∧ VG v v'
  | _, _, .nil, i, v, h => by simp at h
  | _, _, .cons hv ht, 0, v, h => by
    simp only [List.getElem?_cons_zero, Option.some.injEq] at h
    subst h; exact ⟨_, by simp, hv⟩
  | _, _, .cons hv ht, i + 1, v, h => by
    simp only [List.getElem?_cons_succ] at h ⊢
    exact Grows.get ht i v h

theorem VG.hist {v v' : MView} (h : VG v v') : Ext v.st.accepted v'.st.accepted ∧ Ext v.st.queued v'.st.queued := by
  obtain ⟨acts, ha⟩ := h
  rw [ha]; exact crun_hist acts v.st
end Pox.SendPath
