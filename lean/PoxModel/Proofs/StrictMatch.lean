import PoxModel.Proofs.MatchSubsume
import PoxModel.Proofs.Overlap
import PoxModel.Model.FlowMod
set_option linter.unusedSimpArgs false
/-! `eqMatch (ofWire a) (ofWire b)` — `ofp_match.__eq__` on two matches received in flow-mods, the test of the strict commands —
is the standard-level "identical header fields" `Spec.identical a b` (each description subsumes the other), for transmitted
matches that are regular (`MatchOk`).  Core only. -/
namespace Pox.OF
open OfMatch

theorem eqMatch_of_parts {a b : OfMatch} (hw : a.wildcards = b.wildcards) (hv : ∀ f, a.view f = b.view f)
    (hs : a.srcView.map (·.1) = b.srcView.map (·.1)) (hd : a.dstView.map (·.1) = b.dstView.map (·.1)) : eqMatch a b = true := by
  simp only [eqMatch, Bool.and_eq_true, beq_iff_eq, List.all_eq_true]
  exact ⟨⟨⟨hw, fun f _ => hv f⟩, hs⟩, hd⟩

theorem eqMatch_symm {a b : OfMatch} (h : eqMatch a b = true) : eqMatch b a = true := by
  obtain ⟨hw, hv, hs, hd⟩ := eqMatch_parts h
  exact eqMatch_of_parts hw.symm (fun f => (hv f).symm) hs.symm hd.symm

theorem eqMatch_comm (a b : OfMatch) : eqMatch a b = eqMatch b a := by
  rw [Bool.eq_iff_iff]; exact ⟨eqMatch_symm, eqMatch_symm⟩

theorem eqMatch_refl (a : OfMatch) : eqMatch a a = true := eqMatch_of_parts rfl (fun _ => rfl) rfl rfl

theorem matchesWith_of_eqMatch {a b : OfMatch} (c : Bool) (h : eqMatch a b = true) : matchesWith c a b = true := by
  unfold matchesWith; simp [h]

theorem testBit_of_cnt (sh w i : Nat) (h1 : sh ≤ i) (h2 : i < sh + 6) : w.testBit i = (cnt sh w).testBit (i - sh) := by
  have h3 : i - sh < 6 := by omega
  have h4 : sh + (i - sh) = i := by omega
  simp only [cnt, Nat.testBit_mod_two_pow, Nat.testBit_shiftRight, h3, decide_true, Bool.true_and, h4]

/-- the wildcard word is determined by its flag part and the two counters -/
theorem wildcards_ext (x y : Nat) (hf : flagBits x = flagBits y) (hs : srcCnt x = srcCnt y) (hd : dstCnt x = dstCnt y) : x = y := by
  apply Nat.eq_of_testBit_eq
  intro i
  by_cases h : 8 ≤ i ∧ i < 20
  · by_cases h2 : i < 14
    · rw [testBit_of_cnt 8 x i h.1 (by omega), testBit_of_cnt 8 y i h.1 (by omega), ← srcCnt_eq, ← srcCnt_eq, hs]
    · rw [testBit_of_cnt 14 x i (by omega) (by omega), testBit_of_cnt 14 y i (by omega) (by omega), ← dstCnt_eq, ← dstCnt_eq, hd]
  · have := congrArg (fun n => n.testBit i) hf
    simpa [flagBits_testBit, h] using this

theorem wild_of_flagBits {x y : OfMatch} (hf : flagBits x.wildcards = flagBits y.wildcards) (f : Fld) : x.wild f = y.wild f := by
  have := congrArg (fun n => n.testBit f.bit) hf
  have hr := Fld.bit_range f
  have hn : ¬ (8 ≤ f.bit ∧ f.bit < 20) := by omega
  simpa [flagBits_testBit, hn, wild] using this

theorem addr_eq_of_prefix {k a b : Nat} (h : a / 2 ^ k = b / 2 ^ k) (ha : a % 2 ^ k = 0) (hb : b % 2 ^ k = 0) : a = b := by
  have e1 := Nat.div_add_mod a (2 ^ k)
  have e2 := Nat.div_add_mod b (2 ^ k)
  rw [ha, h] at e1
  rw [hb] at e2
  omega

/-- two match objects that encompass each other are equal (`__eq__`), provided their counters are normalised and their addresses
    carry no bits below the prefix -/
theorem eqMatch_of_mutual (x y : OfMatch)
    (nsx : srcCnt x.wildcards ≤ 32) (ndx : dstCnt x.wildcards ≤ 32) (nsy : srcCnt y.wildcards ≤ 32) (ndy : dstCnt y.wildcards ≤ 32)
    (hsx : srcCnt x.wildcards < 32 → x.nwSrc % 2 ^ srcCnt x.wildcards = 0)
    (hdx : dstCnt x.wildcards < 32 → x.nwDst % 2 ^ dstCnt x.wildcards = 0)
    (hsy : srcCnt y.wildcards < 32 → y.nwSrc % 2 ^ srcCnt y.wildcards = 0)
    (hdy : dstCnt y.wildcards < 32 → y.nwDst % 2 ^ dstCnt y.wildcards = 0)
    (h1 : matchesWith true x y = true) (h2 : matchesWith true y x = true) : eqMatch x y = true := by
  rw [matchesWith_true] at h1 h2
  simp only [Bool.and_eq_true, beq_iff_eq, Bool.not_eq_true', List.any_eq_false] at h1 h2
  obtain ⟨⟨⟨f1, g1⟩, s1⟩, d1⟩ := h1
  obtain ⟨⟨⟨f2, g2⟩, s2⟩, d2⟩ := h2
  have hf : flagBits x.wildcards = flagBits y.wildcards := by rw [← f1, Nat.or_comm, f2]
  -- counters
  simp only [srcView, dstView] at s1 s2 d1 d2
  rw [nwFail_views _ _ _ _ nsx nsy] at s1
  rw [nwFail_views _ _ _ _ nsy nsx] at s2
  rw [nwFail_views _ _ _ _ ndx ndy] at d1
  rw [nwFail_views _ _ _ _ ndy ndx] at d2
  simp only [Spec.PSub, Bool.not_eq_false', Bool.and_eq_true, decide_eq_true_eq] at s1 s2 d1 d2
  have hsc : srcCnt x.wildcards = srcCnt y.wildcards := by omega
  have hdc : dstCnt x.wildcards = dstCnt y.wildcards := by omega
  have hw : x.wildcards = y.wildcards := wildcards_ext _ _ hf hsc hdc
  apply eqMatch_of_parts hw
  · intro f
    have hwf := wild_of_flagBits hf f
    have := g1 f (Fld.mem_all f)
    unfold fieldFail at this
    unfold view
    rw [← hwf] at this ⊢
    cases hq : x.wild f
    · simp only [hq, Bool.not_false, Bool.false_or, Bool.true_and, bne_eq_false_iff_eq] at this
      have : x.get f = y.get f := by simpa using this
      simp [this]
    · simp
  · simp only [srcView, nwView, ← hsc]
    by_cases h32 : 32 ≤ srcCnt x.wildcards
    · simp [h32]
    · have hp := s1.2
      simp only [Spec.prefixEq, Bool.or_eq_true, decide_eq_true_eq, beq_iff_eq, h32, false_or] at hp
      have := addr_eq_of_prefix hp (hsx (by omega)) (by rw [hsc]; exact hsy (by omega))
      simp [h32, this]
  · simp only [dstView, nwView, ← hdc]
    by_cases h32 : 32 ≤ dstCnt x.wildcards
    · simp [h32]
    · have hp := d1.2
      simp only [Spec.prefixEq, Bool.or_eq_true, decide_eq_true_eq, beq_iff_eq, h32, false_or] at hp
      have := addr_eq_of_prefix hp (hdx (by omega)) (by rw [hdc]; exact hdy (by omega))
      simp [h32, this]

/-- hypotheses on a transmitted match under which the code treats it as the standard says, as far as subsumption, overlap,
    lookup and rank go (each excluded class is an open C03 finding with a `…_defect` witness in `Properties/C03`: D38
    `PrereqExact`, D36 ToS/ECN bits, D26 `exactL4`; `width`: `undefined_bits_defect` in `Properties/C04`) -/
structure MatchCore (r : OfMatch) : Prop where
  prereq : PrereqExact r
  tos : r.nwTos % 4 = 0
  /-- none of the undefined bits 22..31 of the wildcard word -/
  width : r.wildcards < 2 ^ 22

/-- … and, for the strict test `==` of the unrepaired code, no address bits below the prefix length
    (`strict_hostbits_defect` in `Properties/C04`) -/
structure MatchOk (r : OfMatch) : Prop extends MatchCore r where
  hostSrc : Spec.srcIgn r < 32 → r.nwSrc % 2 ^ Spec.srcIgn r = 0
  hostDst : Spec.dstIgn r < 32 → r.nwDst % 2 ^ Spec.dstIgn r = 0

/-- non-strict MODIFY / DELETE: the code's test is the standard's subsumption -/
theorem subsumes_code (a b : OfMatch) (ha : MatchCore a) (hb : MatchCore b) :
    matchesWith true (ofWire a) (ofWire b) = Spec.subsumes a b :=
  code_subsumes a b ha.prereq hb.prereq ha.tos hb.tos hb.width

/-- strict commands and ADD's replacement: the code's `==` is the standard's "identical header fields" -/
theorem strict_iff (a b : OfMatch) (ha : MatchOk a) (hb : MatchOk b) :
    eqMatch (ofWire a) (ofWire b) = Spec.identical a b := by
  rw [Bool.eq_iff_iff]
  simp only [Spec.identical, Bool.and_eq_true, ← subsumes_code a b ha.toMatchCore hb.toMatchCore,
    ← subsumes_code b a hb.toMatchCore ha.toMatchCore]
  constructor
  · intro h
    exact ⟨matchesWith_of_eqMatch true h, matchesWith_of_eqMatch true (eqMatch_symm h)⟩
  · rintro ⟨h1, h2⟩
    have sa := srcIgn_agree a ha.prereq
    have da := dstIgn_agree a ha.prereq
    have sb := srcIgn_agree b hb.prereq
    have db := dstIgn_agree b hb.prereq
    apply eqMatch_of_mutual _ _ _ _ _ _ _ _ _ _ h1 h2
    · rw [sa]; exact Spec.srcIgn_le a
    · rw [da]; exact Spec.dstIgn_le a
    · rw [sb]; exact Spec.srcIgn_le b
    · rw [db]; exact Spec.dstIgn_le b
    · rw [sa]; exact ha.hostSrc
    · rw [da]; exact ha.hostDst
    · rw [sb]; exact hb.hostSrc
    · rw [db]; exact hb.hostDst

/-! ### CHECK_OVERLAP: `_matches_overlap` is the standard's overlap -/
open Pox.FlowMod

theorem ofWire_view (r : OfMatch) (hp : PrereqExact r) (f : Fld) :
    (ofWire r).view f = if Spec.significant r f.bit = true then some (r.get f) else none := by
  have h := sig_agree r hp f
  unfold view
  rw [ofWire_get]
  cases hw : (ofWire r).wild f <;> simp [hw] at h <;> simp [← h]

theorem viewOverlap_wire (a b : OfMatch) (ha : PrereqExact a) (hb : PrereqExact b) (f : Fld) :
    viewOverlap ((ofWire a).view f) ((ofWire b).view f) =
      Spec.FCompat (Spec.significant a f.bit) (Spec.significant b f.bit) (a.get f) (b.get f) := by
  rw [ofWire_view a ha, ofWire_view b hb]
  cases Spec.significant a f.bit <;> cases Spec.significant b f.bit <;> simp [viewOverlap, Spec.FCompat]

theorem nwOverlap_views (ca cb x y : Nat) (ha : ca ≤ 32) (hb : cb ≤ 32) :
    nwOverlap (nwView ca x) (nwView cb y) = Spec.prefixEq (max ca cb) x y := by
  unfold nwView Spec.prefixEq
  by_cases h1 : 32 ≤ ca
  · have : 32 ≤ max ca cb := Nat.le_trans h1 (Nat.le_max_left _ _)
    simp [h1, nwOverlap, this]
  · by_cases h2 : 32 ≤ cb
    · have : 32 ≤ max ca cb := Nat.le_trans h2 (Nat.le_max_right _ _)
      simp [h1, h2, nwOverlap, this]
    · have hm : ¬ 32 ≤ max ca cb := by
        have : max ca cb = ca ∨ max ca cb = cb := by
          rcases Nat.le_total ca cb with h | h
          · exact .inr (Nat.max_eq_right h)
          · exact .inl (Nat.max_eq_left h)
        rcases this with h | h <;> rw [h] <;> assumption
      have e : 32 - min (32 - ca) (32 - cb) = max ca cb := by
        rcases Nat.le_total ca cb with h | h
        · rw [Nat.max_eq_right h, Nat.min_eq_right (by omega)]; omega
        · rw [Nat.max_eq_left h, Nat.min_eq_left (by omega)]; omega
      simp only [h1, h2, if_false, nwOverlap, e, hm, decide_false, Bool.false_or]
      rw [Bool.eq_iff_iff]
      simp only [beq_iff_eq, clearLow_eq_iff]

theorem FCompat_tos (sa sb : Bool) (x y : Nat) (hx : x % 4 = 0) (hy : y % 4 = 0) :
    Spec.FCompat sa sb x y = Spec.FCompat sa sb (x / 4) (y / 4) := by
  have : (x == y) = (x / 4 == y / 4) := by
    rw [Bool.eq_iff_iff]; simp only [beq_iff_eq]; omega
  simp [Spec.FCompat, this]

/-- CHECK_OVERLAP: the (repaired) code's test on two matches received in flow-mods is the standard's overlap relation -/
theorem code_overlaps (a b : OfMatch) (ha : PrereqExact a) (hb : PrereqExact b) (ta : a.nwTos % 4 = 0) (tb : b.nwTos % 4 = 0) :
    overlapsWith (ofWire a) (ofWire b) = Spec.overlaps a b := by
  rw [Spec.overlaps_eq]
  unfold overlapsWith
  simp only [Fld.all, List.all_cons, List.all_nil, Bool.and_true, viewOverlap_wire a b ha hb]
  simp only [srcView, dstView, srcIgn_agree a ha, srcIgn_agree b hb, dstIgn_agree a ha, dstIgn_agree b hb]
  rw [nwOverlap_views _ _ _ _ (Spec.srcIgn_le a) (Spec.srcIgn_le b), nwOverlap_views _ _ _ _ (Spec.dstIgn_le a) (Spec.dstIgn_le b)]
  simp only [OfMatch.get, Fld.bit]
  rw [FCompat_tos _ _ _ _ ta tb]
  have hs : (ofWire a).nwSrc = a.nwSrc := rfl
  have hs' : (ofWire b).nwSrc = b.nwSrc := rfl
  have hd : (ofWire a).nwDst = a.nwDst := rfl
  have hd' : (ofWire b).nwDst = b.nwDst := rfl
  rw [hs, hs', hd, hd']
  simp only [Spec.W_IN_PORT, Spec.W_DL_SRC, Spec.W_DL_DST, Spec.W_DL_VLAN, Spec.W_DL_VLAN_PCP, Spec.W_DL_TYPE, Spec.W_NW_TOS,
    Spec.W_NW_PROTO, Spec.W_TP_SRC, Spec.W_TP_DST]
  ac_rfl

/-- the strict test of the repaired code (C04-1): "each encompasses the other" is the standard's "identical header fields",
    whatever bits the addresses carry below the prefix -/
theorem mutual_iff (a b : OfMatch) (ha : MatchCore a) (hb : MatchCore b) :
    (matchesWith true (ofWire b) (ofWire a) && matchesWith true (ofWire a) (ofWire b)) = Spec.identical a b := by
  rw [subsumes_code a b ha hb, subsumes_code b a hb ha, Spec.identical, Bool.and_comm]

theorem overlaps_code (a b : OfMatch) (ha : MatchCore a) (hb : MatchCore b) : overlapsWith (ofWire a) (ofWire b) = Spec.overlaps a b :=
  code_overlaps a b ha.prereq hb.prereq ha.tos hb.tos

end Pox.OF
