import PoxModel.Proofs.Handoff
/-! # C07: the wake-up channels (`wake_noticed`) and the ready queue under `schedule()` (`schedule_atmost1`) -/
namespace Pox.Handoff

/-! ## hub mode -/

structure InvW (s : State) : Prop where
  thr : s.threaded = true → ∀ p, s.s ≠ .hub p
  inl : s.threaded = false → s.h = .off ∧ s.s ≠ .idleWait ∧ s.s ≠ .idleClear

theorem stepS_W {s s' : State} (h : InvW s) (hs : stepS s = some s') : InvW s' := by
  obtain ⟨h1, h2⟩ := h
  s_cases hs s hpc
  all_goals first
    | (refine ⟨fun ht p hp => ?_, fun ht => ⟨(h2 ht).1, ?_, ?_⟩⟩ <;> first
        | (cases hp; done)
        | (intro hp; cases hp; done)
        | (exact absurd hpc (h1 ht _))
        | (have := (h2 ht).2.1; rw [hpc] at this; exact absurd rfl this)
        | (have := (h2 ht).2.2; rw [hpc] at this; exact absurd rfl this)
        | (rename_i hthr; dsimp only at ht; rw [ht] at hthr; cases hthr)
        | (rename_i hthr; dsimp only at ht; simp [ht] at hthr))
    | skip

theorem stepH_W {s s' : State} (h : InvW s) (hs : stepH s = some s') : InvW s' := by
  obtain ⟨h1, h2⟩ := h
  h_cases hs s hpc
  all_goals (refine ⟨h1, fun ht => ?_⟩; have := (h2 ht).1; rw [hpc] at this; cases this)

theorem stepF_W {s s' : State} {i : Nat} (h : InvW s) (hs : stepF s i = some s') : InvW s' := by
  obtain ⟨h1, h2⟩ := h
  f_cases hs s i f hf hpc
  all_goals exact ⟨h1, h2⟩

theorem stepT_W {s s' : State} {t : Tid} (h : InvW s) (hs : stepT s t = some s') : InvW s' := by
  obtain ⟨h1, h2⟩ := h
  t_cases hs s t hpc
  all_goals first
    | exact ⟨h1, h2⟩
    | (refine ⟨fun ht p hp => ?_, fun ht => ⟨(h2 ht).1, ?_, ?_⟩⟩ <;> first
        | (cases hp; done)
        | (intro hp; cases hp; done)
        | (have := (h2 ht).2.1; rw [hpc] at this; exact absurd rfl this))

theorem init_W (threaded : Bool) (users : List (List UItem)) (progs : List (List Op)) :
    InvW (Handoff.init threaded users progs) := by
  refine ⟨?_, ?_⟩
  · intro _ p hp; cases hp
  · intro ht
    refine ⟨?_, ?_, ?_⟩
    · simp only [Handoff.init] at ht ⊢; simp [ht]
    · intro hp; cases hp
    · intro hp; cases hp

theorem reach_W {threaded users progs} {s : State} (hr : Reachable threaded users progs s) : InvW s :=
  hr.induct (init_W _ _ _) (fun _ _ _ h hs => stepS_W h hs) (fun _ _ _ h hs => stepH_W h hs)
    (fun _ _ _ _ h hs => stepF_W h hs) (fun _ _ _ _ h hs => stepT_W h hs)

/-! ## wake-up channels -/

def isSigB : FPc → Bool
  | .fsp _ _ .signal => true
  | _ => false

/-- some thread's next action is the wake-up signal of `break_idle` (`Event.set` / hub-pinger ping) -/
def sigP (h : HPc) (fs : List FThread) : Prop :=
  (∃ t, h = .hub (.ret t .signal)) ∨ (∃ (i : Nat) (f : FThread), fs[i]? = some f ∧ isSigB f.pc = true)

/-- some thread's next action is the ping of `CallLaterTask.callLater` -/
def pingP (fs : List FThread) : Prop := ∃ (i : Nat) (f : FThread), fs[i]? = some f ∧ f.pc = FPc.clPing

/-- the CallLaterTask is inside its drain loop (it will look at the deque again before it sleeps) — or the scheduler
    thread's own next action is the ping of a hand-over made by cooperative code -/
def draining : SPc → Bool
  | .cltPop _ | .cltCall _ _ | .ucPing _ => true
  | _ => false

/-- the hub runner is in the loop that empties `_incoming` (it looks at the queue again before it leaves) -/
def hubDrainB : HubPc → Bool
  | .empty _ | .get _ => true
  | _ => false

def drainS : SPc → Bool
  | .hub p => hubDrainB p
  | _ => false

def drainH : HPc → Bool
  | .hub p => hubDrainB p
  | _ => false

/-- the scheduler thread's next action is the hub ping of `registerSelect` — or it died of an assertion in `_select` -/
def sPingOrDead : SPc → Bool
  | .rsPing _ | .crashed => true
  | _ => false

structure InvN (s : State) : Prop where
  evt : s.s = .idleWait → s.ready ≠ [] → s.event = true ∨ sigP s.h s.fs
  pip : s.s = .hub .select → s.ready ≠ [] → s.hubPipe > 0 ∨ sigP s.h s.fs
  cal : s.calls ≠ [] → s.cltPipe > 0 ∨ pingP s.fs ∨ draining s.s = true

/-- the hub's own `_incoming` queue: what `registerSelect` put there is followed by a ping -/
def IncOk (s : State) : Prop :=
  s.incoming ≠ [] → s.hubPipe > 0 ∨ sPingOrDead s.s = true ∨ drainS s.s = true ∨ drainH s.h = true ∨ s.h = .crashed

theorem stepS_N {s s' : State} (h : InvN s) (hs : stepS s = some s') : InvN s' := by
  obtain ⟨h1, h2, h3⟩ := h
  s_cases hs s hpc
  all_goals refine ⟨fun hp hr => ?_, fun hp hr => ?_, fun hc => ?_⟩
  all_goals first
    | (cases hp; done)
    | (exact absurd (by assumption) hr)
    | (exact absurd (by assumption) hc)
    | exact Or.inr (Or.inr rfl)
    | (refine Or.inl ?_; dsimp only; omega)
    | (rcases h3 hc with h | h | h <;> first
        | exact Or.inl h
        | exact Or.inr (Or.inl h)
        | (simp [draining, hpc] at h; done))

theorem sigP_h {h h' : HPc} {fs : List FThread} (hold : ∀ t, h ≠ .hub (.ret t .signal)) (hp : sigP h fs) : sigP h' fs := by
  rcases hp with ⟨t, ht⟩ | hf
  · exact absurd ht (hold t)
  · exact Or.inr hf

theorem stepH_N {s s' : State} (hw : InvW s) (h : InvN s) (hs : stepH s = some s') : InvN s' := by
  obtain ⟨h1, h2, h3⟩ := h
  have hpip : ∀ p, s.h = .hub p → s.s ≠ .hub .select := by
    intro p hp hsel
    cases ht : s.threaded with
    | true => exact hw.thr ht _ hsel
    | false => have := (hw.inl ht).1; rw [hp] at this; cases this
  have hevt : s.threaded = false → s.s ≠ .idleWait := fun ht => (hw.inl ht).2.1
  h_cases hs s hpc
  all_goals refine ⟨fun hp hr => ?_, fun hp hr => absurd hp (hpip _ hpc), h3⟩
  all_goals first
    | exact Or.inl rfl
    | exact Or.inr (Or.inl ⟨_, rfl⟩)
    | (rename_i hthr; exact absurd hp (hevt (by simpa using hthr)))
    | (rcases h1 hp hr with h | h
       · exact Or.inl h
       · exact Or.inr (sigP_h (by intro t ht; rw [hpc] at ht; cases ht) h))

theorem set_self {α} {l : List α} {i : Nat} {a b : α} (hi : l[i]? = some b) : (l.set i a)[i]? = some a := by
  simp [List.getElem?_set, getElem?_lt hi]

theorem sigP_set {h : HPc} {fs : List FThread} {i : Nat} {f f' : FThread} (hf : fs[i]? = some f)
    (hns : isSigB f.pc = false) (hp : sigP h fs) : sigP h (fs.set i f') := by
  rcases hp with ht | ⟨j, g, hg, hs⟩
  · exact Or.inl ht
  · by_cases hij : j = i
    · subst hij; rw [hf] at hg; cases hg; rw [hns] at hs; cases hs
    · exact Or.inr ⟨j, g, by rw [List.getElem?_set]; simp [Ne.symm hij, hg], hs⟩

theorem pingP_set {fs : List FThread} {i : Nat} {f f' : FThread} (hf : fs[i]? = some f)
    (hns : f.pc ≠ .clPing) (hp : pingP fs) : pingP (fs.set i f') := by
  obtain ⟨j, g, hg, hs⟩ := hp
  by_cases hij : j = i
  · subst hij; rw [hf] at hg; cases hg; exact absurd hs hns
  · exact ⟨j, g, by rw [List.getElem?_set]; simp [Ne.symm hij, hg], hs⟩

theorem stepF_N {s s' : State} {i : Nat} (hw : InvW s) (h : InvN s) (hs : stepF s i = some s') : InvN s' := by
  obtain ⟨h1, h2, h3⟩ := h
  have hevt : s.threaded = false → s.s ≠ .idleWait := fun ht => (hw.inl ht).2.1
  have hpip : s.threaded = true → s.s ≠ .hub .select := fun ht => hw.thr ht _
  f_cases hs s i f hf hpc
  all_goals refine ⟨fun hp hr => ?_, fun hp hr => ?_, fun hc => ?_⟩
  all_goals first
    | exact Or.inl rfl
    | exact Or.inl (Nat.succ_pos _)
    | exact Or.inr (Or.inr ⟨i, _, set_self hf, rfl⟩)
    | exact Or.inr (Or.inl ⟨i, _, set_self hf, rfl⟩)
    | (rename_i hthr; exact absurd hp (hevt (by simpa using hthr)))
    | (rename_i hthr; exact absurd hp (hpip hthr))
    | (rcases h1 hp hr with h | h
       · exact Or.inl h
       · exact Or.inr (sigP_set hf (by rw [hpc]; rfl) h))
    | (rcases h2 hp hr with h | h
       · exact Or.inl h
       · exact Or.inr (sigP_set hf (by rw [hpc]; rfl) h))
    | (rcases h3 hc with h | h | h
       · exact Or.inl h
       · exact Or.inr (Or.inl (pingP_set hf (by rw [hpc]; intro hx; cases hx) h))
       · exact Or.inr (Or.inr h))

theorem stepT_N {s s' : State} {t : Tid} (h : InvN s) (hs : stepT s t = some s') : InvN s' := by
  obtain ⟨h1, h2, h3⟩ := h
  t_cases hs s t hpc
  all_goals first
    | exact ⟨h1, h2, h3⟩
    | (refine ⟨fun hp hr => ?_, fun hp hr => ?_, fun hc => ?_⟩ <;> first
        | (cases hp; done)
        | (rcases h3 hc with h | h | h <;> first
            | exact Or.inl h
            | exact Or.inr (Or.inl h)
            | (simp [draining, hpc] at h; done)))

theorem init_N (threaded : Bool) (users : List (List UItem)) (progs : List (List Op)) :
    InvN (Handoff.init threaded users progs) :=
  ⟨fun hp => (by cases hp), fun hp => (by cases hp), fun hc => absurd rfl hc⟩

theorem reach_N {threaded users progs} {s : State} (hr : Reachable threaded users progs s) : InvN s :=
  hr.induct (init_N _ _ _) (fun _ _ _ h hs => stepS_N h hs) (fun _ _ hr h hs => stepH_N (reach_W hr) h hs)
    (fun _ _ _ hr h hs => stepF_N (reach_W hr) h hs) (fun _ _ _ _ h hs => stepT_N h hs)

theorem stepS_I {s s' : State} (h : IncOk s) (hs : stepS s = some s') : IncOk s' := by
  s_cases hs s hpc
  all_goals intro hi
  all_goals first
    | (refine Or.inl ?_; dsimp only; omega)
    | exact Or.inr (Or.inl rfl)
    | exact Or.inr (Or.inr (Or.inl rfl))
    | exact absurd hi (by assumption)
    | (rcases h hi with h | h | h | h | h <;> first
        | exact Or.inl h
        | exact Or.inr (Or.inr (Or.inr (Or.inl h)))
        | exact Or.inr (Or.inr (Or.inr (Or.inr h)))
        | (simp [sPingOrDead, drainS, hubDrainB, hpc] at h; done))

theorem stepH_I {s s' : State} (h : IncOk s) (hs : stepH s = some s') : IncOk s' := by
  h_cases hs s hpc
  all_goals intro hi
  all_goals first
    | (refine Or.inl ?_; dsimp only; omega)
    | exact Or.inr (Or.inr (Or.inr (Or.inl rfl)))
    | exact Or.inr (Or.inr (Or.inr (Or.inr rfl)))
    | exact absurd hi (by assumption)
    | (rcases h hi with h | h | h | h | h <;> first
        | exact Or.inl h
        | exact Or.inr (Or.inl h)
        | exact Or.inr (Or.inr (Or.inl h))
        | (simp [drainH, hubDrainB, hpc] at h; done)
        | (rw [hpc] at h; cases h; done))

theorem stepF_I {s s' : State} {i : Nat} (h : IncOk s) (hs : stepF s i = some s') : IncOk s' := by
  f_cases hs s i f hf hpc
  all_goals intro hi
  all_goals first
    | (refine Or.inl ?_; dsimp only; omega)
    | exact h hi

theorem stepT_I {s s' : State} {t : Tid} (h : IncOk s) (hs : stepT s t = some s') : IncOk s' := by
  t_cases hs s t hpc
  all_goals intro hi
  all_goals first
    | exact h hi
    | (rcases h hi with h | h | h | h | h <;> first
        | exact Or.inl h
        | exact Or.inr (Or.inr (Or.inr (Or.inl h)))
        | exact Or.inr (Or.inr (Or.inr (Or.inr h)))
        | (simp [sPingOrDead, drainS, hubDrainB, hpc] at h; done))

theorem reach_I {threaded users progs} {s : State} (hr : Reachable threaded users progs s) : IncOk s :=
  hr.induct (fun hi => absurd rfl hi) (fun _ _ _ h hs => stepS_I h hs) (fun _ _ _ h hs => stepH_I h hs)
    (fun _ _ _ _ h hs => stepF_I h hs) (fun _ _ _ _ h hs => stepT_I h hs)

end Pox.Handoff
