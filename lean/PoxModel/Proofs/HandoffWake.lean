import PoxModel.Proofs.Handoff
/-! # C07: the wake-up channels (`wake_noticed`) and the ready queue under `schedule()` (`schedule_atmost1`) -/
namespace Pox.Handoff

/-! ## hub mode -/

structure InvW (s : State) : Prop where
  thr : s.threaded = true → ∀ p, s.s ≠ .hub p
  inl : s.threaded = false → s.h = .off ∧ s.s ≠ .idleWait ∧ s.s ≠ .idleClear

theorem stepS_W {s s' : State} (h : InvW s) (hs : stepS s = some s') : InvW s' := by
  obtain ⟨h1, h2⟩ := h
  s_cases hs s hpc
  all_goals first
    | (refine ⟨fun ht p hp => ?_, fun ht => ⟨(h2 ht).1, ?_, ?_⟩⟩ <;> first
        | (cases hp; done)
        | (intro hp; cases hp; done)
        | (exact absurd hpc (h1 ht _))
        | (have := (h2 ht).2.1; rw [hpc] at this; exact absurd rfl this)
        | (have := (h2 ht).2.2; rw [hpc] at this; exact absurd rfl this)
        | (rename_i hthr; dsimp only at ht; rw [ht] at hthr; cases hthr)
        | (rename_i hthr; dsimp only at ht; simp [ht] at hthr))
    | skip

theorem stepH_W {s s' : State} (h : InvW s) (hs : stepH s = some s') : InvW s' := by
  obtain ⟨h1, h2⟩ := h
  h_cases hs s hpc
  all_goals (refine ⟨h1, fun ht => ?_⟩; have := (h2 ht).1; rw [hpc] at this; cases this)

theorem stepF_W {s s' : State} {i : Nat} (h : InvW s) (hs : stepF s i = some s') : InvW s' := by
  obtain ⟨h1, h2⟩ := h
  f_cases hs s i f hf hpc
  all_goals exact ⟨h1, h2⟩

theorem stepT_W {s s' : State} {t : Tid} (h : InvW s) (hs : stepT s t = some s') : InvW s' := by
  obtain ⟨h1, h2⟩ := h
  t_cases hs s t hpc
  all_goals first
    | exact ⟨h1, h2⟩
    | (refine ⟨fun ht p hp => ?_, fun ht => ⟨(h2 ht).1, ?_, ?_⟩⟩ <;> first
        | (cases hp; done)
        | (intro hp; cases hp; done)
        | (have := (h2 ht).2.1; rw [hpc] at this; exact absurd rfl this))

theorem init_W (threaded : Bool) (users : List (List UItem)) (progs : List (List Op)) :
    InvW (Handoff.init threaded users progs) := by
  refine ⟨?_, ?_⟩
  · intro _ p hp; cases hp
  · intro ht
    refine ⟨?_, ?_, ?_⟩
    · simp only [Handoff.init] at ht ⊢; simp [ht]
    · intro hp; cases hp
    · intro hp; cases hp

theorem reach_W {threaded users progs} {s : State} (hr : Reachable threaded users progs s) : InvW s :=
  hr.induct (init_W _ _ _) (fun _ _ _ h hs => stepS_W h hs) (fun _ _ _ h hs => stepH_W h hs)
    (fun _ _ _ _ h hs => stepF_W h hs) (fun _ _ _ _ h hs => stepT_W h hs)

/-! ## wake-up channels -/

def isSigB : FPc → Bool
  | .fsp _ _ .signal => true
  | _ => false

/-- some thread's next action is the wake-up signal of `break_idle` (`Event.set` / hub-pinger ping) -/
def sigP (h : HPc) (fs : List FThread) : Prop :=
  (∃ t, h = .hub (.ret t .signal)) ∨ (∃ (i : Nat) (f : FThread), fs[i]? = some f ∧ isSigB f.pc = true)

/-- some thread's next action is the ping of `CallLaterTask.callLater` -/
def pingP (fs : List FThread) : Prop := ∃ (i : Nat) (f : FThread), fs[i]? = some f ∧ f.pc = FPc.clPing

/-- the CallLaterTask is inside its drain loop (it will look at the deque again before it sleeps) -/
def draining : SPc → Bool
  | .cltPop _ | .cltCall _ _ => true
  | _ => false

structure InvN (s : State) : Prop where
  evt : s.s = .idleWait → s.ready ≠ [] → s.event = true ∨ sigP s.h s.fs
  pip : s.s = .hub .select → s.ready ≠ [] → s.hubPipe > 0 ∨ sigP s.h s.fs
  cal : s.calls ≠ [] → s.cltPipe > 0 ∨ pingP s.fs ∨ draining s.s = true

theorem stepS_N {s s' : State} (h : InvN s) (hs : stepS s = some s') : InvN s' := by
  obtain ⟨h1, h2, h3⟩ := h
  s_cases hs s hpc
  all_goals refine ⟨fun hp hr => ?_, fun hp hr => ?_, fun hc => ?_⟩
  all_goals first
    | (cases hp; done)
    | (exact absurd (by assumption) hr)
    | (exact absurd (by assumption) hc)
    | exact Or.inr (Or.inr rfl)
    | (rcases h3 hc with h | h | h <;> first
        | exact Or.inl h
        | exact Or.inr (Or.inl h)
        | (simp [draining, hpc] at h; done))

theorem sigP_h {h h' : HPc} {fs : List FThread} (hold : ∀ t, h ≠ .hub (.ret t .signal)) (hp : sigP h fs) : sigP h' fs := by
  rcases hp with ⟨t, ht⟩ | hf
  · exact absurd ht (hold t)
  · exact Or.inr hf

theorem stepH_N {s s' : State} (hw : InvW s) (h : InvN s) (hs : stepH s = some s') : InvN s' := by
  obtain ⟨h1, h2, h3⟩ := h
  have hpip : ∀ p, s.h = .hub p → s.s ≠ .hub .select := by
    intro p hp hsel
    cases ht : s.threaded with
    | true => exact hw.thr ht _ hsel
    | false => have := (hw.inl ht).1; rw [hp] at this; cases this
  have hevt : s.threaded = false → s.s ≠ .idleWait := fun ht => (hw.inl ht).2.1
  h_cases hs s hpc
  all_goals refine ⟨fun hp hr => ?_, fun hp hr => absurd hp (hpip _ hpc), h3⟩
  all_goals first
    | exact Or.inl rfl
    | exact Or.inr (Or.inl ⟨_, rfl⟩)
    | (rename_i hthr; exact absurd hp (hevt (by simpa using hthr)))
    | (rcases h1 hp hr with h | h
       · exact Or.inl h
       · exact Or.inr (sigP_h (by intro t ht; rw [hpc] at ht; cases ht) h))

theorem set_self {α} {l : List α} {i : Nat} {a b : α} (hi : l[i]? = some b) : (l.set i a)[i]? = some a := by
  simp [List.getElem?_set, getElem?_lt hi]

theorem sigP_set {h : HPc} {fs : List FThread} {i : Nat} {f f' : FThread} (hf : fs[i]? = some f)
    (hns : isSigB f.pc = false) (hp : sigP h fs) : sigP h (fs.set i f') := by
  rcases hp with ht | ⟨j, g, hg, hs⟩
  · exact Or.inl ht
  · by_cases hij : j = i
    · subst hij; rw [hf] at hg; cases hg; rw [hns] at hs; cases hs
    · exact Or.inr ⟨j, g, by rw [List.getElem?_set]; simp [Ne.symm hij, hg], hs⟩

theorem pingP_set {fs : List FThread} {i : Nat} {f f' : FThread} (hf : fs[i]? = some f)
    (hns : f.pc ≠ .clPing) (hp : pingP fs) : pingP (fs.set i f') := by
  obtain ⟨j, g, hg, hs⟩ := hp
  by_cases hij : j = i
  · subst hij; rw [hf] at hg; cases hg; exact absurd hs hns
  · exact ⟨j, g, by rw [List.getElem?_set]; simp [Ne.symm hij, hg], hs⟩

theorem stepF_N {s s' : State} {i : Nat} (hw : InvW s) (h : InvN s) (hs : stepF s i = some s') : InvN s' := by
  obtain ⟨h1, h2, h3⟩ := h
  have hevt : s.threaded = false → s.s ≠ .idleWait := fun ht => (hw.inl ht).2.1
  have hpip : s.threaded = true → s.s ≠ .hub .select := fun ht => hw.thr ht _
  f_cases hs s i f hf hpc
  all_goals refine ⟨fun hp hr => ?_, fun hp hr => ?_, fun hc => ?_⟩
  all_goals first
    | exact Or.inl rfl
    | exact Or.inl (Nat.succ_pos _)
    | exact Or.inr (Or.inr ⟨i, _, set_self hf, rfl⟩)
    | exact Or.inr (Or.inl ⟨i, _, set_self hf, rfl⟩)
    | (rename_i hthr; exact absurd hp (hevt (by simpa using hthr)))
    | (rename_i hthr; exact absurd hp (hpip hthr))
    | (rcases h1 hp hr with h | h
       · exact Or.inl h
       · exact Or.inr (sigP_set hf (by rw [hpc]; rfl) h))
    | (rcases h2 hp hr with h | h
       · exact Or.inl h
       · exact Or.inr (sigP_set hf (by rw [hpc]; rfl) h))
    | (rcases h3 hc with h | h | h
       · exact Or.inl h
       · exact Or.inr (Or.inl (pingP_set hf (by rw [hpc]; intro hx; cases hx) h))
       · exact Or.inr (Or.inr h))

theorem stepT_N {s s' : State} {t : Tid} (h : InvN s) (hs : stepT s t = some s') : InvN s' := by
  obtain ⟨h1, h2, h3⟩ := h
  t_cases hs s t hpc
  all_goals first
    | exact ⟨h1, h2, h3⟩
    | (refine ⟨fun hp hr => ?_, fun hp hr => ?_, fun hc => ?_⟩ <;> first
        | (cases hp; done)
        | (rcases h3 hc with h | h | h <;> first
            | exact Or.inl h
            | exact Or.inr (Or.inl h)
            | (simp [draining, hpc] at h; done)))

theorem init_N (threaded : Bool) (users : List (List UItem)) (progs : List (List Op)) :
    InvN (Handoff.init threaded users progs) :=
  ⟨fun hp => (by cases hp), fun hp => (by cases hp), fun hc => absurd rfl hc⟩

theorem reach_N {threaded users progs} {s : State} (hr : Reachable threaded users progs s) : InvN s :=
  hr.induct (init_N _ _ _) (fun _ _ _ h hs => stepS_N h hs) (fun _ _ hr h hs => stepH_N (reach_W hr) h hs)
    (fun _ _ _ hr h hs => stepF_N (reach_W hr) h hs) (fun _ _ _ _ h hs => stepT_N h hs)

/-! ## the ready queue under `schedule()` -/

/-- the scheduler thread is executing task `u` or is committed to put it into `ready` -/
def holds (pc : SPc) (tasks : List Kind) (u : TaskId) : Prop :=
  match pc with
  | .userBody t => t = u
  | .cycAppend t => t = u
  | .stFs st .append => ∃ r, tasks[st]? = some (.st u r)
  | _ => False

structure InvU (s : State) : Prop where
  len : s.nUsers ≤ s.tasks.length
  fsp : ∀ (i : Nat) (f : FThread) ctx st p, s.fs[i]? = some f → f.pc = FPc.fsp ctx st p → s.nUsers ≤ st
  clt : ∀ c, s.cltTask = some c → s.nUsers ≤ c
  hubS : ∀ t p, s.s = .hub (.ret t p) → s.nUsers ≤ t
  hubH : ∀ t p, s.h = .hub (.ret t p) → s.nUsers ≤ t
  stS : ∀ st p, s.s = .stFs st p → ∃ tg r, s.tasks[st]? = some (.st tg r)
  cnt : ∀ u, u < s.nUsers → s.ready.count u ≤ 1
  hold : ∀ u, u < s.nUsers → holds s.s s.tasks u → u ∉ s.ready
  sig : ∀ st tg r, s.s = .stFs st .signal → s.tasks[st]? = some (.st tg r) → tg ∈ s.ready

theorem cltReadable_some {s : State} {c : TaskId} (h : cltReadable s = some c) : s.cltTask = some c := by
  simp only [cltReadable] at h
  split at h
  · split at h
    · cases h; assumption
    · cases h
  · cases h

theorem count_tail_le {u t : Nat} {l rest : List Nat} (h : l = t :: rest) (hc : l.count u ≤ 1) : rest.count u ≤ 1 := by
  subst h; rw [List.count_cons] at hc; omega

theorem not_mem_tail_of_count {t : Nat} {l rest : List Nat} (h : l = t :: rest) (hc : l.count t ≤ 1) : t ∉ rest := by
  subst h; simp at hc
  exact List.count_eq_zero.mp hc

theorem count_append_single {u t : Nat} {l : List Nat} (hc : l.count u ≤ 1) (hn : u = t → u ∉ l) :
    (l ++ [t]).count u ≤ 1 := by
  by_cases h : u = t
  · subst h; simp [List.count_eq_zero.mpr (hn rfl)]
  · have : (t == u) = false := by simp; exact fun e => h e.symm
    simp [List.count_cons, this, hc]

theorem count_cons_single {u t : Nat} {l : List Nat} (hc : l.count u ≤ 1) (hn : u = t → u ∉ l) :
    (t :: l).count u ≤ 1 := by
  by_cases h : u = t
  · subst h; simp [List.count_eq_zero.mpr (hn rfl)]
  · have : (t == u) = false := by simp; exact fun e => h e.symm
    simp [List.count_cons, this, hc]

theorem stepS_U {s s' : State} (h : InvU s) (hs : stepS s = some s') : InvU s' := by
  obtain ⟨hlen, hfsp, hclt, hhubS, hhubH, hstS, hcnt, hhold, hsig⟩ := h
  s_cases hs s hpc
  all_goals refine ⟨?_, hfsp, hclt, ?_, hhubH, ?_, ?_, ?_, ?_⟩
  all_goals first
    -- len
    | exact hlen
    | (show _ ≤ (List.set _ _ _).length; rw [List.length_set]; exact hlen)
    -- hubS / stS : the new program counter is not of that shape
    | (intro a b hp; cases hp; done)
    -- hubS
    | (intro a b hp; cases hp; exact hhubS _ _ hpc)
    | (intro a b hp; cases hp; exact hclt _ (by assumption))
    | (intro a b hp; cases hp; exact hclt _ (cltReadable_some (by assumption)))
    -- stS
    | (intro a b hp; cases hp; exact ⟨_, _, by assumption⟩)
    -- sig : not at the signal position
    | (intro a b c hp; cases hp; done)
    -- cnt
    | exact hcnt
    | (intro u hu; exact count_tail_le (by assumption) (hcnt u hu))
    -- hold : nothing held
    | (intro u hu hh; simp only [holds] at hh; done)
    -- cnt : something is appended
    | (intro u hu; exact count_append_single (hcnt u hu)
        (fun e => hhold u hu (by rw [hpc]; simp only [holds]; exact e.symm)))
    | (intro u hu; dsimp only at hu; exact count_append_single (hcnt u hu) (fun e => by have := hhubS _ _ hpc; omega))
    | (intro u hu; rename_i heq; exact count_cons_single (hcnt u hu)
        (fun e => hhold u hu (by rw [hpc]; simp only [holds]; exact ⟨_, e ▸ heq⟩)))
    -- hold : a task was popped / keeps being held
    | (intro u hu hh; simp only [holds] at hh; subst hh; exact not_mem_tail_of_count (by assumption) (hcnt _ hu))
    | (intro u hu hh; simp only [holds] at hh; subst hh; exact hhold _ hu (by rw [hpc]; simp only [holds]))
    | (intro u hu hh; simp only [holds] at hh; obtain ⟨r, hr⟩ := hh; rename_i heq hni; rw [heq] at hr; cases hr; exact hni)
    -- sig
    | (intro a b c hp hl; cases hp; rename_i heq; rw [heq] at hl; cases hl; exact List.mem_cons_self)

theorem stepH_U {s s' : State} (h : InvU s) (hs : stepH s = some s') : InvU s' := by
  obtain ⟨hlen, hfsp, hclt, hhubS, hhubH, hstS, hcnt, hhold, hsig⟩ := h
  h_cases hs s hpc
  all_goals refine ⟨hlen, hfsp, hclt, hhubS, ?_, hstS, ?_, ?_, ?_⟩
  all_goals first
    -- hubH
    | (intro a b hp; cases hp; done)
    | (intro a b hp; cases hp; exact hhubH _ _ hpc)
    | (intro a b hp; cases hp; exact hclt _ (by assumption))
    | (intro a b hp; cases hp; exact hclt _ (cltReadable_some (by assumption)))
    -- cnt / hold / sig unchanged
    | exact hcnt
    | exact hhold
    | exact hsig
    -- ret append
    | (intro u hu; dsimp only at hu; exact count_append_single (hcnt u hu) (fun e => by have := hhubH _ _ hpc; omega))
    | (intro u hu hh hm; dsimp only at hu; rcases List.mem_append.mp hm with hm | hm
       · exact hhold u hu hh hm
       · simp at hm; have := hhubH _ _ hpc; omega)
    | (intro a b c hp hl; exact List.mem_append_left _ (hsig a b c hp hl))

/-- lookups of ScheduleTask entries are not disturbed -/
def StStable (l l' : List Kind) : Prop :=
  ∀ (st : Nat) (tg : TaskId) (r : Bool), (∃ tg0 r0, l[st]? = some (Kind.st tg0 r0)) →
    (l'[st]? = some (Kind.st tg r) ↔ l[st]? = some (Kind.st tg r))

theorem StStable.refl (l : List Kind) : StStable l l := fun _ _ _ _ => Iff.rfl

theorem StStable.append (l : List Kind) (x : Kind) : StStable l (l ++ [x]) := by
  intro st tg r ⟨tg0, r0, h0⟩
  rw [List.getElem?_append_left (getElem?_lt h0)]

theorem StStable.set_sync {l : List Kind} {k : Nat} {o il ol ph} (v : Kind) (hk : l[k]? = some (.sync o il ol ph)) :
    StStable l (l.set k v) := by
  intro st tg r ⟨tg0, r0, h0⟩
  have : k ≠ st := by intro e; subst e; rw [hk] at h0; cases h0
  rw [List.getElem?_set]; simp [this]

theorem holds_stable {pc : SPc} {l l' : List Kind} {u : TaskId} (hst : StStable l l')
    (h0 : ∀ st p, pc = .stFs st p → ∃ tg r, l[st]? = some (.st tg r)) (h : holds pc l' u) : holds pc l u := by
  cases pc with
  | stFs st p =>
    cases p with
    | append => obtain ⟨r, hr⟩ := h; exact ⟨r, (hst st u r (h0 st _ rfl)).mp hr⟩
    | assert => exact h
    | signal => exact h
  | _ => exact h

theorem InvU.frameF {s s' : State} {i : Nat} {f f' : FThread} (h : InvU s) (hf : s.fs[i]? = some f)
    (hfs : s'.fs = s.fs.set i f') (hS : s'.s = s.s) (hH : s'.h = s.h) (hn : s'.nUsers = s.nUsers)
    (hlen : s.tasks.length ≤ s'.tasks.length) (hst : StStable s.tasks s'.tasks)
    (hclt : ∀ c, s'.cltTask = some c → s.cltTask = some c ∨ s.nUsers ≤ c)
    (hpc : ∀ ctx st p, f'.pc = .fsp ctx st p → (∃ ctx' p', f.pc = .fsp ctx' st p') ∨ s.nUsers ≤ st)
    (hready : s'.ready = s.ready ∨ ∃ t, s.nUsers ≤ t ∧ s'.ready = s.ready ++ [t]) : InvU s' := by
  obtain ⟨h1, h2, h3, h4, h5, h6, h7, h8, h9⟩ := h
  have hmem : ∀ u, u < s.nUsers → (u ∈ s'.ready ↔ u ∈ s.ready) := by
    intro u hu
    rcases hready with hr | ⟨t, ht, hr⟩
    · rw [hr]
    · rw [hr]; simp; omega
  have hsub : ∀ x, x ∈ s.ready → x ∈ s'.ready := by
    intro x hx
    rcases hready with hr | ⟨t, _, hr⟩
    · rw [hr]; exact hx
    · rw [hr]; exact List.mem_append_left _ hx
  refine ⟨by rw [hn]; omega, ?_, ?_, ?_, ?_, ?_, ?_, ?_, ?_⟩
  · intro j g ctx st p hg hp
    rw [hn]; rw [hfs] at hg
    rcases set_cases hf hg with ⟨rfl, rfl⟩ | ⟨_, hg⟩
    · rcases hpc ctx st p hp with ⟨ctx', p', hp'⟩ | hb
      · exact h2 _ f ctx' st p' hf hp'
      · exact hb
    · exact h2 j g ctx st p hg hp
  · intro c hc; rw [hn]
    rcases hclt c hc with hc | hc
    · exact h3 c hc
    · exact hc
  · intro t p hp; rw [hn]; rw [hS] at hp; exact h4 t p hp
  · intro t p hp; rw [hn]; rw [hH] at hp; exact h5 t p hp
  · intro st p hp; rw [hS] at hp
    obtain ⟨tg, r, hl⟩ := h6 st p hp
    exact ⟨tg, r, (hst st tg r ⟨tg, r, hl⟩).mpr hl⟩
  · intro u hu; rw [hn] at hu
    rcases hready with hr | ⟨t, ht, hr⟩
    · rw [hr]; exact h7 u hu
    · rw [hr]; exact count_append_single (h7 u hu) (fun e => by omega)
  · intro u hu hh; rw [hn] at hu; rw [hS] at hh
    rw [hmem u hu]
    exact h8 u hu (holds_stable hst (fun st p hp => h6 st p hp) hh)
  · intro st tg r hp hl; rw [hS] at hp
    obtain ⟨tg0, r0, hl0⟩ := h6 st _ hp
    exact hsub _ (h9 st tg r hp ((hst st tg r ⟨tg0, r0, hl0⟩).mp hl))

theorem stepF_U {s s' : State} {i : Nat} (h : InvU s) (hs : stepF s i = some s') : InvU s' := by
  f_cases hs s i f hf hpc
  all_goals refine h.frameF hf rfl rfl rfl rfl ?_ ?_ ?_ ?_ ?_
  all_goals first
    -- length
    | exact Nat.le_refl _
    | (show _ ≤ (List.set _ _ _).length; rw [List.length_set]; exact Nat.le_refl _)
    | (show _ ≤ (_ ++ [_]).length; simp)
    -- lookups of ScheduleTasks
    | exact StStable.refl _
    | exact StStable.append _ _
    | exact StStable.set_sync _ (by assumption)
    -- _callLaterTask
    | (intro c hc; exact Or.inl hc)
    | (intro c hc; cases hc; exact Or.inr h.len)
    -- the thread's own pending append
    | (intro a b c hp; cases hp; done)
    | (intro a b c hp; cases hp; exact Or.inr h.len)
    | (intro a b c hp; cases hp; exact Or.inl ⟨_, _, hpc⟩)
    -- ready
    | exact Or.inl rfl
    | exact Or.inr ⟨_, h.fsp _ _ _ _ _ hf hpc, rfl⟩

theorem stepT_U {s s' : State} {t : Tid} (h : InvU s) (hs : stepT s t = some s') : InvU s' := by
  obtain ⟨hlen, hfsp, hclt, hhubS, hhubH, hstS, hcnt, hhold, hsig⟩ := h
  t_cases hs s t hpc
  all_goals first
    | exact ⟨hlen, hfsp, hclt, hhubS, hhubH, hstS, hcnt, hhold, hsig⟩
    | (refine ⟨hlen, hfsp, hclt, ?_, hhubH, ?_, hcnt, ?_, ?_⟩ <;> first
        | (intro a b hp; cases hp; done)
        | (intro a b c hp; cases hp; done)
        | (intro u hu hh; simp only [holds] at hh; done))

theorem init_U (threaded : Bool) (users : List (List UItem)) (progs : List (List Op)) :
    InvU (Handoff.init threaded users progs) := by
  refine ⟨by simp [Handoff.init], ?_, ?_, ?_, ?_, ?_, ?_, ?_, ?_⟩
  · intro i f ctx st p hf hp; obtain ⟨q, rfl⟩ := init_fs hf; cases hp
  · intro c hc; cases hc
  · intro t p hp; cases hp
  · intro t p hp; simp only [Handoff.init] at hp; split at hp <;> cases hp
  · intro st p hp; cases hp
  · intro u _; simp [Handoff.init]
  · intro u _ hh; simp [Handoff.init, holds] at hh
  · intro st tg r hp; cases hp

theorem reach_U {threaded users progs} {s : State} (hr : Reachable threaded users progs s) : InvU s :=
  hr.induct (init_U _ _ _) (fun _ _ _ h hs => stepS_U h hs) (fun _ _ _ h hs => stepH_U h hs)
    (fun _ _ _ _ h hs => stepF_U h hs) (fun _ _ _ _ h hs => stepT_U h hs)

/-- the number of user tasks never changes -/
theorem reach_nUsers {threaded users progs} {s : State} (hr : Reachable threaded users progs s) :
    s.nUsers = users.length := by
  refine hr.induct (P := fun s => s.nUsers = users.length) rfl ?_ ?_ ?_ ?_
  · intro s s' _ h hs; s_cases hs s hpc <;> exact h
  · intro s s' _ h hs; h_cases hs s hpc <;> exact h
  · intro s s' i _ h hs; f_cases hs s i f hf hpc <;> exact h
  · intro s s' t _ h hs; t_cases hs s t hpc <;> exact h


/-- when a ScheduleTask's slice is over (the scheduler thread is back in its run loop), the task it was created for is
    in the ready queue: the wake-up was not lost -/
theorem st_done_in_ready {s s' : State} (h : InvU s) (hs : stepS s = some s') (st tg : TaskId) (r : Bool)
    (hpc0 : s.s = .stContains st ∨ ∃ p, s.s = .stFs st p) (hdone : s'.s = .runLen)
    (hl : s.tasks[st]? = some (.st tg r)) : tg ∈ s'.ready := by
  have hsig := h.sig
  have huniq : ∀ st', (s.s = .stContains st' ∨ ∃ p, s.s = .stFs st' p) → st' = st := by
    intro st' h'
    rcases hpc0 with hp | ⟨p, hp⟩ <;> rcases h' with hp' | ⟨p', hp'⟩ <;>
      (rw [hp] at hp'; first | (cases hp'; rfl) | cases hp')
  s_cases hs s hpc
  all_goals try (rcases hpc0 with hp | ⟨p, hp⟩ <;> (rw [hpc] at hp; cases hp; done))
  all_goals try (cases hdone; done)
  all_goals first
    | have hst := huniq _ (Or.inl hpc)
    | have hst := huniq _ (Or.inr ⟨_, hpc⟩)
  all_goals subst hst
  all_goals (rename_i heq; first
    | (rw [heq] at hl; cases hl; assumption)
    | (rw [heq] at hl; cases hl; exact hsig _ _ _ hpc heq)
    | (rename_i heq2; rw [heq2] at hl; cases hl; assumption)
    | (rename_i heq2; rw [heq2] at hl; cases hl; exact hsig _ _ _ hpc heq2))

end Pox.Handoff
