import PoxModel.Model.ConnH
/-! Facts about the halting filter of Model/ConnH.lean: without halting listeners it is the identity; it only ever removes
connection-level events of a haltable kind (never a nexus-level event, never a ConnectionDown on either level, never a
write / registration / close), and what it leaves is a sublist of the unfiltered outputs. -/
namespace Pox.Conn

/-- outputs the filter never touches: everything but connection-level events of a haltable kind -/
def Kept (x : Out) : Prop := ∀ e, x = .ev e → e.nexus = true ∨ e.kind = .down

/-- the pending suppression is always a connection-level event of a haltable kind -/
def PendOk (p : Option Event) : Prop := ∀ e, p = some e → haltable e.kind = true

theorem pendOk_none : PendOk none := by intro e h; cases h

theorem pendOk_next (h : HaltCfg) (a : Act) (e : Event) (p : Option Event) (hp : PendOk p) : PendOk (pendNext h a e p) := by
  unfold pendNext
  split
  · rename_i hc
    intro e' he'
    cases he'
    simp only [Bool.and_eq_true] at hc
    exact hc.2
  · exact hp

theorem actNext_none (a : Act) (e : Event) : actNext HaltCfg.none a e = a := by
  simp [actNext, HaltCfg.none, Beh.removes]

theorem pendNext_none (a : Act) (e : Event) (p : Option Event) : pendNext HaltCfg.none a e p = p := by
  simp [pendNext, HaltCfg.none, Beh.halts]

theorem haltOuts_none (a : Act) (o : List Out) : haltOuts HaltCfg.none a none o = o := by
  induction o with
  | nil => rfl
  | cons x t ih =>
    cases x with
    | ev e =>
      by_cases hn : e.nexus = true
      · simp [haltOuts, hn, actNext_none, pendNext_none, ih]
      · simp [haltOuts, hn, ih]
    | sent c ty x => simp [haltOuts, ih]
    | reg k c => simp [haltOuts, ih]
    | sendRet b => simp [haltOuts, ih]
    | closed c => simp [haltOuts, ih]

theorem actAfter_none (a : Act) (o : List Out) : actAfter HaltCfg.none a o = a := by
  induction o with
  | nil => rfl
  | cons x t ih => cases x <;> simp [actAfter, actNext_none, ih]

theorem haltSteps_none (a : Act) (steps : List (List Out)) : haltSteps HaltCfg.none a steps = steps := by
  induction steps with
  | nil => rfl
  | cons o t ih => simp [haltSteps, haltOuts_none, actAfter_none, ih]

theorem haltOuts_sublist (h : HaltCfg) (a : Act) (p : Option Event) (o : List Out) : (haltOuts h a p o).Sublist o := by
  induction o generalizing a p with
  | nil => exact List.Sublist.slnil
  | cons x t ih =>
    cases x with
    | ev e =>
      simp only [haltOuts]
      split
      · exact (ih _ _).cons_cons _
      · split
        · exact (ih _ _).cons _
        · exact (ih _ _).cons_cons _
    | sent c ty x => exact (ih _ _).cons_cons _
    | reg k c => exact (ih _ _).cons_cons _
    | sendRet b => exact (ih _ _).cons_cons _
    | closed c => exact (ih _ _).cons_cons _

theorem haltOuts_count (h : HaltCfg) (x : Out) (hx : Kept x) (a : Act) (p : Option Event) (hp : PendOk p) (o : List Out) :
    (haltOuts h a p o).count x = o.count x := by
  induction o generalizing a p with
  | nil => rfl
  | cons y t ih =>
    cases y with
    | ev e =>
      simp only [haltOuts]
      split
      · rw [List.count_cons, List.count_cons, ih _ _ (pendOk_next h a e p hp)]
      · rename_i hn
        split
        · rename_i hpe
          have hne : (Out.ev e == x) = false := by
            apply beq_false_of_ne
            intro heq
            rcases hx e heq.symm with h1 | h1
            · exact hn h1
            · have := hp e hpe
              rw [h1] at this
              simp [haltable] at this
          rw [List.count_cons, hne, ih _ _ pendOk_none]
          simp
        · rw [List.count_cons, List.count_cons, ih _ _ hp]
    | sent c ty z => simp only [haltOuts]; rw [List.count_cons, List.count_cons, ih _ _ hp]
    | reg k c => simp only [haltOuts]; rw [List.count_cons, List.count_cons, ih _ _ hp]
    | sendRet b => simp only [haltOuts]; rw [List.count_cons, List.count_cons, ih _ _ hp]
    | closed c => simp only [haltOuts]; rw [List.count_cons, List.count_cons, ih _ _ hp]

theorem haltSteps_sublist (h : HaltCfg) (a : Act) (steps : List (List Out)) :
    (haltSteps h a steps).flatten.Sublist steps.flatten := by
  induction steps generalizing a with
  | nil => exact List.Sublist.slnil
  | cons o t ih =>
    simp only [haltSteps, List.flatten_cons]
    exact (haltOuts_sublist h a none o).append (ih _)

theorem haltSteps_count (h : HaltCfg) (x : Out) (hx : Kept x) (a : Act) (steps : List (List Out)) :
    (haltSteps h a steps).flatten.count x = steps.flatten.count x := by
  induction steps generalizing a with
  | nil => rfl
  | cons o t ih =>
    simp only [haltSteps, List.flatten_cons, List.count_append, haltOuts_count h x hx a none pendOk_none o, ih]

theorem stepOuts_flatten (tr : Trace) : (stepOuts tr).flatten = outs tr := by
  simp [stepOuts, outs, List.flatMap_def]

theorem kept_down (b : Bool) (c : Nat) : Kept (downEv b c) := by
  intro e he; cases he; exact Or.inr rfl

theorem kept_nexus (e : Event) (he : e.nexus = true) : Kept (.ev e) := by
  intro e' h; cases h; exact Or.inl he

theorem kept_up (c : Nat) : Kept (upEv true c) := kept_nexus ⟨true, .up, c, 0⟩ rfl

theorem kept_closed (c : Nat) : Kept (.closed c) := by intro e h; cases h
theorem kept_sent (c ty x : Nat) : Kept (.sent c ty x) := by intro e h; cases h
theorem kept_reg (k : Option Nat) (c : Nat) : Kept (.reg k c) := by intro e h; cases h
theorem kept_sendRet (b : Bool) : Kept (.sendRet b) := by intro e h; cases h

/-- whatever the halting listeners do, everything but connection-level events of a haltable kind is observed exactly as
without them -/
theorem outsH_count (cfg : Cfg) (l : Lst) (h : HaltCfg) (ops : List Op) (x : Out) (hx : Kept x) :
    (outsH cfg l h ops).count x = (outs (runL cfg l ops).2).count x := by
  unfold outsH runH
  rw [haltSteps_count h x hx, stepOuts_flatten]

theorem outsH_sublist (cfg : Cfg) (l : Lst) (h : HaltCfg) (ops : List Op) :
    (outsH cfg l h ops).Sublist (outs (runL cfg l ops).2) := by
  unfold outsH runH
  have := haltSteps_sublist h Act.all (stepOuts (runL cfg l ops).2)
  rwa [stepOuts_flatten] at this

theorem outsH_none (cfg : Cfg) (l : Lst) (ops : List Op) : outsH cfg l HaltCfg.none ops = outs (runL cfg l ops).2 := by
  unfold outsH runH
  rw [haltSteps_none, stepOuts_flatten]

end Pox.Conn
