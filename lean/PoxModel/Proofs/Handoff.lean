import PoxModel.Model.Handoff
/-! # Invariants of the hand-off transition system (C07)

Method: every invariant is shown to hold initially and to be preserved by each atomic action (`step`, any thread) and
each polling time-out (`stepT`).  `s_cases`/`h_cases`/`f_cases` split a step of the scheduler thread / hub thread /
a foreign thread into its transitions, each with an explicit post-state. -/
namespace Pox.Handoff

/-! ## tactics -/

/-- finish the case split of a step hypothesis whose outer `match` on the program counter has been reduced -/
macro "split_step" h:ident : tactic => `(tactic| (
  repeat' (split at $h:ident <;> try simp only [] at $h:ident)
  all_goals (first | (cases $h:ident; done) | (injection $h:ident with $h:ident; subst $h:ident) | skip)))

/-- transitions of the scheduler thread: `s_cases hs s hpc` expects `hs : stepS s = some s'`; every goal gets
    `hpc : s.s = <constructor>` and an explicit post-state -/
macro "s_cases" hs:ident s:ident hpc:ident : tactic => `(tactic| (
  rcases $hpc:ident : ($s).s with _ | _ | _ | ⟨(_ | cp | cp | cp | ⟨t, (_ | _ | _)⟩)⟩ | _ | t | t | st | ⟨st, (_ | _ | _)⟩ |
    k | k | c | c | c | c | ⟨c, e⟩ | ⟨t, v⟩ | ⟨t, v, (_ | _ | _)⟩ | _ | t | t | t | ⟨t, c⟩ | ⟨t, c, (_ | _ | _)⟩ | t | t | t
  all_goals simp only [stepS, $hpc:ident, hubK, fsK, dispatch, afterIdle, userNext, setTask, alloc, Bool.false_eq_true, reduceIte] at $hs:ident
  all_goals split_step $hs))

/-- transitions of the hub thread: `hs : stepH s = some s'` -/
macro "h_cases" hs:ident s:ident hpc:ident : tactic => `(tactic| (
  rcases $hpc:ident : ($s).h with _ | ⟨(_ | cp | cp | cp | ⟨t, (_ | _ | _)⟩)⟩ | _
  all_goals simp only [stepH, $hpc:ident, hubK, fsK, Bool.false_eq_true, reduceIte] at $hs:ident
  all_goals split_step $hs))

/-- transitions of foreign thread `i`: `hs : stepF s i = some s'`; every goal gets `hf : s.fs[i]? = some f` and
    `hpc : f.pc = <constructor>` -/
macro "f_cases" hs:ident s:ident i:ident f:ident hf:ident hpc:ident : tactic => `(tactic| (
  rcases $hf:ident : ($s).fs[$i]? with _ | $f:ident
  · simp only [stepF, $hf:ident] at $hs:ident; cases $hs:ident
  rcases $hpc:ident : ($f).pc with _ | _ | _ | _ | _ | _ | _ | ⟨(_ | _ | _), t⟩ | ⟨(_ | _ | _), st, (_ | _ | _)⟩ | _ | _ | _ | _
  all_goals simp only [stepF, $hf:ident, $hpc:ident, fsK, setF, setTask, alloc, FCtx.ret, Bool.false_eq_true, reduceIte] at $hs:ident
  all_goals split_step $hs))

/-- time-outs: `hs : stepT s tid = some s'`; goals: scheduler thread at `idleWait`, at `hub select`, hub thread at
    `hub select` (state unchanged) -/
macro "t_cases" hs:ident s:ident tid:ident hpc:ident : tactic => `(tactic| (
  rcases $tid:ident with _ | _ | _
  case' succ.succ => simp only [stepT] at $hs:ident; cases $hs:ident
  case' zero =>
    rcases $hpc:ident : ($s).s with _ | _ | _ | ⟨(_ | cp | cp | cp | ⟨t, p⟩)⟩ | _ | t | t | st | ⟨st, p⟩ |
      k | k | c | c | c | c | ⟨c, e⟩ | ⟨t, v⟩ | ⟨t, v, p⟩ | _ | t | t | t | ⟨t, c⟩ | ⟨t, c, p⟩ | t | t | t
    all_goals simp only [stepT, $hpc:ident] at $hs:ident
    all_goals split_step $hs
  case' succ.zero =>
    rcases $hpc:ident : ($s).h with _ | ⟨(_ | cp | cp | cp | ⟨t, p⟩)⟩ | _
    all_goals simp only [stepT, $hpc:ident] at $hs:ident
    all_goals split_step $hs))

theorem forall_set {α : Type} {P : Nat → α → Prop} {l : List α} {i : Nat} {a a' : α} (hi : l[i]? = some a)
    (h : ∀ j x, l[j]? = some x → P j x) (ha : P i a') : ∀ j x, (l.set i a')[j]? = some x → P j x := by
  intro j x hj
  rw [List.getElem?_set] at hj
  split at hj
  · have hlt : i < l.length := by
      rcases Nat.lt_or_ge i l.length with h' | h'
      · exact h'
      · rw [List.getElem?_eq_none h'] at hi; cases hi
    simp only [hlt, if_true] at hj
    cases hj; subst_vars; exact ha
  · exact h j x hj

theorem forall_append {α : Type} {P : Nat → α → Prop} {l : List α} {a : α}
    (h : ∀ j x, l[j]? = some x → P j x) (ha : P l.length a) : ∀ j x, (l ++ [a])[j]? = some x → P j x := by
  intro j x hj
  rcases Nat.lt_or_ge j l.length with hlt | hge
  · rw [List.getElem?_append_left hlt] at hj; exact h j x hj
  · rw [List.getElem?_append_right hge] at hj
    rcases Nat.eq_or_lt_of_le hge with heq | hgt
    · subst heq; simp at hj; subst hj; exact ha
    · have : j - l.length ≥ 1 := by omega
      rw [List.getElem?_eq_none (by simpa using this)] at hj; cases hj

/-! ## reachability induction -/

theorem Reachable.induct {threaded users progs} {P : State → Prop}
    (h0 : P (Handoff.init threaded users progs))
    (hS : ∀ s s', Reachable threaded users progs s → P s → stepS s = some s' → P s')
    (hH : ∀ s s', Reachable threaded users progs s → P s → stepH s = some s' → P s')
    (hF : ∀ s s' i, Reachable threaded users progs s → P s → stepF s i = some s' → P s')
    (hT : ∀ s s' t, Reachable threaded users progs s → P s → stepT s t = some s' → P s')
    {s : State} (hr : Reachable threaded users progs s) : P s := by
  induction hr with
  | init => exact h0
  | step tid hr hs ih =>
    match tid, hs with
    | 0, hs => exact hS _ _ hr ih hs
    | 1, hs => exact hH _ _ hr ih hs
    | i + 2, hs => exact hF _ _ i hr ih hs
  | timeout tid hr hs ih => exact hT _ _ tid hr ih hs

/-! ## A. call-later hand-over -/

/-- the call popped from `_calls` whose function is being executed right now -/
def inflightPc : SPc → List Call
  | .cltCall _ e => [e]
  | _ => []

def inflight (s : State) : List Call := inflightPc s.s

structure InvA (s : State) : Prop where
  stream : s.submitted = s.executed.map (·.1) ++ inflightPc s.s ++ s.calls
  onS : ∀ p ∈ s.executed, p.2 = 0
  nodup : s.submitted.Nodup
  order : ∀ i f, s.fs[i]? = some f → (s.submitted.filter (·.by_ = i + 2)).map (·.seq) = List.range f.nsub
  /-- the calls handed over by cooperative code (on the scheduler thread, tid 0) -/
  order0 : (s.submitted.filter (·.by_ = 0)).map (·.seq) = List.range s.snsub

theorem stepS_A {s s' : State} (h : InvA s) (hs : stepS s = some s') : InvA s' := by
  obtain ⟨h1, h2, h3, h4, h5⟩ := h
  s_cases hs s hpc
  all_goals simp only [hpc, inflightPc] at h1
  all_goals first
    | exact ⟨h1, h2, h3, h4, h5⟩
    | skip
  · -- cltPop, a call is taken from the deque
    rename_i hc
    exact ⟨by simpa [inflightPc, hc] using h1, h2, h3, h4, h5⟩
  · -- cltCall, the popped call is executed on this thread
    refine ⟨by simpa [inflightPc] using h1, ?_, h3, h4, h5⟩
    intro p hp
    rcases List.mem_append.mp hp with hp | hp
    · exact h2 p hp
    · simp at hp; subst hp; rfl
  · -- ucAppend: hand-over by cooperative code
    have hnew : (⟨0, s.snsub⟩ : Call) ∉ s.submitted := by
      intro hm
      have : s.snsub ∈ (s.submitted.filter (·.by_ = 0)).map (·.seq) :=
        List.mem_map.mpr ⟨⟨0, s.snsub⟩, List.mem_filter.mpr ⟨hm, by simp⟩, rfl⟩
      rw [h5] at this
      simp at this
    refine ⟨?_, h2, ?_, ?_, ?_⟩
    · simp only [h1, inflightPc, List.append_assoc]
    · exact List.nodup_append.mpr ⟨h3, by simp, by
        intro a ha b hb; simp at hb; subst hb; intro hab; subst hab; exact hnew ha⟩
    · intro j g hg
      simp [List.filter_append, h4 j g hg]
    · simp [List.filter_append, h5, List.range_succ]

theorem stepH_A {s s' : State} (h : InvA s) (hs : stepH s = some s') : InvA s' := by
  obtain ⟨h1, h2, h3, h4, h5⟩ := h
  h_cases hs s hpc
  all_goals exact ⟨h1, h2, h3, h4, h5⟩

theorem stepT_A {s s' : State} {t : Tid} (h : InvA s) (hs : stepT s t = some s') : InvA s' := by
  obtain ⟨h1, h2, h3, h4, h5⟩ := h
  t_cases hs s t hpc
  all_goals simp only [hpc, inflightPc] at h1
  all_goals exact ⟨h1, h2, h3, h4, h5⟩

theorem stepF_A {s s' : State} {i : Nat} (h : InvA s) (hs : stepF s i = some s') : InvA s' := by
  obtain ⟨h1, h2, h3, h4, h5⟩ := h
  f_cases hs s i f hf hpc
  all_goals first
    | exact ⟨h1, h2, h3, forall_set hf h4 (h4 i f hf), h5⟩
    | skip
  -- clAppend: the hand-over
  have hnew : (⟨i + 2, f.nsub⟩ : Call) ∉ s.submitted := by
    intro hm
    have : f.nsub ∈ (s.submitted.filter (·.by_ = i + 2)).map (·.seq) :=
      List.mem_map.mpr ⟨⟨i + 2, f.nsub⟩, List.mem_filter.mpr ⟨hm, by simp⟩, rfl⟩
    rw [h4 i f hf] at this
    simp at this
  refine ⟨?_, h2, ?_, ?_, by simp [List.filter_append, h5]⟩
  · simp only [h1, List.append_assoc]
  · exact List.nodup_append.mpr ⟨h3, by simp, by
      intro a ha b hb; simp at hb; subst hb; intro hab; subst hab; exact hnew ha⟩
  · intro j g hg
    rw [List.getElem?_set] at hg
    split at hg
    · rename_i hij
      subst hij
      have hlt : i < s.fs.length := by
        rcases Nat.lt_or_ge i s.fs.length with h' | h'
        · exact h'
        · rw [List.getElem?_eq_none h'] at hf; cases hf
      simp only [hlt, if_true] at hg
      cases hg
      simp [List.filter_append, h4 i f hf, List.range_succ]
    · rename_i hij
      simp [List.filter_append, hij, h4 j g hg]

theorem init_A (threaded : Bool) (users : List (List UItem)) (progs : List (List Op)) :
    InvA (Handoff.init threaded users progs) := by
  refine ⟨rfl, by simp [Handoff.init], by simp [Handoff.init], ?_, by simp [Handoff.init]⟩
  intro i f hf
  simp only [Handoff.init, List.getElem?_map] at hf
  rcases hp : progs[i]? with _ | p
  · simp [hp] at hf
  · simp [hp] at hf; subst hf; simp [Handoff.init]

theorem reach_A {threaded users progs} {s : State} (hr : Reachable threaded users progs s) : InvA s :=
  hr.induct (init_A _ _ _) (fun _ _ _ h hs => stepS_A h hs) (fun _ _ _ h hs => stepH_A h hs)
    (fun _ _ _ _ h hs => stepF_A h hs) (fun _ _ _ _ h hs => stepT_A h hs)

/-! ## B. the synchronized section -/

/-- owner and the two `threading.Lock` flags of a `SyncTask` -/
def syncView : Kind → Option (Tid × Bool × Bool)
  | .sync o i u _ => some (o, i, u)
  | _ => none

def viewT (tasks : List Kind) (k : TaskId) : Option (Tid × Bool × Bool) := (tasks[k]?).bind syncView

/-- the thread has created its `SyncTask` and has not yet got `inlock` -/
def waitingSync : FPc → Bool
  | .spawn .se _ | .fsp .se _ _ | .seAcqIn => true
  | _ => false

/-- the thread is inside `with scheduler.synchronized():` — from the moment `inlock.acquire()` returned in
    `__enter__` until `outlock.release()` in the outermost `__exit__` -/
def inSecB (pc : FPc) (depth : Nat) : Bool :=
  match pc with
  | .sxRelOut => true
  | .crashed | .seCreate | .spawn .se _ | .fsp .se _ _ | .seAcqIn => false
  | _ => decide (1 ≤ depth)

structure InvSy (s : State) : Prop where
  own : ∀ i f, s.fs[i]? = some f → waitingSync f.pc = true → ∃ il ol, viewT s.tasks f.syncer = some (i + 2, il, ol)
  sec : ∀ i f, s.fs[i]? = some f → inSecB f.pc f.depth = true →
    viewT s.tasks f.syncer = some (i + 2, true, true) ∧ s.s = .syAcqOut f.syncer
  inl : ∀ k o u, viewT s.tasks k = some (o, false, u) → u = true ∧ s.s = .syAcqOut k
  outl : ∀ k o il, viewT s.tasks k = some (o, il, false) → s.s = .syAcqOut k
  rel0 : ∀ (i : Nat) (f : FThread), s.fs[i]? = some f → f.pc = FPc.sxRelOut → f.depth = 0

theorem viewT_set_ne {l : List Kind} {t k : Nat} {new : Kind} (h : k ≠ t) : viewT (l.set t new) k = viewT l k := by
  simp [viewT, List.getElem?_set, Ne.symm h]

theorem viewT_set_at {l : List Kind} {t : Nat} {old new : Kind} (ht : l[t]? = some old) :
    viewT (l.set t new) t = syncView new := by
  have hlt : t < l.length := by
    rcases Nat.lt_or_ge t l.length with h' | h'
    · exact h'
    · rw [List.getElem?_eq_none h'] at ht; cases ht
  simp [viewT, List.getElem?_set, hlt]

theorem viewT_set_same {l : List Kind} {t : Nat} {old new : Kind} (ht : l[t]? = some old)
    (hv : syncView new = syncView old) : ∀ k, viewT (l.set t new) k = viewT l k := by
  intro k
  by_cases h : k = t
  · subst h; rw [viewT_set_at ht, hv]; simp [viewT, ht]
  · exact viewT_set_ne h

theorem viewT_append_lt {l : List Kind} {x : Kind} {k : Nat} (h : k < l.length) : viewT (l ++ [x]) k = viewT l k := by
  simp [viewT, List.getElem?_append_left h]

theorem viewT_some_lt {l : List Kind} {k : Nat} {v} (h : viewT l k = some v) : k < l.length := by
  rcases Nat.lt_or_ge k l.length with h' | h'
  · exact h'
  · simp [viewT, List.getElem?_eq_none h'] at h

theorem viewT_append_new {l : List Kind} {x : Kind} : viewT (l ++ [x]) l.length = syncView x := by
  simp [viewT]

theorem viewT_append_none {l : List Kind} {x : Kind} (hx : syncView x = none) : ∀ k, viewT (l ++ [x]) k = viewT l k := by
  intro k
  rcases Nat.lt_trichotomy k l.length with h | h | h
  · exact viewT_append_lt h
  · subst h; rw [viewT_append_new, hx]; simp [viewT]
  · have h1 : (l ++ [x])[k]? = none := List.getElem?_eq_none (by simp; omega)
    have h2 : l[k]? = none := List.getElem?_eq_none (by omega)
    simp [viewT, h1, h2]

/-- frame: the scheduler thread moves (or not), nothing that concerns SyncTasks changes, and it does not leave
    `outlock.acquire()` -/
theorem InvSy.frameS {s s' : State} (h : InvSy s) (hfs : s'.fs = s.fs) (hv : ∀ k, viewT s'.tasks k = viewT s.tasks k)
    (hpc : s'.s = s.s ∨ ∀ k, s.s ≠ .syAcqOut k) : InvSy s' := by
  obtain ⟨h1, h2, h3, h4, h5⟩ := h
  have h5' : ∀ (i : Nat) (f : FThread), s'.fs[i]? = some f → f.pc = FPc.sxRelOut → f.depth = 0 := by rw [hfs]; exact h5
  rcases hpc with hpc | hpc
  · refine ⟨?_, ?_, ?_, ?_, h5'⟩
    · intro i f hf hw; rw [hfs] at hf; rw [hv]; exact h1 i f hf hw
    · intro i f hf hw; rw [hfs] at hf; rw [hv, hpc]; exact h2 i f hf hw
    · intro k o u hk; rw [hv] at hk; rw [hpc]; exact h3 k o u hk
    · intro k o il hk; rw [hv] at hk; rw [hpc]; exact h4 k o il hk
  · refine ⟨?_, ?_, ?_, ?_, h5'⟩
    · intro i f hf hw; rw [hfs] at hf; rw [hv]; exact h1 i f hf hw
    · intro i f hf hw; rw [hfs] at hf; exact absurd (h2 i f hf hw).2 (hpc _)
    · intro k o u hk; rw [hv] at hk; exact absurd (h3 k o u hk).2 (hpc _)
    · intro k o il hk; rw [hv] at hk; exact absurd (h4 k o il hk) (hpc _)

theorem stepS_Sy {s s' : State} (h : InvSy s) (hs : stepS s = some s') : InvSy s' := by
  s_cases hs s hpc
  all_goals first
    | exact h.frameS rfl (fun _ => rfl) (Or.inr (by intro k hk; rw [hpc] at hk; cases hk))
    | exact h.frameS rfl (viewT_set_same (by assumption) (by rfl)) (Or.inr (by intro k hk; rw [hpc] at hk; cases hk))
    | exact h.frameS rfl (viewT_append_none rfl) (Or.inr (by intro k hk; rw [hpc] at hk; cases hk))
    | skip
  · -- syRelIn k : `self.inlock.release()`
    rename_i k _ o u ph hk
    obtain ⟨h1, h2, h3, h4, h5⟩ := h
    have hold : viewT s.tasks k = some (o, true, u) := by simp [viewT, hk, syncView]
    have hu : u = true := by
      cases u with
      | true => rfl
      | false => have := h4 k o true hold; rw [hpc] at this; cases this
    refine ⟨?_, ?_, ?_, ?_, h5⟩
    · intro i f hf hw
      obtain ⟨il, ol, hv⟩ := h1 i f hf hw
      by_cases hkk : f.syncer = k
      · rw [hkk] at hv ⊢; rw [hold] at hv; cases hv
        exact ⟨false, u, by rw [viewT_set_at hk]; rfl⟩
      · exact ⟨il, ol, by rw [viewT_set_ne hkk]; exact hv⟩
    · intro i f hf hw
      have := (h2 i f hf hw).2; rw [hpc] at this; cases this
    · intro k' o' u' hv
      by_cases hkk : k' = k
      · subst hkk; rw [viewT_set_at hk] at hv; cases hv; exact ⟨hu, rfl⟩
      · rw [viewT_set_ne hkk] at hv
        have := (h3 k' o' u' hv).2; rw [hpc] at this; cases this
    · intro k' o' il' hv
      by_cases hkk : k' = k
      · subst hkk; subst hu; rw [viewT_set_at hk] at hv
      · rw [viewT_set_ne hkk] at hv
        have := h4 k' o' il' hv; rw [hpc] at this; cases this
  · -- syAcqOut k : `self.outlock.acquire()` succeeds
    rename_i k _ o il ph hk
    obtain ⟨h1, h2, h3, h4, h5⟩ := h
    have hold : viewT s.tasks k = some (o, il, false) := by simp [viewT, hk, syncView]
    have hil : il = true := by
      cases il with
      | true => rfl
      | false => have := (h3 k o false hold).1; cases this
    refine ⟨?_, ?_, ?_, ?_, h5⟩
    · intro i f hf hw
      obtain ⟨il', ol, hv⟩ := h1 i f hf hw
      by_cases hkk : f.syncer = k
      · rw [hkk] at hv ⊢; rw [hold] at hv; cases hv
        exact ⟨il, true, by rw [viewT_set_at hk]; rfl⟩
      · exact ⟨il', ol, by rw [viewT_set_ne hkk]; exact hv⟩
    · intro i f hf hw
      obtain ⟨hv, hp⟩ := h2 i f hf hw
      rw [hpc] at hp; cases hp
      rw [hold] at hv; cases hv
    · intro k' o' u' hv
      by_cases hkk : k' = k
      · subst hkk; rw [viewT_set_at hk] at hv; cases hv; cases hil
      · rw [viewT_set_ne hkk] at hv
        have := (h3 k' o' u' hv).2; rw [hpc] at this; cases this; exact absurd rfl hkk
    · intro k' o' il' hv
      by_cases hkk : k' = k
      · subst hkk; rw [viewT_set_at hk] at hv; cases hv
      · rw [viewT_set_ne hkk] at hv
        have := h4 k' o' il' hv; rw [hpc] at this; cases this; exact absurd rfl hkk

theorem stepH_Sy {s s' : State} (h : InvSy s) (hs : stepH s = some s') : InvSy s' := by
  h_cases hs s hpc
  all_goals exact h.frameS rfl (fun _ => rfl) (Or.inl rfl)

theorem stepT_Sy {s s' : State} {t : Tid} (h : InvSy s) (hs : stepT s t = some s') : InvSy s' := by
  t_cases hs s t hpc
  all_goals first
    | exact h.frameS rfl (fun _ => rfl) (Or.inr (by intro k hk; rw [hpc] at hk; cases hk))
    | exact h

theorem getElem?_lt {α} {l : List α} {i : Nat} {a : α} (h : l[i]? = some a) : i < l.length := by
  rcases Nat.lt_or_ge i l.length with h' | h'
  · exact h'
  · rw [List.getElem?_eq_none h'] at h; cases h

theorem set_cases {α} {l : List α} {i j : Nat} {a b x : α} (hi : l[i]? = some b) (h : (l.set i a)[j]? = some x) :
    (j = i ∧ x = a) ∨ (j ≠ i ∧ l[j]? = some x) := by
  have hlt := getElem?_lt hi
  rw [List.getElem?_set] at h
  by_cases hij : i = j
  · subst hij; simp [hlt] at h; exact Or.inl ⟨rfl, h.symm⟩
  · simp [hij] at h; exact Or.inr ⟨fun e => hij e.symm, h⟩

/-- frame: foreign thread `i` moves; no SyncTask view changes; it keeps its syncer and does not enter a sync phase -/
theorem InvSy.frameF {s s' : State} {i : Nat} {f f' : FThread} (h : InvSy s) (hf : s.fs[i]? = some f)
    (hfs : s'.fs = s.fs.set i f') (hS : s'.s = s.s) (hv : ∀ k, viewT s'.tasks k = viewT s.tasks k)
    (hsy : f'.syncer = f.syncer) (hw : waitingSync f'.pc = true → waitingSync f.pc = true)
    (hsec : inSecB f'.pc f'.depth = true → inSecB f.pc f.depth = true)
    (hrel : f'.pc = .sxRelOut → f'.depth = 0) : InvSy s' := by
  obtain ⟨h1, h2, h3, h4, h5⟩ := h
  refine ⟨?_, ?_, ?_, ?_, ?_⟩
  · intro j g hg hwg
    rw [hfs] at hg
    rcases set_cases hf hg with ⟨rfl, rfl⟩ | ⟨_, hg⟩
    · rw [hv, hsy]; exact h1 _ f hf (hw hwg)
    · rw [hv]; exact h1 j g hg hwg
  · intro j g hg hwg
    rw [hfs] at hg
    rcases set_cases hf hg with ⟨rfl, rfl⟩ | ⟨_, hg⟩
    · rw [hv, hsy, hS]; exact h2 _ f hf (hsec hwg)
    · rw [hv, hS]; exact h2 j g hg hwg
  · intro k o u hk; rw [hv] at hk; rw [hS]; exact h3 k o u hk
  · intro k o il hk; rw [hv] at hk; rw [hS]; exact h4 k o il hk
  · intro j g hg hp
    rw [hfs] at hg
    rcases set_cases hf hg with ⟨rfl, rfl⟩ | ⟨_, hg⟩
    · exact hrel hp
    · exact h5 j g hg hp

theorem stepF_Sy {s s' : State} {i : Nat} (h : InvSy s) (hs : stepF s i = some s') : InvSy s' := by
  f_cases hs s i f hf hpc
  all_goals first
    | exact h.frameF hf rfl rfl (fun _ => rfl) rfl (by simp [hpc, waitingSync]) (by simp [hpc, inSecB] <;> omega) (by simp)
    | exact h.frameF hf rfl rfl (viewT_append_none rfl) rfl (by simp [hpc, waitingSync]) (by simp [hpc, inSecB]) (by simp)
    | skip
  · -- seCreate : `self.syncer = SyncTask()`  (both locks held, nobody else knows the task)
    obtain ⟨h1, h2, h3, h4, h5⟩ := h
    have hnew : viewT (s.tasks ++ [Kind.sync (i + 2) true true 0]) s.tasks.length = some (i + 2, true, true) :=
      viewT_append_new
    have hold : ∀ k v, viewT s.tasks k = some v → viewT (s.tasks ++ [Kind.sync (i + 2) true true 0]) k = some v := by
      intro k v hk; rw [viewT_append_lt (viewT_some_lt hk)]; exact hk
    have hback : ∀ k v, viewT (s.tasks ++ [Kind.sync (i + 2) true true 0]) k = some v →
        (k = s.tasks.length ∧ v = (i + 2, true, true)) ∨ viewT s.tasks k = some v := by
      intro k v hk
      rcases Nat.lt_or_ge k s.tasks.length with hlt | hge
      · rw [viewT_append_lt hlt] at hk; exact Or.inr hk
      · rcases Nat.eq_or_lt_of_le hge with heq | hgt
        · subst heq; rw [hnew] at hk; cases hk; exact Or.inl ⟨rfl, rfl⟩
        · have : (s.tasks ++ [Kind.sync (i + 2) true true 0])[k]? = none := List.getElem?_eq_none (by simp; omega)
          simp [viewT, this] at hk
    refine ⟨?_, ?_, ?_, ?_, ?_⟩
    rotate_right
    · intro j g hg hp
      rcases set_cases hf hg with ⟨rfl, rfl⟩ | ⟨_, hg⟩
      · cases hp
      · exact h5 j g hg hp
    · intro j g hg hwg
      rcases set_cases hf hg with ⟨rfl, rfl⟩ | ⟨_, hg⟩
      · exact ⟨true, true, hnew⟩
      · obtain ⟨il, ol, hv⟩ := h1 j g hg hwg; exact ⟨il, ol, hold _ _ hv⟩
    · intro j g hg hwg
      rcases set_cases hf hg with ⟨rfl, rfl⟩ | ⟨_, hg⟩
      · simp [inSecB] at hwg
      · obtain ⟨hv, hp⟩ := h2 j g hg hwg; exact ⟨hold _ _ hv, hp⟩
    · intro k o u hk
      rcases hback k _ hk with ⟨_, hv⟩ | hk
      · cases hv
      · exact h3 k o u hk
    · intro k o il hk
      rcases hback k _ hk with ⟨_, hv⟩ | hk
      · cases hv
      · exact h4 k o il hk
  · -- seAcqIn : `self.syncer.inlock.acquire()` succeeds
    rename_i _ o u ph hk
    obtain ⟨h1, h2, h3, h4, h5⟩ := h
    have hold : viewT s.tasks f.syncer = some (o, false, u) := by simp [viewT, hk, syncView]
    obtain ⟨hu, hS⟩ := h3 _ _ _ hold
    subst hu
    have ho : o = i + 2 := by
      obtain ⟨il, ol, hv⟩ := h1 i f hf (by simp [hpc, waitingSync]); rw [hold] at hv; cases hv; rfl
    subst ho
    refine ⟨?_, ?_, ?_, ?_, ?_⟩
    · intro j g hg hwg
      rcases set_cases hf hg with ⟨rfl, rfl⟩ | ⟨_, hg⟩
      · simp [waitingSync] at hwg
      · obtain ⟨il, ol, hv⟩ := h1 j g hg hwg
        by_cases hkk : g.syncer = f.syncer
        · rw [hkk] at hv ⊢; rw [hold] at hv; cases hv
          exact ⟨true, true, by rw [viewT_set_at hk]; rfl⟩
        · exact ⟨il, ol, by rw [viewT_set_ne hkk]; exact hv⟩
    · intro j g hg hwg
      rcases set_cases hf hg with ⟨rfl, rfl⟩ | ⟨_, hg⟩
      · exact ⟨by rw [viewT_set_at hk]; rfl, hS⟩
      · obtain ⟨hv, hp⟩ := h2 j g hg hwg
        by_cases hkk : g.syncer = f.syncer
        · rw [hkk, hold] at hv; cases hv
        · exact ⟨by rw [viewT_set_ne hkk]; exact hv, hp⟩
    · intro k' o' u' hv
      by_cases hkk : k' = f.syncer
      · subst hkk; rw [viewT_set_at hk] at hv; cases hv
      · rw [viewT_set_ne hkk] at hv; exact h3 k' o' u' hv
    · intro k' o' il' hv
      by_cases hkk : k' = f.syncer
      · subst hkk; rw [viewT_set_at hk] at hv; cases hv
      · rw [viewT_set_ne hkk] at hv; exact h4 k' o' il' hv
    · intro j g hg hp
      rcases set_cases hf hg with ⟨rfl, rfl⟩ | ⟨_, hg⟩
      · cases hp
      · exact h5 j g hg hp
  · -- sxRelOut : `self.syncer.outlock.release()`
    rename_i _ o il ph hk
    obtain ⟨h1, h2, h3, h4, h5⟩ := h
    have hold : viewT s.tasks f.syncer = some (o, il, true) := by simp [viewT, hk, syncView]
    obtain ⟨hv0, hS⟩ := h2 i f hf (by simp [hpc, inSecB])
    rw [hold] at hv0; cases hv0
    have hd := h5 i f hf hpc
    refine ⟨?_, ?_, ?_, ?_, ?_⟩
    · intro j g hg hwg
      rcases set_cases hf hg with ⟨rfl, rfl⟩ | ⟨_, hg⟩
      · simp [waitingSync] at hwg
      · obtain ⟨il, ol, hv⟩ := h1 j g hg hwg
        by_cases hkk : g.syncer = f.syncer
        · rw [hkk] at hv ⊢; rw [hold] at hv; cases hv
          exact ⟨true, false, by rw [viewT_set_at hk]; rfl⟩
        · exact ⟨il, ol, by rw [viewT_set_ne hkk]; exact hv⟩
    · intro j g hg hwg
      rcases set_cases hf hg with ⟨rfl, rfl⟩ | ⟨hne, hg⟩
      · simp [inSecB, hd] at hwg
      · obtain ⟨hv, hp⟩ := h2 j g hg hwg
        by_cases hkk : g.syncer = f.syncer
        · rw [hkk, hold] at hv; cases hv; exact absurd rfl hne
        · exact ⟨by rw [viewT_set_ne hkk]; exact hv, hp⟩
    · intro k' o' u' hv
      by_cases hkk : k' = f.syncer
      · subst hkk; rw [viewT_set_at hk] at hv; cases hv
      · rw [viewT_set_ne hkk] at hv; exact h3 k' o' u' hv
    · intro k' o' il' hv
      by_cases hkk : k' = f.syncer
      · subst hkk; exact hS
      · rw [viewT_set_ne hkk] at hv; exact h4 k' o' il' hv
    · intro j g hg hp
      rcases set_cases hf hg with ⟨rfl, rfl⟩ | ⟨_, hg⟩
      · cases hp
      · exact h5 j g hg hp

theorem init_fs {threaded : Bool} {users : List (List UItem)} {progs : List (List Op)} {i : Nat} {f : FThread}
    (h : (Handoff.init threaded users progs).fs[i]? = some f) : ∃ p, f = { prog := p } := by
  simp only [Handoff.init, List.getElem?_map] at h
  rcases hp : progs[i]? with _ | p
  · simp [hp] at h
  · simp [hp] at h; exact ⟨p, h.symm⟩

theorem init_view (threaded : Bool) (users : List (List UItem)) (progs : List (List Op)) (k : Nat) :
    viewT (Handoff.init threaded users progs).tasks k = none := by
  simp only [Handoff.init, viewT, List.getElem?_map]
  rcases users[k]? with _ | u <;> simp [syncView]

theorem init_Sy (threaded : Bool) (users : List (List UItem)) (progs : List (List Op)) :
    InvSy (Handoff.init threaded users progs) := by
  refine ⟨?_, ?_, ?_, ?_, ?_⟩
  · intro i f hf hw; obtain ⟨p, rfl⟩ := init_fs hf; simp [waitingSync] at hw
  · intro i f hf hw; obtain ⟨p, rfl⟩ := init_fs hf; simp [inSecB] at hw
  · intro k o u hk; rw [init_view] at hk; cases hk
  · intro k o il hk; rw [init_view] at hk; cases hk
  · intro i f hf hp; obtain ⟨p, rfl⟩ := init_fs hf; cases hp

theorem reach_Sy {threaded users progs} {s : State} (hr : Reachable threaded users progs s) : InvSy s :=
  hr.induct (init_Sy _ _ _) (fun _ _ _ h hs => stepS_Sy h hs) (fun _ _ _ h hs => stepH_Sy h hs)
    (fun _ _ _ _ h hs => stepF_Sy h hs) (fun _ _ _ _ h hs => stepT_Sy h hs)

end Pox.Handoff
