import PoxModel.Proofs.Discovery
import PoxModel.Proofs.STreeMods
/-! The NO_FLOOD state on the switches after a history (C19): replaying, per connection, the port_mods the model sends — a new
    connection starts with no port_mod received — gives exactly `_prev`.  Either variant.  Core only. -/
namespace Pox.Discovery
open Pox Pox.STree

/-- effect of one op's outputs on the switches: ConnectionUp of `d` starts a new connection (nothing received yet on it), then the
    port_mods of the op are applied in the order sent -/
def bitsStep (b : Prev) (op : Op) (o : Out) : Prev :=
  applyMods (match op with | .up d _ => b.clear d | _ => b) o.mods

/-- per-(switch, port) flood state after a history, reconstructed from the messages only -/
def bitsRun (v : Variant) : DState → Prev → List Op → Prev
  | _, b, [] => b
  | s, b, op :: ops => bitsRun v (step v s op).1 (bitsStep b op (step v s op).2) ops

theorem handle_mods (v : Variant) (adjNow : List Link) (order : List Nat) (conns : Conns) (link : Link)
    (acc : Prev × List PortMod × Nat) :
    ∃ new, (handleLinkEvent v adjNow order conns link acc).2.1 = acc.2.1 ++ new ∧
      ∀ b, Agree b acc.1 → Agree (applyMods b new) (handleLinkEvent v adjNow order conns link acc).1 := by
  unfold handleLinkEvent
  split
  · exact ⟨[], by simp, fun b h => h⟩
  · cases hu : updateTree v.visitAll adjNow order conns acc.1 with
    | error e => exact ⟨[], by simp, fun b h => h⟩
    | ok r =>
      have := (updateTree_mods v.visitAll adjNow order conns acc.1 r.1 r.2 (by rw [hu])).1
      exact ⟨r.2, rfl, this⟩

theorem handleAll_mods (v : Variant) (adjNow : List Link) (order : List Nat) (conns : Conns) :
    ∀ (links : List Link) (acc : Prev × List PortMod × Nat),
      ∃ new, (handleAll v adjNow order conns links acc).2.1 = acc.2.1 ++ new ∧
        ∀ b, Agree b acc.1 → Agree (applyMods b new) (handleAll v adjNow order conns links acc).1
  | [], acc => ⟨[], by simp [handleAll], fun b h => h⟩
  | l :: ls, acc => by
    obtain ⟨n1, e1, a1⟩ := handle_mods v adjNow order conns l acc
    obtain ⟨n2, e2, a2⟩ := handleAll_mods v adjNow order conns ls (handleLinkEvent v adjNow order conns l acc)
    refine ⟨n1 ++ n2, by rw [handleAll, e2, e1, List.append_assoc], ?_⟩
    intro b hb
    rw [handleAll, applyMods_append]
    exact a2 _ (a1 b hb)

theorem deleteLinks_bits (v : Variant) (s : DState) (links : List Link) (order : List Nat) (b : Prev) (hb : Agree b s.prev) :
    Agree (applyMods b (deleteLinks v s links order).2.mods) (deleteLinks v s links order).1.prev := by
  obtain ⟨new, e, a⟩ := handleAll_mods v (if v.popFirst then keys (without s.adj links) else keys s.adj) order s.conns links
    (s.prev, [], 0)
  simp only [List.nil_append] at e
  show Agree (applyMods b (handleAll v _ order s.conns links (s.prev, [], 0)).2.1) (handleAll v _ order s.conns links (s.prev, [], 0)).1
  rw [e]
  exact a b hb

theorem step_bits (v : Variant) (s : DState) (op : Op) (b : Prev) (hb : Agree b s.prev) :
    Agree (bitsStep b op (step v s op).2) (step v s op).1.prev := by
  cases op with
  | tick dt => exact hb
  | up d ps =>
    intro k
    simp only [bitsStep, step, applyMods, List.foldl_nil]
    rw [Prev.get_clear, Prev.get_clear, hb k]
  | down d o => exact deleteLinks_bits v _ _ o b hb
  | sweep o =>
    simp only [step, bitsStep]
    split
    · exact hb
    · exact deleteLinks_bits v s _ o b hb
  | probe l o =>
    simp only [step, bitsStep]
    split
    · exact hb
    · split
      · exact hb
      · split
        · exact hb
        · obtain ⟨new, e, a⟩ := handle_mods v (keys (s.adj ++ [(l, s.now)])) o s.conns l (s.prev, [], 0)
          simp only [List.nil_append] at e
          simp only []
          rw [e]
          exact a b hb

/-- BITS = `_prev`: after every history, the flood state of every port as determined by the port_mods alone is what `_prev` says -/
theorem run_bits (v : Variant) : ∀ (ops : List Op) (s : DState) (b : Prev), Agree b s.prev →
    Agree (bitsRun v s b ops) (runOps v s ops).1.prev
  | [], _, _, h => h
  | op :: ops, s, b, h => by
    rw [runOps_cons]
    exact run_bits v ops _ _ (step_bits v s op b h)

end Pox.Discovery
