import PoxModel.Proofs.STree
/-! Culling step of `_calc_spanning_tree` (C19): the culled neighbour relation is exactly "joined by a link in both directions",
    it is symmetric, irreflexive when no link joins a switch to itself, and stays inside the `switches` set; with the traversal
    theorem of `Proofs/STree.lean` this gives the correctness of `calcEdges` / `calcTree`.  Core only. -/
namespace Pox.STree

/-- `a` and `b` are joined by a link `a→b` whose reverse is also in the adjacency -/
def Bidir (adj : List Link) (a b : Nat) : Prop := ∃ l ∈ adj, l.dpid1 = a ∧ l.dpid2 = b ∧ l.flip ∈ adj

theorem Link.flip_flip (l : Link) : l.flip.flip = l := rfl

theorem Bidir.symm {adj : List Link} {a b : Nat} (h : Bidir adj a b) : Bidir adj b a := by
  obtain ⟨l, hl, h1, h2, hf⟩ := h
  exact ⟨l.flip, hf, h2, h1, by simpa [Link.flip_flip] using hl⟩

theorem mem_dedup (x : Nat) : ∀ (l seen : List Nat), x ∈ dedup seen l ↔ x ∈ l ∧ x ∉ seen
  | [], seen => by simp [dedup]
  | y :: ys, seen => by
    unfold dedup
    by_cases hy : y ∈ seen
    · simp only [hy, if_true, mem_dedup x ys seen, List.mem_cons]
      constructor
      · rintro ⟨a, b⟩; exact ⟨.inr a, b⟩
      · rintro ⟨a | a, b⟩
        · exact absurd (a ▸ hy) b
        · exact ⟨a, b⟩
    · simp only [hy, if_false, List.mem_cons, mem_dedup x ys (y :: seen)]
      constructor
      · rintro (a | ⟨a, b⟩)
        · exact ⟨.inl a, a ▸ hy⟩
        · exact ⟨.inr a, fun c => b (.inr c)⟩
      · rintro ⟨a | a, b⟩
        · exact .inl a
        · by_cases hxy : x = y
          · exact .inl hxy
          · exact .inr ⟨a, fun c => by rcases c with c | c; exact hxy c; exact b c⟩

theorem mem_endsOf (x : Nat) : ∀ (adj : List Link), x ∈ endsOf adj ↔ ∃ l ∈ adj, x = l.dpid1 ∨ x = l.dpid2
  | [] => by simp [endsOf]
  | l :: ls => by
    simp only [endsOf, List.mem_cons, mem_endsOf x ls]
    constructor
    · rintro (h | h | ⟨m, hm, h⟩)
      · exact ⟨l, .inl rfl, .inl h⟩
      · exact ⟨l, .inl rfl, .inr h⟩
      · exact ⟨m, .inr hm, h⟩
    · rintro ⟨m, hm | hm, h⟩
      · subst hm; rcases h with h | h; exact .inl h; exact .inr (.inl h)
      · exact .inr (.inr ⟨m, hm, h⟩)

theorem mem_switchesOf (x : Nat) (adj : List Link) : x ∈ switchesOf adj ↔ ∃ l ∈ adj, x = l.dpid1 ∨ x = l.dpid2 := by
  unfold switchesOf; rw [mem_dedup, mem_endsOf]; simp

theorem goodLink_some {adj : List Link} {a b : Nat} {l : Link} (h : goodLink adj a b = some l) :
    l ∈ adj ∧ l.dpid1 = a ∧ l.dpid2 = b ∧ l.flip ∈ adj := by
  unfold goodLink at h
  have hm := List.mem_of_find?_eq_some h
  have hp := List.find?_some h
  unfold linksFrom at hm
  rw [List.mem_filter] at hm
  simp only [Bool.and_eq_true, decide_eq_true_eq] at hm hp
  exact ⟨hm.1, hm.2.1, hm.2.2, hp⟩

theorem goodLink_isSome (adj : List Link) (a b : Nat) : (goodLink adj a b).isSome = true ↔ Bidir adj a b := by
  constructor
  · intro h
    obtain ⟨l, hl⟩ := Option.isSome_iff_exists.mp h
    obtain ⟨h1, h2, h3, h4⟩ := goodLink_some hl
    exact ⟨l, h1, h2, h3, h4⟩
  · rintro ⟨l, hl, h1, h2, hf⟩
    unfold goodLink
    rw [List.find?_isSome]
    refine ⟨l, ?_, by simpa using hf⟩
    unfold linksFrom
    rw [List.mem_filter]
    exact ⟨hl, by simp [h1, h2]⟩

theorem mem_dedupP (x : Nat × Nat) : ∀ (l seen : List (Nat × Nat)), x ∈ dedupP seen l ↔ x ∈ l ∧ x ∉ seen
  | [], seen => by simp [dedupP]
  | y :: ys, seen => by
    unfold dedupP
    by_cases hy : y ∈ seen
    · simp only [hy, if_true, mem_dedupP x ys seen, List.mem_cons]
      constructor
      · rintro ⟨a, b⟩; exact ⟨.inr a, b⟩
      · rintro ⟨a | a, b⟩
        · exact absurd (a ▸ hy) b
        · exact ⟨a, b⟩
    · simp only [hy, if_false, List.mem_cons, mem_dedupP x ys (y :: seen)]
      constructor
      · rintro (a | ⟨a, b⟩)
        · exact ⟨.inl a, a ▸ hy⟩
        · exact ⟨.inr a, fun c => b (.inr c)⟩
      · rintro ⟨a | a, b⟩
        · exact .inl a
        · by_cases hxy : x = y
          · exact .inl hxy
          · exact .inr ⟨a, fun c => by rcases c with c | c; exact hxy c; exact b c⟩

theorem mem_keysOf (adj : List Link) (k : Nat × Nat) : k ∈ keysOf adj ↔ ∃ l ∈ adj, (l.dpid1, l.dpid2) = k := by
  unfold keysOf
  rw [mem_dedupP, List.mem_map]
  simp

theorem mem_nbrs (adj : List Link) (a b : Nat) : b ∈ nbrs adj a ↔ Bidir adj a b := by
  unfold nbrs
  rw [List.mem_map]
  constructor
  · rintro ⟨k, hk, rfl⟩
    rw [List.mem_filter] at hk
    simp only [Bool.and_eq_true, decide_eq_true_eq] at hk
    obtain ⟨_, h1, h2⟩ := hk
    rw [h1] at h2
    exact (goodLink_isSome adj a k.2).mp h2
  · intro h
    refine ⟨(a, b), ?_, rfl⟩
    rw [List.mem_filter]
    refine ⟨?_, by simpa using (goodLink_isSome adj a b).mpr h⟩
    obtain ⟨l, hl, h1, h2, _⟩ := h
    exact (mem_keysOf adj (a, b)).mpr ⟨l, hl, by rw [h1, h2]⟩

theorem nbrs_sym (adj : List Link) (a b : Nat) (h : b ∈ nbrs adj a) : a ∈ nbrs adj b :=
  (mem_nbrs adj b a).mpr ((mem_nbrs adj a b).mp h).symm

theorem nbrs_irr (adj : List Link) (hns : ∀ l ∈ adj, l.dpid1 ≠ l.dpid2) (a : Nat) : a ∉ nbrs adj a := by
  intro h
  obtain ⟨l, hl, h1, h2, _⟩ := (mem_nbrs adj a a).mp h
  exact hns l hl (h1.trans h2.symm)

theorem nbrs_sub (adj : List Link) (v w : Nat) (h : w ∈ nbrs adj v) : w ∈ switchesOf adj := by
  obtain ⟨l, hl, _, h2, _⟩ := (mem_nbrs adj v w).mp h
  exact (mem_switchesOf w adj).mpr ⟨l, hl, .inr h2.symm⟩

theorem hasSelfLink_false (adj : List Link) (hns : ∀ l ∈ adj, l.dpid1 ≠ l.dpid2) : hasSelfLink adj = false := by
  unfold hasSelfLink
  rw [List.any_eq_false]
  intro l hl
  simpa using hns l hl

/-- connectivity under an arbitrary relation (used for "connected by bidirectional links") -/
inductive RConn (R : Nat → Nat → Prop) : Nat → Nat → Prop
  | refl (a) : RConn R a a
  | step {a b} : R a b → RConn R a b
  | symm {a b} : RConn R a b → RConn R b a
  | trans {a b c} : RConn R a b → RConn R b c → RConn R a c

/-- `_calc_spanning_tree` at switch level, for EVERY adjacency without self-links: it returns (no exception, fuel suffices);
    the edges were attached leaf by leaf (forest); every edge joins two switches that have a link in both directions;
    and two switches are connected in the tree iff they are connected by bidirectional links. -/
theorem calcEdges_correct (adj : List Link) (hns : ∀ l ∈ adj, l.dpid1 ≠ l.dpid2) :
    ∃ es, calcEdges adj = .ok es ∧ LeafSeq es.reverse ∧ (∀ a b, (a, b) ∈ es → Bidir adj a b) ∧
      (∀ a b, Conn es a b ↔ RConn (Bidir adj) a b) := by
  have hfuel := fuel_bound (nbrs adj) (switchesOf adj) (fun v w hw => nbrs_sub adj v w hw)
  have hc := calc_spanning_tree_correct (nbrs adj) (nbrs_sym adj) (nbrs_irr adj hns) (switchesOf adj)
    (2 * (switchesOf adj).length) hfuel
  simp only at hc
  obtain ⟨h1, h2, h3⟩ := hc
  refine ⟨(run (nbrs adj) (2 * (switchesOf adj).length) (init (switchesOf adj))).edges.reverse, ?_, ?_, ?_, ?_⟩
  · unfold calcEdges
    simp [hasSelfLink_false adj hns, hfuel]
  · simpa using h2
  · intro a b hab
    exact (mem_nbrs adj a b).mp (h1 a b (by simpa using hab))
  · intro a b
    constructor
    · intro h
      induction h with
      | refl a => exact .refl a
      | edge he => exact .step ((mem_nbrs adj _ _).mp (h1 _ _ (by simpa using he)))
      | symm _ ih => exact .symm ih
      | trans _ _ i1 i2 => exact .trans i1 i2
    · intro h
      induction h with
      | refl a => exact .refl a
      | step hr =>
        rename_i x y
        have hx : x ∈ switchesOf adj := by
          obtain ⟨l, hl, e1, _, _⟩ := hr
          exact (mem_switchesOf x adj).mpr ⟨l, hl, .inl e1.symm⟩
        exact Conn.mono (by intro e he; simpa using he) (h3 x hx y ((mem_nbrs adj x y).mpr hr))
      | symm _ ih => exact .symm ih
      | trans _ _ i1 i2 => exact .trans i1 i2

theorem before_asymm : ∀ (order : List Nat) (a b : Nat), before order a b = true → before order b a = false
  | [], _, _, h => by simp [before] at h
  | x :: xs, a, b, h => by
    unfold before at h ⊢
    by_cases hxa : x = a
    · simp only [hxa, if_true, decide_eq_true_eq] at h
      have : ¬ a = b := h
      simp [hxa, this]
    · by_cases hxb : x = b
      · rw [if_neg hxa, if_pos hxb] at h
        exact absurd h (by simp)
      · simp only [hxa, hxb, if_false] at h ⊢
        exact before_asymm xs a b h

theorem before_total : ∀ (order : List Nat) (a b : Nat), a ∈ order → a ≠ b → before order a b = false → before order b a = true
  | [], _, _, ha, _, _ => by simp at ha
  | x :: xs, a, b, ha, hab, h => by
    unfold before at h ⊢
    by_cases hxa : x = a
    · simp [hxa, hab] at h
    · by_cases hxb : x = b
      · have : ¬ b = a := fun c => hab c.symm
        simp [hxb, this]
      · simp only [hxa, hxb, if_false] at h ⊢
        rcases List.mem_cons.mp ha with c | c
        · exact absurd c.symm hxa
        · exact before_total xs a b c hab h

/-- in `pre ++ a :: post`, `a` comes before every `b ≠ a` that is not in `pre` -/
theorem before_of_split : ∀ (pre : List Nat) (a : Nat) (post : List Nat) (b : Nat), b ∉ pre → a ≠ b →
    before (pre ++ a :: post) a b = true
  | [], a, post, b, _, hab => by simp [before, hab]
  | x :: pre, a, post, b, hb, hab => by
    have hxb : x ≠ b := fun c => hb (by simp [c])
    have hb' : b ∉ pre := fun c => hb (by simp [c])
    simp only [List.cons_append, before]
    by_cases hxa : x = a
    · simp [hxa, hab]
    · simp only [hxa, hxb, if_false]
      exact before_of_split pre a post b hb' hab

/-- the two ports recorded for a tree edge are the two ends of one link that is in the adjacency in both directions -/
theorem ports_are_link (adj : List Link) (order : List Nat) (v w pv pw : Nat) (hvw : v ≠ w) (hv : v ∈ order) (hw : w ∈ order)
    (h1 : portToward adj order v w = some pv) (h2 : portToward adj order w v = some pw) :
    (⟨v, pv, w, pw⟩ : Link) ∈ adj ∧ (⟨w, pw, v, pv⟩ : Link) ∈ adj := by
  unfold portToward at h1 h2
  by_cases hb : before order v w = true
  · have hb' := before_asymm order v w hb
    simp only [hb, hb', if_true, Bool.false_eq_true, if_false, Option.map_eq_some_iff] at h1 h2
    obtain ⟨l, hl, rfl⟩ := h1
    obtain ⟨l', hl', rfl⟩ := h2
    rw [hl] at hl'; cases hl'
    obtain ⟨g1, g2, g3, g4⟩ := goodLink_some hl
    subst g2; subst g3
    exact ⟨g1, g4⟩
  · have hb0 : before order v w = false := by simpa using hb
    have hb' := before_total order v w hv hvw hb0
    simp only [hb0, hb', if_true, Bool.false_eq_true, if_false, Option.map_eq_some_iff] at h1 h2
    obtain ⟨l, hl, rfl⟩ := h1
    obtain ⟨l', hl', rfl⟩ := h2
    rw [hl] at hl'; cases hl'
    obtain ⟨g1, g2, g3, g4⟩ := goodLink_some hl
    subst g2; subst g3
    exact ⟨g4, g1⟩

theorem portToward_isSome (adj : List Link) (order : List Nat) (a b : Nat) (h : Bidir adj a b) :
    ∃ p, portToward adj order a b = some p := by
  unfold portToward
  have h1 := (goodLink_isSome adj a b).mpr h
  have h2 := (goodLink_isSome adj b a).mpr h.symm
  obtain ⟨l1, e1⟩ := Option.isSome_iff_exists.mp h1
  obtain ⟨l2, e2⟩ := Option.isSome_iff_exists.mp h2
  split
  · exact ⟨_, by rw [e1]; rfl⟩
  · exact ⟨_, by rw [e2]; rfl⟩

theorem withPorts_ok (adj : List Link) (order : List Nat) :
    ∀ (es : List (Nat × Nat)), (∀ a b, (a, b) ∈ es → Bidir adj a b) →
      ∃ t, withPorts adj order es = .ok t ∧ t.map (fun e => (e.v, e.w)) = es ∧
        ∀ e ∈ t, portToward adj order e.v e.w = some e.pv ∧ portToward adj order e.w e.v = some e.pw
  | [], _ => ⟨[], rfl, rfl, by simp⟩
  | (v, w) :: r, h => by
    obtain ⟨t, ht, hm, hp⟩ := withPorts_ok adj order r (fun a b hab => h a b (List.mem_cons_of_mem _ hab))
    obtain ⟨pv, e1⟩ := portToward_isSome adj order v w (h v w (by simp))
    obtain ⟨pw, e2⟩ := portToward_isSome adj order w v (h v w (by simp)).symm
    refine ⟨⟨v, pv, w, pw⟩ :: t, ?_, by simp [hm], ?_⟩
    · unfold withPorts; simp only [e1, e2, ht]; rfl
    · intro e he
      rcases List.mem_cons.mp he with c | c
      · subst c; exact ⟨e1, e2⟩
      · exact hp e c

end Pox.STree
