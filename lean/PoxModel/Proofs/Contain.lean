import PoxModel.Model.Framing
/-! Helper lemmas for C10 (containment of malformed input).  `U` is completely unconstrained here. Core only. -/
namespace Pox.Framing
variable {Msg : Type}

/-- iterations the controller loop can need from offset `off` -/
def ctlBound (buf : Bytes) (off : Nat) : Nat := (buf.length - off) / 8 + 1

theorem ctl_fuel_indep (U : Unpack Msg) : ∀ (f1 f2 : Nat) (buf : Bytes) (off : Nat) (acc : List Msg),
    ctlBound buf off ≤ f1 → ctlBound buf off ≤ f2 →
    ctlLoop U 8 f1 buf off acc = ctlLoop U 8 f2 buf off acc := by
  intro f1
  induction f1 with
  | zero => intro f2 buf off acc h1; unfold ctlBound at h1; omega
  | succ f1 ih =>
    intro f2 buf off acc h1 h2
    cases f2 with
    | zero => unfold ctlBound at h2; omega
    | succ f2 =>
      rw [ctlLoop, ctlLoop]
      simp only []
      by_cases c1 : buf.length - off < 8
      · simp only [if_pos c1]
      · by_cases c2 : byteAt buf off ≠ 1 ∧ byteAt buf (off + 1) ≠ 0
        · simp only [if_neg c1, if_pos c2]
        · by_cases c3 : declLen buf off < 8
          · simp only [if_neg c1, if_neg c2, if_pos c3]
          · by_cases c4 : buf.length - off < declLen buf off
            · simp only [if_neg c1, if_neg c2, if_neg c3, if_pos c4]
            · simp only [if_neg c1, if_neg c2, if_neg c3, if_neg c4]
              cases hU : U (byteAt buf (off + 1)) buf off with
              | raise => rfl
              | none => rfl
              | ok p =>
                obtain ⟨off', m⟩ := p
                simp only []
                by_cases c5 : off' - off ≠ declLen buf off ∨ off' < off
                · simp only [if_pos c5]
                · simp only [if_neg c5]
                  have hb : ctlBound buf off' ≤ f1 ∧ ctlBound buf off' ≤ f2 := by
                    unfold ctlBound at *
                    omega
                  exact ih f2 buf off' (acc ++ [m]) hb.1 hb.2

/-- iterations the switch loop can need on a buffer -/
def swBound (buf : Bytes) : Nat := buf.length / 8 + 1

theorem sw_fuel_indep (U : Unpack Msg) : ∀ (f1 f2 : Nat) (buf : Bytes) (acc : List Msg),
    swBound buf ≤ f1 → swBound buf ≤ f2 → swLoop U f1 buf acc = swLoop U f2 buf acc := by
  intro f1
  induction f1 with
  | zero => intro f2 buf acc h1; unfold swBound at h1; omega
  | succ f1 ih =>
    intro f2 buf acc h1 h2
    cases f2 with
    | zero => unfold swBound at h2; omega
    | succ f2 =>
      rw [swLoop, swLoop]
      simp only []
      by_cases c1 : buf.length < 4
      · simp only [if_pos c1]
      · by_cases c2 : byteAt buf 0 ≠ 1
        · simp only [if_neg c1, if_pos c2]
        · by_cases c3 : declLen buf 0 < 8
          · simp only [if_neg c1, if_neg c2, if_pos c3]
          · by_cases c4 : declLen buf 0 > buf.length
            · simp only [if_neg c1, if_neg c2, if_neg c3, if_pos c4]
            · simp only [if_neg c1, if_neg c2, if_neg c3, if_neg c4]
              have hb : swBound (buf.drop (declLen buf 0)) ≤ f1 ∧ swBound (buf.drop (declLen buf 0)) ≤ f2 := by
                unfold swBound at *
                simp only [List.length_drop]
                omega
              cases hU : U (byteAt buf 1) buf 0 with
              | raise => exact ih f2 _ acc hb.1 hb.2
              | none => exact ih f2 _ acc hb.1 hb.2
              | ok p =>
                obtain ⟨off', m⟩ := p
                simp only []
                by_cases c5 : off' ≠ declLen buf 0
                · simp only [if_pos c5]; exact ih f2 _ acc hb.1 hb.2
                · simp only [if_neg c5]; exact ih f2 _ _ hb.1 hb.2

/-- the fuel that `ctlFeed`/`swFeed` supply is enough -/
theorem ctlBound_le (buf : Bytes) : ctlBound buf 0 ≤ buf.length + 1 := by unfold ctlBound; omega
theorem swBound_le (buf : Bytes) : swBound buf ≤ buf.length + 1 := by unfold swBound; omega

/-- without the length guard (the code before repair D4) the loop need not terminate: a HELLO whose length field is 0,
    with a decoder that trusts that field, is "consumed" for ever -/
def zeroHello : Bytes := [1, 0, 0, 0, 0, 0, 0, 0]
def trustingU : Unpack Unit := fun _ buf off => .ok (off + declLen buf off, ())

theorem ctl_spins_aux : ∀ (fuel : Nat) (acc : List Unit),
    (ctlLoop trustingU 0 fuel zeroHello 0 acc).2.1.length = acc.length + fuel := by
  intro fuel
  induction fuel with
  | zero => intro acc; rfl
  | succ f ih =>
    intro acc
    unfold ctlLoop
    have h1 : ¬ (zeroHello.length - 0 < 8) := by decide
    have h2 : ¬ (byteAt zeroHello 0 ≠ 1 ∧ byteAt zeroHello (0+1) ≠ 0) := by decide
    have h3 : declLen zeroHello 0 = 0 := by decide
    simp only [h1, h2, h3, if_false, Nat.lt_irrefl, trustingU, Nat.add_zero, Nat.sub_self, ne_eq, not_true_eq_false,
      false_or, Nat.not_lt_zero]
    have := ih (acc ++ [()])
    simp only [List.length_append, List.length_cons, List.length_nil] at this
    simp only [Nat.zero_add] at *
    omega

/-- the switch loop never reports an escaped exception -/
theorem swLoop_never_dead (U : Unpack Msg) : ∀ (fuel : Nat) (buf : Bytes) (acc : List Msg),
    (swLoop U fuel buf acc).2.2 ≠ .dead := by
  intro fuel
  induction fuel with
  | zero => intro buf acc; simp [swLoop]
  | succ f ih =>
    intro buf acc
    rw [swLoop]
    simp only []
    by_cases c1 : buf.length < 4
    · simp [if_pos c1]
    · by_cases c2 : byteAt buf 0 ≠ 1
      · simp [if_neg c1, if_pos c2]
      · by_cases c3 : declLen buf 0 < 8
        · simp [if_neg c1, if_neg c2, if_pos c3]
        · by_cases c4 : declLen buf 0 > buf.length
          · simp [if_neg c1, if_neg c2, if_neg c3, if_pos c4]
          · simp only [if_neg c1, if_neg c2, if_neg c3, if_neg c4]
            cases hU : U (byteAt buf 1) buf 0 with
            | raise => exact ih _ _
            | none => exact ih _ _
            | ok p =>
              obtain ⟨off', m⟩ := p
              simp only []
              by_cases c5 : off' ≠ declLen buf 0
              · simp only [if_pos c5]; exact ih _ _
              · simp only [if_neg c5]; exact ih _ _

theorem swFeed_never_dead (U : Unpack Msg) (s : CS Msg) (c : Bytes) (h : s.st ≠ .dead) : (swFeed U s c).st ≠ .dead := by
  unfold swFeed
  cases hs : s.st with
  | alive =>
    simp only []
    have := swLoop_never_dead U ((s.buf ++ c).length + 1) (s.buf ++ c) s.delivered
    generalize swLoop U ((s.buf ++ c).length + 1) (s.buf ++ c) s.delivered = r at this
    obtain ⟨b, d, st⟩ := r
    exact this
  | closed => simp [hs]
  | dead => exact absurd hs h

/-- feeding one connection leaves every other connection's state untouched -/
theorem feedAt_others (feed : CS Msg → Bytes → CS Msg) (net : List (CS Msg)) (i j : Nat) (c : Bytes) (h : j ≠ i) :
    (feedAt feed net i c)[j]? = net[j]? := by
  unfold feedAt
  cases hi : net[i]? with
  | none => rfl
  | some x => simp [List.getElem?_set, Ne.symm h]

/-- every message the controller loop delivers was decoded from exactly its declared-length window -/
theorem ctl_window (U : Unpack Msg) : ∀ (fuel : Nat) (buf : Bytes) (off : Nat) (acc : List Msg) (m : Msg),
    m ∈ (ctlLoop U 8 fuel buf off acc).2.1 →
    m ∈ acc ∨ ∃ o n, off ≤ o ∧ o + n ≤ buf.length ∧ n = declLen buf o ∧ 8 ≤ n ∧
      U (byteAt buf (o + 1)) buf o = .ok (o + n, m) := by
  intro fuel
  induction fuel with
  | zero => intro buf off acc m h; exact .inl h
  | succ f ih =>
    intro buf off acc m h
    rw [ctlLoop] at h
    simp only [] at h
    by_cases c1 : buf.length - off < 8
    · rw [if_pos c1] at h; exact .inl h
    · by_cases c2 : byteAt buf off ≠ 1 ∧ byteAt buf (off + 1) ≠ 0
      · rw [if_neg c1, if_pos c2] at h; exact .inl h
      · by_cases c3 : declLen buf off < 8
        · rw [if_neg c1, if_neg c2, if_pos c3] at h; exact .inl h
        · by_cases c4 : buf.length - off < declLen buf off
          · rw [if_neg c1, if_neg c2, if_neg c3, if_pos c4] at h; exact .inl h
          · rw [if_neg c1, if_neg c2, if_neg c3, if_neg c4] at h
            cases hU : U (byteAt buf (off + 1)) buf off with
            | raise => rw [hU] at h; exact .inl h
            | none => rw [hU] at h; exact .inl h
            | ok p =>
              obtain ⟨off', m'⟩ := p
              rw [hU] at h
              simp only [] at h
              by_cases c5 : off' - off ≠ declLen buf off ∨ off' < off
              · rw [if_pos c5] at h; exact .inl h
              · rw [if_neg c5] at h
                rcases ih buf off' (acc ++ [m']) m h with hm | ⟨o, n, h1, h2, h3, h4, h5⟩
                · rcases List.mem_append.mp hm with hm | hm
                  · exact .inl hm
                  · simp only [List.mem_singleton] at hm
                    subst hm
                    refine .inr ⟨off, declLen buf off, Nat.le_refl _, by omega, rfl, by omega, ?_⟩
                    have : off' = off + declLen buf off := by omega
                    rw [← this]; exact hU
                · exact .inr ⟨o, n, by omega, h2, h3, h4, h5⟩

/-- every message the switch loop delivers was decoded, at offset 0, from a suffix of the buffer whose first `n`
    (declared length) bytes are its window -/
theorem sw_window (U : Unpack Msg) : ∀ (fuel : Nat) (buf : Bytes) (acc : List Msg) (m : Msg),
    m ∈ (swLoop U fuel buf acc).2.1 →
    m ∈ acc ∨ ∃ k n, k + n ≤ buf.length ∧ n = declLen (buf.drop k) 0 ∧ 8 ≤ n ∧
      U (byteAt (buf.drop k) 1) (buf.drop k) 0 = .ok (n, m) := by
  intro fuel
  induction fuel with
  | zero => intro buf acc m h; exact .inl h
  | succ f ih =>
    intro buf acc m h
    rw [swLoop] at h
    simp only [] at h
    by_cases c1 : buf.length < 4
    · rw [if_pos c1] at h; exact .inl h
    · by_cases c2 : byteAt buf 0 ≠ 1
      · rw [if_neg c1, if_pos c2] at h; exact .inl h
      · by_cases c3 : declLen buf 0 < 8
        · rw [if_neg c1, if_neg c2, if_pos c3] at h; exact .inl h
        · by_cases c4 : declLen buf 0 > buf.length
          · rw [if_neg c1, if_neg c2, if_neg c3, if_pos c4] at h; exact .inl h
          · rw [if_neg c1, if_neg c2, if_neg c3, if_neg c4] at h
            have shift : ∀ acc', m ∈ (swLoop U f (buf.drop (declLen buf 0)) acc').2.1 →
                m ∈ acc' ∨ ∃ k n, k + n ≤ buf.length ∧ n = declLen (buf.drop k) 0 ∧ 8 ≤ n ∧
                  U (byteAt (buf.drop k) 1) (buf.drop k) 0 = .ok (n, m) := by
              intro acc' hm
              rcases ih _ acc' m hm with h0 | ⟨k, n, h1, h2, h3, h4⟩
              · exact .inl h0
              · refine .inr ⟨declLen buf 0 + k, n, ?_, ?_, h3, ?_⟩
                · simp only [List.length_drop] at h1; omega
                · rw [← List.drop_drop]; exact h2
                · rw [← List.drop_drop]; exact h4
            cases hU : U (byteAt buf 1) buf 0 with
            | raise => rw [hU] at h; exact shift acc h
            | none => rw [hU] at h; exact shift acc h
            | ok p =>
              obtain ⟨off', m'⟩ := p
              rw [hU] at h
              simp only [] at h
              by_cases c5 : off' ≠ declLen buf 0
              · rw [if_pos c5] at h; exact shift acc h
              · rw [if_neg c5] at h
                rcases shift (acc ++ [m']) h with hm | hx
                · rcases List.mem_append.mp hm with hm | hm
                  · exact .inl hm
                  · simp only [List.mem_singleton] at hm
                    subst hm
                    have hoff' : off' = declLen buf 0 := by simpa using c5
                    refine .inr ⟨0, declLen buf 0, by simp; omega, by simp, by omega, ?_⟩
                    simp only [List.drop_zero]
                    rw [← hoff']; exact hU
                · exact .inr hx


/-! ### handlers that disconnect (repair C09-2) -/

/-- with handlers that never disconnect, the loop with the `disconnected` test is the plain loop -/
theorem ctlLoopD_never (U : Unpack Msg) (k : Nat) : ∀ (fuel : Nat) (buf : Bytes) (off : Nat) (acc : List Msg),
    ctlLoopD U (fun _ => false) k fuel false buf off acc = ctlLoop U k fuel buf off acc := by
  intro fuel
  induction fuel with
  | zero => intro buf off acc; rfl
  | succ f ih =>
    intro buf off acc
    rw [ctlLoopD, ctlLoop]
    simp only [Bool.false_eq_true, if_false]
    by_cases c1 : buf.length - off < 8
    · simp only [if_pos c1]
    · by_cases c2 : byteAt buf off ≠ 1 ∧ byteAt buf (off + 1) ≠ 0
      · simp only [if_neg c1, if_pos c2]
      · by_cases c3 : declLen buf off < k
        · simp only [if_neg c1, if_neg c2, if_pos c3]
        · by_cases c4 : buf.length - off < declLen buf off
          · simp only [if_neg c1, if_neg c2, if_neg c3, if_pos c4]
          · simp only [if_neg c1, if_neg c2, if_neg c3, if_neg c4]
            cases hU : U (byteAt buf (off + 1)) buf off with
            | raise => rfl
            | none => rfl
            | ok p =>
              obtain ⟨off', m⟩ := p
              simp only []
              by_cases c5 : off' - off ≠ declLen buf off ∨ off' < off
              · simp only [if_pos c5]
              · simp only [if_neg c5]; exact ih buf off' (acc ++ [m])

/-- once the connection is marked disconnected the loop delivers nothing more and never reports it alive with
    unprocessed complete input: it stops with `closed` as soon as 8 bytes are available -/
theorem ctlLoopD_disc (U : Unpack Msg) (D : Msg → Bool) (k fuel : Nat) (buf : Bytes) (off : Nat) (acc : List Msg) :
    (ctlLoopD U D k fuel true buf off acc).2.1 = acc ∧
    (8 ≤ buf.length - off → 0 < fuel → (ctlLoopD U D k fuel true buf off acc).2.2 = .closed) := by
  cases fuel with
  | zero => exact ⟨rfl, fun _ h => absurd h (Nat.lt_irrefl 0)⟩
  | succ f =>
    rw [ctlLoopD]
    by_cases c1 : buf.length - off < 8
    · simp only [if_pos c1]; exact ⟨trivial, fun h => by omega⟩
    · simp only [if_neg c1, if_true]; exact ⟨trivial, fun _ _ => trivial⟩

/-- every message delivered by one run of the loop, except possibly the last one, has a handler that did not
    disconnect: nothing is dispatched after a disconnecting handler -/
theorem ctlLoopD_last (U : Unpack Msg) (D : Msg → Bool) (k : Nat) : ∀ (fuel : Nat) (buf : Bytes) (off : Nat) (acc : List Msg),
    ∃ new, (ctlLoopD U D k fuel false buf off acc).2.1 = acc ++ new ∧ ∀ m ∈ new.dropLast, D m = false := by
  intro fuel
  induction fuel with
  | zero => intro buf off acc; exact ⟨[], by simp [ctlLoopD], by simp⟩
  | succ f ih =>
    intro buf off acc
    rw [ctlLoopD]
    simp only [Bool.false_eq_true, if_false]
    by_cases c1 : buf.length - off < 8
    · simp only [if_pos c1]; exact ⟨[], by simp, by simp⟩
    · by_cases c2 : byteAt buf off ≠ 1 ∧ byteAt buf (off + 1) ≠ 0
      · simp only [if_neg c1, if_pos c2]; exact ⟨[], by simp, by simp⟩
      · by_cases c3 : declLen buf off < k
        · simp only [if_neg c1, if_neg c2, if_pos c3]; exact ⟨[], by simp, by simp⟩
        · by_cases c4 : buf.length - off < declLen buf off
          · simp only [if_neg c1, if_neg c2, if_neg c3, if_pos c4]; exact ⟨[], by simp, by simp⟩
          · simp only [if_neg c1, if_neg c2, if_neg c3, if_neg c4]
            cases hU : U (byteAt buf (off + 1)) buf off with
            | raise => exact ⟨[], by simp, by simp⟩
            | none => exact ⟨[], by simp, by simp⟩
            | ok p =>
              obtain ⟨off', m⟩ := p
              simp only []
              by_cases c5 : off' - off ≠ declLen buf off ∨ off' < off
              · simp only [if_pos c5]; exact ⟨[], by simp, by simp⟩
              · simp only [if_neg c5]
                cases hd : D m with
                | true =>
                  have := (ctlLoopD_disc U D k f buf off' (acc ++ [m])).1
                  exact ⟨[m], by rw [this], by simp⟩
                | false =>
                  obtain ⟨new, h1, h2⟩ := ih buf off' (acc ++ [m])
                  refine ⟨m :: new, by rw [h1]; simp, ?_⟩
                  intro x hx
                  cases new with
                  | nil => simp at hx
                  | cons y ys =>
                    simp only [List.dropLast_cons_cons, List.mem_cons] at hx
                    rcases hx with rfl | hx
                    · exact hd
                    · exact h2 x hx

end Pox.Framing
