import PoxModel.Spec.OF10Table
import PoxModel.Proofs.Subsume
set_option linter.unusedSimpArgs false
/-! About the Spec only: `Spec.overlaps a b` (field-wise test) ⇔ some 12-tuple is matched by both; `Spec.identical a b` ⇔ the two
descriptions match the same 12-tuples; every description matches some 12-tuple.  Core only. -/
namespace Pox.Spec
open Pox.OF

/-- one flag field of `overlaps` -/
def FCompat (sa sb : Bool) (x y : Nat) : Bool := !(sa && sb) || x == y

theorem overlaps_eq (a b : OfMatch) : overlaps a b =
    (FCompat (significant a W_IN_PORT) (significant b W_IN_PORT) a.inPort b.inPort &&
     FCompat (significant a W_DL_SRC) (significant b W_DL_SRC) a.dlSrc b.dlSrc &&
     FCompat (significant a W_DL_DST) (significant b W_DL_DST) a.dlDst b.dlDst &&
     FCompat (significant a W_DL_VLAN) (significant b W_DL_VLAN) a.dlVlan b.dlVlan &&
     FCompat (significant a W_DL_VLAN_PCP) (significant b W_DL_VLAN_PCP) a.dlVlanPcp b.dlVlanPcp &&
     FCompat (significant a W_DL_TYPE) (significant b W_DL_TYPE) a.dlType b.dlType &&
     FCompat (significant a W_NW_TOS) (significant b W_NW_TOS) (a.nwTos / 4) (b.nwTos / 4) &&
     FCompat (significant a W_NW_PROTO) (significant b W_NW_PROTO) a.nwProto b.nwProto &&
     prefixEq (max (srcIgn a) (srcIgn b)) a.nwSrc b.nwSrc && prefixEq (max (dstIgn a) (dstIgn b)) a.nwDst b.nwDst &&
     FCompat (significant a W_TP_SRC) (significant b W_TP_SRC) a.tpSrc b.tpSrc &&
     FCompat (significant a W_TP_DST) (significant b W_TP_DST) a.tpDst b.tpDst) := by
  simp only [overlaps, fieldCompat, FCompat]

/-- the value a common 12-tuple takes in a flag field -/
def pick (sa : Bool) (x y : Nat) : Nat := if sa then x else y

theorem pick_left (sa : Bool) (x y : Nat) : FOk sa x (pick sa x y) = true := by
  cases sa <;> simp [FOk, pick]

theorem pick_right {sa sb : Bool} {x y : Nat} (h : FCompat sa sb x y = true) : FOk sb y (pick sa x y) = true := by
  cases sa <;> cases sb <;> simp_all [FOk, pick, FCompat]

theorem compat_of_common {sa sb : Bool} {x y z : Nat} (h1 : FOk sa x z = true) (h2 : FOk sb y z = true) :
    FCompat sa sb x y = true := by
  cases sa <;> cases sb <;> simp_all [FOk, FCompat]

theorem prefixEq_symm {k x y : Nat} (h : prefixEq k x y = true) : prefixEq k y x = true := by
  simp only [prefixEq, Bool.or_eq_true, decide_eq_true_eq, beq_iff_eq] at *
  exact h.imp id Eq.symm

/-- the address a common 12-tuple takes: the one under the longer prefix -/
def pickAddr (ka kb x y : Nat) : Nat := if ka ≤ kb then x else y

theorem pickAddr_ok {ka kb x y : Nat} (h : prefixEq (max ka kb) x y = true) :
    prefixEq ka x (pickAddr ka kb x y) = true ∧ prefixEq kb y (pickAddr ka kb x y) = true := by
  unfold pickAddr
  by_cases hk : ka ≤ kb
  · have : max ka kb = kb := Nat.max_eq_right hk
    rw [this] at h
    simp only [hk, if_true]
    exact ⟨prefixEq_refl _ _, prefixEq_symm h⟩
  · have : max ka kb = ka := Nat.max_eq_left (by omega)
    rw [this] at h
    simp only [hk, if_false]
    exact ⟨h, prefixEq_refl _ _⟩

theorem prefix_of_common {ka kb x y z : Nat} (h1 : prefixEq ka x z = true) (h2 : prefixEq kb y z = true) :
    prefixEq (max ka kb) x y = true := by
  simp only [prefixEq, Bool.or_eq_true, decide_eq_true_eq, beq_iff_eq] at *
  rcases h1 with h1 | h1
  · exact .inl (Nat.le_trans h1 (Nat.le_max_left _ _))
  · rcases h2 with h2 | h2
    · exact .inl (Nat.le_trans h2 (Nat.le_max_right _ _))
    · right
      rw [div_pow_mono (Nat.le_max_left ka kb) h1, div_pow_mono (Nat.le_max_right ka kb) h2]

/-- a 12-tuple matched by both `a` and `b` when they overlap -/
def commonHdr (a b : OfMatch) : Headers :=
  { inPort := pick (significant a W_IN_PORT) a.inPort b.inPort,
    dlSrc := pick (significant a W_DL_SRC) a.dlSrc b.dlSrc,
    dlDst := pick (significant a W_DL_DST) a.dlDst b.dlDst,
    dlVlan := pick (significant a W_DL_VLAN) a.dlVlan b.dlVlan,
    dlVlanPcp := pick (significant a W_DL_VLAN_PCP) a.dlVlanPcp b.dlVlanPcp,
    dlType := pick (significant a W_DL_TYPE) a.dlType b.dlType,
    nwTos := pick (significant a W_NW_TOS) (a.nwTos / 4) (b.nwTos / 4) * 4,
    nwProto := pick (significant a W_NW_PROTO) a.nwProto b.nwProto,
    nwSrc := pickAddr (srcIgn a) (srcIgn b) a.nwSrc b.nwSrc,
    nwDst := pickAddr (dstIgn a) (dstIgn b) a.nwDst b.nwDst,
    tpSrc := pick (significant a W_TP_SRC) a.tpSrc b.tpSrc,
    tpDst := pick (significant a W_TP_DST) a.tpDst b.tpDst }

/-- `Spec.overlaps a b` is overlap: "a single packet may match both" -/
theorem overlaps_iff_exists (a b : OfMatch) :
    overlaps a b = true ↔ ∃ h : Headers, matchHdr a h = true ∧ matchHdr b h = true := by
  constructor
  · intro ho
    rw [overlaps_eq] at ho
    simp only [Bool.and_eq_true] at ho
    obtain ⟨⟨⟨⟨⟨⟨⟨⟨⟨⟨⟨o1, o2⟩, o3⟩, o4⟩, o5⟩, o6⟩, o7⟩, o8⟩, o9⟩, o10⟩, o11⟩, o12⟩ := ho
    obtain ⟨p9a, p9b⟩ := pickAddr_ok o9
    obtain ⟨p10a, p10b⟩ := pickAddr_ok o10
    refine ⟨commonHdr a b, ?_, ?_⟩
    · rw [matchHdr_eq]
      simp only [commonHdr, Nat.mul_div_cancel _ (by decide : 0 < 4), pick_left, p9a, p10a, Bool.and_self]
    · rw [matchHdr_eq]
      simp only [commonHdr, Nat.mul_div_cancel _ (by decide : 0 < 4), pick_right o1, pick_right o2, pick_right o3, pick_right o4,
        pick_right o5, pick_right o6, pick_right o7, pick_right o8, pick_right o11, pick_right o12, p9b, p10b, Bool.and_self]
  · rintro ⟨h, ha, hb⟩
    rw [matchHdr_eq] at ha hb
    rw [overlaps_eq]
    simp only [Bool.and_eq_true] at ha hb ⊢
    obtain ⟨⟨⟨⟨⟨⟨⟨⟨⟨⟨⟨a1, a2⟩, a3⟩, a4⟩, a5⟩, a6⟩, a7⟩, a8⟩, a9⟩, a10⟩, a11⟩, a12⟩ := ha
    obtain ⟨⟨⟨⟨⟨⟨⟨⟨⟨⟨⟨b1, b2⟩, b3⟩, b4⟩, b5⟩, b6⟩, b7⟩, b8⟩, b9⟩, b10⟩, b11⟩, b12⟩ := hb
    exact ⟨⟨⟨⟨⟨⟨⟨⟨⟨⟨⟨compat_of_common a1 b1, compat_of_common a2 b2⟩, compat_of_common a3 b3⟩, compat_of_common a4 b4⟩,
      compat_of_common a5 b5⟩, compat_of_common a6 b6⟩, compat_of_common a7 b7⟩, compat_of_common a8 b8⟩,
      prefix_of_common a9 b9⟩, prefix_of_common a10 b10⟩, compat_of_common a11 b11⟩, compat_of_common a12 b12⟩

/-- every description matches the 12-tuple made of its own field values -/
theorem matchHdr_selfHdr (b : OfMatch) : matchHdr b (selfHdr b) = true := by
  rw [matchHdr_eq]; simp [selfHdr, FOk_refl, prefixEq_refl]

theorem overlaps_comm (a b : OfMatch) : overlaps a b = overlaps b a := by
  rw [Bool.eq_iff_iff, overlaps_iff_exists, overlaps_iff_exists]
  constructor <;> (rintro ⟨h, h1, h2⟩; exact ⟨h, h2, h1⟩)

/-- a description overlaps everything it subsumes -/
theorem overlaps_of_subsumes {a b : OfMatch} (h : subsumes a b = true) : overlaps a b = true :=
  (overlaps_iff_exists a b).mpr ⟨selfHdr b, (subsumes_forall a b).mp h _ (matchHdr_selfHdr b), matchHdr_selfHdr b⟩

theorem subsumes_refl (a : OfMatch) : subsumes a a = true := (subsumes_forall a a).mpr fun _ h => h

theorem subsumes_trans {a b c : OfMatch} (h1 : subsumes a b = true) (h2 : subsumes b c = true) : subsumes a c = true :=
  (subsumes_forall a c).mpr fun h hc => (subsumes_forall a b).mp h1 h ((subsumes_forall b c).mp h2 h hc)

/-- "identical header fields": the same set of 12-tuples -/
theorem identical_iff (a b : OfMatch) : identical a b = true ↔ ∀ h : Headers, matchHdr a h = matchHdr b h := by
  simp only [identical, Bool.and_eq_true, subsumes_forall]
  constructor
  · rintro ⟨h1, h2⟩ h
    cases ha : matchHdr a h <;> cases hb : matchHdr b h
    · rfl
    · rw [h1 h hb] at ha; cases ha
    · rw [h2 h ha] at hb; cases hb
    · rfl
  · intro h
    exact ⟨fun x hx => by rw [h x]; exact hx, fun x hx => by rw [← h x]; exact hx⟩

theorem identical_refl (a : OfMatch) : identical a a = true := (identical_iff a a).mpr fun _ => rfl

theorem identical_comm (a b : OfMatch) : identical a b = identical b a := by
  simp only [identical, Bool.and_comm]

/-- identical descriptions are subsumed by the same descriptions -/
theorem subsumes_of_identical {m a b : OfMatch} (h : identical a b = true) : subsumes m a = subsumes m b := by
  simp only [identical, Bool.and_eq_true] at h
  rw [Bool.eq_iff_iff]
  exact ⟨fun h1 => subsumes_trans h1 h.1, fun h1 => subsumes_trans h1 h.2⟩

end Pox.Spec
