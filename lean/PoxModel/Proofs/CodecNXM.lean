import PoxModel.Proofs.Layout
import PoxModel.Model.CodecNXM
/-! TLV framing of NXM entries: header ‖ value ‖ mask decodes back, for every type/length/value/mask. Core only. -/
set_option linter.unusedSimpArgs false
namespace Pox.CodecNXM
open Pox Pox.Layout

/-- an entry in the form the wire can express: value of the class's length; mask absent, or present with the same
    length, not all-ones (that is written as "no mask"), value zero outside it; `_force_mask` exactly when masked
    (that is how `unpack` leaves it) -/
def Canonical (len : Nat) (e : Entry) : Prop :=
  e.value.length = len ∧
  match e.mask with
  | none => e.force = false
  | some m => m.length = len ∧ allOnes m = false ∧ maskedOk e.value m = true ∧ e.force = true

theorem pad8_law (n : Nat) : (n + pad8 n) % 8 = 0 ∧ pad8 n < 8 := by
  unfold pad8
  omega

/-- **`nxm_roundtrip`**: TLV framing is lossless for every canonical entry whose type the decoder either does not know
    or knows with the same length -/
theorem nxm_roundtrip (kn : Nat → Option Nat) (len : Nat) (e : Entry) (tl : Bytes) (hc : Canonical len e)
    (hl : len < 64) (ht : e.type < 2 ^ 23) (hk : kn e.type = some len ∨ kn e.type = none) :
    ∃ bs, encEntry len e = some bs ∧ bs ≠ [] ∧ decEntry kn (bs ++ tl) = some (e, tl) := by
  obtain ⟨t, v, mask, force⟩ := e
  obtain ⟨hv, hm⟩ := hc
  simp only at hv hm ht hk
  cases mask with
  | none =>
    simp only at hm
    subst hm
    have hh : t * 512 + len < 2 ^ 32 := by omega
    have hh' : t * 512 + len < 256 ^ 4 := by simpa using hh
    refine ⟨beEnc 4 (t * 512 + len) ++ v, ?_, by simp [beEnc], ?_⟩
    · simp [encEntry, wireMask, hv, hh]
    · have h4 : ¬ ((beEnc 4 (t * 512 + len) ++ v ++ tl).length < 4) := by simp [beEnc_length]
      have e1 : (t * 512 + len) / 512 = t := by omega
      have e2 : ¬ ((t * 512 + len) / 256 % 2 = 1) := by omega
      have e3 : (t * 512 + len) % 128 = len := by omega
      have h5 : ¬ ((v ++ tl).length < len) := by simp [hv]
      simp only [decEntry, h4, ↓reduceIte, List.append_assoc, List.take_left' (beEnc_length 4 _),
        List.drop_left' (beEnc_length 4 _), beDec_beEnc 4 _ hh', e1, e2, e3, h5, List.take_left' hv, List.drop_left' hv]
      rcases hk with hk | hk <;> simp [hk, beEnc_length]
  | some m =>
    obtain ⟨hml, hao, hmo, hf⟩ := hm
    subst hf
    have hh : t * 512 + 256 + 2 * len < 2 ^ 32 := by omega
    have hh' : t * 512 + 256 + 2 * len < 256 ^ 4 := by simpa using hh
    refine ⟨beEnc 4 (t * 512 + 256 + 2 * len) ++ v ++ m, ?_, by simp [beEnc], ?_⟩
    · simp [encEntry, wireMask, hv, hml, hao, hmo, hh]
    · have h4 : ¬ ((beEnc 4 (t * 512 + 256 + 2 * len) ++ v ++ m ++ tl).length < 4) := by simp [beEnc_length]
      have e1 : (t * 512 + 256 + 2 * len) / 512 = t := by omega
      have e2 : (t * 512 + 256 + 2 * len) / 256 % 2 = 1 := by omega
      have e3 : (t * 512 + 256 + 2 * len) % 128 = 2 * len := by omega
      have e4 : ¬ (2 * len % 2 = 1) := by omega
      have e5 : 2 * len / 2 = len := by omega
      have hvm : (v ++ m).length = 2 * len := by simp [hv, hml]; omega
      have h5 : ¬ ((v ++ (m ++ tl)).length < 2 * len) := by simp [hv, hml]; omega
      have t1 : (v ++ (m ++ tl)).take (2 * len) = v ++ m := by
        rw [← List.append_assoc]; exact List.take_left' hvm
      have t2 : (v ++ (m ++ tl)).drop (2 * len) = tl := by
        rw [← List.append_assoc]; exact List.drop_left' hvm
      simp only [decEntry, h4, ↓reduceIte, List.append_assoc, List.take_left' (beEnc_length 4 _),
        List.drop_left' (beEnc_length 4 _), beDec_beEnc 4 _ hh', e1, e2, e3, e4, e5, h5, t1, t2,
        List.take_left' hv, List.drop_left' hv]
      rcases hk with hk | hk <;> simp [hk, beEnc_length]

/-- **`nx_match_roundtrip`**: a list of canonical entries packed back to back (`nx_match.pack`) is recovered exactly by
    the `while offset < stop` loop of `nx_match.unpack` (each entry's `_nxm_length` is the length of its value) -/
theorem nx_match_roundtrip (kn : Nat → Option Nat) (es : List Entry)
    (h : ∀ e ∈ es, Canonical e.value.length e ∧ e.value.length < 64 ∧ e.type < 2 ^ 23 ∧
      (kn e.type = some e.value.length ∨ kn e.type = none)) :
    ∃ bs, encMatch (es.map fun e => (e.value.length, e)) = some bs ∧ decList (decEntry kn) bs.length bs = some es := by
  obtain ⟨bs, he, hd⟩ := decList_encList (fun e : Entry => encEntry e.value.length e) (decEntry kn) es (by
    intro e he
    obtain ⟨hc, hl, ht, hk⟩ := h e he
    obtain ⟨a, ha, hne, _⟩ := nxm_roundtrip kn _ e [] hc hl ht hk
    refine ⟨a, ha, hne, fun tl => ?_⟩
    obtain ⟨a', ha', _, hda'⟩ := nxm_roundtrip kn _ e tl hc hl ht hk
    rw [ha] at ha'; cases ha'; exact hda')
  refine ⟨bs, ?_, hd bs.length (Nat.le_refl _)⟩
  have : ∀ l : List Entry, encMatch (l.map fun e => (e.value.length, e)) = encList (fun e : Entry => encEntry e.value.length e) l := by
    intro l
    induction l with
    | nil => rfl
    | cons x xs ih => simp only [encMatch, List.map_cons, encList] at ih ⊢; rw [ih]
  rw [this, he]

end Pox.CodecNXM
