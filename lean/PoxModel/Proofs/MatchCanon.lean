import PoxModel.Proofs.StrictMatch
import PoxModel.Proofs.MatchV
set_option linter.unusedSimpArgs false
/-! What the proposed repairs C04-2 and C04-3 do to a match, in the standard's terms.

* `maskUndef r` — the transmitted record without the undefined wildcard bits 22..31 — is, for the standard, the same description
  as `r` (`Spec.*_mask`), and `ofp.match.wildcards &= OFPFW_ALL` after `unpack(flow_mod=True)` yields its un-wired form
  (`ofWire_masked`).
* `_normalize_wildcards(_unwire_wildcards(w))` applied to a match decoded by `unpack(flow_mod=False)` yields what
  `unpack(flow_mod=True)` would have (`ofWire_ofWirePlain`).
Core only. -/
namespace Pox.OF
open OfMatch

/-- the transmitted record without the undefined bits of the wildcard word -/
def maskUndef (r : OfMatch) : OfMatch := { r with wildcards := r.wildcards % 2 ^ 22 }

theorem maskUndef_testBit (r : OfMatch) (i : Nat) :
    (maskUndef r).wildcards.testBit i = (decide (i < 22) && r.wildcards.testBit i) := by
  show (r.wildcards % 2 ^ 22).testBit i = _
  rw [Nat.testBit_mod_two_pow]

theorem maskUndef_width (r : OfMatch) : (maskUndef r).wildcards < 2 ^ 22 := Nat.mod_lt _ (by decide)

theorem cnt_mod (sh w : Nat) (h : sh + 6 ≤ 22) : cnt sh (w % 2 ^ 22) = cnt sh w := by
  apply Nat.eq_of_testBit_eq
  intro j
  simp only [cnt, Nat.testBit_mod_two_pow, Nat.testBit_shiftRight]
  by_cases hj : j < 6
  · have : sh + j < 22 := by omega
    simp [hj, this]
  · simp [hj]

/-! ### the standard does not see the undefined bits -/

theorem wild_mask (r : OfMatch) (bit : Nat) (h : bit < 22) : Spec.wild (maskUndef r) bit = Spec.wild r bit := by
  simp [Spec.wild, maskUndef_testBit, h]

theorem srcIgnored_mask (r : OfMatch) : Spec.srcIgnored (maskUndef r) = Spec.srcIgnored r := by
  have := cnt_mod 8 r.wildcards (by decide)
  simp only [cnt_eq_div] at this
  simp only [Spec.srcIgnored, maskUndef, this]

theorem dstIgnored_mask (r : OfMatch) : Spec.dstIgnored (maskUndef r) = Spec.dstIgnored r := by
  have := cnt_mod 14 r.wildcards (by decide)
  simp only [cnt_eq_div] at this
  simp only [Spec.dstIgnored, maskUndef, this]

theorem exact_mask (r : OfMatch) : Spec.exact (maskUndef r) = Spec.exact r := by
  simp [Spec.exact, maskUndef]

theorem dlTypeIs_mask (r : OfMatch) (t : Nat) : Spec.dlTypeIs (maskUndef r) t = Spec.dlTypeIs r t := by
  simp only [Spec.dlTypeIs, wild_mask r _ (by decide : Spec.W_DL_TYPE < 22)]; rfl

theorem nwSpecified_mask (r : OfMatch) : Spec.nwSpecified (maskUndef r) = Spec.nwSpecified r := by
  simp only [Spec.nwSpecified, dlTypeIs_mask]
theorem ipSpecified_mask (r : OfMatch) : Spec.ipSpecified (maskUndef r) = Spec.ipSpecified r := by
  simp only [Spec.ipSpecified, dlTypeIs_mask]
theorem tpSpecified_mask (r : OfMatch) : Spec.tpSpecified (maskUndef r) = Spec.tpSpecified r := by
  simp only [Spec.tpSpecified, dlTypeIs_mask, wild_mask r _ (by decide : Spec.W_NW_PROTO < 22)]; rfl

theorem srcIgn_mask (r : OfMatch) : Spec.srcIgn (maskUndef r) = Spec.srcIgn r := by
  simp only [Spec.srcIgn, nwSpecified_mask, srcIgnored_mask]
theorem dstIgn_mask (r : OfMatch) : Spec.dstIgn (maskUndef r) = Spec.dstIgn r := by
  simp only [Spec.dstIgn, nwSpecified_mask, dstIgnored_mask]

theorem significant_mask (r : OfMatch) (bit : Nat) (h : bit < 22) : Spec.significant (maskUndef r) bit = Spec.significant r bit := by
  simp only [Spec.significant, wild_mask r bit h, ipSpecified_mask, nwSpecified_mask, tpSpecified_mask]

theorem matchHdr_mask (r : OfMatch) (h : Spec.Headers) : Spec.matchHdr (maskUndef r) h = Spec.matchHdr r h := by
  simp only [Spec.matchHdr, ipSpecified_mask, nwSpecified_mask, tpSpecified_mask, srcIgnored_mask, dstIgnored_mask,
    wild_mask r _ (by decide : Spec.W_IN_PORT < 22), wild_mask r _ (by decide : Spec.W_DL_SRC < 22),
    wild_mask r _ (by decide : Spec.W_DL_DST < 22), wild_mask r _ (by decide : Spec.W_DL_VLAN < 22),
    wild_mask r _ (by decide : Spec.W_DL_VLAN_PCP < 22), wild_mask r _ (by decide : Spec.W_DL_TYPE < 22),
    wild_mask r _ (by decide : Spec.W_NW_TOS < 22), wild_mask r _ (by decide : Spec.W_NW_PROTO < 22),
    wild_mask r _ (by decide : Spec.W_TP_SRC < 22), wild_mask r _ (by decide : Spec.W_TP_DST < 22)]
  rfl

/-- every relation of the standard between two descriptions is defined through `matchHdr`, so masking changes none of them -/
theorem subsumes_mask_left (a b : OfMatch) : Spec.subsumes (maskUndef a) b = Spec.subsumes a b := by
  rw [Bool.eq_iff_iff, Spec.subsumes_forall, Spec.subsumes_forall]
  simp only [matchHdr_mask]
theorem subsumes_mask_right (a b : OfMatch) : Spec.subsumes a (maskUndef b) = Spec.subsumes a b := by
  rw [Bool.eq_iff_iff, Spec.subsumes_forall, Spec.subsumes_forall]
  simp only [matchHdr_mask]
theorem overlaps_mask_left (a b : OfMatch) : Spec.overlaps (maskUndef a) b = Spec.overlaps a b := by
  rw [Bool.eq_iff_iff, Spec.overlaps_iff_exists, Spec.overlaps_iff_exists]
  simp only [matchHdr_mask]
theorem overlaps_mask_right (a b : OfMatch) : Spec.overlaps a (maskUndef b) = Spec.overlaps a b := by
  rw [Bool.eq_iff_iff, Spec.overlaps_iff_exists, Spec.overlaps_iff_exists]
  simp only [matchHdr_mask]
theorem identical_mask_left (a b : OfMatch) : Spec.identical (maskUndef a) b = Spec.identical a b := by
  simp only [Spec.identical, subsumes_mask_left, subsumes_mask_right]
theorem identical_mask_right (a b : OfMatch) : Spec.identical a (maskUndef b) = Spec.identical a b := by
  simp only [Spec.identical, subsumes_mask_left, subsumes_mask_right]

theorem prereq_mask (r : OfMatch) (h : PrereqExact r) : PrereqExact (maskUndef r) := by
  have w : ∀ f : Fld, (maskUndef r).wild f = r.wild f := by
    intro f
    have hb : f.bit < 22 := by cases f <;> decide
    simp [wild, maskUndef_testBit, hb]
  unfold PrereqExact at *
  rw [w, w]
  exact h

/-- masking makes every regular description one without undefined bits -/
theorem matchCore_mask (r : OfMatch) (hp : PrereqExact r) (ht : r.nwTos % 4 = 0) : MatchCore (maskUndef r) :=
  ⟨prereq_mask r hp, ht, maskUndef_width r⟩

/-! ### `wildcards &= OFPFW_ALL` after `unpack(flow_mod=True)` -/

theorem srcCnt_and_all (z : Nat) : srcCnt (z &&& FW_ALL) = srcCnt z := by
  have e : FW_ALL = 2 ^ 22 - 1 := by decide
  rw [e, Nat.and_two_pow_sub_one_eq_mod, srcCnt_eq, srcCnt_eq, cnt_mod 8 z (by decide)]
theorem dstCnt_and_all (z : Nat) : dstCnt (z &&& FW_ALL) = dstCnt z := by
  have e : FW_ALL = 2 ^ 22 - 1 := by decide
  rw [e, Nat.and_two_pow_sub_one_eq_mod, dstCnt_eq, dstCnt_eq, cnt_mod 14 z (by decide)]

theorem nwIgnored_mask (r : OfMatch) : nwIgnored (maskUndef r) = nwIgnored r := rfl

/-- a flag bit (outside the two counters) of the un-wired wildcard word -/
theorem ofWire_flagBit (r : OfMatch) (i : Nat) (h : i < 8 ∨ 20 ≤ i) :
    (ofWire r).wildcards.testBit i = (r.wildcards.testBit i || (unwireMask r.dlType r.nwProto).testBit i) := by
  show (normalize (unwire r.dlType r.nwProto r.wildcards)).testBit i = _
  rw [normalize_testBit _ _ h, unwire_eq, Nat.testBit_or]

theorem ofWire_masked (r : OfMatch) :
    ({ ofWire r with wildcards := (ofWire r).wildcards &&& FW_ALL } : OfMatch) = ofWire (maskUndef r) := by
  have hw : (ofWire r).wildcards &&& FW_ALL = (ofWire (maskUndef r)).wildcards := by
    apply wildcards_ext
    · apply Nat.eq_of_testBit_eq
      intro i
      rw [flagBits_testBit, flagBits_testBit]
      by_cases hr : 8 ≤ i ∧ i < 20
      · simp [hr]
      · have hi : i < 8 ∨ 20 ≤ i := by omega
        have e : FW_ALL = 2 ^ 22 - 1 := by decide
        simp only [hr, decide_false, Bool.not_false, Bool.and_true, Nat.testBit_and, e, Nat.testBit_two_pow_sub_one]
        by_cases h22 : i < 22
        · rw [ofWire_flagBit r i hi, ofWire_flagBit (maskUndef r) i hi, maskUndef_testBit]
          simp [h22, maskUndef]
        · rw [ofWire_high (maskUndef r) (maskUndef_width r) i (by omega)]
          simp [h22]
    · rw [srcCnt_and_all, ofWire_srcCnt, ofWire_srcCnt, nwIgnored_mask]
      have : srcCnt (maskUndef r).wildcards = srcCnt r.wildcards := by
        rw [srcCnt_eq, srcCnt_eq]; exact cnt_mod 8 _ (by decide)
      rw [this]
    · rw [dstCnt_and_all, ofWire_dstCnt, ofWire_dstCnt, nwIgnored_mask]
      have : dstCnt (maskUndef r).wildcards = dstCnt r.wildcards := by
        rw [dstCnt_eq, dstCnt_eq]; exact cnt_mod 14 _ (by decide)
      rw [this]
  calc ({ ofWire r with wildcards := (ofWire r).wildcards &&& FW_ALL } : OfMatch)
      = { ofWire r with wildcards := (ofWire (maskUndef r)).wildcards } := by rw [hw]
    _ = ofWire (maskUndef r) := rfl

/-! ### un-wiring a plainly decoded match -/

theorem ofWirePlain_nwIgnored (m : OfMatch) : nwIgnored (ofWirePlain m) = nwIgnored m := rfl

theorem ofWire_ofWirePlain (m : OfMatch) : ofWire (ofWirePlain m) = ofWire m := by
  have hw : (ofWire (ofWirePlain m)).wildcards = (ofWire m).wildcards := by
    apply wildcards_ext
    · apply Nat.eq_of_testBit_eq
      intro i
      rw [flagBits_testBit, flagBits_testBit]
      by_cases hr : 8 ≤ i ∧ i < 20
      · simp [hr]
      · have hi : i < 8 ∨ 20 ≤ i := by omega
        simp only [hr, decide_false, Bool.not_false, Bool.and_true]
        rw [ofWire_flagBit _ i hi, ofWire_flagBit _ i hi]
        show ((normalize m.wildcards).testBit i || _) = _
        rw [normalize_testBit _ _ hi]
        rfl
    · rw [ofWire_srcCnt, ofWire_srcCnt, ofWirePlain_nwIgnored]
      show (if nwIgnored m then 32 else min 32 (srcCnt (normalize m.wildcards))) = _
      rw [normalize_srcCnt]
      split
      · rfl
      · omega
    · rw [ofWire_dstCnt, ofWire_dstCnt, ofWirePlain_nwIgnored]
      show (if nwIgnored m then 32 else min 32 (dstCnt (normalize m.wildcards))) = _
      rw [normalize_dstCnt]
      split
      · rfl
      · omega
  calc ofWire (ofWirePlain m) = { m with wildcards := (ofWire (ofWirePlain m)).wildcards } := rfl
    _ = { m with wildcards := (ofWire m).wildcards } := by rw [hw]
    _ = ofWire m := rfl

/-! ### C03's variants of `ofp_match`: no test tells `v.ofWire r` from HEAD's `ofWire` of the normalised record -/

/-- same wildcard word, same values in the fields that are not wildcarded, same addresses -/
structure SameViews (a b : OfMatch) : Prop where
  w : a.wildcards = b.wildcards
  g : ∀ f, a.wild f = false → a.get f = b.get f
  s : a.nwSrc = b.nwSrc
  d : a.nwDst = b.nwDst

theorem SameViews.wild {a b : OfMatch} (h : SameViews a b) (f : Fld) : a.wild f = b.wild f := by simp [OfMatch.wild, h.w]

theorem SameViews.symm {a b : OfMatch} (h : SameViews a b) : SameViews b a :=
  ⟨h.w.symm, fun f hf => (h.g f (by rw [h.wild f]; exact hf)).symm, h.s.symm, h.d.symm⟩

theorem SameViews.view {a b : OfMatch} (h : SameViews a b) (f : Fld) : a.view f = b.view f := by
  unfold OfMatch.view
  rw [← h.wild f]
  cases hq : a.wild f
  · simp [h.g f hq]
  · simp

theorem SameViews.srcView {a b : OfMatch} (h : SameViews a b) : a.srcView = b.srcView := by simp [OfMatch.srcView, h.w, h.s]
theorem SameViews.dstView {a b : OfMatch} (h : SameViews a b) : a.dstView = b.dstView := by simp [OfMatch.dstView, h.w, h.d]

theorem SameViews.matchesWith_left {a a' : OfMatch} (h : SameViews a a') (c : Bool) (b : OfMatch) :
    matchesWith c a b = matchesWith c a' b := Variant.matchesWith_congr_left c a a' b h.w h.g h.s h.d
theorem SameViews.matchesWith_right {b b' : OfMatch} (h : SameViews b b') (c : Bool) (a : OfMatch) :
    matchesWith c a b = matchesWith c a b' := Variant.matchesWith_congr_right c a b b' h.w h.g h.s h.d

theorem SameViews.eqMatch_left {a a' : OfMatch} (h : SameViews a a') (b : OfMatch) : eqMatch a b = eqMatch a' b := by
  unfold eqMatch
  rw [h.w, h.srcView, h.dstView]
  congr 3
  apply List.all_congr rfl
  intro f
  rw [h.view f]
theorem SameViews.eqMatch_right {b b' : OfMatch} (h : SameViews b b') (a : OfMatch) : eqMatch a b = eqMatch a b' := by
  rw [eqMatch_comm, h.eqMatch_left, eqMatch_comm]

theorem SameViews.overlapsWith_left {a a' : OfMatch} (h : SameViews a a') (b : OfMatch) :
    Pox.FlowMod.overlapsWith a b = Pox.FlowMod.overlapsWith a' b := by
  unfold Pox.FlowMod.overlapsWith
  rw [h.srcView, h.dstView]
  congr 2
  apply List.all_congr rfl
  intro f
  rw [h.view f]
theorem SameViews.overlapsWith_right {b b' : OfMatch} (h : SameViews b b') (a : OfMatch) :
    Pox.FlowMod.overlapsWith a b = Pox.FlowMod.overlapsWith a b' := by
  unfold Pox.FlowMod.overlapsWith
  rw [h.srcView, h.dstView]
  congr 2
  apply List.all_congr rfl
  intro f
  rw [h.view f]

theorem SameViews.refl (a : OfMatch) : SameViews a a := ⟨rfl, fun _ _ => rfl, rfl, rfl⟩

theorem SameViews.trans {a b c : OfMatch} (h1 : SameViews a b) (h2 : SameViews b c) : SameViews a c :=
  ⟨h1.w.trans h2.w, fun f hf => (h1.g f hf).trans (h2.g f (by rw [← h1.wild f]; exact hf)), h1.s.trans h2.s, h1.d.trans h2.d⟩

/-! ### the ToS byte: DSCP comparison (repair D36) and insignificant values -/

/-- a match with its ToS value reduced to the six DSCP bits -/
def dscpA (m : OfMatch) : OfMatch := { m with nwTos := m.nwTos / 4 * 4 }

theorem SameViews.dscpA {a b : OfMatch} (h : SameViews a b) : SameViews (dscpA a) (dscpA b) := by
  refine ⟨h.w, ?_, h.s, h.d⟩
  intro f hf
  have hf' : a.wild f = false := hf
  cases f <;> first
    | exact h.g _ hf'
    | (show a.nwTos / 4 * 4 = b.nwTos / 4 * 4
       have := h.g .nwTos hf'
       have e : a.nwTos = b.nwTos := this
       rw [e])

/-- the transmitted record as the ToS comparison of the code variant effectively reads it: `d = true` (repair D36) the DSCP bits;
    otherwise the byte itself where the standard compares it, and nothing where it does not -/
def tosNorm (d : Bool) (r : OfMatch) : OfMatch :=
  if d then dscpA r else if Spec.significant r Spec.W_NW_TOS then r else { r with nwTos := 0 }

theorem tosNorm_fields (d : Bool) (r : OfMatch) :
    (tosNorm d r).wildcards = r.wildcards ∧ (tosNorm d r).dlType = r.dlType ∧ (tosNorm d r).nwProto = r.nwProto ∧
    (tosNorm d r).nwSrc = r.nwSrc ∧ (tosNorm d r).nwDst = r.nwDst := by
  unfold tosNorm dscpA
  cases d
  · simp only [Bool.false_eq_true, if_false]; split <;> exact ⟨rfl, rfl, rfl, rfl, rfl⟩
  · exact ⟨rfl, rfl, rfl, rfl, rfl⟩

theorem srcIgn_tosNorm (d : Bool) (r : OfMatch) : Spec.srcIgn (tosNorm d r) = Spec.srcIgn r ∧ Spec.dstIgn (tosNorm d r) = Spec.dstIgn r := by
  unfold tosNorm dscpA
  cases d
  · simp only [Bool.false_eq_true, if_false]; split <;> exact ⟨rfl, rfl⟩
  · exact ⟨rfl, rfl⟩

theorem tosNorm_get (d : Bool) (r : OfMatch) (f : Fld) (hf : f ≠ .nwTos) : (tosNorm d r).get f = r.get f := by
  unfold tosNorm dscpA
  cases d
  · simp only [Bool.false_eq_true, if_false]; split
    · rfl
    · cases f <;> first | rfl | exact absurd rfl hf
  · simp only [if_true]; cases f <;> first | rfl | exact absurd rfl hf

theorem tosNorm_tos4 (d : Bool) (r : OfMatch) (h : d = false → Spec.significant r Spec.W_NW_TOS = true → r.nwTos % 4 = 0) :
    (tosNorm d r).nwTos % 4 = 0 := by
  unfold tosNorm dscpA
  cases d
  · simp only [Bool.false_eq_true, if_false]
    split
    · exact h rfl (by assumption)
    · rfl
  · simp only [if_true]; omega

theorem prereq_tosNorm (d : Bool) (r : OfMatch) (h : PrereqExact r) : PrereqExact (tosNorm d r) := by
  obtain ⟨w, t, pr, _, _⟩ := tosNorm_fields d r
  unfold PrereqExact OfMatch.wild at *
  rw [w, t, pr]; exact h

theorem matchHdr_tosNorm (d : Bool) (r : OfMatch) (h : Spec.Headers) : Spec.matchHdr (tosNorm d r) h = Spec.matchHdr r h := by
  obtain ⟨w, t, pr, sa, da⟩ := tosNorm_fields d r
  have hw : ∀ bit, Spec.wild (tosNorm d r) bit = Spec.wild r bit := fun bit => by simp [Spec.wild, w]
  have hdl : ∀ x, Spec.dlTypeIs (tosNorm d r) x = Spec.dlTypeIs r x := fun x => by simp [Spec.dlTypeIs, hw, t]
  have hip : Spec.ipSpecified (tosNorm d r) = Spec.ipSpecified r := by simp [Spec.ipSpecified, hdl]
  have hnw : Spec.nwSpecified (tosNorm d r) = Spec.nwSpecified r := by simp [Spec.nwSpecified, hdl]
  have htp : Spec.tpSpecified (tosNorm d r) = Spec.tpSpecified r := by simp [Spec.tpSpecified, hdl, hw, pr]
  have hsi : Spec.srcIgnored (tosNorm d r) = Spec.srcIgnored r := by simp [Spec.srcIgnored, w]
  have hdi : Spec.dstIgnored (tosNorm d r) = Spec.dstIgnored r := by simp [Spec.dstIgnored, w]
  have g : ∀ f, f ≠ Fld.nwTos → (tosNorm d r).get f = r.get f := tosNorm_get d r
  have g1 : (tosNorm d r).inPort = r.inPort := g .inPort (by decide)
  have g2 : (tosNorm d r).dlSrc = r.dlSrc := g .dlSrc (by decide)
  have g3 : (tosNorm d r).dlDst = r.dlDst := g .dlDst (by decide)
  have g4 : (tosNorm d r).dlVlan = r.dlVlan := g .dlVlan (by decide)
  have g5 : (tosNorm d r).dlVlanPcp = r.dlVlanPcp := g .dlVlanPcp (by decide)
  have g6 : (tosNorm d r).tpSrc = r.tpSrc := g .tpSrc (by decide)
  have g7 : (tosNorm d r).tpDst = r.tpDst := g .tpDst (by decide)
  have htos : (!Spec.ipSpecified r || Spec.wild r Spec.W_NW_TOS || (tosNorm d r).nwTos / 4 == h.nwTos / 4) =
      (!Spec.ipSpecified r || Spec.wild r Spec.W_NW_TOS || r.nwTos / 4 == h.nwTos / 4) := by
    unfold tosNorm dscpA
    cases d
    · simp only [Bool.false_eq_true, if_false]
      split
      · rfl
      · rename_i hs
        have : (!Spec.ipSpecified r || Spec.wild r Spec.W_NW_TOS) = true := by
          simp only [Spec.significant, if_true] at hs
          cases h1 : Spec.ipSpecified r <;> cases h2 : Spec.wild r Spec.W_NW_TOS <;> simp [h1, h2] at hs ⊢
        simp [this]
    · simp only [if_true]
      have : r.nwTos / 4 * 4 / 4 = r.nwTos / 4 := Nat.mul_div_cancel _ (by decide)
      rw [this]
  simp only [Spec.matchHdr, hw, hip, hnw, htp, hsi, hdi, t, pr, sa, da, g1, g2, g3, g4, g5, g6, g7, htos]

/-- `ofWire` of the normalised record is, for every test, the (DSCP-reduced, with repair D36) `ofWire` of the record -/
theorem tos_same (d : Bool) (e : OfMatch) (hp : PrereqExact e) :
    SameViews (if d then dscpA (ofWire e) else ofWire e) (ofWire (tosNorm d e)) := by
  obtain ⟨w, t, pr, sa, da⟩ := tosNorm_fields d e
  have hwc : (ofWire (tosNorm d e)).wildcards = (ofWire e).wildcards := by
    show normalize (unwire (tosNorm d e).dlType (tosNorm d e).nwProto (tosNorm d e).wildcards) = _
    rw [w, t, pr]; rfl
  refine ⟨by cases d <;> exact hwc.symm, ?_, by cases d <;> exact sa.symm, by cases d <;> exact da.symm⟩
  intro f hf
  have hf' : (ofWire e).wild f = false := by cases d <;> exact hf
  by_cases hft : f = .nwTos
  · subst hft
    have hs : Spec.significant e Spec.W_NW_TOS = true := by
      have := sig_agree e hp .nwTos
      rw [hf'] at this
      simpa [Fld.bit, Spec.W_NW_TOS] using this.symm
    unfold tosNorm dscpA
    cases d
    · simp only [Bool.false_eq_true, if_false, hs, if_true]
    · rfl
  · have h1 : (ofWire (tosNorm d e)).get f = e.get f := by rw [ofWire_get, tosNorm_get d e f hft]
    rw [h1]
    cases d
    · exact ofWire_get e f
    · simp only [if_true]
      cases f <;> first | rfl | exact absurd rfl hft

/-! ### the packet side -/

/-- what `from_packet` assigned, with the ToS value reduced to the DSCP bits -/
def mapTos (o : OHeaders) : OHeaders := { o with nwTos := o.nwTos.map (· / 4 * 4) }

theorem fromHeaders_mapTos (o : OHeaders) : fromHeaders (mapTos o) = dscpA (fromHeaders o) := by
  unfold mapTos dscpA fromHeaders
  cases h : o.nwTos <;> simp [OHeaders.get, setFlagWild, Fld.all, h]

/-- the frame's 12-tuple agrees with what `from_packet` assigned once the ECN bits are dropped — for every complete frame,
    whatever its ToS byte -/
theorem agree_mapTos (g : Bool) (p : PHdr) (port : Nat) (hr : regularG g p = true) :
    Agree (mapTos (extractG g true p (some port))) (Spec.headers p port) := by
  have e := extract_ok_auxG g p port hr
  refine ⟨e.inPort, e.dlSrc, e.dlDst, e.dlVlan, e.dlVlanPcp, e.dlType, ?_, ?_, ?_, ?_⟩
  · intro hd
    obtain ⟨a, b, c⟩ := e.nwHere hd
    exact ⟨e.nwSrc.of_isSome a, e.nwDst.of_isSome b, e.nwProto.of_isSome c⟩
  · intro hd
    have h1 := e.tosHere hd
    have h2 := e.nwTos
    show (extractG g true p (some port)).nwTos.map (· / 4 * 4) = _
    rw [h1] at h2 ⊢
    rcases h2 with h2 | ⟨h2, _⟩
    · exact h2
    · simp at h2
  · rcases e.nwTos with h2 | ⟨_, h2⟩
    · cases hq : (extractG g true p (some port)).nwTos with
      | none => simp [hq] at h2
      | some t => simp [hq] at h2; omega
    · omega
  · intro hd hl
    obtain ⟨a, b⟩ := e.tpHere hd hl
    exact ⟨e.tpSrc.of_isSome a, e.tpDst.of_isSome b⟩

/-- a match that does not compare the ToS byte accepts a packet's match whatever ToS value it carries -/
theorem accepts_tos_irrelevant (m : OfMatch) (o : OHeaders) (h : m.wild .nwTos = true) :
    matchesWith false m (fromHeaders o) = matchesWith false m (fromHeaders (mapTos o)) := by
  rw [accepts_fromHeaders, accepts_fromHeaders]
  have hf : ∀ f, fieldOk m o f = fieldOk m (mapTos o) f := by
    intro f
    unfold fieldOk
    cases f <;> first | rfl | simp [h]
  have e : (fun f => fieldOk m (mapTos o) f) = fieldOk m (mapTos o) := rfl
  rw [show fieldOk m o = fieldOk m (mapTos o) from funext hf]
  rfl

namespace Variant
variable (v : Variant)

/-- the standard does not see the normalisation of wildcarded dl_type / nw_proto fields -/
theorem subsumes_pre_left (a b : OfMatch) : Spec.subsumes (v.pre a) b = Spec.subsumes a b := by
  rw [Bool.eq_iff_iff, Spec.subsumes_forall, Spec.subsumes_forall]; simp only [matchHdr_pre]
theorem subsumes_pre_right (a b : OfMatch) : Spec.subsumes a (v.pre b) = Spec.subsumes a b := by
  rw [Bool.eq_iff_iff, Spec.subsumes_forall, Spec.subsumes_forall]; simp only [matchHdr_pre]
theorem overlaps_pre (a b : OfMatch) : Spec.overlaps (v.pre a) (v.pre b) = Spec.overlaps a b := by
  rw [Bool.eq_iff_iff, Spec.overlaps_iff_exists, Spec.overlaps_iff_exists]; simp only [matchHdr_pre]
theorem identical_pre (a b : OfMatch) : Spec.identical (v.pre a) (v.pre b) = Spec.identical a b := by
  simp only [Spec.identical, subsumes_pre_left, subsumes_pre_right]

theorem nwSpecified_pre (r : OfMatch) : Spec.nwSpecified (v.pre r) = Spec.nwSpecified r := by
  simp only [Spec.nwSpecified, dlTypeIs_pre]
theorem srcIgn_pre (r : OfMatch) : Spec.srcIgn (v.pre r) = Spec.srcIgn r := by
  simp only [Spec.srcIgn, nwSpecified_pre]; rfl
theorem dstIgn_pre (r : OfMatch) : Spec.dstIgn (v.pre r) = Spec.dstIgn r := by
  simp only [Spec.dstIgn, nwSpecified_pre]; rfl

/-- `is_wildcarded` does not look at the undefined wildcard bits -/
theorem isWildcarded_masked (x : OfMatch) :
    v.isWildcarded { x with wildcards := x.wildcards &&& FW_ALL } = v.isWildcarded x := by
  have e : ∀ k : Nat, clearBits (x.wildcards &&& FW_ALL) k &&& FW_ALL = clearBits x.wildcards k &&& FW_ALL := by
    intro k
    apply Nat.eq_of_testBit_eq
    intro i
    simp only [Nat.testBit_and, testBit_clearBits]
    cases x.wildcards.testBit i <;> cases FW_ALL.testBit i <;> cases k.testBit i <;> rfl
  unfold Variant.isWildcarded OfMatch.isWildcarded
  cases v.exactSig
  · simp only [Bool.false_eq_true, if_false, Nat.and_assoc, Nat.and_self]
  · simp only [if_true]
    rw [e]

end Variant

end Pox.OF
