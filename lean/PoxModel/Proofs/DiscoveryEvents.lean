import PoxModel.Proofs.DiscoveryAdj
/-! Events are tied to adjacency changes (C19): `l` is in the adjacency iff the last LinkEvent about `l` was "added"; and two readable
    consequences of `adjacency_spec`.  Core only. -/
namespace Pox.Discovery
open Pox Pox.STree

/-- the last element of a list of flags, `d` if there is none -/
def lastOr (d : Bool) (bs : List Bool) : Bool := bs.foldl (fun _ b => b) d

theorem lastOr_append (d : Bool) (a b : List Bool) : lastOr d (a ++ b) = lastOr (lastOr d a) b := by
  unfold lastOr; rw [List.foldl_append]

theorem run_last (v : Variant) (l : Link) : ∀ (ops : List Op) (s : DState), (keys s.adj).Nodup →
    inAdj (runOps v s ops).1 l = lastOr (inAdj s l) (stream l (evsOf (runOps v s ops).2))
  | [], _, _ => by simp [runOps, evsOf, stream, lastOr]
  | op :: ops, s, h => by
    rw [runOps_cons]
    simp only [evsOf_cons, stream_append, lastOr_append]
    rw [run_last v l ops _ (step_nodup v s op h), step_stream v s op l h]
    by_cases e : inAdj s l = inAdj (step v s op).1 l
    · rw [if_pos e, e]; rfl
    · rw [if_neg e]; rfl

theorem after_down (v : Variant) (ops : List Op) (d : Nat) (o : List Nat) (l : Link) (t : Nat)
    (h : (l, t) ∈ (runOps v init (ops ++ [Op.down d o])).1.adj) : l.dpid1 ≠ d ∧ l.dpid2 ≠ d := by
  rw [adjacency_spec, Spec_snoc] at h
  rcases h with ⟨⟨_, hp⟩, _⟩ | ⟨_, _, hnd, _⟩
  · cases hp
  · exact ⟨fun c => hnd ⟨o, .inl (by rw [c])⟩, fun c => hnd ⟨o, .inr (by rw [c])⟩⟩

theorem after_sweep (v : Variant) (ops : List Op) (o : List Nat) (l : Link) (t : Nat)
    (h : (l, t) ∈ (runOps v init (ops ++ [Op.sweep o])).1.adj) : clock ops ≤ t + LINK_TIMEOUT := by
  rw [adjacency_spec, Spec_snoc] at h
  rcases h with ⟨⟨_, hp⟩, _⟩ | ⟨_, _, _, hsw⟩
  · cases hp
  · exact hsw o rfl

end Pox.Discovery
