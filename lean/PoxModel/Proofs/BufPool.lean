import PoxModel.Model.BufPool
namespace Pox.BufPool
variable {F : Type}

theorem firstFree_spec : ∀ (l : List (Option F)),
    (∀ i, firstFree l = some i → i < l.length ∧ l.getD i none = none) ∧
    (firstFree l = none → ∀ i, i < l.length → (l.getD i none).isSome)
  | [] => by simp [firstFree]
  | none :: r => by simp [firstFree]
  | some a :: r => by
    obtain ⟨h1, h2⟩ := firstFree_spec r
    constructor
    · intro i hi
      simp only [firstFree, Option.map_eq_some_iff] at hi
      obtain ⟨j, hj, rfl⟩ := hi
      obtain ⟨a1, a2⟩ := h1 j hj
      exact ⟨by simp; omega, by simpa using a2⟩
    · intro hn i hi
      simp only [firstFree, Option.map_eq_none_iff] at hn
      cases i with
      | zero => simp
      | succ j => simpa using h2 hn j (by simpa using hi)

theorem alloc_bounded (p : Pool F) (f : F) (h : p.slots.length ≤ p.max) :
    (alloc p f).1.slots.length ≤ (alloc p f).1.max := by
  unfold alloc
  split
  · simpa using h
  · split
    · exact h
    · simp; omega

theorem alloc_max (p : Pool F) (f : F) : (alloc p f).1.max = p.max := by
  unfold alloc; split <;> (try split) <;> rfl

theorem use_bounded (p : Pool F) (id : Nat) (h : p.slots.length ≤ p.max) :
    (use p id).1.slots.length ≤ (use p id).1.max := by
  unfold use
  split
  · exact h
  · split
    · exact h
    · split
      · exact h
      · simpa using h

theorem use_max (p : Pool F) (id : Nat) : (use p id).1.max = p.max := by
  unfold use; split <;> (try split) <;> (try split) <;> rfl

/-- the id handed out was not live before, is live afterwards with that frame, and no other id changes -/
theorem alloc_fresh (p : Pool F) (f : F) (id : Nat) (h : (alloc p f).2 = some id) :
    live p id = none ∧ live (alloc p f).1 id = some f ∧ ∀ j, j ≠ id → live (alloc p f).1 j = live p j := by
  unfold alloc at *
  obtain ⟨hs, hn⟩ := firstFree_spec p.slots
  cases hff : firstFree p.slots with
  | some i =>
    simp only [hff] at h ⊢
    cases h
    obtain ⟨hi, hfree⟩ := hs i hff
    refine ⟨by simp only [live]; simp; exact hfree, by simp [live, List.getD_eq_getElem?_getD, hi], ?_⟩
    intro j hj
    unfold live
    by_cases j0 : j = 0
    · simp [j0]
    · simp only [j0, if_false]
      have : i ≠ j - 1 := by omega
      simp [List.getD_eq_getElem?_getD, List.getElem?_set, this]
  | none =>
    simp only [hff] at h ⊢
    by_cases hfull : p.slots.length ≥ p.max
    · simp [hfull] at h
    · simp only [hfull, if_false] at h ⊢
      cases h
      refine ⟨by simp [live, List.getD_eq_getElem?_getD], by simp [live, List.getD_eq_getElem?_getD], ?_⟩
      intro j hj
      unfold live
      by_cases j0 : j = 0
      · simp [j0]
      · simp only [j0, if_false]
        have : j - 1 ≠ p.slots.length := by omega
        simp only [List.getD_eq_getElem?_getD, List.getElem?_append]
        split
        · rfl
        · rename_i hge
          have : j - 1 - p.slots.length ≠ 0 := by omega
          simp [List.getElem?_eq_none (by omega : p.slots.length ≤ j - 1)]
          cases hh : j - 1 - p.slots.length with
          | zero => omega
          | succ k => simp

/-- `none` is returned only when every slot is occupied and the list is at capacity; nothing changes -/
theorem alloc_none (p : Pool F) (f : F) (h : (alloc p f).2 = none) :
    (alloc p f).1 = p ∧ p.max ≤ p.slots.length ∧ ∀ i, i < p.slots.length → (p.slots.getD i none).isSome := by
  unfold alloc at *
  obtain ⟨hs, hn⟩ := firstFree_spec p.slots
  cases hff : firstFree p.slots with
  | some i => simp [hff] at h
  | none =>
    simp only [hff] at h ⊢
    by_cases hfull : p.slots.length ≥ p.max
    · simp only [hfull, if_true]; exact ⟨trivial, trivial, hn hff⟩
    · simp [hfull] at h

/-- a live id yields its frame and becomes dead, every other id is untouched; a dead or bogus id yields nothing and
    changes nothing -/
theorem use_spec (p : Pool F) (id : Nat) :
    (use p id).2 = live p id ∧
    (live p id = none → (use p id).1 = p) ∧
    (∀ f, live p id = some f → live (use p id).1 id = none ∧ ∀ j, j ≠ id → live (use p id).1 j = live p j) := by
  unfold use live
  by_cases h0 : id = 0
  · simp [h0]
  · simp only [h0, if_false]
    by_cases hge : id - 1 ≥ p.slots.length
    · simp [hge, List.getD_eq_getElem?_getD, List.getElem?_eq_none hge]
    · simp only [hge, if_false]
      cases hg : p.slots.getD (id - 1) none with
      | none => simp
      | some f =>
        simp only [true_and]
        refine ⟨by simp, ?_⟩
        intro f' _
        refine ⟨by simp [List.getD_eq_getElem?_getD, (by omega : id - 1 < p.slots.length)], ?_⟩
        intro j hj
        by_cases j0 : j = 0
        · simp [j0]
        · simp only [j0, if_false]
          have : id - 1 ≠ j - 1 := by omega
          simp [List.getD_eq_getElem?_getD, List.getElem?_set, this]

theorem stored_le (p : Pool F) : stored p ≤ p.slots.length := by
  unfold stored; exact List.length_filter_le _ _

end Pox.BufPool
