import PoxModel.Model.Conn
/-! Helper lemmas for C09: projections of every primitive of Model/Conn.lean, the state invariant `SInv` and the
history invariants, all for the repaired configuration `Cfg.repaired`.  Core only. -/
set_option linter.unusedSimpArgs false
set_option linter.unusedVariables false
namespace Pox.Conn

-- `R` is the repaired code in either variant: `v = true` is /repo as it stands, `v = false` has the commit of C09-5 reverted
variable {v : Bool}
local notation "R" => Cfg.rv v

@[simp, grind =] theorem R_d3 (v : Bool) : (Cfg.rv v).fixD3 = true := rfl
@[simp, grind =] theorem R_down (v : Bool) : (Cfg.rv v).fixDown = true := rfl
@[simp, grind =] theorem R_read (v : Bool) : (Cfg.rv v).fixRead = true := rfl
@[simp, grind =] theorem R_err (v : Bool) : (Cfg.rv v).fixErr = true := rfl
@[simp, grind =] theorem R_dpid (v : Bool) : (Cfg.rv v).fixDpid = v := rfl

@[simp] theorem dropOwn_conns (s : St) (k c) : (s.dropOwn k c).conns = s.conns := by
  unfold St.dropOwn; split <;> rfl
@[simp] theorem dropOwn_n (s : St) (k c) : (s.dropOwn k c).n = s.n := by
  unfold St.dropOwn; split <;> rfl
@[simp] theorem dropOwn_xid (s : St) (k c) : (s.dropOwn k c).nextXid = s.nextXid := by
  unfold St.dropOwn; split <;> rfl
theorem dropOwn_reg (s : St) (k c k') :
    (s.dropOwn k c).reg k' = if k' = k ∧ s.reg k = some c then none else s.reg k' := by
  unfold St.dropOwn St.setReg; split <;> simp_all

@[simp] theorem setConn_conns (s : St) (c k c') : (s.setConn c k).conns c' = if c' = c then k else s.conns c' := rfl
@[simp] theorem setConn_reg (s : St) (c k) : (s.setConn c k).reg = s.reg := rfl
@[simp] theorem setConn_n (s : St) (c k) : (s.setConn c k).n = s.n := rfl
@[simp] theorem setConn_xid (s : St) (c k) : (s.setConn c k).nextXid = s.nextXid := rfl
@[simp] theorem setReg_conns (s : St) (k v) : (s.setReg k v).conns = s.conns := rfl
@[simp] theorem setReg_reg (s : St) (k v k') : (s.setReg k v).reg k' = if k' = k then v else s.reg k' := rfl
@[simp] theorem setReg_n (s : St) (k v) : (s.setReg k v).n = s.n := rfl
@[simp] theorem setReg_xid (s : St) (k v) : (s.setReg k v).nextXid = s.nextXid := rfl

/-! ### disconnect -/

/-- the connection record after `disconnect` -/
def discConn (cfg : Cfg) (k : Conn) (defer : Bool) : Conn :=
  { k with disc := true, downRaised := k.downRaised ||
      (k.dpid.isSome && (!cfg.fixDown || k.up) && !k.downRaised && !defer) }

theorem disconnect_conns (cfg s c defer c') :
    (disconnect cfg s c defer).1.conns c' = if c' = c then discConn cfg (s.conns c) defer else s.conns c' := by
  unfold disconnect discConn
  simp only []
  split <;> simp

@[simp] theorem disconnect_n (cfg s c defer) : (disconnect cfg s c defer).1.n = s.n := by
  unfold disconnect; simp only []; split <;> simp
@[simp] theorem disconnect_xid (cfg s c defer) : (disconnect cfg s c defer).1.nextXid = s.nextXid := by
  unfold disconnect; simp only []; split <;> simp

theorem disconnect_reg (cfg s c defer k) :
    (disconnect cfg s c defer).1.reg k =
      if (s.conns c).nexus = true ∧ (cfg.fixD3 = true → s.reg (s.conns c).dpid = some c) ∧ k = (s.conns c).dpid
      then none else s.reg k := by
  unfold disconnect; simp only []
  split <;> rename_i h <;> simp at h ⊢ <;> grind

theorem disconnect_outs (cfg s c defer) :
    (disconnect cfg s c defer).2 =
      if ((s.conns c).dpid.isSome && (!cfg.fixDown || (s.conns c).up) && !(s.conns c).downRaised && !defer) = true
      then (if (s.conns c).nexus = true then [.ev ⟨true, .down, c, 0⟩] else []) ++ [.ev ⟨false, .down, c, 0⟩] else [] := by
  unfold disconnect; rfl

theorem mem_disconnect_outs (cfg s c defer o) :
    o ∈ (disconnect cfg s c defer).2 ↔
      ((s.conns c).dpid.isSome && (!cfg.fixDown || (s.conns c).up) && !(s.conns c).downRaised && !defer) = true ∧
      (((s.conns c).nexus = true ∧ o = downEv true c) ∨ o = downEv false c) := by
  rw [disconnect_outs]; unfold downEv
  split <;> rename_i h
  · by_cases hn : (s.conns c).nexus = true <;> simp [h, hn]
  · simp [h]

theorem disconnect_count_ev (cfg s c defer) (e : Event) (h : e.kind ≠ .down) :
    (disconnect cfg s c defer).2.count (.ev e) = 0 := by
  rw [List.count_eq_zero, mem_disconnect_outs]
  rintro ⟨-, ⟨-, he⟩ | he⟩ <;> (simp only [downEv, Out.ev.injEq] at he; subst he; exact h rfl)

@[simp] theorem disconnect_up (cfg s c defer c') : ((disconnect cfg s c defer).1.conns c').up = (s.conns c').up := by
  rw [disconnect_conns]; split <;> simp_all [discConn]
@[simp] theorem disconnect_dpid (cfg s c defer c') : ((disconnect cfg s c defer).1.conns c').dpid = (s.conns c').dpid := by
  rw [disconnect_conns]; split <;> simp_all [discConn]
@[simp] theorem disconnect_nexus (cfg s c defer c') : ((disconnect cfg s c defer).1.conns c').nexus = (s.conns c').nexus := by
  rw [disconnect_conns]; split <;> simp_all [discConn]
@[simp] theorem disconnect_barrier (cfg s c defer c') : ((disconnect cfg s c defer).1.conns c').barrier = (s.conns c').barrier := by
  rw [disconnect_conns]; split <;> simp_all [discConn]
@[simp] theorem disconnect_deferred (cfg s c defer c') : ((disconnect cfg s c defer).1.conns c').deferred = (s.conns c').deferred := by
  rw [disconnect_conns]; split <;> simp_all [discConn]
@[simp] theorem disconnect_closed (cfg s c defer c') : ((disconnect cfg s c defer).1.conns c').closed = (s.conns c').closed := by
  rw [disconnect_conns]; split <;> simp_all [discConn]
@[simp] theorem disconnect_broken (cfg s c defer c') : ((disconnect cfg s c defer).1.conns c').broken = (s.conns c').broken := by
  rw [disconnect_conns]; split <;> simp_all [discConn]
theorem disconnect_disc (cfg s c defer c') :
    ((disconnect cfg s c defer).1.conns c').disc = if c' = c then true else (s.conns c').disc := by
  rw [disconnect_conns]; split <;> simp_all [discConn]
theorem disconnect_downRaised (cfg s c defer c') :
    ((disconnect cfg s c defer).1.conns c').downRaised =
      if c' = c then ((s.conns c).downRaised ||
        ((s.conns c).dpid.isSome && (!cfg.fixDown || (s.conns c).up) && !(s.conns c).downRaised && !defer))
      else (s.conns c').downRaised := by
  rw [disconnect_conns]; split <;> simp_all [discConn]

theorem disconnect_true_outs (cfg s c) : (disconnect cfg s c true).2 = [] := by
  simp [disconnect_outs]
theorem disconnect_true_downRaised (cfg s c c') :
    ((disconnect cfg s c true).1.conns c').downRaised = (s.conns c').downRaised := by
  rw [disconnect_downRaised]; split <;> simp_all
theorem disconnect_nodpid_outs (cfg s c defer) (h : (s.conns c).dpid = none) : (disconnect cfg s c defer).2 = [] := by
  simp [disconnect_outs, h]
theorem disconnect_nodpid_downRaised (cfg s c defer c') (h : (s.conns c).dpid = none) :
    ((disconnect cfg s c defer).1.conns c').downRaised = (s.conns c').downRaised := by
  rw [disconnect_downRaised]; split <;> simp_all

/-! ### close -/

theorem close_conns (cfg s c c') :
    (close cfg s c).1.conns c' = if c' = c then { discConn cfg (s.conns c) false with closed := true } else s.conns c' := by
  unfold close
  simp only [setConn_conns, disconnect_conns]
  split <;> simp

@[simp] theorem close_n (cfg s c) : (close cfg s c).1.n = s.n := by simp [close]
@[simp] theorem close_xid (cfg s c) : (close cfg s c).1.nextXid = s.nextXid := by simp [close]
theorem close_reg (cfg s c k) : (close cfg s c).1.reg k = (disconnect cfg s c false).1.reg k := by simp [close]
theorem close_outs (cfg s c) : (close cfg s c).2 = (disconnect cfg s c false).2 ++ [.closed c] := rfl

@[simp] theorem close_up (cfg s c c') : ((close cfg s c).1.conns c').up = (s.conns c').up := by
  rw [close_conns]; split <;> simp_all [discConn]
@[simp] theorem close_dpid (cfg s c c') : ((close cfg s c).1.conns c').dpid = (s.conns c').dpid := by
  rw [close_conns]; split <;> simp_all [discConn]
@[simp] theorem close_barrier (cfg s c c') : ((close cfg s c).1.conns c').barrier = (s.conns c').barrier := by
  rw [close_conns]; split <;> simp_all [discConn]
@[simp] theorem close_deferred (cfg s c c') : ((close cfg s c).1.conns c').deferred = (s.conns c').deferred := by
  rw [close_conns]; split <;> simp_all [discConn]
@[simp] theorem close_broken (cfg s c c') : ((close cfg s c).1.conns c').broken = (s.conns c').broken := by
  rw [close_conns]; split <;> simp_all [discConn]
theorem close_disc (cfg s c c') : ((close cfg s c).1.conns c').disc = if c' = c then true else (s.conns c').disc := by
  rw [close_conns]; split <;> simp_all [discConn]
theorem close_closed (cfg s c c') : ((close cfg s c).1.conns c').closed = if c' = c then true else (s.conns c').closed := by
  rw [close_conns]; split <;> simp_all [discConn]
theorem close_downRaised (cfg s c c') :
    ((close cfg s c).1.conns c').downRaised = ((disconnect cfg s c false).1.conns c').downRaised := by
  rw [close_conns, disconnect_conns]; split <;> simp_all [discConn]
theorem mem_close_outs (cfg s c o) : o ∈ (close cfg s c).2 ↔ o ∈ (disconnect cfg s c false).2 ∨ o = .closed c := by
  simp [close_outs]

theorem close_count_ev (cfg s c) (e : Event) (h : e.kind ≠ .down) : (close cfg s c).2.count (.ev e) = 0 := by
  simp [close_outs, List.count_append, disconnect_count_ev _ _ _ _ e h, List.count_cons]

/-! ### send -/

theorem sendRaw_disc (cfg s c msgs) (h : (s.conns c).disc = true) : sendRaw cfg s c msgs = (s, []) := by
  simp [sendRaw, h]
theorem sendRaw_broken (cfg s c msgs) (h : (s.conns c).disc = false) (hb : (s.conns c).broken = true) :
    sendRaw cfg s c msgs = disconnect cfg s c true := by
  simp [sendRaw, h, hb]
theorem sendRaw_ok (cfg s c msgs) (h : (s.conns c).disc = false) (hb : (s.conns c).broken = false) :
    sendRaw cfg s c msgs = (s, msgs.map fun m => .sent c m.1 m.2) := by
  simp [sendRaw, h, hb]

theorem sendObj_disc (cfg s c ty) (h : (s.conns c).disc = true) : sendObj cfg s c ty = (s, [], none) := by
  simp [sendObj, h]
theorem sendObj_broken (cfg s c ty) (h : (s.conns c).disc = false) (hb : (s.conns c).broken = true) :
    sendObj cfg s c ty =
      ((disconnect cfg { s with nextXid := s.nextXid + 1 } c true).1,
       (disconnect cfg { s with nextXid := s.nextXid + 1 } c true).2, some s.nextXid) := by
  simp [sendObj, h, sendRaw, hb]
theorem sendObj_ok (cfg s c ty) (h : (s.conns c).disc = false) (hb : (s.conns c).broken = false) :
    sendObj cfg s c ty = ({ s with nextXid := s.nextXid + 1 }, [.sent c ty s.nextXid], some s.nextXid) := by
  simp [sendObj, h, sendRaw, hb]

/-! ### finish -/

/-- the connection record after `_finish_connecting` -/
def finConn (k : Conn) : Conn :=
  { k with up := true, deferred := match k.deferred with | some (_ :: _) => none | o => o }

def finHead (dp : Option Nat) (c : Nat) : List Out :=
  .reg dp c :: .ev ⟨true, .handshakeComplete, c, 0⟩ :: (ev2 .up c 0 ++ ev2 .features c 0)

theorem finish_conns (s c c') : (finish s c).1.conns c' = if c' = c then finConn (s.conns c) else s.conns c' := by
  unfold finish finConn
  simp only []
  split <;> simp <;> split <;> simp_all
@[simp] theorem finish_n (s c) : (finish s c).1.n = s.n := by
  unfold finish; simp only []; split <;> simp
@[simp] theorem finish_xid (s c) : (finish s c).1.nextXid = s.nextXid := by
  unfold finish; simp only []; split <;> simp
theorem finish_reg (s c k) : (finish s c).1.reg k = if k = (s.conns c).dpid then some c else s.reg k := by
  unfold finish; simp only []; split <;> simp
theorem finish_outs (s c) :
    (finish s c).2 = finHead (s.conns c).dpid c ++ ((s.conns c).deferred.getD []).flatMap fun n => ev2 .portStatus c n := by
  unfold finish finHead; simp only []
  split
  · rename_i h; simp [h]
  · rename_i h
    cases hd : (s.conns c).deferred with
    | none => simp
    | some l => cases l with
      | nil => simp
      | cons p ps => exact absurd hd (h p ps)

@[simp] theorem finish_dpid (s c c') : ((finish s c).1.conns c').dpid = (s.conns c').dpid := by
  rw [finish_conns]; split <;> simp_all [finConn]
@[simp] theorem finish_disc (s c c') : ((finish s c).1.conns c').disc = (s.conns c').disc := by
  rw [finish_conns]; split <;> simp_all [finConn]
@[simp] theorem finish_closed (s c c') : ((finish s c).1.conns c').closed = (s.conns c').closed := by
  rw [finish_conns]; split <;> simp_all [finConn]
@[simp] theorem finish_downRaised (s c c') : ((finish s c).1.conns c').downRaised = (s.conns c').downRaised := by
  rw [finish_conns]; split <;> simp_all [finConn]
@[simp] theorem finish_broken (s c c') : ((finish s c).1.conns c').broken = (s.conns c').broken := by
  rw [finish_conns]; split <;> simp_all [finConn]
@[simp] theorem finish_barrier (s c c') : ((finish s c).1.conns c').barrier = (s.conns c').barrier := by
  rw [finish_conns]; split <;> simp_all [finConn]
theorem finish_deferred_ne (s c c') (h : c' ≠ c) : ((finish s c).1.conns c').deferred = (s.conns c').deferred := by
  rw [finish_conns]; simp [h]
theorem finish_up (s c c') : ((finish s c).1.conns c').up = if c' = c then true else (s.conns c').up := by
  rw [finish_conns]; split <;> simp_all [finConn]


theorem St.ext' {a b : St} (h1 : a.n = b.n) (h2 : a.nextXid = b.nextXid) (h3 : ∀ c, a.conns c = b.conns c)
    (h4 : ∀ k, a.reg k = b.reg k) : a = b := by
  cases a; cases b; simp at *; exact ⟨h1, funext h3, funext h4, h2⟩

/-! ### the state invariant -/

structure SInv (s : St) : Prop where
  fresh : ∀ c, s.n ≤ c → s.conns c = {}
  closedDisc : ∀ c, (s.conns c).closed = true → (s.conns c).disc = true
  dpidNexus : ∀ c, (s.conns c).dpid.isSome = true → (s.conns c).nexus = true
  upDpid : ∀ c, (s.conns c).up = true → (s.conns c).dpid.isSome = true
  barrierOk : ∀ c, (s.conns c).up = false → (s.conns c).disc = false → (s.conns c).barrier.isSome = true →
      (s.conns c).dpid.isSome = true ∧ (s.conns c).deferred.isSome = true ∧ (s.conns c).barrier ≠ some none
  downUp : ∀ c, (s.conns c).downRaised = true → (s.conns c).up = true
  closedDown : ∀ c, (s.conns c).closed = true → (s.conns c).up = true → (s.conns c).downRaised = true
  /-- an announced connection that is disconnected has had its ConnectionDown, unless its socket failed and the task has
      not closed it yet (the event is deferred to that moment) -/
  lost : ∀ c, (s.conns c).up = true → (s.conns c).disc = true → (s.conns c).downRaised = false →
      (s.conns c).broken = true ∧ (s.conns c).closed = false

theorem sinv_init : SInv init := by
  constructor <;> simp [init]

/-! ### closed forms of the handlers (repaired configuration, connection not disconnected) -/

theorem hs_features_ok (cfg s c d) (hd : (s.conns c).disc = false) (hb : (s.conns c).broken = false) :
    dispatchHs cfg s c (.featuresReply d) =
      (({ s with nextXid := s.nextXid + 3 }).setConn c
          { s.conns c with dpid := some d, deferred := some [], nexus := true, barrier := some (some (s.nextXid + 2)) },
       [.sent c OFPT_SET_CONFIG s.nextXid, .sent c OFPT_FLOW_MOD (s.nextXid + 1), .sent c OFPT_BARRIER_REQUEST (s.nextXid + 2)]) := by
  simp [dispatchHs, sendObj, sendRaw, hd, hb, St.setConn, Nat.add_assoc]
  funext i; split <;> simp

theorem hs_features_broken (cfg s c d) (hd : (s.conns c).disc = false) (hb : (s.conns c).broken = true) :
    dispatchHs cfg s c (.featuresReply d) =
      (let s1 := ({ s with nextXid := s.nextXid + 1 }).setConn c { s.conns c with dpid := some d, deferred := some [], nexus := true }
       let r := disconnect cfg s1 c true
       (r.1.setConn c { r.1.conns c with barrier := some none }, r.2)) := by
  simp [dispatchHs, sendObj, sendRaw, hd, hb, disconnect_conns, discConn]
  simp [St.setConn]
  funext i; split <;> simp

/-- Every way a step of the repaired model can go, as closed forms.  `P` is proved for `step R s op` by proving it for
each leaf.  (`k` abbreviates the record of the connection concerned before the step.) -/
theorem step_elim (s : St) (op : Op) (hs : SInv s) (P : St × List Out → Prop)
    (connect : op = .connect → P ({ s with n := s.n + 1, nextXid := s.nextXid + 1 }, [.sent s.n OFPT_HELLO s.nextXid]))
    (absent : ∀ c, s.n ≤ c → (∃ m, op = .msg c m) ∨ op = .eof c ∨ op = .disc c ∨ op = .sockFail c → P (s, []))
    (closed : ∀ c, c < s.n → (s.conns c).closed = true → (∃ m, op = .msg c m) ∨ op = .eof c → P (s, []))
    (close : ∀ c, c < s.n → (s.conns c).closed = false →
        ((∃ m, op = .msg c m) ∧ (s.conns c).disc = true) ∨ op = .eof c → P (close R s c))
    (disc : ∀ c, c < s.n → op = .disc c → P (disconnect R s c false))
    (sockFail : ∀ c, c < s.n → op = .sockFail c → P (s.setConn c { s.conns c with broken := true }, []))
    (sendNone : ∀ d x, op = .sendTo d x → s.reg (some d) = none → P (s, [.sendRet false]))
    (sendSome : ∀ d x c, op = .sendTo d x → s.reg (some d) = some c →
        P ((sendRaw R s c [(OFPT_BARRIER_REQUEST, x)]).1, (sendRaw R s c [(OFPT_BARRIER_REQUEST, x)]).2 ++ [.sendRet true]))
    -- messages on a live connection: c < n, not closed, not disconnected
    (upEvents : ∀ c m l, c < s.n → (s.conns c).disc = false → (s.conns c).up = true → op = .msg c m →
        (m = .statsDesc ∧ l = ev2 .rawStats c 0 ++ ev2 .switchDesc c 0) ∨ (∃ x, m = .barrierReply x ∧ l = ev2 .barrierIn c x) ∨
        (∃ x t e, m = .error x t e ∧ l = ev2 .errorIn c x) ∨ (∃ n, m = .portStatus n ∧ l = ev2 .portStatus c n) ∨
        (∃ n, m = .packetIn n ∧ l = ev2 .packetIn c n) ∨ (∃ x, m = .echoReply x ∧ l = []) → P (s, l))
    (upHello : ∀ c, c < s.n → (s.conns c).disc = false → (s.conns c).up = true → op = .msg c .hello →
        (s.conns c).broken = false → P ({ s with nextXid := s.nextXid + 1 }, [.sent c OFPT_FEATURES_REQUEST s.nextXid]))
    (upHelloBroken : ∀ c, c < s.n → (s.conns c).disc = false → (s.conns c).up = true → op = .msg c .hello →
        (s.conns c).broken = true → P (disconnect R { s with nextXid := s.nextXid + 1 } c true))
    (upFeatures : ∀ c d, c < s.n → (s.conns c).disc = false → (s.conns c).up = true → op = .msg c (.featuresReply d) →
        v = false ∨ (s.conns c).dpid = some d →
        P ((s.setConn c { s.conns c with dpid := some d }).setReg (some d) (some c), .reg (some d) c :: ev2 .features c 0))
    -- C09-5 repaired (`v`): a features reply naming another datapath id first drops the connection's own old entry
    (upFeaturesMove : ∀ c d, c < s.n → (s.conns c).disc = false → (s.conns c).up = true → op = .msg c (.featuresReply d) →
        v = true → (s.conns c).dpid ≠ some d →
        P (((s.dropOwn (s.conns c).dpid c).setConn c { s.conns c with dpid := some d }).setReg (some d) (some c),
           .reg (some d) c :: ev2 .features c 0))
    (echo : ∀ c x, c < s.n → (s.conns c).disc = false → op = .msg c (.echoRequest x) →
        (s.conns c).broken = false → P (s, [.sent c OFPT_ECHO_REPLY x]))
    (echoBroken : ∀ c x, c < s.n → (s.conns c).disc = false → op = .msg c (.echoRequest x) →
        (s.conns c).broken = true → P (disconnect R s c true))
    (hsIgnored : ∀ c m, c < s.n → (s.conns c).disc = false → (s.conns c).up = false → op = .msg c m →
        (m = .hello ∧ (s.conns c).frSent = true) ∨ m = .statsDesc ∨ (∃ n, m = .packetIn n) ∨ (∃ x, m = .echoReply x) ∨
        (∃ x, m = .barrierReply x ∧ (s.conns c).barrier = none) ∨
        (∃ x t e, m = .error x t e ∧ ((s.conns c).barrier = none ∨ ¬ ((s.conns c).barrier = some (some x) ∧ t = 1 ∧ e = 1))) ∨
        (∃ n, m = .portStatus n ∧ (s.conns c).deferred = none) → P (s, []))
    (hsHello : ∀ c, c < s.n → (s.conns c).disc = false → (s.conns c).up = false → op = .msg c .hello →
        (s.conns c).frSent = false → (s.conns c).broken = false →
        P (({ s with nextXid := s.nextXid + 2 }).setConn c { s.conns c with frSent := true },
           [.sent c OFPT_FEATURES_REQUEST s.nextXid, .sent c OFPT_STATS_REQUEST (s.nextXid + 1)]))
    (hsHelloBroken : ∀ c, c < s.n → (s.conns c).disc = false → (s.conns c).up = false → op = .msg c .hello →
        (s.conns c).frSent = false → (s.conns c).broken = true →
        P (disconnect R (({ s with nextXid := s.nextXid + 2 }).setConn c { s.conns c with frSent := true }) c true))
    (hsFeatures : ∀ c d, c < s.n → (s.conns c).disc = false → (s.conns c).up = false → op = .msg c (.featuresReply d) →
        (s.conns c).broken = false →
        P (({ s with nextXid := s.nextXid + 3 }).setConn c
            { s.conns c with dpid := some d, deferred := some [], nexus := true, barrier := some (some (s.nextXid + 2)) },
           [.sent c OFPT_SET_CONFIG s.nextXid, .sent c OFPT_FLOW_MOD (s.nextXid + 1), .sent c OFPT_BARRIER_REQUEST (s.nextXid + 2)]))
    (hsFeaturesBroken : ∀ c d, c < s.n → (s.conns c).disc = false → (s.conns c).up = false → op = .msg c (.featuresReply d) →
        (s.conns c).broken = true →
        P (let s1 := ({ s with nextXid := s.nextXid + 1 }).setConn c { s.conns c with dpid := some d, deferred := some [], nexus := true }
           let r := disconnect R s1 c true
           (r.1.setConn c { r.1.conns c with barrier := some none }, r.2)))
    (hsWrongXid : ∀ c x y, c < s.n → (s.conns c).disc = false → (s.conns c).up = false → op = .msg c (.barrierReply x) →
        (s.conns c).barrier = some (some y) → x ≠ y →
        P (disconnect R (s.setConn c { s.conns c with dpid := none }) c false))
    (hsFinish : ∀ c x, c < s.n → (s.conns c).disc = false → (s.conns c).up = false →
        op = .msg c (.barrierReply x) ∨ op = .msg c (.error x 1 1) →
        (s.conns c).barrier = some (some x) → P (finish s c))
    (hsPortStatus : ∀ c n l, c < s.n → (s.conns c).disc = false → (s.conns c).up = false → op = .msg c (.portStatus n) →
        (s.conns c).deferred = some l → P (s.setConn c { s.conns c with deferred := some (l ++ [n]) }, []))
    : P (step R s op) := by
  cases op with
  | connect => exact connect rfl
  | eof c0 =>
    simp only [step]
    by_cases h1 : s.n ≤ c0
    · simpa [h1] using absent c0 h1 (by simp)
    have h1' := Nat.not_le.mp h1
    by_cases h2 : (s.conns c0).closed = true
    · simpa [h1, h2] using closed c0 h1' h2 (by simp)
    · simpa [h1, h2] using close c0 h1' (by simpa using h2) (by simp)
  | disc c0 =>
    simp only [step]
    by_cases h1 : s.n ≤ c0
    · simpa [h1] using absent c0 h1 (by simp)
    · simpa [h1] using disc c0 (Nat.not_le.mp h1) rfl
  | sockFail c0 =>
    simp only [step]
    by_cases h1 : s.n ≤ c0
    · simpa [h1] using absent c0 h1 (by simp)
    · simpa [h1] using sockFail c0 (Nat.not_le.mp h1) rfl
  | sendTo d x =>
    simp only [step]
    cases hr : s.reg (some d) with
    | none => simpa using sendNone d x rfl hr
    | some c => simpa using sendSome d x c rfl hr
  | msg c0 m =>
    simp only [step, deliver]
    by_cases h1 : s.n ≤ c0
    · simpa [h1] using absent c0 h1 (by simp)
    have h1' := Nat.not_le.mp h1
    by_cases h2 : (s.conns c0).closed = true
    · simpa [h1, h2] using closed c0 h1' h2 (by simp)
    have h2' : (s.conns c0).closed = false := by simpa using h2
    by_cases h3 : (s.conns c0).disc = true
    · simpa [h1, h2, h3] using close c0 h1' h2' (Or.inl ⟨⟨m, rfl⟩, h3⟩)
    have h3' : (s.conns c0).disc = false := by simpa using h3
    simp only [h1, h2', h3', R_read, Bool.and_false, if_false, Bool.false_eq_true]
    by_cases h4 : (s.conns c0).up = true
    · simp only [h4, if_true]
      by_cases hb : (s.conns c0).broken = true
      · cases m with
        | hello => simpa [dispatchUp, sendObj, sendRaw, h3', hb] using upHelloBroken c0 h1' h3' h4 rfl hb
        | featuresReply d =>
          by_cases hmv : v = true ∧ (s.conns c0).dpid ≠ some d
          · simpa [dispatchUp, hmv.1, hmv.2] using upFeaturesMove c0 d h1' h3' h4 rfl hmv.1 hmv.2
          · have hh : v = false ∨ (s.conns c0).dpid = some d := by
              cases v <;> simp_all
            rcases hh with hh | hh
            · simpa [dispatchUp, hh] using upFeatures c0 d h1' h3' h4 rfl (Or.inl hh)
            · simpa [dispatchUp, hh] using upFeatures c0 d h1' h3' h4 rfl (Or.inr hh)
        | echoRequest x => simpa [dispatchUp, sendRaw, h3', hb] using echoBroken c0 x h1' h3' rfl hb
        | _ => simp only [dispatchUp, R_err, if_true]; exact upEvents c0 _ _ h1' h3' h4 rfl (by simp)
      · have hb' : (s.conns c0).broken = false := by simpa using hb
        cases m with
        | hello => simpa [dispatchUp, sendObj, sendRaw, h3', hb'] using upHello c0 h1' h3' h4 rfl hb'
        | featuresReply d =>
          by_cases hmv : v = true ∧ (s.conns c0).dpid ≠ some d
          · simpa [dispatchUp, hmv.1, hmv.2] using upFeaturesMove c0 d h1' h3' h4 rfl hmv.1 hmv.2
          · have hh : v = false ∨ (s.conns c0).dpid = some d := by
              cases v <;> simp_all
            rcases hh with hh | hh
            · simpa [dispatchUp, hh] using upFeatures c0 d h1' h3' h4 rfl (Or.inl hh)
            · simpa [dispatchUp, hh] using upFeatures c0 d h1' h3' h4 rfl (Or.inr hh)
        | echoRequest x => simpa [dispatchUp, sendRaw, h3', hb'] using echo c0 x h1' h3' rfl hb'
        | _ => simp only [dispatchUp, R_err, if_true]; exact upEvents c0 _ _ h1' h3' h4 rfl (by simp)
    have h4' : (s.conns c0).up = false := by simpa using h4
    simp only [h4', Bool.false_eq_true, if_false]
    have hbar := hs.barrierOk c0 h4' h3'
    cases m with
    | hello =>
      by_cases hf : (s.conns c0).frSent = true
      · simpa [dispatchHs, hf] using hsIgnored c0 .hello h1' h3' h4' rfl (by simp [hf])
      have hf' : (s.conns c0).frSent = false := by simpa using hf
      by_cases hb : (s.conns c0).broken = true
      · simpa [dispatchHs, hf', sendRaw, h3', hb] using hsHelloBroken c0 h1' h3' h4' rfl hf' hb
      · have hb' : (s.conns c0).broken = false := by simpa using hb
        simpa [dispatchHs, hf', sendRaw, h3', hb'] using hsHello c0 h1' h3' h4' rfl hf' hb'
    | featuresReply d =>
      by_cases hb : (s.conns c0).broken = true
      · rw [hs_features_broken _ _ _ _ h3' hb]; exact hsFeaturesBroken c0 d h1' h3' h4' rfl hb
      · have hb' : (s.conns c0).broken = false := by simpa using hb
        rw [hs_features_ok _ _ _ _ h3' hb']; exact hsFeatures c0 d h1' h3' h4' rfl hb'
    | statsDesc => simpa [dispatchHs] using hsIgnored c0 .statsDesc h1' h3' h4' rfl (by simp)
    | packetIn n => simpa [dispatchHs] using hsIgnored c0 (.packetIn n) h1' h3' h4' rfl (by simp)
    | echoReply x => simpa [dispatchHs] using hsIgnored c0 (.echoReply x) h1' h3' h4' rfl (by simp)
    | echoRequest x =>
      by_cases hb : (s.conns c0).broken = true
      · simpa [dispatchHs, sendRaw, h3', hb] using echoBroken c0 x h1' h3' rfl hb
      · have hb' : (s.conns c0).broken = false := by simpa using hb
        simpa [dispatchHs, sendRaw, h3', hb'] using echo c0 x h1' h3' rfl hb'
    | portStatus n =>
      cases hdf : (s.conns c0).deferred with
      | none => simpa [dispatchHs, hdf] using hsIgnored c0 (.portStatus n) h1' h3' h4' rfl (by simp [hdf])
      | some l => simpa [dispatchHs, hdf] using hsPortStatus c0 n l h1' h3' h4' rfl hdf
    | barrierReply x =>
      cases hba : (s.conns c0).barrier with
      | none => simpa [dispatchHs, hba] using hsIgnored c0 (.barrierReply x) h1' h3' h4' rfl (by simp [hba])
      | some b =>
        cases b with
        | none => exact absurd hba (hbar (by simp [hba])).2.2
        | some y =>
          by_cases hxy : x = y
          · subst hxy; simpa [dispatchHs, hba, barrierXid] using hsFinish c0 x h1' h3' h4' (Or.inl rfl) hba
          · simpa [dispatchHs, hba, barrierXid, hxy] using hsWrongXid c0 x y h1' h3' h4' rfl hba hxy
    | error x t e =>
      cases hba : (s.conns c0).barrier with
      | none => simpa [dispatchHs, hba] using hsIgnored c0 (.error x t e) h1' h3' h4' rfl (by simp [hba])
      | some b =>
        cases b with
        | none => exact absurd hba (hbar (by simp [hba])).2.2
        | some y =>
          by_cases hfin : x = y ∧ t = 1 ∧ e = 1
          · obtain ⟨rfl, rfl, rfl⟩ := hfin
            simpa [dispatchHs, hba, barrierXid, OFPET_BAD_REQUEST, OFPBRC_BAD_TYPE] using hsFinish c0 x h1' h3' h4' (Or.inr rfl) hba
          · have : dispatchHs R s c0 (.error x t e) = (s, []) := by
              simp only [dispatchHs, hba, barrierXid, OFPET_BAD_REQUEST, OFPBRC_BAD_TYPE]
              by_cases h1 : x = y <;> by_cases h2 : t = 1 <;> by_cases h3 : e = 1 <;> simp_all
            rw [this]
            refine hsIgnored c0 (.error x t e) h1' h3' h4' rfl (Or.inr (Or.inr (Or.inr (Or.inr (Or.inr (Or.inl ⟨x, t, e, rfl, Or.inr ?_⟩))))))
            simp only [hba, Option.some.injEq]; omega

/-- a state change that touches only connection `c` (and the registry / counters), replacing its record by `k'` -/
theorem sinv_of_conn (s s' : St) (c : Nat) (k' : Conn) (h : SInv s) (hc : c < s.n) (hn : s'.n = s.n)
    (hcs : ∀ c', s'.conns c' = if c' = c then k' else s.conns c')
    (g1 : k'.closed = true → k'.disc = true)
    (g2 : k'.dpid.isSome = true → k'.nexus = true)
    (g3 : k'.up = true → k'.dpid.isSome = true)
    (g4 : k'.up = false → k'.disc = false → k'.barrier.isSome = true →
            k'.dpid.isSome = true ∧ k'.deferred.isSome = true ∧ k'.barrier ≠ some none)
    (g5 : k'.downRaised = true → k'.up = true)
    (g6 : k'.closed = true → k'.up = true → k'.downRaised = true)
    (g7 : k'.up = true → k'.disc = true → k'.downRaised = false → k'.broken = true ∧ k'.closed = false) : SInv s' := by
  obtain ⟨h1,h2,h3,h4,h5,h6,h7,h8⟩ := h
  constructor <;> intro c' <;> rw [hcs c'] <;> split
  all_goals (try subst c')
  all_goals (try rw [hn])
  all_goals first | assumption | (intro hh; omega) | grind

theorem sinv_of_conn' (s s' : St) (c : Nat) (h : SInv s) (hc : c < s.n) (hn : s'.n = s.n)
    (hframe : ∀ c', c' ≠ c → s'.conns c' = s.conns c')
    (g1 : (s'.conns c).closed = true → (s'.conns c).disc = true)
    (g2 : (s'.conns c).dpid.isSome = true → (s'.conns c).nexus = true)
    (g3 : (s'.conns c).up = true → (s'.conns c).dpid.isSome = true)
    (g4 : (s'.conns c).up = false → (s'.conns c).disc = false → (s'.conns c).barrier.isSome = true →
            (s'.conns c).dpid.isSome = true ∧ (s'.conns c).deferred.isSome = true ∧ (s'.conns c).barrier ≠ some none)
    (g5 : (s'.conns c).downRaised = true → (s'.conns c).up = true)
    (g6 : (s'.conns c).closed = true → (s'.conns c).up = true → (s'.conns c).downRaised = true)
    (g7 : (s'.conns c).up = true → (s'.conns c).disc = true → (s'.conns c).downRaised = false →
            (s'.conns c).broken = true ∧ (s'.conns c).closed = false) : SInv s' := by
  refine sinv_of_conn s s' c (s'.conns c) h hc hn ?_ g1 g2 g3 g4 g5 g6 g7
  intro c'; split
  · subst c'; rfl
  · exact hframe c' ‹_›

theorem sinv_step (s : St) (op : Op) (hs : SInv s) : SInv (step R s op).1 := by
  have hs' := hs
  obtain ⟨h1,h2,h3,h4,h5,h6,h7,h8⟩ := hs'
  apply step_elim s op hs (fun r => SInv r.1)
  case connect =>
    intro _
    constructor <;> intro c <;> simp
    · intro h; exact h1 c (by omega)
    all_goals grind
  case absent => intros; exact hs
  case closed => intros; exact hs
  case sendNone => intros; exact hs
  case upEvents => intros; exact hs
  case echo => intros; exact hs
  case hsIgnored => intros; exact hs
  case sendSome =>
    intro d x c _ hr
    by_cases hd : (s.conns c).disc = true
    · rw [sendRaw_disc _ _ _ _ hd]; exact hs
    have hd' : (s.conns c).disc = false := by simpa using hd
    by_cases hb : (s.conns c).broken = true
    · have hc : c < s.n := by
        apply Nat.lt_of_not_le; intro hle; rw [h1 c hle] at hb; simp at hb
      rw [sendRaw_broken _ _ _ _ hd' hb]
      have a1 := h2 c; have a2 := h3 c; have a3 := h4 c; have a4 := h5 c; have a5 := h6 c; have a6 := h7 c; have a7 := h8 c
      refine sinv_of_conn' s _ c hs hc (by simp) (by intro c' hne; simp [disconnect_conns, hne]) ?_ ?_ ?_ ?_ ?_ ?_ ?_
      all_goals simp [disconnect_conns, discConn]
      all_goals grind
    · rw [sendRaw_ok _ _ _ _ hd' (by simpa using hb)]; exact hs
  all_goals
    intro c
    intros
    have a1 := h2 c; have a2 := h3 c; have a3 := h4 c; have a4 := h5 c; have a5 := h6 c; have a6 := h7 c; have a7 := h8 c
    refine sinv_of_conn' s _ c hs ‹c < s.n› (by simp [close_n]) ?_ ?_ ?_ ?_ ?_ ?_ ?_ ?_
    · intro c' hne; simp [disconnect_conns, close_conns, finish_conns, hne]
    all_goals simp [disconnect_conns, close_conns, finish_conns, discConn, finConn]
    all_goals grind

theorem count_ps_flatMap (l : List Nat) (c : Nat) (x : Out) (hx : ∀ n b, x ≠ .ev ⟨b, .portStatus, c, n⟩) :
    (l.flatMap fun n => ev2 .portStatus c n).count x = 0 := by
  induction l with
  | nil => rfl
  | cons a t ih =>
    have h1 := hx a true; have h2 := hx a false
    simp only [List.flatMap_cons, List.count_append, ev2, List.count_cons, List.count_nil] at ih ⊢
    simp [Ne.symm h1, Ne.symm h2, ih]

set_option linter.unusedSimpArgs false
set_option linter.unusedVariables false

/-! ### what one step does to the counters, flags and events -/

theorem up_count_step (s : St) (op : Op) (hs : SInv s) (b : Bool) (c' : Nat) :
    (step R s op).2.count (upEv b c') + (if (s.conns c').up = true then 1 else 0) =
      if ((step R s op).1.conns c').up = true then 1 else 0 := by
  apply step_elim s op hs (fun r => r.2.count (upEv b c') + (if (s.conns c').up = true then 1 else 0) =
      if (r.1.conns c').up = true then 1 else 0)
  case hsFinish =>
    intro c x hc hd hu _ hb
    simp only [finish_outs, finish_up, finHead, List.count_append, List.count_cons]
    rw [count_ps_flatMap _ _ _ (by intro n b'; simp [upEv])]
    by_cases hcc : c' = c
    · subst hcc; cases b <;> simp [upEv, ev2, hu]
    · simp [upEv, ev2, hcc, Ne.symm hcc]
  case upEvents =>
    intro c m l _ _ _ _ hl
    rcases hl with ⟨_, rfl⟩ | ⟨x, _, rfl⟩ | ⟨x, t, e, _, rfl⟩ | ⟨n, _, rfl⟩ | ⟨n, _, rfl⟩ | ⟨x, _, rfl⟩ <;> simp [upEv, ev2]
  case sendSome =>
    intro d x c _ _
    simp only [sendRaw]
    split
    · simp [upEv]
    split
    · simp [upEv, disconnect_count_ev]
    · simp [upEv]
  all_goals
    intros
    simp [upEv, downEv, ev2, disconnect_count_ev, close_count_ev, List.count_cons, apply_ite Conn.up]
    try grind
theorem disconnect_count_down (s : St) (c : Nat) (defer : Bool) (b : Bool) (c' : Nat)
    (hn : (s.conns c).dpid.isSome = true → (s.conns c).nexus = true) :
    (disconnect R s c defer).2.count (downEv b c') + (if (s.conns c').downRaised = true then 1 else 0) =
      if ((disconnect R s c defer).1.conns c').downRaised = true then 1 else 0 := by
  rw [disconnect_outs, disconnect_downRaised]
  by_cases hcc : c' = c
  · subst hcc
    by_cases hr : ((s.conns c').dpid.isSome && (!(Cfg.rv v).fixDown || (s.conns c').up) && !(s.conns c').downRaised && !defer) = true
    · simp only [hr, if_true]
      have : (s.conns c').nexus = true := hn (by simp at hr; exact hr.1.1.1)
      have hdr : (s.conns c').downRaised = false := by simp at hr; exact hr.1.2
      cases b <;> simp [this, hdr, downEv, List.count_cons]
    · simp only [hr]; simp
  · split
    · simp [downEv, hcc, Ne.symm hcc, List.count_cons]; split <;> simp [Ne.symm hcc]
    · simp [hcc]

theorem down_count_step (s : St) (op : Op) (hs : SInv s) (b : Bool) (c' : Nat) :
    (step R s op).2.count (downEv b c') + (if (s.conns c').downRaised = true then 1 else 0) =
      if ((step R s op).1.conns c').downRaised = true then 1 else 0 := by
  apply step_elim s op hs (fun r => r.2.count (downEv b c') + (if (s.conns c').downRaised = true then 1 else 0) =
      if (r.1.conns c').downRaised = true then 1 else 0)
  case hsFinish =>
    intro c x hc hd hu _ hb
    simp only [finish_outs, finish_downRaised, finHead, List.count_append, List.count_cons]
    rw [count_ps_flatMap _ _ _ (by intro n b'; simp [downEv])]
    simp [downEv, ev2]
  case upEvents =>
    intro c m l _ _ _ _ hl
    rcases hl with ⟨_, rfl⟩ | ⟨x, _, rfl⟩ | ⟨x, t, e, _, rfl⟩ | ⟨n, _, rfl⟩ | ⟨n, _, rfl⟩ | ⟨x, _, rfl⟩ <;> simp [downEv, ev2]
  case close =>
    intro c _ _ _
    rw [close_outs, close_downRaised, List.count_append]
    have := disconnect_count_down (v := v) s c false b c' (hs.dpidNexus c)
    simp [downEv, List.count_cons] at this ⊢
    omega
  case disc =>
    intro c _ _
    exact disconnect_count_down s c false b c' (hs.dpidNexus c)
  case sendSome =>
    intro d x c _ _
    simp only [sendRaw]
    split
    · simp [downEv, disconnect_true_outs, disconnect_true_downRaised]
    split
    · simp [downEv, disconnect_true_outs, disconnect_true_downRaised]
    · simp [downEv, disconnect_true_outs, disconnect_true_downRaised]
  case hsWrongXid =>
    intro c x y _ _ _ _ _ _
    rw [disconnect_nodpid_outs _ _ _ _ (by simp), disconnect_nodpid_downRaised _ _ _ _ _ (by simp)]
    simp [apply_ite Conn.downRaised]; try grind
  all_goals
    intros
    simp [downEv, ev2, apply_ite Conn.downRaised, disconnect_true_outs, disconnect_true_downRaised]
    try grind
theorem mem_ps_flatMap (l : List Nat) (c : Nat) (x : Out) :
    x ∈ (l.flatMap fun n => ev2 .portStatus c n) ↔ ∃ n ∈ l, ∃ b, x = .ev ⟨b, .portStatus, c, n⟩ := by
  simp only [List.mem_flatMap, ev2, List.mem_cons, List.not_mem_nil, or_false]
  constructor
  · rintro ⟨n, hn, h | h⟩
    · exact ⟨n, hn, true, h⟩
    · exact ⟨n, hn, false, h⟩
  · rintro ⟨n, hn, b, h⟩
    cases b
    · exact ⟨n, hn, Or.inr h⟩
    · exact ⟨n, hn, Or.inl h⟩

/-- the task's "closed" marker appears exactly when the flag is set -/
theorem closed_step (s : St) (op : Op) (hs : SInv s) (c' : Nat) :
    ((step R s op).1.conns c').closed = true ↔ (s.conns c').closed = true ∨ Out.closed c' ∈ (step R s op).2 := by
  apply step_elim s op hs (fun r => (r.1.conns c').closed = true ↔ (s.conns c').closed = true ∨ Out.closed c' ∈ r.2)
  case connect => intro _; simp
  case upEvents =>
    intro c m l _ _ _ _ hl
    rcases hl with ⟨_, rfl⟩ | ⟨x, _, rfl⟩ | ⟨x, t, e, _, rfl⟩ | ⟨n, _, rfl⟩ | ⟨n, _, rfl⟩ | ⟨x, _, rfl⟩ <;> simp [ev2]
  case sendSome =>
    intro d x c _ _
    simp only [sendRaw]
    split
    · simp
    split
    · simp [disconnect_true_outs]
    · simp
  case hsFinish =>
    intro c x _ _ _ _ _
    simp [finish_outs, finHead, ev2, mem_ps_flatMap]
  all_goals
    intros
    simp [ev2, apply_ite Conn.closed, disconnect_true_outs, mem_close_outs, mem_disconnect_outs, downEv, close_closed,
      disconnect_nodpid_outs]
    try grind

/-- every event is about a connection that is (now) announced -/
theorem ev_up_step (s : St) (op : Op) (hs : SInv s) (e : Event) (he : Out.ev e ∈ (step R s op).2) :
    ((step R s op).1.conns e.con).up = true := by
  revert he
  apply step_elim s op hs (fun r => Out.ev e ∈ r.2 → (r.1.conns e.con).up = true)
  case upEvents =>
    intro c m l _ _ hu _ hl
    rcases hl with ⟨_, rfl⟩ | ⟨x, _, rfl⟩ | ⟨x, t, e, _, rfl⟩ | ⟨n, _, rfl⟩ | ⟨n, _, rfl⟩ | ⟨x, _, rfl⟩ <;> simp [ev2] <;> grind
  case sendSome =>
    intro d x c _ _
    simp only [sendRaw]
    split
    · simp
    split
    · simp [disconnect_true_outs]
    · simp
  case hsFinish =>
    intro c x _ _ _ _ _
    simp [finish_outs, finHead, ev2, mem_ps_flatMap, finish_up]
    grind
  case hsWrongXid =>
    intro c x y _ _ _ _ _ _
    simp [disconnect_nodpid_outs]
  all_goals
    intros
    simp_all [ev2, disconnect_true_outs, mem_close_outs, mem_disconnect_outs, downEv]
    try grind

/-- ConnectionDown is raised only for a connection that was announced before this step -/
theorem down_pre_up (s : St) (op : Op) (hs : SInv s) (b : Bool) (c : Nat) (a : Nat)
    (he : Out.ev ⟨b, .down, c, a⟩ ∈ (step R s op).2) : (s.conns c).up = true := by
  revert he
  apply step_elim s op hs (fun r => Out.ev ⟨b, .down, c, a⟩ ∈ r.2 → (s.conns c).up = true)
  case upEvents =>
    intro c m l _ _ hu _ hl
    rcases hl with ⟨_, rfl⟩ | ⟨x, _, rfl⟩ | ⟨x, t, e, _, rfl⟩ | ⟨n, _, rfl⟩ | ⟨n, _, rfl⟩ | ⟨x, _, rfl⟩ <;> simp [ev2]
  case sendSome =>
    intro d x c _ _
    simp only [sendRaw]
    split
    · simp
    split
    · simp [disconnect_true_outs]
    · simp
  case hsFinish =>
    intro c x _ _ _ _ _
    simp [finish_outs, finHead, ev2, mem_ps_flatMap]
  case hsWrongXid =>
    intro c x y _ _ _ _ _ _
    simp [disconnect_nodpid_outs]
  all_goals
    intros
    simp_all [ev2, disconnect_true_outs, mem_close_outs, mem_disconnect_outs, downEv]
    try grind

/-- monotone flags -/
theorem step_mono (s : St) (op : Op) (hs : SInv s) (c' : Nat) :
    ((s.conns c').up = true → ((step R s op).1.conns c').up = true) ∧
    ((s.conns c').disc = true → ((step R s op).1.conns c').disc = true) := by
  apply step_elim s op hs (fun r => ((s.conns c').up = true → (r.1.conns c').up = true) ∧
    ((s.conns c').disc = true → (r.1.conns c').disc = true))
  case sendSome =>
    intro d x c _ _
    simp only [sendRaw]
    split
    · simp
    split
    · simp [disconnect_disc]; grind
    · simp
  all_goals
    intros
    simp [apply_ite Conn.up, apply_ite Conn.disc, disconnect_disc, close_disc, finish_up]
    try grind
end Pox.Conn
