import PoxModel.Proofs.MatchSubsume
set_option linter.unusedSimpArgs false
/-! The flow a controller builds from a packet — `from_packet`, `pack(flow_mod=True)`, then on the switch `unpack(flow_mod=True)` —
matches that packet, and when it is "exact" for the switch.  Core only. -/
namespace Pox.OF
open OfMatch

theorem eq_zero_iff_testBit (x : Nat) : x = 0 ↔ ∀ i, x.testBit i = false := by
  constructor
  · rintro rfl i; simp
  · intro h; apply Nat.eq_of_testBit_eq; intro i; simp [h i]

theorem cnt_zero_iff (sh x : Nat) : cnt sh x = 0 ↔ ∀ i, i < 6 → x.testBit (sh + i) = false := by
  rw [eq_zero_iff_testBit]
  simp only [cnt, Nat.testBit_mod_two_pow, Nat.testBit_shiftRight, Bool.and_eq_false_imp, decide_eq_true_eq]

theorem mod22_flags (x : Nat) :
    x % 2 ^ 22 = 0 ↔ (∀ f : Fld, x.testBit f.bit = false) ∧ cnt 8 x = 0 ∧ cnt 14 x = 0 := by
  rw [eq_zero_iff_testBit, cnt_zero_iff, cnt_zero_iff]
  simp only [Nat.testBit_mod_two_pow, Bool.and_eq_false_imp, decide_eq_true_eq]
  constructor
  · intro h
    refine ⟨fun f => h _ (by cases f <;> decide), fun i hi => h _ (by omega), fun i hi => h _ (by omega)⟩
  · rintro ⟨h1, h2, h3⟩ i hi
    rcases bit_cases i with ⟨f, rfl⟩ | h | h
    · exact h1 f
    · by_cases h14 : i < 14
      · have := h2 (i - 8) (by omega); rwa [show 8 + (i - 8) = i by omega] at this
      · have := h3 (i - 14) (by omega); rwa [show 14 + (i - 14) = i by omega] at this
    · omega
theorem fromHeaders_view (o : OHeaders) (f : Fld) : (fromHeaders o).view f = o.get f := by
  unfold view
  rw [fromHeaders_wild, fromHeaders_get]
  cases o.get f <;> simp

theorem fromHeaders_srcAddr (o : OHeaders) : (fromHeaders o).srcView.map (·.1) = o.nwSrc := by
  simp only [srcView, fromHeaders_srcCnt, nwView]
  cases h : o.nwSrc <;> simp [fromHeaders, h]

theorem fromHeaders_dstAddr (o : OHeaders) : (fromHeaders o).dstView.map (·.1) = o.nwDst := by
  simp only [dstView, fromHeaders_dstCnt, nwView]
  cases h : o.nwDst <;> simp [fromHeaders, h]

/-- the bits `_wire_wildcards` removes, by what the match says about dl_type / nw_proto -/
def wireMask (t pr : Option Nat) : Nat :=
  if t = some 0x0800 then (match pr with
    | some p => if isL4Proto p then 0 else TP_BITS
    | none => TP_BITS)
  else if t = some 0x0806 then ARP_IGNORED
  else if t = some 0x86dd then NW_SRC_MASK ||| NW_DST_MASK ||| TP_BITS
  else NONIP_IGNORED

theorem wireWildcards_eq (m : OfMatch) : m.wireWildcards = clearBits m.wildcards (wireMask (m.view .dlType) (m.view .nwProto)) := by
  unfold wireWildcards wireMask
  split
  · cases m.view .nwProto with
    | none => rfl
    | some p => simp only; split <;> simp [clearBits_zero]
  · split
    · rfl
    · split <;> rfl


theorem packFlowMod_wild (o : OHeaders) (f : Fld) :
    (packFlowMod (fromHeaders o)).wild f = ((o.get f).isNone && !(wireMask o.dlType o.nwProto).testBit f.bit) := by
  have h1 : (fromHeaders o).view .dlType = o.dlType := fromHeaders_view o .dlType
  have h2 : (fromHeaders o).view .nwProto = o.nwProto := fromHeaders_view o .nwProto
  show (packFlowMod (fromHeaders o)).wildcards.testBit f.bit = _
  simp only [packFlowMod, wireWildcards_eq, testBit_clearBits, h1, h2]
  rw [← fromHeaders_wild]; rfl

theorem pack_dlType (o : OHeaders) : (packFlowMod (fromHeaders o)).dlType = o.dlType.getD 0 := by
  have h1 : (fromHeaders o).view .dlType = o.dlType := fromHeaders_view o .dlType
  simp [packFlowMod, h1]

theorem pack_nwProto (o : OHeaders) :
    (packFlowMod (fromHeaders o)).nwProto = if o.dlType = some 0x0800 ∨ o.dlType = some 0x0806 then o.nwProto.getD 0 else 0 := by
  have h1 : (fromHeaders o).view .dlType = o.dlType := fromHeaders_view o .dlType
  have h2 : (fromHeaders o).view .nwProto = o.nwProto := fromHeaders_view o .nwProto
  simp [packFlowMod, h1, h2]

/-- the five classes `_wire_wildcards` distinguishes -/
theorem class_cases (o : OHeaders) :
    (o.dlType = some 0x0800 ∧ ∃ p, o.nwProto = some p ∧ isL4Proto p = true) ∨
    (o.dlType = some 0x0800 ∧ ∀ p, o.nwProto = some p → isL4Proto p = false) ∨
    (o.dlType = some 0x0806) ∨ (o.dlType = some 0x86dd) ∨
    (o.dlType ≠ some 0x0800 ∧ o.dlType ≠ some 0x0806 ∧ o.dlType ≠ some 0x86dd) := by
  by_cases h1 : o.dlType = some 0x0800
  · cases hp : o.nwProto with
    | none => exact .inr (.inl ⟨h1, by simp⟩)
    | some p =>
      by_cases hl : isL4Proto p = true
      · exact .inl ⟨h1, p, rfl, hl⟩
      · exact .inr (.inl ⟨h1, by intro q hq; cases hq; simpa using hl⟩)
  · by_cases h2 : o.dlType = some 0x0806
    · exact .inr (.inr (.inl h2))
    · by_cases h3 : o.dlType = some 0x86dd
      · exact .inr (.inr (.inr (.inl h3)))
      · exact .inr (.inr (.inr (.inr ⟨h1, h2, h3⟩)))

/-- whatever `_wire_wildcards` removes for the wire, `_unwire_wildcards` puts back on reception -/
theorem wire_unwire (o : OHeaders) (f : Fld) (h : (wireMask o.dlType o.nwProto).testBit f.bit = true) :
    ignoredFlag (packFlowMod (fromHeaders o)) f = true := by
  have hd := pack_dlType o
  have hp := pack_nwProto o
  rcases class_cases o with ⟨h1, p, h2, h3⟩ | ⟨h1, h2⟩ | h1 | h1 | ⟨h1, h2, h3⟩
  · simp [wireMask, h1, h2, h3] at h
  · have hK : wireMask o.dlType o.nwProto = TP_BITS := by
      unfold wireMask; rw [if_pos h1]
      cases hq : o.nwProto with
      | none => rfl
      | some p => simp [h2 p hq]
    have hl : isL4Proto (packFlowMod (fromHeaders o)).nwProto = false := by
      rw [hp, if_pos (.inl h1)]
      cases hq : o.nwProto with
      | none => decide
      | some p => simpa using h2 p hq
    rw [hK] at h
    cases f <;> first | (exfalso; revert h; decide) | simp [ignoredFlag, tpIgnored, hl]
  · have hK : wireMask o.dlType o.nwProto = ARP_IGNORED := by simp [wireMask, h1]
    rw [hK] at h
    have e : (packFlowMod (fromHeaders o)).dlType = 0x0806 := by rw [hd, h1]; rfl
    cases f <;> first | (exfalso; revert h; decide) | simp [ignoredFlag, tpIgnored, tosIgnored, e]
  · have hK : wireMask o.dlType o.nwProto = NW_SRC_MASK ||| NW_DST_MASK ||| TP_BITS := by simp [wireMask, h1]
    rw [hK] at h
    have e : (packFlowMod (fromHeaders o)).dlType = 0x86dd := by rw [hd, h1]; rfl
    cases f <;> first | (exfalso; revert h; decide) | simp [ignoredFlag, tpIgnored, tosIgnored, nwIgnored, e]
  · have hK : wireMask o.dlType o.nwProto = NONIP_IGNORED := by simp [wireMask, h1, h2, h3]
    rw [hK] at h
    have e1 : (packFlowMod (fromHeaders o)).dlType ≠ 0x0800 := by
      rw [hd]; cases hq : o.dlType with
      | none => decide
      | some t => intro h'; apply h1; rw [hq]; simpa using h'
    have e2 : (packFlowMod (fromHeaders o)).dlType ≠ 0x0806 := by
      rw [hd]; cases hq : o.dlType with
      | none => decide
      | some t => intro h'; apply h2; rw [hq]; simpa using h'
    cases f <;> first | (exfalso; revert h; decide) | simp [ignoredFlag, tpIgnored, tosIgnored, nwIgnored, e1, e2]

/-- a field that is compared after reception carries the value the packet's match had -/
theorem pack_value (o : OHeaders) (f : Fld) (h : ignoredFlag (packFlowMod (fromHeaders o)) f = false) :
    (packFlowMod (fromHeaders o)).get f = (o.get f).getD 0 := by
  have hv : ∀ g, (fromHeaders o).view g = o.get g := fromHeaders_view o
  have hd := pack_dlType o
  have hp := pack_nwProto o
  cases f
  case nwTos =>
    simp only [ignoredFlag, tosIgnored, Bool.not_eq_false', beq_iff_eq, hd] at h
    have : o.dlType = some 0x0800 := by
      cases hq : o.dlType with
      | none => rw [hq] at h; cases h
      | some t => rw [hq] at h; simp at h; rw [h]
    simp [packFlowMod, hv, OfMatch.get, OHeaders.get, this]
  case nwProto =>
    simp only [ignoredFlag, nwIgnored, Bool.not_eq_false', Bool.or_eq_true, beq_iff_eq, hd] at h
    have : o.dlType = some 0x0800 ∨ o.dlType = some 0x0806 := by
      cases hq : o.dlType with
      | none => rw [hq] at h; simp at h
      | some t => rw [hq] at h; simp at h; rcases h with h | h <;> simp [h]
    rcases this with h1 | h1 <;> simp [packFlowMod, hv, OfMatch.get, OHeaders.get, h1]
  case tpSrc =>
    simp only [ignoredFlag, tpIgnored, Bool.not_eq_false', Bool.and_eq_true, beq_iff_eq, hd] at h
    obtain ⟨h1, h2⟩ := h
    have ht : o.dlType = some 0x0800 := by
      cases hq : o.dlType with
      | none => rw [hq] at h1; cases h1
      | some t => rw [hq] at h1; simp at h1; rw [h1]
    rw [hp, if_pos (.inl ht)] at h2
    cases hq : o.nwProto with
    | none => rw [hq] at h2; exact absurd h2 (by decide)
    | some p =>
      rw [hq] at h2
      simp [packFlowMod, hv, OfMatch.get, OHeaders.get, ht, hq] at h2 ⊢
      simp [h2]
  case tpDst =>
    simp only [ignoredFlag, tpIgnored, Bool.not_eq_false', Bool.and_eq_true, beq_iff_eq, hd] at h
    obtain ⟨h1, h2⟩ := h
    have ht : o.dlType = some 0x0800 := by
      cases hq : o.dlType with
      | none => rw [hq] at h1; cases h1
      | some t => rw [hq] at h1; simp at h1; rw [h1]
    rw [hp, if_pos (.inl ht)] at h2
    cases hq : o.nwProto with
    | none => rw [hq] at h2; exact absurd h2 (by decide)
    | some p =>
      rw [hq] at h2
      simp [packFlowMod, hv, OfMatch.get, OHeaders.get, ht, hq] at h2 ⊢
      simp [h2]
  all_goals simp [packFlowMod, hv, OfMatch.get, OHeaders.get]

theorem selfflow_fieldOk (o : OHeaders) (f : Fld) : fieldOk (ofWire (packFlowMod (fromHeaders o))) o f = true := by
  unfold fieldOk
  rw [ofWire_wild, ofWire_get, packFlowMod_wild]
  cases hi : ignoredFlag (packFlowMod (fromHeaders o)) f
  · rw [pack_value o f hi]
    cases hx : o.get f with
    | some x => simp
    | none =>
      cases hk : (wireMask o.dlType o.nwProto).testBit f.bit
      · simp
      · rw [wire_unwire o f hk] at hi; cases hi
  · simp

theorem wireMask_cnt_of_ipArp (o : OHeaders) (h : o.dlType = some 0x0800 ∨ o.dlType = some 0x0806) :
    cnt 8 (wireMask o.dlType o.nwProto) = 0 ∧ cnt 14 (wireMask o.dlType o.nwProto) = 0 := by
  unfold wireMask
  rcases h with h | h
  · rw [if_pos h]
    cases o.nwProto with
    | none => decide
    | some p => simp only; split <;> decide
  · have : o.dlType ≠ some 0x0800 := by rw [h]; decide
    rw [if_neg this, if_pos h]; decide

theorem ipArp_of_not_ignored (o : OHeaders) (h : nwIgnored (packFlowMod (fromHeaders o)) = false) :
    o.dlType = some 0x0800 ∨ o.dlType = some 0x0806 := by
  simp only [nwIgnored, Bool.not_eq_false', Bool.or_eq_true, beq_iff_eq, pack_dlType] at h
  cases hq : o.dlType with
  | none => rw [hq] at h; simp at h
  | some t => rw [hq] at h; simp at h; rcases h with h | h <;> simp [h]

theorem selfflow_src (o : OHeaders) :
    nwOk (srcCnt (ofWire (packFlowMod (fromHeaders o))).wildcards) (ofWire (packFlowMod (fromHeaders o))).nwSrc o.nwSrc = true := by
  rw [ofWire_srcCnt]
  cases hi : nwIgnored (packFlowMod (fromHeaders o))
  · have hc := ipArp_of_not_ignored o hi
    have hv : (fromHeaders o).view .dlType = o.dlType := fromHeaders_view o .dlType
    have hK := (wireMask_cnt_of_ipArp o hc).1
    have hw : srcCnt (packFlowMod (fromHeaders o)).wildcards = if o.nwSrc.isSome then 0 else 32 := by
      show srcCnt (fromHeaders o).wireWildcards = _
      rw [wireWildcards_eq, srcCnt_eq, cnt_clearBits, hv, fromHeaders_view o .nwProto]
      show clearBits _ (cnt 8 (wireMask o.dlType o.nwProto)) = _
      rw [hK, clearBits_zero, ← srcCnt_eq, fromHeaders_srcCnt]
    simp only [Bool.false_eq_true, if_false, hw]
    cases hs : o.nwSrc with
    | none => simp [nwOk]
    | some a =>
      have ha := fromHeaders_srcAddr o
      rw [hs] at ha
      have : (ofWire (packFlowMod (fromHeaders o))).nwSrc = a := by
        show (packFlowMod (fromHeaders o)).nwSrc = a
        rcases hc with h | h <;> simp [packFlowMod, hv, h, ha]
      simp [nwOk, this]
  · simp [nwOk]

theorem selfflow_dst (o : OHeaders) :
    nwOk (dstCnt (ofWire (packFlowMod (fromHeaders o))).wildcards) (ofWire (packFlowMod (fromHeaders o))).nwDst o.nwDst = true := by
  rw [ofWire_dstCnt]
  cases hi : nwIgnored (packFlowMod (fromHeaders o))
  · have hc := ipArp_of_not_ignored o hi
    have hv : (fromHeaders o).view .dlType = o.dlType := fromHeaders_view o .dlType
    have hK := (wireMask_cnt_of_ipArp o hc).2
    have hw : dstCnt (packFlowMod (fromHeaders o)).wildcards = if o.nwDst.isSome then 0 else 32 := by
      show dstCnt (fromHeaders o).wireWildcards = _
      rw [wireWildcards_eq, dstCnt_eq, cnt_clearBits, hv, fromHeaders_view o .nwProto]
      show clearBits _ (cnt 14 (wireMask o.dlType o.nwProto)) = _
      rw [hK, clearBits_zero, ← dstCnt_eq, fromHeaders_dstCnt]
    simp only [Bool.false_eq_true, if_false, hw]
    cases hs : o.nwDst with
    | none => simp [nwOk]
    | some a =>
      have ha := fromHeaders_dstAddr o
      rw [hs] at ha
      have : (ofWire (packFlowMod (fromHeaders o))).nwDst = a := by
        show (packFlowMod (fromHeaders o)).nwDst = a
        rcases hc with h | h <;> simp [packFlowMod, hv, h, ha]
      simp [nwOk, this]
  · simp [nwOk]

/-- **A flow built from a packet's own match matches that packet.**  Whatever `from_packet` assigned (`o`): the match object it
    builds, sent as `pack(flow_mod=True)` and received with `unpack(flow_mod=True)`, accepts the packet's match in the lookup test. -/
theorem selfflow_accepts (o : OHeaders) :
    matchesWith false (ofWire (packFlowMod (fromHeaders o))) (fromHeaders o) = true := by
  rw [accepts_fromHeaders, selfflow_src, selfflow_dst]
  simp only [Bool.and_true, List.all_eq_true]
  intro f _
  exact selfflow_fieldOk o f

/-- every one of the twelve fields has been assigned -/
def allAssigned (o : OHeaders) : Prop := (∀ f, (o.get f).isSome = true) ∧ o.nwSrc.isSome = true ∧ o.nwDst.isSome = true

theorem fromHeaders_exact_iff (o : OHeaders) : (fromHeaders o).wildcards % 2 ^ 22 = 0 ↔ allAssigned o := by
  rw [mod22_flags, ← srcCnt_eq, ← dstCnt_eq, fromHeaders_srcCnt, fromHeaders_dstCnt]
  unfold allAssigned
  have hw : ∀ f, (fromHeaders o).wildcards.testBit f.bit = (o.get f).isNone := fun f => fromHeaders_wild o f
  simp only [hw]
  constructor
  · rintro ⟨h1, h2, h3⟩
    refine ⟨fun f => ?_, ?_, ?_⟩
    · have := h1 f; cases hq : o.get f <;> simp_all
    · cases hq : o.nwSrc <;> simp_all
    · cases hq : o.nwDst <;> simp_all
  · rintro ⟨h1, h2, h3⟩
    refine ⟨fun f => ?_, by simp [h2], by simp [h3]⟩
    have := h1 f; cases hq : o.get f <;> simp_all

/-- **When is the flow built from a packet "exact" for the switch** (gets the priority above all others)?  Exactly when
    `from_packet` assigned all twelve fields and the packet is IPv4 with protocol 1, 6 or 17. -/
theorem selfflow_exact_iff (o : OHeaders) :
    (ofWire (packFlowMod (fromHeaders o))).isWildcarded = false ↔
      allAssigned o ∧ o.dlType = some 0x0800 ∧ ∃ p, o.nwProto = some p ∧ isL4Proto p = true := by
  rw [ofWire_exact_iff, pack_dlType, pack_nwProto]
  simp only [Spec.exact, beq_iff_eq]
  have hv1 : (fromHeaders o).view .dlType = o.dlType := fromHeaders_view o .dlType
  have hv2 : (fromHeaders o).view .nwProto = o.nwProto := fromHeaders_view o .nwProto
  have hW : (packFlowMod (fromHeaders o)).wildcards = clearBits (fromHeaders o).wildcards (wireMask o.dlType o.nwProto) := by
    show (fromHeaders o).wireWildcards = _
    rw [wireWildcards_eq, hv1, hv2]
  constructor
  · rintro ⟨h1, h2, h3⟩
    have ht : o.dlType = some 0x0800 := by
      cases hq : o.dlType with
      | none => rw [hq] at h2; cases h2
      | some t => rw [hq] at h2; simp at h2; rw [h2]
    rw [if_pos (.inl ht)] at h3
    obtain ⟨p, hp, hl⟩ : ∃ p, o.nwProto = some p ∧ isL4Proto p = true := by
      cases hq : o.nwProto with
      | none => rw [hq] at h3; exact absurd h3 (by decide)
      | some p => rw [hq] at h3; exact ⟨p, rfl, by simpa using h3⟩
    have hK : wireMask o.dlType o.nwProto = 0 := by simp [wireMask, ht, hp, hl]
    rw [hW, hK, clearBits_zero] at h1
    exact ⟨(fromHeaders_exact_iff o).mp h1, ht, p, hp, hl⟩
  · rintro ⟨h1, ht, p, hp, hl⟩
    have hK : wireMask o.dlType o.nwProto = 0 := by simp [wireMask, ht, hp, hl]
    refine ⟨?_, by simp [ht], by simp [ht, hp, hl]⟩
    rw [hW, hK, clearBits_zero]
    exact (fromHeaders_exact_iff o).mpr h1

/-! ### packets -/

/-- IPv4 packet with protocol ICMP, TCP or UDP -/
def isL4Packet (p : PHdr) : Bool := match p.l3 with
  | .ipv4 _ _ pr _ _ _ => isL4Proto pr
  | _ => false

theorem l4packet_headers (p : PHdr) (port : Nat) (hr : regular p = true) (hl : isL4Packet p = true) :
    (Spec.headers p port).dlType = 0x0800 ∧ isL4Proto (Spec.headers p port).nwProto = true := by
  obtain ⟨src, dst, typ, llc, vlan, l3⟩ := p
  cases l3 with
  | other => simp [isL4Packet] at hl
  | arp op s d => simp [isL4Packet] at hl
  | ipv4 s d pr tos frag l4 =>
    simp only [isL4Packet] at hl
    have hd : Spec.dlTypeOf { src := src, dst := dst, typ := typ, llc := llc, vlan := vlan, l3 := .ipv4 s d pr tos frag l4 } = 0x0800 := by
      simp only [regular, regularG, Bool.and_eq_true, beq_iff_eq] at hr
      exact hr.2.1
    constructor
    · simp only [Spec.headers, Spec.zeroL3, hd]
      cases frag <;> cases l4 <;> simp <;> split <;> rfl
    · simp only [Spec.headers, Spec.zeroL3, hd]
      cases frag <;> cases l4 <;> simp <;> (try split) <;> exact hl

/-- for a complete IPv4 TCP/UDP/ICMP packet arriving on a port, `from_packet` assigns all twelve fields -/
theorem l4packet_allAssigned (p : PHdr) (port : Nat) (hr : regular p = true) (hl : isL4Packet p = true) :
    allAssigned (extract p (some port)) ∧ (extract p (some port)).dlType = some 0x0800 ∧
    ∃ pr, (extract p (some port)).nwProto = some pr ∧ isL4Proto pr = true := by
  have e := extract_ok_aux p port hr
  obtain ⟨hd, hp⟩ := l4packet_headers p port hr hl
  obtain ⟨a, b, c⟩ := e.nwHere (.inl hd)
  have t := e.tosHere hd
  obtain ⟨u, w⟩ := e.tpHere hd hp
  refine ⟨⟨fun f => ?_, a, b⟩, by rw [e.dlType, hd], ?_⟩
  · cases f <;> simp [OHeaders.get, e.inPort, e.dlSrc, e.dlDst, e.dlVlan, e.dlVlanPcp, e.dlType, t, c, u, w]
  · have := e.nwProto.of_isSome c
    exact ⟨_, this, hp⟩

end Pox.OF
