import PoxModel.Proofs.STreeFlood
/-! `_prev` versus the port_mod messages (C19): one `_update_tree()` sends a port_mod for exactly the (switch, port) pairs whose
    `_prev` entry changes, each carrying the new value; so a switch that applies every port_mod it is sent has, on every port, the
    NO_FLOOD state recorded in `_prev`.  Core only. -/
namespace Pox.STree

/-- the effect of a sequence of port_mods on the per-port flood state of the switches (`b` = state before) -/
def applyMods (b : Prev) (mods : List PortMod) : Prev := mods.foldl (fun b m => b.set (m.sw, m.port) m.flood) b

def Agree (b pv : Prev) : Prop := ∀ k, b.get k = pv.get k

theorem applyMods_cons (b : Prev) (m : PortMod) (r : List PortMod) :
    applyMods b (m :: r) = applyMods (b.set (m.sw, m.port) m.flood) r := rfl

theorem applyMods_append (b : Prev) (a r : List PortMod) : applyMods b (a ++ r) = applyMods (applyMods b a) r := by
  unfold applyMods; rw [List.foldl_append]

theorem Agree.set {b pv : Prev} (h : Agree b pv) (k : Nat × Nat) (f : Bool) : Agree (b.set k f) (pv.set k f) := by
  intro k'; rw [Prev.get_set, Prev.get_set, h k']

theorem applyMods_untouched (k : Nat × Nat) : ∀ (mods : List PortMod) (b : Prev), (∀ m ∈ mods, (m.sw, m.port) ≠ k) →
    (applyMods b mods).get k = b.get k
  | [], _, _ => rfl
  | m :: r, b, h => by
    rw [applyMods_cons, applyMods_untouched k r _ (fun x hx => h x (by simp [hx])), Prev.get_set,
      if_neg (h m (by simp))]

theorem applyMods_touched (k : Nat × Nat) (c : Bool) : ∀ (mods : List PortMod) (b : Prev),
    (∃ m ∈ mods, (m.sw, m.port) = k) → (∀ m ∈ mods, (m.sw, m.port) = k → m.flood = c) → (applyMods b mods).get k = some c
  | [], _, h, _ => by obtain ⟨m, hm, _⟩ := h; simp at hm
  | m :: r, b, _, hc => by
    rw [applyMods_cons]
    by_cases hr : ∃ m' ∈ r, (m'.sw, m'.port) = k
    · exact applyMods_touched k c r _ hr (fun x hx => hc x (by simp [hx]))
    · have : ∀ m' ∈ r, (m'.sw, m'.port) ≠ k := fun m' hm' e => hr ⟨m', hm', e⟩
      rw [applyMods_untouched k r _ this, Prev.get_set]
      have hm : (m.sw, m.port) = k := by
        rename_i h
        obtain ⟨x, hx, e⟩ := h
        rcases List.mem_cons.mp hx with c1 | c1
        · rw [← c1]; exact e
        · exact absurd ⟨x, c1, e⟩ hr
      rw [if_pos hm, hc m (by simp) hm]

theorem portLoop_mods (adj : List Link) (tp : List Nat) (sw : Nat) : ∀ (ports : List Nat) (pv : Prev) (out : List PortMod),
    ∃ new, (portLoop adj tp sw ports (pv, out)).2 = out ++ new ∧
      (∀ m ∈ new, m.sw = sw ∧ m.flood = floodOf adj tp sw m.port ∧ pv.get (sw, m.port) ≠ some m.flood) ∧
      (∀ b, Agree b pv → Agree (applyMods b new) (portLoop adj tp sw ports (pv, out)).1)
  | [], pv, out => ⟨[], by simp [portLoop], by simp, fun b h => h⟩
  | p :: ps, pv, out => by
    unfold portLoop
    by_cases hp : p < OFPP_MAX
    · rw [if_pos hp]
      by_cases hg : pv.get (sw, p) = some (floodOf adj tp sw p)
      · rw [if_pos hg]; exact portLoop_mods adj tp sw ps pv out
      · rw [if_neg hg]
        obtain ⟨new, e, hm, ha⟩ := portLoop_mods adj tp sw ps (pv.set (sw, p) (floodOf adj tp sw p))
          (out ++ [⟨sw, p, floodOf adj tp sw p⟩])
        refine ⟨⟨sw, p, floodOf adj tp sw p⟩ :: new, by rw [e]; simp, ?_, ?_⟩
        · intro m hmem
          rcases List.mem_cons.mp hmem with c | c
          · subst c; exact ⟨rfl, rfl, hg⟩
          · obtain ⟨h1, h2, h3⟩ := hm m c
            refine ⟨h1, h2, ?_⟩
            rw [Prev.get_set] at h3
            by_cases hk : (sw, p) = (sw, m.port)
            · rw [if_pos hk] at h3
              have : m.port = p := (Prod.mk.inj hk).2.symm
              rw [h2, this] at h3
              exact absurd rfl h3
            · rw [if_neg hk] at h3; exact h3
        · intro b hb
          rw [applyMods_cons]
          exact ha _ (hb.set _ _)
    · rw [if_neg hp]; exact portLoop_mods adj tp sw ps pv out

/-- the value `_update_tree` wants for (switch, port) -/
def wantFlood (adj : List Link) (t : List TEdge) (k : Nat × Nat) : Bool := floodOf adj (treePorts t k.1) k.1 k.2

theorem swLoop_mods (adj : List Link) (t : List TEdge) (conns : Conns) : ∀ (ks : List Nat) (acc : Prev × List PortMod),
    ∃ new, (swLoop adj t conns ks acc).2 = acc.2 ++ new ∧
      (∀ m ∈ new, m.flood = wantFlood adj t (m.sw, m.port) ∧ acc.1.get (m.sw, m.port) ≠ some m.flood) ∧
      (∀ b, Agree b acc.1 → Agree (applyMods b new) (swLoop adj t conns ks acc).1)
  | [], acc => ⟨[], by simp [swLoop], by simp, fun b h => h⟩
  | k :: ks, acc => by
    unfold swLoop
    cases hc : conns.get k with
    | none => exact swLoop_mods adj t conns ks acc
    | some ports =>
      obtain ⟨pv, out⟩ := acc
      obtain ⟨n1, e1, m1, a1⟩ := portLoop_mods adj (treePorts t k) k ports pv out
      obtain ⟨n2, e2, m2, a2⟩ := swLoop_mods adj t conns ks (portLoop adj (treePorts t k) k ports (pv, out))
      refine ⟨n1 ++ n2, ?_, ?_, ?_⟩
      · simp only []; rw [e2, e1, List.append_assoc]
      · intro m hm
        rcases List.mem_append.mp hm with c | c
        · obtain ⟨h1, h2, h3⟩ := m1 m c
          refine ⟨by rw [h2]; unfold wantFlood; rw [h1], by rw [h1]; exact h3⟩
        · obtain ⟨h1, h2⟩ := m2 m c
          refine ⟨h1, ?_⟩
          rw [portLoop_get] at h2
          split at h2
          · rename_i hcnd
            have : m.sw = k := hcnd.1
            rw [h1] at h2
            unfold wantFlood at h2
            simp only [this] at h2
            exact absurd rfl h2
          · exact h2
      · intro b hb
        simp only []
        rw [applyMods_append]
        exact a2 _ (a1 b hb)

/-- PORT_MODS = CHANGES.  One `_update_tree()`: (i) a switch state that agreed with `_prev` before and applies the port_mods sent
    agrees with `_prev` afterwards; (ii) a port_mod is sent for (switch, port) iff its `_prev` entry changed; (iii) every port_mod
    carries the new `_prev` value. -/
theorem updateTree_mods (va : Bool) (adj : List Link) (order : List Nat) (conns : Conns) (pv pv' : Prev) (mods : List PortMod)
    (h : updateTree va adj order conns pv = .ok (pv', mods)) :
    (∀ b, Agree b pv → Agree (applyMods b mods) pv') ∧
    (∀ sw p, (∃ f, (⟨sw, p, f⟩ : PortMod) ∈ mods) ↔ pv'.get (sw, p) ≠ pv.get (sw, p)) ∧
    (∀ m ∈ mods, pv'.get (m.sw, m.port) = some m.flood) := by
  unfold updateTree at h
  cases hct : calcTreeL adj order with
  | error e => rw [hct] at h; cases h
  | ok t =>
    rw [hct] at h
    simp only [Except.ok.injEq] at h
    obtain ⟨new, e, hm, ha⟩ := swLoop_mods adj t conns (visited va t conns) (pv, [])
    rw [h] at e ha
    simp only [List.nil_append] at e
    subst e
    have hag : Agree (applyMods pv mods) pv' := ha pv (fun _ => rfl)
    have hval : ∀ m ∈ mods, pv'.get (m.sw, m.port) = some m.flood := by
      intro m hmm
      rw [← hag (m.sw, m.port)]
      apply applyMods_touched _ _ mods pv ⟨m, hmm, rfl⟩
      intro m' hm' ek
      rw [(hm m' hm').1, (hm m hmm).1, ek]
    refine ⟨ha, ?_, hval⟩
    intro sw p
    constructor
    · rintro ⟨f, hf⟩ c
      have h1 := hval _ hf
      have h2 := (hm _ hf).2
      simp only at h1 h2
      rw [c] at h1
      exact h2 h1
    · intro hne
      by_cases hex : ∃ m ∈ mods, (m.sw, m.port) = (sw, p)
      · obtain ⟨m, hmm, ek⟩ := hex
        obtain ⟨e1, e2⟩ := Prod.mk.inj ek
        exact ⟨m.flood, by cases m; simp only at e1 e2; subst e1; subst e2; exact hmm⟩
      · have : ∀ m ∈ mods, (m.sw, m.port) ≠ (sw, p) := fun m hmm ek => hex ⟨m, hmm, ek⟩
        exact absurd ((hag (sw, p)).symm.trans (applyMods_untouched (sw, p) mods pv this)) hne

/-- RECOVERY after a failed send (`_prev` cleared): the next `_update_tree()` that goes through sends a port_mod for every port below
    `OFPP_MAX` of every connected tree switch, so WHATEVER the NO_FLOOD bits were before, those ports end with the right bit. -/
theorem update_from_cleared (va : Bool) (adj : List Link) (order : List Nat) (conns : Conns) (pv' : Prev) (mods : List PortMod)
    (t : List TEdge) (ht : calcTreeL adj order = .ok t) (h : updateTree va adj order conns [] = .ok (pv', mods)) (b : Prev) :
    ∀ sw ∈ visited va t conns, ∀ ports, conns.get sw = some ports → ∀ p ∈ ports, p < OFPP_MAX →
      (applyMods b mods).get (sw, p) = some (floodOf adj (treePorts t sw) sw p) := by
  intro sw hsw ports hp p hpp hlt
  have hg := updateTree_post va adj order conns [] pv' mods t ht h sw hsw ports hp p hpp hlt
  obtain ⟨_, h2, h3⟩ := updateTree_mods va adj order conns [] pv' mods h
  have hne : pv'.get (sw, p) ≠ Prev.get [] (sw, p) := by rw [hg]; simp [Prev.get]
  obtain ⟨f, hf⟩ := (h2 sw p).mpr hne
  apply applyMods_touched (sw, p) _ mods b ⟨_, hf, rfl⟩
  intro m hm ek
  have := h3 m hm
  rw [ek, hg] at this
  exact (Option.some.inj this).symm

/-- a failed send leaves `_prev` empty and has delivered a prefix of the port_mods of the undisturbed run -/
theorem updateTreeF_failed (va : Bool) (adj : List Link) (order : List Nat) (conns : Conns) (pv pv' : Prev) (mods : List PortMod) (k : Nat)
    (h : updateTree va adj order conns pv = .ok (pv', mods)) (hk : k < mods.length) :
    updateTreeF va adj order conns pv (some k) = .ok ([], mods.take k) := by
  unfold updateTreeF; rw [h]; simp [hk]

end Pox.STree
