import PoxModel.Proofs.STreeCull
/-! The culling loop of `_calc_spanning_tree` AS WRITTEN (`build`, `cullBody`, `cullInner`, `cullOuter` of `Model/STree.lean`) computes
    the closed form (`portToward`, `nbrs`): `calcTreeL adj order = calcTree adj order` whenever `order` enumerates the switches —
    including the `AssertionError` when a link joins a switch to itself.  Core only. -/
namespace Pox.STree

abbrev akeys (m : AMap) : List (Nat × Nat) := m.map (·.1)

/-! ### the association list -/

theorem AMap.get_cons (k' : Nat × Nat) (e : Entry) (r : AMap) (k : Nat × Nat) :
    AMap.get ((k', e) :: r) k = if k' = k then some e else AMap.get r k := rfl

theorem AMap.get_set : ∀ (m : AMap) (k : Nat × Nat) (e : Entry) (k' : Nat × Nat),
    (m.set k e).get k' = if k = k' then some e else m.get k'
  | [], k, e, k' => by simp [AMap.set, AMap.get]
  | (k0, e0) :: r, k, e, k' => by
    unfold AMap.set
    by_cases h0 : k0 = k
    · subst h0
      simp only [if_true, AMap.get_cons]
      by_cases h1 : k0 = k' <;> simp [h1]
    · simp only [h0, if_false, AMap.get_cons, AMap.get_set r k e k']
      by_cases h1 : k0 = k'
      · subst h1
        have : ¬ k = k0 := fun c => h0 c.symm
        simp [this]
      · simp [h1]

theorem AMap.get_erase (k : Nat × Nat) : ∀ (m : AMap) (k' : Nat × Nat),
    (m.erase k).get k' = if k' = k then none else m.get k'
  | [], k' => by simp [AMap.erase, AMap.get]
  | (k0, e0) :: r, k' => by
    have ih := AMap.get_erase k r k'
    unfold AMap.erase at ih ⊢
    by_cases h0 : k0 = k
    · subst h0
      simp only [List.filter_cons, ne_eq, not_true_eq_false, decide_false, Bool.false_eq_true, if_false, ih, AMap.get_cons]
      by_cases h1 : k' = k0
      · simp [h1]
      · have : ¬ k0 = k' := fun c => h1 c.symm
        simp [h1, this]
    · simp only [List.filter_cons, ne_eq, h0, not_false_eq_true, decide_true, if_true, AMap.get_cons, ih]
      by_cases h1 : k0 = k'
      · subst h1; simp [h0]
      · simp [h1]

theorem AMap.mem_keys_iff : ∀ (m : AMap) (k : Nat × Nat), k ∈ akeys m ↔ (m.get k).isSome = true
  | [], k => by simp [AMap.get]
  | (k0, e0) :: r, k => by
    have ih := AMap.mem_keys_iff r k
    simp only [akeys, List.map_cons, List.mem_cons, AMap.get_cons] at ih ⊢
    by_cases h : k0 = k
    · simp [h]
    · have : ¬ k = k0 := fun c => h c.symm
      simp [h, this, ih]

theorem AMap.keys_set : ∀ (m : AMap) (k : Nat × Nat) (e : Entry),
    akeys (m.set k e) = if k ∈ akeys m then akeys m else akeys m ++ [k]
  | [], k, e => by simp [AMap.set]
  | (k0, e0) :: r, k, e => by
    unfold AMap.set
    by_cases h0 : k0 = k
    · subst h0; simp
    · have ih := AMap.keys_set r k e
      have : ¬ k = k0 := fun c => h0 c.symm
      simp only [akeys] at ih
      simp only [h0, if_false, akeys, List.map_cons, ih, List.mem_cons, this, false_or]
      split <;> simp

theorem AMap.keys_erase (m : AMap) (k : Nat × Nat) : akeys (m.erase k) = (akeys m).filter fun x => x ≠ k := by
  unfold AMap.erase akeys
  rw [List.filter_map]
  rfl

/-! ### building `adj` (:58-64) -/

def pkey (l : Link) : Nat × Nat := (l.dpid1, l.dpid2)

/-- every entry is still a list (true while building, before the culling) -/
def AllLinks (m : AMap) : Prop := ∀ k p, m.get k ≠ some (.port p)

theorem linksFrom_cons (l : Link) (ls : List Link) (a b : Nat) :
    linksFrom (l :: ls) a b = if pkey l = (a, b) then l :: linksFrom ls a b else linksFrom ls a b := by
  unfold linksFrom pkey
  simp only [List.filter_cons, Prod.mk.injEq]
  by_cases h1 : l.dpid1 = a <;> by_cases h2 : l.dpid2 = b <;> simp [h1, h2]

theorem addLink_get (m : AMap) (hm : AllLinks m) (l : Link) (k : Nat × Nat) :
    (addLink m l).get k =
      if pkey l = k then some (.links ((match m.get (pkey l) with | some (.links ls) => ls | _ => []) ++ [l]))
      else m.get k := by
  unfold addLink
  show (match m.get (pkey l) with
    | some (.links ls) => m.set (pkey l) (.links (ls ++ [l]))
    | some (.port _) => m
    | none => m.set (pkey l) (.links [l])).get k = _
  cases hg : m.get (pkey l) with
  | none => simp only [AMap.get_set]; rfl
  | some e =>
    cases e with
    | links ls => simp only [AMap.get_set]
    | port p => exact absurd hg (hm _ p)

theorem addLink_keys (m : AMap) (hm : AllLinks m) (l : Link) :
    akeys (addLink m l) = if pkey l ∈ akeys m then akeys m else akeys m ++ [pkey l] := by
  unfold addLink
  show akeys (match m.get (pkey l) with
    | some (.links ls) => m.set (pkey l) (.links (ls ++ [l]))
    | some (.port _) => m
    | none => m.set (pkey l) (.links [l])) = _
  cases hg : m.get (pkey l) with
  | none => simp only [AMap.keys_set]
  | some e =>
    cases e with
    | links ls => simp only [AMap.keys_set]
    | port p => exact absurd hg (hm _ p)

theorem addLink_allLinks (m : AMap) (hm : AllLinks m) (l : Link) : AllLinks (addLink m l) := by
  intro k p
  rw [addLink_get m hm l k]
  split
  · simp
  · exact hm k p

theorem dedupP_congr : ∀ (l s1 s2 : List (Nat × Nat)), (∀ x, x ∈ s1 ↔ x ∈ s2) → dedupP s1 l = dedupP s2 l
  | [], _, _, _ => rfl
  | x :: xs, s1, s2, h => by
    unfold dedupP
    by_cases hx : x ∈ s1
    · have hx2 : x ∈ s2 := (h x).mp hx
      simp only [hx, hx2, if_true]
      exact dedupP_congr xs s1 s2 h
    · have hx2 : x ∉ s2 := fun c => hx ((h x).mpr c)
      simp only [hx, hx2, if_false]
      rw [dedupP_congr xs (x :: s1) (x :: s2) (by intro y; simp [h y])]

/-- what `build` adds to a map whose entries are lists -/
theorem build_spec : ∀ (ls : List Link) (m : AMap), AllLinks m →
    AllLinks (build ls m) ∧
    akeys (build ls m) = akeys m ++ dedupP (akeys m) (ls.map pkey) ∧
    ∀ a b, (build ls m).get (a, b) =
      match m.get (a, b) with
      | some (.links l0) => some (.links (l0 ++ linksFrom ls a b))
      | _ => if linksFrom ls a b = [] then none else some (.links (linksFrom ls a b))
  | [], m, hm => by
    refine ⟨hm, by simp [build, dedupP], ?_⟩
    intro a b
    simp only [build, linksFrom, List.filter_nil, List.append_nil, if_true]
    cases hg : m.get (a, b) with
    | none => rfl
    | some e =>
      cases e with
      | links l0 => rfl
      | port p => exact absurd hg (hm _ p)
  | l :: ls, m, hm => by
    obtain ⟨i1, i2, i3⟩ := build_spec ls (addLink m l) (addLink_allLinks m hm l)
    refine ⟨i1, ?_, ?_⟩
    · simp only [build, i2, addLink_keys m hm l, List.map_cons, dedupP]
      by_cases hk : pkey l ∈ akeys m
      · simp only [hk, if_true]
      · simp only [hk, if_false, List.append_assoc, List.singleton_append]
        rw [dedupP_congr _ (akeys m ++ [pkey l]) (pkey l :: akeys m) (by intro x; simp [or_comm])]
    · intro a b
      simp only [build, i3 a b, addLink_get m hm l (a, b), linksFrom_cons]
      by_cases hk : pkey l = (a, b)
      · simp only [hk, if_true]
        cases hg : m.get (a, b) with
        | none => simp
        | some e =>
          cases e with
          | links l0 => simp
          | port p => exact absurd hg (hm _ p)
      · simp only [hk, if_false]

theorem build_nil (adj : List Link) :
    akeys (build adj []) = keysOf adj ∧
    ∀ a b, (build adj []).get (a, b) = if linksFrom adj a b = [] then none else some (.links (linksFrom adj a b)) := by
  obtain ⟨_, h2, h3⟩ := build_spec adj [] (by intro k p; simp [AMap.get])
  refine ⟨by rw [h2]; rfl, ?_⟩
  intro a b
  simpa [AMap.get] using h3 a b

/-! ### the culling loop (:66-86) -/

theorem AMap.erase_absent (m : AMap) (k : Nat × Nat) (h : m.get k = none) : m.erase k = m := by
  unfold AMap.erase
  rw [List.filter_eq_self]
  intro x hx
  have : x.1 ∈ akeys m := List.mem_map.mpr ⟨x, hx, rfl⟩
  have hs := (AMap.mem_keys_iff m x.1).mp this
  have : x.1 ≠ k := fun c => by rw [c, h] at hs; simp at hs
  simpa using this

/-- the value the loop leaves in `adj[a][b]` -/
def fin (adj : List Link) (order : List Nat) (a b : Nat) : Option Entry := (portToward adj order a b).map Entry.port

def Settled (adj : List Link) (Done : Nat × Nat → Prop) (a b : Nat) : Prop :=
  Done (a, b) ∨ (Done (b, a) ∧ linksFrom adj b a ≠ [])

/-- loop invariant: `Done` = the (s1, s2) pairs the double loop has been through -/
structure CInv (adj : List Link) (order : List Nat) (Done : Nat × Nat → Prop) (m : AMap) : Prop where
  g1 : ∀ a b, linksFrom adj a b = [] → m.get (a, b) = none
  g2 : ∀ a b, linksFrom adj a b ≠ [] → Settled adj Done a b → m.get (a, b) = fin adj order a b
  g3 : ∀ a b, linksFrom adj a b ≠ [] → ¬ Settled adj Done a b → m.get (a, b) = some (.links (linksFrom adj a b))
  gk : akeys m = (keysOf adj).filter fun k => (m.get k).isSome

theorem goodLink_flip_links {adj : List Link} {a b : Nat} {l : Link} (h : goodLink adj a b = some l) :
    linksFrom adj b a ≠ [] := by
  obtain ⟨_, h1, h2, h3⟩ := goodLink_some h
  have : l.flip ∈ linksFrom adj b a := by
    unfold linksFrom; rw [List.mem_filter]; exact ⟨h3, by simp [Link.flip, h1, h2]⟩
  exact List.ne_nil_of_mem this

theorem goodLink_none_symm {adj : List Link} {a b : Nat} (h : goodLink adj a b = none) : goodLink adj b a = none := by
  cases hb : goodLink adj b a with
  | none => rfl
  | some l =>
    have : (goodLink adj a b).isSome = true :=
      (goodLink_isSome adj a b).mpr ((goodLink_isSome adj b a).mp (by rw [hb]; rfl)).symm
    rw [h] at this; cases this

theorem fin_none {adj : List Link} (order : List Nat) {a b : Nat} (h : goodLink adj a b = none) :
    fin adj order a b = none ∧ fin adj order b a = none := by
  have h' := goodLink_none_symm h
  unfold fin portToward
  constructor <;> split <;> simp [h, h']

theorem fin_some {adj : List Link} {order : List Nat} {a b : Nat} {l : Link} (h : goodLink adj a b = some l)
    (hb : before order a b = true) :
    fin adj order a b = some (.port l.port1) ∧ fin adj order b a = some (.port l.port2) := by
  have hb' := before_asymm order a b hb
  unfold fin portToward
  simp [hb, hb', h]

theorem linksFrom_self (adj : List Link) (hns : ∀ l ∈ adj, l.dpid1 ≠ l.dpid2) (a : Nat) : linksFrom adj a a = [] := by
  unfold linksFrom
  rw [List.filter_eq_nil_iff]
  intro l hl
  have := hns l hl
  simp only [Bool.and_eq_true, decide_eq_true_eq, not_and]
  exact fun h1 h2 => this (h1.trans h2.symm)

theorem settled_step (adj : List Link) (Done : Nat × Nat → Prop) (s1 s2 a b : Nat) :
    Settled adj (fun p => Done p ∨ p = (s1, s2)) a b ↔
      Settled adj Done a b ∨ (a, b) = (s1, s2) ∨ ((b, a) = (s1, s2) ∧ linksFrom adj b a ≠ []) := by
  unfold Settled
  constructor
  · rintro ((h | h) | ⟨h | h, hl⟩)
    · exact .inl (.inl h)
    · exact .inr (.inl h)
    · exact .inl (.inr ⟨h, hl⟩)
    · exact .inr (.inr ⟨h, hl⟩)
  · rintro ((h | ⟨h, hl⟩) | h | ⟨h, hl⟩)
    · exact .inl (.inl h)
    · exact .inr ⟨.inl h, hl⟩
    · exact .inl (.inr h)
    · exact .inr ⟨.inr h, hl⟩

/-- going through a pair that is already settled (or has no links) changes nothing, also not in the invariant -/
theorem CInv_same {adj : List Link} {order : List Nat} {Done : Nat × Nat → Prop} {m : AMap} (hI : CInv adj order Done m)
    (s1 s2 : Nat) (hU : linksFrom adj s1 s2 = [] ∨ Settled adj Done s1 s2) :
    CInv adj order (fun p => Done p ∨ p = (s1, s2)) m := by
  have key : ∀ a b, linksFrom adj a b ≠ [] → (Settled adj (fun p => Done p ∨ p = (s1, s2)) a b ↔ Settled adj Done a b) := by
    intro a b hl
    rw [settled_step]
    constructor
    · rintro (h | h | ⟨h, hl2⟩)
      · exact h
      · cases h
        rcases hU with c | c
        · exact absurd c hl
        · exact c
      · cases h
        rcases hU with c | c
        · exact absurd c hl2
        · rcases c with c | ⟨c, _⟩
          · exact .inr ⟨c, hl2⟩
          · exact .inl c
    · exact .inl
  exact { g1 := hI.g1
          g2 := fun a b hl hs => hI.g2 a b hl ((key a b hl).mp hs)
          g3 := fun a b hl hs => hI.g3 a b hl (fun c => hs ((key a b hl).mpr c))
          gk := hI.gk }

theorem pair_cases (s1 s2 a b : Nat) : (a, b) = (s1, s2) ∨ (a, b) = (s2, s1) ∨ ((a, b) ≠ (s1, s2) ∧ (a, b) ≠ (s2, s1)) := by
  by_cases h1 : (a, b) = (s1, s2)
  · exact .inl h1
  · by_cases h2 : (a, b) = (s2, s1)
    · exact .inr (.inl h2)
    · exact .inr (.inr ⟨h1, h2⟩)

theorem cullBody_inv (adj : List Link) (order : List Nat) (hns : ∀ l ∈ adj, l.dpid1 ≠ l.dpid2)
    (Done : Nat × Nat → Prop) (m : AMap) (hI : CInv adj order Done m) (s1 s2 : Nat)
    (hC : s1 ≠ s2 → ¬ Done (s2, s1) → before order s1 s2 = true) :
    ∃ m', cullBody adj s1 s2 m = .ok m' ∧ CInv adj order (fun p => Done p ∨ p = (s1, s2)) m' := by
  by_cases hL : linksFrom adj s1 s2 = []
  · refine ⟨m, ?_, CInv_same hI s1 s2 (.inl hL)⟩
    unfold cullBody; rw [hI.g1 s1 s2 hL]
  · by_cases hS : Settled adj Done s1 s2
    · refine ⟨m, ?_, CInv_same hI s1 s2 (.inr hS)⟩
      unfold cullBody; rw [hI.g2 s1 s2 hL hS]
      unfold fin
      cases portToward adj order s1 s2 <;> rfl
    · have hne : s1 ≠ s2 := fun c => hL (by rw [c]; exact linksFrom_self adj hns s2)
      have hg := hI.g3 s1 s2 hL hS
      have hk12 : ((s1, s2) : Nat × Nat) ≠ (s2, s1) := fun c => hne (Prod.mk.inj c).1
      have other : ∀ a b, (a, b) ≠ (s1, s2) → (a, b) ≠ (s2, s1) → linksFrom adj a b ≠ [] →
          (Settled adj (fun p => Done p ∨ p = (s1, s2)) a b ↔ Settled adj Done a b) := by
        intro a b h1 h2 _
        rw [settled_step]
        constructor
        · rintro (h | h | ⟨h, _⟩)
          · exact h
          · exact absurd h h1
          · exact absurd (by cases h; rfl) h2
        · exact .inl
      have set1 : Settled adj (fun p => Done p ∨ p = (s1, s2)) s1 s2 := .inl (.inr rfl)
      have set2 : Settled adj (fun p => Done p ∨ p = (s1, s2)) s2 s1 := .inr ⟨.inr rfl, hL⟩
      cases hgl : goodLink adj s1 s2 with
      | some l =>
        have hL2 : linksFrom adj s2 s1 ≠ [] := goodLink_flip_links hgl
        have hnd : ¬ Done (s2, s1) := fun c => hS (.inr ⟨c, hL2⟩)
        have hbef := hC hne hnd
        obtain ⟨f1, f2⟩ := fin_some hgl hbef
        have hg2 : m.get (s2, s1) = some (.links (linksFrom adj s2 s1)) := by
          apply hI.g3 s2 s1 hL2
          rintro (c | ⟨c, _⟩)
          · exact hnd c
          · exact hS (.inl c)
        refine ⟨(m.set (s1, s2) (.port l.port1)).set (s2, s1) (.port l.port2), ?_, ?_⟩
        · unfold cullBody
          rw [hg]
          simp only [hne, if_false]
          have : (linksFrom adj s1 s2).find? (fun l => decide (l.flip ∈ adj)) = some l := hgl
          rw [this]
        · have hget : ∀ k, ((m.set (s1, s2) (.port l.port1)).set (s2, s1) (.port l.port2)).get k =
              if (s2, s1) = k then some (.port l.port2) else if (s1, s2) = k then some (.port l.port1) else m.get k := by
            intro k; rw [AMap.get_set, AMap.get_set]
          refine { g1 := ?_, g2 := ?_, g3 := ?_, gk := ?_ }
          · intro a b hl
            have n1 : ((s2, s1) : Nat × Nat) ≠ (a, b) := fun c => by cases c; exact hL2 hl
            have n2 : ((s1, s2) : Nat × Nat) ≠ (a, b) := fun c => by cases c; exact hL hl
            rw [hget, if_neg n1, if_neg n2]; exact hI.g1 a b hl
          · intro a b hl hs
            rcases pair_cases s1 s2 a b with c | c | ⟨c1, c2⟩
            · cases c; rw [hget, if_neg hk12.symm, if_pos rfl, f1]
            · cases c; rw [hget, if_pos rfl, f2]
            · rw [hget, if_neg (fun c => c2 c.symm), if_neg (fun c => c1 c.symm)]
              exact hI.g2 a b hl ((other a b c1 c2 hl).mp hs)
          · intro a b hl hs
            rcases pair_cases s1 s2 a b with c | c | ⟨c1, c2⟩
            · cases c; exact absurd set1 hs
            · cases c; exact absurd set2 hs
            · rw [hget, if_neg (fun c => c2 c.symm), if_neg (fun c => c1 c.symm)]
              exact hI.g3 a b hl (fun c => hs ((other a b c1 c2 hl).mpr c))
          · have p1 : (s1, s2) ∈ akeys m := (AMap.mem_keys_iff m _).mpr (by rw [hg]; rfl)
            have p2 : (s2, s1) ∈ akeys (m.set (s1, s2) (.port l.port1)) := by
              rw [AMap.keys_set, if_pos p1]; exact (AMap.mem_keys_iff m _).mpr (by rw [hg2]; rfl)
            rw [AMap.keys_set, if_pos p2, AMap.keys_set, if_pos p1, hI.gk]
            apply List.filter_congr
            intro k _
            rw [hget]
            by_cases c2 : (s2, s1) = k
            · subst c2; rw [if_pos rfl, hg2]; rfl
            · by_cases c1 : (s1, s2) = k
              · subst c1; rw [if_neg c2, if_pos rfl, hg]; rfl
              · rw [if_neg c2, if_neg c1]
      | none =>
        obtain ⟨f1, f2⟩ := fin_none order hgl
        have hm' : (if ((m.erase (s1, s2)).get (s2, s1)).isSome then (m.erase (s1, s2)).erase (s2, s1) else m.erase (s1, s2)) =
            (m.erase (s1, s2)).erase (s2, s1) := by
          split
          · rfl
          · rename_i h
            have : (m.erase (s1, s2)).get (s2, s1) = none := by
              cases hh : (m.erase (s1, s2)).get (s2, s1) with
              | none => rfl
              | some e => rw [hh] at h; simp at h
            exact (AMap.erase_absent _ _ this).symm
        refine ⟨(m.erase (s1, s2)).erase (s2, s1), ?_, ?_⟩
        · unfold cullBody
          rw [hg]
          simp only [hne, if_false]
          have : (linksFrom adj s1 s2).find? (fun l => decide (l.flip ∈ adj)) = none := hgl
          rw [this]
          simp only []
          rw [hm']
        · have hget : ∀ k, ((m.erase (s1, s2)).erase (s2, s1)).get k =
              if k = (s2, s1) then none else if k = (s1, s2) then none else m.get k := by
            intro k; rw [AMap.get_erase, AMap.get_erase]
          refine { g1 := ?_, g2 := ?_, g3 := ?_, gk := ?_ }
          · intro a b hl
            rw [hget]
            split
            · rfl
            · split
              · rfl
              · exact hI.g1 a b hl
          · intro a b hl hs
            rcases pair_cases s1 s2 a b with c | c | ⟨c1, c2⟩
            · cases c; rw [hget, if_neg hk12, if_pos rfl, f1]
            · cases c; rw [hget, if_pos rfl, f2]
            · rw [hget, if_neg c2, if_neg c1]
              exact hI.g2 a b hl ((other a b c1 c2 hl).mp hs)
          · intro a b hl hs
            rcases pair_cases s1 s2 a b with c | c | ⟨c1, c2⟩
            · cases c; exact absurd set1 hs
            · cases c; exact absurd set2 hs
            · rw [hget, if_neg c2, if_neg c1]
              exact hI.g3 a b hl (fun c => hs ((other a b c1 c2 hl).mpr c))
          · rw [AMap.keys_erase, AMap.keys_erase, hI.gk, List.filter_filter, List.filter_filter]
            apply List.filter_congr
            intro k _
            rw [hget]
            by_cases c2 : k = (s2, s1)
            · simp [c2]
            · by_cases c1 : k = (s1, s2)
              · simp [c1, c2]
              · simp [c1, c2]

theorem CInv_congr {adj : List Link} {order : List Nat} {Done Done' : Nat × Nat → Prop} {m : AMap}
    (h : ∀ p, Done p ↔ Done' p) (hI : CInv adj order Done m) : CInv adj order Done' m := by
  have key : ∀ a b, Settled adj Done' a b ↔ Settled adj Done a b := by
    intro a b; unfold Settled; rw [h (a, b), h (b, a)]
  exact { g1 := hI.g1
          g2 := fun a b hl hs => hI.g2 a b hl ((key a b).mp hs)
          g3 := fun a b hl hs => hI.g3 a b hl (fun c => hs ((key a b).mpr c))
          gk := hI.gk }

theorem cullInner_inv (adj : List Link) (order : List Nat) (hns : ∀ l ∈ adj, l.dpid1 ≠ l.dpid2)
    (D0 : Nat × Nat → Prop) (s1 : Nat) (hC : ∀ s2, s1 ≠ s2 → ¬ D0 (s2, s1) → before order s1 s2 = true) :
    ∀ (rest ipre : List Nat) (m : AMap), CInv adj order (fun p => D0 p ∨ (p.1 = s1 ∧ p.2 ∈ ipre)) m →
      ∃ m', cullInner adj s1 rest m = .ok m' ∧ CInv adj order (fun p => D0 p ∨ (p.1 = s1 ∧ p.2 ∈ ipre ++ rest)) m'
  | [], ipre, m, hI => ⟨m, rfl, by simpa using hI⟩
  | s2 :: r, ipre, m, hI => by
    obtain ⟨m1, e1, hI1⟩ := cullBody_inv adj order hns _ m hI s1 s2
      (fun hne hnd => hC s2 hne (fun c => hnd (.inl c)))
    have hI1' : CInv adj order (fun p => D0 p ∨ (p.1 = s1 ∧ p.2 ∈ ipre ++ [s2])) m1 := by
      refine CInv_congr ?_ hI1
      intro p
      obtain ⟨x, y⟩ := p
      simp only [List.mem_append, List.mem_singleton, Prod.mk.injEq]
      constructor
      · rintro ((h | ⟨h1, h2⟩) | ⟨h1, h2⟩)
        · exact .inl h
        · exact .inr ⟨h1, .inl h2⟩
        · exact .inr ⟨h1, .inr h2⟩
      · rintro (h | ⟨h1, h2 | h2⟩)
        · exact .inl (.inl h)
        · exact .inl (.inr ⟨h1, h2⟩)
        · exact .inr ⟨h1, h2⟩
    obtain ⟨m2, e2, hI2⟩ := cullInner_inv adj order hns D0 s1 hC r (ipre ++ [s2]) m1 hI1'
    refine ⟨m2, ?_, by simpa [List.append_assoc] using hI2⟩
    simp only [cullInner, e1, e2]

theorem cullOuter_inv (adj : List Link) (order : List Nat) (hns : ∀ l ∈ adj, l.dpid1 ≠ l.dpid2) :
    ∀ (orest opre : List Nat) (m : AMap), order = opre ++ orest →
      CInv adj order (fun p => p.1 ∈ opre ∧ p.2 ∈ order) m →
      ∃ m', cullOuter adj order orest m = .ok m' ∧ CInv adj order (fun p => p.1 ∈ order ∧ p.2 ∈ order) m'
  | [], opre, m, ho, hI => by
    have : opre = order := by simpa using ho.symm
    subst this
    exact ⟨m, rfl, hI⟩
  | s1 :: r, opre, m, ho, hI => by
    have hs1 : s1 ∈ order := by rw [ho]; simp
    have hC : ∀ s2, s1 ≠ s2 → ¬ (fun p : Nat × Nat => p.1 ∈ opre ∧ p.2 ∈ order) (s2, s1) → before order s1 s2 = true := by
      intro s2 hne hnd
      have : s2 ∉ opre := fun c => hnd ⟨c, hs1⟩
      rw [ho]; exact before_of_split opre s1 r s2 this hne
    obtain ⟨m1, e1, hI1⟩ := cullInner_inv adj order hns (fun p => p.1 ∈ opre ∧ p.2 ∈ order) s1 hC order [] m
      (CInv_congr (by intro p; simp) hI)
    have hI1' : CInv adj order (fun p => p.1 ∈ opre ++ [s1] ∧ p.2 ∈ order) m1 := by
      refine CInv_congr ?_ hI1
      intro p
      simp only [List.nil_append, List.mem_append, List.mem_singleton]
      constructor
      · rintro (⟨h1, h2⟩ | ⟨h1, h2⟩)
        · exact ⟨.inl h1, h2⟩
        · exact ⟨.inr h1, h2⟩
      · rintro ⟨h1 | h1, h2⟩
        · exact .inl ⟨h1, h2⟩
        · exact .inr ⟨h1, h2⟩
    obtain ⟨m2, e2, hI2⟩ := cullOuter_inv adj order hns r (opre ++ [s1]) m1 (by rw [ho]; simp) hI1'
    exact ⟨m2, by simp only [cullOuter, e1, e2], hI2⟩

theorem linksFrom_ne_nil {adj : List Link} {a b : Nat} (h : linksFrom adj a b ≠ []) :
    ∃ l ∈ adj, l.dpid1 = a ∧ l.dpid2 = b := by
  obtain ⟨l, hl⟩ := List.exists_mem_of_ne_nil _ h
  unfold linksFrom at hl
  rw [List.mem_filter] at hl
  simp only [Bool.and_eq_true, decide_eq_true_eq] at hl
  exact ⟨l, hl.1, hl.2.1, hl.2.2⟩

theorem fin_of_nolinks (adj : List Link) (order : List Nat) (a b : Nat) (h : linksFrom adj a b = []) :
    fin adj order a b = none := by
  have : goodLink adj a b = none := by unfold goodLink; rw [h]; rfl
  exact (fin_none order this).1

theorem portToward_isSome_eq (adj : List Link) (order : List Nat) (a b : Nat) :
    (portToward adj order a b).isSome = (goodLink adj a b).isSome := by
  unfold portToward
  split
  · simp
  · rw [Option.isSome_map]
    cases h1 : (goodLink adj a b).isSome <;> cases h2 : (goodLink adj b a).isSome <;> try rfl
    · exact absurd ((goodLink_isSome adj a b).mpr ((goodLink_isSome adj b a).mp h2).symm) (by simp [h1])
    · exact absurd ((goodLink_isSome adj b a).mpr ((goodLink_isSome adj a b).mp h1).symm) (by simp [h2])

/-- THE LOOP COMPUTES THE CLOSED FORM: without self-links and with every switch in `order`, the double loop ends normally, leaves
    `adj[a][b] = portToward a b` for every pair, and keeps the surviving keys in their insertion order. -/
theorem cull_final (adj : List Link) (order : List Nat) (hns : ∀ l ∈ adj, l.dpid1 ≠ l.dpid2)
    (hord : ∀ x ∈ switchesOf adj, x ∈ order) :
    ∃ m, cullOuter adj order order (build adj []) = .ok m ∧ (∀ a b, m.get (a, b) = fin adj order a b) ∧
      akeys m = (keysOf adj).filter fun k => (goodLink adj k.1 k.2).isSome := by
  obtain ⟨bk, bg⟩ := build_nil adj
  have h0 : CInv adj order (fun p => p.1 ∈ ([] : List Nat) ∧ p.2 ∈ order) (build adj []) := by
    refine { g1 := ?_, g2 := ?_, g3 := ?_, gk := ?_ }
    · intro a b hl; rw [bg, if_pos hl]
    · intro a b _ hs; rcases hs with h | ⟨h, _⟩ <;> simp at h
    · intro a b hl _; rw [bg, if_neg hl]
    · rw [bk]
      symm
      rw [List.filter_eq_self]
      intro k hk
      obtain ⟨l, hl, rfl⟩ := (mem_keysOf adj k).mp hk
      rw [bg]
      have : linksFrom adj l.dpid1 l.dpid2 ≠ [] := by
        apply List.ne_nil_of_mem (a := l)
        unfold linksFrom; rw [List.mem_filter]; exact ⟨hl, by simp⟩
      rw [if_neg this]; rfl
  obtain ⟨m, e, hI⟩ := cullOuter_inv adj order hns order [] (build adj []) rfl h0
  have hget : ∀ a b, m.get (a, b) = fin adj order a b := by
    intro a b
    by_cases hl : linksFrom adj a b = []
    · rw [hI.g1 a b hl, fin_of_nolinks adj order a b hl]
    · obtain ⟨l, hlm, h1, h2⟩ := linksFrom_ne_nil hl
      apply hI.g2 a b hl
      exact .inl ⟨hord a ((mem_switchesOf a adj).mpr ⟨l, hlm, .inl h1.symm⟩),
                  hord b ((mem_switchesOf b adj).mpr ⟨l, hlm, .inr h2.symm⟩)⟩
  refine ⟨m, e, hget, ?_⟩
  rw [hI.gk]
  apply List.filter_congr
  intro k _
  obtain ⟨a, b⟩ := k
  rw [hget a b]
  unfold fin
  rw [Option.isSome_map, portToward_isSome_eq]

theorem nbrsM_eq (adj : List Link) (m : AMap)
    (hk : akeys m = (keysOf adj).filter fun k => (goodLink adj k.1 k.2).isSome) : nbrsM m = nbrs adj := by
  funext v
  have e1 : nbrsM m v = ((akeys m).filter fun k => decide (k.1 = v)).map (·.2) := by
    unfold nbrsM akeys
    rw [List.filter_map, List.map_map]
    rfl
  rw [e1, hk, List.filter_filter]
  rfl

theorem withPortsM_eq (adj : List Link) (order : List Nat) (m : AMap) (hget : ∀ a b, m.get (a, b) = fin adj order a b) :
    ∀ (es : List (Nat × Nat)), withPortsM m es = withPorts adj order es
  | [] => rfl
  | (v, w) :: r => by
    unfold withPortsM withPorts
    rw [hget v w, hget w v, withPortsM_eq adj order m hget r]
    unfold fin
    cases portToward adj order v w <;> cases portToward adj order w v <;> rfl

/-! ### a link from a switch to itself: the `assert` -/

def SelfKept (adj : List Link) (m : AMap) : Prop :=
  ∀ s, linksFrom adj s s ≠ [] → m.get (s, s) = some (.links (linksFrom adj s s))

theorem cullBody_self (adj : List Link) (s1 s2 : Nat) (m : AMap) (hJ : SelfKept adj m) :
    (cullBody adj s1 s2 m = .error "AssertionError") ∨
    (∃ m', cullBody adj s1 s2 m = .ok m' ∧ SelfKept adj m' ∧ ¬ (s1 = s2 ∧ linksFrom adj s1 s1 ≠ [])) := by
  unfold cullBody
  cases hg : m.get (s1, s2) with
  | none =>
    refine .inr ⟨m, rfl, hJ, ?_⟩
    rintro ⟨rfl, hl⟩
    rw [hJ s1 hl] at hg; cases hg
  | some e =>
    cases e with
    | port p =>
      refine .inr ⟨m, rfl, hJ, ?_⟩
      rintro ⟨rfl, hl⟩
      rw [hJ s1 hl] at hg; cases hg
    | links ls =>
      by_cases hne : s1 = s2
      · left; simp [hne]
      · right
        dsimp only
        rw [if_neg hne]
        have k1 : ∀ s, ((s1, s2) : Nat × Nat) ≠ (s, s) := fun s c => hne ((Prod.mk.inj c).1.trans (Prod.mk.inj c).2.symm)
        have k2 : ∀ s, ((s2, s1) : Nat × Nat) ≠ (s, s) := fun s c => hne ((Prod.mk.inj c).2.trans (Prod.mk.inj c).1.symm)
        cases ls.find? (fun l => decide (l.flip ∈ adj)) with
        | some l =>
          refine ⟨_, rfl, ?_, fun c => hne c.1⟩
          intro s hl
          rw [AMap.get_set, AMap.get_set, if_neg (k2 s), if_neg (k1 s)]
          exact hJ s hl
        | none =>
          refine ⟨_, rfl, ?_, fun c => hne c.1⟩
          intro s hl
          split
          · rw [AMap.get_erase, AMap.get_erase, if_neg (fun c => k2 s c.symm), if_neg (fun c => k1 s c.symm)]
            exact hJ s hl
          · rw [AMap.get_erase, if_neg (fun c => k1 s c.symm)]
            exact hJ s hl

theorem cullInner_self (adj : List Link) (s1 : Nat) : ∀ (rest : List Nat) (m : AMap), SelfKept adj m →
    (cullInner adj s1 rest m = .error "AssertionError") ∨
    (∃ m', cullInner adj s1 rest m = .ok m' ∧ SelfKept adj m' ∧ ¬ (s1 ∈ rest ∧ linksFrom adj s1 s1 ≠ []))
  | [], m, hJ => .inr ⟨m, rfl, hJ, by simp⟩
  | s2 :: r, m, hJ => by
    rcases cullBody_self adj s1 s2 m hJ with e | ⟨m1, e1, hJ1, hn1⟩
    · left; simp only [cullInner, e]
    · rcases cullInner_self adj s1 r m1 hJ1 with e | ⟨m2, e2, hJ2, hn2⟩
      · left; simp only [cullInner, e1, e]
      · right
        refine ⟨m2, by simp only [cullInner, e1, e2], hJ2, ?_⟩
        rintro ⟨hm, hl⟩
        rcases List.mem_cons.mp hm with c | c
        · exact hn1 ⟨c, hl⟩
        · exact hn2 ⟨c, hl⟩

theorem cullOuter_self (adj : List Link) (order : List Nat) : ∀ (rest : List Nat) (m : AMap), SelfKept adj m →
    (cullOuter adj order rest m = .error "AssertionError") ∨
    (∃ m', cullOuter adj order rest m = .ok m' ∧ ∀ s ∈ rest, ¬ (s ∈ order ∧ linksFrom adj s s ≠ []))
  | [], m, _ => .inr ⟨m, rfl, by simp⟩
  | s1 :: r, m, hJ => by
    rcases cullInner_self adj s1 order m hJ with e | ⟨m1, e1, hJ1, hn1⟩
    · left; simp only [cullOuter, e]
    · rcases cullOuter_self adj order r m1 hJ1 with e | ⟨m2, e2, hn2⟩
      · left; simp only [cullOuter, e1, e]
      · right
        refine ⟨m2, by simp only [cullOuter, e1, e2], ?_⟩
        intro s hs
        rcases List.mem_cons.mp hs with c | c
        · rw [c]; exact hn1
        · exact hn2 s c

theorem cull_selflink (adj : List Link) (order : List Nat) (hord : ∀ x ∈ switchesOf adj, x ∈ order)
    (hs : hasSelfLink adj = true) : cullOuter adj order order (build adj []) = .error "AssertionError" := by
  unfold hasSelfLink at hs
  rw [List.any_eq_true] at hs
  obtain ⟨l, hl, he⟩ := hs
  simp only [decide_eq_true_eq] at he
  have hlf : linksFrom adj l.dpid1 l.dpid1 ≠ [] := by
    apply List.ne_nil_of_mem (a := l)
    unfold linksFrom; rw [List.mem_filter]; exact ⟨hl, by simp [he.symm]⟩
  have hso : l.dpid1 ∈ order := hord _ ((mem_switchesOf _ adj).mpr ⟨l, hl, .inl rfl⟩)
  have hJ : SelfKept adj (build adj []) := by
    intro s hsl
    rw [(build_nil adj).2, if_neg hsl]
  rcases cullOuter_self adj order order (build adj []) hJ with e | ⟨m, _, hn⟩
  · exact e
  · exact absurd ⟨hso, hlf⟩ (hn _ hso)

/-- `_calc_spanning_tree` with the culling loop as written equals the closed form, for every adjacency — with or without self-links —
    and every iteration order that contains the switches. -/
theorem calcTreeL_eq (adj : List Link) (order : List Nat) (hord : ∀ x ∈ switchesOf adj, x ∈ order) :
    calcTreeL adj order = calcTree adj order := by
  by_cases hs : hasSelfLink adj = true
  · unfold calcTreeL calcTree calcEdges
    rw [cull_selflink adj order hord hs]
    simp [hs]
  · have hns : ∀ l ∈ adj, l.dpid1 ≠ l.dpid2 := by
      intro l hl c
      apply hs
      unfold hasSelfLink; rw [List.any_eq_true]; exact ⟨l, hl, by simpa using c⟩
    obtain ⟨m, e, hget, hk⟩ := cull_final adj order hns hord
    unfold calcTreeL calcTree calcEdges
    rw [e]
    simp only [hasSelfLink_false adj hns, Bool.false_eq_true, if_false, nbrsM_eq adj m hk]
    split
    · exact withPortsM_eq adj order m hget _
    · rfl

/-- `_calc_spanning_tree` raises (the `assert` of :73) exactly when some switch has two of its own ports cabled together -/
theorem calcTreeL_raises_iff (adj : List Link) (order : List Nat) (hord : ∀ x ∈ switchesOf adj, x ∈ order) :
    (∃ e, calcTreeL adj order = .error e) ↔ ∃ l ∈ adj, l.dpid1 = l.dpid2 := by
  rw [calcTreeL_eq adj order hord]
  constructor
  · rintro ⟨e, he⟩
    by_cases hs : ∃ l ∈ adj, l.dpid1 = l.dpid2
    · exact hs
    · have hns : ∀ l ∈ adj, l.dpid1 ≠ l.dpid2 := fun l hl c => hs ⟨l, hl, c⟩
      obtain ⟨es, hes, _, hbi, _⟩ := calcEdges_correct adj hns
      obtain ⟨t, ht, _, _⟩ := withPorts_ok adj order es hbi
      have : calcTree adj order = .ok t := by unfold calcTree; rw [hes]; exact ht
      rw [this] at he; cases he
  · rintro ⟨l, hl, he⟩
    refine ⟨"AssertionError", ?_⟩
    have : hasSelfLink adj = true := by
      unfold hasSelfLink; rw [List.any_eq_true]; exact ⟨l, hl, by simpa using he⟩
    unfold calcTree calcEdges
    simp [this]

end Pox.STree
