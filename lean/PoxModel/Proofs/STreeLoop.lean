import PoxModel.Proofs.STreeCull
/-! The culling loop of `_calc_spanning_tree` AS WRITTEN (`build`, `cullBody`, `cullInner`, `cullOuter` of `Model/STree.lean`) computes
    the closed form (`portToward`, `nbrs`): `calcTreeL adj order = calcTree adj order` whenever `order` enumerates the switches —
    including the `AssertionError` when a link joins a switch to itself.  Core only. -/
namespace Pox.STree

abbrev akeys (m : AMap) : List (Nat × Nat) := m.map (·.1)

/-! ### the association list -/

theorem AMap.get_cons (k' : Nat × Nat) (e : Entry) (r : AMap) (k : Nat × Nat) :
    AMap.get ((k', e) :: r) k = if k' = k then some e else AMap.get r k := rfl

theorem AMap.get_set : ∀ (m : AMap) (k : Nat × Nat) (e : Entry) (k' : Nat × Nat),
    (m.set k e).get k' = if k = k' then some e else m.get k'
  | [], k, e, k' => by simp [AMap.set, AMap.get]
  | (k0, e0) :: r, k, e, k' => by
    unfold AMap.set
    by_cases h0 : k0 = k
    · subst h0
      simp only [if_true, AMap.get_cons]
      by_cases h1 : k0 = k' <;> simp [h1]
    · simp only [h0, if_false, AMap.get_cons, AMap.get_set r k e k']
      by_cases h1 : k0 = k'
      · subst h1
        have : ¬ k = k0 := fun c => h0 c.symm
        simp [this]
      · simp [h1]

theorem AMap.get_erase (k : Nat × Nat) : ∀ (m : AMap) (k' : Nat × Nat),
    (m.erase k).get k' = if k' = k then none else m.get k'
  | [], k' => by simp [AMap.erase, AMap.get]
  | (k0, e0) :: r, k' => by
    have ih := AMap.get_erase k r k'
    unfold AMap.erase at ih ⊢
    by_cases h0 : k0 = k
    · subst h0
      simp only [List.filter_cons, ne_eq, not_true_eq_false, decide_false, Bool.false_eq_true, if_false, ih, AMap.get_cons]
      by_cases h1 : k' = k0
      · simp [h1]
      · have : ¬ k0 = k' := fun c => h1 c.symm
        simp [h1, this]
    · simp only [List.filter_cons, ne_eq, h0, not_false_eq_true, decide_true, if_true, AMap.get_cons, ih]
      by_cases h1 : k0 = k'
      · subst h1; simp [h0]
      · simp [h1]

theorem AMap.mem_keys_iff : ∀ (m : AMap) (k : Nat × Nat), k ∈ akeys m ↔ (m.get k).isSome = true
  | [], k => by simp [AMap.get]
  | (k0, e0) :: r, k => by
    have ih := AMap.mem_keys_iff r k
    simp only [akeys, List.map_cons, List.mem_cons, AMap.get_cons] at ih ⊢
    by_cases h : k0 = k
    · simp [h]
    · have : ¬ k = k0 := fun c => h c.symm
      simp [h, this, ih]

theorem AMap.keys_set : ∀ (m : AMap) (k : Nat × Nat) (e : Entry),
    akeys (m.set k e) = if k ∈ akeys m then akeys m else akeys m ++ [k]
  | [], k, e => by simp [AMap.set]
  | (k0, e0) :: r, k, e => by
    unfold AMap.set
    by_cases h0 : k0 = k
    · subst h0; simp
    · have ih := AMap.keys_set r k e
      have : ¬ k = k0 := fun c => h0 c.symm
      simp only [akeys] at ih
      simp only [h0, if_false, akeys, List.map_cons, ih, List.mem_cons, this, false_or]
      split <;> simp

theorem AMap.keys_erase (m : AMap) (k : Nat × Nat) : akeys (m.erase k) = (akeys m).filter fun x => x ≠ k := by
  unfold AMap.erase akeys
  rw [List.filter_map]
  rfl

/-! ### building `adj` (:58-64) -/

def pkey (l : Link) : Nat × Nat := (l.dpid1, l.dpid2)

/-- every entry is still a list (true while building, before the culling) -/
def AllLinks (m : AMap) : Prop := ∀ k p, m.get k ≠ some (.port p)

theorem linksFrom_cons (l : Link) (ls : List Link) (a b : Nat) :
    linksFrom (l :: ls) a b = if pkey l = (a, b) then l :: linksFrom ls a b else linksFrom ls a b := by
  unfold linksFrom pkey
  simp only [List.filter_cons, Prod.mk.injEq]
  by_cases h1 : l.dpid1 = a <;> by_cases h2 : l.dpid2 = b <;> simp [h1, h2]

theorem addLink_get (m : AMap) (hm : AllLinks m) (l : Link) (k : Nat × Nat) :
    (addLink m l).get k =
      if pkey l = k then some (.links ((match m.get (pkey l) with | some (.links ls) => ls | _ => []) ++ [l]))
      else m.get k := by
  unfold addLink
  show (match m.get (pkey l) with
    | some (.links ls) => m.set (pkey l) (.links (ls ++ [l]))
    | some (.port _) => m
    | none => m.set (pkey l) (.links [l])).get k = _
  cases hg : m.get (pkey l) with
  | none => simp only [AMap.get_set]; rfl
  | some e =>
    cases e with
    | links ls => simp only [AMap.get_set]
    | port p => exact absurd hg (hm _ p)

theorem addLink_keys (m : AMap) (hm : AllLinks m) (l : Link) :
    akeys (addLink m l) = if pkey l ∈ akeys m then akeys m else akeys m ++ [pkey l] := by
  unfold addLink
  show akeys (match m.get (pkey l) with
    | some (.links ls) => m.set (pkey l) (.links (ls ++ [l]))
    | some (.port _) => m
    | none => m.set (pkey l) (.links [l])) = _
  cases hg : m.get (pkey l) with
  | none => simp only [AMap.keys_set]
  | some e =>
    cases e with
    | links ls => simp only [AMap.keys_set]
    | port p => exact absurd hg (hm _ p)

theorem addLink_allLinks (m : AMap) (hm : AllLinks m) (l : Link) : AllLinks (addLink m l) := by
  intro k p
  rw [addLink_get m hm l k]
  split
  · simp
  · exact hm k p

theorem dedupP_congr : ∀ (l s1 s2 : List (Nat × Nat)), (∀ x, x ∈ s1 ↔ x ∈ s2) → dedupP s1 l = dedupP s2 l
  | [], _, _, _ => rfl
  | x :: xs, s1, s2, h => by
    unfold dedupP
    by_cases hx : x ∈ s1
    · have hx2 : x ∈ s2 := (h x).mp hx
      simp only [hx, hx2, if_true]
      exact dedupP_congr xs s1 s2 h
    · have hx2 : x ∉ s2 := fun c => hx ((h x).mpr c)
      simp only [hx, hx2, if_false]
      rw [dedupP_congr xs (x :: s1) (x :: s2) (by intro y; simp [h y])]

/-- what `build` adds to a map whose entries are lists -/
theorem build_spec : ∀ (ls : List Link) (m : AMap), AllLinks m →
    AllLinks (build ls m) ∧
    akeys (build ls m) = akeys m ++ dedupP (akeys m) (ls.map pkey) ∧
    ∀ a b, (build ls m).get (a, b) =
      match m.get (a, b) with
      | some (.links l0) => some (.links (l0 ++ linksFrom ls a b))
      | _ => if linksFrom ls a b = [] then none else some (.links (linksFrom ls a b))
  | [], m, hm => by
    refine ⟨hm, by simp [build, dedupP], ?_⟩
    intro a b
    simp only [build, linksFrom, List.filter_nil, List.append_nil, if_true]
    cases hg : m.get (a, b) with
    | none => rfl
    | some e =>
      cases e with
      | links l0 => rfl
      | port p => exact absurd hg (hm _ p)
  | l :: ls, m, hm => by
    obtain ⟨i1, i2, i3⟩ := build_spec ls (addLink m l) (addLink_allLinks m hm l)
    refine ⟨i1, ?_, ?_⟩
    · simp only [build, i2, addLink_keys m hm l, List.map_cons, dedupP]
      by_cases hk : pkey l ∈ akeys m
      · simp only [hk, if_true]
      · simp only [hk, if_false, List.append_assoc, List.singleton_append]
        rw [dedupP_congr _ (akeys m ++ [pkey l]) (pkey l :: akeys m) (by intro x; simp [or_comm])]
    · intro a b
      simp only [build, i3 a b, addLink_get m hm l (a, b), linksFrom_cons]
      by_cases hk : pkey l = (a, b)
      · simp only [hk, if_true]
        cases hg : m.get (a, b) with
        | none => simp
        | some e =>
          cases e with
          | links l0 => simp
          | port p => exact absurd hg (hm _ p)
      · simp only [hk, if_false]

theorem build_nil (adj : List Link) :
    akeys (build adj []) = keysOf adj ∧
    ∀ a b, (build adj []).get (a, b) = if linksFrom adj a b = [] then none else some (.links (linksFrom adj a b)) := by
  obtain ⟨_, h2, h3⟩ := build_spec adj [] (by intro k p; simp [AMap.get])
  refine ⟨by rw [h2]; rfl, ?_⟩
  intro a b
  simpa [AMap.get] using h3 a b

end Pox.STree
