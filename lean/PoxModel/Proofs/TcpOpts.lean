import PoxModel.Proofs.PacketHdr
/-!
# TCP option lists survive `tcp_opt.pack` → `tcp.parse_options` (C14; core only)
-/
namespace Pox.Packet
open Pox Pox.PktLayout Pox.Checksum

/-- option values `tcp_opt.pack` can serialise and `parse_options` reads back as the same option -/
def TcpOpt.OK : TcpOpt → Prop
  | .nop => True
  | .eol => False
  | .mss v => v < 65536
  | .ws v => v < 256
  | .sackperm => True
  | .sack bl => 2 + 8 * bl.length < 256 ∧ ∀ p ∈ bl, p.1 < 4294967296 ∧ p.2 < 4294967296
  | .ts a b => a < 4294967296 ∧ b < 4294967296
  | .other t v => t < 256 ∧ t ≠ 0 ∧ t ≠ 1 ∧ t ≠ 2 ∧ t ≠ 3 ∧ t ≠ 4 ∧ t ≠ 5 ∧ t ≠ 8 ∧ t ≠ 30 ∧ 2 + v.length < 256

def pairsBytes : List (Nat × Nat) → Bytes
  | [] => []
  | (a, b) :: r => beEnc 4 a ++ (beEnc 4 b ++ pairsBytes r)

/-- the option on the wire: kind, length, value -/
def optBytes : TcpOpt → Bytes
  | .eol => [0]
  | .nop => [1]
  | .mss v => beEnc 1 2 ++ (beEnc 1 4 ++ beEnc 2 v)
  | .ws v => beEnc 1 3 ++ (beEnc 1 3 ++ beEnc 1 v)
  | .sackperm => beEnc 1 4 ++ beEnc 1 2
  | .sack bl => beEnc 1 5 ++ (beEnc 1 (2 + 8 * bl.length) ++ pairsBytes bl)
  | .ts a b => beEnc 1 8 ++ (beEnc 1 10 ++ (beEnc 4 a ++ beEnc 4 b))
  | .other t v => beEnc 1 t ++ (beEnc 1 (2 + v.length) ++ v)

def optsBytes : List TcpOpt → Bytes
  | [] => []
  | o :: r => optBytes o ++ optsBytes r

theorem pairsBytes_length (bl : List (Nat × Nat)) : (pairsBytes bl).length = 8 * bl.length := by
  induction bl with
  | nil => rfl
  | cons p r ih => obtain ⟨a, b⟩ := p; simp [pairsBytes, ih]; omega

theorem packPairs_ok (bl : List (Nat × Nat)) (h : ∀ p ∈ bl, p.1 < 4294967296 ∧ p.2 < 4294967296) :
    packPairs bl = .ok (pairsBytes bl) := by
  induction bl with
  | nil => rfl
  | cons p r ih =>
    obtain ⟨a, b⟩ := p
    have hp := h (a, b) (by simp)
    have ih' := ih (fun q hq => h q (by simp [hq]))
    simp [packPairs, pk, encode, hp.1, hp.2, ih', pairsBytes, bind, Except.bind, pure, Except.pure]

theorem unpackPairs_pairsBytes (bl : List (Nat × Nat)) (h : ∀ p ∈ bl, p.1 < 4294967296 ∧ p.2 < 4294967296) :
    unpackPairs bl.length (pairsBytes bl) = some bl := by
  induction bl with
  | nil => rfl
  | cons p r ih =>
    obtain ⟨a, b⟩ := p
    have hp := h (a, b) (by simp)
    have ih' := ih (fun q hq => h q (by simp [hq]))
    have hl : ¬ ((pairsBytes ((a, b) :: r)).length < 8) := by rw [pairsBytes_length]; simp; omega
    simp only [unpackPairs, List.length_cons, hl, if_false]
    have e1 : (pairsBytes ((a, b) :: r)).drop 8 = pairsBytes r := by
      simp only [pairsBytes]; rw [← List.append_assoc]; exact drop_left _ _ 8 (by simp)
    have e2 : (pairsBytes ((a, b) :: r)).take 4 = beEnc 4 a := by
      simp only [pairsBytes]; exact take_left _ _ 4 (by simp)
    have e3 : ((pairsBytes ((a, b) :: r)).take 8).drop 4 = beEnc 4 b := by
      simp only [pairsBytes]
      exact sl_mid (beEnc 4 a) (beEnc 4 b) (pairsBytes r) 4 8 (by simp) (by simp)
    rw [e1, e2, e3, ih', beDec_beEnc 4 a (by simpa using hp.1), beDec_beEnc 4 b (by simpa using hp.2)]
    rfl

theorem tcpOptPack_ok (o : TcpOpt) (h : o.OK) : tcpOptPack o = .ok (optBytes o) := by
  cases o with
  | nop => rfl
  | eol => exact absurd h (by simp [TcpOpt.OK])
  | mss v => simp only [TcpOpt.OK] at h; simp [tcpOptPack, pk, encode, optBytes, h]
  | ws v => simp only [TcpOpt.OK] at h; simp [tcpOptPack, pk, encode, optBytes, h]
  | sackperm => rfl
  | sack bl =>
    simp only [TcpOpt.OK] at h
    simp [tcpOptPack, pk, encode, optBytes, h.1, packPairs_ok bl h.2, bind, Except.bind, pure, Except.pure]
  | ts a b => simp only [TcpOpt.OK] at h; simp [tcpOptPack, pk, encode, optBytes, h.1, h.2]
  | other t v =>
    simp only [TcpOpt.OK] at h
    simp [tcpOptPack, pk, encode, optBytes, h.1, h.2.2.2.2.2.2.2.2.2, bind, Except.bind, pure, Except.pure]

theorem tcpOptsPack_ok (os : List TcpOpt) (h : ∀ o ∈ os, o.OK) : tcpOptsPack os = .ok (optsBytes os) := by
  induction os with
  | nil => rfl
  | cons o r ih =>
    have ih' := ih (fun q hq => h q (by simp [hq]))
    simp [tcpOptsPack, tcpOptPack_ok o (h o (by simp)), ih', optsBytes, bind, Except.bind, pure, Except.pure]

/-! ## reading one option back -/

theorem sl_at (A X R : Bytes) (a b : Nat) (hb : b ≤ X.length) :
    sl (A ++ (X ++ R)) (A.length + a) (A.length + b) = sl X a b := by
  unfold sl
  rw [List.take_length_add_append, List.drop_length_add_append, List.take_append_of_le_length hb]

theorem getU8_at (A X R : Bytes) (j : Nat) (hj : j < X.length) :
    getU8 (A ++ (X ++ R)) (A.length + j) = some (X[j]).toNat := by
  unfold getU8
  rw [List.getElem?_append_right (by omega)]
  simp [List.getElem?_append_left hj, List.getElem?_eq_getElem hj]

theorem getU8_at' (A X R : Bytes) (j : Nat) (hj : j < X.length) :
    getU8 (A ++ (X ++ R)) (A.length + j) = getU8 X j := by
  unfold getU8
  rw [List.getElem?_append_right (by omega)]
  simp [List.getElem?_append_left hj]

theorem u8_toNat (n : Nat) (h : n < 256) : (UInt8.ofNat n).toNat = n := by simp [Nat.mod_eq_of_lt h]

def optType : TcpOpt → Nat
  | .eol => 0 | .nop => 1 | .mss _ => 2 | .ws _ => 3 | .sackperm => 4 | .sack _ => 5 | .ts _ _ => 8 | .other t _ => t

/-- what `parse_options` sees at the start of a serialised option that is not a NOP -/
structure Step (arr : Bytes) (i : Nat) (o : TcpOpt) : Prop where
  t : getU8 arr i = some (optType o)
  tne : optType o ≠ 0 ∧ optType o ≠ 1 ∧ optType o ≠ 30
  len : getU8 arr (i + 1) = some (optBytes o).length
  len2 : 2 ≤ (optBytes o).length
  unpack : tcpOptUnpack arr i (optType o) (optBytes o).length = some (i + (optBytes o).length, o)

theorem optBytes_length (o : TcpOpt) : (optBytes o).length =
    match o with
    | .eol => 1 | .nop => 1 | .mss _ => 4 | .ws _ => 3 | .sackperm => 2 | .sack bl => 2 + 8 * bl.length | .ts _ _ => 10
    | .other _ v => 2 + v.length := by
  cases o <;> simp [optBytes, pairsBytes_length] <;> omega

theorem step_of_ok (A R : Bytes) (o : TcpOpt) (ho : o.OK) (hn : o ≠ .nop) :
    Step (A ++ (optBytes o ++ R)) A.length o := by
  have g0 : ∀ (X : Bytes) (hx : 0 < X.length), getU8 (A ++ (X ++ R)) A.length = some (X[0]).toNat := by
    intro X hx; have := getU8_at A X R 0 hx; simpa using this
  cases o with
  | nop => exact absurd rfl hn
  | eol => exact absurd ho (by simp [TcpOpt.OK])
  | mss v =>
    simp only [TcpOpt.OK] at ho
    have h1 : sl (A ++ (optBytes (.mss v) ++ R)) (A.length + 2) (A.length + 4) = beEnc 2 v := by
      rw [sl_at _ _ _ 2 4 (by simp [optBytes])]
      simp only [optBytes]; rw [← List.append_assoc]
      exact sl_tail _ _ 2 4 (by simp) (by simp)
    exact {
      t := by rw [g0 _ (by simp [optBytes])]; simp [optBytes, beEnc, optType]
      tne := by simp [optType]
      len := by rw [getU8_at A _ R 1 (by simp [optBytes])]; simp [optBytes, beEnc]
      len2 := by simp [optBytes]
      unpack := by
        rw [optBytes_length]
        simp [tcpOptUnpack, optType, h1, beDec_beEnc 2 v (by simpa using ho)] }
  | ws v =>
    simp only [TcpOpt.OK] at ho
    have h1 : getU8 (A ++ (optBytes (.ws v) ++ R)) (A.length + 2) = some v := by
      rw [getU8_at A _ R 2 (by simp [optBytes])]; simp [optBytes, beEnc, Nat.mod_eq_of_lt ho]
    exact {
      t := by rw [g0 _ (by simp [optBytes])]; simp [optBytes, beEnc, optType]
      tne := by simp [optType]
      len := by rw [getU8_at A _ R 1 (by simp [optBytes])]; simp [optBytes, beEnc]
      len2 := by simp [optBytes]
      unpack := by rw [optBytes_length]; simp [tcpOptUnpack, optType, h1] }
  | sackperm =>
    exact {
      t := by rw [g0 _ (by simp [optBytes])]; simp [optBytes, beEnc, optType]
      tne := by simp [optType]
      len := by rw [getU8_at A _ R 1 (by simp [optBytes])]; simp [optBytes, beEnc]
      len2 := by simp [optBytes]
      unpack := by rw [optBytes_length]; simp [tcpOptUnpack, optType] }
  | sack bl =>
    simp only [TcpOpt.OK] at ho
    have hl : (optBytes (.sack bl)).length = 2 + 8 * bl.length := optBytes_length _
    have h1 : sl (A ++ (optBytes (.sack bl) ++ R)) (A.length + 2) (A.length + (2 + 8 * bl.length)) = pairsBytes bl := by
      rw [sl_at _ _ _ 2 _ (by rw [hl]; exact Nat.le_refl _)]
      simp only [optBytes]; rw [← List.append_assoc]
      exact sl_tail _ _ 2 _ (by simp) (by simp [pairsBytes_length])
    exact {
      t := by rw [g0 _ (by rw [hl]; omega)]; simp [optBytes, beEnc, optType]
      tne := by simp [optType]
      len := by
        rw [getU8_at' A _ R 1 (by rw [hl]; omega), hl]
        simp [getU8, optBytes, beEnc, Nat.mod_eq_of_lt ho.1]
      len2 := by rw [hl]; omega
      unpack := by
        rw [hl]
        have e1 : (2 + 8 * bl.length - 2) % 8 = 0 := by omega
        have e2 : (2 + 8 * bl.length - 2) / 8 = bl.length := by omega
        have e3 : 2 + 8 * bl.length ≥ 2 := by omega
        simp only [tcpOptUnpack, optType]
        simp [e1, e2, h1, unpackPairs_pairsBytes bl ho.2] }
  | ts a b =>
    simp only [TcpOpt.OK] at ho
    have h1 : sl (A ++ (optBytes (.ts a b) ++ R)) (A.length + 2) (A.length + 10) = beEnc 4 a ++ beEnc 4 b := by
      rw [sl_at _ _ _ 2 10 (by simp [optBytes])]
      simp only [optBytes]; rw [← List.append_assoc]
      exact sl_tail _ _ 2 10 (by simp) (by simp)
    exact {
      t := by rw [g0 _ (by simp [optBytes])]; simp [optBytes, beEnc, optType]
      tne := by simp [optType]
      len := by rw [getU8_at A _ R 1 (by simp [optBytes])]; simp [optBytes, beEnc]
      len2 := by simp [optBytes]
      unpack := by
        rw [optBytes_length]
        have ta : (beEnc 4 a ++ beEnc 4 b).take 4 = beEnc 4 a := take_left _ _ 4 (by simp)
        have tb : (beEnc 4 a ++ beEnc 4 b).drop 4 = beEnc 4 b := drop_left _ _ 4 (by simp)
        simp [tcpOptUnpack, optType, h1, ta, tb, beDec_beEnc 4 a (by simpa using ho.1), beDec_beEnc 4 b (by simpa using ho.2)] }
  | other t v =>
    simp only [TcpOpt.OK] at ho
    obtain ⟨ht, n0, n1, n2, n3, n4, n5, n8, n30, hv⟩ := ho
    have hl : (optBytes (.other t v)).length = 2 + v.length := optBytes_length _
    have h1 : sl (A ++ (optBytes (.other t v) ++ R)) (A.length + 2) (A.length + (2 + v.length)) = v := by
      rw [sl_at _ _ _ 2 _ (by rw [hl]; exact Nat.le_refl _)]
      simp only [optBytes]; rw [← List.append_assoc]
      exact sl_tail _ _ 2 _ (by simp) (by simp)
    exact {
      t := by rw [g0 _ (by rw [hl]; omega)]; simp [optBytes, beEnc, optType, Nat.mod_eq_of_lt ht]
      tne := by simp [optType, n0, n1, n30]
      len := by
        rw [getU8_at' A _ R 1 (by rw [hl]; omega), hl]
        simp [getU8, optBytes, beEnc, Nat.mod_eq_of_lt hv]
      len2 := by rw [hl]; omega
      unpack := by
        rw [hl]
        simp [tcpOptUnpack, optType, n2, n3, n4, n5, n8, h1] }

/-! ## the whole list -/

theorem optBytes_pos (o : TcpOpt) : 0 < (optBytes o).length := by
  rw [optBytes_length]; cases o <;> simp <;> omega

theorem optsBytes_length_ge (os : List TcpOpt) : os.length ≤ (optsBytes os).length := by
  induction os with
  | nil => simp [optsBytes]
  | cons o r ih => have := optBytes_pos o; simp [optsBytes]; omega

/-- `parse_options` positioned at the start of a serialised option list returns exactly that list, provided the list
ends at the header boundary or is followed by a zero byte (padding / EOL) -/
theorem parseOpts_rt (os : List TcpOpt) (hok : ∀ o ∈ os, o.OK) :
    ∀ (A T : Bytes) (hdrLen fuel : Nat), A.length + (optsBytes os).length ≤ hdrLen →
      (A.length + (optsBytes os).length = hdrLen ∨ ∃ T', T = 0 :: T') → os.length < fuel →
      tcpParseOpts fuel (A ++ (optsBytes os ++ T)) hdrLen A.length = .ok os := by
  induction os with
  | nil =>
    intro A T hdrLen fuel hle hend hf
    cases fuel with
    | zero => simp at hf
    | succ f =>
      unfold tcpParseOpts
      by_cases hi : A.length < hdrLen
      · simp only [hi, if_true]
        rcases hend with he | ⟨T', hT⟩
        · simp [optsBytes] at he; omega
        · subst hT
          have : getU8 (A ++ (optsBytes [] ++ 0 :: T')) A.length = some 0 := by
            simp [optsBytes, getU8]
          simp [this]
      · simp [hi]
  | cons o r ih =>
    intro A T hdrLen fuel hle hend hf
    have ho := hok o (by simp)
    have hr : ∀ q ∈ r, q.OK := fun q hq => hok q (by simp [hq])
    have hpos := optBytes_pos o
    cases fuel with
    | zero => simp at hf
    | succ f =>
      have hf' : r.length < f := by simp at hf; omega
      have harr : A ++ (optsBytes (o :: r) ++ T) = A ++ (optBytes o ++ (optsBytes r ++ T)) := by
        simp [optsBytes, List.append_assoc]
      have harr2 : A ++ (optBytes o ++ (optsBytes r ++ T)) = (A ++ optBytes o) ++ (optsBytes r ++ T) := by
        simp [List.append_assoc]
      have hlen' : (A ++ optBytes o).length = A.length + (optBytes o).length := by simp
      have hle' : (A ++ optBytes o).length + (optsBytes r).length ≤ hdrLen := by
        simp [optsBytes] at hle; rw [hlen']; omega
      have hend' : (A ++ optBytes o).length + (optsBytes r).length = hdrLen ∨ ∃ T', T = 0 :: T' := by
        rcases hend with he | he
        · left; simp [optsBytes] at he; rw [hlen']; omega
        · right; exact he
      have hi : A.length < hdrLen := by simp [optsBytes] at hle; omega
      have ihr := ih hr (A ++ optBytes o) T hdrLen f hle' hend' hf'
      rw [harr]
      by_cases hnop : o = .nop
      · subst hnop
        have h1 : getU8 (A ++ (optBytes .nop ++ (optsBytes r ++ T))) A.length = some 1 := by
          simp [optBytes, getU8]
        unfold tcpParseOpts
        simp only [hi, if_true, h1]
        have ihr' : tcpParseOpts f (A ++ (optBytes .nop ++ (optsBytes r ++ T))) hdrLen (A.length + 1) = .ok r := by
          have := ihr
          rw [← harr2, hlen'] at this
          exact this
        simp [ihr', OptsRes.cons]
      · have st := step_of_ok A (optsBytes r ++ T) o ho hnop
        have hal : (A ++ (optBytes o ++ (optsBytes r ++ T))).length
            = A.length + (optBytes o).length + ((optsBytes r).length + T.length) := by simp; omega
        unfold tcpParseOpts
        simp only [hi, if_true, st.t]
        have c0 : ¬ (optType o = 0) := st.tne.1
        have c1 : ¬ (optType o = 1) := st.tne.2.1
        have c30 : ¬ (optType o = 30) := st.tne.2.2
        have c2 : ¬ (A.length + 2 > (A ++ (optBytes o ++ (optsBytes r ++ T))).length) := by
          rw [hal]; have := st.len2; omega
        have c3 : ¬ (A.length + (optBytes o).length > hdrLen) := by
          simp only [optsBytes, List.length_append] at hle; omega
        have c4 : ¬ ((optBytes o).length < 2) := by have := st.len2; omega
        simp only [c0, c1, c2, if_false, st.len, c3, c4, c30, st.unpack]
        rw [harr2, ← hlen', ihr]
        rfl

/-- the options area of a TCP header: the serialised list, zero-padded to a multiple of four bytes -/
def optsPadded (os : List TcpOpt) : Bytes :=
  if (20 + (optsBytes os).length) % 4 ≠ 0 then
    optsBytes os ++ List.replicate (4 - (20 + (optsBytes os).length) % 4) 0
  else optsBytes os

theorem tcpOptsPadded_ok (os : List TcpOpt) (h : ∀ o ∈ os, o.OK) : tcpOptsPadded os = .ok (optsPadded os) := by
  simp [tcpOptsPadded, tcpOptsPack_ok os h, optsPadded, bind, Except.bind, pure, Except.pure]

/-- `tcp(raw = hdr + payload)` with any list of well-formed options that fits the 40 bytes the data offset allows -/
theorem tcp_parse (c : IPCtx) (h : Tcp) (payload : Bytes) (hf : h.Fits) (hok : ∀ o ∈ h.opts, o.OK)
    (hol : (optsPadded h.opts).length ≤ 40) :
    tcpParse (tcpBytes c h (optsPadded h.opts) payload ++ payload)
      = .tcp (tcpUpd c h (optsPadded h.opts) payload) (.raw payload) := by
  have h4 := tcpOptsPadded_mod4 h.opts _ (tcpOptsPadded_ok h.opts hok)
  generalize hop : optsPadded h.opts = op at *
  have hoff : (20 + op.length) / 4 < 16 := by omega
  have hcs : tcpCsumSpec c h op payload < 65536 := rfc1071_lt _
  have he := tcp_encode h hf _ _ hoff hcs
  obtain ⟨hu, hd, hl⟩ := unpack_take tcpL _ _ (op ++ payload) he (tcp_fits h hf _ _ hoff hcs)
  have hsz : size tcpL = 20 := rfl
  rw [hsz] at hu hd hl
  have hraw : tcpBytes c h op payload ++ payload
      = (tcpPre h ((20 + op.length) / 4) ++ (be16 (tcpCsumSpec c h op payload) ++ be16 h.urg)) ++ (op ++ payload) := by
    simp [tcpBytes, List.append_assoc]
  have hres := hf.res
  have hor : (((20 + op.length) / 4) <<< 4) ||| h.res = (20 + op.length) / 4 * 16 + h.res := by
    rw [shl_or _ _ 4 (by omega)]
  have e1 : ((20 + op.length) / 4 * 16 + h.res) / 16 = (20 + op.length) / 4 := by omega
  have e2 : ((20 + op.length) / 4 * 16 + h.res) % 16 = h.res := by omega
  have e3 : (20 + op.length) / 4 * 4 = 20 + op.length := by omega
  -- the option parser
  have hpo : tcpParseOpts (20 + op.length)
      ((tcpPre h ((20 + op.length) / 4) ++ (be16 (tcpCsumSpec c h op payload) ++ be16 h.urg)) ++ (op ++ payload))
      (20 + op.length) 20 = .ok h.opts := by
    have hge := optsBytes_length_ge h.opts
    by_cases hp : (20 + (optsBytes h.opts).length) % 4 ≠ 0
    · have hopv : op = optsBytes h.opts ++ List.replicate (4 - (20 + (optsBytes h.opts).length) % 4) 0 := by
        rw [← hop]; simp [optsPadded, hp]
      have hrep : ∃ T', List.replicate (4 - (20 + (optsBytes h.opts).length) % 4) (0 : UInt8) ++ payload = 0 :: T' := by
        have : 4 - (20 + (optsBytes h.opts).length) % 4 = (4 - (20 + (optsBytes h.opts).length) % 4 - 1) + 1 := by omega
        rw [this, List.replicate_succ]; exact ⟨_, rfl⟩
      have hopl : op.length = (optsBytes h.opts).length + (4 - (20 + (optsBytes h.opts).length) % 4) := by
        rw [hopv]; simp
      have := parseOpts_rt h.opts hok _ (List.replicate (4 - (20 + (optsBytes h.opts).length) % 4) 0 ++ payload)
        (20 + op.length) (20 + op.length) (by rw [hl]; omega) (Or.inr hrep) (by omega)
      rw [hl] at this
      rw [hopv]
      rw [hopv] at this
      simpa only [List.append_assoc] using this
    · have hopv : op = optsBytes h.opts := by rw [← hop]; simp [optsPadded, hp]
      have := parseOpts_rt h.opts hok _ payload (20 + op.length) (20 + op.length) (by rw [hl, hopv]; omega)
        (Or.inl (by rw [hl, hopv])) (by rw [hopv]; omega)
      rw [hl] at this
      rw [hopv]
      rw [hopv] at this
      simpa only [List.append_assoc] using this
  unfold tcpParse
  rw [hraw]
  simp only [hu, List.length_append, hl, tcpVals, hor, e1, e2, e3]
  have c1 : ¬ (20 + (op.length + payload.length) < 20) := by omega
  have c2 : ¬ (20 + op.length < 20 ∨ 20 + op.length > 20 + (op.length + payload.length)) := by omega
  simp only [c1, c2, if_false, hpo]
  have hdrop : List.drop (20 + op.length)
      ((tcpPre h ((20 + op.length) / 4) ++ (be16 (tcpCsumSpec c h op payload) ++ be16 h.urg)) ++ (op ++ payload)) = payload := by
    rw [← List.append_assoc]
    exact drop_left _ _ _ (by rw [List.length_append, hl])
  rw [hdrop]
  cases h
  simp_all [tcpUpd]

end Pox.Packet
