import PoxModel.Proofs.Subsume
import PoxModel.Proofs.Match
set_option linter.unusedSimpArgs false
/-! `matchesWith true (ofWire a) (ofWire b)` — `matches_with_wildcards(other)` with `consider_other_wildcards=True` on two
matches received in flow-mods — is the standard-level subsumption test `Spec.subsumes a b`.  Core only. -/
namespace Pox.OF
open OfMatch

theorem or_eq_left_iff (x y : Nat) : (x ||| y) = x ↔ ∀ i, y.testBit i = true → x.testBit i = true := by
  constructor
  · intro h i hy
    have := congrArg (fun n => n.testBit i) h
    simp only [Nat.testBit_or, hy, Bool.or_true] at this
    exact this.symm
  · intro h
    apply Nat.eq_of_testBit_eq
    intro i
    rw [Nat.testBit_or]
    cases hy : y.testBit i
    · simp
    · simp [h i hy]

theorem flagBits_testBit (w i : Nat) : (flagBits w).testBit i = (w.testBit i && !(decide (8 ≤ i ∧ i < 20))) := by
  rw [flagBits, testBit_clearBits]
  congr 2
  have e : (NW_SRC_MASK ||| NW_DST_MASK) = (2 ^ 12 - 1) <<< 8 := by decide
  rw [e, Nat.testBit_shiftLeft, Nat.testBit_two_pow_sub_one]
  by_cases h1 : 8 ≤ i
  · simp [h1]; omega
  · simp [h1]

theorem bit_cases (i : Nat) : (∃ f : Fld, f.bit = i) ∨ (8 ≤ i ∧ i < 20) ∨ 22 ≤ i := by
  by_cases h : i < 22
  · have : i = 0 ∨ i = 1 ∨ i = 2 ∨ i = 3 ∨ i = 4 ∨ i = 5 ∨ i = 6 ∨ i = 7 ∨ (8 ≤ i ∧ i < 20) ∨ i = 20 ∨ i = 21 := by omega
    rcases this with rfl | rfl | rfl | rfl | rfl | rfl | rfl | rfl | h | rfl | rfl
    · exact .inl ⟨.inPort, rfl⟩
    · exact .inl ⟨.dlVlan, rfl⟩
    · exact .inl ⟨.dlSrc, rfl⟩
    · exact .inl ⟨.dlDst, rfl⟩
    · exact .inl ⟨.dlType, rfl⟩
    · exact .inl ⟨.nwProto, rfl⟩
    · exact .inl ⟨.tpSrc, rfl⟩
    · exact .inl ⟨.tpDst, rfl⟩
    · exact .inr (.inl h)
    · exact .inl ⟨.dlVlanPcp, rfl⟩
    · exact .inl ⟨.nwTos, rfl⟩
  · exact .inr (.inr (by omega))

/-- the `consider_other_wildcards` test: no flag of `n` outside `m`'s (given `n` has no bits above the 22 defined ones) -/
theorem flagOk_iff (m n : OfMatch) (hn : ∀ i, 22 ≤ i → n.wildcards.testBit i = false) :
    ((flagBits m.wildcards ||| flagBits n.wildcards) == flagBits m.wildcards) = Fld.all.all (fun f => !n.wild f || m.wild f) := by
  rw [Bool.eq_iff_iff]
  simp only [beq_iff_eq, or_eq_left_iff, flagBits_testBit, List.all_eq_true, Bool.and_eq_true, Bool.or_eq_true,
    Bool.not_eq_true', decide_eq_false_iff_not, wild]
  constructor
  · intro h f _
    have hr := Fld.bit_range f
    cases hq : n.wildcards.testBit f.bit
    · exact .inl rfl
    · exact .inr (h f.bit ⟨hq, by omega⟩).1
  · intro h i ⟨hi, hr⟩
    rcases bit_cases i with ⟨f, rfl⟩ | h2 | h2
    · rcases h f (Fld.mem_all f) with h3 | h3
      · rw [h3] at hi; cases hi
      · exact ⟨h3, hr⟩
    · exact absurd h2 hr
    · rw [hn i h2] at hi; cases hi

theorem ofWire_high (r : OfMatch) (h : r.wildcards < 2 ^ 22) (i : Nat) (hi : 22 ≤ i) :
    (ofWire r).wildcards.testBit i = false := by
  show (normalize (unwire r.dlType r.nwProto r.wildcards)).testBit i = false
  rw [normalize_testBit _ _ (.inr (by omega)), unwire_eq, Nat.testBit_or]
  have h1 : r.wildcards.testBit i = false :=
    Nat.testBit_lt_two_pow (Nat.lt_of_lt_of_le h (Nat.pow_le_pow_right (by decide) hi))
  have h2 : (unwireMask r.dlType r.nwProto).testBit i = false := by
    apply Nat.testBit_lt_two_pow
    apply Nat.lt_of_lt_of_le _ (Nat.pow_le_pow_right (by decide) hi)
    unfold unwireMask
    split
    · split <;> decide
    · split <;> decide
  simp [h1, h2]


theorem matchesWith_true (a b : OfMatch) :
    matchesWith true a b =
      (((flagBits a.wildcards ||| flagBits b.wildcards) == flagBits a.wildcards) &&
       !(Fld.all.any (fieldFail a b)) && !nwFail a.srcView b.srcView && !nwFail a.dstView b.dstView) := by
  unfold matchesWith
  by_cases he : eqMatch a b = true
  · obtain ⟨hw, _, hs, hd⟩ := eqMatch_parts he
    have h1 : Fld.all.any (fieldFail a b) = false := by
      rw [List.any_eq_false]; intro f _; simp [eqMatch_fieldFail he f]
    have h2 : nwFail a.srcView b.srcView = false := eqMatch_nwFail _ _ _ _ (by rw [hw]) hs
    have h3 : nwFail a.dstView b.dstView = false := eqMatch_nwFail _ _ _ _ (by rw [hw]) hd
    simp [he, h1, h2, h3, hw]
  · simp only [he, Bool.false_eq_true, if_false, Bool.true_and, bne]
    cases ((flagBits a.wildcards ||| flagBits b.wildcards) == flagBits a.wildcards) <;>
    cases Fld.all.any (fieldFail a b) <;> cases nwFail a.srcView b.srcView <;> cases nwFail a.dstView b.dstView <;>
      simp

/-- the address block for counters already normalised to `≤ 32` -/
theorem nwFail_views (cm cn x y : Nat) (hm : cm ≤ 32) (hn : cn ≤ 32) :
    nwFail (nwView cm x) (nwView cn y) = !Spec.PSub cm cn x y := by
  unfold nwView Spec.PSub Spec.prefixEq
  by_cases h1 : 32 ≤ cm
  · have : cn ≤ cm := by omega
    simp [h1, nwFail, this]
  · by_cases h2 : 32 ≤ cn
    · have h3 : ¬ cn ≤ cm := by omega
      have h4 : 0 < 32 - cm := by omega
      simp [h1, h2, nwFail, h3, h4]
    · by_cases h3 : cn ≤ cm
      · have h4 : ¬ (32 - cn < 32 - cm) := by omega
        have e : 32 - (32 - cm) = cm := by omega
        simp only [h1, h2, if_false, nwFail, gt_iff_lt, h4, e, h3, decide_true, decide_false, Bool.true_and, Bool.false_or]
        by_cases hq : x / 2 ^ cm = y / 2 ^ cm
        · simp [hq, (clearLow_eq_iff cm y x).mpr hq.symm]
        · have hne : clearLow cm y ≠ clearLow cm x := fun h => hq ((clearLow_eq_iff cm y x).mp h).symm
          have e1 : (clearLow cm y != clearLow cm x) = true := by simpa [bne_iff_ne] using hne
          have e2 : (x / 2 ^ cm == y / 2 ^ cm) = false := by simpa using hq
          simp only [e1, e2, Bool.not_false]
      · have h4 : 32 - cn < 32 - cm := by omega
        simp [h1, h2, nwFail, h3, h4]

/-- under `PrereqExact`, "the un-wired match compares field `f`" is the standard's "field `f` is significant" -/
theorem sig_agree (r : OfMatch) (hp : PrereqExact r) (f : Fld) : (!(ofWire r).wild f) = Spec.significant r f.bit := by
  obtain ⟨p1, p2⟩ := hp
  rw [ofWire_wild]
  have p1' : r.wildcards.testBit 4 = true → r.dlType ≠ 0x0800 ∧ r.dlType ≠ 0x0806 := p1
  have p2' : r.wildcards.testBit 5 = true → r.dlType = 0x0800 → isL4Proto r.nwProto = false := p2
  cases hT : r.wildcards.testBit 4
  · -- dl_type not wildcarded
    cases hP : r.wildcards.testBit 5
    · cases f <;>
        simp [ignoredFlag, Spec.significant, Fld.bit, Spec.W_NW_TOS, Spec.W_NW_PROTO, Spec.W_TP_SRC, Spec.W_TP_DST, Spec.ipSpecified,
          Spec.nwSpecified, Spec.tpSpecified, Spec.dlTypeIs, Spec.W_DL_TYPE, nwIgnored, tosIgnored, tpIgnored, isL4Proto,
          OfMatch.wild, Spec.wild, hT, hP, Bool.and_comm, Bool.and_assoc, Bool.and_left_comm, Bool.or_assoc]
    · by_cases hd : r.dlType = 0x0800
      · have l4 := p2' hP hd
        simp only [isL4Proto, Bool.or_eq_false_iff, beq_eq_false_iff_ne] at l4
        cases f <;>
          simp [ignoredFlag, Spec.significant, Fld.bit, Spec.W_NW_TOS, Spec.W_NW_PROTO, Spec.W_TP_SRC, Spec.W_TP_DST, Spec.ipSpecified,
            Spec.nwSpecified, Spec.tpSpecified, Spec.dlTypeIs, Spec.W_DL_TYPE, nwIgnored, tosIgnored, tpIgnored, isL4Proto,
            OfMatch.wild, Spec.wild, hT, hP, hd, l4]
      · cases f <;>
          simp [ignoredFlag, Spec.significant, Fld.bit, Spec.W_NW_TOS, Spec.W_NW_PROTO, Spec.W_TP_SRC, Spec.W_TP_DST, Spec.ipSpecified,
            Spec.nwSpecified, Spec.tpSpecified, Spec.dlTypeIs, Spec.W_DL_TYPE, nwIgnored, tosIgnored, tpIgnored, isL4Proto,
            OfMatch.wild, Spec.wild, hT, hP, hd]
  · obtain ⟨n1, n2⟩ := p1' hT
    cases f <;>
      simp [ignoredFlag, Spec.significant, Fld.bit, Spec.W_NW_TOS, Spec.W_NW_PROTO, Spec.W_TP_SRC, Spec.W_TP_DST, Spec.ipSpecified,
        Spec.nwSpecified, Spec.tpSpecified, Spec.dlTypeIs, Spec.W_DL_TYPE, nwIgnored, tosIgnored, tpIgnored,
        OfMatch.wild, Spec.wild, hT, n1, n2]

theorem all_and_not_any {α : Type} (l : List α) (P Q : α → Bool) :
    (l.all P && !(l.any Q)) = l.all (fun f => P f && !Q f) := by
  induction l with
  | nil => rfl
  | cons x xs ih =>
    simp only [List.all_cons, List.any_cons, ← ih]
    cases P x <;> cases Q x <;> cases xs.all P <;> cases xs.any Q <;> rfl

theorem field_sub (m n : OfMatch) (f : Fld) :
    ((!n.wild f || m.wild f) && !fieldFail m n f) = Spec.FSub (!m.wild f) (!n.wild f) (m.get f) (n.get f) := by
  unfold fieldFail Spec.FSub
  cases m.wild f <;> cases n.wild f <;> simp [bne]

theorem nwSpecified_agree (r : OfMatch) (hp : PrereqExact r) : nwIgnored r = !Spec.nwSpecified r := by
  have p1' : r.wildcards.testBit 4 = true → r.dlType ≠ 0x0800 ∧ r.dlType ≠ 0x0806 := hp.1
  cases hT : r.wildcards.testBit 4
  · simp [nwIgnored, Spec.nwSpecified, Spec.dlTypeIs, Spec.wild, Spec.W_DL_TYPE, hT]
  · obtain ⟨n1, n2⟩ := p1' hT
    simp [nwIgnored, Spec.nwSpecified, Spec.dlTypeIs, Spec.wild, Spec.W_DL_TYPE, hT, n1, n2]

theorem srcIgn_agree (r : OfMatch) (hp : PrereqExact r) : srcCnt (ofWire r).wildcards = Spec.srcIgn r := by
  rw [ofWire_srcCnt, nwSpecified_agree r hp, Spec.srcIgn, Spec.srcIgnored, srcCnt_div]
  cases Spec.nwSpecified r <;> simp

theorem dstIgn_agree (r : OfMatch) (hp : PrereqExact r) : dstCnt (ofWire r).wildcards = Spec.dstIgn r := by
  rw [ofWire_dstCnt, nwSpecified_agree r hp, Spec.dstIgn, Spec.dstIgnored, dstCnt_div]
  cases Spec.nwSpecified r <;> simp

theorem FSub_tos (sa sb : Bool) (x y : Nat) (hx : x % 4 = 0) (hy : y % 4 = 0) :
    Spec.FSub sa sb x y = Spec.FSub sa sb (x / 4) (y / 4) := by
  have : (x == y) = (x / 4 == y / 4) := by
    rw [Bool.eq_iff_iff]; simp only [beq_iff_eq]; omega
  simp [Spec.FSub, this]

/-- `matches_with_wildcards(other)` with `consider_other_wildcards=True`, on two matches received in flow-mods, is the
    standard-level field-wise subsumption test -/
theorem code_subsumes (a b : OfMatch) (ha : PrereqExact a) (hb : PrereqExact b) (ta : a.nwTos % 4 = 0) (tb : b.nwTos % 4 = 0)
    (hbw : b.wildcards < 2 ^ 22) : matchesWith true (ofWire a) (ofWire b) = Spec.subsumes a b := by
  rw [matchesWith_true, flagOk_iff _ _ (ofWire_high b hbw), all_and_not_any, Spec.subsumes_eq]
  simp only [Fld.all, List.all_cons, List.all_nil, Bool.and_true, field_sub]
  simp only [sig_agree a ha, sig_agree b hb, ofWire_get]
  simp only [srcView, dstView, srcIgn_agree a ha, srcIgn_agree b hb, dstIgn_agree a ha, dstIgn_agree b hb]
  rw [nwFail_views _ _ _ _ (Spec.srcIgn_le a) (Spec.srcIgn_le b), nwFail_views _ _ _ _ (Spec.dstIgn_le a) (Spec.dstIgn_le b)]
  simp only [Bool.not_not, OfMatch.get, Fld.bit]
  rw [FSub_tos _ _ _ _ ta tb]
  have hs : (ofWire a).nwSrc = a.nwSrc := rfl
  have hs' : (ofWire b).nwSrc = b.nwSrc := rfl
  have hd : (ofWire a).nwDst = a.nwDst := rfl
  have hd' : (ofWire b).nwDst = b.nwDst := rfl
  rw [hs, hs', hd, hd']
  simp only [Spec.W_IN_PORT, Spec.W_DL_SRC, Spec.W_DL_DST, Spec.W_DL_VLAN, Spec.W_DL_VLAN_PCP, Spec.W_DL_TYPE, Spec.W_NW_TOS,
    Spec.W_NW_PROTO, Spec.W_TP_SRC, Spec.W_TP_DST]
  ac_rfl
end Pox.OF
