import PoxModel.Proofs.STreeCull
/-! Which cables carry a flood (C19): under point-to-point cabling, a port that is an end of a known link floods iff it is an end of a
    tree edge, so the arcs a flooded frame travels are exactly the tree edges (both ways).  Core only. -/
namespace Pox.STree

/-- two links have an end (switch, port) in common -/
def SharesEnd (l l' : Link) : Prop :=
  (l.dpid1 = l'.dpid1 ∧ l.port1 = l'.port1) ∨ (l.dpid1 = l'.dpid2 ∧ l.port1 = l'.port2) ∨
  (l.dpid2 = l'.dpid1 ∧ l.port2 = l'.port1) ∨ (l.dpid2 = l'.dpid2 ∧ l.port2 = l'.port2)

instance (l l' : Link) : Decidable (SharesEnd l l') := by unfold SharesEnd; infer_instance

/-- point-to-point cabling: links that share an end are the same cable (the same link or its reverse) -/
def PtP (adj : List Link) : Prop := ∀ l ∈ adj, ∀ l' ∈ adj, SharesEnd l l' → l' = l ∨ l' = l.flip

instance (adj : List Link) : Decidable (PtP adj) := by unfold PtP; infer_instance

/-- the tree is made of links that are in the adjacency in both directions (conclusion of `tree_is_forest`) -/
def TreeOfLinks (adj : List Link) (t : List TEdge) : Prop :=
  ∀ e ∈ t, e.v ≠ e.w ∧ (⟨e.v, e.pv, e.w, e.pw⟩ : Link) ∈ adj ∧ (⟨e.w, e.pw, e.v, e.pv⟩ : Link) ∈ adj

theorem mem_treePorts (t : List TEdge) (sw p : Nat) (hne : ∀ e ∈ t, e.v ≠ e.w) :
    p ∈ treePorts t sw ↔ ∃ e ∈ t, (e.v = sw ∧ e.pv = p) ∨ (e.w = sw ∧ e.pw = p) := by
  unfold treePorts
  rw [List.mem_filterMap]
  constructor
  · rintro ⟨e, he, h⟩
    refine ⟨e, he, ?_⟩
    by_cases h1 : e.v = sw
    · simp only [h1, if_true, Option.some.injEq] at h; exact .inl ⟨h1, h⟩
    · by_cases h2 : e.w = sw
      · simp only [h1, h2, if_true, if_false, Option.some.injEq] at h; exact .inr ⟨h2, h⟩
      · simp [h1, h2] at h
  · rintro ⟨e, he, ⟨h1, h2⟩ | ⟨h1, h2⟩⟩
    · exact ⟨e, he, by simp [h1, h2]⟩
    · have : e.v ≠ sw := fun c => hne e he (c.trans h1.symm)
      exact ⟨e, he, by simp [this, h1, h2]⟩

theorem isEdgePort_false_left (adj : List Link) (l : Link) (hl : l ∈ adj) : isEdgePort adj l.dpid1 l.port1 = false := by
  unfold isEdgePort
  rw [Bool.not_eq_false', List.any_eq_true]
  exact ⟨l, hl, by simp⟩

/-- the sending end of a known link floods iff the link is (one direction of) a tree edge -/
theorem link_floods_iff_tree_edge (adj : List Link) (t : List TEdge) (hptp : PtP adj) (ht : TreeOfLinks adj t) (l : Link)
    (hl : l ∈ adj) :
    floodOf adj (treePorts t l.dpid1) l.dpid1 l.port1 = true ↔
      ∃ e ∈ t, (⟨e.v, e.pv, e.w, e.pw⟩ : Link) = l ∨ (⟨e.w, e.pw, e.v, e.pv⟩ : Link) = l := by
  unfold floodOf
  rw [isEdgePort_false_left adj l hl, Bool.or_false, decide_eq_true_eq, mem_treePorts t _ _ (fun e he => (ht e he).1)]
  constructor
  · rintro ⟨e, he, ⟨h1, h2⟩ | ⟨h1, h2⟩⟩
    · obtain ⟨_, m1, _⟩ := ht e he
      refine ⟨e, he, ?_⟩
      rcases hptp l hl _ m1 (.inl ⟨h1.symm, h2.symm⟩) with c | c
      · exact .inl c
      · right
        exact congrArg Link.flip c
    · obtain ⟨_, _, m2⟩ := ht e he
      refine ⟨e, he, ?_⟩
      rcases hptp l hl _ m2 (.inl ⟨h1.symm, h2.symm⟩) with c | c
      · exact .inr c
      · left
        exact congrArg Link.flip c
  · rintro ⟨e, he, c | c⟩
    · exact ⟨e, he, .inl (by subst c; exact ⟨rfl, rfl⟩)⟩
    · exact ⟨e, he, .inr (by subst c; exact ⟨rfl, rfl⟩)⟩

/-- CABLE_FLOODS_IFF_TREE_EDGE: a cable known in both directions floods at both of its ends iff it is a tree edge -/
theorem cable_floods_iff_tree_edge (adj : List Link) (t : List TEdge) (hptp : PtP adj) (ht : TreeOfLinks adj t) (l : Link)
    (hl : l ∈ adj) (hf : l.flip ∈ adj) :
    (floodOf adj (treePorts t l.dpid1) l.dpid1 l.port1 = true ∧ floodOf adj (treePorts t l.dpid2) l.dpid2 l.port2 = true) ↔
      ∃ e ∈ t, (⟨e.v, e.pv, e.w, e.pw⟩ : Link) = l ∨ (⟨e.w, e.pw, e.v, e.pv⟩ : Link) = l := by
  have h1 := link_floods_iff_tree_edge adj t hptp ht l hl
  have h2 := link_floods_iff_tree_edge adj t hptp ht l.flip hf
  constructor
  · exact fun h => h1.mp h.1
  · intro h
    refine ⟨h1.mpr h, h2.mpr ?_⟩
    obtain ⟨e, he, c | c⟩ := h
    · exact ⟨e, he, .inr (by subst c; rfl)⟩
    · exact ⟨e, he, .inl (by subst c; rfl)⟩

/-- a flooded frame leaves `a` towards `b`: some known link a→b whose sending port floods (`fl` = the flood state of the ports;
    the receiving port's NO_FLOOD bit does not stop a frame from coming in) -/
def FloodArc (adj : List Link) (fl : Nat × Nat → Bool) (a b : Nat) : Prop :=
  ∃ l ∈ adj, l.dpid1 = a ∧ l.dpid2 = b ∧ fl (a, l.port1) = true

/-- the switches a frame flooded at `a` gets to -/
def FloodReach (adj : List Link) (fl : Nat × Nat → Bool) : Nat → Nat → Prop := RConn (FloodArc adj fl)

theorem floodArc_iff_tree_edge (adj : List Link) (t : List TEdge) (hptp : PtP adj) (ht : TreeOfLinks adj t)
    (fl : Nat × Nat → Bool) (hfl : ∀ l ∈ adj, fl (l.dpid1, l.port1) = floodOf adj (treePorts t l.dpid1) l.dpid1 l.port1)
    (a b : Nat) : FloodArc adj fl a b ↔ ((a, b) ∈ t.map (fun e => (e.v, e.w)) ∨ (b, a) ∈ t.map (fun e => (e.v, e.w))) := by
  constructor
  · rintro ⟨l, hl, rfl, rfl, h⟩
    rw [hfl l hl] at h
    obtain ⟨e, he, c | c⟩ := (link_floods_iff_tree_edge adj t hptp ht l hl).mp h
    · exact .inl (List.mem_map.mpr ⟨e, he, by subst c; rfl⟩)
    · exact .inr (List.mem_map.mpr ⟨e, he, by subst c; rfl⟩)
  · rintro (h | h)
    · obtain ⟨e, he, c⟩ := List.mem_map.mp h
      obtain ⟨e1, e2⟩ := Prod.mk.inj c
      obtain ⟨_, m1, _⟩ := ht e he
      refine ⟨_, m1, e1, e2, ?_⟩
      rw [← e1]
      have := hfl _ m1
      simp only at this
      rw [this]
      exact (link_floods_iff_tree_edge adj t hptp ht _ m1).mpr ⟨e, he, .inl rfl⟩
    · obtain ⟨e, he, c⟩ := List.mem_map.mp h
      obtain ⟨e1, e2⟩ := Prod.mk.inj c
      obtain ⟨_, _, m2⟩ := ht e he
      refine ⟨_, m2, e2, e1, ?_⟩
      rw [← e2]
      have := hfl _ m2
      simp only at this
      rw [this]
      exact (link_floods_iff_tree_edge adj t hptp ht _ m2).mpr ⟨e, he, .inr rfl⟩

/-- a flood gets exactly to the switches the tree connects -/
theorem floodReach_iff_conn (adj : List Link) (t : List TEdge) (hptp : PtP adj) (ht : TreeOfLinks adj t)
    (fl : Nat × Nat → Bool) (hfl : ∀ l ∈ adj, fl (l.dpid1, l.port1) = floodOf adj (treePorts t l.dpid1) l.dpid1 l.port1)
    (a b : Nat) : FloodReach adj fl a b ↔ Conn (t.map fun e => (e.v, e.w)) a b := by
  constructor
  · intro h
    induction h with
    | refl a => exact .refl a
    | step hr =>
      rcases (floodArc_iff_tree_edge adj t hptp ht fl hfl _ _).mp hr with c | c
      · exact .edge c
      · exact .symm (.edge c)
    | symm _ ih => exact .symm ih
    | trans _ _ i1 i2 => exact .trans i1 i2
  · intro h
    induction h with
    | refl a => exact .refl a
    | edge he => exact .step ((floodArc_iff_tree_edge adj t hptp ht fl hfl _ _).mpr (.inl he))
    | symm _ ih => exact .symm ih
    | trans _ _ i1 i2 => exact .trans i1 i2

end Pox.STree
