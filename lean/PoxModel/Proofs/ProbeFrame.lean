import PoxModel.Proofs.Probe
/-! TLV framing and the `lldp.parse` loop on the discovery probe; `recover (probeFrame …) = link dpid port`.  Core only. -/
namespace Pox.Discovery
open Pox

theorem packTlv_length (t : Tlv) : (packTlv t).length = 2 + t.data.length := by
  simp [packTlv, beEnc_length]

/-- `next_tlv` reads back a packed TLV (type below 128, at most 511 data bytes, data acceptable to its parser) -/
theorem nextTlv_pack (t : Tlv) (rest : Bytes) (ht : t.type < 128) (hl : t.data.length < 512)
    (hok : tlvDataOk t.type t.data = .ok ()) :
    nextTlv (packTlv t ++ rest) = .ok (some (t, 2 + t.data.length)) := by
  have hmod : t.data.length % 512 = t.data.length := Nat.mod_eq_of_lt hl
  have hn : t.type * 512 + t.data.length < 65536 := by omega
  have e : packTlv t ++ rest =
      UInt8.ofNat ((t.type * 512 + t.data.length) / 256) :: UInt8.ofNat ((t.type * 512 + t.data.length) % 256) ::
        (t.data ++ rest) := by
    simp [packTlv, beEnc, hmod]
  rw [e]
  have q1 : (t.type * 512 + t.data.length) / 256 < 256 := by omega
  have b0 : (UInt8.ofNat ((t.type * 512 + t.data.length) / 256)).toNat = (t.type * 512 + t.data.length) / 256 := by
    simp [Nat.mod_eq_of_lt q1]
  have b1 : (UInt8.ofNat ((t.type * 512 + t.data.length) % 256)).toNat = (t.type * 512 + t.data.length) % 256 := by
    simp
  have tl : (t.type * 512 + t.data.length) / 256 * 256 + (t.type * 512 + t.data.length) % 256 = t.type * 512 + t.data.length := by
    omega
  have ty : (t.type * 512 + t.data.length) / 512 = t.type := by omega
  have ln : (t.type * 512 + t.data.length) % 512 = t.data.length := by omega
  simp only [nextTlv, b0, b1, tl, ty, ln, List.length_cons, List.length_append]
  have c1 : ¬ (t.data.length + rest.length + 1 + 1 < 2 + t.data.length) := by omega
  have tk : (t.data ++ rest).take t.data.length = t.data := List.take_left' rfl
  rw [if_neg c1, tk, hok]

theorem drop_pack (t : Tlv) (rest : Bytes) : (packTlv t ++ rest).drop (2 + t.data.length) = rest :=
  List.drop_left' (packTlv_length t)

/-- `lldp.parse` on chassis, port, ttl, one more TLV, END -/
theorem parseLldp_five (t1 t2 t3 t4 t5 : Tlv)
    (h1 : t1.type = CHASSIS_ID_TLV) (h2 : t2.type = PORT_ID_TLV) (h3 : t3.type = TTL_TLV) (h4 : t4.type ≠ END_TLV)
    (h5 : t5.type = END_TLV) (k4 : t4.type < 128)
    (l1 : t1.data.length < 512) (l2 : t2.data.length < 512) (l3 : t3.data.length < 512) (l4 : t4.data.length < 512)
    (l5 : t5.data.length < 512)
    (o1 : tlvDataOk t1.type t1.data = .ok ()) (o2 : tlvDataOk t2.type t2.data = .ok ()) (o3 : tlvDataOk t3.type t3.data = .ok ())
    (o4 : tlvDataOk t4.type t4.data = .ok ()) (o5 : tlvDataOk t5.type t5.data = .ok ())
    (hlen : 14 ≤ (packTlvs [t1, t2, t3, t4, t5]).length) :
    parseLldp (packTlvs [t1, t2, t3, t4, t5]) = .ok (some [t1, t2, t3, t4, t5]) := by
  have e : packTlvs [t1, t2, t3, t4, t5] = packTlv t1 ++ (packTlv t2 ++ (packTlv t3 ++ (packTlv t4 ++ (packTlv t5 ++ [])))) := by
    simp [packTlvs]
  have k1 : t1.type < 128 := by rw [h1]; decide
  have k2 : t2.type < 128 := by rw [h2]; decide
  have k3 : t3.type < 128 := by rw [h3]; decide
  have k5 : t5.type < 128 := by rw [h5]; decide
  unfold parseLldp
  rw [if_neg (by omega)]
  obtain ⟨f, hf⟩ : ∃ f, (packTlvs [t1, t2, t3, t4, t5]).length + 1 = f + 2 := ⟨(packTlvs [t1, t2, t3, t4, t5]).length - 1, by omega⟩
  rw [hf, e]
  rw [nextTlv_pack t1 _ k1 l1 o1]
  simp only [h1, ne_eq, not_true_eq_false, if_false, drop_pack]
  rw [nextTlv_pack t2 _ k2 l2 o2]
  simp only [h2, ne_eq, not_true_eq_false, if_false, drop_pack]
  rw [nextTlv_pack t3 _ k3 l3 o3]
  simp only [h3, ne_eq, not_true_eq_false, if_false, drop_pack]
  unfold restTlvs
  rw [nextTlv_pack t4 _ k4 l4 o4]
  simp only [h4, if_false]
  have c : ¬ (2 + t4.data.length ≥ (packTlv t4 ++ (packTlv t5 ++ [])).length) := by
    simp [packTlv_length]; omega
  rw [if_neg c, drop_pack]
  unfold restTlvs
  rw [nextTlv_pack t5 _ k5 l5 o5]
  simp [h5]

theorem splitLines_noNL : ∀ (s cur : Bytes), (∀ c ∈ s, c ≠ 10) → splitLines s cur = [cur ++ s]
  | [], cur, _ => by simp [splitLines]
  | c :: cs, cur, h => by
    have hc : c ≠ 10 := h c (by simp)
    simp only [splitLines, hc, if_false]
    rw [splitLines_noNL cs _ (fun x hx => h x (by simp [hx]))]
    simp

theorem dpidPrefix_chars : ∀ c ∈ dpidPrefix, c ≠ 10 ∧ ¬ (c ≥ 128) := by decide

/-- PROBE_ROUNDTRIP: the originator the PacketIn handler attributes the discovery frame to is the (dpid, port) it was built for -/
theorem recover_probeFrame (dpid port ttl : Nat) (hw : Bytes) (hd : dpid < 2 ^ 64) (hp : port < 2 ^ 16) (hhw : hw.length = 6) :
    recover (probeFrame dpid port hw ttl) = .ok (.link (dpid : Int) port) := by
  have hx := hexStr_length dpid hd
  have dx := decStr_length port hp
  have hbody : (probeFrame dpid port hw ttl).drop 14 = packTlvs (probeTlvs dpid port ttl) := by
    unfold probeFrame
    exact List.drop_left' (by simp [NDP_MULTICAST, LLDP_TYPE, hhw])
  have hty : ((probeFrame dpid port hw ttl).drop 12).take 2 = LLDP_TYPE := by
    unfold probeFrame
    rw [List.append_assoc (NDP_MULTICAST ++ hw)]
    rw [List.drop_left' (by simp [NDP_MULTICAST, hhw])]
    exact List.take_left' rfl
  have hdst : (probeFrame dpid port hw ttl).take 6 = NDP_MULTICAST := by
    unfold probeFrame
    rw [List.append_assoc, List.append_assoc]
    exact List.take_left' rfl
  have hlen : ¬ (probeFrame dpid port hw ttl).length < 14 := by
    unfold probeFrame; simp [NDP_MULTICAST, LLDP_TYPE, hhw]; omega
  have dpos : 1 ≤ (decStr port).length := by
    have := (decStr_digits port).1
    cases h : decStr port with
    | nil => exact absurd h this
    | cons _ _ => simp
  have hparse : parseLldp (packTlvs (probeTlvs dpid port ttl)) = .ok (some (probeTlvs dpid port ttl)) := by
    unfold probeTlvs
    apply parseLldp_five
    case hlen => simp [packTlvs, packTlv_length, dpidPrefix, beEnc_length]; omega
    all_goals
      first
        | rfl
        | decide
        | (simp [dpidPrefix, beEnc_length]; omega)
        | (simp [tlvDataOk, CHASSIS_ID_TLV, PORT_ID_TLV, TTL_TLV, END_TLV, SYSTEM_DESC_TLV, dpidPrefix, beEnc_length]
           try omega)
  unfold recover
  rw [if_neg hlen, hty, hbody, hparse]
  simp only [ne_eq, not_true_eq_false, if_false, hdst]
  -- the handler proper
  have hnl : ∀ c ∈ dpidPrefix ++ hexStr dpid, c ≠ 10 := by
    intro c hc
    rcases List.mem_append.mp hc with h | h
    · exact (dpidPrefix_chars c h).1
    · exact (hexStr_chars dpid c h).1
  have hasc : (dpidPrefix ++ hexStr dpid).any (fun c => c ≥ 128) = false := by
    rw [List.any_eq_false]
    intro c hc
    rcases List.mem_append.mp hc with h | h
    · simpa using (dpidPrefix_chars c h).2
    · simpa using (hexStr_chars dpid c h).2
  have hsd : lookInSysDesc [⟨SYSTEM_DESC_TLV, dpidPrefix ++ hexStr dpid⟩, ⟨END_TLV, []⟩] = .ok (some (dpid : Int)) := by
    unfold lookInSysDesc
    simp only [if_true, hasc, Bool.false_eq_true, if_false]
    rw [splitLines_noNL _ _ hnl]
    have sw : startsWith dpidPrefix ([] ++ (dpidPrefix ++ hexStr dpid)) = true := by
      simp [startsWith, dpidPrefix]
    have dr : ([] ++ (dpidPrefix ++ hexStr dpid)).drop 5 = hexStr dpid := by
      simp [dpidPrefix]
    simp only [firstDpidLine, sw, if_true, dr, pyInt_hexStr]
  obtain ⟨dne, dall⟩ := decStr_digits port
  unfold recoverTlvs probeTlvs
  simp only [hsd]
  have st : (UInt8.ofNat SUB_PORT).toNat = SUB_PORT := by decide
  simp only [st, ne_eq, not_true_eq_false, if_false, dne, not_false_eq_true, dall, and_self, if_true, pyInt_decStr]

end Pox.Discovery
