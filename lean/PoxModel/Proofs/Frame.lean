import PoxModel.Proofs.Match
import PoxModel.Spec.OF10Frame
/-! Complete frames (`Spec.Frame.parse … = some (p, true)`) are regular: the side condition of the extraction / lookup theorems holds
for every description read off the bytes of a complete frame. -/
namespace Pox.Spec.Frame
open Pox.OF

theorem l4_regular (pr fo : Nat) (frag : Bool) (pay : List Nat) (hf : fo ≠ 0 → frag = true)
    (hc : (l4 pr fo frag pay).2 = true) : l4Regular pr frag (l4 pr fo frag pay).1 = true := by
  unfold l4 at hc ⊢
  split
  · rename_i h0; simp [l4Regular, hf h0]
  · rename_i h0
    rw [if_neg h0] at hc
    split
    · rename_i h17
      rw [if_pos h17] at hc
      split
      · simp [l4Regular, h17]
      · rename_i hl; rw [if_neg hl] at hc; have hc : frag = true := hc; simp [l4Regular, hc]
    · rename_i h17
      rw [if_neg h17] at hc
      split
      · rename_i h6
        rw [if_pos h6] at hc
        simp only [] at hc ⊢
        split
        · simp [l4Regular, h6]
        · rename_i hl; rw [if_neg hl] at hc; have hc : frag = true := hc; simp [l4Regular, hc]
      · rename_i h6
        rw [if_neg h6] at hc
        split
        · rename_i h1
          rw [if_pos h1] at hc
          split
          · simp [l4Regular, h1]
          · rename_i hl; rw [if_neg hl] at hc; have hc : frag = true := hc; simp [l4Regular, hc]
        · rename_i h1; simp [l4Regular, isL4Proto, h1, h6, h17]

/-- what `l3 t b` returns is of the kind `t` announces -/
def L3Fits (t : Nat) : L3 → Bool
  | .ipv4 _ _ pr _ frag x => t == 0x0800 && l4Regular pr frag x
  | .arp _ _ _ => t == 0x0806
  | .other => t != 0x0800 && t != 0x0806

theorem l3_fits (t : Nat) (b : List Nat) (hc : (l3 t b).2 = true) : L3Fits t (l3 t b).1 = true := by
  unfold l3 at hc ⊢
  split
  · rename_i h8
    rw [if_pos h8] at hc
    simp only [] at hc ⊢
    split
    · rename_i hb; rw [if_pos hb] at hc; exact absurd hc (by simp)
    · rename_i hb
      rw [if_neg hb] at hc
      simp only [L3Fits, h8, beq_self_eq_true, Bool.true_and]
      refine l4_regular _ _ _ _ ?_ hc
      intro hfo
      simp [hfo]
  · rename_i h8
    rw [if_neg h8] at hc
    split
    · rename_i h6
      rw [if_pos h6] at hc
      split
      · rename_i hb; rw [if_pos hb] at hc; exact absurd hc (by simp)
      · simp [L3Fits, h6]
    · rename_i h6; simp [L3Fits, h6, h8]

/-- the LLC clause of `regularG` -/
def llcOk (p : PHdr) : Bool :=
  match p.llc with
  | some l => decide (p.typ < 0x600) && (l.snapOui == some 0 || (p.vlan.isNone && p.l3 == L3.other))
  | none => true

theorem regular_of_fits (p : PHdr) (hl : llcOk p = true) (h3 : L3Fits (Spec.dlTypeOf p) p.l3 = true) : regularG false p = true := by
  unfold regularG
  rw [Bool.and_eq_true]
  refine ⟨hl, ?_⟩
  cases h : p.l3 <;> (rw [h] at h3; simpa [L3Fits] using h3)

theorem tagged_regular (src dst typ : Nat) (llc : Option Llc) (t : Nat) (b : List Nat)
    (ht : ∀ x, Spec.etherType { src, dst, typ, llc, vlan := none, l3 := x } = t)
    (hl : ∀ v x, llcOk { src, dst, typ, llc, vlan := v, l3 := x } = true)
    (hc : (tagged src dst typ llc t b).2 = true) : regularG false (tagged src dst typ llc t b).1 = true := by
  unfold tagged at hc ⊢
  split
  · rename_i h81
    rw [if_pos h81] at hc
    split
    · rename_i hb; rw [if_pos hb] at hc; exact absurd hc (by simp)
    · rename_i hb
      rw [if_neg hb] at hc
      simp only [Bool.and_eq_true] at hc
      exact regular_of_fits _ (hl _ _) (l3_fits _ _ hc.2)
  · rename_i h81
    rw [if_neg h81] at hc
    refine regular_of_fits _ (hl _ _) ?_
    have := l3_fits _ _ hc
    simpa [Spec.dlTypeOf, ht] using this

/-- **Complete frames are regular**: the description read off the bytes of a complete frame satisfies the side condition under
    which extraction and lookup are proved to follow the standard. -/
theorem parse_regular (fr : List Nat) (p : PHdr) (h : parse fr = some (p, true)) : regularG false p = true := by
  unfold parse at h
  split at h
  · exact absurd h (by simp)
  · simp only at h
    split at h
    · rename_i hlen
      split at h
      · simp at h
      · split at h
        · split at h
          · simp at h
          · split at h
            · rename_i houi
              simp only [Option.some.injEq, Prod.mk.injEq, and_true] at h
              subst h
              exact regular_of_fits _ (by simp [llcOk, hlen]) (by simp [L3Fits, Spec.dlTypeOf, Spec.etherType, hlen, houi])
            · split at h
              · simp at h
              · simp only [Option.some.injEq] at h
                have hc : (tagged (be (slice fr 6 12)) (be (slice fr 0 6)) (be (slice fr 12 14)) (some { snapOui := some 0, ethType := be (slice (fr.drop 14) 6 8) })
                    (be (slice (fr.drop 14) 6 8)) ((fr.drop 14).drop 8)).2 = true := by rw [h]
                have := tagged_regular _ _ _ _ _ _ (fun x => by simp [Spec.etherType, hlen]) (fun v x => by simp [llcOk, hlen]) hc
                rw [h] at this
                exact this
        · simp only [Option.some.injEq, Prod.mk.injEq] at h
          obtain ⟨h, _⟩ := h
          subst h
          exact regular_of_fits _ (by simp [llcOk, hlen]) (by simp [L3Fits, Spec.dlTypeOf, Spec.etherType, hlen])
    · rename_i hlen
      simp only [Option.some.injEq] at h
      have hc : (tagged (be (slice fr 6 12)) (be (slice fr 0 6)) (be (slice fr 12 14)) none (be (slice fr 12 14)) (fr.drop 14)).2 = true := by rw [h]
      have := tagged_regular _ _ _ _ _ _ (fun x => by simp [Spec.etherType, hlen]) (fun v x => by simp [llcOk]) hc
      rw [h] at this
      exact this

end Pox.Spec.Frame
