import PoxModel.Model.LiveNet
/-! helper lemmas for the history-isolation theorems of C10 (core Lean only) -/
namespace Pox.LiveNet

theorem traceOf_append {E : Type} (j : Nat) (a b : List (Nat × E)) : traceOf j (a ++ b) = traceOf j a ++ traceOf j b := by
  simp [traceOf]

theorem traceOf_tag_same {E : Type} (j : Nat) (evs : List E) : traceOf j (evs.map (fun e => (j, e))) = evs := by
  induction evs with
  | nil => rfl
  | cons e es ih => simp [traceOf] at ih ⊢; exact ih

theorem traceOf_tag_ne {E : Type} (i j : Nat) (h : i ≠ j) (evs : List E) : traceOf j (evs.map (fun e => (i, e))) = [] := by
  induction evs with
  | nil => rfl
  | cons e es ih => simp [traceOf] at ih ⊢; exact ⟨h, ih⟩

theorem inputsOf_cons_same {I : Type} (j : Nat) (x : I) (h : List (Nat × I)) : inputsOf j ((j, x) :: h) = x :: inputsOf j h := by
  simp [inputsOf]

theorem inputsOf_cons_ne {I : Type} (i j : Nat) (hij : i ≠ j) (x : I) (h : List (Nat × I)) : inputsOf j ((i, x) :: h) = inputsOf j h := by
  simp [inputsOf, hij]

theorem stepAt_same {S I E : Type} (step : S → I → S × List E) (net : List S) (i : Nat) (x : I) (s : S) (hs : net[i]? = some s) :
    stepAt step net i x = (net.set i (step s x).1, (step s x).2) := by
  simp [stepAt, hs]

theorem stepAt_other {S I E : Type} (step : S → I → S × List E) (net : List S) (i j : Nat) (x : I) (hij : i ≠ j) :
    (stepAt step net i x).1[j]? = net[j]? := by
  unfold stepAt
  cases h : net[i]? with
  | none => rfl
  | some s => simp [List.getElem?_set_ne hij]

theorem stepAt_length {S I E : Type} (step : S → I → S × List E) (net : List S) (i : Nat) (x : I) :
    (stepAt step net i x).1.length = net.length := by
  unfold stepAt
  cases h : net[i]? with
  | none => rfl
  | some s => simp

/-- the projection of a network history on one connection is that connection's own run on its own inputs -/
theorem run_proj {S I E : Type} (step : S → I → S × List E) (h : List (Nat × I)) :
    ∀ (net : List S) (j : Nat) (s : S), net[j]? = some s →
      traceOf j (runNet step net h).2 = (runOne step s (inputsOf j h)).2 ∧
      (runNet step net h).1[j]? = some (runOne step s (inputsOf j h)).1 := by
  induction h with
  | nil => intro net j s hs; simp [runNet, runOne, inputsOf, traceOf, hs]
  | cons a h ih =>
    intro net j s hs
    obtain ⟨i, x⟩ := a
    by_cases hij : i = j
    · subst hij
      have hlt : i < net.length := by
        rcases List.getElem?_eq_some_iff.mp hs with ⟨hl, _⟩; exact hl
      have h2 : (net.set i (step s x).1)[i]? = some (step s x).1 := by simp [hlt]
      have r := ih (net.set i (step s x).1) i (step s x).1 h2
      rw [inputsOf_cons_same]
      simp only [runNet, runOne, stepAt_same step net i x s hs, traceOf_append, traceOf_tag_same]
      exact ⟨by rw [r.1], r.2⟩
    · have h2 : (stepAt step net i x).1[j]? = some s := by rw [stepAt_other step net i j x hij]; exact hs
      have r := ih (stepAt step net i x).1 j s h2
      rw [inputsOf_cons_ne i j hij]
      simp only [runNet, traceOf_append, traceOf_tag_ne i j hij, List.nil_append]
      exact r

theorem inputsOf_without {I : Type} (j o : Nat) (hjo : j ≠ o) (h : List (Nat × I)) : inputsOf j (without o h) = inputsOf j h := by
  induction h with
  | nil => rfl
  | cons a h ih =>
    obtain ⟨i, x⟩ := a
    by_cases hio : i = o
    · subst hio
      have : i ≠ j := fun e => hjo e.symm
      simp [inputsOf, without, this] at ih ⊢; exact ih
    · by_cases hij : i = j
      · subst hij; simp [inputsOf, without, hio] at ih ⊢; exact ih
      · simp [inputsOf, without, hio, hij] at ih ⊢; exact ih

end Pox.LiveNet
