import PoxModel.Proofs.ActionsSer
/-!
# C12, part 2: on well-formed frames the handlers (`handle1`) are the declarative field rewrites (`Spec.rewrite1`) and keep
the frame well-formed.  Core only.
-/
namespace Pox.Actions
open Pox Pox.Packet Pox.Checksum Pox.PktLayout Pox.Actions.Spec

/-- action arguments as the OpenFlow wire format delivers them (6-byte addresses, 32-bit IPv4 addresses,
16-bit ports; the ToS octet is reduced to 8 bits); VLAN arguments need no condition, they are reduced to the field width -/
def ArgsOk : Action → Prop
  | .setDlSrc a => a.length = 6
  | .setDlDst a => a.length = 6
  | .setNwSrc a => a < 4294967296
  | .setNwDst a => a < 4294967296
  | .setTpSrc p => p < 65536
  | .setTpDst p => p < 65536
  | _ => True

/-- the pseudo-header context only matters through its field ranges -/
theorem WFp_ctx (n : Pkt) (c c' : IPCtx) (hc' : c'.Fits) (h : WFp (some c) n) : WFp (some c') n := by
  cases n <;> simp only [WFp] at h ⊢ <;> try exact h
  · exact ⟨⟨c', rfl, hc'⟩, h.2⟩
  · exact ⟨⟨c', rfl, hc'⟩, h.2⟩

theorem WFp_not_nil {ctx : Option IPCtx} (h : WFp ctx .nil) : False := by simp [WFp] at h

theorem updIp_wf (g : IPv4 → Pkt → Pkt) (hg : ∀ h n, WFp none (.ipv4 h n) → WFp none (g h n) ∧ plen (g h n) = plen (.ipv4 h n))
    (p : Pkt) (hw : WFp none p) : WFp none (updIp g p) := by
  unfold updIp
  split
  · simp only [WFp] at hw ⊢
    exact ⟨hw.1, (hg _ _ hw.2).1⟩
  · exact (hg _ _ hw).1
  · exact hw

theorem updTp_wf (gu : Udp → Udp) (gt : Tcp → Tcp) (hu : ∀ u, u.Fits → (gu u).Fits)
    (ht : ∀ t, t.Fits → (gt t).Fits ∧ (gt t).opts = t.opts) (ctx : Option IPCtx) (n : Pkt) (hw : WFp ctx n) :
    WFp ctx (updTp gu gt n) ∧ plen (updTp gu gt n) = plen n := by
  unfold updTp
  split
  · simp only [WFp] at hw ⊢
    exact ⟨⟨hw.1, hu _ hw.2.1, hw.2.2⟩, by simp [plen]⟩
  · simp only [WFp] at hw ⊢
    obtain ⟨h1, h2, h3, h4, h5, h6⟩ := hw
    obtain ⟨f1, f2⟩ := ht _ h2
    refine ⟨⟨h1, f1, ?_, ?_, h5, ?_⟩, ?_⟩
    · rw [f2]; exact h3
    · rw [f2]; exact h4
    · rw [f2]; simpa [plen] using h6
    · simp [plen, f2]
  · exact ⟨hw, rfl⟩

theorem ipSet_wf (g : IPv4 → IPv4) (hg : ∀ h, h.Fits → (g h).Fits ∧ (g h).hl = h.hl) (h : IPv4) (n : Pkt)
    (hw : WFp none (.ipv4 h n)) : WFp none (.ipv4 (g h) n) ∧ plen (.ipv4 (g h) n) = plen (.ipv4 h n) := by
  simp only [WFp] at hw ⊢
  obtain ⟨hf, hn, hsz⟩ := hw
  obtain ⟨f1, f2⟩ := hg h hf
  refine ⟨⟨f1, WFp_ctx n _ _ ⟨f1.src, f1.dst, f1.proto⟩ hn, ?_⟩, by simp [plen, f2]⟩
  rw [f2]; exact hsz

theorem setTag_wf (g : Vlan → Vlan) (hg : ∀ v, v.Fits → (g v).Fits ∧ (g v).ethType = v.ethType) (f : Frame) (hw : f.WF) :
    setVlanField g f = .ok (setTag g f) ∧ (setTag g f).WF := by
  obtain ⟨he, hp⟩ := hw
  cases hpay : f.pay with
  | vlan v n =>
    rw [hpay] at hp
    simp only [WFp] at hp
    refine ⟨?_, ?_⟩
    · simp [setVlanField, isVlanObj, updVlan, setTag, hpay, bind, Except.bind, pure, Except.pure]
    · simp only [setTag, hpay, Frame.WF, WFp]
      exact ⟨he, (hg v hp.1).1, hp.2⟩
  | nil => rw [hpay] at hp; exact absurd hp (by simp [WFp])
  | unparsed c r => rw [hpay] at hp; exact absurd hp (by simp [WFp])
  | unmodelled c r => rw [hpay] at hp; exact absurd hp (by simp [WFp])
  | eth h n => rw [hpay] at hp; exact absurd hp (by simp [WFp])
  | _ =>
    rw [hpay] at hp
    have h0 : (⟨0, 0, 0, f.eth.type⟩ : Vlan).Fits := ⟨by simp, by simp, by simp, he.type⟩
    refine ⟨?_, ?_⟩
    · simp [setVlanField, isVlanObj, pushVlan, updVlan, setTag, hpay, bind, Except.bind, pure, Except.pure]
    · simp only [setTag, hpay, Frame.WF, WFp]
      exact ⟨⟨he.dst, he.src, by simp⟩, (hg _ h0).1, hp⟩

theorem popTag_wf (f : Frame) (hw : f.WF) : stripVlan {} f = .ok (popTag f) ∧ (popTag f).WF := by
  obtain ⟨he, hp⟩ := hw
  cases hpay : f.pay with
  | vlan v n =>
    rw [hpay] at hp
    simp only [WFp] at hp
    have hn : n ≠ .nil := by intro e; subst e; exact WFp_not_nil hp.2
    refine ⟨?_, ?_⟩
    · cases n <;> simp [stripVlan, popTag, hpay] at hn ⊢
    · simp only [popTag, hpay, Frame.WF]
      exact ⟨⟨he.dst, he.src, hp.1.ethType⟩, hp.2⟩
  | unparsed c r => rw [hpay] at hp; exact absurd hp (by simp [WFp])
  | _ =>
    refine ⟨?_, ?_⟩
    · cases f; simp_all [stripVlan, popTag]
    · simp only [popTag, hpay, Frame.WF]
      exact ⟨he, by rw [← hpay]; exact hp⟩

/-- the specification's own header traversal reaches the same header as the code's -/
theorem atL3_ifIpv4 (g : IPv4 → Pkt → Pkt) (p : Pkt) : atL3 (ifIpv4 g) p = updIp g p := by
  cases p with
  | vlan v n => cases n <;> rfl
  | _ => rfl

theorem ifL4_eq (gu : Udp → Udp) (gt : Tcp → Tcp) (p : Pkt) : ifL4 gu gt p = updTp gu gt p := by
  cases p <;> rfl

theorem ifL4_eq' (gu : Udp → Udp) (gt : Tcp → Tcp) : ifL4 gu gt = updTp gu gt := funext (ifL4_eq gu gt)

def tpSrcG (p : Nat) : IPv4 → Pkt → Pkt :=
  fun h n => .ipv4 h (updTp (fun u => { u with sport := p }) (fun t => { t with sport := p }) n)
def tpDstG (p : Nat) : IPv4 → Pkt → Pkt :=
  fun h n => .ipv4 h (updTp (fun u => { u with dport := p }) (fun t => { t with dport := p }) n)

/-- **handlers = field rewrites** on well-formed frames, and the result is well-formed again -/
theorem handle1_ok (a : Action) (f : Frame) (hw : f.WF) (ha : ArgsOk a) :
    handle1 {} a f = .ok (rewrite1 a f) ∧ (rewrite1 a f).WF := by
  cases a with
  | setVlanVid vid =>
    exact setTag_wf (fun v => { v with id := vid % 4096 })
      (fun v hv => ⟨⟨hv.pcp, hv.cfi, Nat.mod_lt vid (show 0 < 4096 by omega), hv.ethType⟩, rfl⟩) f hw
  | setVlanPcp pcp =>
    exact setTag_wf (fun v => { v with pcp := pcp % 8 })
      (fun v hv => ⟨⟨Nat.mod_lt pcp (show 0 < 8 by omega), hv.cfi, hv.id, hv.ethType⟩, rfl⟩) f hw
  | stripVlan => exact popTag_wf f hw
  | setDlSrc a => exact ⟨rfl, ⟨hw.1.dst, ha, hw.1.type⟩, hw.2⟩
  | setDlDst a => exact ⟨rfl, ⟨ha, hw.1.src, hw.1.type⟩, hw.2⟩
  | setNwSrc a =>
    have e : rewrite1 (.setNwSrc a) f = { f with pay := updIp (fun h n => .ipv4 { h with src := a } n) f.pay } := by
      simp only [rewrite1, setIp, atL3_ifIpv4]
    rw [e]
    refine ⟨rfl, hw.1, updIp_wf _ (fun h n => ipSet_wf (fun h => { h with src := a }) ?_ h n) _ hw.2⟩
    intro h hf
    exact ⟨⟨hf.v, hf.hl5, hf.hl, hf.tos, hf.id, hf.flags, hf.frag, hf.ttl, hf.proto, ha, hf.dst, hf.opts⟩, rfl⟩
  | setNwDst a =>
    have e : rewrite1 (.setNwDst a) f = { f with pay := updIp (fun h n => .ipv4 { h with dst := a } n) f.pay } := by
      simp only [rewrite1, setIp, atL3_ifIpv4]
    rw [e]
    refine ⟨rfl, hw.1, updIp_wf _ (fun h n => ipSet_wf (fun h => { h with dst := a }) ?_ h n) _ hw.2⟩
    intro h hf
    exact ⟨⟨hf.v, hf.hl5, hf.hl, hf.tos, hf.id, hf.flags, hf.frag, hf.ttl, hf.proto, hf.src, ha, hf.opts⟩, rfl⟩
  | setNwTos t =>
    have et : ∀ x : Nat, 4 * (t / 4 % 64) + x % 4 = x % 4 + t % 256 / 4 * 4 := by intro x; omega
    have e : rewrite1 (.setNwTos t) f =
        { f with pay := updIp (fun h n => .ipv4 { h with tos := h.tos % 4 + t % 256 / 4 * 4 } n) f.pay } := by
      simp only [rewrite1, setIp, atL3_ifIpv4, et]
    rw [e]
    refine ⟨rfl, hw.1, updIp_wf _ (fun h n => ipSet_wf (fun h => { h with tos := h.tos % 4 + t % 256 / 4 * 4 }) ?_ h n) _ hw.2⟩
    intro h hf
    exact ⟨⟨hf.v, hf.hl5, hf.hl, by show h.tos % 4 + t % 256 / 4 * 4 < 256; omega, hf.id, hf.flags, hf.frag, hf.ttl, hf.proto,
      hf.src, hf.dst, hf.opts⟩, rfl⟩
  | setTpSrc p =>
    have e : rewrite1 (.setTpSrc p) f = { f with pay := updIp (tpSrcG p) f.pay } := by
      simp only [rewrite1, setL4, atL3_ifIpv4, ifL4_eq]; rfl
    rw [e]
    refine ⟨rfl, hw.1, updIp_wf _ ?_ _ hw.2⟩
    intro h n hwn
    simp only [WFp] at hwn ⊢
    obtain ⟨h1, h2⟩ := updTp_wf (fun u => { u with sport := p }) (fun t => { t with sport := p })
      (fun u hu => ⟨ha, hu.dport⟩) (fun t ht => ⟨⟨ha, ht.dport, ht.seq, ht.ack, ht.res, ht.flags, ht.win, ht.urg⟩, rfl⟩) _ n hwn.2.1
    exact ⟨⟨hwn.1, h1, by rw [h2]; exact hwn.2.2⟩, by simp [plen, h2, tpSrcG, tpDstG]⟩
  | setTpDst p =>
    have e : rewrite1 (.setTpDst p) f = { f with pay := updIp (tpDstG p) f.pay } := by
      simp only [rewrite1, setL4, atL3_ifIpv4, ifL4_eq]; rfl
    rw [e]
    refine ⟨rfl, hw.1, updIp_wf _ ?_ _ hw.2⟩
    intro h n hwn
    simp only [WFp] at hwn ⊢
    obtain ⟨h1, h2⟩ := updTp_wf (fun u => { u with dport := p }) (fun t => { t with dport := p })
      (fun u hu => ⟨hu.sport, ha⟩) (fun t ht => ⟨⟨ht.sport, ha, ht.seq, ht.ack, ht.res, ht.flags, ht.win, ht.urg⟩, rfl⟩) _ n hwn.2.1
    exact ⟨⟨hwn.1, h1, by rw [h2]; exact hwn.2.2⟩, by simp [plen, h2, tpSrcG, tpDstG]⟩
  | output port ml => exact ⟨rfl, hw⟩
  | enqueue port q => exact ⟨rfl, hw⟩
  | vendor v => exact ⟨rfl, hw⟩

end Pox.Actions
