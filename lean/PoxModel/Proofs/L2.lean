import PoxModel.Model.L2
import PoxModel.Proofs.BufPool
/-! Lemmas for C11.  Part 1: tables, address table, buffer round trip.  Part 2: `arrive` equals a message-free, buffer-free
reference function (`refArrive`) in every state satisfying the invariant.  Part 3: the invariant is preserved. -/
namespace Pox.L2
open Pox.BufPool

/-! ## Part 1 -/

def AllFree {F : Type} (P : Pool F) : Prop := ∀ id, live P id = none

theorem pool_cycle {F : Type} (P : Pool F) (f : F) (h : AllFree P) :
    alloc P f = (P, none) ∨
    ∃ P' id P'', alloc P f = (P', some id) ∧ use P' id = (P'', some f) ∧ AllFree P'' := by
  cases ha : alloc P f with
  | mk P' bid =>
    cases bid with
    | none =>
      left
      have := (alloc_none P f (by rw [ha])).1
      rw [ha] at this; simp only at this; rw [this]
    | some id =>
      right
      obtain ⟨_, f2, f3⟩ := alloc_fresh P f id (by rw [ha])
      rw [ha] at f2 f3; simp only at f2 f3
      obtain ⟨u1, _, u3⟩ := use_spec P' id
      cases hu : use P' id with
      | mk P'' r =>
        rw [hu] at u1 u3; simp only at u1 u3
        rw [f2] at u1; subst u1
        obtain ⟨v1, v2⟩ := u3 f f2
        refine ⟨P', id, P'', rfl, hu, ?_⟩
        intro j
        by_cases hj : j = id
        · subst hj; exact v1
        · rw [v2 j hj, f3 j hj]; exact h j

theorem stored_zero_of_allFree {F : Type} (P : Pool F) (h : AllFree P) : stored P = 0 := by
  unfold stored
  rw [List.length_eq_zero_iff, List.filter_eq_nil_iff]
  intro a ha
  obtain ⟨i, hi, hget⟩ := List.getElem_of_mem ha
  have := h (i + 1)
  simp only [live, Nat.add_eq_zero_iff, Nat.one_ne_zero, and_false, if_false, Nat.add_sub_cancel,
    List.getD_eq_getElem?_getD, List.getElem?_eq_getElem hi, Option.getD_some, hget] at this
  simp [this]

theorem allFree_init (max : Nat) {F : Type} : AllFree ({ slots := [], max := max } : Pool F) := by
  intro id; simp [live, List.getD_eq_getElem?_getD]

/-! address table -/
theorem macGet_mem {l : List (Nat × Nat)} {a : Nat} {v : Nat} (h : macGet l a = some v) : (a, v) ∈ l := by
  induction l with
  | nil => simp [macGet] at h
  | cons e r ih =>
    obtain ⟨k, w⟩ := e
    simp only [macGet] at h
    split at h
    · rename_i hk; cases h; subst hk; exact List.mem_cons_self
    · exact List.mem_cons_of_mem _ (ih h)

theorem macGet_ne_none_of_mem {l : List (Nat × Nat)} {a : Nat} {v : Nat} (h : (a, v) ∈ l) : macGet l a ≠ none := by
  induction l with
  | nil => cases h
  | cons e r ih =>
    obtain ⟨k, w⟩ := e
    simp only [macGet]
    split
    · simp
    · rename_i hk
      rcases List.mem_cons.mp h with h1 | h1
      · cases h1; exact absurd rfl hk
      · exact ih h1

theorem macGet_learn_ne_none {l : List (Nat × Nat)} {a s : Nat} {p : Nat} (h : macGet l a ≠ none) :
    macGet (learn l s p) a ≠ none := by
  simp only [learn, macGet]; split
  · simp
  · exact h

theorem macGet_learn_self (l : List (Nat × Nat)) (s : Nat) (p : Nat) : macGet (learn l s p) s = some p := by
  simp [learn, macGet]

theorem macGet_learn_other {l : List (Nat × Nat)} {a s : Nat} {p : Nat} (h : a ≠ s) :
    macGet (learn l s p) a = macGet l a := by
  simp [learn, macGet, h]

/-! flow table -/
theorem lookup_some {t : List Flow} {p : Nat} {x : Frame} {fl : Flow} (h : lookup t p x = some fl) :
    fl ∈ t ∧ fl.matchesPkt p x := by
  induction t with
  | nil => simp [lookup] at h
  | cons e r ih =>
    simp only [lookup] at h
    split at h
    · rename_i hm; cases h; exact ⟨List.mem_cons_self, hm⟩
    · exact ⟨List.mem_cons_of_mem _ (ih h).1, (ih h).2⟩

theorem lookup_none {t : List Flow} {p : Nat} {x : Frame} :
    lookup t p x = none ↔ ∀ e ∈ t, ¬ e.matchesPkt p x := by
  induction t with
  | nil => simp [lookup]
  | cons e r ih =>
    simp only [lookup, List.mem_cons, forall_eq_or_imp]
    split
    · rename_i hm; simp [hm]
    · rename_i hm; simp [hm, ih]

theorem lookup_unique {t : List Flow} {p : Nat} {x : Frame} {f : Flow}
    (hu : ∀ e ∈ t, e.matchesPkt p x → e = f) (hf : f ∈ t) (hm : f.matchesPkt p x) : lookup t p x = some f := by
  induction t with
  | nil => cases hf
  | cons e r ih =>
    simp only [lookup]
    split
    · rename_i he; rw [hu e List.mem_cons_self he]
    · rename_i he
      rcases List.mem_cons.mp hf with h1 | h1
      · subst h1; exact absurd hm he
      · exact ih (fun e' he' => hu e' (List.mem_cons_of_mem _ he')) h1

theorem mem_insertFlow {t : List Flow} {f e : Flow} : e ∈ insertFlow t f ↔ e = f ∨ e ∈ t := by
  induction t with
  | nil => simp [insertFlow]
  | cons a r ih =>
    simp only [insertFlow]
    split
    · simp
    · simp only [List.mem_cons, ih]
      constructor
      · rintro (h | h | h)
        · exact .inr (.inl h)
        · exact .inl h
        · exact .inr (.inr h)
      · rintro (h | h | h)
        · exact .inr (.inl h)
        · exact .inl h
        · exact .inr (.inr h)

theorem mem_addFlow {t : List Flow} {f e : Flow} (h : e ∈ addFlow t f) : e = f ∨ e ∈ t := by
  unfold addFlow at h
  rcases mem_insertFlow.mp h with h1 | h1
  · exact .inl h1
  · exact .inr (List.mem_filter.mp h1).1

theorem self_mem_addFlow (t : List Flow) (f : Flow) : f ∈ addFlow t f :=
  mem_insertFlow.mpr (.inl rfl)

/-- after a miss, the entry just added is the one the frame hits -/
theorem lookup_addFlow_of_miss {t : List Flow} {p : Nat} {x : Frame} {f : Flow}
    (hmiss : lookup t p x = none) (hm : f.matchesPkt p x) : lookup (addFlow t f) p x = some f := by
  apply lookup_unique _ (self_mem_addFlow t f) hm
  intro e he hme
  rcases mem_addFlow he with h1 | h1
  · exact h1
  · exact absurd hme (lookup_none.mp hmiss e h1)

theorem touch_of_fresh {t : List Flow} {p : Nat} {x : Frame} {f : Flow} {now : Nat}
    (h : lookup t p x = some f) (hn : f.touched = now) : touch t p x now = t := by
  induction t with
  | nil => rfl
  | cons e r ih =>
    simp only [lookup] at h
    simp only [touch]
    split
    · rename_i he
      rw [if_pos he] at h; cases h
      subst hn; rfl
    · rename_i he
      rw [if_neg he] at h
      rw [ih h]

theorem mem_touch {t : List Flow} {p : Nat} {x : Frame} {now : Nat} {e : Flow} (h : e ∈ touch t p x now) :
    ∃ e0 ∈ t, e = e0 ∨ e = { e0 with touched := now } := by
  induction t with
  | nil => simp [touch] at h
  | cons a r ih =>
    simp only [touch] at h
    split at h
    · rcases List.mem_cons.mp h with h1 | h1
      · exact ⟨a, List.mem_cons_self, .inr h1⟩
      · exact ⟨e, List.mem_cons_of_mem _ h1, .inl rfl⟩
    · rcases List.mem_cons.mp h with h1 | h1
      · exact ⟨a, List.mem_cons_self, .inl h1⟩
      · obtain ⟨e0, h0, h2⟩ := ih h1
        exact ⟨e0, List.mem_cons_of_mem _ h0, h2⟩

/-! events -/
theorem deliveries_map_deliver (l : List Nat) (x : Frame) :
    deliveries (l.map fun q => Ev.deliver q x) = l.map fun q => (q, x) := by
  induction l with
  | nil => rfl
  | cons a r ih => simp [deliveries, ih]

theorem mem_ports {s : Sw} {p : Nat} : p ∈ s.ports ↔ 1 ≤ p ∧ p ≤ s.nports := by
  rw [Sw.ports, List.mem_range'_1]; omega

/-! ## Part 2: the reference function -/

def outEvs (o : Option Nat) (x : Frame) : List Ev :=
  match o with
  | some q => [.deliver q x]
  | none => []

def dropFlow (dip : Bool) (now p : Nat) (x : Frame) : Flow :=
  { inPort := if dip = true then some p else none, m := x.hdr, out := none, idle := 10, hard := 10, created := now, touched := now }
def fwdFlow (now p : Nat) (x : Frame) (q : Nat) : Flow :=
  { inPort := some p, m := x.hdr, out := some q, idle := 10, hard := 30, created := now, touched := now }

def verdictEvs (s : Sw) (p : Nat) (x : Frame) : Verdict → List Ev
  | .filtered => []
  | .samePort => []
  | .flood => (s.ports.filter (· ≠ p)).map fun q => .deliver q x
  | .forward q => [.deliver q x]

/-- the table once the entries of a moved source have been deleted (repaired component only) -/
def delTable (s : Sw) (p : Nat) (x : Frame) : List Flow :=
  if s.relearn = true ∧ moved s.mac x.src p = true then s.table.filter (fun e => e.m.src ≠ x.src) else s.table

theorem delTable_def (s : Sw) (p : Nat) (x : Frame) : delTable s p x =
    if s.relearn = true ∧ moved s.mac x.src p = true then s.table.filter (fun e => e.m.src ≠ x.src) else s.table := rfl

theorem delTable_sub {s : Sw} {p : Nat} {x : Frame} {fl : Flow} (h : fl ∈ delTable s p x) : fl ∈ s.table := by
  unfold delTable at h; split at h
  · exact (List.mem_filter.mp h).1
  · exact h

def verdictTable (t : List Flow) (dip : Bool) (now p : Nat) (x : Frame) : Verdict → List Flow
  | .samePort => addFlow t (dropFlow dip now p x)
  | .forward q => addFlow t (fwdFlow now p x q)
  | _ => t

/-- what an arrival on an existing port does to (table, address table) and which events it produces — no messages, no buffers -/
def refArrive (s : Sw) (now p : Nat) (x : Frame) : List Flow × List (Nat × Nat) × List Ev :=
  match lookup s.table p x with
  | some fl => (touch s.table p x now, s.mac, outEvs fl.out x)
  | none =>
    let mac' := learn s.mac x.src p
    let v := verdict s.transparent mac' p x
    (verdictTable (delTable s p x) s.dropInPort now p x v, mac', .packetIn :: verdictEvs s p x v)

/-- an installed entry, relative to the controller's table and the history -/
def FlowOK (s : Sw) (fl : Flow) : Prop :=
  isMulticast fl.m.dst = false ∧
  (s.transparent = false → fl.m.etype ≠ LLDP_TYPE ∧ isBridgeFiltered fl.m.dst = false) ∧
  macGet s.mac fl.m.src ≠ none ∧
  macGet s.mac fl.m.dst ≠ none ∧
  ∀ q, fl.out = some q → (fl.m.dst, q) ∈ s.seen ∧ ∃ p, fl.inPort = some p ∧ q ≠ p

structure Inv (s : Sw) : Prop where
  nports_ok : s.nports < OFPP_MAX
  free : AllFree s.pool
  mac_seen : ∀ e ∈ s.mac, e ∈ s.seen
  seen_ok : ∀ e ∈ s.seen, e.2 ∈ s.ports ∧ macGet s.mac e.1 ≠ none
  flows : ∀ fl ∈ s.table, FlowOK s fl

/-- what `arrive` leaves unchanged, the ghost update, and the buffers -/
structure Frame' (s s' : Sw) (p : Nat) (x : Frame) : Prop where
  nports : s'.nports = s.nports
  transparent : s'.transparent = s.transparent
  seen : s'.seen = (x.src, p) :: s.seen
  free : AllFree s'.pool

theorem realSend_ok {s : Sw} {p q : Nat} (x : Frame) (hq : q ∈ s.ports) (hne : q ≠ p) :
    realSend s p q x = [.deliver q x] := by
  simp [realSend, hq, hne]

theorem port_lt_max {s : Sw} (h : s.nports < OFPP_MAX) {q : Nat} (hq : q ∈ s.ports) : q < OFPP_MAX := by
  have := (mem_ports.mp hq).2; omega

theorem arrive_hit (s : Sw) (hI : Inv s) (now p : Nat) (x : Frame) (hp : p ∈ s.ports) (fl : Flow)
    (hl : lookup s.table p x = some fl) :
    arrive s now p x =
      ({ s with seen := (x.src, p) :: s.seen, table := touch s.table p x now }, outEvs fl.out x) := by
  obtain ⟨hmem, hmatch⟩ := lookup_some hl
  have hok := hI.flows fl hmem
  have hp1 : p ∈ List.range' 1 s.nports := hp
  simp only [arrive, rxPacket, Sw.ports, if_pos hp1, hl]
  cases ho : fl.out with
  | none => simp [flowActs, ho, doActs, outEvs]
  | some q =>
    obtain ⟨hseen, p', hin, hne⟩ := hok.2.2.2.2 q ho
    have hq : q ∈ s.ports := (hI.seen_ok _ hseen).1
    have hp' : p' = p := by
      rcases hmatch.1 with h | h
      · rw [hin] at h; cases h
      · rw [hin] at h; cases h; rfl
    subst hp'
    have hlt := port_lt_max hI.nports_ok hq
    have hq1 : q ∈ List.range' 1 s.nports := hq
    simp [flowActs, ho, doActs, doAct, outEvs, hlt, realSend, hne, Sw.ports, hq1]


/-- the optional delete in front of the controller's answer only changes the table the answer is applied to -/
theorem rxMsgs_pre (re : Sw → Nat → Frame → Sw × List Ev) (σ : Sw) (now src : Nat) (c : Prop) [Decidable c] (ms : List Msg) :
    rxMsgs re σ now ((if c then [Msg.flowDel src] else []) ++ ms) =
      rxMsgs re { σ with table := if c then σ.table.filter (fun e => e.m.src ≠ src) else σ.table } now ms := by
  by_cases h : c <;> simp [h, rxMsgs, rxMsg]

/-- where the controller sends a known unicast destination is a port that exists and differs from the ingress -/
theorem forward_port_ok (s : Sw) (p : Nat) (x : Frame) (q : Nat)
    (hv : verdict s.transparent (learn s.mac x.src p) p x = .forward q) :
    q ≠ p ∧ (x.dst, q) ∈ s.mac := by
  unfold verdict at hv
  split at hv
  · cases hv
  · split at hv
    · cases hv
    · split at hv
      · cases hv
      · rename_i q' hget
        split at hv
        · cases hv
        · rename_i hne
          cases hv
          refine ⟨hne, ?_⟩
          have := macGet_mem hget
          simp only [learn, List.mem_cons, Prod.mk.injEq] at this
          rcases this with ⟨_, h2⟩ | h
          · exact absurd h2 hne
          · exact h

theorem arrive_miss (s : Sw) (hI : Inv s) (now p : Nat) (x : Frame) (hp : p ∈ s.ports)
    (hl : lookup s.table p x = none) :
    ∃ P, AllFree P ∧ arrive s now p x =
      ({ s with seen := (x.src, p) :: s.seen, mac := learn s.mac x.src p, pool := P,
                table := verdictTable (delTable s p x) s.dropInPort now p x (verdict s.transparent (learn s.mac x.src p) p x) },
       .packetIn :: verdictEvs s p x (verdict s.transparent (learn s.mac x.src p) p x)) := by
  have hp1 : p ∈ List.range' 1 s.nports := hp
  simp only [arrive, rxPacket, Sw.ports, if_pos hp1, hl, relearnMsgs, rxMsgs_pre]
  simp only [← delTable_def]
  have hl' : lookup (delTable s p x) p x = none :=
    lookup_none.mpr fun e he => lookup_none.mp hl e (delTable_sub he)
  cases hv : verdict s.transparent (learn s.mac x.src p) p x with
  | filtered =>
    rcases pool_cycle s.pool (x, p) hI.free with ha | ⟨P', id, P'', ha, hu, hf⟩
    · refine ⟨s.pool, hI.free, ?_⟩
      simp [ha, reply, rxMsgs, verdictTable, verdictEvs]
    · refine ⟨P'', hf, ?_⟩
      simp [ha, reply, rxMsgs, rxMsg, rxPacketOut, fromBuffer, hu, doActs, verdictTable, verdictEvs]
  | flood =>
    rcases pool_cycle s.pool (x, p) hI.free with ha | ⟨P', id, P'', ha, hu, hf⟩
    · refine ⟨s.pool, hI.free, ?_⟩
      simp [ha, reply, resend, rxMsgs, rxMsg, rxPacketOut, doActs, doAct, verdictTable, verdictEvs, Sw.ports]
    · refine ⟨P'', hf, ?_⟩
      simp [ha, reply, resend, rxMsgs, rxMsg, rxPacketOut, fromBuffer, hu, doActs, doAct, verdictTable, verdictEvs, Sw.ports]
  | samePort =>
    rcases pool_cycle s.pool (x, p) hI.free with ha | ⟨P', id, P'', ha, hu, hf⟩
    · refine ⟨s.pool, hI.free, ?_⟩
      simp [ha, reply, rxMsgs, rxMsg, rxFlowMod, actOut, verdictTable, verdictEvs, dropFlow]
    · refine ⟨P'', hf, ?_⟩
      simp [ha, reply, rxMsgs, rxMsg, rxFlowMod, fromBuffer, hu, doActs, actOut, verdictTable, verdictEvs, dropFlow]
  | forward q =>
    obtain ⟨hne, hmac⟩ := forward_port_ok s p x q hv
    have hq : q ∈ s.ports := (hI.seen_ok _ (hI.mac_seen _ hmac)).1
    have hq1 : q ∈ List.range' 1 s.nports := hq
    have hlt := port_lt_max hI.nports_ok hq
    rcases pool_cycle s.pool (x, p) hI.free with ha | ⟨P', id, P'', ha, hu, hf⟩
    · refine ⟨s.pool, hI.free, ?_⟩
      have hm : (fwdFlow now p x q).matchesPkt p x := by simp [Flow.matchesPkt, fwdFlow]
      have hl2 := lookup_addFlow_of_miss hl' hm
      have ht := touch_of_fresh hl2 (by simp [fwdFlow] : (fwdFlow now p x q).touched = now)
      simp only [fwdFlow] at hl2 ht
      have hp2 : 1 ≤ p ∧ p < 1 + s.nports := List.mem_range'_1.mp hp1
      simp [ha, reply, flowModPack, rxMsgs, rxMsg, rxFlowMod, rxPacketOut, actOut, doActs, doAct, Sw.ports, hp2, hl2, ht,
        flowActs, hlt, realSend, hne, hq1, verdictTable, verdictEvs, fwdFlow]
    · refine ⟨P'', hf, ?_⟩
      simp [ha, reply, flowModPack, rxMsgs, rxMsg, rxFlowMod, fromBuffer, hu, actOut, doActs, doAct, hlt, realSend, hne, Sw.ports, hq1,
        verdictTable, verdictEvs, fwdFlow]


/-! ## Part 3: the invariant is preserved -/

def Filtered (tr : Bool) (x : Frame) : Prop := tr = false ∧ (x.etype = LLDP_TYPE ∨ isBridgeFiltered x.dst = true)
instance (tr : Bool) (x : Frame) : Decidable (Filtered tr x) := by unfold Filtered; infer_instance

theorem verdict_cases (tr : Bool) (mac : List (Nat × Nat)) (p : Nat) (x : Frame) :
    (Filtered tr x ∧ verdict tr mac p x = .filtered) ∨
    (¬ Filtered tr x ∧
      (((isMulticast x.dst = true ∨ macGet mac x.dst = none) ∧ verdict tr mac p x = .flood) ∨
       (isMulticast x.dst = false ∧ ∃ q, macGet mac x.dst = some q ∧
          ((q = p ∧ verdict tr mac p x = .samePort) ∨ (q ≠ p ∧ verdict tr mac p x = .forward q))))) := by
  unfold verdict Filtered
  by_cases hf : tr = false ∧ (x.etype = LLDP_TYPE ∨ isBridgeFiltered x.dst = true)
  · left; simp [hf]
  · right
    refine ⟨hf, ?_⟩
    rw [if_neg hf]
    by_cases hm : isMulticast x.dst = true
    · left; simp [hm]
    · have hm' : isMulticast x.dst = false := by simpa using hm
      rw [if_neg hm]
      cases hg : macGet mac x.dst with
      | none => left; simp
      | some q =>
        right
        refine ⟨hm', q, rfl, ?_⟩
        by_cases hq : q = p
        · left; simp [hq]
        · right; simp [hq]

theorem flowOK_mono {s s' : Sw} {fl : Flow} (ht : s'.transparent = s.transparent)
    (hmac : ∀ a, macGet s.mac a ≠ none → macGet s'.mac a ≠ none) (hseen : ∀ e ∈ s.seen, e ∈ s'.seen)
    (h : FlowOK s fl) : FlowOK s' fl := by
  obtain ⟨h1, h2, h3, h4, h5⟩ := h
  refine ⟨h1, ?_, hmac _ h3, hmac _ h4, ?_⟩
  · rw [ht]; exact h2
  · intro q hq
    obtain ⟨a, b⟩ := h5 q hq
    exact ⟨hseen _ a, b⟩

theorem arrive_inv (s : Sw) (hI : Inv s) (now p : Nat) (x : Frame) : Inv (arrive s now p x).1 := by
  by_cases hp : p ∈ s.ports
  · cases hl : lookup s.table p x with
    | some fl =>
      rw [arrive_hit s hI now p x hp fl hl]
      obtain ⟨hmem, hmatch⟩ := lookup_some hl
      have hok := hI.flows fl hmem
      refine ⟨hI.nports_ok, hI.free, ?_, ?_, ?_⟩
      · intro e he; exact List.mem_cons_of_mem _ (hI.mac_seen e he)
      · intro e he
        rcases List.mem_cons.mp he with h | h
        · subst h
          refine ⟨hp, ?_⟩
          have : fl.m.src = x.src := by rw [hmatch.2]; rfl
          rw [← this]; exact hok.2.2.1
        · exact hI.seen_ok e h
      · intro fl' hfl'
        obtain ⟨e0, h0, h1⟩ := mem_touch hfl'
        have hk := hI.flows e0 h0
        have hk' : FlowOK { s with seen := (x.src, p) :: s.seen, table := touch s.table p x now } e0 :=
          flowOK_mono (s := s) rfl (fun _ h => h) (fun e he => List.mem_cons_of_mem _ he) hk
        rcases h1 with h1 | h1
        · rw [h1]; exact hk'
        · rw [h1]; exact hk'
    | none =>
      obtain ⟨P, hP, he⟩ := arrive_miss s hI now p x hp hl
      rw [he]
      have hmono : ∀ fl, FlowOK s fl →
          FlowOK { s with seen := (x.src, p) :: s.seen, mac := learn s.mac x.src p, pool := P,
                          table := verdictTable (delTable s p x) s.dropInPort now p x (verdict s.transparent (learn s.mac x.src p) p x) } fl :=
        fun fl h => flowOK_mono (s := s) rfl (fun _ h => macGet_learn_ne_none h) (fun e he => List.mem_cons_of_mem _ he) h
      refine ⟨hI.nports_ok, hP, ?_, ?_, ?_⟩
      · intro e he
        rcases List.mem_cons.mp he with h | h
        · subst h; exact List.mem_cons_self
        · exact List.mem_cons_of_mem _ (hI.mac_seen e h)
      · intro e he
        rcases List.mem_cons.mp he with h | h
        · subst h; exact ⟨hp, by simp [macGet_learn_self]⟩
        · exact ⟨(hI.seen_ok e h).1, macGet_learn_ne_none (hI.seen_ok e h).2⟩
      · intro fl hfl
        simp only at hfl
        rcases verdict_cases s.transparent (learn s.mac x.src p) p x with ⟨_, hv⟩ | ⟨hnf, ⟨_, hv⟩ | ⟨hu, q, hg, ⟨hq, hv⟩ | ⟨hq, hv⟩⟩⟩
        · rw [hv] at hfl; exact hmono fl (hI.flows fl (delTable_sub hfl))
        · rw [hv] at hfl; exact hmono fl (hI.flows fl (delTable_sub hfl))
        · rw [hv] at hfl
          rcases mem_addFlow hfl with h | h
          · subst h
            refine ⟨hu, ?_, by simp [dropFlow, Frame.hdr, macGet_learn_self], by simp [dropFlow, Frame.hdr, hg], by simp [dropFlow]⟩
            intro htr
            simp only [Filtered, not_and, not_or] at hnf
            have := hnf htr
            simpa [dropFlow, Frame.hdr] using this
          · exact hmono fl (hI.flows fl (delTable_sub h))
        · rw [hv] at hfl
          rcases mem_addFlow hfl with h | h
          · subst h
            refine ⟨hu, ?_, by simp [fwdFlow, Frame.hdr, macGet_learn_self], by simp [fwdFlow, Frame.hdr, hg], ?_⟩
            · intro htr
              simp only [Filtered, not_and, not_or] at hnf
              have := hnf htr
              simpa [fwdFlow, Frame.hdr] using this
            · intro q' hq'
              simp only [fwdFlow, Option.some.injEq] at hq'
              subst hq'
              have hm := (forward_port_ok s p x q hv).2
              exact ⟨List.mem_cons_of_mem _ (hI.mac_seen _ hm), p, rfl, hq⟩
          · exact hmono fl (hI.flows fl (delTable_sub h))
  · simp only [arrive, if_neg hp]; exact hI

theorem sweep_inv (s : Sw) (hI : Inv s) (now : Nat) : Inv (sweep s now) := by
  refine ⟨hI.nports_ok, hI.free, hI.mac_seen, hI.seen_ok, ?_⟩
  intro fl hfl
  exact hI.flows fl (List.mem_filter.mp hfl).1

theorem init_inv (nports bufs : Nat) (tr : Bool) (h : nports < OFPP_MAX) (rl : Bool := false) (dip : Bool := false) :
    Inv (init nports bufs tr rl dip) := by
  refine ⟨h, allFree_init bufs, ?_, ?_, ?_⟩ <;> simp [init]


/-! ## Part 4: what one arrival delivers -/

def verdictPorts (s : Sw) (p : Nat) : Verdict → List Nat
  | .flood => s.ports.filter (· ≠ p)
  | .forward q => [q]
  | _ => []

/-- output ports of one arrival, read off the table and the controller's decision -/
def refPorts (s : Sw) (p : Nat) (x : Frame) : List Nat :=
  match lookup s.table p x with
  | some fl => fl.out.toList
  | none => verdictPorts s p (verdict s.transparent (learn s.mac x.src p) p x)

theorem arrive_deliveries (s : Sw) (hI : Inv s) (now p : Nat) (x : Frame) (hp : p ∈ s.ports) :
    deliveries (arrive s now p x).2 = (refPorts s p x).map fun q => (q, x) := by
  unfold refPorts
  cases hl : lookup s.table p x with
  | some fl =>
    rw [arrive_hit s hI now p x hp fl hl]
    cases ho : fl.out <;> simp [outEvs, deliveries, ho]
  | none =>
    obtain ⟨P, _, he⟩ := arrive_miss s hI now p x hp hl
    rw [he]
    cases verdict s.transparent (learn s.mac x.src p) p x <;>
      simp [verdictEvs, verdictPorts, deliveries, deliveries_map_deliver]

theorem arrive_outPorts (s : Sw) (hI : Inv s) (now p : Nat) (x : Frame) (hp : p ∈ s.ports) :
    outPorts (arrive s now p x).2 = refPorts s p x := by
  simp only [outPorts, arrive_deliveries s hI now p x hp, List.map_map]
  induction refPorts s p x with
  | nil => rfl
  | cons a r ih => simp [ih]

theorem arrive_bad_port (s : Sw) (now p : Nat) (x : Frame) (hp : p ∉ s.ports) : arrive s now p x = (s, []) := by
  simp [arrive, hp]

theorem arrive_seen (s : Sw) (hI : Inv s) (now p : Nat) (x : Frame) (hp : p ∈ s.ports) :
    (arrive s now p x).1.seen = (x.src, p) :: s.seen := by
  cases hl : lookup s.table p x with
  | some fl => rw [arrive_hit s hI now p x hp fl hl]
  | none => obtain ⟨P, _, he⟩ := arrive_miss s hI now p x hp hl; rw [he]

theorem arrive_mac (s : Sw) (hI : Inv s) (now p : Nat) (x : Frame) (hp : p ∈ s.ports) :
    (arrive s now p x).1.mac = match lookup s.table p x with
      | some _ => s.mac
      | none => learn s.mac x.src p := by
  cases hl : lookup s.table p x with
  | some fl => rw [arrive_hit s hI now p x hp fl hl]
  | none => obtain ⟨P, _, he⟩ := arrive_miss s hI now p x hp hl; rw [he]

theorem mem_seenPorts {s : Sw} {d q : Nat} : q ∈ seenPorts s d ↔ (d, q) ∈ s.seen := by
  simp only [seenPorts, List.mem_map, List.mem_filter, decide_eq_true_eq]
  constructor
  · rintro ⟨⟨a, b⟩, ⟨h1, h2⟩, h3⟩
    simp only at h2 h3; subst h2 h3; exact h1
  · intro h; exact ⟨(d, q), ⟨h, rfl⟩, rfl⟩

theorem seenPorts_cons (s : Sw) (a p d : Nat) (t : List Flow) (m : List (Nat × Nat)) (P : Pool (Frame × Nat)) :
    seenPorts { s with seen := (a, p) :: s.seen, table := t, mac := m, pool := P } d =
      if a = d then p :: seenPorts s d else seenPorts s d := by
  simp only [seenPorts, List.filter_cons]
  by_cases h : a = d <;> simp [h]

theorem macGet_some_of_ne_none {l : List (Nat × Nat)} {a : Nat} (h : macGet l a ≠ none) : ∃ v, macGet l a = some v := by
  cases hg : macGet l a with
  | none => exact absurd hg h
  | some v => exact ⟨v, rfl⟩

/-- an address the controller knows was seen; an address that was seen is known to the controller -/
theorem known_iff_seen {s : Sw} (hI : Inv s) (d : Nat) : macGet s.mac d ≠ none ↔ seenPorts s d ≠ [] := by
  constructor
  · intro h
    obtain ⟨v, hv⟩ := macGet_some_of_ne_none h
    have := mem_seenPorts.mpr (hI.mac_seen _ (macGet_mem hv))
    intro hn; rw [hn] at this; cases this
  · intro h
    obtain ⟨q, hq⟩ := List.exists_mem_of_ne_nil _ h
    exact (hI.seen_ok _ (mem_seenPorts.mp hq)).2

/-- a matching entry forwards to a port that exists, differs from the ingress and has seen the destination -/
theorem hit_port_ok {s : Sw} (hI : Inv s) {p : Nat} {x : Frame} {fl : Flow} (hl : lookup s.table p x = some fl) {q : Nat}
    (hq : fl.out = some q) : q ≠ p ∧ q ∈ s.ports ∧ (x.dst, q) ∈ s.seen := by
  obtain ⟨hmem, hmatch⟩ := lookup_some hl
  obtain ⟨hseen, p', hin, hne⟩ := (hI.flows fl hmem).2.2.2.2 q hq
  have hd : fl.m.dst = x.dst := by rw [hmatch.2]; rfl
  rw [hd] at hseen
  refine ⟨?_, (hI.seen_ok _ hseen).1, hseen⟩
  rcases hmatch.1 with h | h
  · rw [hin] at h; cases h
  · rw [hin] at h; cases h; exact hne


/-! ## Part 5: the flow cache in virtual time -/

/-- every entry carries the timeouts l2_learning gives it: idle 10 s, hard 30 s (forwarding) or 10 s (same-port drop) -/
def Timed (s : Sw) : Prop := ∀ fl ∈ s.table, fl.idle = 10 ∧ (fl.hard = 10 ∨ fl.hard = 30)

theorem arrive_timed (s : Sw) (hI : Inv s) (hT : Timed s) (now p : Nat) (x : Frame) : Timed (arrive s now p x).1 := by
  by_cases hp : p ∈ s.ports
  · cases hl : lookup s.table p x with
    | some fl =>
      rw [arrive_hit s hI now p x hp fl hl]
      intro fl' hfl'
      obtain ⟨e0, h0, h1⟩ := mem_touch hfl'
      rcases h1 with h1 | h1 <;> (rw [h1]; exact hT e0 h0)
    | none =>
      obtain ⟨P, _, he⟩ := arrive_miss s hI now p x hp hl
      rw [he]
      intro fl hfl
      simp only at hfl
      cases hv : verdict s.transparent (learn s.mac x.src p) p x with
      | filtered => rw [hv] at hfl; exact hT fl (delTable_sub hfl)
      | flood => rw [hv] at hfl; exact hT fl (delTable_sub hfl)
      | samePort =>
        rw [hv] at hfl
        rcases mem_addFlow hfl with h | h
        · subst h; simp [dropFlow]
        · exact hT fl (delTable_sub h)
      | forward q =>
        rw [hv] at hfl
        rcases mem_addFlow hfl with h | h
        · subst h; simp [fwdFlow]
        · exact hT fl (delTable_sub h)
  · rw [arrive_bad_port s now p x hp]; exact hT

theorem sweep_timed (s : Sw) (hT : Timed s) (now : Nat) : Timed (sweep s now) :=
  fun fl hfl => hT fl (List.mem_filter.mp hfl).1

/-- right after a sweep no installed entry is older than its hard timeout or idle for longer than its idle timeout -/
theorem sweep_bounds (s : Sw) (hT : Timed s) (now : Nat) :
    ∀ fl ∈ (sweep s now).table, now - fl.touched ≤ 10000 ∧ now - fl.created ≤ 30000 := by
  intro fl hfl
  obtain ⟨hm, hne⟩ := List.mem_filter.mp hfl
  obtain ⟨hi, hh⟩ := hT fl hm
  rcases hh with hh | hh <;>
  · simp [Flow.expired, hi, hh] at hne
    omega


/-- converse of `sweep_bounds`: a sweep removes nothing that has not timed out -/
theorem sweep_keeps (s : Sw) (now : Nat) (fl : Flow) (hm : fl ∈ s.table) (he : fl.expired now = false) :
    fl ∈ (sweep s now).table := by
  simp only [sweep, sweepTable]
  exact List.mem_filter.mpr ⟨hm, by simp [he]⟩

/-- … so the table after a sweep is exactly the unexpired part of the table before -/
theorem mem_sweep_iff (s : Sw) (now : Nat) (fl : Flow) :
    fl ∈ (sweep s now).table ↔ fl ∈ s.table ∧ fl.expired now = false := by
  simp [sweep, sweepTable, List.mem_filter]


end Pox.L2
