import PoxModel.Proofs.DiscoveryFlood
import PoxModel.Proofs.DiscoveryAdj
import PoxModel.Proofs.STreeLoop
/-! "Keeps" (C19): the flood state is right not only right after an op that raised a LinkEvent but after EVERY op of every well-formed
    history — ticks, probe refreshes, rejected probes, ConnectionUp / ConnectionDown without links, empty sweeps included.  For the
    repaired variants (`popFirst`, no `skip`); with `visitAll` the statement covers every connected switch.  Core only. -/
namespace Pox.Discovery
open Pox Pox.STree

/-- what a port does: what the last port_mod on this connection said; a port that has not been sent one floods (OpenFlow default) -/
def flooding (pv : Prev) (k : Nat × Nat) : Bool := (pv.get k).getD true

/-- the flood state is right w.r.t. the present adjacency: for every connected switch that `_update_tree` goes through (every
    connected switch when `va`, else the switches of the tree), every port below `OFPP_MAX` floods iff it is a tree port or an edge port -/
def FloodInv (va : Bool) (s : DState) : Prop :=
  ∃ order t, calcTreeL (keys s.adj) order = .ok t ∧
    ∀ sw ports, s.conns.get sw = some ports → (va = true ∨ sw ∈ treeKeys t) → ∀ p ∈ ports, p < OFPP_MAX →
      flooding s.prev (sw, p) = floodOf (keys s.adj) (treePorts t sw) sw p

/-- every link of the adjacency joins two different, connected switches -/
def LinksOK (s : DState) : Prop :=
  ∀ l ∈ keys s.adj, l.dpid1 ≠ l.dpid2 ∧ (s.conns.get l.dpid1).isSome = true ∧ (s.conns.get l.dpid2).isSome = true

def covers (s' : DState) (o : List Nat) : Prop := ∀ x ∈ switchesOf (keys s'.adj), x ∈ o

/-- what the environment guarantees about one op: ConnectionUp only for a switch that is not connected; a PacketIn only from a
    connected switch, and no cable from a switch to itself; the order handed to `_calc_spanning_tree` enumerates the switches -/
def opOK (v : Variant) (s : DState) : Op → Prop
  | .tick _ => True
  | .up d _ => s.conns.get d = none
  | .down d o => covers (step v s (.down d o)).1 o
  | .probe l o => (s.conns.get l.dpid2).isSome = true ∧ l.dpid1 ≠ l.dpid2 ∧ covers (step v s (.probe l o)).1 o
  | .sweep o => covers (step v s (.sweep o)).1 o

def validOps (v : Variant) : DState → List Op → Prop
  | _, [] => True
  | s, op :: ops => opOK v s op ∧ validOps v (step v s op).1 ops

instance (s' : DState) (o : List Nat) : Decidable (covers s' o) := by unfold covers; infer_instance

instance (v : Variant) (s : DState) (op : Op) : Decidable (opOK v s op) := by
  cases op <;> unfold opOK <;> infer_instance

instance validOpsDec (v : Variant) : (s : DState) → (ops : List Op) → Decidable (validOps v s ops)
  | _, [] => isTrue trivial
  | s, op :: ops => by
    unfold validOps
    exact @instDecidableAnd _ _ _ (validOpsDec v (step v s op).1 ops)

theorem calcTreeL_ok (adj : List Link) (order : List Nat) (hns : ∀ l ∈ adj, l.dpid1 ≠ l.dpid2)
    (hord : ∀ x ∈ switchesOf adj, x ∈ order) : ∃ t, calcTreeL adj order = .ok t := by
  obtain ⟨es, hes, _, hbi, _⟩ := calcEdges_correct adj hns
  obtain ⟨t, ht, _, _⟩ := withPorts_ok adj order es hbi
  exact ⟨t, by rw [calcTreeL_eq adj order hord]; unfold calcTree; rw [hes]; exact ht⟩

theorem isEdgePort_of_no_end (adj : List Link) (d p : Nat) (h : ∀ l ∈ adj, l.dpid1 ≠ d ∧ l.dpid2 ≠ d) :
    isEdgePort adj d p = true := by
  unfold isEdgePort
  rw [Bool.not_eq_true', List.any_eq_false]
  intro l hl
  have := h l hl
  simp [this.1, this.2]

theorem mem_keys_without (adj : List (Link × Nat)) (links : List Link) (l : Link) (h : l ∈ keys (without adj links)) :
    l ∈ keys adj ∧ l ∉ links := (mem_keys_delete adj links l).mp h

theorem good_flooding {adj : List Link} {t : List TEdge} {conns : Conns} {pv : Prev} {sw : Nat} (h : Good adj t conns pv sw)
    (ports : List Nat) (hp : conns.get sw = some ports) (p : Nat) (hpp : p ∈ ports) (hlt : p < OFPP_MAX) :
    flooding pv (sw, p) = floodOf adj (treePorts t sw) sw p := by
  unfold flooding; rw [h ports hp p hpp hlt]; rfl

theorem visited_of (va : Bool) (t : List TEdge) (conns : Conns) (sw : Nat) (ports : List Nat) (hp : conns.get sw = some ports)
    (h : va = true ∨ sw ∈ treeKeys t) : sw ∈ visited va t conns := by
  unfold visited
  cases va with
  | true => simp only [if_true]; exact Conns.mem_keys_of_get conns sw ports hp
  | false =>
    rcases h with c | c
    · cases c
    · simpa using c

/-- after an op that raised a LinkEvent -/
theorem floodInv_of_event (v : Variant) (hp : v.popFirst = true) (hs : v.skip = false) (s : DState) (op : Op)
    (hev : (step v s op).2.events ≠ []) (hl : LinksOK (step v s op).1) (hc : covers (step v s op).1 (orderOf op)) :
    FloodInv v.visitAll (step v s op).1 := by
  obtain ⟨t, ht⟩ := calcTreeL_ok _ (orderOf op) (fun l h => (hl l h).1) hc
  refine ⟨orderOf op, t, ht, ?_⟩
  intro sw ports hpo hvis p hpp hlt
  exact good_flooding (step_rep_flood v hp hs s op hev t ht sw (visited_of _ t _ sw ports hpo hvis)) ports hpo p hpp hlt

theorem linksOK_step (v : Variant) (s : DState) (op : Op) (hl : LinksOK s) (hok : opOK v s op) : LinksOK (step v s op).1 := by
  intro l hlk
  rw [step_adj] at hlk
  cases op with
  | probe l' o =>
    simp only [] at hlk
    have hc : ∀ k, ((step v s (.probe l' o)).1.conns.get k).isSome = (s.conns.get k).isSome := fun k => step_conns v s _ k
    rw [hc, hc]
    by_cases ha : accepts s l'
    · rw [if_pos ha] at hlk
      split at hlk
      · rw [keys_touch] at hlk; exact hl l hlk
      · have : keys (s.adj ++ [(l', s.now)]) = keys s.adj ++ [l'] := by simp [keys]
        rw [this] at hlk
        rcases List.mem_append.mp hlk with c | c
        · exact hl l c
        · simp only [List.mem_singleton] at c; subst c
          exact ⟨hok.2.1, ha.1, hok.1⟩
    · rw [if_neg ha] at hlk; exact hl l hlk
  | tick dt =>
    have := (mem_keys_without _ _ _ hlk).1
    have hc : ∀ k, ((step v s (.tick dt)).1.conns.get k).isSome = (s.conns.get k).isSome := fun k => step_conns v s _ k
    rw [hc, hc]; exact hl l this
  | sweep o =>
    have := (mem_keys_without _ _ _ hlk).1
    have hc : ∀ k, ((step v s (.sweep o)).1.conns.get k).isSome = (s.conns.get k).isSome := fun k => step_conns v s _ k
    rw [hc, hc]; exact hl l this
  | up d ps =>
    have := (mem_keys_without _ _ _ hlk).1
    obtain ⟨h1, h2, h3⟩ := hl l this
    have hc : ∀ k, ((step v s (.up d ps)).1.conns.get k).isSome = (if d = k then true else (s.conns.get k).isSome) :=
      fun k => step_conns v s _ k
    rw [hc, hc]
    refine ⟨h1, ?_, ?_⟩ <;> split <;> simp_all
  | down d o =>
    obtain ⟨hk, hnr⟩ := mem_keys_without _ _ _ hlk
    obtain ⟨h1, h2, h3⟩ := hl l hk
    have hne : l.dpid1 ≠ d ∧ l.dpid2 ≠ d := by
      simp only [removedBy, List.mem_filter, Bool.or_eq_true, decide_eq_true_eq, not_and, not_or] at hnr
      exact hnr hk
    have hc : ∀ k, ((step v s (.down d o)).1.conns.get k).isSome = (if d = k then false else (s.conns.get k).isSome) :=
      fun k => step_conns v s _ k
    rw [hc, hc]
    have e1 : ¬ d = l.dpid1 := fun c => hne.1 c.symm
    have e2 : ¬ d = l.dpid2 := fun c => hne.2 c.symm
    simp only [e1, e2, if_false]
    exact ⟨h1, h2, h3⟩

/-- FloodInv carries over to a state with the same adjacency keys, `_prev` and connections -/
theorem floodInv_same (va : Bool) (s s' : DState) (hk : keys s'.adj = keys s.adj) (hp : s'.prev = s.prev)
    (hc : s'.conns = s.conns) (h : FloodInv va s) : FloodInv va s' := by
  obtain ⟨o, t, ht, hg⟩ := h
  refine ⟨o, t, by rw [hk]; exact ht, ?_⟩
  rw [hk, hp, hc]; exact hg

theorem step_keeps (v : Variant) (hp : v.popFirst = true) (hs : v.skip = false) (s : DState) (op : Op)
    (hl : LinksOK s) (hf : FloodInv v.visitAll s) (hok : opOK v s op) : FloodInv v.visitAll (step v s op).1 := by
  have hl' := linksOK_step v s op hl hok
  cases op with
  | tick dt => exact floodInv_same _ s _ rfl rfl rfl hf
  | up d ps =>
    obtain ⟨o, t, ht, hg⟩ := hf
    have hdn : s.conns.get d = none := hok
    have noend : ∀ l ∈ keys s.adj, l.dpid1 ≠ d ∧ l.dpid2 ≠ d := by
      intro l hlk
      obtain ⟨_, h2, h3⟩ := hl l hlk
      constructor <;> intro c
      · rw [c, hdn] at h2; cases h2
      · rw [c, hdn] at h3; cases h3
    refine ⟨o, t, ht, ?_⟩
    intro sw ports hpo hvis p hpp hlt
    simp only [step] at hpo ⊢
    rw [Conns.get_append, Conns.get_erase] at hpo
    by_cases hsd : sw = d
    · subst hsd
      unfold flooding
      rw [Prev.get_clear]
      simp only [if_true, Option.getD_none]
      unfold floodOf
      rw [isEdgePort_of_no_end _ sw p noend]; simp
    · simp only [hsd, if_false] at hpo
      have hd' : ¬ d = sw := fun c => hsd c.symm
      have hpo' : s.conns.get sw = some ports := by
        cases hg0 : s.conns.get sw with
        | none => rw [hg0] at hpo; simp [hd'] at hpo
        | some x => rw [hg0] at hpo; simpa using hpo
      have := hg sw ports hpo' hvis p hpp hlt
      unfold flooding at this ⊢
      rw [Prev.get_clear]
      simp only [hsd, if_false]
      exact this
  | down d o =>
    by_cases hev : (step v s (.down d o)).2.events = []
    · -- no link of d: only the connection table changes
      obtain ⟨ord, t, ht, hg⟩ := hf
      have hnil : (keys s.adj).filter (fun l => l.dpid1 = d || l.dpid2 = d) = [] := by
        simp only [step, deleteLinks_events] at hev
        exact List.map_eq_nil_iff.mp hev
      have hadj : (step v s (.down d o)).1.adj = s.adj := by
        simp only [step, deleteLinks_adj, hnil, without_nil]
      have hprev : (step v s (.down d o)).1.prev = s.prev := by
        simp only [step, deleteLinks, hnil, handleAll]
      refine ⟨ord, t, by rw [hadj]; exact ht, ?_⟩
      intro sw ports hpo hvis p hpp hlt
      rw [hadj, hprev]
      simp only [step, deleteLinks_conns, Conns.get_erase] at hpo
      by_cases hsd : sw = d
      · simp [hsd] at hpo
      · simp only [hsd, if_false] at hpo
        exact hg sw ports hpo hvis p hpp hlt
    · exact floodInv_of_event v hp hs s _ hev hl' hok
  | sweep o =>
    by_cases hev : (step v s (.sweep o)).2.events = []
    · have hs' : (step v s (.sweep o)).1 = s := by
        simp only [step] at hev ⊢
        split
        · rfl
        · rename_i hne
          rw [if_neg hne, deleteLinks_events] at hev
          have := List.map_eq_nil_iff.mp hev
          rw [this] at hne; simp at hne
      rw [hs']; exact hf
    · exact floodInv_of_event v hp hs s _ hev hl' hok
  | probe l o =>
    by_cases hev : (step v s (.probe l o)).2.events = []
    · have hk : keys (step v s (.probe l o)).1.adj = keys s.adj ∧ (step v s (.probe l o)).1.prev = s.prev ∧
          (step v s (.probe l o)).1.conns = s.conns := by
        simp only [step] at hev ⊢
        split
        · exact ⟨rfl, rfl, rfl⟩
        · split
          · exact ⟨rfl, rfl, rfl⟩
          · split
            · exact ⟨keys_touch _ _ _, rfl, rfl⟩
            · rename_i h1 h2 h3
              rw [if_neg h1, if_neg h2, if_neg h3] at hev
              simp at hev
      exact floodInv_same _ s _ hk.1 hk.2.1 hk.2.2 hf
    · exact floodInv_of_event v hp hs s _ hev hl' hok.2.2

/-- KEEPS: from a state where it holds, the flood state stays right after every op of every well-formed history -/
theorem run_keeps (v : Variant) (hp : v.popFirst = true) (hs : v.skip = false) : ∀ (ops : List Op) (s : DState),
    LinksOK s → FloodInv v.visitAll s → validOps v s ops →
    LinksOK (runOps v s ops).1 ∧ FloodInv v.visitAll (runOps v s ops).1
  | [], _, hl, hf, _ => ⟨hl, hf⟩
  | op :: ops, s, hl, hf, hv => by
    rw [runOps_cons]
    exact run_keeps v hp hs ops _ (linksOK_step v s op hl hv.1) (step_keeps v hp hs s op hl hf hv.1) hv.2

theorem init_inv (va : Bool) : LinksOK Discovery.init ∧ FloodInv va Discovery.init := by
  refine ⟨by intro l hl; simp [Discovery.init, keys] at hl, [], [], rfl, ?_⟩
  intro sw ports hp; simp [Discovery.init, Conns.get] at hp

end Pox.Discovery
