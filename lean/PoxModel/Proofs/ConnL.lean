import PoxModel.Model.ConnL
import PoxModel.Proofs.Conn
/-! Without re-entrant listeners the extended model of Model/ConnL.lean *is* the model the C09 theorems are about. -/
namespace Pox.Conn

theorem disconnectL_none (cfg s c defer) : disconnectL cfg Lst.none s c defer = disconnect cfg s c defer := by
  simp [disconnectL, Lst.none]

theorem closeL_none (cfg s c) : closeL cfg Lst.none s c = close cfg s c := by
  simp [closeL, close, disconnectL_none]

theorem finishL_none (cfg s c) : finishL cfg Lst.none s c = finish s c := by
  unfold finishL finish
  simp only [Lst.none, Bool.false_and, Bool.false_eq_true, if_false, List.append_nil]
  cases hd : (s.conns c).deferred with
  | none => simp [ev2]
  | some l =>
    cases l with
    | nil => simp [ev2]
    | cons p ps =>
      simp only [ev2, List.cons_append, List.nil_append, Prod.mk.injEq, and_true]
      apply St.ext' <;> simp
      intro c'; split <;> simp_all

theorem dispatchHsL_none (cfg s c m) : dispatchHsL cfg Lst.none s c m = dispatchHs cfg s c m := by
  cases m with
  | barrierReply x =>
    simp only [dispatchHsL, dispatchHs, finishL_none]
    cases (s.conns c).barrier <;> rfl
  | error x t e =>
    simp only [dispatchHsL, dispatchHs, finishL_none]
    cases (s.conns c).barrier <;> rfl
  | _ => simp [dispatchHsL]

theorem deliverL_none (cfg s c m) : deliverL cfg Lst.none s c m = deliver cfg s c m := by
  simp [deliverL, deliver, closeL_none, dispatchHsL_none]

theorem stepL_none (cfg : Cfg) (s : St) (op : Op) : stepL cfg Lst.none s op = step cfg s op := by
  cases op <;> simp [stepL, step, deliverL_none, closeL_none, disconnectL_none]

theorem runL_none (cfg : Cfg) (ops : List Op) : runL cfg Lst.none ops = run cfg ops := by
  unfold runL run
  have : stepTL cfg Lst.none = stepT cfg := by
    funext p op; simp [stepTL, stepT, stepL_none]
  rw [this]

end Pox.Conn
