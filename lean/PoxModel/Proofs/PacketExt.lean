import PoxModel.Model.PacketExt
import PoxModel.Proofs.TcpOpts
/-!
# Lemmas about the header models of `Model/PacketExt.lean` (C14 phase 2): closed forms of `hdr`, round trips through
`parse`, length and checksum fields.  Core only.
-/
namespace Pox.Packet
open Pox Pox.PktLayout Pox.Checksum

theorem be1 (n : Nat) : beEnc 1 n = [UInt8.ofNat n] := by simp [beEnc]

/-! ## MPLS -/

structure Mpls.Fits (h : Mpls) : Prop where
  label : h.label < 1048576
  tc : h.tc < 8
  s : h.s < 2
  ttl : h.ttl < 256

/-- label (20 bits), traffic class (3), bottom-of-stack (1), TTL (8): 16 + 8 + 8 bits as `struct '!HBB'` sees them -/
def mplsBytes (h : Mpls) : Bytes :=
  beEnc 2 (h.label / 16) ++ (beEnc 1 ((h.label % 16) * 16 + h.tc * 2 + h.s) ++ beEnc 1 h.ttl)

/-- what `mpls.parse` does with the rest: another label stack entry unless this one is the bottom (or < 4 bytes follow) -/
def mplsNext (next : XNext) (h : Mpls) (payload : Bytes) : XPkt :=
  if payload.length ≥ 4 ∧ h.s = 0 then next none .mpls payload else .raw payload

theorem mplsHdr_ok (h : Mpls) (hf : h.Fits) : mplsHdr h = .ok (mplsBytes h) := by
  have h1 := hf.label; have h2 := hf.tc; have h3 := hf.s; have h4 := hf.ttl
  have e1 : h.label % 1048576 = h.label := Nat.mod_eq_of_lt h1
  have e2 : h.tc % 8 = h.tc := Nat.mod_eq_of_lt h2
  have e3 : h.s % 2 = h.s := Nat.mod_eq_of_lt h3
  have e4 : h.ttl % 256 = h.ttl := Nat.mod_eq_of_lt h4
  have c1 : h.label / 16 < 65536 := by omega
  have c2 : h.label % 16 * 16 + h.tc * 2 + h.s < 256 := by omega
  unfold mplsHdr
  simp only [e1, e2, e3, e4]
  simp [pk, encode, mplsBytes, c1, c2, h4]

theorem mpls_parse (next : XNext) (h : Mpls) (payload : Bytes) (hf : h.Fits) :
    mplsParse next (mplsBytes h ++ payload) = .mpls h (mplsNext next h payload) := by
  have h1 := hf.label; have h2 := hf.tc; have h3 := hf.s; have h4 := hf.ttl
  have c1 : h.label / 16 < 65536 := by omega
  have c2 : h.label % 16 * 16 + h.tc * 2 + h.s < 256 := by omega
  have hfit : fits [.uint 2, .uint 1, .uint 1]
      [.num (h.label / 16), .num (h.label % 16 * 16 + h.tc * 2 + h.s), .num h.ttl] := by simp [fits, c1, c2, h4]
  have he : encode [.uint 2, .uint 1, .uint 1]
      [.num (h.label / 16), .num (h.label % 16 * 16 + h.tc * 2 + h.s), .num h.ttl] = some (mplsBytes h) := by
    simp [encode, mplsBytes, c1, c2, h4]
  obtain ⟨hu, hd, hl⟩ := unpack_take _ _ _ payload he hfit
  have hsz : size [Field.uint 2, .uint 1, .uint 1] = 4 := rfl
  rw [hsz] at hu hd hl
  unfold mplsParse mplsNext
  simp only [hu, hd, List.length_append, hl]
  have c0 : ¬ (4 + payload.length < 4) := by omega
  have e1 : (h.label % 16 * 16 + h.tc * 2 + h.s) % 2 = h.s := by omega
  have e2 : h.label / 16 * 16 + (h.label % 16 * 16 + h.tc * 2 + h.s) / 16 = h.label := by omega
  have e3 : (h.label % 16 * 16 + h.tc * 2 + h.s) % 16 / 2 = h.tc := by omega
  simp only [c0, if_false, e1, e2, e3]
  have hiff : (4 + payload.length ≥ 8 ∧ h.s = 0) ↔ (payload.length ≥ 4 ∧ h.s = 0) := by
    constructor <;> intro hh <;> exact ⟨by omega, hh.2⟩
  simp only [hiff]
  cases h
  split <;> rfl

/-! ## EAPOL, EAP (success/failure) -/

structure Eapol.Fits (h : Eapol) : Prop where
  version : h.version < 256
  type : h.type < 256
  bodylen : h.bodylen < 65536

def eapolBytes (h : Eapol) : Bytes := beEnc 1 h.version ++ (beEnc 1 h.type ++ be16 h.bodylen)

theorem eapol_encode (h : Eapol) (hf : h.Fits) :
    encode eapolL [.num h.version, .num h.type, .num h.bodylen] = some (eapolBytes h) := by
  simp [eapolL, encode, eapolBytes, be16, hf.version, hf.type, hf.bodylen]

theorem eapolHdr_ok (h : Eapol) (hf : h.Fits) : eapolHdr h = .ok (eapolBytes h) := pk_of_encode (eapol_encode h hf)

theorem eapol_parse (next : XNext) (h : Eapol) (payload : Bytes) (hf : h.Fits) :
    eapolParse next (eapolBytes h ++ payload)
      = .eapol h (if h.type = 0 then next none .eap payload else .nil) := by
  have hfit : fits eapolL [.num h.version, .num h.type, .num h.bodylen] := by
    simp [eapolL, fits, hf.version, hf.type, hf.bodylen]
  obtain ⟨hu, hd, hl⟩ := unpack_take eapolL _ _ payload (eapol_encode h hf) hfit
  have hsz : size eapolL = 4 := rfl
  rw [hsz] at hu hd hl
  unfold eapolParse
  simp only [hu, hd, List.length_append, hl]
  have c0 : ¬ (4 + payload.length < 4) := by omega
  simp [c0]

structure Eap.Fits (h : Eap) : Prop where
  code : h.code < 256
  notReq : h.code ≠ 1 ∧ h.code ≠ 2          -- requests/responses lose their type octet on re-pack (known finding D49)
  id : h.id < 256
  length : h.length < 65536

def eapBytes (h : Eap) : Bytes := beEnc 1 h.code ++ (beEnc 1 h.id ++ be16 h.length)

theorem eap_encode (h : Eap) (hf : h.Fits) : encode eapolL [.num h.code, .num h.id, .num h.length] = some (eapBytes h) := by
  simp [eapolL, encode, eapBytes, be16, hf.code, hf.id, hf.length]

theorem eapHdr_ok (h : Eap) (hf : h.Fits) : eapHdr h = .ok (eapBytes h) := pk_of_encode (eap_encode h hf)

theorem eap_parse (h : Eap) (hf : h.Fits) : eapParse (eapBytes h) = .eap h .nil := by
  have hfit : fits eapolL [.num h.code, .num h.id, .num h.length] := by simp [eapolL, fits, hf.code, hf.id, hf.length]
  obtain ⟨hu, hd, hl⟩ := unpack_take eapolL _ _ [] (eap_encode h hf) hfit
  have hsz : size eapolL = 4 := rfl
  rw [hsz] at hu hd hl
  simp only [List.append_nil] at hu hd
  unfold eapParse
  simp only [hu, hl]
  have := hf.notReq
  simp [this.1, this.2]

/-! ## VXLAN -/

def Vxlan.Fits (h : Vxlan) : Prop := ∀ v, h.vni = some v → v < 16777216

def vxlanBytes (h : Vxlan) : Bytes :=
  match h.vni with
  | some v => [8, 0, 0, 0] ++ (beEnc 3 v ++ [0])
  | none => [0, 0, 0, 0, 0, 0, 0, 0]

theorem vxlanHdr_ok (h : Vxlan) (hf : h.Fits) : vxlanHdr h = .ok (vxlanBytes h) := by
  cases hv : h.vni with
  | none => simp [vxlanHdr, vxlanBytes, hv, pk, encode, beEnc]
  | some v =>
    have hlt := hf v hv
    have c1 : v / 65536 % 256 < 256 := Nat.mod_lt _ (by decide)
    have c2 : v / 256 % 256 < 256 := Nat.mod_lt _ (by decide)
    have c3 : v % 256 < 256 := Nat.mod_lt _ (by decide)
    have a1 : v / 65536 % 256 = v / 65536 := Nat.mod_eq_of_lt (by omega)
    have a2 : v / 256 % 256 = v % 65536 / 256 := by omega
    have a3 : v % 256 = v % 65536 % 256 := by omega
    have e3 : beEnc 3 v = [UInt8.ofNat (v / 65536 % 256), UInt8.ofNat (v / 256 % 256), UInt8.ofNat (v % 256)] := by
      rw [a1, a2, a3]; simp [beEnc]
    unfold vxlanHdr vxlanBytes
    rw [hv]
    simp only [e3, Option.isSome, Option.getD, if_true]
    simp only [pk, encode, c1, c2, c3, Nat.pow_one, be1, if_true, Option.map]
    simp
theorem vxlanBytes_length (h : Vxlan) : (vxlanBytes h).length = 8 := by
  unfold vxlanBytes; cases h.vni <;> simp

theorem vxlan_parse (next : XNext) (h : Vxlan) (payload : Bytes) (hf : h.Fits) :
    vxlanParse next (vxlanBytes h ++ payload) = .vxlan h (next none (.core .eth) payload) := by
  have hl := vxlanBytes_length h
  have hlen : (vxlanBytes h ++ payload).length = 8 + payload.length := by simp [hl]
  have c0 : ¬ (8 + payload.length < 8) := by omega
  have hd : (vxlanBytes h ++ payload).drop 8 = payload := drop_left _ _ 8 hl.symm
  unfold vxlanParse
  rw [hlen]
  simp only [c0, if_false, hd]
  obtain ⟨vni⟩ := h
  cases vni with
  | none => simp [vxlanBytes, getU8]
  | some v =>
    have hlt := hf v rfl
    have hs : sl (vxlanBytes ⟨some v⟩ ++ payload) 4 7 = beEnc 3 v := by
      simp only [vxlanBytes]
      rw [List.append_assoc, List.append_assoc]
      exact sl_mid [8, 0, 0, 0] (beEnc 3 v) _ 4 7 (by simp) (by simp)
    have hg : getU8 (vxlanBytes ⟨some v⟩ ++ payload) 0 = some 8 := by simp [vxlanBytes, getU8]
    rw [hs, hg, beDec_beEnc 3 v (by simpa using hlt)]
    simp

/-! ## LLC / SNAP -/

/-- two control octets (I and S frames) or one (U frames): decided by the two low bits, llc.py:73 -/
def Llc.two (h : Llc) : Bool := h.control % 2 == 0 || h.control % 4 == 2

structure Llc.Fits (h : Llc) : Prop where
  dsap : h.dsap < 256
  ssap : h.ssap < 256
  control : h.control < (if h.two then 65536 else 256)
  length : h.length = (if h.two then 4 else 3) + (if h.oui.isSome then 5 else 0)
  snap : h.oui.isSome = true ↔ ((h.ssap / 2) * 2 = 0xaa ∧ (h.dsap / 2) * 2 = 0xaa)
  oui : ∀ o, h.oui = some o → o.length = 3
  ethType : if h.oui.isSome then h.ethType < 65536 else h.ethType = 0xffff

def llcCtl (h : Llc) : Bytes :=
  if h.two then [UInt8.ofNat (h.control % 256), UInt8.ofNat (h.control / 256)] else [UInt8.ofNat h.control]

def llcSnap (h : Llc) : Bytes :=
  match h.oui with
  | some o => o ++ be16 h.ethType
  | none => []

def llcBytes (h : Llc) : Bytes := [UInt8.ofNat h.dsap, UInt8.ofNat h.ssap] ++ (llcCtl h ++ llcSnap h)

/-- SNAP with the all-zero OUI carries an EtherType-demultiplexed payload (no nested LLC), anything else is opaque -/
def llcNext (next : XNext) (h : Llc) (payload : Bytes) : XPkt :=
  match h.oui with
  | some o => if o = [0, 0, 0] then lift (contOf next) (parseNext probe h.ethType payload false) else .raw payload
  | none => .raw payload

theorem llcHdr_ok (h : Llc) (hf : h.Fits) : llcHdr h = .ok (llcBytes h) := by
  have hd := hf.dsap; have hs := hf.ssap; have hc := hf.control; have hl := hf.length; have he := hf.ethType
  unfold llcHdr llcBytes llcCtl llcSnap
  cases ht : h.two <;> cases ho : h.oui <;> simp [ht, ho] at hc hl he ⊢
  · have c1 : ¬ (h.length = 8) := by omega
    simp [pk, encode, hd, hs, hc, hl, be1, bind, Except.bind, pure, Except.pure, Functor.map, Except.map]
  · simp [pk, encode, hd, hs, hc, hl, he, be1, be16, bind, Except.bind, pure, Except.pure, Functor.map, Except.map]
  · have c1 : h.control % 256 < 256 := Nat.mod_lt _ (by decide)
    have c2 : h.control / 256 % 256 = h.control / 256 := Nat.mod_eq_of_lt (by omega)
    have c3 : h.control / 256 < 256 := by omega
    simp [pk, encode, hd, hs, hl, c1, c2, c3, be1, bind, Except.bind, pure, Except.pure, Functor.map, Except.map]
  · have c1 : h.control % 256 < 256 := Nat.mod_lt _ (by decide)
    have c2 : h.control / 256 % 256 = h.control / 256 := Nat.mod_eq_of_lt (by omega)
    have c3 : h.control / 256 < 256 := by omega
    simp [pk, encode, hd, hs, hl, he, c1, c2, c3, be1, be16, bind, Except.bind, pure, Except.pure, Functor.map, Except.map]

theorem llcBytes_length (h : Llc) (hf : h.Fits) : (llcBytes h).length = h.length := by
  have hl := hf.length
  unfold llcBytes llcCtl llcSnap
  cases ht : h.two <;> cases ho : h.oui <;> simp [ht, ho] at hl ⊢
  · omega
  · have := hf.oui _ ho; omega
  · omega
  · have := hf.oui _ ho; omega

/-- the four shapes `llc.parse` distinguishes, on explicit octets -/
theorem llcParse_u (next : XNext) (D S C0 : UInt8) (rest : Bytes)
    (h2 : (C0.toNat % 2 == 0 || C0.toNat % 4 == 2) = false)
    (hns : ((S.toNat / 2) * 2 == 0xaa && (D.toNat / 2) * 2 == 0xaa) = false) :
    llcParse next (D :: S :: C0 :: rest) = .llc ⟨3, D.toNat, S.toNat, C0.toNat, none, 0xffff⟩ (.raw rest) := by
  unfold llcParse
  simp [getU8, h2, hns]

theorem llcParse_i (next : XNext) (D S C0 C1 : UInt8) (rest : Bytes)
    (h2 : (C0.toNat % 2 == 0 || C0.toNat % 4 == 2) = true)
    (hns : ((S.toNat / 2) * 2 == 0xaa && (D.toNat / 2) * 2 == 0xaa) = false) :
    llcParse next (D :: S :: C0 :: C1 :: rest)
      = .llc ⟨4, D.toNat, S.toNat, C0.toNat + C1.toNat * 256, none, 0xffff⟩ (.raw rest) := by
  unfold llcParse
  simp [getU8, h2, hns]
  rw [if_neg (by omega), if_neg (by omega)]

theorem llcParse_us (next : XNext) (D S C0 : UInt8) (o : Bytes) (et : Nat) (rest : Bytes) (ho : o.length = 3)
    (het : et < 65536) (h2 : (C0.toNat % 2 == 0 || C0.toNat % 4 == 2) = false)
    (hs : ((S.toNat / 2) * 2 == 0xaa && (D.toNat / 2) * 2 == 0xaa) = true) :
    llcParse next (D :: S :: C0 :: (o ++ (be16 et ++ rest)))
      = .llc ⟨8, D.toNat, S.toNat, C0.toNat, some o, et⟩
          (if o = [0, 0, 0] then lift (contOf next) (parseNext probe et rest false) else .raw rest) := by
  have e1 : sl (D :: S :: C0 :: (o ++ (be16 et ++ rest))) 3 6 = o :=
    sl_mid [D, S, C0] o _ 3 6 (by simp) (by simp [ho])
  have e2 : sl (D :: S :: C0 :: (o ++ (be16 et ++ rest))) 6 8 = be16 et := by
    have := sl_mid ([D, S, C0] ++ o) (be16 et) rest 6 8 (by simp [ho]) (by simp [ho])
    simpa using this
  have e3 : (D :: S :: C0 :: (o ++ (be16 et ++ rest))).drop 8 = rest := by
    have := drop_left (([D, S, C0] ++ o) ++ be16 et) rest 8 (by simp [ho])
    simpa using this
  have e4 : beDec (be16 et) = et := by rw [be16, beDec_beEnc 2 et (by simpa using het)]
  have hlen : (D :: S :: C0 :: (o ++ (be16 et ++ rest))).length = 8 + rest.length := by simp [ho]; omega
  unfold llcParse
  simp only [hlen]
  have c0 : ¬ (8 + rest.length < 3) := by omega
  simp [getU8, h2, hs, e1, e2, e3, e4, c0]
  rw [if_neg (by omega)]
  split <;> rfl

theorem llcParse_is (next : XNext) (D S C0 C1 : UInt8) (o : Bytes) (et : Nat) (rest : Bytes) (ho : o.length = 3)
    (het : et < 65536) (h2 : (C0.toNat % 2 == 0 || C0.toNat % 4 == 2) = true)
    (hs : ((S.toNat / 2) * 2 == 0xaa && (D.toNat / 2) * 2 == 0xaa) = true) :
    llcParse next (D :: S :: C0 :: C1 :: (o ++ (be16 et ++ rest)))
      = .llc ⟨9, D.toNat, S.toNat, C0.toNat + C1.toNat * 256, some o, et⟩
          (if o = [0, 0, 0] then lift (contOf next) (parseNext probe et rest false) else .raw rest) := by
  have e1 : sl (D :: S :: C0 :: C1 :: (o ++ (be16 et ++ rest))) 4 7 = o :=
    sl_mid [D, S, C0, C1] o _ 4 7 (by simp) (by simp [ho])
  have e2 : sl (D :: S :: C0 :: C1 :: (o ++ (be16 et ++ rest))) 7 9 = be16 et := by
    have := sl_mid ([D, S, C0, C1] ++ o) (be16 et) rest 7 9 (by simp [ho]) (by simp [ho])
    simpa using this
  have e3 : (D :: S :: C0 :: C1 :: (o ++ (be16 et ++ rest))).drop 9 = rest := by
    have := drop_left (([D, S, C0, C1] ++ o) ++ be16 et) rest 9 (by simp [ho])
    simpa using this
  have e4 : beDec (be16 et) = et := by rw [be16, beDec_beEnc 2 et (by simpa using het)]
  have hlen : (D :: S :: C0 :: C1 :: (o ++ (be16 et ++ rest))).length = 9 + rest.length := by simp [ho]; omega
  unfold llcParse
  simp only [hlen]
  have c0 : ¬ (9 + rest.length < 3) := by omega
  simp [getU8, h2, hs, e1, e2, e3, e4, c0]
  rw [if_neg (by omega), if_neg (by omega)]
  split <;> rfl

theorem llc_parse (next : XNext) (h : Llc) (payload : Bytes) (hf : h.Fits) :
    llcParse next (llcBytes h ++ payload) = .llc h (llcNext next h payload) := by
  have hd := hf.dsap; have hs := hf.ssap; have hc := hf.control; have hl := hf.length; have he := hf.ethType
  have hsn := hf.snap
  obtain ⟨length, dsap, ssap, control, oui, ethType⟩ := h
  simp only at hd hs hc hl he hsn
  have td : (UInt8.ofNat dsap).toNat = dsap := u8_toNat _ hd
  have ts : (UInt8.ofNat ssap).toNat = ssap := u8_toNat _ hs
  have hsb : ((ssap / 2) * 2 == 0xaa && (dsap / 2) * 2 == 0xaa) = oui.isSome := by
    cases hi : oui.isSome
    · have : ¬ ((ssap / 2) * 2 = 0xaa ∧ (dsap / 2) * 2 = 0xaa) := by
        intro hh; have := hsn.mpr hh; rw [hi] at this; cases this
      simp only [Bool.and_eq_false_imp, beq_iff_eq, beq_eq_false_iff_ne]
      intro h1 h2; exact this ⟨h1, h2⟩
    · have := hsn.mp hi
      simp [this.1, this.2]
  cases ht : Llc.two ⟨length, dsap, ssap, control, oui, ethType⟩
  · -- one control octet
    have htw : (control % 2 == 0 || control % 4 == 2) = false := ht
    simp only [ht, Bool.false_eq_true, if_false] at hc hl
    have tc : (UInt8.ofNat control).toNat = control := u8_toNat _ hc
    cases oui with
    | none =>
      simp only [Option.isSome, Bool.false_eq_true, if_false] at he hl hsb
      subst he; subst hl
      have := llcParse_u next (UInt8.ofNat dsap) (UInt8.ofNat ssap) (UInt8.ofNat control) payload
        (by rw [tc]; exact htw) (by rw [ts, td]; exact hsb)
      simpa [llcBytes, llcCtl, llcSnap, llcNext, ht, td, ts, tc] using this
    | some o =>
      simp only [Option.isSome, if_true] at he hl hsb
      subst hl
      have := llcParse_us next (UInt8.ofNat dsap) (UInt8.ofNat ssap) (UInt8.ofNat control) o ethType payload
        (hf.oui o rfl) he (by rw [tc]; exact htw) (by rw [ts, td]; exact hsb)
      simpa [llcBytes, llcCtl, llcSnap, llcNext, ht, td, ts, tc] using this
  · -- two control octets
    have htw : (control % 2 == 0 || control % 4 == 2) = true := ht
    simp only [ht, if_true] at hc hl
    have c1 : control % 256 < 256 := Nat.mod_lt _ (by decide)
    have c3 : control / 256 < 256 := by omega
    have t0 : (UInt8.ofNat (control % 256)).toNat = control % 256 := u8_toNat _ c1
    have t1 : (UInt8.ofNat (control / 256)).toNat = control / 256 := u8_toNat _ c3
    have hlow : (control % 256 % 2 == 0 || control % 256 % 4 == 2) = true := by
      have e2 : control % 256 % 2 = control % 2 := by omega
      have e4 : control % 256 % 4 = control % 4 := by omega
      rw [e2, e4]; exact htw
    have hsum : control % 256 + control / 256 * 256 = control := by omega
    cases oui with
    | none =>
      simp only [Option.isSome, Bool.false_eq_true, if_false] at he hl hsb
      subst he; subst hl
      have := llcParse_i next (UInt8.ofNat dsap) (UInt8.ofNat ssap) (UInt8.ofNat (control % 256))
        (UInt8.ofNat (control / 256)) payload (by rw [t0]; exact hlow) (by rw [ts, td]; exact hsb)
      simpa [llcBytes, llcCtl, llcSnap, llcNext, ht, td, ts, t0, t1, hsum] using this
    | some o =>
      simp only [Option.isSome, if_true] at he hl hsb
      subst hl
      have := llcParse_is next (UInt8.ofNat dsap) (UInt8.ofNat ssap) (UInt8.ofNat (control % 256))
        (UInt8.ofNat (control / 256)) o ethType payload (hf.oui o rfl) he (by rw [t0]; exact hlow)
        (by rw [ts, td]; exact hsb)
      simpa [llcBytes, llcCtl, llcSnap, llcNext, ht, td, ts, t0, t1, hsum] using this

/-! ## IPv6 fixed header -/

structure IPv6.Fits (h : IPv6) : Prop where
  v : h.v = 6
  tc : h.tc < 256
  flow : h.flow < 1048576
  nh : h.nh < 256
  noExt : h.nh ≠ 0 ∧ h.nh ≠ 43 ∧ h.nh ≠ 44 ∧ h.nh ≠ 60      -- extension headers are outside the model (finding D48)
  hop : h.hop < 256
  src : h.src.length = 16
  dst : h.dst.length = 16

/-- version (4 bits), traffic class (8), flow label (20) -/
def ipv6Word (h : IPv6) : Nat := h.v * 268435456 + h.tc * 1048576 + h.flow

def ipv6Bytes (h : IPv6) (n : Nat) : Bytes :=
  beEnc 4 (ipv6Word h) ++ (be16 n ++ (beEnc 1 h.nh ++ (beEnc 1 h.hop ++ (h.src ++ h.dst))))

theorem ipv6_vtcfl (h : IPv6) (hf : h.Fits) :
    ((h.v <<< 28) ||| (h.flow % 1048576)) ||| ((h.tc % 256) <<< 20) = ipv6Word h := by
  have h1 := hf.flow; have h2 := hf.tc
  rw [Nat.mod_eq_of_lt h1, Nat.mod_eq_of_lt h2]
  rw [Nat.or_assoc, Nat.or_comm h.flow, ← Nat.or_assoc]
  have e : h.v <<< 28 = (h.v <<< 8) <<< 20 := by rw [← Nat.shiftLeft_add]
  rw [e, ← Nat.shiftLeft_or_distrib, shl_or h.v h.tc 8 (by omega), shl_or _ h.flow 20 (by omega)]
  unfold ipv6Word; omega

theorem ipv6_encode (h : IPv6) (hf : h.Fits) (n : Nat) (hn : n < 65536) :
    encode ipv6L [.num (ipv6Word h), .num n, .num h.nh, .num h.hop]
      = some (beEnc 4 (ipv6Word h) ++ (be16 n ++ (beEnc 1 h.nh ++ beEnc 1 h.hop))) := by
  have hw : ipv6Word h < 4294967296 := by
    unfold ipv6Word; rw [hf.v]; have := hf.tc; have := hf.flow; omega
  simp [ipv6L, encode, be16, hw, hn, hf.nh, hf.hop]

theorem ipv6Hdr_ok (h : IPv6) (n : Nat) (hf : h.Fits) (hn : n < 65536) :
    ipv6Hdr h n = .ok ({ h with plen := n }, ipv6Bytes h n) := by
  unfold ipv6Hdr
  simp only [ipv6_vtcfl h hf, pk_of_encode (ipv6_encode h hf n hn), bind, Except.bind, pure, Except.pure]
  simp [ipv6Bytes, List.append_assoc]

theorem ipv6Bytes_length (h : IPv6) (n : Nat) (hf : h.Fits) : (ipv6Bytes h n).length = 40 := by
  simp [ipv6Bytes, hf.src, hf.dst]

theorem ipv6_len_field (h : IPv6) (n : Nat) (hn : n < 65536) : beDec (sl (ipv6Bytes h n) 4 6) = n := by
  have : sl (ipv6Bytes h n) 4 6 = be16 n := sl_mid _ _ _ 4 6 (by simp) (by simp)
  rw [this, be16, beDec_beEnc 2 n (by simpa using hn)]

/-- ipv6.py:383-395: where the payload goes (the upper-layer checksums see this header through `prev`) -/
def ipv6Next (next : XNext) (h : IPv6) (payload : Bytes) : XPkt :=
  let ctx := some (XCtx.v6 h.src h.dst h.nh)
  let nx : XPkt :=
    if h.nh = 17 then next ctx (.core .udp) payload
    else if h.nh = 6 then next ctx (.core .tcp) payload
    else if h.nh = 58 then next ctx .icmp6 payload
    else if h.nh = 59 then .nil
    else .raw payload
  if isUnparsedX nx then .raw payload else nx

theorem ipv6_parse (next : XNext) (h : IPv6) (payload : Bytes) (hf : h.Fits) (hn : payload.length < 65536) :
    ipv6Parse next (ipv6Bytes h payload.length ++ payload)
      = .ipv6 { h with plen := payload.length } (ipv6Next next h payload) := by
  have hw : ipv6Word h < 4294967296 := by
    unfold ipv6Word; rw [hf.v]; have := hf.tc; have := hf.flow; omega
  have hfit : fits ipv6L [.num (ipv6Word h), .num payload.length, .num h.nh, .num h.hop] := by
    simp [ipv6L, fits, hw, hn, hf.nh, hf.hop]
  obtain ⟨hu, _, hl8⟩ := unpack_take ipv6L _ _ (h.src ++ (h.dst ++ payload)) (ipv6_encode h hf _ hn) hfit
  have hsz : size ipv6L = 8 := rfl
  rw [hsz] at hu hl8
  have hraw : ipv6Bytes h payload.length ++ payload
      = (beEnc 4 (ipv6Word h) ++ (be16 payload.length ++ (beEnc 1 h.nh ++ beEnc 1 h.hop))) ++ (h.src ++ (h.dst ++ payload)) := by
    simp [ipv6Bytes, List.append_assoc]
  have hlen : (ipv6Bytes h payload.length ++ payload).length = 40 + payload.length := by
    rw [List.length_append, ipv6Bytes_length h _ hf]
  have hs := hf.src; have hd := hf.dst
  have s1 : sl ((beEnc 4 (ipv6Word h) ++ (be16 payload.length ++ (beEnc 1 h.nh ++ beEnc 1 h.hop))) ++ (h.src ++ (h.dst ++ payload))) 8 24
      = h.src := sl_mid _ _ _ 8 24 (by rw [hl8]) (by rw [hl8, hs])
  have s2 : sl ((beEnc 4 (ipv6Word h) ++ (be16 payload.length ++ (beEnc 1 h.nh ++ beEnc 1 h.hop))) ++ (h.src ++ (h.dst ++ payload))) 24 40
      = h.dst := by
    rw [← List.append_assoc]
    exact sl_mid _ _ _ 24 40 (by rw [List.length_append, hl8, hs]) (by rw [List.length_append, hl8, hs, hd])
  have s3 : sl ((beEnc 4 (ipv6Word h) ++ (be16 payload.length ++ (beEnc 1 h.nh ++ beEnc 1 h.hop))) ++ (h.src ++ (h.dst ++ payload))) 40
      (40 + payload.length) = payload := by
    rw [← List.append_assoc, ← List.append_assoc]
    exact sl_tail _ _ _ _ (by simp only [List.length_append, hl8, hs, hd]) (by simp only [List.length_append, hl8, hs, hd])
  have ht := hf.tc; have hfl := hf.flow
  have e1 : ipv6Word h / 268435456 = 6 := by unfold ipv6Word; rw [hf.v]; omega
  have e2 : ipv6Word h / 1048576 % 256 = h.tc := by unfold ipv6Word; rw [hf.v]; omega
  have e3 : ipv6Word h % 1048576 = h.flow := by unfold ipv6Word; rw [hf.v]; omega
  obtain ⟨n0, n43, n44, n60⟩ := hf.noExt
  unfold ipv6Parse
  simp only [hlen]
  rw [hraw]
  rw [hu]
  have c0 : ¬ (40 + payload.length < 40) := by omega
  have c1 : ¬ (payload.length > 40 + payload.length) := by omega
  simp only [c0, if_false, e1, e2, e3, c1, s1, s2, s3]
  simp only [n0, n43, n44, n60, or_self, if_false, ne_eq, not_true_eq_false]
  unfold ipv6Next
  have hv := hf.v
  cases h
  simp_all

/-! ## upper-layer checksums over the IPv6 pseudo header (RFC 8200 §8.1) -/

/-- source, destination, 32-bit upper-layer length, three zero octets, next header -/
def pseudo6 (src dst : Bytes) (len nh : Nat) : Bytes :=
  src ++ (dst ++ (beEnc 4 len ++ (be16 0 ++ (beEnc 1 0 ++ beEnc 1 nh))))

theorem pseudo6_length (src dst : Bytes) (len nh : Nat) (hs : src.length = 16) (hd : dst.length = 16) :
    (pseudo6 src dst len nh).length = 40 := by simp [pseudo6, hs, hd]

theorem pseudo6_encode (len nh : Nat) (hl : len < 4294967296) (hn : nh < 256) :
    encode pseudo6L [.num len, .num 0, .num 0, .num nh] = some (beEnc 4 len ++ (be16 0 ++ (beEnc 1 0 ++ beEnc 1 nh))) := by
  simp [pseudo6L, encode, be16, hl, hn]

/-- RFC 768 over IPv6 -/
def udp6CsumSpec (src dst : Bytes) (nh : Nat) (h : Udp) (payload : Bytes) : Nat :=
  let r := rfc1071 (pseudo6 src dst (payload.length + 8) nh ++ (udpPre h payload.length ++ 0 :: 0 :: payload))
  if r = 0 then 65535 else r

theorem udp6CsumSpec_lt (src dst : Bytes) (nh : Nat) (h : Udp) (p : Bytes) : udp6CsumSpec src dst nh h p < 65536 := by
  unfold udp6CsumSpec
  have := rfc1071_lt (pseudo6 src dst (p.length + 8) nh ++ (udpPre h p.length ++ 0 :: 0 :: p))
  simp only []
  split <;> omega

theorem udpHdr6_ok (src dst : Bytes) (nh : Nat) (h : Udp) (payload : Bytes) (hs : src.length = 16)
    (hd : dst.length = 16) (hnh : nh < 256) (hf : h.Fits) (hn : payload.length + 8 < 65536) :
    udpHdr6 src dst nh h payload
      = .ok ({ h with len := payload.length + 8, csum := udp6CsumSpec src dst nh h payload },
             udpPre h payload.length ++ be16 (udp6CsumSpec src dst nh h payload)) := by
  have e0 := udp_encode h hf payload.length 0 hn (by decide)
  have ep := pseudo6_encode (payload.length + 8) nh (by omega) hnh
  have ec := udp_encode h hf payload.length _ hn (udp6CsumSpec_lt src dst nh h payload)
  have hcomm : 8 + payload.length = payload.length + 8 := Nat.add_comm _ _
  have hdata : (src ++ (dst ++ (beEnc 4 (payload.length + 8) ++ (be16 0 ++ (beEnc 1 0 ++ beEnc 1 nh)))))
        ++ (udpPre h payload.length ++ be16 0 ++ payload)
      = (pseudo6 src dst (payload.length + 8) nh ++ udpPre h payload.length) ++ 0 :: 0 :: payload := by
    simp [pseudo6, be16_zero, List.append_assoc]
  have hlen : ((pseudo6 src dst (payload.length + 8) nh ++ udpPre h payload.length) ++ 0 :: 0 :: payload).length ≤ 131072 := by
    simp [pseudo6_length _ _ _ _ hs hd, udpPre_length]; omega
  have hz := zeroWord_already 23 (pseudo6 src dst (payload.length + 8) nh ++ udpPre h payload.length) payload
    (by simp [pseudo6_length _ _ _ _ hs hd, udpPre_length])
  unfold udpHdr6
  simp only [hcomm, pk_of_encode e0, pk_of_encode ep, bind, Except.bind, pure, Except.pure]
  rw [hdata, checksum_skip_eq _ 23 hlen, hz]
  have hspec : (if rfc1071 ((pseudo6 src dst (payload.length + 8) nh ++ udpPre h payload.length) ++ 0 :: 0 :: payload) = 0
      then 65535 else rfc1071 ((pseudo6 src dst (payload.length + 8) nh ++ udpPre h payload.length) ++ 0 :: 0 :: payload))
      = udp6CsumSpec src dst nh h payload := by
    simp [udp6CsumSpec, List.append_assoc]
  rw [hspec]
  simp only [pk_of_encode ec]

/-- RFC 793 over IPv6 -/
def tcp6CsumSpec (src dst : Bytes) (nh : Nat) (h : Tcp) (op payload : Bytes) : Nat :=
  rfc1071 (pseudo6 src dst (20 + op.length + payload.length) nh ++
    (tcpPre h ((20 + op.length) / 4) ++ 0 :: 0 :: (be16 h.urg ++ (op ++ payload))))

theorem tcpHdr6_ok (src dst : Bytes) (nh : Nat) (h : Tcp) (op payload : Bytes) (hs : src.length = 16)
    (hd : dst.length = 16) (hnh : nh < 256) (hf : h.Fits) (hop : tcpOptsPadded h.opts = .ok op) (hol : op.length ≤ 40)
    (hn : 20 + op.length + payload.length ≤ 131000) :
    tcpHdr6 src dst nh h payload
      = .ok ({ h with off := (20 + op.length) / 4, csum := tcp6CsumSpec src dst nh h op payload },
             tcpPre h ((20 + op.length) / 4) ++ (be16 (tcp6CsumSpec src dst nh h op payload) ++ (be16 h.urg ++ op))) := by
  have ho : (20 + op.length) / 4 < 16 := by omega
  have e0 := tcp_encode h hf _ 0 ho (by decide)
  have hcs : tcp6CsumSpec src dst nh h op payload < 65536 := rfc1071_lt _
  have ec := tcp_encode h hf _ (tcp6CsumSpec src dst nh h op payload) ho hcs
  have hseglen : (tcpPre h ((20 + op.length) / 4) ++ (be16 0 ++ be16 h.urg) ++ op ++ payload).length
      = 20 + op.length + payload.length := by
    simp [tcpPre_length]; omega
  have ep := pseudo6_encode (20 + op.length + payload.length) nh (by omega) hnh
  have hdata : (src ++ (dst ++ (beEnc 4 (20 + op.length + payload.length) ++ (be16 0 ++ (beEnc 1 0 ++ beEnc 1 nh)))))
        ++ (tcpPre h ((20 + op.length) / 4) ++ (be16 0 ++ be16 h.urg) ++ op ++ payload)
      = (pseudo6 src dst (20 + op.length + payload.length) nh ++ tcpPre h ((20 + op.length) / 4))
        ++ 0 :: 0 :: (be16 h.urg ++ (op ++ payload)) := by
    simp [pseudo6, be16_zero, List.append_assoc]
  have hlen : ((pseudo6 src dst (20 + op.length + payload.length) nh ++ tcpPre h ((20 + op.length) / 4))
        ++ 0 :: 0 :: (be16 h.urg ++ (op ++ payload))).length ≤ 131072 := by
    simp [pseudo6_length _ _ _ _ hs hd, tcpPre_length]; omega
  have hz := zeroWord_already 28 (pseudo6 src dst (20 + op.length + payload.length) nh ++ tcpPre h ((20 + op.length) / 4))
    (be16 h.urg ++ (op ++ payload)) (by simp [pseudo6_length _ _ _ _ hs hd, tcpPre_length])
  unfold tcpHdr6
  simp only [hop, pk_of_encode e0, bind, Except.bind, pure, Except.pure, hseglen, pk_of_encode ep]
  rw [hdata, checksum_skip_eq _ 28 hlen, hz]
  have hspec : rfc1071 ((pseudo6 src dst (20 + op.length + payload.length) nh ++ tcpPre h ((20 + op.length) / 4))
        ++ 0 :: 0 :: (be16 h.urg ++ (op ++ payload))) = tcp6CsumSpec src dst nh h op payload := by
    simp [tcp6CsumSpec, List.append_assoc]
  rw [hspec]
  simp only [pk_of_encode ec]
  simp [List.append_assoc]

/-! ## ICMPv6 -/

/-- RFC 4443 §2.3: RFC 1071 over the IPv6 pseudo header (next header 58) and the message with a zero checksum -/
def icmp6CsumSpec (src dst : Bytes) (h : Icmp) (payload : Bytes) : Nat :=
  rfc1071 (pseudo6 src dst (payload.length + 4) 58 ++ (icmpPre h ++ 0 :: 0 :: payload))

def icmp6Bytes (src dst : Bytes) (h : Icmp) (payload : Bytes) : Bytes :=
  icmpPre h ++ be16 (icmp6CsumSpec src dst h payload)

theorem icmp6Hdr_ok (src dst : Bytes) (h : Icmp) (payload : Bytes) (hs : src.length = 16) (hd : dst.length = 16)
    (hf : h.Fits) (hn : payload.length + 4 ≤ 131000) :
    icmp6Hdr src dst h payload
      = .ok ({ h with csum := icmp6CsumSpec src dst h payload }, icmp6Bytes src dst h payload) := by
  have ep : encode icmp6PseudoL [.num (payload.length + 4), .num 0, .num 0, .num 58, .num h.type, .num h.code, .num 0]
      = some (beEnc 4 (payload.length + 4) ++ (be16 0 ++ (beEnc 1 0 ++ (beEnc 1 58 ++ (icmpPre h ++ be16 0))))) := by
    have : payload.length + 4 < 4294967296 := by omega
    simp [icmp6PseudoL, encode, be16, icmpPre, this, hf.type, hf.code]
  have ec := icmp_encode h hf (icmp6CsumSpec src dst h payload) (rfc1071_lt _)
  have hdata : (src ++ (dst ++ (beEnc 4 (payload.length + 4) ++ (be16 0 ++ (beEnc 1 0 ++ (beEnc 1 58 ++ (icmpPre h ++ be16 0)))))))
        ++ payload = (pseudo6 src dst (payload.length + 4) 58 ++ icmpPre h) ++ 0 :: 0 :: payload := by
    simp [pseudo6, be16_zero, List.append_assoc]
  have hpl : (icmpPre h).length = 2 := by simp [icmpPre]
  have hlen : ((pseudo6 src dst (payload.length + 4) 58 ++ icmpPre h) ++ 0 :: 0 :: payload).length ≤ 131072 := by
    simp [pseudo6_length _ _ _ _ hs hd, hpl]; omega
  have hz := zeroWord_already 21 (pseudo6 src dst (payload.length + 4) 58 ++ icmpPre h) payload
    (by simp [pseudo6_length _ _ _ _ hs hd, hpl])
  unfold icmp6Hdr
  simp only [pk_of_encode ep, bind, Except.bind, pure, Except.pure]
  rw [hdata, checksum_skip_eq _ 21 hlen, hz]
  have hspec : rfc1071 ((pseudo6 src dst (payload.length + 4) 58 ++ icmpPre h) ++ 0 :: 0 :: payload)
      = icmp6CsumSpec src dst h payload := by simp [icmp6CsumSpec, List.append_assoc]
  rw [hspec]
  simp only [pk_of_encode ec]
  rfl

/-- message types whose bodies are parsed by classes outside the model (errors and NDP, finding D47) -/
def icmp6Plain (h : Icmp) : Prop :=
  h.type ≠ 1 ∧ h.type ≠ 2 ∧ h.type ≠ 3 ∧ h.type ≠ 133 ∧ h.type ≠ 134 ∧ h.type ≠ 135 ∧ h.type ≠ 136

/-- `icmpv6(raw = hdr + payload, prev = the IPv6 header)`: the receiver-side verification (`checksum_ok`) accepts what
`hdr` emitted, the fields come back, echo messages go on to `echo` -/
theorem icmp6_parse (next : XNext) (src dst : Bytes) (nh : Nat) (h : Icmp) (payload : Bytes) (hs : src.length = 16)
    (hd : dst.length = 16) (hf : h.Fits) (hp : icmp6Plain h) (hn : payload.length + 4 ≤ 131000) :
    icmp6Parse (some (.v6 src dst nh)) next (icmp6Bytes src dst h payload ++ payload)
      = .icmp6 { h with csum := icmp6CsumSpec src dst h payload }
          (if h.type = 128 ∨ h.type = 129 then next none .echo6 payload else .raw payload) := by
  have hcs : icmp6CsumSpec src dst h payload < 65536 := rfc1071_lt _
  have he := icmp_encode h hf _ hcs
  obtain ⟨hu, hdr, hl4⟩ := unpack_take icmpL _ _ payload he (icmp_fits h hf _ hcs)
  have hsz : size icmpL = 4 := rfl
  rw [hsz] at hu hdr hl4
  have hlen : (icmp6Bytes src dst h payload ++ payload).length = 4 + payload.length := by
    unfold icmp6Bytes; rw [List.length_append, hl4]
  have ep := pseudo6_encode (4 + payload.length) 58 (by omega) (by decide)
  have hpl : (icmpPre h).length = 2 := by simp [icmpPre]
  -- the verification sum
  have hver : checksum ((src ++ (dst ++ (beEnc 4 (4 + payload.length) ++ (be16 0 ++ (beEnc 1 0 ++ beEnc 1 58)))))
        ++ (icmp6Bytes src dst h payload ++ payload)) 0 (some 21) = icmp6CsumSpec src dst h payload := by
    have hdata : (src ++ (dst ++ (beEnc 4 (4 + payload.length) ++ (be16 0 ++ (beEnc 1 0 ++ beEnc 1 58)))))
          ++ (icmp6Bytes src dst h payload ++ payload)
        = (pseudo6 src dst (payload.length + 4) 58 ++ icmpPre h) ++ (be16 (icmp6CsumSpec src dst h payload) ++ payload) := by
      simp [pseudo6, icmp6Bytes, List.append_assoc, Nat.add_comm]
    have hlen2 : ((pseudo6 src dst (payload.length + 4) 58 ++ icmpPre h)
        ++ (be16 (icmp6CsumSpec src dst h payload) ++ payload)).length ≤ 131072 := by
      simp [pseudo6_length _ _ _ _ hs hd, hpl]; omega
    rw [hdata, checksum_skip_eq _ 21 hlen2, be16_eq _ hcs]
    simp only [List.cons_append, List.nil_append]
    rw [zeroWord_at 21 _ _ _ _ (by simp [pseudo6_length _ _ _ _ hs hd, hpl])]
    simp [icmp6CsumSpec, List.append_assoc]
  obtain ⟨p1, p2, p3, p4, p5, p6, p7⟩ := hp
  unfold icmp6Parse
  simp only [hlen]
  unfold icmp6Bytes at hver ⊢
  simp only [hu, hdr, pk_of_encode ep, hver]
  have c0 : ¬ (4 + payload.length < 4) := by omega
  simp [c0, p1, p2, p3, p4, p5, p6, p7]
  split <;> rfl

theorem echo6_parse (h : Echo) (payload : Bytes) (hf : h.Fits) :
    echo6Parse (echoBytes h ++ payload) = .echo6 h (.raw payload) := by
  have hfit : fits echoL [.num h.id, .num h.seq] := by simp [echoL, fits, hf.id, hf.seq]
  obtain ⟨hu, hd, hl⟩ := unpack_take echoL _ _ payload (echo_encode h hf) hfit
  have hsz : size echoL = 4 := rfl
  rw [hsz] at hu hd hl
  unfold echo6Parse
  simp only [hu, hd, List.length_append, hl]
  have c1 : ¬ (4 + payload.length < 4) := by omega
  simp [c1]

/-! ## IGMP v1/v2 messages (query, reports, leave) -/

structure Igmp.Fits2 (h : Igmp) (a : Nat) : Prop where
  vt : h.vt = 0x11 ∨ h.vt = 0x12 ∨ h.vt = 0x16 ∨ h.vt = 0x17
  mrt : h.mrt < 256
  addr : h.addr = some a
  addrR : a < 4294967296
  groups : h.groups = []
  extra : h.extra.length + 8 ≤ 131072

def igmpPre (h : Igmp) : Bytes := beEnc 1 h.vt ++ beEnc 1 h.mrt

/-- RFC 2236 §2.3: RFC 1071 over the whole message with a zero checksum -/
def igmp2CsumSpec (h : Igmp) (a : Nat) : Nat := rfc1071 (igmpPre h ++ 0 :: 0 :: (beEnc 4 a ++ h.extra))

def igmp2Bytes (h : Igmp) (a : Nat) : Bytes := igmpPre h ++ (be16 (igmp2CsumSpec h a) ++ (beEnc 4 a ++ h.extra))

theorem igmp2_encode (h : Igmp) (a c : Nat) (hf : h.Fits2 a) (hc : c < 65536) :
    encode igmp2L [.num h.vt, .num h.mrt, .num c, .num a] = some (igmpPre h ++ (be16 c ++ beEnc 4 a)) := by
  have hv : h.vt < 256 := by rcases hf.vt with e | e | e | e <;> rw [e] <;> decide
  simp [igmp2L, encode, igmpPre, be16, hv, hf.mrt, hc, hf.addrR]

theorem igmp2_checksum (h : Igmp) (a : Nat) (hf : h.Fits2 a) :
    checksum ((igmpPre h ++ (be16 0 ++ beEnc 4 a)) ++ h.extra) 0 none = igmp2CsumSpec h a := by
  have hdata : (igmpPre h ++ (be16 0 ++ beEnc 4 a)) ++ h.extra = igmpPre h ++ 0 :: 0 :: (beEnc 4 a ++ h.extra) := by
    simp [be16_zero, List.append_assoc]
  have hlen : (igmpPre h ++ 0 :: 0 :: (beEnc 4 a ++ h.extra)).length ≤ 131072 := by
    have := hf.extra; simp [igmpPre]; omega
  rw [hdata, checksum_eq _ hlen]; rfl

theorem igmpHdr_v2_ok (h : Igmp) (a : Nat) (hf : h.Fits2 a) :
    igmpHdr h = .ok ({ h with csum := igmp2CsumSpec h a }, igmp2Bytes h a) := by
  have hv : h.vt ≠ 0x22 := by rcases hf.vt with e | e | e | e <;> rw [e] <;> decide
  have e0 := igmp2_encode h a 0 hf (by decide)
  have ec := igmp2_encode h a (igmp2CsumSpec h a) hf (rfc1071_lt _)
  unfold igmpHdr
  simp only [hv, if_false, hf.addr, pk_of_encode e0, bind, Except.bind, pure, Except.pure, igmp2_checksum h a hf,
    pk_of_encode ec]
  simp [igmp2Bytes, List.append_assoc]

theorem igmp2_verifies (h : Igmp) (a : Nat) : rfc1071 (igmp2Bytes h a) = 0 := by
  unfold igmp2Bytes igmp2CsumSpec
  rw [← List.append_assoc]
  exact rfc1071_verifies _ _ (by simp [igmpPre])

/-- `igmp(raw = hdr)`: the receiver-side checksum test accepts the message; type, response time, address and any
trailing bytes come back -/
theorem igmp_v2_parse (h : Igmp) (a : Nat) (hf : h.Fits2 a) :
    igmpParse (igmp2Bytes h a) = .igmp { h with csum := igmp2CsumSpec h a } := by
  have hv : h.vt < 256 := by rcases hf.vt with e | e | e | e <;> rw [e] <;> decide
  have hv22 : h.vt ≠ 0x22 := by rcases hf.vt with e | e | e | e <;> rw [e] <;> decide
  have hcs : igmp2CsumSpec h a < 65536 := rfc1071_lt _
  have hfit : fits igmp2L [.num h.vt, .num h.mrt, .num (igmp2CsumSpec h a), .num a] := by
    simp [igmp2L, fits, hv, hf.mrt, hcs, hf.addrR]
  have he := igmp2_encode h a _ hf hcs
  obtain ⟨hu, hd, hl⟩ := unpack_take igmp2L _ _ h.extra he hfit
  have hsz : size igmp2L = 8 := rfl
  rw [hsz] at hu hd hl
  have hraw : igmp2Bytes h a = (igmpPre h ++ (be16 (igmp2CsumSpec h a) ++ beEnc 4 a)) ++ h.extra := by
    simp [igmp2Bytes, List.append_assoc]
  have hhead : ((igmp2Bytes h a).headD 0).toNat = h.vt := by
    simp [igmp2Bytes, igmpPre, beEnc, Nat.mod_eq_of_lt hv]
  have hlen : (igmp2Bytes h a).length = 8 + h.extra.length := by rw [hraw, List.length_append, hl]
  have e0 := igmp2_encode h a 0 hf (by decide)
  unfold igmpParse
  rw [hhead, hlen]
  have c0 : ¬ (8 + h.extra.length < 8) := by omega
  simp only [c0, if_false, hv22, hf.vt, if_true]
  rw [hraw, hu, hd]
  simp only [pk_of_encode e0, igmp2_checksum h a hf]
  have hg := hf.groups; have ha := hf.addr
  cases h
  simp_all

/-! ## RIP -/

structure RipEntry.Fits (e : RipEntry) : Prop where
  af : e.af < 65536
  tag : e.tag < 65536
  ip : e.ip < 4294967296
  mask : e.mask < 4294967296
  nh : e.nh < 4294967296
  metricLo : -2147483648 ≤ e.metric          -- struct 'i' (metrics ≥ 2^31 cannot be packed: finding D50)
  metricHi : e.metric < 2147483648

def ripEntryBytes (e : RipEntry) : Bytes :=
  be16 e.af ++ (be16 e.tag ++ (beEnc 4 e.ip ++ (beEnc 4 e.mask ++ (beEnc 4 e.nh ++ beEnc 4 (e.metric % 4294967296).toNat))))

def ripEntriesBytes : List RipEntry → Bytes
  | [] => []
  | e :: r => ripEntryBytes e ++ ripEntriesBytes r

theorem ripEntryBytes_length (e : RipEntry) : (ripEntryBytes e).length = 20 := by simp [ripEntryBytes]

theorem ripEntriesBytes_length (es : List RipEntry) : (ripEntriesBytes es).length = 20 * es.length := by
  induction es with
  | nil => rfl
  | cons e r ih => simp [ripEntriesBytes, ripEntryBytes_length, ih]; omega

theorem ripEntryPack_ok (e : RipEntry) (hf : e.Fits) : ripEntryPack e = .ok (ripEntryBytes e) := by
  have h1 := hf.metricLo; have h2 := hf.metricHi
  simp [ripEntryPack, packI32, pk, encode, ripEntryBytes, be16, hf.af, hf.tag, hf.ip, hf.mask, hf.nh, h1, h2, bind,
    Except.bind, pure, Except.pure]

theorem ripEntriesPack_ok (es : List RipEntry) (hf : ∀ e ∈ es, e.Fits) : ripEntriesPack es = .ok (ripEntriesBytes es) := by
  induction es with
  | nil => rfl
  | cons e r ih =>
    have ih' := ih (fun q hq => hf q (by simp [hq]))
    simp [ripEntriesPack, ripEntryPack_ok e (hf e (by simp)), ih', ripEntriesBytes, bind, Except.bind, pure, Except.pure]

theorem decI32_enc (m : Int) (h1 : -2147483648 ≤ m) (h2 : m < 2147483648) :
    decI32 (beEnc 4 (m % 4294967296).toNat) = m := by
  have hlt : (m % 4294967296).toNat < 256 ^ 4 := by
    have : (256 : Nat) ^ 4 = 4294967296 := by decide
    rw [this]; omega
  unfold decI32
  rw [beDec_beEnc 4 _ hlt]
  simp only []
  split <;> omega

theorem ripEntry_slices (e : RipEntry) (rest : Bytes) :
    (ripEntryBytes e ++ rest).take 2 = be16 e.af ∧ sl (ripEntryBytes e ++ rest) 2 4 = be16 e.tag ∧
    sl (ripEntryBytes e ++ rest) 4 8 = beEnc 4 e.ip ∧ sl (ripEntryBytes e ++ rest) 8 12 = beEnc 4 e.mask ∧
    sl (ripEntryBytes e ++ rest) 12 16 = beEnc 4 e.nh ∧
    sl (ripEntryBytes e ++ rest) 16 20 = beEnc 4 (e.metric % 4294967296).toNat ∧
    (ripEntryBytes e ++ rest).drop 20 = rest := by
  have t1 : (ripEntryBytes e ++ rest).take 2 = be16 e.af := by
    unfold ripEntryBytes; rw [List.append_assoc]; exact take_left _ _ 2 (by simp)
  have t2 : sl (ripEntryBytes e ++ rest) 2 4 = be16 e.tag := by
    unfold ripEntryBytes; simp only [List.append_assoc]
    exact sl_mid (be16 e.af) (be16 e.tag) _ 2 4 (by simp) (by simp)
  have t3 : sl (ripEntryBytes e ++ rest) 4 8 = beEnc 4 e.ip := by
    unfold ripEntryBytes; simp only [List.append_assoc]
    rw [← List.append_assoc (be16 _) (be16 _)]
    exact sl_mid (be16 e.af ++ be16 e.tag) (beEnc 4 e.ip) _ 4 8 (by simp) (by simp)
  have t4 : sl (ripEntryBytes e ++ rest) 8 12 = beEnc 4 e.mask := by
    unfold ripEntryBytes; simp only [List.append_assoc]
    rw [← List.append_assoc (be16 _) (be16 _), ← List.append_assoc (be16 _ ++ be16 _) (beEnc 4 _)]
    exact sl_mid ((be16 e.af ++ be16 e.tag) ++ beEnc 4 e.ip) (beEnc 4 e.mask) _ 8 12 (by simp) (by simp)
  have t5 : sl (ripEntryBytes e ++ rest) 12 16 = beEnc 4 e.nh := by
    unfold ripEntryBytes; simp only [List.append_assoc]
    rw [← List.append_assoc (be16 _) (be16 _), ← List.append_assoc (be16 _ ++ be16 _) (beEnc 4 _),
      ← List.append_assoc ((be16 _ ++ be16 _) ++ beEnc 4 _) (beEnc 4 _)]
    exact sl_mid (((be16 e.af ++ be16 e.tag) ++ beEnc 4 e.ip) ++ beEnc 4 e.mask) (beEnc 4 e.nh) _ 12 16 (by simp) (by simp)
  have t6 : sl (ripEntryBytes e ++ rest) 16 20 = beEnc 4 (e.metric % 4294967296).toNat := by
    unfold ripEntryBytes; simp only [List.append_assoc]
    rw [← List.append_assoc (be16 _) (be16 _), ← List.append_assoc (be16 _ ++ be16 _) (beEnc 4 _),
      ← List.append_assoc ((be16 _ ++ be16 _) ++ beEnc 4 _) (beEnc 4 _),
      ← List.append_assoc (((be16 _ ++ be16 _) ++ beEnc 4 _) ++ beEnc 4 _) (beEnc 4 _)]
    exact sl_mid ((((be16 e.af ++ be16 e.tag) ++ beEnc 4 e.ip) ++ beEnc 4 e.mask) ++ beEnc 4 e.nh) _ _ 16 20
      (by simp) (by simp)
  exact ⟨t1, t2, t3, t4, t5, t6, drop_left _ _ 20 (ripEntryBytes_length e).symm⟩

theorem ripEntry_decode (e : RipEntry) (hf : e.Fits) (rest : Bytes) :
    let b := ripEntryBytes e ++ rest
    (⟨beDec (b.take 2), beDec (sl b 2 4), beDec (sl b 4 8), beDec (sl b 8 12), beDec (sl b 12 16), decI32 (sl b 16 20)⟩ : RipEntry)
      = e ∧ b.drop 20 = rest := by
  obtain ⟨t1, t2, t3, t4, t5, t6, t7⟩ := ripEntry_slices e rest
  refine ⟨?_, t7⟩
  simp only [t1, t2, t3, t4, t5, t6, be16]
  rw [beDec_beEnc 2 _ (by simpa using hf.af), beDec_beEnc 2 _ (by simpa using hf.tag), beDec_beEnc 4 _ (by simpa using hf.ip),
    beDec_beEnc 4 _ (by simpa using hf.mask), beDec_beEnc 4 _ (by simpa using hf.nh), decI32_enc _ hf.metricLo hf.metricHi]

theorem ripEntriesParse_rt (es : List RipEntry) (hf : ∀ e ∈ es, e.Fits) :
    ∀ fuel, es.length < fuel → ripEntriesParse fuel (ripEntriesBytes es) = es := by
  induction es with
  | nil => intro fuel hfu; cases fuel with
    | zero => simp at hfu
    | succ f => simp [ripEntriesParse, ripEntriesBytes]
  | cons e r ih =>
    intro fuel hfu
    cases fuel with
    | zero => simp at hfu
    | succ f =>
      have hl : ¬ ((ripEntryBytes e ++ ripEntriesBytes r).length < 20) := by
        rw [List.length_append, ripEntryBytes_length]; omega
      obtain ⟨h1, h2⟩ := ripEntry_decode e (hf e (by simp)) (ripEntriesBytes r)
      simp only [ripEntriesBytes, ripEntriesParse, hl, if_false]
      rw [h1, h2, ih (fun q hq => hf q (by simp [hq])) f (by simp at hfu; omega)]

structure Rip.Fits (h : Rip) : Prop where
  command : h.command < 256
  version : h.version < 256
  entries : ∀ e ∈ h.entries, e.Fits
  nonempty : h.entries ≠ []                 -- `rip.parse` refuses messages shorter than one entry (MIN_LEN = 24)

def ripBytes (h : Rip) : Bytes := beEnc 1 h.command ++ (beEnc 1 h.version ++ be16 0) ++ ripEntriesBytes h.entries

theorem ripHdr_ok (h : Rip) (hf : h.Fits) : ripHdr h = .ok (ripBytes h) := by
  simp [ripHdr, pk, encode, ripEntriesPack_ok h.entries hf.entries, ripBytes, be16, hf.command, hf.version, bind,
    Except.bind, pure, Except.pure]

/-- the message is 4 + 20·n bytes and `rip(raw = hdr)` returns every entry (addresses, tag, signed metric) -/
theorem rip_parse (h : Rip) (hf : h.Fits) :
    (ripBytes h).length = 4 + 20 * h.entries.length ∧ ripParse (ripBytes h) = .rip h := by
  have hlen : (ripBytes h).length = 4 + 20 * h.entries.length := by
    simp [ripBytes, ripEntriesBytes_length]; omega
  refine ⟨hlen, ?_⟩
  have hne : 1 ≤ h.entries.length := by
    cases he : h.entries with
    | nil => exact absurd he hf.nonempty
    | cons _ _ => simp
  have hfit : fits [.uint 1, .uint 1, .uint 2] [.num h.command, .num h.version, .num 0] := by
    simp [fits, hf.command, hf.version]
  have he : encode [.uint 1, .uint 1, .uint 2] [.num h.command, .num h.version, .num 0]
      = some (beEnc 1 h.command ++ (beEnc 1 h.version ++ be16 0)) := by
    simp [encode, be16, hf.command, hf.version]
  obtain ⟨hu, hd, hl⟩ := unpack_take _ _ _ (ripEntriesBytes h.entries) he hfit
  have hsz : size [Field.uint 1, .uint 1, .uint 2] = 4 := rfl
  rw [hsz] at hu hd hl
  unfold ripParse
  rw [hlen]
  have c0 : ¬ (4 + 20 * h.entries.length < 24) := by omega
  unfold ripBytes
  simp only [c0, if_false, hu, hd]
  rw [ripEntriesParse_rt h.entries hf.entries _ (by omega)]
  simp

/-! ## variants: repairs D50 (unsigned RIP metric) and D49 (EAP request/response keep their body) -/

structure RipEntry.FitsU (e : RipEntry) : Prop where
  af : e.af < 65536
  tag : e.tag < 65536
  ip : e.ip < 4294967296
  mask : e.mask < 4294967296
  nh : e.nh < 4294967296
  metricLo : 0 ≤ e.metric                    -- struct 'I': the whole 32-bit wire range
  metricHi : e.metric < 4294967296

theorem ripEntryPackU_ok (e : RipEntry) (hf : e.FitsU) : ripEntryPackU e = .ok (ripEntryBytes e) := by
  have h1 := hf.metricLo; have h2 := hf.metricHi
  have hm : e.metric % 4294967296 = e.metric := by omega
  simp [ripEntryPackU, packU32m, pk, encode, ripEntryBytes, be16, hf.af, hf.tag, hf.ip, hf.mask, hf.nh, h1, h2, hm, bind,
    Except.bind, pure, Except.pure]

theorem ripEntriesPackU_ok (es : List RipEntry) (hf : ∀ e ∈ es, e.FitsU) : ripEntriesPackU es = .ok (ripEntriesBytes es) := by
  induction es with
  | nil => rfl
  | cons e r ih =>
    have ih' := ih (fun q hq => hf q (by simp [hq]))
    simp [ripEntriesPackU, ripEntryPackU_ok e (hf e (by simp)), ih', ripEntriesBytes, bind, Except.bind, pure, Except.pure]

theorem ripEntriesParseU_rt (es : List RipEntry) (hf : ∀ e ∈ es, e.FitsU) :
    ∀ fuel, es.length < fuel → ripEntriesParseU fuel (ripEntriesBytes es) = es := by
  induction es with
  | nil => intro fuel hfu; cases fuel with
    | zero => simp at hfu
    | succ f => simp [ripEntriesParseU, ripEntriesBytes]
  | cons e r ih =>
    intro fuel hfu
    cases fuel with
    | zero => simp at hfu
    | succ f =>
      have he := hf e (by simp)
      have hl : ¬ ((ripEntryBytes e ++ ripEntriesBytes r).length < 20) := by
        rw [List.length_append, ripEntryBytes_length]; omega
      obtain ⟨t1, t2, t3, t4, t5, t6, t7⟩ := ripEntry_slices e (ripEntriesBytes r)
      have h1 := he.metricLo; have h2 := he.metricHi
      have hlt : (e.metric % 4294967296).toNat < 256 ^ 4 := by
        have : (256 : Nat) ^ 4 = 4294967296 := by decide
        rw [this]; omega
      simp only [ripEntriesBytes, ripEntriesParseU, hl, if_false, t1, t2, t3, t4, t5, t6, t7, be16]
      rw [beDec_beEnc 2 _ (by simpa using he.af), beDec_beEnc 2 _ (by simpa using he.tag), beDec_beEnc 4 _ (by simpa using he.ip),
        beDec_beEnc 4 _ (by simpa using he.mask), beDec_beEnc 4 _ (by simpa using he.nh), beDec_beEnc 4 _ hlt,
        ih (fun q hq => hf q (by simp [hq])) f (by simp at hfu; omega)]
      have hm : ((e.metric % 4294967296).toNat : Int) = e.metric := by omega
      rw [hm]

structure Rip.FitsU (h : Rip) : Prop where
  command : h.command < 256
  version : h.version < 256
  entries : ∀ e ∈ h.entries, e.FitsU
  nonempty : h.entries ≠ []

theorem ripHdrU_ok (h : Rip) (hf : h.FitsU) : ripHdrU h = .ok (ripBytes h) := by
  simp [ripHdrU, pk, encode, ripEntriesPackU_ok h.entries hf.entries, ripBytes, be16, hf.command, hf.version, bind,
    Except.bind, pure, Except.pure]

theorem ripU_parse (h : Rip) (hf : h.FitsU) : ripParseU (ripBytes h) = .rip h := by
  have hlen : (ripBytes h).length = 4 + 20 * h.entries.length := by
    simp [ripBytes, ripEntriesBytes_length]; omega
  have hne : 1 ≤ h.entries.length := by
    cases he : h.entries with
    | nil => exact absurd he hf.nonempty
    | cons _ _ => simp
  have hfit : fits [.uint 1, .uint 1, .uint 2] [.num h.command, .num h.version, .num 0] := by
    simp [fits, hf.command, hf.version]
  have he : encode [.uint 1, .uint 1, .uint 2] [.num h.command, .num h.version, .num 0]
      = some (beEnc 1 h.command ++ (beEnc 1 h.version ++ be16 0)) := by
    simp [encode, be16, hf.command, hf.version]
  obtain ⟨hu, hd, hl⟩ := unpack_take _ _ _ (ripEntriesBytes h.entries) he hfit
  have hsz : size [Field.uint 1, .uint 1, .uint 2] = 4 := rfl
  rw [hsz] at hu hd hl
  unfold ripParseU
  rw [hlen]
  have c0 : ¬ (4 + 20 * h.entries.length < 24) := by omega
  unfold ripBytes
  simp only [c0, if_false, hu, hd]
  rw [ripEntriesParseU_rt h.entries hf.entries _ (by omega)]
  simp

/-- EAP with repair D49: what follows the 4-byte header of a request/response is its payload -/
theorem eapB_parse (h : Eap) (payload : Bytes) (hc : h.code < 256) (hi : h.id < 256) (hl : h.length < 65536) :
    eapParseB (eapBytes h ++ payload)
      = .eap h (if (h.code = 1 ∨ h.code = 2) ∧ payload ≠ [] then .raw payload else .nil) := by
  have hfit : fits eapolL [.num h.code, .num h.id, .num h.length] := by simp [eapolL, fits, hc, hi, hl]
  have he : encode eapolL [.num h.code, .num h.id, .num h.length] = some (eapBytes h) := by
    simp [eapolL, encode, eapBytes, be16, hc, hi, hl]
  obtain ⟨hu, hd, hl4⟩ := unpack_take eapolL _ _ payload he hfit
  have hsz : size eapolL = 4 := rfl
  rw [hsz] at hu hd hl4
  unfold eapParseB
  simp only [hu, hd, List.length_append, hl4]
  have c0 : ¬ (4 + payload.length < 4) := by omega
  have hiff : (4 + payload.length ≥ 5) ↔ payload ≠ [] := by
    cases payload <;> simp <;> omega
  simp only [c0, if_false, hiff]

end Pox.Packet
