import PoxModel.Model.PacketExt
import PoxModel.Proofs.TcpOpts
/-!
# Lemmas about the header models of `Model/PacketExt.lean` (C14 phase 2): closed forms of `hdr`, round trips through
`parse`, length and checksum fields.  Core only.
-/
namespace Pox.Packet
open Pox Pox.Layout Pox.Checksum

theorem be1 (n : Nat) : beEnc 1 n = [UInt8.ofNat n] := by simp [beEnc]

/-! ## MPLS -/

structure Mpls.Fits (h : Mpls) : Prop where
  label : h.label < 1048576
  tc : h.tc < 8
  s : h.s < 2
  ttl : h.ttl < 256

/-- label (20 bits), traffic class (3), bottom-of-stack (1), TTL (8): 16 + 8 + 8 bits as `struct '!HBB'` sees them -/
def mplsBytes (h : Mpls) : Bytes :=
  beEnc 2 (h.label / 16) ++ (beEnc 1 ((h.label % 16) * 16 + h.tc * 2 + h.s) ++ beEnc 1 h.ttl)

/-- what `mpls.parse` does with the rest: another label stack entry unless this one is the bottom (or < 4 bytes follow) -/
def mplsNext (next : XNext) (h : Mpls) (payload : Bytes) : XPkt :=
  if payload.length ≥ 4 ∧ h.s = 0 then next none .mpls payload else .raw payload

theorem mplsHdr_ok (h : Mpls) (hf : h.Fits) : mplsHdr h = .ok (mplsBytes h) := by
  have h1 := hf.label; have h2 := hf.tc; have h3 := hf.s; have h4 := hf.ttl
  have e1 : h.label % 1048576 = h.label := Nat.mod_eq_of_lt h1
  have e2 : h.tc % 8 = h.tc := Nat.mod_eq_of_lt h2
  have e3 : h.s % 2 = h.s := Nat.mod_eq_of_lt h3
  have e4 : h.ttl % 256 = h.ttl := Nat.mod_eq_of_lt h4
  have c1 : h.label / 16 < 65536 := by omega
  have c2 : h.label % 16 * 16 + h.tc * 2 + h.s < 256 := by omega
  unfold mplsHdr
  simp only [e1, e2, e3, e4]
  simp [pk, encode, mplsBytes, c1, c2, h4]

theorem mpls_parse (next : XNext) (h : Mpls) (payload : Bytes) (hf : h.Fits) :
    mplsParse next (mplsBytes h ++ payload) = .mpls h (mplsNext next h payload) := by
  have h1 := hf.label; have h2 := hf.tc; have h3 := hf.s; have h4 := hf.ttl
  have c1 : h.label / 16 < 65536 := by omega
  have c2 : h.label % 16 * 16 + h.tc * 2 + h.s < 256 := by omega
  have hfit : fits [.uint 2, .uint 1, .uint 1]
      [.num (h.label / 16), .num (h.label % 16 * 16 + h.tc * 2 + h.s), .num h.ttl] := by simp [fits, c1, c2, h4]
  have he : encode [.uint 2, .uint 1, .uint 1]
      [.num (h.label / 16), .num (h.label % 16 * 16 + h.tc * 2 + h.s), .num h.ttl] = some (mplsBytes h) := by
    simp [encode, mplsBytes, c1, c2, h4]
  obtain ⟨hu, hd, hl⟩ := unpack_take _ _ _ payload he hfit
  have hsz : size [Field.uint 2, .uint 1, .uint 1] = 4 := rfl
  rw [hsz] at hu hd hl
  unfold mplsParse mplsNext
  simp only [hu, hd, List.length_append, hl]
  have c0 : ¬ (4 + payload.length < 4) := by omega
  have e1 : (h.label % 16 * 16 + h.tc * 2 + h.s) % 2 = h.s := by omega
  have e2 : h.label / 16 * 16 + (h.label % 16 * 16 + h.tc * 2 + h.s) / 16 = h.label := by omega
  have e3 : (h.label % 16 * 16 + h.tc * 2 + h.s) % 16 / 2 = h.tc := by omega
  simp only [c0, if_false, e1, e2, e3]
  have hiff : (4 + payload.length ≥ 8 ∧ h.s = 0) ↔ (payload.length ≥ 4 ∧ h.s = 0) := by
    constructor <;> intro hh <;> exact ⟨by omega, hh.2⟩
  simp only [hiff]
  cases h
  split <;> rfl

/-! ## EAPOL, EAP (success/failure) -/

structure Eapol.Fits (h : Eapol) : Prop where
  version : h.version < 256
  type : h.type < 256
  bodylen : h.bodylen < 65536

def eapolBytes (h : Eapol) : Bytes := beEnc 1 h.version ++ (beEnc 1 h.type ++ be16 h.bodylen)

theorem eapol_encode (h : Eapol) (hf : h.Fits) :
    encode eapolL [.num h.version, .num h.type, .num h.bodylen] = some (eapolBytes h) := by
  simp [eapolL, encode, eapolBytes, be16, hf.version, hf.type, hf.bodylen]

theorem eapolHdr_ok (h : Eapol) (hf : h.Fits) : eapolHdr h = .ok (eapolBytes h) := pk_of_encode (eapol_encode h hf)

theorem eapol_parse (next : XNext) (h : Eapol) (payload : Bytes) (hf : h.Fits) :
    eapolParse next (eapolBytes h ++ payload)
      = .eapol h (if h.type = 0 then next none .eap payload else .nil) := by
  have hfit : fits eapolL [.num h.version, .num h.type, .num h.bodylen] := by
    simp [eapolL, fits, hf.version, hf.type, hf.bodylen]
  obtain ⟨hu, hd, hl⟩ := unpack_take eapolL _ _ payload (eapol_encode h hf) hfit
  have hsz : size eapolL = 4 := rfl
  rw [hsz] at hu hd hl
  unfold eapolParse
  simp only [hu, hd, List.length_append, hl]
  have c0 : ¬ (4 + payload.length < 4) := by omega
  simp [c0]

structure Eap.Fits (h : Eap) : Prop where
  code : h.code < 256
  notReq : h.code ≠ 1 ∧ h.code ≠ 2          -- requests/responses lose their type octet on re-pack (known finding D49)
  id : h.id < 256
  length : h.length < 65536

def eapBytes (h : Eap) : Bytes := beEnc 1 h.code ++ (beEnc 1 h.id ++ be16 h.length)

theorem eap_encode (h : Eap) (hf : h.Fits) : encode eapolL [.num h.code, .num h.id, .num h.length] = some (eapBytes h) := by
  simp [eapolL, encode, eapBytes, be16, hf.code, hf.id, hf.length]

theorem eapHdr_ok (h : Eap) (hf : h.Fits) : eapHdr h = .ok (eapBytes h) := pk_of_encode (eap_encode h hf)

theorem eap_parse (h : Eap) (hf : h.Fits) : eapParse (eapBytes h) = .eap h .nil := by
  have hfit : fits eapolL [.num h.code, .num h.id, .num h.length] := by simp [eapolL, fits, hf.code, hf.id, hf.length]
  obtain ⟨hu, hd, hl⟩ := unpack_take eapolL _ _ [] (eap_encode h hf) hfit
  have hsz : size eapolL = 4 := rfl
  rw [hsz] at hu hd hl
  simp only [List.append_nil] at hu hd
  unfold eapParse
  simp only [hu, hl]
  have := hf.notReq
  simp [this.1, this.2]

/-! ## VXLAN -/

def Vxlan.Fits (h : Vxlan) : Prop := ∀ v, h.vni = some v → v < 16777216

def vxlanBytes (h : Vxlan) : Bytes :=
  match h.vni with
  | some v => [8, 0, 0, 0] ++ (beEnc 3 v ++ [0])
  | none => [0, 0, 0, 0, 0, 0, 0, 0]

theorem vxlanHdr_ok (h : Vxlan) (hf : h.Fits) : vxlanHdr h = .ok (vxlanBytes h) := by
  cases hv : h.vni with
  | none => simp [vxlanHdr, vxlanBytes, hv, pk, encode, beEnc]
  | some v =>
    have hlt := hf v hv
    have c1 : v / 65536 % 256 < 256 := Nat.mod_lt _ (by decide)
    have c2 : v / 256 % 256 < 256 := Nat.mod_lt _ (by decide)
    have c3 : v % 256 < 256 := Nat.mod_lt _ (by decide)
    have a1 : v / 65536 % 256 = v / 65536 := Nat.mod_eq_of_lt (by omega)
    have a2 : v / 256 % 256 = v % 65536 / 256 := by omega
    have a3 : v % 256 = v % 65536 % 256 := by omega
    have e3 : beEnc 3 v = [UInt8.ofNat (v / 65536 % 256), UInt8.ofNat (v / 256 % 256), UInt8.ofNat (v % 256)] := by
      rw [a1, a2, a3]; simp [beEnc]
    unfold vxlanHdr vxlanBytes
    rw [hv]
    simp only [e3, Option.isSome, Option.getD, if_true]
    simp only [pk, encode, c1, c2, c3, Nat.pow_one, be1, if_true, Option.map]
    simp
theorem vxlanBytes_length (h : Vxlan) : (vxlanBytes h).length = 8 := by
  unfold vxlanBytes; cases h.vni <;> simp

theorem vxlan_parse (next : XNext) (h : Vxlan) (payload : Bytes) (hf : h.Fits) :
    vxlanParse next (vxlanBytes h ++ payload) = .vxlan h (next none (.core .eth) payload) := by
  have hl := vxlanBytes_length h
  have hlen : (vxlanBytes h ++ payload).length = 8 + payload.length := by simp [hl]
  have c0 : ¬ (8 + payload.length < 8) := by omega
  have hd : (vxlanBytes h ++ payload).drop 8 = payload := drop_left _ _ 8 hl.symm
  unfold vxlanParse
  rw [hlen]
  simp only [c0, if_false, hd]
  obtain ⟨vni⟩ := h
  cases vni with
  | none => simp [vxlanBytes, getU8]
  | some v =>
    have hlt := hf v rfl
    have hs : sl (vxlanBytes ⟨some v⟩ ++ payload) 4 7 = beEnc 3 v := by
      simp only [vxlanBytes]
      rw [List.append_assoc, List.append_assoc]
      exact sl_mid [8, 0, 0, 0] (beEnc 3 v) _ 4 7 (by simp) (by simp)
    have hg : getU8 (vxlanBytes ⟨some v⟩ ++ payload) 0 = some 8 := by simp [vxlanBytes, getU8]
    rw [hs, hg, beDec_beEnc 3 v (by simpa using hlt)]
    simp

/-! ## LLC / SNAP -/

/-- two control octets (I and S frames) or one (U frames): decided by the two low bits, llc.py:73 -/
def Llc.two (h : Llc) : Bool := h.control % 2 == 0 || h.control % 4 == 2

structure Llc.Fits (h : Llc) : Prop where
  dsap : h.dsap < 256
  ssap : h.ssap < 256
  control : h.control < (if h.two then 65536 else 256)
  length : h.length = (if h.two then 4 else 3) + (if h.oui.isSome then 5 else 0)
  snap : h.oui.isSome = true ↔ ((h.ssap / 2) * 2 = 0xaa ∧ (h.dsap / 2) * 2 = 0xaa)
  oui : ∀ o, h.oui = some o → o.length = 3
  ethType : if h.oui.isSome then h.ethType < 65536 else h.ethType = 0xffff

def llcCtl (h : Llc) : Bytes :=
  if h.two then [UInt8.ofNat (h.control % 256), UInt8.ofNat (h.control / 256)] else [UInt8.ofNat h.control]

def llcSnap (h : Llc) : Bytes :=
  match h.oui with
  | some o => o ++ be16 h.ethType
  | none => []

def llcBytes (h : Llc) : Bytes := [UInt8.ofNat h.dsap, UInt8.ofNat h.ssap] ++ (llcCtl h ++ llcSnap h)

/-- SNAP with the all-zero OUI carries an EtherType-demultiplexed payload (no nested LLC), anything else is opaque -/
def llcNext (next : XNext) (h : Llc) (payload : Bytes) : XPkt :=
  match h.oui with
  | some o => if o = [0, 0, 0] then lift (contOf next) (parseNext probe h.ethType payload false) else .raw payload
  | none => .raw payload

theorem llcHdr_ok (h : Llc) (hf : h.Fits) : llcHdr h = .ok (llcBytes h) := by
  have hd := hf.dsap; have hs := hf.ssap; have hc := hf.control; have hl := hf.length; have he := hf.ethType
  unfold llcHdr llcBytes llcCtl llcSnap
  cases ht : h.two <;> cases ho : h.oui <;> simp [ht, ho] at hc hl he ⊢
  · have c1 : ¬ (h.length = 8) := by omega
    simp [pk, encode, hd, hs, hc, hl, be1, bind, Except.bind, pure, Except.pure, Functor.map, Except.map]
  · simp [pk, encode, hd, hs, hc, hl, he, be1, be16, bind, Except.bind, pure, Except.pure, Functor.map, Except.map]
  · have c1 : h.control % 256 < 256 := Nat.mod_lt _ (by decide)
    have c2 : h.control / 256 % 256 = h.control / 256 := Nat.mod_eq_of_lt (by omega)
    have c3 : h.control / 256 < 256 := by omega
    simp [pk, encode, hd, hs, hl, c1, c2, c3, be1, bind, Except.bind, pure, Except.pure, Functor.map, Except.map]
  · have c1 : h.control % 256 < 256 := Nat.mod_lt _ (by decide)
    have c2 : h.control / 256 % 256 = h.control / 256 := Nat.mod_eq_of_lt (by omega)
    have c3 : h.control / 256 < 256 := by omega
    simp [pk, encode, hd, hs, hl, he, c1, c2, c3, be1, be16, bind, Except.bind, pure, Except.pure, Functor.map, Except.map]

theorem llcBytes_length (h : Llc) (hf : h.Fits) : (llcBytes h).length = h.length := by
  have hl := hf.length
  unfold llcBytes llcCtl llcSnap
  cases ht : h.two <;> cases ho : h.oui <;> simp [ht, ho] at hl ⊢
  · omega
  · have := hf.oui _ ho; omega
  · omega
  · have := hf.oui _ ho; omega

theorem llc_parse (next : XNext) (h : Llc) (payload : Bytes) (hf : h.Fits) :
    llcParse next (llcBytes h ++ payload) = .llc h (llcNext next h payload) := by
  have hd := hf.dsap; have hs := hf.ssap; have hc := hf.control; have hl := hf.length; have he := hf.ethType
  have hsn := hf.snap
  have hlen := llcBytes_length h hf
  obtain ⟨length, dsap, ssap, control, oui, ethType⟩ := h
  simp only at hd hs hc hl he hsn hlen
  have td : (UInt8.ofNat dsap).toNat = dsap := u8_toNat _ hd
  have ts : (UInt8.ofNat ssap).toNat = ssap := u8_toNat _ hs
  -- the control field as the parser reads it
  have hctl : ∀ (two : Bool), Llc.two ⟨length, dsap, ssap, control, oui, ethType⟩ = two →
      (((llcCtl ⟨length, dsap, ssap, control, oui, ethType⟩).headD 0).toNat % 2 == 0
        || ((llcCtl ⟨length, dsap, ssap, control, oui, ethType⟩).headD 0).toNat % 4 == 2) = two := by
    intro two ht
    unfold llcCtl
    rw [ht]
    cases two
    · simp only [Bool.false_eq_true, if_false, List.headD_cons]
      simp only [ht, Bool.false_eq_true, if_false] at hc
      rw [u8_toNat _ hc]; exact ht
    · simp only [if_true, List.headD_cons]
      rw [u8_toNat _ (Nat.mod_lt _ (by decide))]
      have : control % 256 % 2 = control % 2 := by omega
      have h4 : control % 256 % 4 = control % 4 := by omega
      rw [this, h4]; exact ht
  cases ht : Llc.two ⟨length, dsap, ssap, control, oui, ethType⟩ <;> cases oui with
  | none =>
    all_goals
      have hns : ¬ ((ssap / 2) * 2 = 0xaa ∧ (dsap / 2) * 2 = 0xaa) := by
        intro hh; have := hsn.mpr hh; simp at this
      simp only [ht, Option.isSome, Bool.false_eq_true, if_false, if_true] at hc hl he
      have hct := hctl _ ht
      simp only [llcCtl, ht, Bool.false_eq_true, if_false, if_true, List.headD_cons] at hct
      subst he
      simp only [llcBytes, llcCtl, llcSnap, llcNext, ht, Bool.false_eq_true, if_false, if_true, List.append_nil,
        List.cons_append, List.nil_append]
      unfold llcParse
      simp [getU8, td, ts, hct, hns, hl]
      try (rw [u8_toNat _ hc])
      try (have c1 : control % 256 < 256 := Nat.mod_lt _ (by decide)
           have c3 : control / 256 < 256 := by omega
           rw [u8_toNat _ c1, u8_toNat _ c3]; omega)
  | some o =>
    all_goals
      have hss : (ssap / 2) * 2 = 0xaa ∧ (dsap / 2) * 2 = 0xaa := hsn.mp rfl
      have ho3 := hf.oui o rfl
      simp only [ht, Option.isSome, Bool.false_eq_true, if_false, if_true] at hc hl he
      have hct := hctl _ ht
      simp only [llcCtl, ht, Bool.false_eq_true, if_false, if_true, List.headD_cons] at hct
      sorry

end Pox.Packet
