import PoxModel.Spec.OF10Match
set_option linter.unusedSimpArgs false
/-! `Spec.subsumes a b` (field-wise test) ⇔ every 12-tuple matched by `b` is matched by `a`.  About the Spec only.  Core only. -/
namespace Pox.Spec
open Pox.OF

/-- one flag field of `matchHdr`: compared (`sig`) ⇒ equal -/
def FOk (sig : Bool) (x y : Nat) : Bool := !sig || x == y
/-- one flag field of `subsumes` -/
def FSub (sa sb : Bool) (x y : Nat) : Bool := !sa || (sb && x == y)
/-- one address field of `subsumes` -/
def PSub (ka kb x y : Nat) : Bool := decide (kb ≤ ka) && prefixEq ka x y

theorem FOk_refl (s : Bool) (x : Nat) : FOk s x x = true := by simp [FOk]
theorem prefixEq_refl (k x : Nat) : prefixEq k x x = true := by simp [prefixEq]

theorem F_sound {sa sb : Bool} {x y z : Nat} (h1 : FSub sa sb x y = true) (h2 : FOk sb y z = true) : FOk sa x z = true := by
  cases sa <;> cases sb <;> simp_all [FSub, FOk]

theorem F_complete {sa sb : Bool} {x y : Nat} (h : FSub sa sb x y = false) :
    ∃ z, FOk sb y z = true ∧ FOk sa x z = false := by
  cases sa with
  | false => simp [FSub] at h
  | true =>
    cases sb with
    | false => exact ⟨x + 1, by simp [FOk], by simp [FOk]⟩
    | true =>
      have hne : x ≠ y := by simpa [FSub] using h
      exact ⟨y, by simp [FOk], by simp [FOk, hne]⟩

theorem div_pow_mono {x y k k' : Nat} (hk : k ≤ k') (h : x / 2 ^ k = y / 2 ^ k) : x / 2 ^ k' = y / 2 ^ k' := by
  obtain ⟨d, rfl⟩ := Nat.exists_eq_add_of_le hk
  rw [Nat.pow_add, ← Nat.div_div_eq_div_mul, ← Nat.div_div_eq_div_mul, h]

theorem P_sound {ka kb x y z : Nat} (h1 : PSub ka kb x y = true) (h2 : prefixEq kb y z = true) : prefixEq ka x z = true := by
  simp only [PSub, prefixEq, Bool.and_eq_true, Bool.or_eq_true, decide_eq_true_eq, beq_iff_eq] at *
  obtain ⟨hk, h1⟩ := h1
  rcases h1 with h1 | h1
  · exact .inl h1
  · rcases h2 with h2 | h2
    · exact .inl (by omega)
    · exact .inr (h1.trans (div_pow_mono hk h2))

theorem P_complete {ka kb x y : Nat} (h : PSub ka kb x y = false) (hkb : kb ≤ 32) :
    ∃ z, prefixEq kb y z = true ∧ prefixEq ka x z = false := by
  by_cases hk : kb ≤ ka
  · -- same or shorter prefix in `a`, but the addresses differ on it: `y` itself separates
    refine ⟨y, prefixEq_refl _ _, ?_⟩
    simpa [PSub, hk] using h
  · -- `a` compares bit `ka`, which `b` ignores: one of the two completions of `y`'s prefix differs from `x` there
    have hlt : ka < kb := by omega
    have hka : ¬ 32 ≤ ka := by omega
    obtain ⟨d, rfl⟩ := Nat.exists_eq_add_of_le (Nat.le_of_lt hlt)
    have hd : 0 < d := by omega
    let q := y / 2 ^ (ka + d)
    have hpos : 0 < 2 ^ ka := Nat.pow_pos (by decide)
    have e0 : (q * 2 ^ (ka + d)) / 2 ^ (ka + d) = q := Nat.mul_div_cancel _ (Nat.pow_pos (by decide))
    have hlt2 : 2 ^ ka < 2 ^ (ka + d) := Nat.pow_lt_pow_right (by decide) (by omega)
    have e1 : (q * 2 ^ (ka + d) + 2 ^ ka) / 2 ^ (ka + d) = q := by
      rw [Nat.add_comm, Nat.add_mul_div_right _ _ (Nat.pow_pos (by decide)), Nat.div_eq_of_lt hlt2, Nat.zero_add]
    have hsplit : q * 2 ^ (ka + d) = (q * 2 ^ d) * 2 ^ ka := by
      rw [Nat.pow_add, Nat.mul_comm (2 ^ ka), Nat.mul_assoc]
    have f0 : (q * 2 ^ (ka + d)) / 2 ^ ka = q * 2 ^ d := by
      rw [hsplit, Nat.mul_div_cancel _ hpos]
    have f1 : (q * 2 ^ (ka + d) + 2 ^ ka) / 2 ^ ka = q * 2 ^ d + 1 := by
      rw [hsplit, Nat.add_comm, Nat.add_mul_div_right _ _ hpos, Nat.div_self hpos, Nat.add_comm]
    by_cases hx : x / 2 ^ ka = q * 2 ^ d
    · refine ⟨q * 2 ^ (ka + d) + 2 ^ ka, ?_, ?_⟩
      · simp [prefixEq, e1, q]
      · simp [prefixEq, hka, f1, hx]
    · refine ⟨q * 2 ^ (ka + d), ?_, ?_⟩
      · simp [prefixEq, e0, q]
      · simp [prefixEq, hka, f0, hx]

theorem sig_simple (r : OfMatch) :
    significant r W_IN_PORT = !wild r W_IN_PORT ∧ significant r W_DL_SRC = !wild r W_DL_SRC ∧
    significant r W_DL_DST = !wild r W_DL_DST ∧ significant r W_DL_VLAN = !wild r W_DL_VLAN ∧
    significant r W_DL_VLAN_PCP = !wild r W_DL_VLAN_PCP ∧ significant r W_DL_TYPE = !wild r W_DL_TYPE ∧
    significant r W_NW_TOS = (!wild r W_NW_TOS && ipSpecified r) ∧ significant r W_NW_PROTO = (!wild r W_NW_PROTO && nwSpecified r) ∧
    significant r W_TP_SRC = (!wild r W_TP_SRC && tpSpecified r) ∧ significant r W_TP_DST = (!wild r W_TP_DST && tpSpecified r) := by
  simp [significant, W_IN_PORT, W_DL_SRC, W_DL_DST, W_DL_VLAN, W_DL_VLAN_PCP, W_DL_TYPE, W_NW_TOS, W_NW_PROTO, W_TP_SRC, W_TP_DST]

theorem pre_ign (sp : Bool) (k x y : Nat) : (!sp || prefixEq k x y) = prefixEq (if sp then k else 32) x y := by
  cases sp <;> simp [prefixEq]

theorem matchHdr_eq (r : OfMatch) (h : Headers) : matchHdr r h =
    (FOk (significant r W_IN_PORT) r.inPort h.inPort && FOk (significant r W_DL_SRC) r.dlSrc h.dlSrc &&
     FOk (significant r W_DL_DST) r.dlDst h.dlDst && FOk (significant r W_DL_VLAN) r.dlVlan h.dlVlan &&
     FOk (significant r W_DL_VLAN_PCP) r.dlVlanPcp h.dlVlanPcp && FOk (significant r W_DL_TYPE) r.dlType h.dlType &&
     FOk (significant r W_NW_TOS) (r.nwTos / 4) (h.nwTos / 4) && FOk (significant r W_NW_PROTO) r.nwProto h.nwProto &&
     prefixEq (srcIgn r) r.nwSrc h.nwSrc && prefixEq (dstIgn r) r.nwDst h.nwDst &&
     FOk (significant r W_TP_SRC) r.tpSrc h.tpSrc && FOk (significant r W_TP_DST) r.tpDst h.tpDst) := by
  obtain ⟨s1, s2, s3, s4, s5, s6, s7, s8, s9, s10⟩ := sig_simple r
  simp only [matchHdr, s1, s2, s3, s4, s5, s6, s7, s8, s9, s10, FOk, srcIgn, dstIgn, pre_ign, Bool.not_and, Bool.not_not]
  cases wild r W_NW_TOS <;> cases wild r W_NW_PROTO <;> cases wild r W_TP_SRC <;> cases wild r W_TP_DST <;>
    cases ipSpecified r <;> cases nwSpecified r <;> cases tpSpecified r <;> simp

theorem subsumes_eq (a b : OfMatch) : subsumes a b =
    (FSub (significant a W_IN_PORT) (significant b W_IN_PORT) a.inPort b.inPort &&
     FSub (significant a W_DL_SRC) (significant b W_DL_SRC) a.dlSrc b.dlSrc &&
     FSub (significant a W_DL_DST) (significant b W_DL_DST) a.dlDst b.dlDst &&
     FSub (significant a W_DL_VLAN) (significant b W_DL_VLAN) a.dlVlan b.dlVlan &&
     FSub (significant a W_DL_VLAN_PCP) (significant b W_DL_VLAN_PCP) a.dlVlanPcp b.dlVlanPcp &&
     FSub (significant a W_DL_TYPE) (significant b W_DL_TYPE) a.dlType b.dlType &&
     FSub (significant a W_NW_TOS) (significant b W_NW_TOS) (a.nwTos / 4) (b.nwTos / 4) &&
     FSub (significant a W_NW_PROTO) (significant b W_NW_PROTO) a.nwProto b.nwProto &&
     PSub (srcIgn a) (srcIgn b) a.nwSrc b.nwSrc && PSub (dstIgn a) (dstIgn b) a.nwDst b.nwDst &&
     FSub (significant a W_TP_SRC) (significant b W_TP_SRC) a.tpSrc b.tpSrc &&
     FSub (significant a W_TP_DST) (significant b W_TP_DST) a.tpDst b.tpDst) := by
  simp only [subsumes, FSub, PSub]

theorem srcIgn_le (r : OfMatch) : srcIgn r ≤ 32 := by unfold srcIgn srcIgnored; split <;> omega
theorem dstIgn_le (r : OfMatch) : dstIgn r ≤ 32 := by unfold dstIgn dstIgnored; split <;> omega

/-- the 12-tuple that carries `b`'s own field values -/
def selfHdr (b : OfMatch) : Headers :=
  { inPort := b.inPort, dlSrc := b.dlSrc, dlDst := b.dlDst, dlVlan := b.dlVlan, dlVlanPcp := b.dlVlanPcp, dlType := b.dlType,
    nwTos := b.nwTos, nwProto := b.nwProto, nwSrc := b.nwSrc, nwDst := b.nwDst, tpSrc := b.tpSrc, tpDst := b.tpDst }

/-- `Spec.subsumes a b` is subsumption: every 12-tuple `b` matches is matched by `a` -/
theorem subsumes_forall (a b : OfMatch) :
    subsumes a b = true ↔ ∀ h : Headers, matchHdr b h = true → matchHdr a h = true := by
  constructor
  · intro hs h hm
    rw [subsumes_eq] at hs
    rw [matchHdr_eq] at hm ⊢
    simp only [Bool.and_eq_true] at hs hm ⊢
    obtain ⟨⟨⟨⟨⟨⟨⟨⟨⟨⟨⟨s1, s2⟩, s3⟩, s4⟩, s5⟩, s6⟩, s7⟩, s8⟩, s9⟩, s10⟩, s11⟩, s12⟩ := hs
    obtain ⟨⟨⟨⟨⟨⟨⟨⟨⟨⟨⟨m1, m2⟩, m3⟩, m4⟩, m5⟩, m6⟩, m7⟩, m8⟩, m9⟩, m10⟩, m11⟩, m12⟩ := hm
    exact ⟨⟨⟨⟨⟨⟨⟨⟨⟨⟨⟨F_sound s1 m1, F_sound s2 m2⟩, F_sound s3 m3⟩, F_sound s4 m4⟩, F_sound s5 m5⟩, F_sound s6 m6⟩,
      F_sound s7 m7⟩, F_sound s8 m8⟩, P_sound s9 m9⟩, P_sound s10 m10⟩, F_sound s11 m11⟩, F_sound s12 m12⟩
  · intro hall
    have hb : ∀ h, matchHdr b h = true → matchHdr a h = true := hall
    rw [subsumes_eq]
    simp only [Bool.and_eq_true]
    -- for each field: if its test failed there would be a 12-tuple matched by `b` and not by `a`
    have key : ∀ h : Headers, matchHdr b h = true → matchHdr a h = false → False := by
      intro h h1 h2; rw [hb h h1] at h2; cases h2
    have self_ok : ∀ (s : Bool) (x : Nat), FOk s x x = true := FOk_refl
    refine ⟨⟨⟨⟨⟨⟨⟨⟨⟨⟨⟨?_, ?_⟩, ?_⟩, ?_⟩, ?_⟩, ?_⟩, ?_⟩, ?_⟩, ?_⟩, ?_⟩, ?_⟩, ?_⟩
    · apply Classical.byContradiction; intro hn
      obtain ⟨z, z1, z2⟩ := F_complete (by simpa using hn)
      apply key { selfHdr b with inPort := z }
      · rw [matchHdr_eq]; simp [selfHdr, FOk_refl, prefixEq_refl, z1]
      · rw [matchHdr_eq]; simp [selfHdr, z2]
    · apply Classical.byContradiction; intro hn
      obtain ⟨z, z1, z2⟩ := F_complete (by simpa using hn)
      apply key { selfHdr b with dlSrc := z }
      · rw [matchHdr_eq]; simp [selfHdr, FOk_refl, prefixEq_refl, z1]
      · rw [matchHdr_eq]; simp [selfHdr, z2]
    · apply Classical.byContradiction; intro hn
      obtain ⟨z, z1, z2⟩ := F_complete (by simpa using hn)
      apply key { selfHdr b with dlDst := z }
      · rw [matchHdr_eq]; simp [selfHdr, FOk_refl, prefixEq_refl, z1]
      · rw [matchHdr_eq]; simp [selfHdr, z2]
    · apply Classical.byContradiction; intro hn
      obtain ⟨z, z1, z2⟩ := F_complete (by simpa using hn)
      apply key { selfHdr b with dlVlan := z }
      · rw [matchHdr_eq]; simp [selfHdr, FOk_refl, prefixEq_refl, z1]
      · rw [matchHdr_eq]; simp [selfHdr, z2]
    · apply Classical.byContradiction; intro hn
      obtain ⟨z, z1, z2⟩ := F_complete (by simpa using hn)
      apply key { selfHdr b with dlVlanPcp := z }
      · rw [matchHdr_eq]; simp [selfHdr, FOk_refl, prefixEq_refl, z1]
      · rw [matchHdr_eq]; simp [selfHdr, z2]
    · apply Classical.byContradiction; intro hn
      obtain ⟨z, z1, z2⟩ := F_complete (by simpa using hn)
      apply key { selfHdr b with dlType := z }
      · rw [matchHdr_eq]; simp [selfHdr, FOk_refl, prefixEq_refl, z1]
      · rw [matchHdr_eq]; simp [selfHdr, z2]
    · apply Classical.byContradiction; intro hn
      obtain ⟨z, z1, z2⟩ := F_complete (by simpa using hn)
      apply key { selfHdr b with nwTos := z * 4 }
      · rw [matchHdr_eq]; simp [selfHdr, FOk_refl, prefixEq_refl, z1]
      · rw [matchHdr_eq]; simp [selfHdr, z2]
    · apply Classical.byContradiction; intro hn
      obtain ⟨z, z1, z2⟩ := F_complete (by simpa using hn)
      apply key { selfHdr b with nwProto := z }
      · rw [matchHdr_eq]; simp [selfHdr, FOk_refl, prefixEq_refl, z1]
      · rw [matchHdr_eq]; simp [selfHdr, z2]
    · apply Classical.byContradiction; intro hn
      obtain ⟨z, z1, z2⟩ := P_complete (by simpa using hn) (srcIgn_le b)
      apply key { selfHdr b with nwSrc := z }
      · rw [matchHdr_eq]; simp [selfHdr, FOk_refl, prefixEq_refl, z1]
      · rw [matchHdr_eq]; simp [selfHdr, z2]
    · apply Classical.byContradiction; intro hn
      obtain ⟨z, z1, z2⟩ := P_complete (by simpa using hn) (dstIgn_le b)
      apply key { selfHdr b with nwDst := z }
      · rw [matchHdr_eq]; simp [selfHdr, FOk_refl, prefixEq_refl, z1]
      · rw [matchHdr_eq]; simp [selfHdr, z2]
    · apply Classical.byContradiction; intro hn
      obtain ⟨z, z1, z2⟩ := F_complete (by simpa using hn)
      apply key { selfHdr b with tpSrc := z }
      · rw [matchHdr_eq]; simp [selfHdr, FOk_refl, prefixEq_refl, z1]
      · rw [matchHdr_eq]; simp [selfHdr, z2]
    · apply Classical.byContradiction; intro hn
      obtain ⟨z, z1, z2⟩ := F_complete (by simpa using hn)
      apply key { selfHdr b with tpDst := z }
      · rw [matchHdr_eq]; simp [selfHdr, FOk_refl, prefixEq_refl, z1]
      · rw [matchHdr_eq]; simp [selfHdr, z2]

end Pox.Spec
