import PoxModel.Model.IPv6Ext
/-! Round trip of IPv6 extension-header chains (C14): helper lemmas.  Core only. -/
namespace Pox.IPv6Ext

/-- what a caller must respect for `pack()` to be defined and to describe the object: the body of a Fragment header has
    7 octets; a normal header's `payload_length` is the length of its body, which fills the header up to a multiple of 8
    octets (RFC 8200 §4) and fits the length octet -/
structure Ext.WF (e : Ext) : Prop where
  nh : e.nh < 256
  frag : e.ty = 44 → e.body.length = 7 ∧ e.plen = 0
  norm : e.ty ≠ 44 → (e.ty = 0 ∨ e.ty = 43 ∨ e.ty = 60) ∧ e.body.length = e.plen ∧ e.plen % 8 = 6 ∧ e.plen / 8 < 256

/-- the chain is linked: the type announced in front of each header is its class, the last one announces `p` -/
def Linked : Nat → List Ext → Nat → Prop
  | t, [], p => t = p
  | t, e :: es, p => e.ty = t ∧ Linked e.nh es p

theorem lenField_wf {plen : Nat} (h : plen % 8 = 6) : lenField plen = plen / 8 := by
  unfold lenField; omega

theorem u8 (n : Nat) (h : n < 256) : (UInt8.ofNat n).toNat = n := by
  simp [Nat.mod_eq_of_lt h]

theorem pack_wf (e : Ext) (h : e.WF) :
    ∃ b, e.pack = some b ∧ 8 ≤ b.length ∧ e.pyLen ≤ b.length ∧
      (e.ty = 44 → b = UInt8.ofNat e.nh :: e.body) ∧
      (e.ty ≠ 44 → b = UInt8.ofNat e.nh :: UInt8.ofNat (e.plen / 8) :: e.body) := by
  by_cases ht : e.ty = 44
  · obtain ⟨hb, _⟩ := h.frag ht
    refine ⟨UInt8.ofNat e.nh :: e.body, by simp [Ext.pack, ht, h.nh, hb], by simp [hb], by simp [Ext.pyLen, ht, hb],
      fun _ => rfl, fun hn => absurd ht hn⟩
  · obtain ⟨_, hb, hm, hd⟩ := h.norm ht
    have hl := lenField_wf hm
    refine ⟨UInt8.ofNat e.nh :: UInt8.ofNat (e.plen / 8) :: e.body, by simp [Ext.pack, ht, h.nh, hl, hd], ?_, ?_,
      fun hn => absurd hn ht, fun _ => rfl⟩
    · simp [hb]; omega
    · simp [Ext.pyLen, ht, hl, hb]; omega

theorem isExt_of_wf (e : Ext) (h : e.WF) : isExt e.ty = true := by
  by_cases ht : e.ty = 44
  · simp [isExt, ht]
  · obtain ⟨h3, _⟩ := h.norm ht
    rcases h3 with h3 | h3 | h3 <;> simp [isExt, h3]

theorem getElem?_append_at (pre : Bytes) (x : UInt8) (tl : Bytes) : (pre ++ x :: tl)[pre.length]? = some x := by
  simp

theorem getElem?_append_at1 (pre : Bytes) (x y : UInt8) (tl : Bytes) : (pre ++ x :: y :: tl)[pre.length + 1]? = some y := by
  rw [List.getElem?_append_right (by omega)]
  simp

theorem slice_mid (pre mid tl : Bytes) (a : Nat) (ha : a = pre.length) (b : Nat) (hb : b = pre.length + mid.length) :
    slice (pre ++ mid ++ tl) a b = mid := by
  subst ha hb
  unfold slice
  rw [List.append_assoc, List.drop_left]
  simp

/-- unpacking the packed form of a well-formed header that sits at `pre.length` gives the header back -/
theorem unpackNew_pack (e : Ext) (h : e.WF) (b : Bytes) (hb : e.pack = some b) (pre tl : Bytes) (maxLen : Nat)
    (hm : b.length ≤ maxLen) :
    unpackNew e.ty (pre ++ b ++ tl) pre.length maxLen = some (pre.length + b.length, e) := by
  obtain ⟨b', hb', h8, _, hf, hn⟩ := pack_wf e h
  rw [hb] at hb'; cases hb'
  by_cases ht : e.ty = 44
  · obtain ⟨hbl, hp⟩ := h.frag ht
    have hbb := hf ht
    subst hbb
    have hlen : (UInt8.ofNat e.nh :: e.body).length = 8 := by simp [hbl]
    unfold unpackNew
    have h1 : ¬ maxLen < 8 := by omega
    have h2 : ¬ (pre ++ UInt8.ofNat e.nh :: e.body ++ tl).length - pre.length < 8 := by
      simp only [List.length_append, List.length_cons]; omega
    have h3 : (pre ++ UInt8.ofNat e.nh :: e.body ++ tl)[pre.length]? = some (UInt8.ofNat e.nh) := by
      rw [List.append_assoc]; simp
    simp only [ht, if_true, h1, h2, if_false, h3]
    have hs : slice (pre ++ UInt8.ofNat e.nh :: e.body ++ tl) (pre.length + 1) (pre.length + 8) = e.body := by
      have := slice_mid (pre ++ [UInt8.ofNat e.nh]) e.body tl (pre.length + 1) (by simp) (pre.length + 8) (by simp [hbl])
      simpa [List.append_assoc] using this
    rw [hs, u8 _ h.nh, hlen]
    cases e; simp_all
  · obtain ⟨_, hbl, hmod, hdiv⟩ := h.norm ht
    have hbb := hn ht
    subst hbb
    have hlen : (UInt8.ofNat e.nh :: UInt8.ofNat (e.plen / 8) :: e.body).length = 2 + e.plen := by simp [hbl]; omega
    have hl : (UInt8.ofNat (e.plen / 8)).toNat * 8 + 6 = e.plen := by rw [u8 _ hdiv]; omega
    unfold unpackNew
    have h1 : ¬ (maxLen ≠ 0 ∧ maxLen < 2) := by omega
    have h2 : ¬ (pre ++ UInt8.ofNat e.nh :: UInt8.ofNat (e.plen / 8) :: e.body ++ tl).length - pre.length < 2 := by
      simp only [List.length_append, List.length_cons]; omega
    have h3 : (pre ++ UInt8.ofNat e.nh :: UInt8.ofNat (e.plen / 8) :: e.body ++ tl)[pre.length]? = some (UInt8.ofNat e.nh) := by
      rw [List.append_assoc]; simp
    have h4 : (pre ++ UInt8.ofNat e.nh :: UInt8.ofNat (e.plen / 8) :: e.body ++ tl)[pre.length + 1]? =
        some (UInt8.ofNat (e.plen / 8)) := by
      rw [List.append_assoc]; exact getElem?_append_at1 pre _ _ _
    simp only [ht, if_false, h1, h2, h3, h4, hl]
    have h5 : ¬ (maxLen < 2 ∨ maxLen - 2 < e.plen) := by omega
    simp only [h5, if_false]
    have hs : slice (pre ++ UInt8.ofNat e.nh :: UInt8.ofNat (e.plen / 8) :: e.body ++ tl) (pre.length + 2)
        (pre.length + 2 + e.plen) = e.body := by
      have := slice_mid (pre ++ [UInt8.ofNat e.nh, UInt8.ofNat (e.plen / 8)]) e.body tl (pre.length + 2) (by simp)
        (pre.length + 2 + e.plen) (by simp [hbl])
      simpa [List.append_assoc] using this
    rw [hs, u8 _ h.nh, hlen]
    have : pre.length + 2 + e.plen = pre.length + (2 + e.plen) := by omega
    rw [this]

/-- the loop over a well-formed linked chain that sits at `pre.length`, followed by `tl` -/
theorem parseLoop_chain : ∀ (exts : List Ext) (packed : Bytes) (t p : Nat) (pre tl : Bytes) (acc : List Ext) (fuel length : Nat),
    (∀ e ∈ exts, e.WF) → Linked t exts p → isExt p = false → packExts exts = some packed →
    exts.length < fuel → packed.length + tl.length ≤ length →
    ∃ length', parseLoop fuel (pre ++ packed ++ tl) acc t pre.length length =
        .ok (acc.reverse ++ exts) p (pre.length + packed.length) length' ∧ tl.length ≤ length'
  | [], packed, t, p, pre, tl, acc, fuel, length, _, hl, hp, hk, hf, hlen => by
    simp only [packExts] at hk; cases hk
    have ht : t = p := hl
    subst ht
    obtain ⟨f, rfl⟩ : ∃ f, fuel = f + 1 := ⟨fuel - 1, by simp at hf; omega⟩
    refine ⟨length, ?_, by simpa using hlen⟩
    unfold parseLoop
    by_cases h59 : t = 59
    · simp [h59]
    · simp [h59, hp]
  | e :: es, packed, t, p, pre, tl, acc, fuel, length, hw, hl, hp, hk, hf, hlen => by
    obtain ⟨hty, hl'⟩ := hl
    have hwe := hw e (by simp)
    obtain ⟨b, hb, h8, hpy, _, _⟩ := pack_wf e hwe
    simp only [packExts, hb] at hk
    cases hr : packExts es with
    | none => simp [hr] at hk
    | some rest =>
      simp [hr] at hk; subst hk
      obtain ⟨f, rfl⟩ : ∃ f, fuel = f + 1 := ⟨fuel - 1, by simp at hf; omega⟩
      have hlen' : b.length + rest.length + tl.length ≤ length := by simpa [List.length_append, Nat.add_assoc] using hlen
      have hext : isExt t = true := hty ▸ isExt_of_wf e hwe
      have h59 : t ≠ 59 := by intro h; rw [h] at hext; simp [isExt] at hext
      have hun := unpackNew_pack e hwe b hb pre (rest ++ tl) length (by omega)
      rw [hty] at hun
      obtain ⟨length', hrec, hge⟩ := parseLoop_chain es rest e.nh p (pre ++ b) tl (e :: acc) f (length - e.pyLen)
        (fun x hx => hw x (by simp [hx])) hl' hp hr (by simp at hf; omega) (by omega)
      refine ⟨length', ?_, hge⟩
      unfold parseLoop
      have hraw : pre ++ (b ++ rest) ++ tl = pre ++ b ++ (rest ++ tl) := by simp [List.append_assoc]
      have hl8 : ¬ length < 8 := by omega
      simp only [h59, if_false, hext, if_true, hl8, hraw, hun]
      have hraw2 : pre ++ b ++ (rest ++ tl) = pre ++ b ++ rest ++ tl := by simp [List.append_assoc]
      have hoff : pre.length + b.length = (pre ++ b).length := by simp
      rw [hraw2, hoff, hrec]
      simp [List.append_assoc, Nat.add_assoc]

end Pox.IPv6Ext

namespace Pox.IPv6Ext

theorem packExts_wf : ∀ (exts : List Ext), (∀ e ∈ exts, e.WF) → ∃ packed, packExts exts = some packed ∧ packed.length % 8 = 0
  | [], _ => ⟨[], rfl, rfl⟩
  | e :: es, hw => by
    have hwe := hw e (by simp)
    obtain ⟨b, hb, _, _, hf, hn⟩ := pack_wf e hwe
    obtain ⟨rest, hr, hm⟩ := packExts_wf es (fun x hx => hw x (by simp [hx]))
    refine ⟨b ++ rest, by simp [packExts, hb, hr], ?_⟩
    have hb8 : b.length % 8 = 0 := by
      by_cases ht : e.ty = 44
      · rw [hf ht]; simp [(hwe.frag ht).1]
      · obtain ⟨_, hbl, hmod, _⟩ := hwe.norm ht
        rw [hn ht]; simp [hbl]; omega
    simp [List.length_append]; omega

theorem slice_tail (pre tl : Bytes) (n : Nat) (h : tl.length ≤ n) : slice (pre ++ tl) pre.length (pre.length + n) = tl := by
  unfold slice
  rw [List.drop_left]
  simp [List.take_of_length_le h]

end Pox.IPv6Ext
