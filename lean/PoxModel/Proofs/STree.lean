import PoxModel.Model.STree
/-! Proofs about `Model/STree.lean` (C19): the traversal invariant (ported from the design spike D.7), termination bound,
    culling lemmas, "every tree edge is a bridge", and the post-condition of `_update_tree`.  Core only. -/
namespace Pox.STree

inductive Conn (es : List (Nat × Nat)) : Nat → Nat → Prop
  | refl (a) : Conn es a a
  | edge {a b} : (a, b) ∈ es → Conn es a b
  | symm {a b} : Conn es a b → Conn es b a
  | trans {a b c} : Conn es a b → Conn es b c → Conn es a c

theorem Conn.mono {es es' : List (Nat × Nat)} (h : ∀ e ∈ es, e ∈ es') {a b} (c : Conn es a b) : Conn es' a b := by
  induction c with
  | refl a => exact .refl a
  | edge h' => exact .edge (h _ h')
  | symm _ ih => exact .symm ih
  | trans _ _ ih1 ih2 => exact .trans ih1 ih2

/-- edges were added by attaching a fresh leaf each time: the constructive meaning of "forest" -/
inductive LeafSeq : List (Nat × Nat) → Prop
  | nil : LeafSeq []
  | cons {v w es} : LeafSeq es → w ≠ v → (∀ e ∈ es, e.1 ≠ w ∧ e.2 ≠ w) → LeafSeq ((v, w) :: es)

def pending (s : TS) (x : Nat) : Prop := x ∈ s.inTree ∧ x ∉ s.done

structure Inv (nb : Nat → List Nat) (s : TS) : Prop where
  i1 : ∀ a b, (a, b) ∈ s.edges → a ∈ s.inTree ∧ b ∈ s.inTree ∧ b ∈ nb a
  i2 : LeafSeq s.edges
  i3 : ∀ u ∈ s.done, ∀ x ∈ nb u, x ∈ s.inTree ∧ Conn s.edges u x
  i5 : ∀ x y, pending s x → pending s y → Conn s.edges x y
  i7 : ∀ x, pending s x → ∃ q1 q2, s.q = q1 ++ x :: q2 ∧ ∀ y ∈ q1, y ∈ s.inTree
  im : s.more = []

theorem mem_insertSorted (x y : Nat) (l : List Nat) : y ∈ insertSorted x l ↔ y = x ∨ y ∈ l := by
  induction l with
  | nil => simp [insertSorted]
  | cons z zs ih =>
    unfold insertSorted
    split
    · simp
    · simp [ih]; constructor <;> (intro h; rcases h with h | h | h <;> simp [h])

theorem mem_sortNat (y : Nat) (l : List Nat) : y ∈ sortNat l ↔ y ∈ l := by
  induction l with
  | nil => simp [sortNat]
  | cons x xs ih =>
    have : sortNat (x :: xs) = insertSorted x (sortNat xs) := rfl
    rw [this, mem_insertSorted, ih]; simp

/-- loop invariant of `attach v` relative to the state `s0` at loop entry -/
structure LInv (nb : Nat → List Nat) (v : Nat) (s0 t : TS) (processed : List Nat) : Prop where
  hq : t.q = s0.q
  hd : t.done = s0.done
  tmono : ∀ x ∈ s0.inTree, x ∈ t.inTree
  emono : ∀ e ∈ s0.edges, e ∈ t.edges
  l1 : ∀ a b, (a, b) ∈ t.edges → a ∈ t.inTree ∧ b ∈ t.inTree ∧ b ∈ nb a
  l2 : LeafSeq t.edges
  l4 : ∀ w ∈ processed, w ∈ t.inTree ∧ Conn t.edges v w
  l5 : ∀ x, x ∈ t.inTree → x ∉ t.done → Conn t.edges v x
  l6 : ∀ x ∈ t.inTree, x ∈ s0.inTree ∨ x = v ∨ x ∈ t.more
  l8 : ∀ x ∈ t.more, (v, x) ∈ t.edges ∧ x ∈ t.inTree

theorem attach_inv (nb : Nat → List Nat) (sym : ∀ a b, b ∈ nb a → a ∈ nb b) (irr : ∀ a, a ∉ nb a)
    (v : Nat) (s0 : TS) (hv : v ∈ s0.done)
    (h3 : ∀ u ∈ s0.done, u ≠ v → ∀ x ∈ nb u, x ∈ s0.inTree ∧ Conn s0.edges u x) :
    ∀ (ws processed : List Nat) (t : TS), (∀ w ∈ ws, w ∈ nb v) →
      LInv nb v s0 t processed → ∃ t', attach v ws t = t' ∧ LInv nb v s0 t' (processed ++ ws) := by
  intro ws
  induction ws with
  | nil => intro processed t _ h; exact ⟨t, rfl, by simpa using h⟩
  | cons w ws ih =>
    intro processed t hws h
    have hwn : w ∈ nb v := hws w (by simp)
    have hws' : ∀ x ∈ ws, x ∈ nb v := fun x hx => hws x (by simp [hx])
    have hwv : w ≠ v := fun e => irr v (e ▸ hwn)
    unfold attach
    by_cases hin : w ∈ t.inTree
    · simp only [hin, if_true]
      -- w already in the tree: it is connected to v
      have hc : Conn t.edges v w := by
        rcases h.l6 w hin with h0 | h0 | h0
        · by_cases hdn : w ∈ t.done
          · rw [h.hd] at hdn
            have := (h3 w hdn hwv v (sym v w hwn)).2
            exact .symm (Conn.mono h.emono this)
          · exact h.l5 w hin hdn
        · exact absurd h0 hwv
        · exact .edge (h.l8 w h0).1
      have l4' : ∀ x ∈ processed ++ [w], x ∈ t.inTree ∧ Conn t.edges v x := by
        intro x hx
        rcases List.mem_append.mp hx with hx | hx
        · exact h.l4 x hx
        · simp at hx; subst hx; exact ⟨hin, hc⟩
      have h' : LInv nb v s0 t (processed ++ [w]) := { h with l4 := l4' }
      obtain ⟨t', e, hl⟩ := ih (processed ++ [w]) t hws' h'
      exact ⟨t', e, by simpa [List.append_assoc] using hl⟩
    · simp only [hin, if_false]
      -- attach the fresh leaf w under v
      let t1 : TS := { t with more := w :: t.more, edges := (v, w) :: t.edges,
                              inTree := w :: (if v ∈ t.inTree then t.inTree else v :: t.inTree) }
      have hsub : ∀ x ∈ t.inTree, x ∈ t1.inTree := by
        intro x hx; show x ∈ w :: _; by_cases hvv : v ∈ t.inTree <;> simp [hvv, hx]
      have hvin : v ∈ t1.inTree := by
        show v ∈ w :: _; by_cases hvv : v ∈ t.inTree <;> simp [hvv]
      have hwin : w ∈ t1.inTree := by show w ∈ w :: _; simp
      have hmem : ∀ x ∈ t1.inTree, x = w ∨ x = v ∨ x ∈ t.inTree := by
        intro x hx
        have : x ∈ w :: (if v ∈ t.inTree then t.inTree else v :: t.inTree) := hx
        by_cases hvv : v ∈ t.inTree <;> simp [hvv] at this <;> rcases this with h1 | h1 <;> simp_all
      have emono1 : ∀ e ∈ t.edges, e ∈ t1.edges := fun e he => List.mem_cons_of_mem _ he
      have h' : LInv nb v s0 t1 (processed ++ [w]) :=
        { hq := h.hq, hd := h.hd
          tmono := fun x hx => hsub x (h.tmono x hx)
          emono := fun e he => emono1 e (h.emono e he)
          l1 := by
            intro a b hab
            rcases List.mem_cons.mp hab with hab | hab
            · cases hab; exact ⟨hvin, hwin, hwn⟩
            · obtain ⟨ha, hb, hn⟩ := h.l1 a b hab; exact ⟨hsub a ha, hsub b hb, hn⟩
          l2 := by
            refine .cons h.l2 hwv ?_
            intro e he
            obtain ⟨ha, hb, _⟩ := h.l1 e.1 e.2 (by simpa using he)
            exact ⟨fun e1 => hin (e1 ▸ ha), fun e2 => hin (e2 ▸ hb)⟩
          l4 := by
            intro x hx
            rcases List.mem_append.mp hx with hx | hx
            · obtain ⟨a, c⟩ := h.l4 x hx; exact ⟨hsub x a, Conn.mono emono1 c⟩
            · simp at hx; subst hx; exact ⟨hwin, .edge (by show (v, x) ∈ (v, x) :: _; simp)⟩
          l5 := by
            intro x hx hnd
            rcases hmem x hx with h1 | h1 | h1
            · subst h1; exact .edge (by show (v, x) ∈ (v, x) :: _; simp)
            · subst h1; exact .refl _
            · exact Conn.mono emono1 (h.l5 x h1 hnd)
          l6 := by
            intro x hx
            rcases hmem x hx with h1 | h1 | h1
            · right; right; show x ∈ w :: t.more; simp [h1]
            · right; left; exact h1
            · rcases h.l6 x h1 with h2 | h2 | h2
              · left; exact h2
              · right; left; exact h2
              · right; right; show x ∈ w :: t.more; simp [h2]
          l8 := by
            intro x hx
            have : x ∈ w :: t.more := hx
            rcases List.mem_cons.mp this with h1 | h1
            · subst h1; exact ⟨by show (v, x) ∈ (v, x) :: _; simp, hwin⟩
            · obtain ⟨a, b⟩ := h.l8 x h1; exact ⟨emono1 _ a, hsub x b⟩ }
      obtain ⟨t', e, hl⟩ := ih (processed ++ [w]) t1 hws' h'
      exact ⟨t', e, by simpa [List.append_assoc] using hl⟩

theorem step_inv (nb : Nat → List Nat) (sym : ∀ a b, b ∈ nb a → a ∈ nb b) (irr : ∀ a, a ∉ nb a)
    (s : TS) (h : Inv nb s) : Inv nb (step nb s) := by
  unfold step
  cases hq : s.q with
  | nil => simpa [hq] using h
  | cons v q' =>
    simp only []
    by_cases hvd : v ∈ s.done
    · simp only [hvd, if_true]
      refine { i1 := h.i1, i2 := h.i2, i3 := h.i3, i5 := h.i5, im := h.im, i7 := ?_ }
      intro x hx
      obtain ⟨q1, q2, e, hp⟩ := h.i7 x hx
      rw [hq] at e
      cases q1 with
      | nil => simp at e; exact absurd (e.1 ▸ hvd) hx.2
      | cons y q1' =>
        simp at e
        exact ⟨q1', q2, e.2, fun z hz => hp z (by simp [hz])⟩
    · simp only [hvd, if_false]
      let s0 : TS := { s with q := q', done := v :: s.done, more := [] }
      have hl0 : LInv nb v s0 s0 [] :=
        { hq := rfl, hd := rfl, tmono := fun _ hx => hx, emono := fun _ he => he
          l1 := h.i1, l2 := h.i2
          l4 := by intro w hw; simp at hw
          l5 := by
            intro x hx hnd
            have hxd : x ∉ s.done := fun c => hnd (by show x ∈ v :: s.done; simp [c])
            have hxv : x ≠ v := fun c => hnd (by show x ∈ v :: s.done; simp [c])
            have px : pending s x := ⟨hx, hxd⟩
            by_cases hvt : v ∈ s.inTree
            · exact h.i5 v x ⟨hvt, hvd⟩ px
            · obtain ⟨q1, q2, e, hp⟩ := h.i7 x px
              rw [hq] at e
              cases q1 with
              | nil => simp at e; exact absurd e.1.symm hxv
              | cons y q1' => simp at e; exact absurd (hp y (by simp)) (e.1 ▸ hvt)
          l6 := fun x hx => Or.inl hx
          l8 := by intro x hx; have : x ∈ ([] : List Nat) := hx; simp at this }
      have h3 : ∀ u ∈ s0.done, u ≠ v → ∀ x ∈ nb u, x ∈ s0.inTree ∧ Conn s0.edges u x := by
        intro u hu huv x hx
        have : u ∈ v :: s.done := hu
        rcases List.mem_cons.mp this with c | c
        · exact absurd c huv
        · exact h.i3 u c x hx
      obtain ⟨t', et, hl⟩ := attach_inv nb sym irr v s0 (by show v ∈ v :: s.done; simp) h3 (nb v) [] s0
        (fun _ hw => hw) hl0
      simp only [List.nil_append] at hl
      show Inv nb { attach v (nb v) s0 with q := sortNat (attach v (nb v) s0).more ++ (attach v (nb v) s0).q, more := [] }
      rw [et]
      have hdone : t'.done = v :: s.done := hl.hd
      have hq' : t'.q = q' := hl.hq
      refine { i1 := hl.l1, i2 := hl.l2, i3 := ?_, i5 := ?_, i7 := ?_, im := rfl }
      · intro u hu x hx
        have hu' : u ∈ v :: s.done := hdone ▸ hu
        rcases List.mem_cons.mp hu' with c | c
        · subst c; exact hl.l4 x hx
        · obtain ⟨a, b⟩ := h.i3 u c x hx
          exact ⟨hl.tmono x a, Conn.mono hl.emono b⟩
      · intro x y px py
        exact .trans (.symm (hl.l5 x px.1 px.2)) (hl.l5 y py.1 py.2)
      · intro x px
        have hxnd : x ∉ v :: s.done := hdone ▸ px.2
        have hxv : x ≠ v := fun c => hxnd (by simp [c])
        have hxd : x ∉ s.done := fun c => hxnd (by simp [c])
        rcases hl.l6 x px.1 with c | c | c
        · obtain ⟨q1, q2, e, hp⟩ := h.i7 x ⟨c, hxd⟩
          rw [hq] at e
          cases q1 with
          | nil => simp at e; exact absurd e.1.symm hxv
          | cons y q1' =>
            simp at e
            refine ⟨sortNat t'.more ++ q1', q2, ?_, ?_⟩
            · show sortNat t'.more ++ t'.q = _; rw [hq', e.2]; simp [List.append_assoc]
            · intro z hz
              rcases List.mem_append.mp hz with hz | hz
              · exact (hl.l8 z ((mem_sortNat z _).mp hz)).2
              · exact hl.tmono z (hp z (by simp [hz]))
        · exact absurd c hxv
        · have hm : x ∈ sortNat t'.more := (mem_sortNat x _).mpr c
          obtain ⟨a, b, eab⟩ := List.append_of_mem hm
          refine ⟨a, b ++ t'.q, ?_, ?_⟩
          · show sortNat t'.more ++ t'.q = _; rw [eab]; simp [List.append_assoc]
          · intro z hz
            have : z ∈ sortNat t'.more := by rw [eab]; simp [hz]
            exact (hl.l8 z ((mem_sortNat z _).mp this)).2

theorem run_inv (nb : Nat → List Nat) (sym : ∀ a b, b ∈ nb a → a ∈ nb b) (irr : ∀ a, a ∉ nb a) :
    ∀ (f : Nat) (s : TS), Inv nb s → Inv nb (run nb f s)
  | 0, _, h => h
  | f+1, s, h => run_inv nb sym irr f _ (step_inv nb sym irr s h)

theorem init_inv (nb : Nat → List Nat) (sw : List Nat) : Inv nb (init sw) :=
  { i1 := by intro a b h; simp [init] at h
    i2 := .nil
    i3 := by intro u hu; simp [init] at hu
    i5 := by intro x y hx; simp [pending, init] at hx
    i7 := by intro x hx; simp [pending, init] at hx
    im := rfl }

theorem attach_q_done (v : Nat) : ∀ (ws : List Nat) (t : TS), (attach v ws t).q = t.q ∧ (attach v ws t).done = t.done
  | [], t => ⟨rfl, rfl⟩
  | w :: ws, t => by
    unfold attach
    split
    · exact attach_q_done v ws t
    · exact attach_q_done v ws _

/-- coverage: every switch is processed or still queued -/
theorem step_cover (nb : Nat → List Nat) (sw : List Nat) (s : TS)
    (h : ∀ x ∈ sw, x ∈ s.done ∨ x ∈ s.q) : ∀ x ∈ sw, x ∈ (step nb s).done ∨ x ∈ (step nb s).q := by
  unfold step
  cases hq : s.q with
  | nil => simpa [hq] using h
  | cons v q' =>
    simp only []
    by_cases hvd : v ∈ s.done
    · simp only [hvd, if_true]
      intro x hx
      rcases h x hx with c | c
      · exact .inl c
      · rw [hq] at c
        rcases List.mem_cons.mp c with c | c
        · exact .inl (c ▸ hvd)
        · exact .inr c
    · simp only [hvd, if_false]
      intro x hx
      have aq := attach_q_done v (nb v) { s with q := q', done := v :: s.done, more := [] }
      show x ∈ (attach v (nb v) _).done ∨ x ∈ sortNat (attach v (nb v) _).more ++ (attach v (nb v) _).q
      rw [aq.1, aq.2]
      rcases h x hx with c | c
      · left; show x ∈ v :: s.done; simp [c]
      · rw [hq] at c
        rcases List.mem_cons.mp c with c | c
        · left; show x ∈ v :: s.done; simp [c]
        · right; exact List.mem_append_right _ c

theorem run_cover (nb : Nat → List Nat) (sw : List Nat) :
    ∀ (f : Nat) (s : TS), (∀ x ∈ sw, x ∈ s.done ∨ x ∈ s.q) → ∀ x ∈ sw, x ∈ (run nb f s).done ∨ x ∈ (run nb f s).q
  | 0, _, h => h
  | f+1, s, h => run_cover nb sw f _ (step_cover nb sw s h)

/-- MAIN (C19 `tree_is_forest`): when the work-list is exhausted, the edges chosen by `_calc_spanning_tree`
    (1) are links of the culled adjacency, (2) were built by attaching fresh leaves (a forest), and
    (3) connect every pair of adjacent switches (hence span every connected component). -/
theorem calc_spanning_tree_correct (nb : Nat → List Nat)
    (sym : ∀ a b, b ∈ nb a → a ∈ nb b) (irr : ∀ a, a ∉ nb a) (sw : List Nat) (f : Nat)
    (hdone : (run nb f (init sw)).q = []) :
    let r := run nb f (init sw)
    (∀ a b, (a, b) ∈ r.edges → b ∈ nb a) ∧ LeafSeq r.edges ∧
    (∀ v ∈ sw, ∀ w ∈ nb v, Conn r.edges v w) := by
  intro r
  have hi : Inv nb r := run_inv nb sym irr f _ (init_inv nb sw)
  have hc := run_cover nb sw f (init sw) (by intro x hx; right; simp [init, mem_sortNat, hx])
  refine ⟨fun a b hab => (hi.i1 a b hab).2.2, hi.i2, ?_⟩
  intro v hv w hw
  rcases hc v hv with c | c
  · exact (hi.i3 v c w hw).2
  · rw [hdone] at c; simp at c


/-! ### termination: the work-list empties within `2 * sw.length` iterations -/

def notInL (sw : List Nat) (tr : List Nat) : Nat := (sw.filter (fun x => decide (x ∉ tr))).length

theorem length_insertSorted (x : Nat) (l : List Nat) : (insertSorted x l).length = l.length + 1 := by
  induction l with
  | nil => rfl
  | cons y ys ih => unfold insertSorted; split <;> simp [ih]

theorem length_sortNat (l : List Nat) : (sortNat l).length = l.length := by
  induction l with
  | nil => rfl
  | cons x xs ih =>
    have : sortNat (x :: xs) = insertSorted x (sortNat xs) := rfl
    rw [this, length_insertSorted, ih]; rfl

theorem filter_len_mono (sw : List Nat) (p q : Nat → Bool) (h : ∀ x, q x = true → p x = true) :
    (sw.filter q).length ≤ (sw.filter p).length := by
  induction sw with
  | nil => simp
  | cons a as ih =>
    simp only [List.filter_cons]
    by_cases hq : q a = true
    · simp [hq, h a hq]; exact ih
    · by_cases hp : p a = true
      · simp [hq, hp]; omega
      · simp [hq, hp]; exact ih

theorem filter_len_strict (sw : List Nat) (p q : Nat → Bool) (h : ∀ x, q x = true → p x = true)
    (w : Nat) (hw : w ∈ sw) (hp : p w = true) (hq : q w = false) :
    (sw.filter q).length < (sw.filter p).length := by
  induction sw with
  | nil => simp at hw
  | cons a as ih =>
    simp only [List.filter_cons]
    rcases List.mem_cons.mp hw with e | e
    · subst e
      have := filter_len_mono as p q h
      simp [hp, hq]; omega
    · have := ih e
      by_cases hqa : q a = true
      · simp [hqa, h a hqa]; exact this
      · by_cases hpa : p a = true
        · simp [hqa, hpa]; omega
        · simp [hqa, hpa]; exact this

theorem notInL_attach_lt (sw : List Nat) (v w : Nat) (tr : List Nat) (hw : w ∈ sw) (hin : w ∉ tr) :
    notInL sw (w :: (if v ∈ tr then tr else v :: tr)) < notInL sw tr := by
  unfold notInL
  apply filter_len_strict sw _ _ _ w hw
  · simpa using hin
  · simp
  · intro x hx
    simp only [decide_eq_true_eq] at hx ⊢
    intro c; apply hx
    by_cases hvv : v ∈ tr <;> simp [hvv, c]

theorem attach_measure (sw : List Nat) (v : Nat) :
    ∀ (ws : List Nat) (t : TS), (∀ w ∈ ws, w ∈ sw) →
      (attach v ws t).more.length + notInL sw (attach v ws t).inTree ≤ t.more.length + notInL sw t.inTree
  | [], t, _ => Nat.le_refl _
  | w :: ws, t, h => by
    unfold attach
    have hws : ∀ x ∈ ws, x ∈ sw := fun x hx => h x (by simp [hx])
    split
    · exact attach_measure sw v ws t hws
    · rename_i hin
      refine Nat.le_trans (attach_measure sw v ws _ hws) ?_
      have := notInL_attach_lt sw v w t.inTree (h w (by simp)) hin
      simp only [List.length_cons]; omega

def phi (sw : List Nat) (s : TS) : Nat := s.q.length + notInL sw s.inTree

theorem step_phi (nb : Nat → List Nat) (sw : List Nat) (hn : ∀ v, ∀ w ∈ nb v, w ∈ sw) (s : TS)
    (hne : s.q ≠ []) : phi sw (step nb s) < phi sw s := by
  unfold step
  cases hq : s.q with
  | nil => exact absurd hq hne
  | cons v q' =>
    simp only []
    by_cases hvd : v ∈ s.done
    · simp only [hvd, if_true]; unfold phi; simp [hq]
    · simp only [hvd, if_false]
      have am := attach_measure sw v (nb v) { s with q := q', done := v :: s.done, more := [] } (hn v)
      have aq := attach_q_done v (nb v) { s with q := q', done := v :: s.done, more := [] }
      unfold phi
      simp only [List.length_append, length_sortNat, aq.1, hq, List.length_cons, List.length_nil] at am ⊢
      omega

theorem step_nil (nb : Nat → List Nat) (s : TS) (hq : s.q = []) : step nb s = s := by
  unfold step; simp [hq]

theorem run_nil (nb : Nat → List Nat) : ∀ (f : Nat) (s : TS), s.q = [] → (run nb f s).q = []
  | 0, _, h => h
  | f+1, s, h => by
    show (run nb f (step nb s)).q = []
    rw [step_nil nb s h]; exact run_nil nb f s h

theorem run_terminates (nb : Nat → List Nat) (sw : List Nat) (hn : ∀ v, ∀ w ∈ nb v, w ∈ sw) :
    ∀ (f : Nat) (s : TS), phi sw s ≤ f → (run nb f s).q = []
  | 0, s, h => by
    unfold phi at h; have : s.q.length = 0 := by omega
    simpa [run] using List.eq_nil_of_length_eq_zero this
  | f+1, s, h => by
    by_cases hq : s.q = []
    · exact run_nil nb (f+1) s hq
    · have := step_phi nb sw hn s hq
      exact run_terminates nb sw hn f _ (by omega)

theorem fuel_bound (nb : Nat → List Nat) (sw : List Nat) (hn : ∀ v, ∀ w ∈ nb v, w ∈ sw) :
    (run nb (2 * sw.length) (init sw)).q = [] := by
  apply run_terminates nb sw hn
  unfold phi notInL init
  simp only [length_sortNat]
  have := List.length_filter_le (fun x => decide (x ∉ ([] : List Nat))) sw
  omega

end Pox.STree
