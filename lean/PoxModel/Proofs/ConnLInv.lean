import PoxModel.Proofs.ConnHist
import PoxModel.Proofs.ConnL
/-! Invariants of the listener model `runL` (Model/ConnL.lean) for EVERY listener behaviour: counters of ConnectionUp /
ConnectionDown, and — with `_finish_connecting` stopping for a dropped connection (`stopIfDisc`) — their order. -/
set_option linter.unusedSimpArgs false
set_option linter.unusedVariables false
namespace Pox.Conn
variable {v : Bool}
local notation "R" => Cfg.rv v

def U (s : St) (c : Nat) : Nat := if (s.conns c).up = true then 1 else 0
def D (s : St) (c : Nat) : Nat := if (s.conns c).downRaised = true then 1 else 0

/-- a piece of a step that raises no ConnectionUp, announces nobody, and accounts for its ConnectionDowns -/
structure Quiet (s : St) (o : List Out) (s' : St) : Prop where
  sinv : SInv s'
  n : s'.n = s.n
  up : ∀ c, (s'.conns c).up = (s.conns c).up
  noUp : ∀ b c, o.count (upEv b c) = 0
  down : ∀ b c, o.count (downEv b c) + D s c = D s' c

theorem Quiet.refl (s : St) (hs : SInv s) : Quiet s [] s :=
  ⟨hs, rfl, fun _ => rfl, fun _ _ => rfl, fun _ _ => by simp⟩

theorem Quiet.trans {s s1 s2 : St} {o1 o2 : List Out} (h1 : Quiet s o1 s1) (h2 : Quiet s1 o2 s2) : Quiet s (o1 ++ o2) s2 := by
  refine ⟨h2.sinv, by rw [h2.n, h1.n], fun c => by rw [h2.up, h1.up], ?_, ?_⟩
  · intro b c; rw [List.count_append, h1.noUp, h2.noUp]
  · intro b c; rw [List.count_append]; have := h1.down b c; have := h2.down b c; omega

/-- only the counts matter: the same outputs in another order -/
theorem Quiet.perm {s s' : St} {o o' : List Out} (h : Quiet s o s') (hc : ∀ x, o'.count x = o.count x) : Quiet s o' s' :=
  ⟨h.sinv, h.n, h.up, fun b c => by rw [hc]; exact h.noUp b c, fun b c => by rw [hc]; exact h.down b c⟩

theorem sinv_disconnect' (s : St) (c : Nat) (defer : Bool) (hs : SInv s) (hc : c < s.n)
    (hdf : defer = true → (s.conns c).broken = true ∧ (s.conns c).disc = false) : SInv (disconnect R s c defer).1 := by
  have a1 := hs.closedDisc c; have a2 := hs.dpidNexus c; have a3 := hs.upDpid c; have a4 := hs.barrierOk c
  have a5 := hs.downUp c; have a6 := hs.closedDown c; have a7 := hs.lost c
  refine sinv_of_conn' s _ c hs hc (by simp) (by intro c' hne; simp [disconnect_conns, hne]) ?_ ?_ ?_ ?_ ?_ ?_ ?_
  all_goals simp [disconnect_conns, discConn]
  all_goals grind

theorem quiet_disconnect (s : St) (c : Nat) (defer : Bool) (hs : SInv s) (hc : c < s.n)
    (hdf : defer = true → (s.conns c).broken = true ∧ (s.conns c).disc = false) :
    Quiet s (disconnect R s c defer).2 (disconnect R s c defer).1 := by
  refine ⟨sinv_disconnect' s c defer hs hc hdf, by simp, fun c' => by simp, ?_, ?_⟩
  · intro b c'; exact disconnect_count_ev _ _ _ _ _ (by simp)
  · intro b c'; exact disconnect_count_down (v := v) s c defer b c' (hs.dpidNexus c)

theorem quiet_sendRaw (s : St) (c : Nat) (msgs : List (Nat × Nat)) (hs : SInv s) :
    Quiet s (sendRaw R s c msgs).2 (sendRaw R s c msgs).1 := by
  unfold sendRaw
  split
  · exact Quiet.refl s hs
  split
  · rename_i hd hb
    have hc : c < s.n := by
      apply Nat.lt_of_not_le; intro hle; rw [hs.fresh c hle] at hb; simp at hb
    exact quiet_disconnect s c true hs hc (fun _ => ⟨by simpa using hb, by simpa using hd⟩)
  · refine ⟨hs, rfl, fun _ => rfl, ?_, ?_⟩
    · intro b c'; rw [List.count_eq_zero]; simp [upEv]
    · intro b c'
      have : (List.map (fun m => Out.sent c m.1 m.2) msgs).count (downEv b c') = 0 := by
        rw [List.count_eq_zero]; simp [downEv]
      simp only []; omega

theorem quiet_lstSendTo (s : St) (key : Option Nat) (x : Nat) (hs : SInv s) :
    Quiet s (lstSendTo R s key x).2 (lstSendTo R s key x).1 := by
  unfold lstSendTo
  split
  · exact quiet_sendRaw s _ _ hs
  · exact Quiet.refl s hs

/-- what `sendRaw` / a listener's `sendToDPID` leave alone -/
theorem sendRaw_flags (s : St) (c : Nat) (msgs : List (Nat × Nat)) (c' : Nat) :
    ((sendRaw R s c msgs).1.conns c').downRaised = (s.conns c').downRaised ∧
    ((sendRaw R s c msgs).1.conns c').up = (s.conns c').up ∧
    ((sendRaw R s c msgs).1.conns c').closed = (s.conns c').closed ∧
    ((sendRaw R s c msgs).1.conns c').deferred = (s.conns c').deferred ∧
    ((s.conns c').disc = true → ((sendRaw R s c msgs).1.conns c').disc = true) := by
  unfold sendRaw
  split
  · simp
  split
  · simp [disconnect_true_downRaised, disconnect_disc]; intro h; exact Or.inr h
  · simp

theorem lstSendTo_flags (s : St) (key : Option Nat) (x : Nat) (c' : Nat) :
    ((lstSendTo R s key x).1.conns c').downRaised = (s.conns c').downRaised ∧
    ((lstSendTo R s key x).1.conns c').up = (s.conns c').up ∧
    ((lstSendTo R s key x).1.conns c').closed = (s.conns c').closed ∧
    ((lstSendTo R s key x).1.conns c').deferred = (s.conns c').deferred ∧
    ((s.conns c').disc = true → ((lstSendTo R s key x).1.conns c').disc = true) := by
  unfold lstSendTo
  split
  · exact sendRaw_flags s _ _ c'
  · simp

theorem count_sendRaw_ev (s : St) (c : Nat) (msgs : List (Nat × Nat)) (e : Event) :
    (sendRaw R s c msgs).2.count (.ev e) = 0 := by
  unfold sendRaw
  split
  · rfl
  split
  · simp [disconnect_true_outs]
  · rw [List.count_eq_zero]; simp

theorem mem_lstSendTo_outs (s : St) (key : Option Nat) (x : Nat) (e : Event) : Out.ev e ∉ (lstSendTo R s key x).2 := by
  unfold lstSendTo
  split
  · rename_i c2 _
    intro h; have := count_sendRaw_ev (v := v) s c2 [(OFPT_BARRIER_REQUEST, x)] e
    rw [List.count_eq_zero] at this; exact this h
  · simp

theorem quiet_disconnectL (l : Lst) (s : St) (c : Nat) (hs : SInv s) (hc : c < s.n) :
    Quiet s (disconnectL R l s c false).2 (disconnectL R l s c false).1 := by
  have hq := quiet_disconnect (v := v) s c false hs hc (by simp)
  unfold disconnectL
  simp only []
  split
  · rename_i hf
    simp only [Bool.and_eq_true] at hf
    obtain ⟨⟨hraise, hnx⟩, _⟩ := hf
    have ho : (disconnect R s c false).2 = [.ev ⟨true, .down, c, 0⟩, .ev ⟨false, .down, c, 0⟩] := by
      rw [disconnect_outs]
      have : ((s.conns c).dpid.isSome && (!(Cfg.rv v).fixDown || (s.conns c).up) && !(s.conns c).downRaised && !false) = true := by
        simp only [Bool.and_eq_true]; exact hraise
      rw [if_pos this]; simp [hnx]
    have h2 := quiet_lstSendTo (v := v) (disconnect R s c false).1 (s.conns c).dpid (6000 + c) hq.sinv
    refine (hq.trans h2).perm ?_
    intro x; rw [ho]; simp [List.count_append, List.count_cons]
  · exact hq

theorem disconnectL_flags (l : Lst) (s : St) (c : Nat) (hs : SInv s) :
    ((disconnectL R l s c false).1.conns c).disc = true ∧
    (((disconnectL R l s c false).1.conns c).up = true → ((disconnectL R l s c false).1.conns c).downRaised = true) := by
  have hb : ((disconnect R s c false).1.conns c).disc = true ∧
      (((disconnect R s c false).1.conns c).up = true → ((disconnect R s c false).1.conns c).downRaised = true) := by
    refine ⟨by simp [disconnect_disc], ?_⟩
    have := hs.upDpid c
    simp [disconnect_downRaised]; grind
  unfold disconnectL
  simp only []
  split
  · obtain ⟨f1, f2, f3, f4, f5⟩ := lstSendTo_flags (v := v) (disconnect R s c false).1 (s.conns c).dpid (6000 + c) c
    exact ⟨f5 hb.1, by rw [f1, f2]; exact hb.2⟩
  · exact hb

theorem quiet_setClosed (s : St) (c : Nat) (hs : SInv s) (hc : c < s.n) (hd : (s.conns c).disc = true)
    (hu : (s.conns c).up = true → (s.conns c).downRaised = true) :
    Quiet s [.closed c] (s.setConn c { s.conns c with closed := true }) := by
  have a2 := hs.dpidNexus c; have a3 := hs.upDpid c; have a4 := hs.barrierOk c; have a5 := hs.downUp c; have a7 := hs.lost c
  refine ⟨?_, rfl, ?_, ?_, ?_⟩
  · refine sinv_of_conn' s _ c hs hc (by simp) (by intro c' hne; simp [hne]) ?_ ?_ ?_ ?_ ?_ ?_ ?_
    all_goals simp
    all_goals grind
  · intro c'; simp only [setConn_conns]; split <;> simp_all
  · intro b c'; simp [upEv]
  · intro b c'
    have : ((s.setConn c { s.conns c with closed := true }).conns c').downRaised = (s.conns c').downRaised := by
      simp only [setConn_conns]; split <;> simp_all
    have hcnt : [Out.closed c].count (downEv b c') = 0 := by simp [downEv]
    unfold D; rw [hcnt, this]; simp

theorem quiet_closeL (l : Lst) (s : St) (c : Nat) (hs : SInv s) (hc : c < s.n) :
    Quiet s (closeL R l s c).2 (closeL R l s c).1 := by
  have h1 := quiet_disconnectL (v := v) l s c hs hc
  have hf := disconnectL_flags (v := v) l s c hs
  exact h1.trans (quiet_setClosed _ c h1.sinv (by rw [h1.n]; exact hc) hf.1 hf.2)

/-- what any step of the listener model does to the counters -/
structure LStep (stop : Bool) (s : St) (o : List Out) (s' : St) : Prop where
  sinv : SInv s'
  upT : ∀ c, o.count (upEv true c) + U s c = U s' c
  upF : ∀ c, o.count (upEv false c) + U s c ≤ U s' c
  down : ∀ b c, o.count (downEv b c) + D s c = D s' c
  /-- ConnectionUp (on either level) is raised only for a connection that was not announced before this step -/
  fresh : ∀ b c, upEv b c ∈ o → U s c = 0
  /-- with `_finish_connecting` stopping for a dropped connection, a step that raises the connection-level ConnectionUp
      raises no ConnectionDown for that connection -/
  order : stop = true → ∀ c, upEv false c ∈ o → ∀ b', downEv b' c ∉ o

theorem LStep.of_quiet {stop : Bool} {s s' : St} {o : List Out} (h : Quiet s o s') : LStep stop s o s' := by
  have hu : ∀ c, U s' c = U s c := fun c => by unfold U; rw [h.up]
  refine ⟨h.sinv, ?_, ?_, h.down, ?_, ?_⟩
  · intro c; rw [h.noUp, hu]; simp
  · intro c; rw [h.noUp, hu]; simp
  · intro b c hm; have := h.noUp b c; rw [List.count_eq_zero] at this; exact absurd hm this
  · intro _ c hm; have := h.noUp false c; rw [List.count_eq_zero] at this; exact absurd hm this

theorem no_down_in_up_step (s : St) (op : Op) (hs : SInv s) (b b' : Bool) (c : Nat)
    (h : upEv b c ∈ (step R s op).2) : downEv b' c ∉ (step R s op).2 := by
  revert h
  apply step_elim s op hs (fun r => upEv b c ∈ r.2 → downEv b' c ∉ r.2)
  case upEvents =>
    intro c0 m l _ _ _ _ hl
    rcases hl with ⟨_, rfl⟩ | ⟨x, _, rfl⟩ | ⟨x, t, e, _, rfl⟩ | ⟨n, _, rfl⟩ | ⟨n, _, rfl⟩ | ⟨x, _, rfl⟩ <;> simp [ev2, upEv]
  case sendSome =>
    intro d x c0 _ _
    simp only [sendRaw]
    split
    · simp [upEv]
    split
    · simp [disconnect_true_outs, upEv]
    · simp [upEv]
  case hsFinish =>
    intro c0 x _ _ _ _ _
    simp [finish_outs, finHead, ev2, mem_ps_flatMap, downEv]
  case hsWrongXid =>
    intro c0 x y _ _ _ _ _ _
    simp [disconnect_nodpid_outs]
  all_goals
    intros
    simp_all [ev2, disconnect_true_outs, mem_close_outs, mem_disconnect_outs, downEv, upEv]

theorem lstep_base (stop : Bool) (s : St) (op : Op) (hs : SInv s) : LStep stop s (step R s op).2 (step R s op).1 := by
  have hu := fun b c => up_count_step (v := v) s op hs b c
  have hd := fun b c => down_count_step (v := v) s op hs b c
  refine ⟨sinv_step s op hs, ?_, ?_, ?_, ?_, ?_⟩
  · intro c; exact hu true c
  · intro c; exact Nat.le_of_eq (hu false c)
  · intro b c; exact hd b c
  · intro b c hm
    have h1 := hu b c
    have h2 : 0 < (step R s op).2.count (upEv b c) := List.count_pos_iff.mpr hm
    unfold U
    by_cases hup : (s.conns c).up = true
    · rw [if_pos hup] at h1; split at h1 <;> omega
    · rw [if_neg hup]
  · intro _ c hm b'; exact no_down_in_up_step s op hs false b' c hm

/-- the listener phase of `finishL`: state and outputs after the ConnectionUp listener ran on `s1` -/
def lstPhase (cfg : Cfg) (l : Lst) (s1 : St) (c : Nat) (dp : Option Nat) : St × List Out :=
  match l.up with
  | Option.none => (s1, [])
  | some .send => sendRaw cfg s1 c [(OFPT_BARRIER_REQUEST, 5000 + c)]
  | some .sendTo => lstSendTo cfg s1 dp (5000 + c)
  | some .disc => disconnectL cfg l s1 c false

theorem quiet_lstPhase (l : Lst) (s1 : St) (c : Nat) (dp : Option Nat) (hs : SInv s1) (hc : c < s1.n) :
    Quiet s1 (lstPhase R l s1 c dp).2 (lstPhase R l s1 c dp).1 := by
  unfold lstPhase
  split
  · exact Quiet.refl s1 hs
  · exact quiet_sendRaw s1 _ _ hs
  · exact quiet_lstSendTo s1 _ _ hs
  · exact quiet_disconnectL l s1 c hs hc

/-- a ConnectionDown for `c` in the listener phase means `c` ends it disconnected -/
theorem lstPhase_down_disc (l : Lst) (s1 : St) (c : Nat) (dp : Option Nat) (hs : SInv s1) (b' : Bool)
    (h : downEv b' c ∈ (lstPhase R l s1 c dp).2) : ((lstPhase R l s1 c dp).1.conns c).disc = true := by
  unfold lstPhase at h ⊢
  split at h
  · simp at h
  · have := count_sendRaw_ev (v := v) s1 c [(OFPT_BARRIER_REQUEST, 5000 + c)] ⟨b', .down, c, 0⟩
    rw [List.count_eq_zero] at this; exact absurd h this
  · exact absurd h (mem_lstSendTo_outs s1 dp (5000 + c) ⟨b', .down, c, 0⟩)
  · exact (disconnectL_flags l s1 c hs).1

theorem finishL_eq (cfg : Cfg) (l : Lst) (s : St) (c : Nat) :
    finishL cfg l s c =
      (let k := s.conns c
       let s1 := (s.setReg k.dpid (some c)).setConn c { k with up := true }
       let pre : List Out := [.reg k.dpid c, .ev ⟨true, .handshakeComplete, c, 0⟩, .ev ⟨true, .up, c, 0⟩]
       let r := lstPhase cfg l s1 c k.dpid
       if l.stopIfDisc && (r.1.conns c).disc then (r.1, pre ++ r.2)
       else
         let rest : List Out := .ev ⟨false, .up, c, 0⟩ :: ev2 .features c 0
         match k.deferred with
         | some (p :: ps) =>
           (r.1.setConn c { r.1.conns c with deferred := Option.none },
            pre ++ r.2 ++ rest ++ (p :: ps).flatMap fun n => ev2 .portStatus c n)
         | _ => (r.1, pre ++ r.2 ++ rest)) := by
  unfold finishL lstPhase
  cases l.up with
  | none => rfl
  | some a => cases a <;> rfl

theorem quiet_setDeferred (s : St) (c : Nat) (hs : SInv s) (hc : c < s.n) (hu : (s.conns c).up = true) :
    Quiet s [] (s.setConn c { s.conns c with deferred := Option.none }) := by
  have a1 := hs.closedDisc c; have a2 := hs.dpidNexus c; have a3 := hs.upDpid c
  have a5 := hs.downUp c; have a6 := hs.closedDown c; have a7 := hs.lost c
  have hfl : ∀ c', ((s.setConn c { s.conns c with deferred := Option.none }).conns c').up = (s.conns c').up ∧
      ((s.setConn c { s.conns c with deferred := Option.none }).conns c').downRaised = (s.conns c').downRaised := by
    intro c'; simp only [setConn_conns]; split <;> simp_all
  refine ⟨?_, rfl, fun c' => (hfl c').1, fun _ _ => rfl, ?_⟩
  · refine sinv_of_conn' s _ c hs hc (by simp) (by intro c' hne; simp [hne]) ?_ ?_ ?_ ?_ ?_ ?_ ?_
    all_goals simp
    all_goals grind
  · intro b c'; unfold D; rw [(hfl c').2]; simp

theorem mem_up_finish_outs (dp : Option Nat) (c c' : Nat) (b : Bool) (o2 : List Out) (ps : List Nat)
    (h : upEv b c' ∈ ([Out.reg dp c, .ev ⟨true, .handshakeComplete, c, 0⟩, .ev ⟨true, .up, c, 0⟩] : List Out) ++ o2 ++
      (Out.ev ⟨false, .up, c, 0⟩ :: ev2 .features c 0) ++ ps.flatMap fun n => ev2 .portStatus c n) :
    (c' = c ∧ (b = false → upEv b c' ∉ ([Out.reg dp c, .ev ⟨true, .handshakeComplete, c, 0⟩, .ev ⟨true, .up, c, 0⟩] : List Out))) ∨
      upEv b c' ∈ o2 := by
  simp only [List.mem_append, mem_ps_flatMap] at h
  rcases h with ((h | h) | h) | h
  · left; simp [upEv] at h ⊢; obtain ⟨h1, h2⟩ := h; subst h1; subst h2; simp
  · right; exact h
  · left; simp [upEv, ev2] at h ⊢; obtain ⟨h1, h2⟩ := h; subst h1; subst h2; simp
  · obtain ⟨n, _, b2, h⟩ := h; simp [upEv] at h

theorem mem_down_finish_outs (dp : Option Nat) (c c' : Nat) (b : Bool) (o2 : List Out) (ps : List Nat)
    (h : downEv b c' ∈ ([Out.reg dp c, .ev ⟨true, .handshakeComplete, c, 0⟩, .ev ⟨true, .up, c, 0⟩] : List Out) ++ o2 ++
      (Out.ev ⟨false, .up, c, 0⟩ :: ev2 .features c 0) ++ ps.flatMap fun n => ev2 .portStatus c n) :
    downEv b c' ∈ o2 := by
  simp only [List.mem_append, mem_ps_flatMap] at h
  rcases h with ((h | h) | h) | h
  · simp [downEv] at h
  · exact h
  · simp [downEv, ev2] at h
  · obtain ⟨n, _, b2, h⟩ := h; simp [downEv] at h

theorem lstep_finishL (l : Lst) (s : St) (c x : Nat) (hs : SInv s) (hp : Pending s c x) :
    LStep l.stopIfDisc s (finishL R l s c).2 (finishL R l s c).1 := by
  obtain ⟨hc, hu, hd, hb⟩ := hp
  obtain ⟨hdp, hdf, _⟩ := hs.barrierOk c hu hd (by rw [hb]; rfl)
  have a1 := hs.closedDisc c; have a2 := hs.dpidNexus c; have a5 := hs.downUp c
  rw [finishL_eq]
  simp only []
  generalize hs1 : (s.setReg (s.conns c).dpid (some c)).setConn c { s.conns c with up := true } = s1
  have hs1c : ∀ c', s1.conns c' = if c' = c then { s.conns c with up := true } else s.conns c' := by
    intro c'; rw [← hs1]; simp
  have hs1n : s1.n = s.n := by rw [← hs1]; rfl
  have hsinv1 : SInv s1 := by
    refine sinv_of_conn' s s1 c hs hc hs1n (by intro c' hne; rw [hs1c]; simp [hne]) ?_ ?_ ?_ ?_ ?_ ?_ ?_
    all_goals rw [hs1c]; simp
    all_goals grind
  have hq := quiet_lstPhase (v := v) l s1 c (s.conns c).dpid hsinv1 (by rw [hs1n]; exact hc)
  generalize hr : lstPhase R l s1 c (s.conns c).dpid = r at hq
  have hUs : U s c = 0 := by unfold U; simp [hu]
  have hU1 : ∀ c', U s1 c' = if c' = c then 1 else U s c' := by
    intro c'; unfold U; rw [hs1c]; split <;> simp_all
  have hD1 : ∀ c', D s1 c' = D s c' := by
    intro c'; unfold D; rw [hs1c]; split <;> simp_all
  have hUr : ∀ c', U r.1 c' = U s1 c' := fun c' => by unfold U; rw [hq.up]
  have hdown_r : ∀ b' , downEv b' c ∈ r.2 → (r.1.conns c).disc = true := by
    intro b' h; rw [← hr] at h ⊢; exact lstPhase_down_disc l s1 c _ hsinv1 b' h
  have cpreT : ∀ c', ([Out.reg (s.conns c).dpid c, .ev ⟨true, .handshakeComplete, c, 0⟩, .ev ⟨true, .up, c, 0⟩] : List Out).count (upEv true c')
      = if c' = c then 1 else 0 := by
    intro c'; by_cases h : c' = c
    · subst h; simp [upEv, List.count_cons]
    · have h' : ¬ c = c' := fun e => h e.symm
      simp [upEv, List.count_cons, h, h']
  have cpreF : ∀ c', ([Out.reg (s.conns c).dpid c, .ev ⟨true, .handshakeComplete, c, 0⟩, .ev ⟨true, .up, c, 0⟩] : List Out).count (upEv false c') = 0 := by
    intro c'; simp [upEv, List.count_cons]
  have cpreD : ∀ b' c', ([Out.reg (s.conns c).dpid c, .ev ⟨true, .handshakeComplete, c, 0⟩, .ev ⟨true, .up, c, 0⟩] : List Out).count (downEv b' c') = 0 := by
    intro b' c'; simp [downEv, List.count_cons]
  have crestT : ∀ c', (Out.ev ⟨false, .up, c, 0⟩ :: ev2 .features c 0).count (upEv true c') = 0 := by
    intro c'; simp [upEv, ev2, List.count_cons]
  have crestF : ∀ c', (Out.ev ⟨false, .up, c, 0⟩ :: ev2 .features c 0).count (upEv false c') = if c' = c then 1 else 0 := by
    intro c'; by_cases h : c' = c
    · subst h; simp [upEv, ev2, List.count_cons]
    · have h' : ¬ c = c' := fun e => h e.symm
      simp [upEv, ev2, List.count_cons, h, h']
  have crestD : ∀ b' c', (Out.ev ⟨false, .up, c, 0⟩ :: ev2 .features c 0).count (downEv b' c') = 0 := by
    intro b' c'; simp [downEv, ev2, List.count_cons]
  have cps : ∀ (ps : List Nat) (y : Out), (∀ n b, y ≠ .ev ⟨b, .portStatus, c, n⟩) →
      (ps.flatMap fun n => ev2 .portStatus c n).count y = 0 := fun ps y hy => count_ps_flatMap ps c y hy
  have hupr : (r.1.conns c).up = true := by rw [hq.up, hs1c]; simp
  have hcr : c < r.1.n := by rw [hq.n, hs1n]; exact hc
  split
  · -- stopped after the nexus-level raise
    rename_i hstop
    simp only [Bool.and_eq_true] at hstop
    refine ⟨hq.sinv, ?_, ?_, ?_, ?_, ?_⟩
    · intro c'; rw [List.count_append, cpreT, hq.noUp, hUr, hU1]
      by_cases h : c' = c
      · subst h; simp [hUs]
      · simp [h]
    · intro c'; rw [List.count_append, cpreF, hq.noUp, hUr, hU1]
      by_cases h : c' = c
      · subst h; simp [hUs]
      · simp [h]
    · intro b' c'; rw [List.count_append, cpreD, ← hq.down b' c', hD1]; omega
    · intro b' c' hm
      rw [List.mem_append] at hm
      rcases hm with hm | hm
      · have : c' = c := by simp [upEv] at hm; obtain ⟨_, h2⟩ := hm; first | exact h2 | exact h2.symm
        rw [this]; exact hUs
      · have := hq.noUp b' c'; rw [List.count_eq_zero] at this; exact absurd hm this
    · intro _ c' hm
      rw [List.mem_append] at hm
      rcases hm with hm | hm
      · simp [upEv] at hm
      · have := hq.noUp false c'; rw [List.count_eq_zero] at this; exact absurd hm this
  · rename_i hnstop
    have hfinal : ∀ (tailps : List Nat) (s' : St), Quiet r.1 [] s' →
        LStep l.stopIfDisc s
          ([Out.reg (s.conns c).dpid c, .ev ⟨true, .handshakeComplete, c, 0⟩, .ev ⟨true, .up, c, 0⟩] ++ r.2 ++
            (Out.ev ⟨false, .up, c, 0⟩ :: ev2 .features c 0) ++ tailps.flatMap fun n => ev2 .portStatus c n) s' := by
      intro tailps s' hq2
      have hUs' : ∀ c', U s' c' = U r.1 c' := fun c' => by unfold U; rw [hq2.up]
      have hDs' : ∀ b' c', D r.1 c' = D s' c' := fun b' c' => by have := hq2.down b' c'; simpa using this
      refine ⟨hq2.sinv, ?_, ?_, ?_, ?_, ?_⟩
      · intro c'
        rw [List.count_append, List.count_append, List.count_append, cpreT, hq.noUp, crestT,
          cps _ _ (by intro n b; simp [upEv]), hUs', hUr, hU1]
        by_cases h : c' = c
        · subst h; simp [hUs]
        · simp [h]
      · intro c'
        rw [List.count_append, List.count_append, List.count_append, cpreF, hq.noUp, crestF,
          cps _ _ (by intro n b; simp [upEv]), hUs', hUr, hU1]
        by_cases h : c' = c
        · subst h; simp [hUs]
        · simp [h]
      · intro b' c'
        rw [List.count_append, List.count_append, List.count_append, cpreD, crestD,
          cps _ _ (by intro n b; simp [downEv]), ← hDs' b' c', ← hq.down b' c', hD1]; omega
      · intro b' c' hm
        rcases mem_up_finish_outs _ c c' b' r.2 tailps hm with ⟨h, _⟩ | h
        · rw [h]; exact hUs
        · have := hq.noUp b' c'; rw [List.count_eq_zero] at this; exact absurd h this
      · intro hst c' hm b2 hdn
        rcases mem_up_finish_outs _ c c' false r.2 tailps hm with ⟨hcc, _⟩ | h
        · subst hcc
          have := hdown_r b2 (mem_down_finish_outs _ c' c' b2 r.2 tailps hdn)
          simp [hst, this] at hnstop
        · have := hq.noUp false c'; rw [List.count_eq_zero] at this; exact absurd h this
    split
    · rename_i p ps hdfr
      exact hfinal (p :: ps) _ (quiet_setDeferred r.1 c hq.sinv hcr hupr)
    · have := hfinal [] r.1 (Quiet.refl r.1 hq.sinv)
      simpa using this

/-- every step of the listener model obeys `LStep` -/
theorem lstep_stepL (l : Lst) (s : St) (op : Op) (hs : SInv s) :
    LStep l.stopIfDisc s (stepL R l s op).2 (stepL R l s op).1 := by
  have base : stepL R l s op = step R s op → LStep l.stopIfDisc s (stepL R l s op).2 (stepL R l s op).1 := by
    intro h; rw [h]; exact lstep_base _ s op hs
  cases op with
  | connect => exact base rfl
  | sockFail c => exact base rfl
  | sendTo d x => exact base rfl
  | disc c =>
    by_cases h1 : s.n ≤ c
    · exact base (by simp [stepL, step, h1])
    · have : stepL R l s (.disc c) = disconnectL R l s c false := by simp [stepL, h1]
      rw [this]; exact LStep.of_quiet (quiet_disconnectL l s c hs (Nat.not_le.mp h1))
  | eof c =>
    by_cases h1 : s.n ≤ c
    · exact base (by simp [stepL, step, h1])
    by_cases h2 : (s.conns c).closed = true
    · exact base (by simp [stepL, step, h1, h2])
    · have : stepL R l s (.eof c) = closeL R l s c := by simp [stepL, h1, h2]
      rw [this]; exact LStep.of_quiet (quiet_closeL l s c hs (Nat.not_le.mp h1))
  | msg c m =>
    by_cases h1 : s.n ≤ c
    · exact base (by simp [stepL, step, deliverL, deliver, h1])
    by_cases h2 : (s.conns c).closed = true
    · exact base (by simp [stepL, step, deliverL, deliver, h1, h2])
    by_cases h3 : (s.conns c).disc = true
    · have : stepL R l s (.msg c m) = closeL R l s c := by simp [stepL, deliverL, h1, h2, h3]
      rw [this]; exact LStep.of_quiet (quiet_closeL l s c hs (Nat.not_le.mp h1))
    by_cases h4 : (s.conns c).up = true
    · exact base (by simp [stepL, step, deliverL, deliver, h1, h2, h3, h4])
    have h3' : (s.conns c).disc = false := by simpa using h3
    have h4' : (s.conns c).up = false := by simpa using h4
    have hstep : stepL R l s (.msg c m) = dispatchHsL R l s c m := by simp [stepL, deliverL, h1, h2, h3, h4]
    have hbase : step R s (.msg c m) = dispatchHs R s c m := by simp [step, deliver, h1, h2, h3, h4]
    have hbar := hs.barrierOk c h4' h3'
    cases m with
    | barrierReply x =>
      cases hba : (s.conns c).barrier with
      | none => exact base (by rw [hstep, hbase]; simp [dispatchHsL, dispatchHs, hba])
      | some b =>
        cases b with
        | none => exact absurd hba (hbar (by simp [hba])).2.2
        | some y =>
          by_cases hxy : x = y
          · subst hxy
            have : stepL R l s (.msg c (.barrierReply x)) = finishL R l s c := by
              rw [hstep]; simp [dispatchHsL, hba, barrierXid]
            rw [this]; exact lstep_finishL l s c x hs ⟨Nat.not_le.mp h1, h4', h3', hba⟩
          · exact base (by rw [hstep, hbase]; simp [dispatchHsL, dispatchHs, hba, barrierXid, hxy])
    | error x t e =>
      cases hba : (s.conns c).barrier with
      | none => exact base (by rw [hstep, hbase]; simp [dispatchHsL, dispatchHs, hba])
      | some b =>
        cases b with
        | none => exact absurd hba (hbar (by simp [hba])).2.2
        | some y =>
          by_cases hfin : x = y ∧ t = 1 ∧ e = 1
          · obtain ⟨rfl, rfl, rfl⟩ := hfin
            have : stepL R l s (.msg c (.error x 1 1)) = finishL R l s c := by
              rw [hstep]; simp [dispatchHsL, hba, barrierXid, OFPET_BAD_REQUEST, OFPBRC_BAD_TYPE]
            rw [this]; exact lstep_finishL l s c x hs ⟨Nat.not_le.mp h1, h4', h3', hba⟩
          · refine base ?_
            rw [hstep, hbase]
            simp only [dispatchHsL, dispatchHs, hba, barrierXid, OFPET_BAD_REQUEST, OFPBRC_BAD_TYPE]
            by_cases a1 : x = y <;> by_cases a2 : t = 1 <;> by_cases a3 : e = 1 <;> simp_all
    | _ => exact base (by rw [hstep, hbase]; simp [dispatchHsL])

/-! ### along `runL` -/

/-- what is recorded about each step of a history of the listener model -/
def StepLOK (stop : Bool) (earlier : Trace) (e : Op × List Out) : Prop :=
  ∀ b c, upEv b c ∈ e.2 →
    (∀ b', (outs earlier).count (downEv b' c) = 0) ∧ (outs earlier).count (upEv true c) = 0 ∧
    (stop = true → b = false → ∀ b', downEv b' c ∉ e.2)

def AllStepsL (stop : Bool) : Trace → Prop
  | [] => True
  | e :: t => StepLOK stop t e ∧ AllStepsL stop t

theorem allStepsL_split (stop : Bool) (tr later earlier : Trace) (e : Op × List Out) (h : AllStepsL stop tr)
    (hs : tr = later ++ e :: earlier) : StepLOK stop earlier e := by
  induction later generalizing tr with
  | nil => subst hs; exact h.1
  | cons a l ih => subst hs; exact ih _ h.2 rfl

structure LInv (stop : Bool) (s : St) (tr : Trace) : Prop where
  sinv : SInv s
  upT : ∀ c, (outs tr).count (upEv true c) = U s c
  upF : ∀ c, (outs tr).count (upEv false c) ≤ U s c
  down : ∀ b c, (outs tr).count (downEv b c) = D s c
  steps : AllStepsL stop tr

theorem linv_init (stop : Bool) : LInv stop init [] := by
  refine ⟨sinv_init, ?_, ?_, ?_, trivial⟩ <;> simp [init, outs, U, D]

theorem linv_step (l : Lst) (s : St) (tr : Trace) (op : Op) (h : LInv l.stopIfDisc s tr) :
    LInv l.stopIfDisc (stepL R l s op).1 ((op, (stepL R l s op).2) :: tr) := by
  have hl := lstep_stepL (v := v) l s op h.sinv
  refine ⟨hl.sinv, ?_, ?_, ?_, ⟨?_, h.steps⟩⟩
  · intro c; rw [outs_cons, List.count_append, h.upT]; have := hl.upT c; simp only at this ⊢; omega
  · intro c; rw [outs_cons, List.count_append]; have := hl.upF c; have := h.upF c; have := h.upT c; have := hl.upT c
    simp only at *; omega
  · intro b c; rw [outs_cons, List.count_append, h.down]; have := hl.down b c; simp only at this ⊢; omega
  · intro b c hm
    have hU := hl.fresh b c hm
    refine ⟨?_, by rw [h.upT]; exact hU, fun hst hb b' => ?_⟩
    · intro b'
      rw [h.down]
      unfold D
      split
      · rename_i hdr
        have := h.sinv.downUp c hdr
        unfold U at hU; simp [this] at hU
      · rfl
    · subst hb; exact hl.order hst c hm b'

theorem linv_foldl (l : Lst) (ops : List Op) (p : St × Trace) (h : LInv l.stopIfDisc p.1 p.2) :
    LInv l.stopIfDisc (ops.foldl (stepTL R l) p).1 (ops.foldl (stepTL R l) p).2 := by
  induction ops generalizing p with
  | nil => exact h
  | cons op ops ih => exact ih _ (linv_step l p.1 p.2 op h)

theorem linv_runL (l : Lst) (ops : List Op) : LInv l.stopIfDisc (runL R l ops).1 (runL R l ops).2 :=
  linv_foldl l ops _ (linv_init _)
end Pox.Conn
