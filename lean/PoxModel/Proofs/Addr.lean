import PoxModel.Proofs.Addr.Mask
import PoxModel.Proofs.Addr.IP4
import PoxModel.Proofs.Addr.Text
import PoxModel.Proofs.Addr.Runs
import PoxModel.Proofs.Addr.IP6
import PoxModel.Proofs.Addr.IP6RT
import PoxModel.Proofs.Addr.Dpid
import PoxModel.Proofs.Addr.Canon
import PoxModel.Proofs.Addr.Cidr
import PoxModel.Proofs.Addr.Order
import PoxModel.Proofs.Addr.Eth
import PoxModel.Proofs.Addr.Spec
import PoxModel.Proofs.Addr.Parse6
import PoxModel.Proofs.Addr.Parse4
import PoxModel.Proofs.Addr.EthSpec
import PoxModel.Proofs.Addr.Guard6
import PoxModel.Proofs.Addr.Strict6
import PoxModel.Proofs.Addr.StrictEth
import PoxModel.Proofs.Addr.StrictCidr
import PoxModel.Proofs.Addr.StrictCidr6
/-! Helper lemmas for C16 (address types), split by topic under `Proofs/Addr/`:
`Mask` (netmask loop, membership), `IP4` (byte orders), `Text` (digits, `int()`, split/join/count), `Runs` (zero-run choice,
checked on all 2^8 patterns), `IP6`/`IP6RT` (IPv6 print→parse), `Dpid`, `Canon` (RFC 5952 shape, mapped addresses, IPv6
masks), `Cidr` (`parse_cidr` text forms), `Order` (byte-wise order), `Eth` (Ethernet text forms), `Spec` (RFC 4291 denotation, Ethernet reference definition), `Parse6` (parser = denotation on every valid IPv6 text),
`Parse4` (canonical dotted quads, classful inference), `EthSpec` (EthAddr text = reference definition).  `Guard6` / `Strict6` / `StrictEth` / `StrictCidr` / `StrictCidr6` (the repaired variants of fixes/C16_*.diff: accept ⇔ well-formed).  Core only. -/
