import PoxModel.Proofs.BufPool
/-! counting lemmas for the buffer pool: how `stored` moves under `alloc` / `use`, and how the ghost list shrinks -/
namespace Pox.BufPool
variable {F : Type}

theorem filter_set_some : ∀ (l : List (Option F)) (i : Nat) (f : F), i < l.length → l.getD i none = none →
    ((l.set i (some f)).filter Option.isSome).length = (l.filter Option.isSome).length + 1
  | [], i, f, h, _ => by simp at h
  | a :: r, 0, f, _, hn => by
    simp at hn; subst hn; simp
  | a :: r, i+1, f, h, hn => by
    have ih := filter_set_some r i f (by simpa using h) (by simpa using hn)
    cases a <;> simp [List.filter_cons, ih]

theorem filter_set_none : ∀ (l : List (Option F)) (i : Nat) (f : F), i < l.length → l.getD i none = some f →
    ((l.set i none).filter Option.isSome).length + 1 = (l.filter Option.isSome).length
  | [], i, f, h, _ => by simp at h
  | a :: r, 0, f, _, hn => by
    simp at hn; subst hn; simp
  | a :: r, i+1, f, h, hn => by
    have ih := filter_set_none r i f (by simpa using h) (by simpa using hn)
    cases a <;> simp [List.filter_cons] <;> omega

/-- handing out an id stores exactly one more packet -/
theorem alloc_stored (p : Pool F) (f : F) (id : Nat) (h : (alloc p f).2 = some id) :
    stored (alloc p f).1 = stored p + 1 := by
  unfold alloc at *
  obtain ⟨hs, -⟩ := firstFree_spec p.slots
  cases hff : firstFree p.slots with
  | some i =>
    simp only [hff] at h ⊢
    obtain ⟨hi, hfree⟩ := hs i hff
    exact filter_set_some p.slots i f hi hfree
  | none =>
    simp only [hff] at h ⊢
    by_cases hfull : p.slots.length ≥ p.max
    · simp [hfull] at h
    · simp only [hfull, if_false]
      simp [stored, List.filter_append]

theorem alloc_stored_none (p : Pool F) (f : F) (h : (alloc p f).2 = none) : stored (alloc p f).1 = stored p := by
  rw [(alloc_none p f h).1]

/-- releasing a live id stores exactly one packet fewer; anything else leaves the count alone -/
theorem use_stored (p : Pool F) (id : Nat) (f : F) (h : (use p id).2 = some f) : stored (use p id).1 + 1 = stored p := by
  unfold use at *
  by_cases h0 : id = 0
  · simp [h0] at h
  · simp only [h0, if_false] at h ⊢
    by_cases hge : id - 1 ≥ p.slots.length
    · simp [hge] at h
    · simp only [hge, if_false] at h ⊢
      cases hg : p.slots.getD (id - 1) none with
      | none => rw [hg] at h; exact absurd h (by simp)
      | some g =>
        exact filter_set_none p.slots (id - 1) g (by omega) hg

/-- removing the (unique) entry of an id shortens the ghost list by one -/
theorem length_filter_ne {A : Type} : ∀ (l : List (Nat × A)) (id : Nat) (a : A), (l.map (·.1)).Nodup → (id, a) ∈ l →
    (l.filter (fun e => e.1 ≠ id)).length + 1 = l.length
  | [], _, _, _, h => by simp at h
  | e :: r, id, a, hn, hm => by
    simp only [List.map_cons, List.nodup_cons] at hn
    by_cases he : e.1 = id
    · have hr : r.filter (fun x => x.1 ≠ id) = r := by
        apply List.filter_eq_self.mpr
        intro x hx
        have : x.1 ≠ e.1 := fun hh => hn.1 (List.mem_map.mpr ⟨x, hx, hh⟩)
        rw [he] at this
        simpa using this
      have h1 : (e :: r).filter (fun x => x.1 ≠ id) = r.filter (fun x => x.1 ≠ id) := by
        rw [List.filter_cons]; simp [he]
      rw [h1, hr]; rfl
    · have hm' : (id, a) ∈ r := by
        rcases List.mem_cons.mp hm with h | h
        · exact absurd (by rw [← h]) he
        · exact h
      have ih := length_filter_ne r id a hn.2 hm'
      have h1 : (e :: r).filter (fun x => x.1 ≠ id) = e :: r.filter (fun x => x.1 ≠ id) := by
        rw [List.filter_cons]; simp [he]
      rw [h1]; simp only [List.length_cons]; omega

end Pox.BufPool

namespace Pox.BufPool
variable {F : Type}

theorem firstFree_none_iff : ∀ (l : List (Option F)), firstFree l = none ↔ (l.filter Option.isSome).length = l.length
  | [] => by simp [firstFree]
  | none :: r => by
    simp only [firstFree, List.filter_cons, Option.isSome_none, Bool.false_eq_true, if_false, List.length_cons]
    constructor
    · intro h; cases h
    · intro h; have := List.length_filter_le Option.isSome r; omega
  | some a :: r => by
    simp only [firstFree, Option.map_eq_none_iff, List.filter_cons, Option.isSome_some, if_true, List.length_cons]
    rw [firstFree_none_iff r]; omega

/-- the pool hands out no id exactly when `max` packets are stored -/
theorem alloc_none_iff (p : Pool F) (f : F) (hb : p.slots.length ≤ p.max) : (alloc p f).2 = none ↔ stored p = p.max := by
  have hle := stored_le p
  constructor
  · intro h
    obtain ⟨-, hge, hall⟩ := alloc_none p f h
    have : firstFree p.slots = none := by
      unfold alloc at h
      cases hff : firstFree p.slots with
      | none => rfl
      | some i => simp [hff] at h
    have := (firstFree_none_iff p.slots).mp this
    unfold stored; omega
  · intro h
    have hfull : (p.slots.filter Option.isSome).length = p.slots.length := by unfold stored at h hle; omega
    have hff := (firstFree_none_iff p.slots).mpr hfull
    unfold alloc
    rw [hff]
    have : p.slots.length ≥ p.max := by unfold stored at h; omega
    simp [this]

end Pox.BufPool
