import PoxModel.Proofs.Conn
/-! History-level invariants for C09 (repaired configuration): provenance of the handshake state, the registry invariant,
and the invariant carried along `run`. -/
set_option linter.unusedSimpArgs false
set_option linter.unusedVariables false
namespace Pox.Conn

variable {v : Bool}
local notation "R" => Cfg.rv v

/-- provenance of the handshake state of one connection: its barrier xid is the one sent in answer to the most recent
features reply, its datapath id is that reply's, and its deferred list is exactly the port-status received since -/
def ProvC (k : Conn) (tr : Trace) (c : Nat) : Prop :=
  k.up = false → k.disc = false →
    (∀ x, k.barrier = some (some x) →
      ∃ d fo, lastFeat tr c = some (d, fo) ∧ Out.sent c OFPT_BARRIER_REQUEST x ∈ fo ∧ k.dpid = some d) ∧
    (∀ l, k.deferred = some l → (∃ d fo, lastFeat tr c = some (d, fo)) ∧ l = psSince tr c)

theorem provC_keep (k k' : Conn) (tr : Trace) (c : Nat) (op : Op) (o : List Out)
    (h1 : isFeat op c = none) (h2 : isPs op c = none) (hp : ProvC k tr c)
    (hk : k'.up = false → k'.disc = false →
      k.up = false ∧ k.disc = false ∧ k'.barrier = k.barrier ∧ k'.deferred = k.deferred ∧ k'.dpid = k.dpid) :
    ProvC k' ((op, o) :: tr) c := by
  intro hu hd
  obtain ⟨a1, a2, a3, a4, a5⟩ := hk hu hd
  have := hp a1 a2
  simp only [lastFeat, psSince, h1, h2, a3, a4, a5]
  exact this

theorem isFeat_ne (c c' : Nat) (m : Msg) (h : c' ≠ c) : isFeat (.msg c m) c' = none := by
  cases m <;> simp [isFeat, Ne.symm h]
theorem isPs_ne (c c' : Nat) (m : Msg) (h : c' ≠ c) : isPs (.msg c m) c' = none := by
  cases m <;> simp [isPs, Ne.symm h]

def Prov (s : St) (tr : Trace) : Prop := ∀ c, ProvC (s.conns c) tr c

local macro "fin" : tactic => `(tactic| (
  (try simp [apply_ite Conn.up, apply_ite Conn.disc, apply_ite Conn.barrier, apply_ite Conn.deferred, apply_ite Conn.dpid,
     disconnect_disc, close_disc, finish_up]); (try grind [finish_deferred_ne])))

theorem prov_step (s : St) (tr : Trace) (op : Op) (hs : SInv s) (hp : Prov s tr) :
    Prov (step R s op).1 ((op, (step R s op).2) :: tr) := by
  apply step_elim s op hs (fun r => Prov r.1 ((op, r.2) :: tr))
  case connect =>
    intro h c'; subst h
    exact provC_keep _ _ _ _ _ _ rfl rfl (hp c') (by fin)
  case sendNone =>
    intro d x h _ c'; subst h
    exact provC_keep _ _ _ _ _ _ rfl rfl (hp c') (by fin)
  case sendSome =>
    intro d x c h _ c'; subst h
    refine provC_keep _ _ _ _ _ _ rfl rfl (hp c') ?_
    simp only [sendRaw]
    split
    · fin
    split
    · fin
    · fin
  case disc =>
    intro c _ h c'; subst h
    exact provC_keep _ _ _ _ _ _ rfl rfl (hp c') (by fin)
  case sockFail =>
    intro c _ h c'; subst h
    exact provC_keep _ _ _ _ _ _ rfl rfl (hp c') (by fin)
  case absent =>
    intro c hc h c'
    rcases h with ⟨m, rfl⟩ | rfl | rfl | rfl
    · by_cases hcc : c' = c
      · subst hcc; intro hu hd; simp [hs.fresh c' hc]
      · exact provC_keep _ _ _ _ _ _ (isFeat_ne _ _ _ hcc) (isPs_ne _ _ _ hcc) (hp c') (by fin)
    all_goals exact provC_keep _ _ _ _ _ _ rfl rfl (hp c') (by fin)
  case closed =>
    intro c hc hcl h c'
    rcases h with ⟨m, rfl⟩ | rfl
    · by_cases hcc : c' = c
      · subst hcc; intro hu hd; have := hs.closedDisc c' hcl; simp_all
      · exact provC_keep _ _ _ _ _ _ (isFeat_ne _ _ _ hcc) (isPs_ne _ _ _ hcc) (hp c') (by fin)
    · exact provC_keep _ _ _ _ _ _ rfl rfl (hp c') (by fin)
  case close =>
    intro c hc hcl h c'
    rcases h with ⟨⟨m, rfl⟩, hd⟩ | rfl
    · by_cases hcc : c' = c
      · subst hcc; intro hu hd; simp [close_disc] at hd
      · exact provC_keep _ _ _ _ _ _ (isFeat_ne _ _ _ hcc) (isPs_ne _ _ _ hcc) (hp c') (by fin)
    · exact provC_keep _ _ _ _ _ _ rfl rfl (hp c') (by fin)
  case upEvents =>
    intro c m l _ _ hu h _ c'; subst h
    by_cases hcc : c' = c
    · subst hcc; intro hu'; simp [hu] at hu'
    · exact provC_keep _ _ _ _ _ _ (isFeat_ne _ _ _ hcc) (isPs_ne _ _ _ hcc) (hp c') (by fin)
  case upHello =>
    intro c _ _ hu h _ c'; subst h
    exact provC_keep _ _ _ _ _ _ (by simp [isFeat]) (by simp [isPs]) (hp c') (by fin)
  case upHelloBroken =>
    intro c _ _ hu h _ c'; subst h
    exact provC_keep _ _ _ _ _ _ (by simp [isFeat]) (by simp [isPs]) (hp c') (by fin)
  case upFeatures =>
    intro c d _ _ hu h _ c'; subst h
    by_cases hcc : c' = c
    · subst hcc; intro hu'; simp [hu] at hu'
    · exact provC_keep _ _ _ _ _ _ (isFeat_ne _ _ _ hcc) (isPs_ne _ _ _ hcc) (hp c') (by fin)
  case upFeaturesMove =>
    intro c d _ _ hu h _ _ c'; subst h
    by_cases hcc : c' = c
    · subst hcc; intro hu'; simp [hu] at hu'
    · exact provC_keep _ _ _ _ _ _ (isFeat_ne _ _ _ hcc) (isPs_ne _ _ _ hcc) (hp c') (by fin)
  case echo =>
    intro c x _ _ h _ c'; subst h
    exact provC_keep _ _ _ _ _ _ (by simp [isFeat]) (by simp [isPs]) (hp c') (by fin)
  case echoBroken =>
    intro c x _ _ h _ c'; subst h
    exact provC_keep _ _ _ _ _ _ (by simp [isFeat]) (by simp [isPs]) (hp c') (by fin)
  case hsHello =>
    intro c _ _ _ h _ _ c'; subst h
    exact provC_keep _ _ _ _ _ _ (by simp [isFeat]) (by simp [isPs]) (hp c') (by fin)
  case hsHelloBroken =>
    intro c _ _ _ h _ _ c'; subst h
    exact provC_keep _ _ _ _ _ _ (by simp [isFeat]) (by simp [isPs]) (hp c') (by fin)
  case hsWrongXid =>
    intro c x y _ _ _ h _ _ c'; subst h
    exact provC_keep _ _ _ _ _ _ (by simp [isFeat]) (by simp [isPs]) (hp c') (by fin)
  case hsFinish =>
    intro c x _ _ _ h _ c'
    rcases h with rfl | rfl <;>
      exact provC_keep _ _ _ _ _ _ (by simp [isFeat]) (by simp [isPs]) (hp c') (by fin)
  case hsFeaturesBroken =>
    intro c d _ _ _ h _ c'; subst h
    by_cases hcc : c' = c
    · subst hcc; intro hu' hd'; simp [disconnect_disc] at hd'
    · exact provC_keep _ _ _ _ _ _ (isFeat_ne _ _ _ hcc) (isPs_ne _ _ _ hcc) (hp c') (by fin)
  case hsFeatures =>
    intro c d _ _ _ h _ c'; subst h
    by_cases hcc : c' = c
    · subst hcc; intro hu' hd'
      simp [lastFeat, psSince, isFeat]
      exact ⟨d, _, ⟨rfl, rfl⟩, by simp, rfl⟩
    · exact provC_keep _ _ _ _ _ _ (isFeat_ne _ _ _ hcc) (isPs_ne _ _ _ hcc) (hp c') (by fin)
  case hsPortStatus =>
    intro c n l _ hd hu h hdf c'; subst h
    by_cases hcc : c' = c
    · subst hcc; intro hu' hd'
      have := hp c' hu hd
      simp [lastFeat, psSince, isFeat, isPs]
      obtain ⟨p1, p2⟩ := this
      refine ⟨p1, ?_⟩
      have := p2 l hdf
      exact ⟨this.1, by rw [this.2]⟩
    · exact provC_keep _ _ _ _ _ _ (isFeat_ne _ _ _ hcc) (isPs_ne _ _ _ hcc) (hp c') (by fin)
  case hsIgnored =>
    intro c m _ hd hu h hm c'; subst h
    by_cases hcc : c' = c
    · subst hcc
      rcases hm with ⟨rfl, _⟩ | rfl | ⟨n, rfl⟩ | ⟨x, rfl⟩ | ⟨x, rfl, _⟩ | ⟨x, t, e, rfl, _⟩ | ⟨n, rfl, hdf⟩
      case inr.inr.inr.inr.inr.inr =>
        intro _ _
        have hb := hs.barrierOk c' hu hd
        refine ⟨?_, fun l hl => by rw [hdf] at hl; cases hl⟩
        intro x hx
        have hx' : (s.conns c').barrier = some (some x) := hx
        have := (hb (by rw [hx']; rfl)).2.1; simp [hdf] at this
      all_goals exact provC_keep _ _ _ _ _ _ (by simp [isFeat]) (by simp [isPs]) (hp c') (by fin)
    · exact provC_keep _ _ _ _ _ _ (isFeat_ne _ _ _ hcc) (isPs_ne _ _ _ hcc) (hp c') (by fin)
/-- the step that announces a connection -/
theorem up_step_fact (s : St) (tr : Trace) (op : Op) (hs : SInv s) (hp : Prov s tr) (b : Bool) (c a : Nat)
    (he : Out.ev ⟨b, .up, c, a⟩ ∈ (step R s op).2) :
    ∃ x d fo, (op = .msg c (.barrierReply x) ∨ op = .msg c (.error x 1 1)) ∧
      lastFeat tr c = some (d, fo) ∧ Out.sent c OFPT_BARRIER_REQUEST x ∈ fo ∧
      (step R s op).2 = finHead (some d) c ++ (psSince tr c).flatMap fun n => ev2 .portStatus c n := by
  revert he
  apply step_elim s op hs (fun r => Out.ev ⟨b, .up, c, a⟩ ∈ r.2 →
    ∃ x d fo, (op = .msg c (.barrierReply x) ∨ op = .msg c (.error x 1 1)) ∧
      lastFeat tr c = some (d, fo) ∧ Out.sent c OFPT_BARRIER_REQUEST x ∈ fo ∧
      r.2 = finHead (some d) c ++ (psSince tr c).flatMap fun n => ev2 .portStatus c n)
  case hsFinish =>
    intro c0 x hc hd hu hop hb he
    have hcc : c0 = c := by
      simp [finish_outs, finHead, ev2, mem_ps_flatMap] at he
      rcases he with h | h <;> exact h.2.1.symm
    subst hcc
    obtain ⟨p1, p2⟩ := hp c0 hu hd
    obtain ⟨d, fo, h1, h2, h3⟩ := p1 x hb
    have hdf := (hs.barrierOk c0 hu hd (by rw [hb]; rfl)).2.1
    cases hl : (s.conns c0).deferred with
    | none => rw [hl] at hdf; cases hdf
    | some l =>
      have := (p2 l hl).2
      refine ⟨x, d, fo, hop, h1, h2, ?_⟩
      rw [finish_outs, h3, hl, ← this]; rfl
  case upEvents =>
    intro c m l _ _ hu _ hl
    rcases hl with ⟨_, rfl⟩ | ⟨x, _, rfl⟩ | ⟨x, t, e, _, rfl⟩ | ⟨n, _, rfl⟩ | ⟨n, _, rfl⟩ | ⟨x, _, rfl⟩ <;> simp [ev2]
  case sendSome =>
    intro d x c _ _
    simp only [sendRaw]
    split
    · simp
    split
    · simp [disconnect_true_outs]
    · simp
  case hsWrongXid =>
    intro c x y _ _ _ _ _ _
    simp [disconnect_nodpid_outs]
  all_goals
    intros
    simp_all [ev2, disconnect_true_outs, mem_close_outs, mem_disconnect_outs, downEv]
/-- the connection registered under `k` by this step's `_connect` calls, if any -/
def regIn (o : List Out) (k : Option Nat) : Option Nat := o.reverse.findSome? (regOf k)

theorem lastReg_cons (op : Op) (o : List Out) (tr : Trace) (k : Option Nat) :
    lastReg ((op, o) :: tr) k = (regIn o k).or (lastReg tr k) := by
  simp only [lastReg, regIn]; cases o.reverse.findSome? (regOf k) <;> rfl

theorem regIn_none (o : List Out) (k : Option Nat) (h : ∀ x ∈ o, regOf k x = none) : regIn o k = none := by
  simp only [regIn, List.findSome?_eq_none_iff, List.mem_reverse]; exact h

theorem regIn_cons_reg (dp : Option Nat) (c : Nat) (rest : List Out) (k : Option Nat) (h : ∀ x ∈ rest, regOf k x = none) :
    regIn (.reg dp c :: rest) k = if dp = k then some c else none := by
  simp only [regIn, List.reverse_cons, List.findSome?_append]
  have : rest.reverse.findSome? (regOf k) = none := by
    simp only [List.findSome?_eq_none_iff, List.mem_reverse]; exact h
  rw [this]; simp [regOf]

/-- registry invariant -/
structure RInv (s : St) (tr : Trace) : Prop where
  sound : ∀ k c, s.reg k = some c →
    c < s.n ∧ (s.conns c).dpid = k ∧ (s.conns c).up = true ∧ (s.conns c).disc = false
  exact : ∀ k, s.reg k = (lastReg tr k).bind fun c =>
    if (s.conns c).disc = true ∨ (s.conns c).dpid ≠ k then none else some c
  regUp : ∀ k c, lastReg tr k = some c → (s.conns c).up = true
  hist : ∀ c d, (s.conns c).dpid = some d → ∃ o, (Op.msg c (.featuresReply d), o) ∈ tr

theorem rinv_quiet (s s' : St) (tr : Trace) (op : Op) (o : List Out) (hr : RInv s tr)
    (hn : s.n ≤ s'.n) (hreg : ∀ k, s'.reg k = s.reg k) (hno : ∀ x ∈ o, ∀ k, regOf k x = none)
    (hc : ∀ c', (s'.conns c').up = (s.conns c').up ∧ ((s.conns c').up = true →
        (s'.conns c').dpid = (s.conns c').dpid ∧ (s'.conns c').disc = (s.conns c').disc))
    (hh : ∀ c' d, (s'.conns c').dpid = some d → (s.conns c').dpid = some d ∨ op = .msg c' (.featuresReply d)) :
    RInv s' ((op, o) :: tr) := by
  obtain ⟨h1, h2, h3, h4⟩ := hr
  have hl : ∀ k, lastReg ((op, o) :: tr) k = lastReg tr k := by
    intro k; rw [lastReg_cons, regIn_none _ _ (fun x hx => hno x hx k)]; rfl
  constructor
  · intro k c h; rw [hreg] at h
    obtain ⟨a1, a2, a3, a4⟩ := h1 k c h
    have := hc c
    refine ⟨by omega, ?_, ?_, ?_⟩ <;> simp_all
  · intro k; rw [hreg, hl, h2 k]
    cases hlr : lastReg tr k with
    | none => rfl
    | some c => have := h3 k c hlr; have := hc c; simp_all
  · intro k c h; rw [hl] at h; have := h3 k c h; have := hc c; simp_all
  · intro c d h
    rcases hh c d h with h | h
    · obtain ⟨o', ho⟩ := h4 c d h; exact ⟨o', List.mem_cons_of_mem _ ho⟩
    · exact ⟨o, by rw [h]; exact List.mem_cons_self⟩

theorem rinv_disc_shape (s s' : St) (tr : Trace) (op : Op) (o : List Out) (c : Nat) (hs : SInv s) (hr : RInv s tr)
    (hn : s'.n = s.n)
    (hreg : ∀ k, s'.reg k = if (s.conns c).nexus = true ∧ s.reg (s.conns c).dpid = some c ∧ k = (s.conns c).dpid
                            then none else s.reg k)
    (hno : ∀ x ∈ o, ∀ k, regOf k x = none)
    (hc : ∀ c', (s'.conns c').up = (s.conns c').up ∧ (s'.conns c').dpid = (s.conns c').dpid ∧
        (s'.conns c').disc = if c' = c then true else (s.conns c').disc) :
    RInv s' ((op, o) :: tr) := by
  obtain ⟨h1, h2, h3, h4⟩ := hr
  have hl : ∀ k, lastReg ((op, o) :: tr) k = lastReg tr k := by
    intro k; rw [lastReg_cons, regIn_none _ _ (fun x hx => hno x hx k)]; rfl
  have hdn := hs.dpidNexus c
  have hud := hs.upDpid c
  constructor
  · intro k c1 h
    rw [hreg] at h
    split at h
    · cases h
    · rename_i hne
      obtain ⟨a1, a2, a3, a4⟩ := h1 k c1 h
      obtain ⟨b1, b2, b3⟩ := hc c1
      refine ⟨by omega, by rw [b2, a2], by rw [b1, a3], ?_⟩
      rw [b3]; split
      · rename_i hcc; subst hcc
        exfalso; apply hne
        refine ⟨hdn (hud a3), ?_, a2.symm⟩
        rw [a2]; exact h
      · exact a4
  · intro k
    rw [hreg, hl]
    have h2k := h2 k
    cases hlr : lastReg tr k with
    | none =>
      rw [hlr] at h2k; simp only [Option.bind_none] at h2k ⊢
      split
      · rfl
      · exact h2k
    | some c1 =>
      rw [hlr] at h2k
      have hup := h3 k c1 hlr
      obtain ⟨b1, b2, b3⟩ := hc c1
      simp only [Option.bind_some, b2, b3] at h2k ⊢
      by_cases hcc : c1 = c
      · subst hcc
        simp only [if_true, true_or]
        split
        · rfl
        · rename_i hne
          rw [h2k]
          split
          · rfl
          · rename_i hlive
            exfalso; apply hne
            have hreg1 : s.reg k = some c1 := by rw [h2k]; simp [hlive]
            obtain ⟨a1, a2, a3, a4⟩ := h1 k c1 hreg1
            exact ⟨hdn (hud a3), by rw [a2]; exact hreg1, a2.symm⟩
      · simp only [hcc, if_false]
        split
        · rename_i he
          obtain ⟨e1, e2, e3⟩ := he
          have : s.reg k = some c := by rw [e3]; exact e2
          rw [h2k] at this
          split at this
          · cases this
          · injection this with this; exact absurd this hcc
        · exact h2k
  · intro k c1 h; rw [hl] at h; rw [(hc c1).1]; exact h3 k c1 h
  · intro c1 d h
    rw [(hc c1).2.1] at h
    obtain ⟨o', ho⟩ := h4 c1 d h; exact ⟨o', List.mem_cons_of_mem _ ho⟩

theorem rinv_reg_shape (s s' : St) (tr : Trace) (op : Op) (o : List Out) (c : Nat) (dp : Option Nat) (hr : RInv s tr)
    (hlt : c < s.n) (hn : s'.n = s.n)
    (hreg : ∀ k, s'.reg k = if k = dp then some c else s.reg k)
    (hout : ∀ k, regIn o k = if dp = k then some c else none)
    (hc : ∀ c', c' ≠ c → (s'.conns c').up = (s.conns c').up ∧ (s'.conns c').dpid = (s.conns c').dpid ∧
        (s'.conns c').disc = (s.conns c').disc)
    (hcc : (s'.conns c).up = true ∧ (s'.conns c).dpid = dp ∧ (s'.conns c).disc = false)
    (hd : (s.conns c).disc = false)
    (hold : ∀ k, s.reg k = some c → k = dp)
    (hh : ∀ d, dp = some d → (s.conns c).dpid = some d ∨ op = .msg c (.featuresReply d)) :
    RInv s' ((op, o) :: tr) := by
  obtain ⟨h1, h2, h3, h4⟩ := hr
  constructor
  · intro k c1 h
    rw [hreg] at h
    split at h
    · rename_i hk; injection h with h; subst h; subst hk
      exact ⟨by omega, hcc.2.1, hcc.1, hcc.2.2⟩
    · rename_i hk
      obtain ⟨a1, a2, a3, a4⟩ := h1 k c1 h
      have hne : c1 ≠ c := by intro e; subst e; exact hk (hold k h)
      obtain ⟨b1, b2, b3⟩ := hc c1 hne
      exact ⟨by omega, by rw [b2, a2], by rw [b1, a3], by rw [b3, a4]⟩
  · intro k
    rw [hreg, lastReg_cons, hout]
    by_cases hk : k = dp
    · subst hk; simp [hcc.2.2, hcc.2.1]
    · have hk' : ¬ dp = k := fun e => hk e.symm
      simp only [hk, hk', if_false, Option.none_or]
      have h2k := h2 k
      cases hlr : lastReg tr k with
      | none => rw [hlr] at h2k; exact h2k
      | some c1 =>
        rw [hlr] at h2k
        simp only [Option.bind_some] at h2k ⊢
        by_cases hne : c1 = c
        · subst hne
          have hnone : s.reg k = none := by
            cases hr : s.reg k with
            | none => rfl
            | some c2 =>
              rw [hr] at h2k
              split at h2k
              · cases h2k
              · injection h2k with h2k; subst h2k; exact absurd (hold k hr) hk
          rw [hnone, hcc.2.1]; simp [hk']
        · obtain ⟨b1, b2, b3⟩ := hc c1 hne
          rw [b2, b3]; exact h2k
  · intro k c1 h
    rw [lastReg_cons, hout] at h
    by_cases hk : dp = k
    · simp [hk] at h; subst h; exact hcc.1
    · simp [hk] at h
      by_cases hne : c1 = c
      · subst hne; exact hcc.1
      · rw [(hc c1 hne).1]; exact h3 k c1 h
  · intro c1 d h
    by_cases hne : c1 = c
    · subst hne
      rw [hcc.2.1] at h
      rcases hh d h with h | h
      · obtain ⟨o', ho⟩ := h4 c1 d h; exact ⟨o', List.mem_cons_of_mem _ ho⟩
      · exact ⟨o, by rw [h]; exact List.mem_cons_self⟩
    · rw [(hc c1 hne).2.1] at h
      obtain ⟨o', ho⟩ := h4 c1 d h; exact ⟨o', List.mem_cons_of_mem _ ho⟩

/-- C09-5 repaired: an established, live connection moves from its old datapath id to `d` -/
theorem rinv_move_shape (s s' : St) (tr : Trace) (op : Op) (o : List Out) (c d : Nat) (hr : RInv s tr)
    (hlt : c < s.n) (hn : s'.n = s.n) (hd : (s.conns c).disc = false) (hdp : (s.conns c).dpid ≠ some d)
    (hreg : ∀ k, s'.reg k = if k = some d then some c else (s.dropOwn (s.conns c).dpid c).reg k)
    (hout : ∀ k, regIn o k = if some d = k then some c else none)
    (hc : ∀ c', c' ≠ c → (s'.conns c').up = (s.conns c').up ∧ (s'.conns c').dpid = (s.conns c').dpid ∧
        (s'.conns c').disc = (s.conns c').disc)
    (hcc : (s'.conns c).up = true ∧ (s'.conns c).dpid = some d ∧ (s'.conns c).disc = false)
    (hop : op = .msg c (.featuresReply d)) :
    RInv s' ((op, o) :: tr) := by
  obtain ⟨h1, h2, h3, h4⟩ := hr
  constructor
  · intro k c1 h
    rw [hreg] at h
    split at h
    · rename_i hk; injection h with h; subst h; subst hk
      exact ⟨by omega, hcc.2.1, hcc.1, hcc.2.2⟩
    · rename_i hk
      rw [dropOwn_reg] at h
      split at h
      · cases h
      · rename_i hne
        obtain ⟨a1, a2, a3, a4⟩ := h1 k c1 h
        have hne1 : c1 ≠ c := by
          intro e; subst e; apply hne; exact ⟨a2.symm, by rw [a2]; exact h⟩
        obtain ⟨b1, b2, b3⟩ := hc c1 hne1
        exact ⟨by omega, by rw [b2, a2], by rw [b1, a3], by rw [b3, a4]⟩
  · intro k
    rw [hreg, lastReg_cons, hout]
    by_cases hk : k = some d
    · subst hk; simp [hcc.2.2, hcc.2.1]
    · have hk' : ¬ some d = k := fun e => hk e.symm
      simp only [hk, hk', if_false, Option.none_or]
      rw [dropOwn_reg]
      have h2k := h2 k
      cases hlr : lastReg tr k with
      | none =>
        rw [hlr] at h2k; simp only [Option.bind_none] at h2k ⊢
        split
        · rfl
        · exact h2k
      | some c1 =>
        rw [hlr] at h2k
        simp only [Option.bind_some] at h2k ⊢
        by_cases hne : c1 = c
        · subst hne
          rw [hcc.2.1]
          simp only [hk', ne_eq, not_false_eq_true, or_true, if_true]
          split
          · rfl
          · rename_i hno
            rw [h2k]
            split
            · rfl
            · rename_i hlive
              exfalso; apply hno
              have hkk : (s.conns c1).dpid = k := by
                by_cases e : (s.conns c1).dpid = k
                · exact e
                · exact absurd (Or.inr e) hlive
              refine ⟨hkk.symm, ?_⟩
              rw [hkk, h2k]; simp [hlive]
        · obtain ⟨b1, b2, b3⟩ := hc c1 hne
          rw [b2, b3]
          split
          · rename_i he
            obtain ⟨e1, e2⟩ := he
            have : s.reg k = some c := by rw [e1]; exact e2
            rw [h2k] at this
            split at this
            · cases this
            · injection this with this; exact absurd this hne
          · exact h2k
  · intro k c1 h
    rw [lastReg_cons, hout] at h
    by_cases hk : some d = k
    · simp [hk] at h; subst h; exact hcc.1
    · simp [hk] at h
      by_cases hne : c1 = c
      · subst hne; exact hcc.1
      · rw [(hc c1 hne).1]; exact h3 k c1 h
  · intro c1 d1 h
    by_cases hne : c1 = c
    · subst hne
      rw [hcc.2.1] at h; injection h with h; subst h
      exact ⟨o, by rw [hop]; exact List.mem_cons_self⟩
    · rw [(hc c1 hne).2.1] at h
      obtain ⟨o', ho⟩ := h4 c1 d1 h; exact ⟨o', List.mem_cons_of_mem _ ho⟩

/-- the datapath id announced by a features reply agrees with the one the connection already has -/
def Compat (s : St) (op : Op) : Prop :=
  ∀ c d d0, op = .msg c (.featuresReply d) → (s.conns c).dpid = some d0 → d0 = d

local macro "quiet" : tactic => `(tactic| (
  refine rinv_quiet _ _ _ _ _ ‹RInv _ _› (by simp) (by intro k; simp [disconnect_reg]) ?_ ?_ ?_ <;>
  (try simp [ev2, regOf, disconnect_true_outs, disconnect_nodpid_outs, apply_ite Conn.up, apply_ite Conn.dpid, apply_ite Conn.disc,
     disconnect_disc]) <;> (try grind)))

theorem rinv_step (s : St) (tr : Trace) (op : Op) (hs : SInv s) (hr : RInv s tr) (hcompat : v = true ∨ Compat s op) :
    RInv (step R s op).1 ((op, (step R s op).2) :: tr) := by
  apply step_elim s op hs (fun r => RInv r.1 ((op, r.2) :: tr))
  case connect => intro _; quiet
  case absent => intros; quiet
  case closed => intros; quiet
  case sockFail => intros; quiet
  case sendNone => intros; quiet
  case upEvents =>
    intro c m l _ _ _ _ hl
    rcases hl with ⟨_, rfl⟩ | ⟨x, _, rfl⟩ | ⟨x, t, e, _, rfl⟩ | ⟨n, _, rfl⟩ | ⟨n, _, rfl⟩ | ⟨x, _, rfl⟩ <;> quiet
  case upHello => intros; quiet
  case echo => intros; quiet
  case hsIgnored => intros; quiet
  case hsHello => intros; quiet
  case hsPortStatus => intros; quiet
  case disc =>
    intro c _ _
    refine rinv_disc_shape s _ tr op _ c hs hr (by simp) (by intro k; simp [disconnect_reg]) ?_ ?_
    · simp [mem_disconnect_outs, downEv, regOf]; grind
    · intro c'; simp [disconnect_disc]
  case close =>
    intro c _ _ _
    refine rinv_disc_shape s _ tr op _ c hs hr (by simp) (by intro k; simp [close_reg, disconnect_reg]) ?_ ?_
    · simp [mem_close_outs, mem_disconnect_outs, downEv, regOf]; grind
    · intro c'; simp [close_disc]
  case upHelloBroken =>
    intro c _ _ _ _ _
    refine rinv_disc_shape s _ tr op _ c hs hr (by simp) (by intro k; simp [disconnect_reg]) ?_ ?_
    · simp [disconnect_true_outs]
    · intro c'; simp [disconnect_disc]
  case echoBroken =>
    intro c x _ _ _ _
    refine rinv_disc_shape s _ tr op _ c hs hr (by simp) (by intro k; simp [disconnect_reg]) ?_ ?_
    · simp [disconnect_true_outs]
    · intro c'; simp [disconnect_disc]
  case hsHelloBroken =>
    intro c _ _ _ _ _ _
    refine rinv_disc_shape s _ tr op _ c hs hr (by simp) (by intro k; simp [disconnect_reg]) ?_ ?_
    · simp [disconnect_true_outs]
    · intro c'; simp [disconnect_disc, apply_ite Conn.up, apply_ite Conn.dpid, apply_ite Conn.disc]; grind
  case sendSome =>
    intro d x c _ _
    simp only [sendRaw]
    split
    · quiet
    split
    · refine rinv_disc_shape s _ tr op _ c hs hr (by simp) (by intro k; simp [disconnect_reg]) ?_ ?_
      · simp [disconnect_true_outs, regOf]
      · intro c'; simp [disconnect_disc]
    · quiet
  case hsFeatures =>
    intro c d _ _ hu h _
    refine rinv_quiet _ _ _ _ _ hr (by simp) (by intro k; simp) ?_ ?_ ?_
    · simp [regOf]
    · intro c'; simp [apply_ite Conn.up, apply_ite Conn.dpid, apply_ite Conn.disc]; grind
    · intro c' d'; simp [apply_ite Conn.dpid]; grind
  case hsFeaturesBroken =>
    intro c d _ _ hu h _
    have hnoreg : ∀ k, s.reg k ≠ some c := fun k hk => by have := (hr.sound k c hk).2.2.1; simp_all
    refine rinv_quiet _ _ _ _ _ hr (by simp) ?_ ?_ ?_ ?_
    · intro k; have := hnoreg (some d); have := hnoreg none; simp [disconnect_reg]; grind
    · simp [disconnect_true_outs]
    · intro c'; simp [apply_ite Conn.up, apply_ite Conn.dpid, apply_ite Conn.disc, disconnect_disc]; grind
    · intro c' d'; simp [apply_ite Conn.dpid]; grind
  case hsWrongXid =>
    intro c x y _ _ hu _ _ _
    have hnoreg : ∀ k, s.reg k ≠ some c := fun k hk => by have := (hr.sound k c hk).2.2.1; simp_all
    refine rinv_quiet _ _ _ _ _ hr (by simp) ?_ ?_ ?_ ?_
    · intro k; have := hnoreg none; simp [disconnect_reg]; grind
    · simp [disconnect_nodpid_outs]
    · intro c'; simp [apply_ite Conn.up, apply_ite Conn.dpid, apply_ite Conn.disc, disconnect_disc]; grind
    · intro c' d'; simp [apply_ite Conn.dpid]; grind
  case hsFinish =>
    intro c x hlt hd hu _ hb
    have hnoreg : ∀ k, s.reg k ≠ some c := fun k hk => by have := (hr.sound k c hk).2.2.1; simp_all
    refine rinv_reg_shape s _ tr op _ c (s.conns c).dpid hr hlt (by simp) (by intro k; simp [finish_reg]) ?_ ?_ ?_ hd ?_ ?_
    · intro k; rw [finish_outs, finHead, List.cons_append]
      refine regIn_cons_reg _ _ _ _ ?_
      intro x hx
      have : ∃ e, x = Out.ev e := by
        simp only [List.mem_cons, List.mem_append, mem_ps_flatMap] at hx
        simp only [ev2, List.mem_cons, List.not_mem_nil, or_false] at hx
        rcases hx with (h | (h | h) | (h | h)) | ⟨n, _, b, h⟩ <;> exact ⟨_, h⟩
      obtain ⟨e, rfl⟩ := this; rfl
    · intro c' hne; simp [finish_up, hne]
    · simp [finish_up]; exact hd
    · intro k hk; exact absurd hk (hnoreg k)
    · intro d hd; exact Or.inl hd
  case upFeatures =>
    intro c d hlt hd hu h hsame
    have hdpid : (s.conns c).dpid = some d := by
      rcases hsame with hv | hsame
      · rcases hcompat with hv' | hcompat
        · rw [hv] at hv'; cases hv'
        · cases hdp : (s.conns c).dpid with
          | none => have := hs.upDpid c hu; simp [hdp] at this
          | some d0 => rw [hcompat c d d0 h hdp]
      · exact hsame
    refine rinv_reg_shape s _ tr op _ c (some d) hr hlt (by simp) (by intro k; simp) ?_ ?_ ?_ hd ?_ ?_
    · intro k; exact regIn_cons_reg _ _ _ _ (by simp [ev2, regOf])
    · intro c' hne; simp [hne]
    · simp [hd, hu]
    · intro k hk
      have := (hr.sound k c hk).2.1
      rw [← this]; exact hdpid
    · intro d' hd'; injection hd' with hd'; subst hd'; exact Or.inr h
  case upFeaturesMove =>
    intro c d hlt hd hu h _ hdp
    refine rinv_move_shape s _ tr op _ c d hr hlt (by simp) hd hdp (by intro k; simp) ?_ ?_ ?_ h
    · intro k; exact regIn_cons_reg _ _ _ _ (by simp [ev2, regOf])
    · intro c' hne; simp [hne]
    · simp [hd, hu]
/-! ### invariants along `run` -/

theorem outs_cons (e : Op × List Out) (tr : Trace) : outs (e :: tr) = outs tr ++ e.2 := by
  simp [outs]

/-- what is recorded about each step of a history, relative to the history before it -/
def StepOK (earlier : Trace) (e : Op × List Out) : Prop :=
  (∀ b c a, Out.ev ⟨b, .up, c, a⟩ ∈ e.2 →
    ∃ x d fo, (e.1 = .msg c (.barrierReply x) ∨ e.1 = .msg c (.error x 1 1)) ∧
      lastFeat earlier c = some (d, fo) ∧ Out.sent c OFPT_BARRIER_REQUEST x ∈ fo ∧
      e.2 = finHead (some d) c ++ (psSince earlier c).flatMap fun n => ev2 .portStatus c n) ∧
  (∀ b c a, Out.ev ⟨b, .down, c, a⟩ ∈ e.2 → ∀ b', (outs earlier).count (upEv b' c) = 1)

def AllSteps : Trace → Prop
  | [] => True
  | e :: t => StepOK t e ∧ AllSteps t

theorem allSteps_split (tr later earlier : Trace) (e : Op × List Out) (h : AllSteps tr)
    (hs : tr = later ++ e :: earlier) : StepOK earlier e := by
  induction later generalizing tr with
  | nil => subst hs; exact h.1
  | cons a l ih => subst hs; exact ih _ h.2 rfl

structure TInv (s : St) (tr : Trace) : Prop where
  sinv : SInv s
  upCnt : ∀ b c, (outs tr).count (upEv b c) = if (s.conns c).up = true then 1 else 0
  downCnt : ∀ b c, (outs tr).count (downEv b c) = if (s.conns c).downRaised = true then 1 else 0
  closedIff : ∀ c, (s.conns c).closed = true ↔ Out.closed c ∈ outs tr
  evUp : ∀ e, Out.ev e ∈ outs tr → (s.conns e.con).up = true
  prov : Prov s tr
  steps : AllSteps tr

theorem tinv_init : TInv init [] := by
  refine ⟨sinv_init, ?_, ?_, ?_, ?_, ?_, trivial⟩ <;> simp [init, outs, Prov, ProvC]

theorem tinv_step (s : St) (tr : Trace) (op : Op) (h : TInv s tr) :
    TInv (step R s op).1 ((op, (step R s op).2) :: tr) := by
  obtain ⟨hs, h1, h2, h3, h4, h5, h6⟩ := h
  refine ⟨sinv_step s op hs, ?_, ?_, ?_, ?_, prov_step s tr op hs h5, ⟨⟨?_, ?_⟩, h6⟩⟩
  · intro b c
    rw [outs_cons, List.count_append, h1 b c]
    have := up_count_step (v := v) s op hs b c
    simp only at this ⊢; omega
  · intro b c
    rw [outs_cons, List.count_append, h2 b c]
    have := down_count_step (v := v) s op hs b c
    simp only at this ⊢; omega
  · intro c
    rw [outs_cons, List.mem_append, closed_step s op hs c, h3 c]
  · intro e he
    rw [outs_cons, List.mem_append] at he
    rcases he with he | he
    · exact (step_mono s op hs e.con).1 (h4 e he)
    · exact ev_up_step s op hs e he
  · intro b c a he
    exact up_step_fact s tr op hs h5 b c a he
  · intro b c a he b'
    have := down_pre_up s op hs b c a he
    rw [h1 b' c, this]; rfl

theorem tinv_foldl (ops : List Op) (p : St × Trace) (h : TInv p.1 p.2) :
    TInv (ops.foldl (stepT R) p).1 (ops.foldl (stepT R) p).2 := by
  induction ops generalizing p with
  | nil => exact h
  | cons op ops ih => exact ih _ (tinv_step p.1 p.2 op h)

theorem tinv_run (ops : List Op) : TInv (run R ops).1 (run R ops).2 := tinv_foldl ops _ tinv_init

/-- each connection's features replies all carry the same datapath id -/
def SameDpid (ops : List Op) : Prop :=
  ∀ c d d', Op.msg c (.featuresReply d) ∈ ops → Op.msg c (.featuresReply d') ∈ ops → d = d'

theorem rinv_init : RInv init [] := by
  constructor <;> simp [init, lastReg]

theorem compat_of_sameDpid (p : St × Trace) (op : Op) (ops : List Op) (hr : RInv p.1 p.2)
    (hsd : v = true ∨ SameDpid (p.2.map (·.1) ++ op :: ops)) : v = true ∨ Compat p.1 op := by
  rcases hsd with hv | hsd
  · exact Or.inl hv
  · right
    intro c d d0 hop hdp
    obtain ⟨o, ho⟩ := hr.hist c d0 hdp
    refine hsd c d0 d ?_ ?_
    · exact List.mem_append_left _ (List.mem_map.mpr ⟨_, ho, rfl⟩)
    · rw [hop]; exact List.mem_append_right _ List.mem_cons_self

theorem sameDpid_step (p : St × Trace) (op : Op) (ops : List Op)
    (hsd : v = true ∨ SameDpid (p.2.map (·.1) ++ op :: ops)) :
    v = true ∨ SameDpid ((stepT R p op).2.map (·.1) ++ ops) := by
  rcases hsd with hv | hsd
  · exact Or.inl hv
  · right
    intro c d d' h1 h2
    refine hsd c d d' ?_ ?_ <;> (simp [stepT] at *; grind)

/-- the registry invariant holds along every history — with C09-5 repaired (`v = true`) unconditionally, otherwise provided
each connection's features replies all name one datapath id -/
theorem rinv_foldl (ops : List Op) (p : St × Trace) (hs : TInv p.1 p.2) (hr : RInv p.1 p.2)
    (hsd : v = true ∨ SameDpid (p.2.map (·.1) ++ ops)) :
    RInv (ops.foldl (stepT R) p).1 (ops.foldl (stepT R) p).2 := by
  induction ops generalizing p with
  | nil => exact hr
  | cons op ops ih =>
    exact ih _ (tinv_step p.1 p.2 op hs) (rinv_step p.1 p.2 op hs.sinv hr (compat_of_sameDpid p op ops hr hsd))
      (sameDpid_step p op ops hsd)

theorem rinv_run (ops : List Op) (hsd : v = true ∨ SameDpid ops) : RInv (run R ops).1 (run R ops).2 :=
  rinv_foldl ops _ tinv_init rinv_init (by simpa using hsd)
/-! ### completeness of the registry when connections of one datapath never overlap -/

/-- a registry entry disappears only when its connection is disconnected -/
theorem reg_keep_step (s : St) (op : Op) (hs : SInv s) (k : Option Nat) (c : Nat) (hk : s.reg k = some c)
    (hkd : (s.conns c).dpid = k)
    (hd : ((step R s op).1.conns c).disc = false) (hdp : ((step R s op).1.conns c).dpid = k) :
    (step R s op).1.reg k ≠ none := by
  revert hd hdp
  apply step_elim s op hs (fun r => (r.1.conns c).disc = false → (r.1.conns c).dpid = k → r.1.reg k ≠ none)
  case sendSome =>
    intro d x c0 _ _
    simp only [sendRaw]
    split
    · simp [hk]
    split
    · simp [disconnect_reg, disconnect_disc]; grind
    · simp [hk]
  all_goals
    intros
    simp_all [disconnect_reg, disconnect_disc, close_reg, close_disc, finish_reg, apply_ite Conn.disc, apply_ite Conn.dpid, dropOwn_reg]
    try grind

/-- a connection that becomes live-and-announced under `d` in this step is registered under `d` by this step -/
theorem new_live_reg_step (s : St) (op : Op) (hs : SInv s) (c d : Nat)
    (hu : ((step R s op).1.conns c).up = true) (hd : ((step R s op).1.conns c).disc = false)
    (hp : ((step R s op).1.conns c).dpid = some d)
    (hnew : ¬ ((s.conns c).up = true ∧ (s.conns c).disc = false ∧ (s.conns c).dpid = some d)) :
    (step R s op).1.reg (some d) = some c := by
  revert hu hd hp
  apply step_elim s op hs (fun r => (r.1.conns c).up = true → (r.1.conns c).disc = false → (r.1.conns c).dpid = some d →
    r.1.reg (some d) = some c)
  case sendSome =>
    intro d x c0 _ _
    simp only [sendRaw]
    split
    · simp; grind
    split
    · simp [disconnect_reg, disconnect_disc]; grind
    · simp; grind
  all_goals
    intros
    simp_all [disconnect_reg, disconnect_disc, close_reg, close_disc, finish_reg, finish_up, apply_ite Conn.disc, apply_ite Conn.up,
      apply_ite Conn.dpid, dropOwn_reg]
    try grind

/-- `c` is a live, announced connection of datapath `d` -/
def LiveUp (s : St) (c d : Nat) : Prop :=
  c < s.n ∧ (s.conns c).up = true ∧ (s.conns c).disc = false ∧ (s.conns c).dpid = some d

/-- no two live, announced connections claim the same datapath id -/
def NoOverlap (s : St) : Prop := ∀ c c' d, LiveUp s c d → LiveUp s c' d → c = c'

/-- … at every point of the history -/
def NoOverlapAlong (w : Bool) : St × Trace → List Op → Prop
  | _, [] => True
  | p, op :: ops => NoOverlap (stepT (Cfg.rv w) p op).1 ∧ NoOverlapAlong w (stepT (Cfg.rv w) p op) ops

/-- completeness of the registry -/
def Complete (s : St) : Prop := ∀ c d, LiveUp s c d → s.reg (some d) = some c

theorem complete_step (s : St) (tr : Trace) (op : Op) (hs : SInv s) (hr : RInv s tr) (hcompat : v = true ∨ Compat s op)
    (hj : Complete s) (hno : NoOverlap (step R s op).1) : Complete (step R s op).1 := by
  have hr' := rinv_step s tr op hs hr hcompat
  intro c d hl
  obtain ⟨l1, l2, l3, l4⟩ := hl
  by_cases hold : (s.conns c).up = true ∧ (s.conns c).disc = false ∧ (s.conns c).dpid = some d
  · have hc : c < s.n := by
      apply Nat.lt_of_not_le; intro hle; have := hs.fresh c hle; rw [this] at hold; simp at hold
    have hreg := hj c d ⟨hc, hold⟩
    have hne := reg_keep_step (v := v) s op hs (some d) c hreg hold.2.2 l3 l4
    cases hk : (step R s op).1.reg (some d) with
    | none => exact absurd hk hne
    | some c1 =>
      obtain ⟨a1, a2, a3, a4⟩ := hr'.sound _ c1 hk
      rw [hno c1 c d ⟨a1, a3, a4, a2⟩ ⟨l1, l2, l3, l4⟩]
  · exact new_live_reg_step s op hs c d l2 l3 l4 hold

theorem complete_foldl (ops : List Op) (p : St × Trace) (hs : TInv p.1 p.2) (hr : RInv p.1 p.2) (hj : Complete p.1)
    (hsd : v = true ∨ SameDpid (p.2.map (·.1) ++ ops)) (hno : NoOverlapAlong v p ops) :
    Complete (ops.foldl (stepT R) p).1 := by
  induction ops generalizing p with
  | nil => exact hj
  | cons op ops ih =>
    have hcompat := compat_of_sameDpid p op ops hr hsd
    exact ih _ (tinv_step p.1 p.2 op hs) (rinv_step p.1 p.2 op hs.sinv hr hcompat)
      (complete_step p.1 p.2 op hs.sinv hr hcompat hj hno.1) (sameDpid_step p op ops hsd) hno.2

theorem complete_run (ops : List Op) (hsd : v = true ∨ SameDpid ops) (hno : NoOverlapAlong v (init, []) ops) :
    Complete (run R ops).1 :=
  complete_foldl ops _ tinv_init rinv_init (by intro c d h; simp [LiveUp, init] at h) (by simpa using hsd) hno
/-- executable form of `NoOverlap` (used only to check concrete examples) -/
def noOverlapB (s : St) : Bool :=
  (List.range s.n).all fun c => (List.range s.n).all fun c' =>
    !((s.conns c).up && !(s.conns c).disc && (s.conns c').up && !(s.conns c').disc &&
      (s.conns c).dpid.isSome && (s.conns c).dpid == (s.conns c').dpid) || c == c'

theorem noOverlap_of_B (s : St) (h : noOverlapB s = true) : NoOverlap s := by
  intro c c' d ⟨a1, a2, a3, a4⟩ ⟨b1, b2, b3, b4⟩
  simp only [noOverlapB, List.all_eq_true, List.mem_range] at h
  have := h c a1 c' b1
  simp [a2, a3, a4, b2, b3, b4] at this
  exact this

def noOverlapAlongB (w : Bool) : St × Trace → List Op → Bool
  | _, [] => true
  | p, op :: ops => noOverlapB (stepT (Cfg.rv w) p op).1 && noOverlapAlongB w (stepT (Cfg.rv w) p op) ops

theorem noOverlapAlong_of_B (w : Bool) (p : St × Trace) (ops : List Op) (h : noOverlapAlongB w p ops = true) :
    NoOverlapAlong w p ops := by
  induction ops generalizing p with
  | nil => trivial
  | cons op ops ih =>
    simp only [noOverlapAlongB, Bool.and_eq_true] at h
    exact ⟨noOverlap_of_B _ h.1, ih _ h.2⟩
/-! ### the "if" direction: a pending handshake completes on its barrier reply -/

theorem deliver_hs (s : St) (c : Nat) (m : Msg) (h : c < s.n) (hc : (s.conns c).closed = false)
    (hd : (s.conns c).disc = false) (hu : (s.conns c).up = false) : deliver R s c m = dispatchHs R s c m := by
  simp [deliver, hc, hd, hu, Nat.not_le.mpr h]

theorem not_closed_of_not_disc (s : St) (c : Nat) (hs : SInv s) (hd : (s.conns c).disc = false) :
    (s.conns c).closed = false := by
  cases h : (s.conns c).closed with
  | false => rfl
  | true => have := hs.closedDisc c h; simp [hd] at this

def Pending (s : St) (c x : Nat) : Prop :=
  c < s.n ∧ (s.conns c).up = false ∧ (s.conns c).disc = false ∧ (s.conns c).barrier = some (some x)

theorem finish_of_pending (s : St) (c x : Nat) (hs : SInv s) (hp : Pending s c x) :
    step R s (.msg c (.barrierReply x)) = finish s c ∧
    step R s (.msg c (.error x OFPET_BAD_REQUEST OFPBRC_BAD_TYPE)) = finish s c := by
  obtain ⟨hc, hu, hd, hb⟩ := hp
  have hcl := not_closed_of_not_disc s c hs hd
  simp only [step]
  rw [deliver_hs _ _ _ hc hcl hd hu, deliver_hs _ _ _ hc hcl hd hu]
  simp [dispatchHs, hb, barrierXid, OFPET_BAD_REQUEST, OFPBRC_BAD_TYPE]

theorem up_in_finish (s : St) (c : Nat) (b : Bool) : upEv b c ∈ (finish s c).2 := by
  rw [finish_outs]; cases b <;> simp [finHead, ev2, upEv]

theorem pending_after_features (s : St) (c d : Nat) (hs : SInv s) (hc : c < s.n) (hu : (s.conns c).up = false)
    (hd : (s.conns c).disc = false) (hb : (s.conns c).broken = false) :
    Pending (step R s (.msg c (.featuresReply d))).1 c (s.nextXid + 2) ∧
    Out.sent c OFPT_BARRIER_REQUEST (s.nextXid + 2) ∈ (step R s (.msg c (.featuresReply d))).2 := by
  have hcl := not_closed_of_not_disc s c hs hd
  simp only [step]
  rw [deliver_hs _ _ _ hc hcl hd hu, hs_features_ok _ _ _ _ hd hb]
  simp [Pending, hc, hu, hd]

theorem pending_stable (s : St) (op : Op) (c x : Nat) (hs : SInv s) (hp : Pending s c x)
    (hbr : (s.conns c).broken = false)
    (h1 : ∀ m, op = .msg c m → m = .hello ∨ m = .statsDesc ∨ (∃ n, m = .portStatus n) ∨ (∃ y, m = .echoRequest y) ∨ (∃ y, m = .echoReply y) ∨ (∃ n, m = .packetIn n) ∨
      (∃ y t e, m = .error y t e ∧ ¬ (y = x ∧ t = 1 ∧ e = 1)))
    (h2 : op ≠ .eof c) (h3 : op ≠ .disc c) :
    Pending (step R s op).1 c x := by
  obtain ⟨hc, hu, hd, hb⟩ := hp
  apply step_elim s op hs (fun r => Pending r.1 c x)
  case connect => intro _; exact ⟨by simp; omega, hu, hd, hb⟩
  case sendSome =>
    intro d y c0 _ _
    simp only [sendRaw]
    split
    · exact ⟨hc, hu, hd, hb⟩
    split
    · rename_i hdc hbc
      have hne : c ≠ c0 := by intro e; subst e; simp [hbr] at hbc
      refine ⟨by simpa using hc, by simpa using hu, ?_, by simpa using hb⟩
      simp [disconnect_disc, hne, hd]
    · exact ⟨hc, hu, hd, hb⟩
  all_goals
    intros
    simp only [Pending]
    simp_all [disconnect_disc, close_disc, finish_up, apply_ite Conn.up, apply_ite Conn.disc, apply_ite Conn.barrier]
    try grind

theorem broken_stable (s : St) (op : Op) (c : Nat) (hs : SInv s) (hb : (s.conns c).broken = false) (h : op ≠ .sockFail c) :
    ((step R s op).1.conns c).broken = false := by
  apply step_elim s op hs (fun r => (r.1.conns c).broken = false)
  case sendSome =>
    intro d y c0 _ _
    simp only [sendRaw]
    split
    · exact hb
    split
    · simpa using hb
    · exact hb
  all_goals
    intros
    simp_all [apply_ite Conn.broken]
    try grind

/-- an operation that neither loses connection `c`, nor breaks its socket, nor is a handshake-relevant message on it -/
def Harmless (c x : Nat) (op : Op) : Prop :=
  op ≠ .eof c ∧ op ≠ .disc c ∧ op ≠ .sockFail c ∧
  ∀ m, op = .msg c m → m = .hello ∨ m = .statsDesc ∨ (∃ n, m = .portStatus n) ∨ (∃ y, m = .echoRequest y) ∨ (∃ y, m = .echoReply y) ∨ (∃ n, m = .packetIn n) ∨
    (∃ y t e, m = .error y t e ∧ ¬ (y = x ∧ t = 1 ∧ e = 1))

def stepS (cfg : Cfg) (s : St) (op : Op) : St := (step cfg s op).1

theorem foldl_stepT_fst (cfg : Cfg) (ops : List Op) (p : St × Trace) :
    (ops.foldl (stepT cfg) p).1 = ops.foldl (stepS cfg) p.1 := by
  induction ops generalizing p with
  | nil => rfl
  | cons op ops ih => simp only [List.foldl_cons]; rw [ih]; rfl

theorem run_append_fst (cfg : Cfg) (ops mid : List Op) :
    (run cfg (ops ++ mid)).1 = mid.foldl (stepS cfg) (run cfg ops).1 := by
  unfold run; rw [List.foldl_append, foldl_stepT_fst]

theorem pending_foldl (mid : List Op) (s : St) (c x : Nat) (hs : SInv s) (hp : Pending s c x)
    (hb : (s.conns c).broken = false) (hm : ∀ op ∈ mid, Harmless c x op) :
    SInv (mid.foldl (stepS R) s) ∧ Pending (mid.foldl (stepS R) s) c x := by
  induction mid generalizing s with
  | nil => exact ⟨hs, hp⟩
  | cons op mid ih =>
    obtain ⟨h2, h3, h4, h1⟩ := hm op List.mem_cons_self
    exact ih _ (sinv_step s op hs) (pending_stable s op c x hs hp hb h1 h2 h3) (broken_stable s op c hs hb h4)
      (fun o ho => hm o (List.mem_cons_of_mem _ ho))
end Pox.Conn
