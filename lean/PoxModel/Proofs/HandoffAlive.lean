import PoxModel.Proofs.HandoffReady
/-! # C07: nothing is lost and nobody dies

* typing of task ids (`InvK`): which kind of task a program counter / queue element refers to;
* every ScheduleTask that has not run is in exactly one place (`InvS`): in `ready`, or its creator is about to append it,
  or the scheduler thread is running it — a ScheduleTask is never lost and never queued twice;
* the CallLaterTask is in exactly one place (`InvL`): `ready`, `_incoming`, the hub's task table, being executed, being
  returned by the hub runner, or still to be started by exactly one pending starter;
* hence no assertion of `fast_schedule` / `_select` can fail and no thread dies (`NoCrash`). -/
namespace Pox.Handoff

/-! ## kinds -/

def tag : Kind → Nat
  | .user _ => 0
  | .clt _ => 1
  | .st _ _ => 2
  | .sync _ _ _ _ => 3

def stTarget : Kind → Option TaskId
  | .st tg _ => some tg
  | _ => none

def tagAt (tasks : List Kind) (k : TaskId) : Option Nat := (tasks[k]?).map tag

/-- the heap only grows, and an entry keeps its kind (and, for a ScheduleTask, its target) -/
def Grows (l l' : List Kind) : Prop :=
  ∀ (k : Nat) (x : Kind), l[k]? = some x → ∃ x', l'[k]? = some x' ∧ tag x' = tag x ∧ stTarget x' = stTarget x

theorem Grows.refl (l : List Kind) : Grows l l := fun _ x h => ⟨x, h, rfl, rfl⟩

theorem Grows.append (l : List Kind) (x : Kind) : Grows l (l ++ [x]) := by
  intro k y h
  exact ⟨y, by rw [List.getElem?_append_left (getElem?_lt h)]; exact h, rfl, rfl⟩

theorem Grows.set {l : List Kind} {k : Nat} {old new : Kind} (hk : l[k]? = some old) (ht : tag new = tag old)
    (hs : stTarget new = stTarget old) : Grows l (l.set k new) := by
  intro j y h
  by_cases hj : j = k
  · subst hj; rw [hk] at h; cases h
    exact ⟨new, by simp [List.getElem?_set, getElem?_lt hk], ht, hs⟩
  · exact ⟨y, by rw [List.getElem?_set]; simp [Ne.symm hj, h], rfl, rfl⟩

theorem stepS_grows {s s' : State} (hs : stepS s = some s') : Grows s.tasks s'.tasks := by
  s_cases hs s hpc
  all_goals first
    | exact Grows.refl _
    | exact Grows.append _ _
    | exact Grows.set (by assumption) (by rfl) (by rfl)

theorem stepH_grows {s s' : State} (hs : stepH s = some s') : Grows s.tasks s'.tasks := by
  h_cases hs s hpc
  all_goals exact Grows.refl _

theorem stepF_grows {s s' : State} {i : Nat} (hs : stepF s i = some s') : Grows s.tasks s'.tasks := by
  f_cases hs s i f hf hpc
  all_goals first
    | exact Grows.refl _
    | exact Grows.append _ _
    | exact Grows.set (by assumption) (by rfl) (by rfl)

theorem stepT_grows {s s' : State} {t : Tid} (hs : stepT s t = some s') : Grows s.tasks s'.tasks := by
  t_cases hs s t hpc
  all_goals exact Grows.refl _

theorem tagAt_grows {l l' : List Kind} (h : Grows l l') {k : Nat} {n : Nat} (hk : tagAt l k = some n) : tagAt l' k = some n := by
  simp only [tagAt] at hk ⊢
  rcases hx : l[k]? with _ | x
  · simp [hx] at hk
  · obtain ⟨x', hx', ht, _⟩ := h k x hx
    simp [hx] at hk; simp [hx', ht, hk]

theorem tagAt_of {l : List Kind} {k : Nat} {x : Kind} (h : l[k]? = some x) : tagAt l k = some (tag x) := by
  simp [tagAt, h]

theorem tagAt_lt {l : List Kind} {k n : Nat} (h : tagAt l k = some n) : k < l.length := by
  rcases Nat.lt_or_ge k l.length with h' | h'
  · exact h'
  · simp [tagAt, List.getElem?_eq_none h'] at h

theorem tagAt_append_new (l : List Kind) (x : Kind) : tagAt (l ++ [x]) l.length = some (tag x) := by
  simp [tagAt]

/-- where a tagged id of the grown heap comes from -/
theorem tagAt_append_inv {l : List Kind} {x : Kind} {k n : Nat} (h : tagAt (l ++ [x]) k = some n) :
    tagAt l k = some n ∨ (k = l.length ∧ n = tag x) := by
  rcases Nat.lt_trichotomy k l.length with hlt | heq | hgt
  · left; simpa [tagAt, List.getElem?_append_left hlt] using h
  · subst heq; right; rw [tagAt_append_new] at h; exact ⟨rfl, (Option.some.inj h).symm⟩
  · have : (l ++ [x])[k]? = none := List.getElem?_eq_none (by simp; omega)
    simp [tagAt, this] at h

theorem tagAt_set_same {l : List Kind} {t : Nat} {old new : Kind} (ht : l[t]? = some old) (hn : tag new = tag old)
    (k : Nat) : tagAt (l.set t new) k = tagAt l k := by
  by_cases h : k = t
  · subst h
    have h1 : (l.set k new)[k]? = some new := by rw [List.getElem?_set]; simp [getElem?_lt ht]
    simp only [tagAt, h1, ht, Option.map_some, hn]
  · simp [tagAt, List.getElem?_set, Ne.symm h]

/-! ## typing of the ids that program counters and queues refer to -/

def hubOk (l : List Kind) : HubPc → Prop
  | .ret t _ => tagAt l t = some 1
  | _ => True

/-- what the scheduler thread's program counter refers to -/
def sOk (l : List Kind) : SPc → Prop
  | .userBody t => tagAt l t = some 0
  | .cycAppend t => tagAt l t = some 0 ∨ tagAt l t = some 3
  | .stContains st | .stFs st _ => tagAt l st = some 2
  | .rsPut c | .rsPing c | .cltPong c | .cltPop c | .cltCall c _ => tagAt l c = some 1
  | .usContains t v | .usFs t v _ => tagAt l t = some 0 ∧ tagAt l v = some 0
  | .ucLock t | .ucIsNone t | .ucCreate t | .ucUnlock t | .ucAppend t | .ucPing t => tagAt l t = some 0
  | .ucContains t c | .ucFs t c _ => tagAt l t = some 0 ∧ tagAt l c = some 1
  | .hub q => hubOk l q
  | _ => True

def hOk (l : List Kind) : HPc → Prop
  | .hub q => hubOk l q
  | _ => True

def fOk (l : List Kind) : FPc → Prop
  | .spawn .cl c => tagAt l c = some 1
  | .spawn .se k => tagAt l k = some 3
  | .spawn .op t => tagAt l t = some 0
  | .fsp _ st _ => tagAt l st = some 2
  | _ => True

theorem hubOk_grows {l l' : List Kind} (h : Grows l l') {q : HubPc} (hq : hubOk l q) : hubOk l' q := by
  cases q <;> first | exact hq | exact tagAt_grows h hq

theorem hOk_grows {l l' : List Kind} (h : Grows l l') {q : HPc} (hq : hOk l q) : hOk l' q := by
  cases q <;> first | exact hq | exact hubOk_grows h hq

theorem fOk_grows {l l' : List Kind} (h : Grows l l') {q : FPc} (hq : fOk l q) : fOk l' q := by
  cases q with
  | spawn ctx t => cases ctx <;> exact tagAt_grows h hq
  | fsp ctx st p => exact tagAt_grows h hq
  | _ => exact hq

theorem sOk_grows {l l' : List Kind} (h : Grows l l') {q : SPc} (hq : sOk l q) : sOk l' q := by
  cases q <;> first
    | exact hq
    | exact tagAt_grows h hq
    | exact hubOk_grows h hq
    | exact ⟨tagAt_grows h hq.1, tagAt_grows h hq.2⟩
    | (rcases hq with hq | hq
       · exact Or.inl (tagAt_grows h hq)
       · exact Or.inr (tagAt_grows h hq))

structure InvK (s : State) : Prop where
  sref : sOk s.tasks s.s
  href : hOk s.tasks s.h
  fref : ∀ (i : Nat) (f : FThread), s.fs[i]? = some f → fOk s.tasks f.pc
  prog : ∀ (i : Nat) (f : FThread) (t : TaskId), s.fs[i]? = some f → Op.schedule t ∈ f.prog → t < s.nUsers
  low : ∀ t, t < s.nUsers → tagAt s.tasks t = some 0
  high : ∀ t, tagAt s.tasks t = some 0 → t < s.nUsers
  usched : ∀ (t : Nat) (prog : List UItem) (v : TaskId), s.tasks[t]? = some (.user prog) → UItem.sched v ∈ prog → v < s.nUsers
  stTg : ∀ (st : Nat) (tg : TaskId) (r : Bool), s.tasks[st]? = some (.st tg r) → ∃ n, tagAt s.tasks tg = some n ∧ n ≠ 2
  rdy : ∀ x ∈ s.ready, ∃ n, tagAt s.tasks x = some n
  inc : ∀ x ∈ s.incoming, tagAt s.tasks x = some 1
  hubT : ∀ x ∈ s.hubTasks, tagAt s.tasks x = some 1
  cltT : ∀ c, s.cltTask = some c → tagAt s.tasks c = some 1

/-- backwards view of a heap change: a user entry of the new heap was a user entry before, with at least the same items;
    a ScheduleTask entry was a ScheduleTask entry with the same target; tag-0 ids are old -/
structure Back (l l' : List Kind) : Prop where
  user : ∀ (t : Nat) (prog : List UItem), l'[t]? = some (.user prog) → ∃ p0, l[t]? = some (.user p0) ∧ ∀ x ∈ prog, x ∈ p0
  st : ∀ (k : Nat) (tg : TaskId) (r : Bool), l'[k]? = some (.st tg r) → (∃ r0, l[k]? = some (.st tg r0)) ∨ l[k]? = none
  zero : ∀ t, tagAt l' t = some 0 → tagAt l t = some 0

theorem Back.refl (l : List Kind) : Back l l :=
  ⟨fun _ p h => ⟨p, h, fun _ hx => hx⟩, fun _ _ r h => Or.inl ⟨r, h⟩, fun _ h => h⟩

theorem Back.append (l : List Kind) (x : Kind) (hu : ∀ p, x ≠ .user p) : Back l (l ++ [x]) := by
  refine ⟨?_, ?_, ?_⟩
  · intro t prog h
    rcases Nat.lt_trichotomy t l.length with hlt | heq | hgt
    · rw [List.getElem?_append_left hlt] at h; exact ⟨prog, h, fun _ hx => hx⟩
    · subst heq; simp at h; exact absurd h (hu prog)
    · rw [List.getElem?_eq_none (by simp; omega)] at h; cases h
  · intro k tg r h
    rcases Nat.lt_trichotomy k l.length with hlt | heq | hgt
    · rw [List.getElem?_append_left hlt] at h; exact Or.inl ⟨r, h⟩
    · subst heq; exact Or.inr (List.getElem?_eq_none (Nat.le_refl _))
    · rw [List.getElem?_eq_none (by simp; omega)] at h; cases h
  · intro t h
    rcases tagAt_append_inv h with h | ⟨_, h⟩
    · exact h
    · cases x with
      | user p => exact absurd rfl (hu p)
      | _ => cases h

theorem Back.set {l : List Kind} {t : Nat} {old new : Kind} (ht : l[t]? = some old) (htag : tag new = tag old)
    (hu : ∀ p', new = .user p' → ∃ p, old = .user p ∧ ∀ x ∈ p', x ∈ p)
    (hs : ∀ tg r, new = .st tg r → ∃ r0, old = .st tg r0) : Back l (l.set t new) := by
  refine ⟨?_, ?_, ?_⟩
  · intro k prog h
    rcases set_cases ht h with ⟨rfl, hx⟩ | ⟨_, h⟩
    · obtain ⟨p, rfl, hsub⟩ := hu prog hx.symm; exact ⟨p, ht, hsub⟩
    · exact ⟨prog, h, fun _ hx => hx⟩
  · intro k tg r h
    rcases set_cases ht h with ⟨rfl, hx⟩ | ⟨_, h⟩
    · obtain ⟨r0, rfl⟩ := hs tg r hx.symm; exact Or.inl ⟨r0, ht⟩
    · exact Or.inl ⟨r, h⟩
  · intro k h; rw [tagAt_set_same ht htag] at h; exact h

theorem InvK.step {s s' : State} (h : InvK s) (hg : Grows s.tasks s'.tasks) (hb : Back s.tasks s'.tasks)
    (hn : s'.nUsers = s.nUsers) (hS : sOk s'.tasks s'.s) (hH : s'.h = s.h ∨ hOk s'.tasks s'.h)
    (hF : ∀ (i : Nat) (f : FThread), s'.fs[i]? = some f →
      fOk s'.tasks f.pc ∧ ∀ t, Op.schedule t ∈ f.prog → t < s.nUsers)
    (hr : ∀ x ∈ s'.ready, x ∈ s.ready ∨ ∃ n, tagAt s'.tasks x = some n)
    (hi : ∀ x ∈ s'.incoming, x ∈ s.incoming ∨ tagAt s'.tasks x = some 1)
    (hh : ∀ x ∈ s'.hubTasks, x ∈ s.hubTasks ∨ tagAt s'.tasks x = some 1)
    (hc : ∀ c, s'.cltTask = some c → s.cltTask = some c ∨ tagAt s'.tasks c = some 1)
    (hnew : ∀ (k : Nat) (tg : TaskId) (r : Bool), s'.tasks[k]? = some (.st tg r) → s.tasks[k]? = none →
      ∃ n, tagAt s'.tasks tg = some n ∧ n ≠ 2) : InvK s' := by
  refine ⟨hS, ?_, fun i f hf => (hF i f hf).1, fun i f t hf ht => by rw [hn]; exact (hF i f hf).2 t ht, ?_, ?_, ?_, ?_, ?_, ?_, ?_, ?_⟩
  · rcases hH with hH | hH
    · rw [hH]; exact hOk_grows hg h.href
    · exact hH
  · intro t ht; rw [hn] at ht; exact tagAt_grows hg (h.low t ht)
  · intro t ht; rw [hn]; exact h.high t (hb.zero t ht)
  · intro t prog v hl hv
    obtain ⟨p0, hl0, hsub⟩ := hb.user t prog hl
    rw [hn]; exact h.usched t p0 v hl0 (hsub _ hv)
  · intro st tg r hl
    rcases hb.st st tg r hl with ⟨r0, hl0⟩ | hnone
    · obtain ⟨n, hn', hne⟩ := h.stTg st tg r0 hl0
      exact ⟨n, tagAt_grows hg hn', hne⟩
    · exact hnew st tg r hl hnone
  · intro x hx
    rcases hr x hx with hx | hx
    · obtain ⟨n, hn'⟩ := h.rdy x hx; exact ⟨n, tagAt_grows hg hn'⟩
    · exact hx
  · intro x hx
    rcases hi x hx with hx | hx
    · exact tagAt_grows hg (h.inc x hx)
    · exact hx
  · intro x hx
    rcases hh x hx with hx | hx
    · exact tagAt_grows hg (h.hubT x hx)
    · exact hx
  · intro c hcc
    rcases hc c hcc with hcc | hcc
    · exact tagAt_grows hg (h.cltT c hcc)
    · exact hcc

/-- a step that creates no ScheduleTask -/
theorem noNewSt_refl {l : List Kind} (k : Nat) (tg : TaskId) (r : Bool) (h1 : l[k]? = some (.st tg r)) (h2 : l[k]? = none) :
    ∃ n, tagAt l tg = some n ∧ n ≠ 2 := by rw [h2] at h1; cases h1

theorem noNewSt_set {l : List Kind} {t : Nat} {new : Kind} (k : Nat) (tg : TaskId) (r : Bool)
    (h1 : (l.set t new)[k]? = some (.st tg r)) (h2 : l[k]? = none) : ∃ n, tagAt (l.set t new) tg = some n ∧ n ≠ 2 := by
  have : k < (l.set t new).length := getElem?_lt h1
  rw [List.length_set] at this
  rw [List.getElem?_eq_none_iff] at h2; omega

theorem noNewSt_append {l : List Kind} {x : Kind} (hx : ∀ tg r, x ≠ .st tg r) (k : Nat) (tg : TaskId) (r : Bool)
    (h1 : (l ++ [x])[k]? = some (.st tg r)) (h2 : l[k]? = none) : ∃ n, tagAt (l ++ [x]) tg = some n ∧ n ≠ 2 := by
  rw [List.getElem?_eq_none_iff] at h2
  rcases Nat.eq_or_lt_of_le h2 with heq | hgt
  · subst heq; simp at h1; exact absurd h1 (hx tg r)
  · rw [List.getElem?_eq_none (by simp; omega)] at h1; cases h1

theorem tagAt_user {l : List Kind} {k : Nat} {p : List UItem} (h : l[k]? = some (.user p)) : tagAt l k = some 0 := tagAt_of h
theorem tagAt_clt {l : List Kind} {k : Nat} {b : Bool} (h : l[k]? = some (.clt b)) : tagAt l k = some 1 := tagAt_of h
theorem tagAt_st {l : List Kind} {k : Nat} {tg : TaskId} {r : Bool} (h : l[k]? = some (.st tg r)) : tagAt l k = some 2 := tagAt_of h
theorem tagAt_sync {l : List Kind} {k : Nat} {o : Tid} {a b : Bool} {ph : Nat} (h : l[k]? = some (.sync o a b ph)) :
    tagAt l k = some 3 := tagAt_of h

theorem mem_of_tail {α} {l rest : List α} {t x : α} (h : l = t :: rest) (hx : x ∈ rest) : x ∈ l := by
  subst h; exact List.mem_cons_of_mem _ hx

theorem head_mem {α} {l rest : List α} {t : α} (h : l = t :: rest) : t ∈ l := by
  subst h; exact List.mem_cons_self

/-- close a goal `tagAt tasks' k = some n` from what is known in a leaf of a step of the scheduler thread -/
macro "tag_goal" hg:ident hsok:ident h:ident : tactic => `(tactic| first
  | exact tagAt_grows $hg $hsok
  | exact tagAt_grows $hg ($hsok).1
  | exact tagAt_grows $hg ($hsok).2
  | exact tagAt_grows $hg (tagAt_user (by assumption))
  | exact tagAt_grows $hg (tagAt_clt (by assumption))
  | exact tagAt_grows $hg (tagAt_st (by assumption))
  | exact tagAt_grows $hg (tagAt_sync (by assumption))
  | exact tagAt_grows $hg (($h).low _ (($h).usched _ _ _ (by assumption) List.mem_cons_self))
  | exact tagAt_append_new _ _
  | exact tagAt_grows $hg (($h).cltT _ (by assumption))
  | exact tagAt_grows $hg (($h).cltT _ (cltReadable_some (by assumption))))

theorem stepS_K {s s' : State} (h : InvK s) (hs : stepS s = some s') : InvK s' := by
  have hg := stepS_grows hs
  have hF0 : ∀ (l : List Kind), Grows s.tasks l → ∀ (i : Nat) (f : FThread), s.fs[i]? = some f →
      fOk l f.pc ∧ ∀ t, Op.schedule t ∈ f.prog → t < s.nUsers :=
    fun l hl i f hf => ⟨fOk_grows hl (h.fref i f hf), fun t ht => h.prog i f t hf ht⟩
  have hsok := h.sref
  s_cases hs s hpc
  all_goals simp only [hpc, sOk, hubOk] at hsok
  all_goals refine h.step hg ?_ rfl ?_ (Or.inl rfl) (hF0 _ hg) ?_ ?_ ?_ ?_ ?_
  all_goals first
    -- no new ScheduleTask
    | exact noNewSt_refl
    | exact noNewSt_set
    | exact noNewSt_append (by intro a b hp; cases hp)
    -- Back
    | exact Back.refl _
    | exact Back.append _ _ (by intro p hp; cases hp)
    | exact Back.set (by assumption) (by rfl)
        (by intro p' hp'; first | (cases hp'; done) | (cases hp'; exact ⟨_, rfl, fun x hx => List.mem_cons_of_mem _ hx⟩))
        (by intro a b hp; first | (cases hp; done) | (cases hp; exact ⟨_, rfl⟩))
    -- queues unchanged / shrunk
    | exact fun x hx => Or.inl hx
    | exact fun x hx => Or.inl (mem_of_tail (by assumption) hx)
    | exact fun x hx => Or.inl (List.mem_of_mem_erase hx)
    -- _callLaterTask
    | (intro c hc; cases hc; exact Or.inr (tagAt_append_new _ _))
    -- the new program counter
    | (simp only [sOk, hubOk]; done)
    | (simp only [sOk, hubOk]; first
        | trivial
        | tag_goal hg hsok h
        | exact Or.inl (by tag_goal hg hsok h)
        | exact Or.inr (by tag_goal hg hsok h)
        | (refine ⟨?_, ?_⟩ <;> tag_goal hg hsok h))
    -- something appended to a queue
    | (intro x hx
       rcases List.mem_append.mp hx with hx | hx
       · exact Or.inl hx
       · right
         have hx := List.mem_singleton.mp hx
         subst hx
         first
           | exact tagAt_grows hg hsok
           | exact ⟨_, tagAt_grows hg hsok⟩
           | exact ⟨_, tagAt_grows hg hsok.2⟩
           | (rcases hsok with hh | hh <;> exact ⟨_, tagAt_grows hg hh⟩)
           | exact tagAt_grows hg (h.inc _ (head_mem (by assumption))))
    | (intro x hx
       rcases List.mem_cons.mp hx with hx | hx
       · right; subst hx
         obtain ⟨n, hn, _⟩ := h.stTg _ _ _ (by assumption)
         exact ⟨n, tagAt_grows hg hn⟩
       · exact Or.inl hx)

theorem stepH_K {s s' : State} (h : InvK s) (hs : stepH s = some s') : InvK s' := by
  have hF0 : ∀ (i : Nat) (f : FThread), s.fs[i]? = some f →
      fOk s.tasks f.pc ∧ ∀ t, Op.schedule t ∈ f.prog → t < s.nUsers :=
    fun i f hf => ⟨h.fref i f hf, fun t ht => h.prog i f t hf ht⟩
  have hsok := h.href
  have hg : Grows s.tasks s.tasks := Grows.refl _
  h_cases hs s hpc
  all_goals simp only [hpc, hOk, hubOk] at hsok
  all_goals refine h.step (Grows.refl _) (Back.refl _) rfl h.sref (Or.inr ?_) hF0 ?_ ?_ ?_ (fun c hc => Or.inl hc) noNewSt_refl
  all_goals first
    | exact fun x hx => Or.inl hx
    | exact fun x hx => Or.inl (mem_of_tail (by assumption) hx)
    | exact fun x hx => Or.inl (List.mem_of_mem_erase hx)
    | (simp only [hOk, hubOk]; done)
    | (simp only [hOk, hubOk]; tag_goal hg hsok h)
    | (intro x hx
       rcases List.mem_append.mp hx with hx | hx
       · exact Or.inl hx
       · right
         have hx := List.mem_singleton.mp hx
         subst hx
         first
           | exact hsok
           | exact ⟨_, hsok⟩
           | exact h.inc _ (head_mem (by assumption)))

theorem newSt_append {l : List Kind} {t : TaskId} {n : Nat} (ht : tagAt l t = some n) (hn : n ≠ 2) (k : Nat) (tg : TaskId) (r : Bool)
    (h1 : (l ++ [Kind.st t false])[k]? = some (.st tg r)) (h2 : l[k]? = none) :
    ∃ m, tagAt (l ++ [Kind.st t false]) tg = some m ∧ m ≠ 2 := by
  rw [List.getElem?_eq_none_iff] at h2
  rcases Nat.eq_or_lt_of_le h2 with heq | hgt
  · subst heq; simp at h1; obtain ⟨rfl, _⟩ := h1
    exact ⟨n, tagAt_grows (Grows.append _ _) ht, hn⟩
  · rw [List.getElem?_eq_none (by simp; omega)] at h1; cases h1

theorem stepF_K {s s' : State} {i : Nat} (h : InvK s) (hs : stepF s i = some s') : InvK s' := by
  have hg := stepF_grows hs
  f_cases hs s i f hf hpc
  all_goals (have hsok := h.fref i f hf; simp only [hpc, fOk] at hsok)
  all_goals refine h.step hg ?_ rfl (sOk_grows hg h.sref) (Or.inl rfl) ?_ ?_ (fun x hx => Or.inl hx) (fun x hx => Or.inl hx) ?_ ?_
  all_goals first
    -- no new ScheduleTask / the new one has a typed target
    | exact noNewSt_refl
    | exact noNewSt_set
    | exact newSt_append hsok (by decide)
    | exact noNewSt_append (by intro a b hp; cases hp)
    -- Back
    | exact Back.refl _
    | exact Back.append _ _ (by intro p hp; cases hp)
    | exact Back.set (by assumption) (by rfl) (by intro p' hp'; cases hp') (by intro a b hp; cases hp)
    -- ready / _callLaterTask
    | exact fun x hx => Or.inl hx
    | (intro c hc; cases hc; exact Or.inr (tagAt_append_new _ _))
    | (intro x hx
       rcases List.mem_append.mp hx with hx | hx
       · exact Or.inl hx
       · right; have hx := List.mem_singleton.mp hx; subst hx; exact ⟨_, tagAt_grows hg hsok⟩)
    -- the threads
    | (intro j g hg'
       rcases set_cases hf hg' with ⟨rfl, rfl⟩ | ⟨_, hg'⟩
       · refine ⟨?_, ?_⟩
         · first
             | (simp only [fOk]; done)
             | (simp only [fOk]; tag_goal hg hsok h)
             | (simp only [fOk]; exact tagAt_grows hg (h.low _ (h.prog _ f _ hf (head_mem (by assumption)))))
         · first
             | exact fun t ht => h.prog _ f t hf ht
             | exact fun t ht => h.prog _ f t hf (mem_of_tail (by assumption) ht)
       · exact ⟨fOk_grows hg (h.fref j g hg'), fun t ht => h.prog j g t hg' ht⟩)

theorem stepT_K {s s' : State} {t : Tid} (h : InvK s) (hs : stepT s t = some s') : InvK s' := by
  have hF0 : ∀ (i : Nat) (f : FThread), s.fs[i]? = some f →
      fOk s.tasks f.pc ∧ ∀ t, Op.schedule t ∈ f.prog → t < s.nUsers :=
    fun i f hf => ⟨h.fref i f hf, fun t ht => h.prog i f t hf ht⟩
  t_cases hs s t hpc
  all_goals first
    | exact h
    | exact h.step (Grows.refl _) (Back.refl _) rfl (by simp only [sOk]) (Or.inl rfl) hF0 (fun x hx => Or.inl hx)
        (fun x hx => Or.inl hx) (fun x hx => Or.inl hx) (fun c hc => Or.inl hc) noNewSt_refl

/-- the programs only name tasks that exist before the run: foreign threads `schedule(t)` and user tasks `schedule(v)`
    refer to user tasks (ids below `users.length`) -/
def namesOk (users : List (List UItem)) (progs : List (List Op)) : Prop :=
  (∀ p ∈ progs, ∀ t, Op.schedule t ∈ p → t < users.length) ∧
  (∀ prog ∈ users, ∀ v, UItem.sched v ∈ prog → v < users.length)

theorem init_K (threaded : Bool) (users : List (List UItem)) (progs : List (List Op)) (hok : namesOk users progs) :
    InvK (Handoff.init threaded users progs) := by
  have htag : ∀ t, tagAt (Handoff.init threaded users progs).tasks t = (if t < users.length then some 0 else none) := by
    intro t
    simp only [Handoff.init, tagAt, List.getElem?_map]
    rcases hu : users[t]? with _ | u
    · have := List.getElem?_eq_none_iff.mp hu; simp [Nat.not_lt.mpr this]
    · have := getElem?_lt hu; simp [this, tag]
  refine ⟨by simp [Handoff.init, sOk], ?_, ?_, ?_, ?_, ?_, ?_, ?_, ?_, ?_, ?_, ?_⟩
  · simp only [Handoff.init]; split <;> simp [hOk, hubOk]
  · intro i f hf; obtain ⟨q, rfl⟩ := init_fs hf; simp [fOk]
  · intro i f t hf ht
    simp only [Handoff.init, List.getElem?_map] at hf
    rcases hp : progs[i]? with _ | p
    · simp [hp] at hf
    · simp [hp] at hf; subst hf
      exact hok.1 p (List.mem_of_getElem? hp) t ht
  · intro t ht; rw [htag]; simp [Handoff.init] at ht; simp [ht]
  · intro t ht; rw [htag] at ht; split at ht
    · simpa [Handoff.init]
    · cases ht
  · intro t prog v hl hv
    simp only [Handoff.init, List.getElem?_map] at hl
    rcases hu : users[t]? with _ | q
    · simp [hu] at hl
    · simp [hu] at hl; subst hl
      simpa [Handoff.init] using hok.2 q (List.mem_of_getElem? hu) v hv
  · intro st tg r hl
    simp only [Handoff.init, List.getElem?_map] at hl
    rcases hu : users[st]? with _ | q <;> simp [hu] at hl
  · intro x hx; simp [Handoff.init] at hx
  · intro x hx; simp [Handoff.init] at hx
  · intro x hx; simp [Handoff.init] at hx
  · intro c hc; simp [Handoff.init] at hc

theorem reach_K {threaded users progs} {s : State} (hok : namesOk users progs) (hr : Reachable threaded users progs s) :
    InvK s :=
  hr.induct (init_K _ _ _ hok) (fun _ _ _ h hs => stepS_K h hs) (fun _ _ _ h hs => stepH_K h hs)
    (fun _ _ _ _ h hs => stepF_K h hs) (fun _ _ _ _ h hs => stepT_K h hs)

/-! ## counting -/

def b2n (b : Bool) : Nat := if b then 1 else 0

theorem countP_set_bal {α} (p : α → Bool) : ∀ (l : List α) (i : Nat) (a v : α), l[i]? = some a →
    (l.set i v).countP p + b2n (p a) = l.countP p + b2n (p v)
  | [], i, a, v, h => by simp at h
  | x :: xs, 0, a, v, h => by
    simp at h; subst h
    simp only [List.set_cons_zero, List.countP_cons, b2n]; split <;> split <;> omega
  | x :: xs, i + 1, a, v, h => by
    simp at h
    have := countP_set_bal p xs i a v h
    simp only [List.set_cons_succ, List.countP_cons]; omega

theorem countP_pos_of {α} (p : α → Bool) {l : List α} {i : Nat} {a : α} (h : l[i]? = some a) (hp : p a = true) :
    0 < l.countP p :=
  List.countP_pos_iff.mpr ⟨a, List.mem_of_getElem? h, hp⟩

theorem countP_append_one {α} (p : α → Bool) (l : List α) (x : α) : (l ++ [x]).countP p = l.countP p + b2n (p x) := by
  simp [List.countP_append, List.countP_cons, b2n]

theorem count_pos_of_mem {l : List Nat} {x : Nat} (h : x ∈ l) : 0 < l.count x := List.count_pos_iff.mpr h

theorem countP_set_eq {α} (p : α → Bool) {l : List α} {i : Nat} {a : α} (h : l[i]? = some a) (v : α) :
    (l.set i v).countP p = l.countP p + b2n (p v) - b2n (p a) ∧ b2n (p a) ≤ l.countP p := by
  have h1 := countP_set_bal p l i a v h
  have h2 : b2n (p a) ≤ l.countP p := by
    unfold b2n; split
    · exact countP_pos_of p h (by assumption)
    · exact Nat.zero_le _
  exact ⟨by omega, h2⟩

/-! ## `Scheduler._lock` and the uniqueness of the CallLaterTask -/

def inCsS : SPc → Bool
  | .ucIsNone _ | .ucCreate _ | .ucContains _ _ | .ucFs _ _ _ | .ucUnlock _ => true
  | _ => false

def inCsF : FPc → Bool
  | .clIsNone | .clCreate | .spawn .cl _ | .fsp .cl _ _ | .clUnlock => true
  | _ => false

def csF (fs : List FThread) : Nat := fs.countP fun f => inCsF f.pc

theorem csF_set {fs : List FThread} {i : Nat} {f : FThread} (hf : fs[i]? = some f) (f' : FThread) :
    csF (fs.set i f') = csF fs + b2n (inCsF f'.pc) - b2n (inCsF f.pc) :=
  (countP_set_eq (fun g : FThread => inCsF g.pc) hf f').1

theorem csF_ge {fs : List FThread} {i : Nat} {f : FThread} (hf : fs[i]? = some f) : b2n (inCsF f.pc) ≤ csF fs :=
  (countP_set_eq (fun g : FThread => inCsF g.pc) hf f).2

structure InvC (s : State) : Prop where
  cs : b2n (inCsS s.s) + csF s.fs = b2n s.lock
  crS : (∃ t, s.s = .ucCreate t) → s.cltTask = none
  crF : ∀ (i : Nat) (f : FThread), s.fs[i]? = some f → f.pc = .clCreate → s.cltTask = none
  cltU : ∀ x, tagAt s.tasks x = some 1 → s.cltTask = some x

theorem stepS_C {s s' : State} (h : InvC s) (hs : stepS s = some s') : InvC s' := by
  obtain ⟨hcs, hcrS, hcrF, hcltU⟩ := h
  s_cases hs s hpc
  all_goals refine ⟨?_, ?_, ?_, ?_⟩
  all_goals first
    -- cs
    | (show b2n _ + csF _ = b2n _
       cases hl : s.lock <;> simp only [hpc, inCsS, b2n, hl, Bool.false_eq_true, if_true, if_false] at hcs ⊢ <;>
         first | omega | (simp_all; done))
    -- crS
    | (intro ⟨t, ht⟩; cases ht; done)
    | (intro _; assumption)
    -- crF / cltU unchanged
    | exact hcrF
    | exact hcltU
    | exact fun x hx => hcltU x (by rwa [tagAt_set_same (by assumption) (by rfl)] at hx)
    | skip
  · -- ucCreate: no foreign thread can be at its own `self._callLaterTask = CallLaterTask()`: the lock is ours
    intro i f hf hp
    have := csF_ge hf
    simp only [hp, inCsF, b2n, if_true] at this
    simp only [hpc, inCsS, b2n, if_true] at hcs
    split at hcs <;> omega
  · intro x hx
    rcases tagAt_append_inv hx with hx | ⟨rfl, _⟩
    · have := hcltU x hx; rw [hcrS ⟨_, hpc⟩] at this; cases this
    · rfl

theorem csF_two {fs : List FThread} {i j : Nat} {f g : FThread} (hf : fs[i]? = some f) (hg : fs[j]? = some g)
    (hne : j ≠ i) (h1 : inCsF f.pc = true) (h2 : inCsF g.pc = true) : 2 ≤ csF fs := by
  have hb := countP_set_bal (fun x : FThread => inCsF x.pc) fs i f { f with pc := .idle } hf
  have hg' : (fs.set i { f with pc := .idle })[j]? = some g := by
    rw [List.getElem?_set]; simp [Ne.symm hne, hg]
  have hpos := countP_pos_of (fun x : FThread => inCsF x.pc) hg' h2
  have e1 : b2n (inCsF f.pc) = 1 := by simp [h1, b2n]
  have e2 : b2n (inCsF ({ f with pc := FPc.idle } : FThread).pc) = 0 := rfl
  rw [e1, e2] at hb
  show 2 ≤ List.countP (fun x : FThread => inCsF x.pc) fs
  omega

theorem stepH_C {s s' : State} (h : InvC s) (hs : stepH s = some s') : InvC s' := by
  obtain ⟨hcs, hcrS, hcrF, hcltU⟩ := h
  h_cases hs s hpc
  all_goals exact ⟨hcs, hcrS, hcrF, hcltU⟩

theorem stepT_C {s s' : State} {t : Tid} (h : InvC s) (hs : stepT s t = some s') : InvC s' := by
  obtain ⟨hcs, hcrS, hcrF, hcltU⟩ := h
  t_cases hs s t hpc
  all_goals first
    | exact ⟨hcs, hcrS, hcrF, hcltU⟩
    | (refine ⟨?_, ?_, hcrF, hcltU⟩
       · simp only [hpc, inCsS] at hcs ⊢; exact hcs
       · intro ⟨t, ht⟩; cases ht)

theorem stepF_C {s s' : State} {i : Nat} (h : InvC s) (hs : stepF s i = some s') : InvC s' := by
  obtain ⟨hcs, hcrS, hcrF, hcltU⟩ := h
  f_cases hs s i f hf hpc
  all_goals (have hge := csF_ge hf; simp only [hpc, inCsF, b2n, if_true, Bool.false_eq_true, if_false] at hge)
  all_goals refine ⟨?_, ?_, ?_, ?_⟩
  all_goals first
    -- cs
    | (show b2n _ + csF _ = b2n _
       rw [csF_set hf]
       cases hl : s.lock <;> cases hq : inCsS s.s <;>
         simp only [hpc, inCsF, b2n, hl, hq, Bool.false_eq_true, if_true, if_false] at hcs hge ⊢ <;>
         first | omega | (simp_all; done))
    -- crS / cltU unchanged
    | exact hcrS
    | exact hcltU
    | exact fun x hx => hcltU x (by rwa [tagAt_set_same (by assumption) (by rfl)] at hx)
    | (intro x hx
       rcases tagAt_append_inv hx with hx | ⟨_, hx⟩
       · exact hcltU x hx
       · cases hx)
    -- crF
    | (intro j g hg hp
       rcases set_cases hf hg with ⟨rfl, rfl⟩ | ⟨_, hg⟩
       · first | (cases hp; done) | assumption
       · exact hcrF j g hg hp)
    | skip
  -- clCreate: `self._callLaterTask = CallLaterTask()` under the lock
  · intro ⟨t, ht⟩
    have e : inCsS s.s = true := by rw [ht]; rfl
    rw [e] at hcs
    unfold b2n at hcs; simp only [if_true] at hcs
    split at hcs <;> omega
  · intro j g hg hp
    rcases set_cases hf hg with ⟨rfl, rfl⟩ | ⟨hne, hg⟩
    · cases hp
    · have := csF_two hf hg hne (by rw [hpc]; rfl) (by rw [hp]; rfl)
      have h1 : b2n s.lock ≤ 1 := by unfold b2n; split <;> omega
      omega
  · intro x hx
    rcases tagAt_append_inv hx with hx | ⟨rfl, _⟩
    · have := hcltU x hx; rw [hcrF i f hf hpc] at this; cases this
    · rfl

theorem init_C (threaded : Bool) (users : List (List UItem)) (progs : List (List Op)) :
    InvC (Handoff.init threaded users progs) := by
  refine ⟨?_, ?_, ?_, ?_⟩
  · have : csF (Handoff.init threaded users progs).fs = 0 := by
      simp only [csF, Handoff.init]
      apply List.countP_eq_zero.mpr
      intro f hf; obtain ⟨p, _, rfl⟩ := List.mem_map.mp hf; simp [inCsF]
    rw [this]; simp [Handoff.init, inCsS, b2n]
  · intro ⟨t, ht⟩; cases ht
  · intro i f hf hp; obtain ⟨q, rfl⟩ := init_fs hf; cases hp
  · intro x hx
    simp only [Handoff.init, tagAt, List.getElem?_map] at hx
    rcases hu : users[x]? with _ | u <;> simp [hu, tag] at hx

theorem reach_C {threaded users progs} {s : State} (hr : Reachable threaded users progs s) : InvC s :=
  hr.induct (init_C _ _ _) (fun _ _ _ h hs => stepS_C h hs) (fun _ _ _ h hs => stepH_C h hs)
    (fun _ _ _ _ h hs => stepF_C h hs) (fun _ _ _ _ h hs => stepT_C h hs)

/-! ## a ScheduleTask is never lost and never queued twice -/

def pendB (pc : FPc) (x : TaskId) : Bool :=
  match pc with
  | .fsp _ st .assert | .fsp _ st .append => st == x
  | _ => false

/-- foreign threads that have created ScheduleTask `x` and not yet appended it -/
def pend (fs : List FThread) (x : TaskId) : Nat := fs.countP fun f => pendB f.pc x

/-- the scheduler thread is executing ScheduleTask `x` -/
def sRunsST (pc : SPc) (x : TaskId) : Nat :=
  match pc with
  | .stContains st | .stFs st _ => if st = x then 1 else 0
  | _ => 0

def occ (s : State) (x : TaskId) : Nat := s.ready.count x + pend s.fs x + sRunsST s.s x

structure InvS (s : State) : Prop where
  live : ∀ (x : Nat) (tg : TaskId), s.tasks[x]? = some (.st tg false) → occ s x = 1
  dead : ∀ (x : Nat) (tg : TaskId), s.tasks[x]? = some (.st tg true) → occ s x = 0

theorem pend_set {fs : List FThread} {i : Nat} {f : FThread} (hf : fs[i]? = some f) (f' : FThread) (x : TaskId) :
    pend (fs.set i f') x = pend fs x + b2n (pendB f'.pc x) - b2n (pendB f.pc x) ∧ b2n (pendB f.pc x) ≤ pend fs x :=
  countP_set_eq (fun g : FThread => pendB g.pc x) hf f'

theorem ne_of_tags {l : List Kind} {a x : Nat} {tg : TaskId} {r : Bool} (ha : ∃ n, tagAt l a = some n ∧ n ≠ 2)
    (hx : l[x]? = some (.st tg r)) : a ≠ x := by
  intro e; subst e
  obtain ⟨n, hn, hne⟩ := ha
  rw [tagAt_st hx] at hn; cases hn; exact hne rfl

theorem count_append_other {l : List Nat} {a x : Nat} (h : a ≠ x) : (l ++ [a]).count x = l.count x := by
  have : (a == x) = false := by simp [h]
  simp [List.count_append, List.count_cons, this]

theorem count_cons_other {l : List Nat} {a x : Nat} (h : a ≠ x) : (a :: l).count x = l.count x := by
  have : (a == x) = false := by simp [h]
  simp [List.count_cons, this]

/-- ScheduleTask entries are the same in both heaps -/
def StSame (l l' : List Kind) : Prop :=
  ∀ (x : Nat) (tg : TaskId) (r : Bool), l'[x]? = some (Kind.st tg r) ↔ l[x]? = some (Kind.st tg r)

theorem StSame.refl (l : List Kind) : StSame l l := fun _ _ _ => Iff.rfl

theorem StSame.append (l : List Kind) (y : Kind) (hy : ∀ tg r, y ≠ .st tg r) : StSame l (l ++ [y]) := by
  intro x tg r
  rcases Nat.lt_trichotomy x l.length with hlt | heq | hgt
  · rw [List.getElem?_append_left hlt]
  · subst heq
    constructor
    · intro h; simp at h; exact absurd h (hy tg r)
    · intro h; rw [List.getElem?_eq_none (Nat.le_refl _)] at h; cases h
  · rw [List.getElem?_eq_none (by simp; omega), List.getElem?_eq_none (by omega)]

theorem StSame.set {l : List Kind} {k : Nat} {old new : Kind} (hk : l[k]? = some old) (ho : ∀ tg r, old ≠ .st tg r)
    (hn : ∀ tg r, new ≠ .st tg r) : StSame l (l.set k new) := by
  intro x tg r
  by_cases hx : x = k
  · subst hx
    have h1 : (l.set x new)[x]? = some new := by rw [List.getElem?_set]; simp [getElem?_lt hk]
    rw [h1, hk]
    constructor
    · intro h; cases h; exact absurd rfl (hn tg r)
    · intro h; cases h; exact absurd rfl (ho tg r)
  · rw [List.getElem?_set]; simp [Ne.symm hx]

/-- frame: no ScheduleTask entry changes, the foreign threads do not move, and for every ScheduleTask the number of its
    occurrences in `ready` plus "the scheduler thread is running it" is unchanged -/
theorem InvS.frame {s s' : State} (h : InvS s) (hst : StSame s.tasks s'.tasks) (hfs : s'.fs = s.fs)
    (hocc : ∀ (x : Nat) (tg : TaskId) (r : Bool), s.tasks[x]? = some (.st tg r) →
      s'.ready.count x + sRunsST s'.s x = s.ready.count x + sRunsST s.s x) : InvS s' := by
  refine ⟨?_, ?_⟩
  · intro x tg hl
    have hl0 := (hst x tg false).mp hl
    have := h.live x tg hl0
    have := hocc x tg false hl0
    simp only [occ, hfs] at *; omega
  · intro x tg hl
    have hl0 := (hst x tg true).mp hl
    have := h.dead x tg hl0
    have := hocc x tg true hl0
    simp only [occ, hfs] at *; omega

/-- the scheduler thread finishes ScheduleTask `st` (its slice is over): the entry is marked as run -/
theorem InvS.finish {s s' : State} (h : InvS s) {st : Nat} {tg : TaskId} {r0 : Bool}
    (hrun : sRunsST s.s st = 1) (hl : s.tasks[st]? = some (.st tg r0))
    (ht : s'.tasks = s.tasks.set st (.st tg true)) (hr : s'.ready = s.ready) (hfs : s'.fs = s.fs)
    (hpc : ∀ x, sRunsST s'.s x = 0) (hold : ∀ x, x ≠ st → sRunsST s.s x = 0) : InvS s' := by
  have key : ∀ (x : Nat) (tg' : TaskId) (r : Bool), s'.tasks[x]? = some (.st tg' r) →
      (x = st ∧ r = true) ∨ (x ≠ st ∧ s.tasks[x]? = some (.st tg' r)) := by
    intro x tg' r hx
    rw [ht] at hx
    rcases set_cases hl hx with ⟨rfl, he⟩ | ⟨hne, hx⟩
    · cases he; exact Or.inl ⟨rfl, rfl⟩
    · exact Or.inr ⟨hne, hx⟩
  have hst0 : s.ready.count st + pend s.fs st = 0 := by
    cases r0 with
    | false => have := h.live st tg hl; simp only [occ] at this; omega
    | true => have := h.dead st tg hl; simp only [occ] at this; omega
  refine ⟨?_, ?_⟩
  · intro x tg' hx
    rcases key x tg' false hx with ⟨_, hf⟩ | ⟨hne, hx0⟩
    · cases hf
    · have := h.live x tg' hx0
      simp only [occ, hr, hfs, hpc x, hold x hne] at *; omega
  · intro x tg' hx
    rcases key x tg' true hx with ⟨rfl, _⟩ | ⟨hne, hx0⟩
    · simp only [occ, hr, hfs, hpc x]; omega
    · have := h.dead x tg' hx0
      simp only [occ, hr, hfs, hpc x, hold x hne] at *; omega

theorem pop_count {ready rest : List Nat} {y : Nat} (x : Nat) (hr : ready = y :: rest) :
    ready.count x = rest.count x + (if y = x then 1 else 0) := by
  subst hr; simp only [List.count_cons]; split <;> simp_all

/-- `hocc` goals: the ids put into `ready` are not ScheduleTasks -/
macro "occ_goal" hk:ident hsok:ident hpc:ident : tactic => `(tactic| (
  intro x tg r hl
  first
    | (simp only [sRunsST, $hpc:ident]; done)
    | (rw [count_append_other (ne_of_tags ⟨_, $hsok, by decide⟩ hl)]; simp only [sRunsST, $hpc:ident]; done)
    | (rw [count_append_other (ne_of_tags ⟨_, ($hsok).2, by decide⟩ hl)]; simp only [sRunsST, $hpc:ident]; done)
    | (rw [count_append_other (ne_of_tags (Or.elim $hsok (fun h => ⟨_, h, by decide⟩) (fun h => ⟨_, h, by decide⟩)) hl)]
       simp only [sRunsST, $hpc:ident]; done)
    | (rw [count_cons_other (ne_of_tags (($hk).stTg _ _ _ (by assumption)) hl)]; simp only [sRunsST, $hpc:ident]; done)))

theorem stepS_S {s s' : State} (hk : InvK s) (h : InvS s) (hs : stepS s = some s') : InvS s' := by
  have hsok := hk.sref
  s_cases hs s hpc
  all_goals simp only [hpc, sOk, hubOk] at hsok
  all_goals first
    -- nothing that concerns ScheduleTasks changes, or a task that is not a ScheduleTask is put into `ready`
    | (refine h.frame (StSame.refl _) rfl ?_; occ_goal hk hsok hpc)
    | (refine h.frame (StSame.set (by assumption) (fun a b hp => Kind.noConfusion hp) (fun a b hp => Kind.noConfusion hp)) rfl ?_
       occ_goal hk hsok hpc)
    | (refine h.frame (StSame.append _ _ (fun a b hp => Kind.noConfusion hp)) rfl ?_; occ_goal hk hsok hpc)
    -- the slice of a ScheduleTask is over
    | (refine h.finish (st := _) ?_ (by assumption) rfl rfl rfl ?_ ?_
       · simp only [sRunsST, hpc, if_true]
       · intro x; simp only [sRunsST]
       · intro x hne; simp only [sRunsST, hpc]; simp [Ne.symm hne])
    -- a task is popped from `ready` and dispatched
    | (refine h.frame ?_ rfl ?_
       · first
           | exact StSame.refl _
           | exact StSame.set (by assumption) (fun a b hp => Kind.noConfusion hp) (fun a b hp => Kind.noConfusion hp)
       · intro x tg r hl
         have hc := pop_count x (by assumption)
         rw [hc]
         simp only [sRunsST, hpc]
         first
           | omega
           | (split
              · rename_i e; subst e
                first
                  | (rename_i hq; rw [hq] at hl; cases hl; done)
                  | (have hd := h.dead _ _ (by assumption)
                     have hp := count_pos_of_mem (head_mem (by assumption))
                     simp only [occ] at hd; omega)
              · omega))

theorem stepH_S {s s' : State} (hk : InvK s) (h : InvS s) (hs : stepH s = some s') : InvS s' := by
  have hsok := hk.href
  h_cases hs s hpc
  all_goals simp only [hpc, hOk, hubOk] at hsok
  all_goals refine h.frame (StSame.refl _) rfl ?_
  all_goals (intro x tg r hl; first
    | rfl
    | (rw [count_append_other (ne_of_tags ⟨_, hsok, by decide⟩ hl)]))

theorem stepT_S {s s' : State} {t : Tid} (h : InvS s) (hs : stepT s t = some s') : InvS s' := by
  t_cases hs s t hpc
  all_goals first
    | exact h
    | (refine h.frame (StSame.refl _) rfl ?_; intro x tg r hl; simp only [sRunsST, hpc])

theorem tag2_entry {l : List Kind} {k : Nat} (h : tagAt l k = some 2) : ∃ tg r, l[k]? = some (.st tg r) := by
  simp only [tagAt] at h
  rcases hx : l[k]? with _ | x
  · simp [hx] at h
  · cases x <;> simp [hx, tag] at h
    exact ⟨_, _, rfl⟩

/-- a ScheduleTask that its creator has not appended yet is not in `ready` (so the assertion of `fast_schedule` holds) -/
theorem InvS.pending_not_ready {s : State} (hk : InvK s) (h : InvS s) {i : Nat} {f : FThread} (hf : s.fs[i]? = some f)
    {st : TaskId} (hp : pendB f.pc st = true) (hty : tagAt s.tasks st = some 2) : st ∉ s.ready := by
  intro hm
  obtain ⟨tg, r, hl⟩ := tag2_entry hty
  have h1 := count_pos_of_mem hm
  have h2 := (pend_set hf f st).2
  simp only [hp, b2n, if_true] at h2
  cases r with
  | false => have := h.live st tg hl; simp only [occ] at this; omega
  | true => have := h.dead st tg hl; simp only [occ] at this; omega

/-- frame for a step of foreign thread `i` that creates no ScheduleTask -/
theorem InvS.frameF {s s' : State} {i : Nat} {f f' : FThread} (h : InvS s) (hf : s.fs[i]? = some f)
    (hst : StSame s.tasks s'.tasks) (hfs : s'.fs = s.fs.set i f') (hS : s'.s = s.s)
    (hocc : ∀ (x : Nat) (tg : TaskId) (r : Bool), s.tasks[x]? = some (.st tg r) →
      s'.ready.count x + b2n (pendB f'.pc x) = s.ready.count x + b2n (pendB f.pc x)) : InvS s' := by
  refine ⟨?_, ?_⟩
  · intro x tg hl
    have hl0 := (hst x tg false).mp hl
    have := h.live x tg hl0
    have := hocc x tg false hl0
    obtain ⟨h1, h2⟩ := pend_set hf f' x
    simp only [occ, hfs, hS, h1] at *; omega
  · intro x tg hl
    have hl0 := (hst x tg true).mp hl
    have := h.dead x tg hl0
    have := hocc x tg true hl0
    obtain ⟨h1, h2⟩ := pend_set hf f' x
    simp only [occ, hfs, hS, h1] at *; omega

theorem count_append_self (l : List Nat) (a x : Nat) : (l ++ [a]).count x = l.count x + b2n (a == x) := by
  by_cases h : a = x
  · subst h; simp [List.count_append, b2n]
  · have : (a == x) = false := by simp [h]
    rw [count_append_other h, this]; simp [b2n]

theorem sRunsST_fresh {s : State} (hk : InvK s) : sRunsST s.s s.tasks.length = 0 := by
  have hsok := hk.sref
  cases hpc : s.s <;> simp only [sRunsST] <;> simp only [hpc, sOk] at hsok
  all_goals (split <;> first | rfl | (rename_i e; subst e; have := tagAt_lt hsok; omega))

theorem pendB_true {pc : FPc} {x : TaskId} (h : pendB pc x = true) : ∃ ctx p, pc = .fsp ctx x p := by
  unfold pendB at h
  split at h
  · rename_i c st; have e : st = x := by simpa using h
    subst e; exact ⟨_, _, rfl⟩
  · rename_i c st; have e : st = x := by simpa using h
    subst e; exact ⟨_, _, rfl⟩
  · cases h

theorem pend_fresh {s : State} (hk : InvK s) : pend s.fs s.tasks.length = 0 := by
  apply List.countP_eq_zero.mpr
  intro g hg hp
  obtain ⟨j, hj⟩ := List.mem_iff_getElem?.mp hg
  have hok := hk.fref j g hj
  obtain ⟨ctx, p, hpc⟩ := pendB_true hp
  simp only [hpc, fOk] at hok
  have := tagAt_lt hok; omega

theorem count_fresh {s : State} (hk : InvK s) : s.ready.count s.tasks.length = 0 := by
  apply List.count_eq_zero.mpr
  intro hm
  obtain ⟨n, hn⟩ := hk.rdy _ hm
  have := tagAt_lt hn; omega

/-- `st = ScheduleTask(self, task)` by foreign thread `i`: the new ScheduleTask is pending with its creator -/
theorem InvS.spawn {s s' : State} {i : Nat} {f f' : FThread} {t : TaskId} {ctx : FCtx} (hk : InvK s) (h : InvS s)
    (hf : s.fs[i]? = some f) (hpc : pendB f.pc = fun _ => false)
    (ht : s'.tasks = s.tasks ++ [.st t false]) (hfs : s'.fs = s.fs.set i f') (hS : s'.s = s.s) (hr : s'.ready = s.ready)
    (hpc' : f'.pc = .fsp ctx s.tasks.length .assert) : InvS s' := by
  have hpend : ∀ x, pend s'.fs x = pend s.fs x + b2n (s.tasks.length == x) := by
    intro x
    obtain ⟨h1, _⟩ := pend_set hf f' x
    rw [hfs, h1, hpc', hpc]; simp [pendB, b2n]
  have hold : ∀ (x : Nat) (tg : TaskId) (r : Bool), s'.tasks[x]? = some (.st tg r) →
      (x = s.tasks.length ∧ r = false) ∨ (x < s.tasks.length ∧ s.tasks[x]? = some (.st tg r)) := by
    intro x tg r hx
    rw [ht] at hx
    rcases Nat.lt_trichotomy x s.tasks.length with hlt | heq | hgt
    · rw [List.getElem?_append_left hlt] at hx; exact Or.inr ⟨hlt, hx⟩
    · subst heq; simp at hx; exact Or.inl ⟨rfl, hx.2⟩
    · rw [List.getElem?_eq_none (by simp; omega)] at hx; cases hx
  refine ⟨?_, ?_⟩
  · intro x tg hx
    rcases hold x tg false hx with ⟨rfl, _⟩ | ⟨hlt, hx0⟩
    · simp only [occ, hr, hS, hpend, count_fresh hk, pend_fresh hk, sRunsST_fresh hk]; simp [b2n]
    · have := h.live x tg hx0
      have hne : (s.tasks.length == x) = false := by simp; omega
      simp only [occ, hr, hS, hpend, hne, b2n] at *; simpa using this
  · intro x tg hx
    rcases hold x tg true hx with ⟨_, hf'⟩ | ⟨hlt, hx0⟩
    · cases hf'
    · have := h.dead x tg hx0
      have hne : (s.tasks.length == x) = false := by simp; omega
      simp only [occ, hr, hS, hpend, hne, b2n] at *; simpa using this

theorem stepF_S {s s' : State} {i : Nat} (hk : InvK s) (h : InvS s) (hs : stepF s i = some s') : InvS s' := by
  f_cases hs s i f hf hpc
  all_goals (have hsok := hk.fref i f hf; simp only [hpc, fOk] at hsok)
  all_goals first
    | (refine h.spawn hk hf (by rw [hpc]; rfl) rfl rfl rfl rfl rfl)
    | (exfalso; exact h.pending_not_ready hk hf (by rw [hpc]; simp [pendB]) hsok (by assumption))
    | (refine h.frameF hf ?_ rfl rfl ?_
       · first
           | exact StSame.refl _
           | exact StSame.append _ _ (fun a b hp => Kind.noConfusion hp)
           | exact StSame.set (by assumption) (fun a b hp => Kind.noConfusion hp) (fun a b hp => Kind.noConfusion hp)
       · intro x tg r hl
         first
           | (simp only [pendB, hpc]; done)
           | (simp only [pendB, hpc, count_append_self]; done)
           | (simp only [pendB, hpc, count_append_self, b2n]; simp; done))

theorem init_S (threaded : Bool) (users : List (List UItem)) (progs : List (List Op)) :
    InvS (Handoff.init threaded users progs) := by
  refine ⟨?_, ?_⟩ <;>
  · intro x tg hl
    simp only [Handoff.init, List.getElem?_map] at hl
    rcases hu : users[x]? with _ | u <;> simp [hu] at hl

theorem reach_KS {threaded users progs} {s : State} (hok : namesOk users progs) (hr : Reachable threaded users progs s) :
    InvK s ∧ InvS s :=
  hr.induct (P := fun s => InvK s ∧ InvS s) ⟨init_K _ _ _ hok, init_S _ _ _⟩
    (fun _ _ _ h hs => ⟨stepS_K h.1 hs, stepS_S h.1 h.2 hs⟩) (fun _ _ _ h hs => ⟨stepH_K h.1 hs, stepH_S h.1 h.2 hs⟩)
    (fun _ _ _ _ h hs => ⟨stepF_K h.1 hs, stepF_S h.1 h.2 hs⟩) (fun _ _ _ _ h hs => ⟨stepT_K h.1 hs, stepT_S h.2 hs⟩)

end Pox.Handoff
