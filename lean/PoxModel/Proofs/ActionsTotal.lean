import PoxModel.Proofs.ActionsPure
import PoxModel.Proofs.ActionsSpec
/-!
# C12, part 8: frames that are **not** well-formed (a parse that gave up half-way, fields out of range, …).
For every `ethernet` object with a payload (every object the parser returns):
* no handler of the repaired code raises, whatever the action and its argument;
* the action loop can only fail in `packet.pack()` (or by exhausting the TABLE nesting allowance) — no other exception escapes;
* every frame it emits is `pack()` of the packet as some sequence of handlers left it (`Reach`), and the packet it returns is
  such a packet too.
Whether `pack()` itself can fail on a tree the parser produced is not decided here (the parser side is C15's subject).
Core only.
-/
namespace Pox.Actions
open Pox Pox.Packet Pox.Actions.Spec

/-- the `ethernet` object has a payload (`next is not None`): true of every object `ethernet.parse` returns -/
def HasPay (f : Frame) : Prop := f.pay ≠ .nil

theorem updIp_ne_nil (g : IPv4 → Pkt → Pkt) (hg : ∀ h n, g h n ≠ .nil) (p : Pkt) (hp : p ≠ .nil) : updIp g p ≠ .nil := by
  unfold updIp
  split
  · simp
  · exact hg _ _
  · exact hp

/-- **no handler raises** on an object with a payload, and the payload stays -/
theorem handle1_total (a : Action) (f : Frame) (hp : HasPay f) : ∃ f', handle1 {} a f = .ok f' ∧ HasPay f' := by
  have hvlan : ∀ g : Vlan → Vlan, ∃ f', setVlanField g f = .ok f' ∧ HasPay f' := by
    intro g
    unfold setVlanField
    cases hv : isVlanObj f.pay with
    | true =>
      refine ⟨updVlan g f, by simp [bind, Except.bind, pure, Except.pure], ?_⟩
      unfold HasPay updVlan
      split
      · simp
      · exact hp
    | false =>
      have hpush : pushVlan f = .ok { eth := { f.eth with type := 0x8100 }, pay := .vlan ⟨0, 0, 0, f.eth.type⟩ f.pay } := by
        unfold pushVlan
        split
        · rename_i h; exact absurd h hp
        · rfl
      refine ⟨_, by simp [hpush, bind, Except.bind, pure, Except.pure]; rfl, ?_⟩
      simp [HasPay, updVlan]
  cases a with
  | setVlanVid vid => exact hvlan _
  | setVlanPcp pcp => exact hvlan _
  | stripVlan =>
    simp only [handle1, stripVlan]
    cases hpay : f.pay with
    | vlan v n =>
      cases n with
      | nil => exact ⟨f, by simp, hp⟩
      | _ => exact ⟨_, rfl, by simp [HasPay]⟩
    | unparsed c r => exact ⟨f, by simp, hp⟩
    | nil => exact absurd hpay hp
    | _ => exact ⟨f, rfl, hp⟩
  | setDlSrc a => exact ⟨_, rfl, hp⟩
  | setDlDst a => exact ⟨_, rfl, hp⟩
  | setNwSrc a => exact ⟨_, rfl, updIp_ne_nil _ (by intro h n; simp) _ hp⟩
  | setNwDst a => exact ⟨_, rfl, updIp_ne_nil _ (by intro h n; simp) _ hp⟩
  | setNwTos t => exact ⟨_, rfl, updIp_ne_nil _ (by intro h n; simp) _ hp⟩
  | setTpSrc p => exact ⟨_, rfl, updIp_ne_nil _ (by intro h n; simp) _ hp⟩
  | setTpDst p => exact ⟨_, rfl, updIp_ne_nil _ (by intro h n; simp) _ hp⟩
  | output port ml => exact ⟨f, rfl, hp⟩
  | enqueue port q => exact ⟨f, rfl, hp⟩
  | vendor v => exact ⟨f, rfl, hp⟩

/-- `f'` is `f` after some sequence of (repaired) handlers -/
def Reach (f f' : Frame) : Prop := ∃ l : List Action, (l.foldlM (fun x a => handle1 {} a x) f : M Frame) = .ok f'

theorem Reach.refl (f : Frame) : Reach f f := ⟨[], rfl⟩

theorem Reach.trans {a b c : Frame} (h1 : Reach a b) (h2 : Reach b c) : Reach a c := by
  obtain ⟨l1, e1⟩ := h1
  obtain ⟨l2, e2⟩ := h2
  refine ⟨l1 ++ l2, ?_⟩
  rw [List.foldlM_append, e1]
  exact e2

theorem Reach.step {f f' : Frame} (a : Action) (h : handle1 {} a f = .ok f') : Reach f f' :=
  ⟨[a], by simp [List.foldlM, h, bind, Except.bind, pure, Except.pure]⟩

/-- every frame of the log is `pack()` of a packet reachable from `f` by handlers -/
def Carried (f : Frame) (outs : List Out) : Prop :=
  ∀ p b, Out.frame p b ∈ outs → ∃ f', Reach f f' ∧ packFrame f' = .ok b

theorem Carried.nil (f : Frame) : Carried f [] := by intro p b h; simp at h

theorem Carried.append {f : Frame} {a b : List Out} (ha : Carried f a) (hb : Carried f b) : Carried f (a ++ b) := by
  intro p x h
  rcases List.mem_append.mp h with h | h
  · exact ha p x h
  · exact hb p x h

theorem Carried.of_reach {f f1 : Frame} {o : List Out} (hr : Reach f f1) (h : Carried f1 o) : Carried f o := by
  intro p b hm
  obtain ⟨f', r, e⟩ := h p b hm
  exact ⟨f', hr.trans r, e⟩

def isOk (e : Err) : Prop := e = .recursion ∨ ∃ pe, e = .pack pe

/-- what a processing step guarantees on any packet with a payload -/
def Total (f : Frame) (r : M (Sw × Frame × List Out)) : Prop :=
  (∀ sw' f' outs, r = .ok (sw', f', outs) → HasPay f' ∧ Reach f f' ∧ Carried f outs) ∧ (∀ e, r = .error e → isOk e)

theorem Total.error {f : Frame} {e : Err} (h : isOk e) : Total f (.error e) := by
  refine ⟨?_, ?_⟩
  · intro _ _ _ h'; cases h'
  · intro e' h'; cases h'; exact h

theorem Total.ok {f f' : Frame} {sw' : Sw} {outs : List Out} (h : HasPay f' ∧ Reach f f' ∧ Carried f outs) :
    Total f (.ok (sw', f', outs)) := by
  refine ⟨?_, ?_⟩
  · intro _ _ _ h'; cases h'; exact h
  · intro e h'; cases h'

theorem packFrame_err {f : Frame} {e : Err} (h : packFrame f = .error e) : isOk e := by
  unfold packFrame at h
  split at h
  · cases h
  · cases h; exact .inr ⟨_, rfl⟩

theorem Carried.of_carries {f : Frame} {inPort : Nat} {outs : List Out} (h : Carries f inPort outs) : Carried f outs := by
  intro p b hm
  obtain ⟨b', hb, hh⟩ := h _ hm
  rcases hh with ⟨p', e⟩ | ⟨r, ml, e⟩
  · simp only [Out.frame.injEq] at e; obtain ⟨_, rfl⟩ := e; exact ⟨f, Reach.refl f, hb⟩
  · exact absurd e.symm (packetInOf_ne_frame' _ _ _ _ _ _)

theorem realSend_err (sw : Sw) (f : Frame) (no inPort : Nat) (allow : Bool) (e : Err)
    (h : realSend sw f no inPort allow = .error e) : isOk e := by
  unfold realSend at h
  split at h
  · cases h
  · split at h
    · cases h
    · split at h
      · cases h
      · split at h
        · cases h
        · split at h
          · cases h
          · cases hp : packFrame f with
            | error e' => simp only [hp, bind, Except.bind] at h; cases h; exact packFrame_err hp
            | ok b => simp [hp, bind, Except.bind, pure, Except.pure] at h

theorem sendMany_err (f : Frame) (inPort : Nat) : ∀ (l : List Nat) (sw : Sw) (e : Err),
    sendMany sw f inPort l = .error e → isOk e := by
  intro l
  induction l with
  | nil => intro sw e h; cases h
  | cons no rest ih =>
    intro sw e h
    simp only [sendMany, bind, Except.bind] at h
    cases hr : realSend sw f no inPort false with
    | error e' => simp only [hr] at h; cases h; exact realSend_err _ _ _ _ _ _ hr
    | ok r1 =>
      obtain ⟨sw1, o1⟩ := r1
      simp only [hr] at h
      cases hs : sendMany sw1 f inPort rest with
      | error e' => simp only [hs] at h; cases h; exact ih _ _ hs
      | ok r2 => simp [hs, pure, Except.pure] at h

theorem keep_err {f : Frame} {r : M (Sw × List Out)} {e : Err} (h : keep f r = .error e) : r = .error e := by
  cases r with
  | error e' => simpa [keep] using h
  | ok v => simp [keep] at h

theorem outputPacket_total (table : TableK) (ht : ∀ sw f p, HasPay f → Total f (table sw f p)) (sw : Sw) (f : Frame)
    (hp : HasPay f) (port inPort : Nat) (ml : Option Nat) : Total f (outputPacket table sw f port inPort ml) := by
  by_cases hT : port = P_TABLE
  · subst hT
    have e : outputPacket table sw f P_TABLE inPort ml = table sw f inPort := by
      simp [outputPacket, P_TABLE, P_MAX, P_IN_PORT, P_FLOOD, P_ALL, P_CONTROLLER]
    rw [e]; exact ht sw f inPort hp
  · refine ⟨?_, ?_⟩
    · intro sw' f' outs h
      obtain ⟨rfl, hc⟩ := outputPacket_carries table sw f port inPort hT ml sw' f' outs h
      exact ⟨hp, Reach.refl _, Carried.of_carries hc⟩
    · intro e h
      unfold outputPacket at h
      split at h
      · exact realSend_err _ _ _ _ _ _ (keep_err h)
      · split at h
        · exact realSend_err _ _ _ _ _ _ (keep_err h)
        · split at h
          · exact sendMany_err _ _ _ _ _ (keep_err h)
          · split at h
            · exact sendMany_err _ _ _ _ _ (keep_err h)
            · split at h
              · cases hpk : packFrame f with
                | error e' => simp only [hpk] at h; cases h; exact packFrame_err hpk
                | ok b => simp [hpk] at h
              · cases h

theorem applyWith_total (table : TableK) (ht : ∀ sw f p, HasPay f → Total f (table sw f p)) :
    ∀ (acts : List Action) (sw : Sw) (f : Frame) (inPort : Nat), HasPay f → Total f (applyWith {} table sw acts f inPort) := by
  intro acts
  induction acts with
  | nil => intro sw f inPort hp; exact Total.ok ⟨hp, Reach.refl f, Carried.nil f⟩
  | cons a rest ih =>
    intro sw f inPort hp
    have hout : ∀ (port : Nat) (ml : Option Nat),
        Total f (match outputPacket table sw f port inPort ml with
          | .ok (sw1, f1, o1) => (match applyWith {} table sw1 rest f1 inPort with
            | .ok (sw2, f2, o2) => .ok (sw2, f2, o1 ++ o2)
            | .error e => .error e)
          | .error e => .error e) := by
      intro port ml
      have ho := outputPacket_total table ht sw f hp port inPort ml
      cases h1 : outputPacket table sw f port inPort ml with
      | error e => rw [h1] at ho; exact Total.error (ho.2 e rfl)
      | ok v =>
        obtain ⟨s1, f1, o1⟩ := v
        rw [h1] at ho
        obtain ⟨p1, r1, c1⟩ := ho.1 _ _ _ rfl
        have hi := ih s1 f1 inPort p1
        simp only
        cases h2 : applyWith {} table s1 rest f1 inPort with
        | error e => rw [h2] at hi; exact Total.error (hi.2 e rfl)
        | ok w =>
          obtain ⟨s2, f2, o2⟩ := w
          rw [h2] at hi
          obtain ⟨p2, r2, c2⟩ := hi.1 _ _ _ rfl
          exact Total.ok ⟨p2, r1.trans r2, c1.append (Carried.of_reach r1 c2)⟩
    cases hr : isRewrite a with
    | true =>
      obtain ⟨f', he, hp'⟩ := handle1_total a f hp
      have hi := ih sw f' inPort hp'
      rw [applyWith_cons_rewrite _ _ _ _ _ _ _ hr, he]
      refine ⟨?_, hi.2⟩
      intro sw' f2 outs h
      obtain ⟨p2, r2, c2⟩ := hi.1 _ _ _ h
      exact ⟨p2, (Reach.step _ he).trans r2, Carried.of_reach (Reach.step _ he) c2⟩
    | false =>
      cases a with
      | vendor v => exact Total.ok ⟨hp, Reach.refl f, by intro p b h; simp at h⟩
      | output port ml =>
        have e : applyWith {} table sw (.output port ml :: rest) f inPort =
            (match outputPacket table sw f port inPort (some ml) with
            | .ok (sw1, f1, o1) => (match applyWith {} table sw1 rest f1 inPort with
              | .ok (sw2, f2, o2) => .ok (sw2, f2, o1 ++ o2)
              | .error e => .error e)
            | .error e => .error e) := by
          simp only [applyWith, bind, Except.bind, pure, Except.pure]
          cases outputPacket table sw f port inPort (some ml) with
          | error e => rfl
          | ok v => obtain ⟨s1, f1, o1⟩ := v; simp only; cases applyWith {} table s1 rest f1 inPort <;> rfl
        rw [e]; exact hout port (some ml)
      | enqueue port q =>
        have e : applyWith {} table sw (.enqueue port q :: rest) f inPort =
            (match outputPacket table sw f port inPort none with
            | .ok (sw1, f1, o1) => (match applyWith {} table sw1 rest f1 inPort with
              | .ok (sw2, f2, o2) => .ok (sw2, f2, o1 ++ o2)
              | .error e => .error e)
            | .error e => .error e) := by
          simp only [applyWith, Bool.false_eq_true, if_false, bind, Except.bind, pure, Except.pure]
          cases outputPacket table sw f port inPort none with
          | error e => rfl
          | ok v => obtain ⟨s1, f1, o1⟩ := v; simp only; cases applyWith {} table s1 rest f1 inPort <;> rfl
        rw [e]; exact hout port none
      | _ => simp [isRewrite] at hr

theorem lookupPacket_total (apply : Sw → List Action → Frame → Nat → M (Sw × Frame × List Out))
    (ha : ∀ sw acts f p, HasPay f → Total f (apply sw acts f p)) (sw : Sw) (f : Frame) (hp : HasPay f) (inPort : Nat)
    (pd : Option Bytes) : Total f (lookupPacket apply sw f inPort pd) := by
  unfold lookupPacket
  split
  · exact ha _ _ _ _ hp
  · cases hm : Actions.missOuts sw f inPort pd with
    | ok o => exact Total.ok ⟨hp, Reach.refl f, fun p b h => absurd h (missOuts_noFrames hm p b)⟩
    | error e =>
      refine Total.error ?_
      unfold Actions.missOuts at hm
      split at hm
      · cases hm
      · cases pd with
        | some d => cases hm
        | none =>
          cases hpk : packFrame f with
          | error e' => simp only [hpk] at hm; cases hm; exact packFrame_err hpk
          | ok d => simp [hpk] at hm

/-- **the repaired action loop on any packet with a payload**: it either returns — the packet still has a payload, is the
input after some handlers, and every emitted frame is `pack()` of such a packet — or fails with a `pack()` error or the
nesting allowance; nothing else escapes -/
theorem run_total : ∀ (fuel : Nat) (sw : Sw) (acts : List Action) (f : Frame) (inPort : Nat), HasPay f →
    Total f (run {} fuel sw acts f inPort) := by
  intro fuel
  induction fuel with
  | zero => intro sw acts f inPort _; exact Total.error (.inl rfl)
  | succ n ih =>
    intro sw acts f inPort hp
    simp only [run]
    refine applyWith_total _ ?_ acts sw f inPort hp
    intro sw1 f1 p1 hp1
    simp only [Bool.false_eq_true, if_false]
    exact lookupPacket_total (run {} n) (fun s a x p hx => ih s a x p hx) sw1 f1 hp1 p1 none

end Pox.Actions
