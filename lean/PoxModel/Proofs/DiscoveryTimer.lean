import PoxModel.Proofs.DiscoveryAdj
/-! Timer-driven histories of `Model/Discovery.lean` Part 3 (C19): the expiry timer never stops, it is never overdue, and so
    no link of the adjacency is ever older than `LINK_TIMEOUT + CHECK_PERIOD`.  Core only. -/
namespace Pox.Discovery
open Pox Pox.STree

/-- every time stamp of the adjacency is recent enough for the deadline `B` -/
def Fresh (B : Nat) (adj : List (Link × Nat)) : Prop := ∀ l t, (l, t) ∈ adj → B ≤ t + LINK_TIMEOUT + CHECK_PERIOD

theorem Fresh.without {B : Nat} {adj : List (Link × Nat)} (h : Fresh B adj) (links : List Link) : Fresh B (without adj links) :=
  fun l t hm => h l t ((mem_without adj links l t).mp hm).1

/-- one op (whatever it is) keeps the stamps fresh for a deadline that a stamp taken now would meet -/
theorem step_fresh (v : Variant) (s : DState) (op : Op) (B : Nat) (hB : B ≤ s.now + LINK_TIMEOUT + CHECK_PERIOD)
    (h : Fresh B s.adj) : Fresh B (step v s op).1.adj := by
  rw [step_adj]
  cases op with
  | tick dt => exact h.without _
  | up d ps => exact h.without _
  | down d o => exact h.without _
  | sweep o => exact h.without _
  | probe l o =>
    simp only
    by_cases ha : accepts s l
    · rw [if_pos ha]
      by_cases hk : l ∈ keys s.adj
      · rw [if_pos hk]
        intro l' t' hm
        rcases (mem_touch s.adj l s.now l' t').mp hm with ⟨_, rfl, _⟩ | ⟨_, hm'⟩
        · exact hB
        · exact h l' t' hm'
      · rw [if_neg hk]
        intro l' t' hm
        rcases List.mem_append.mp hm with hm' | hm'
        · exact h l' t' hm'
        · simp only [List.mem_singleton, Prod.mk.injEq] at hm'
          rw [hm'.2]; exact hB
    · rw [if_neg ha]; exact h

/-- right after a sweep no link left is older than the timeout -/
theorem sweep_young (v : Variant) (s : DState) (o : List Nat) (l : Link) (t : Nat)
    (hm : (l, t) ∈ (step v s (.sweep o)).1.adj) : s.now ≤ t + LINK_TIMEOUT := by
  rw [step_adj] at hm
  simp only [removedBy] at hm
  obtain ⟨hin, hnot⟩ := (mem_without _ _ l t).mp hm
  apply Nat.le_of_not_lt
  intro hlt
  apply hnot
  unfold keys
  exact List.mem_map.mpr ⟨(l, t), List.mem_filter.mpr ⟨hin, by simpa using hlt⟩, rfl⟩

theorem sweep_now (v : Variant) (s : DState) (o : List Nat) : (step v s (.sweep o)).1.now = s.now := by
  rw [step_now]

/-- loop invariant of `fireDue`: the timer is set, not overdue by more than the round that is being handled, and the stamps are fresh
    for its next round -/
structure TInv (ts : TState) (n : Nat) : Prop where
  next : ts.next = some n
  le : ts.d.now ≤ n
  near : n ≤ ts.d.now + CHECK_PERIOD
  fresh : Fresh n ts.d.adj

theorem timerGoesOn_expire : timerGoesOn true expireReturns = true := by decide

/-- with enough fuel `fireDue` leaves the timer set for a time after `target`, the clock at the last round (or untouched), the
    invariant intact -/
theorem fireDue_inv (v : Variant) (order : List Nat) (target : Nat) :
    ∀ (k : Nat) (ts : TState) (out : Out) (n : Nat), TInv ts n → ts.d.now ≤ target →
      (if n ≤ target then (target - n) / 5000 + 1 else 0) ≤ k →
      ∃ n', TInv (fireDue v order target k ts out).1 n' ∧ target < n' ∧ (fireDue v order target k ts out).1.d.now ≤ target
  | 0, ts, out, n, hi, hnow, hk => by
    have hgt : target < n := by
      by_cases h : n ≤ target
      · rw [if_pos h] at hk; omega
      · omega
    exact ⟨n, hi, hgt, hnow⟩
  | k+1, ts, out, n, hi, hnow, hk => by
    unfold fireDue
    rw [hi.next]
    simp only
    by_cases h : n ≤ target
    · rw [if_pos h, timerGoesOn_expire]
      simp only [if_true]
      have hnext : TInv ⟨(step v { ts.d with now := n } (.sweep order)).1, some (n + CHECK_PERIOD)⟩ (n + CHECK_PERIOD) := by
        refine ⟨rfl, ?_, ?_, ?_⟩
        · show (step v { ts.d with now := n } (.sweep order)).1.now ≤ n + CHECK_PERIOD
          rw [sweep_now]; exact Nat.le_add_right _ _
        · show n + CHECK_PERIOD ≤ (step v { ts.d with now := n } (.sweep order)).1.now + CHECK_PERIOD
          rw [sweep_now]; exact Nat.le_refl _
        · intro l t hm
          have := sweep_young v { ts.d with now := n } order l t hm
          show n + CHECK_PERIOD ≤ t + LINK_TIMEOUT + CHECK_PERIOD
          have h2 : n ≤ t + LINK_TIMEOUT := this
          omega
      have hnow' : (step v { ts.d with now := n } (.sweep order)).1.now ≤ target := by rw [sweep_now]; exact h
      have hk' : (if n + CHECK_PERIOD ≤ target then (target - (n + CHECK_PERIOD)) / 5000 + 1 else 0) ≤ k := by
        rw [if_pos h] at hk
        unfold CHECK_PERIOD
        by_cases h3 : n + 5000 ≤ target
        · rw [if_pos h3]; omega
        · rw [if_neg h3]; omega
      exact fireDue_inv v order target k _ _ (n + CHECK_PERIOD) hnext hnow' hk'
    · rw [if_neg h]
      exact ⟨n, hi, by omega, hnow⟩

/-- the invariant of a timed history between ops: the timer is set for a time strictly ahead, at most one period away, and no
    stamp is too old for it -/
structure TOK (ts : TState) : Prop where
  ex : ∃ n, TInv ts n ∧ ts.d.now < n

theorem tinit_ok : TOK tinit :=
  ⟨init.now + CHECK_PERIOD, ⟨rfl, Nat.le_add_right _ _, Nat.le_refl _, by intro l t h; simp [tinit, init] at h⟩, by
    show init.now < init.now + CHECK_PERIOD
    unfold CHECK_PERIOD; omega⟩

theorem tstep_event_ok (v : Variant) (ts : TState) (op : Op) (hnt : ∀ dt, op ≠ .tick dt) (h : TOK ts) :
    TOK ⟨(step v ts.d op).1, ts.next⟩ := by
  obtain ⟨n, hi, hlt⟩ := h.ex
  have hnow : (step v ts.d op).1.now = ts.d.now := by
    rw [step_now]
    cases op with
    | tick dt => exact absurd rfl (hnt dt)
    | _ => rfl
  refine ⟨n, ⟨hi.next, ?_, ?_, ?_⟩, ?_⟩
  · show (step v ts.d op).1.now ≤ n
    rw [hnow]; exact hi.le
  · show n ≤ (step v ts.d op).1.now + CHECK_PERIOD
    rw [hnow]; exact hi.near
  · exact step_fresh v ts.d op n (by have := hi.near; omega) hi.fresh
  · show (step v ts.d op).1.now < n
    rw [hnow]; exact hlt

theorem tstep_ok (v : Variant) (ts : TState) (op : TOp) (h : TOK ts) : TOK (tstep v ts op).1 := by
  cases op with
  | up d ps => exact tstep_event_ok v ts (.up d ps) (fun _ c => by cases c) h
  | down d o => exact tstep_event_ok v ts (.down d o) (fun _ c => by cases c) h
  | probe l o => exact tstep_event_ok v ts (.probe l o) (fun _ c => by cases c) h
  | wait dt order =>
    obtain ⟨n, hi, hlt⟩ := h.ex
    have hfuel : (if n ≤ ts.d.now + dt then (ts.d.now + dt - n) / 5000 + 1 else 0) ≤ dt / CHECK_PERIOD + 1 := by
      unfold CHECK_PERIOD
      by_cases h3 : n ≤ ts.d.now + dt
      · rw [if_pos h3]
        have : (ts.d.now + dt - n) / 5000 ≤ dt / 5000 := Nat.div_le_div_right (by omega)
        omega
      · rw [if_neg h3]; omega
    obtain ⟨n', hi', hgt, hnow'⟩ :=
      fireDue_inv v order (ts.d.now + dt) (dt / CHECK_PERIOD + 1) ts {} n hi (Nat.le_add_right _ _) hfuel
    refine ⟨n', ⟨hi'.next, ?_, ?_, hi'.fresh⟩, hgt⟩
    · show ts.d.now + dt ≤ n'
      omega
    · show n' ≤ ts.d.now + dt + CHECK_PERIOD
      have := hi'.near
      omega

theorem runT_cons (v : Variant) (ts : TState) (op : TOp) (ops : List TOp) :
    runT v ts (op :: ops) = ((runT v (tstep v ts op).1 ops).1, (tstep v ts op).2 :: (runT v (tstep v ts op).1 ops).2) := rfl

theorem runT_ok (v : Variant) : ∀ (ops : List TOp) (ts : TState), TOK ts → TOK (runT v ts ops).1
  | [], _, h => h
  | op :: ops, ts, h => by rw [runT_cons]; exact runT_ok v ops _ (tstep_ok v ts op h)

/-! ### a timed history is a history: the sweeps are ops like any other, at the times the timer picks -/

/-- the plain ops the due rounds amount to: (ops, the clock after them, the round after them) -/
def dueOps (order : List Nat) (target : Nat) : Nat → Nat → Nat → List Op × Nat × Nat
  | 0, now, n => ([], now, n)
  | k+1, now, n =>
    if n ≤ target then
      let r := dueOps order target k n (n + CHECK_PERIOD)
      (.tick (n - now) :: .sweep order :: r.1, r.2)
    else ([], now, n)

/-- a timed history written out as a plain one, from clock `now` with the timer due at `n` -/
def expand : Nat → Nat → List TOp → List Op
  | _, _, [] => []
  | now, n, .up d ps :: r => .up d ps :: expand now n r
  | now, n, .down d o :: r => .down d o :: expand now n r
  | now, n, .probe l o :: r => .probe l o :: expand now n r
  | now, n, .wait dt order :: r =>
    (dueOps order (now + dt) (dt / CHECK_PERIOD + 1) now n).1 ++
      (.tick (now + dt - (dueOps order (now + dt) (dt / CHECK_PERIOD + 1) now n).2.1) ::
        expand (now + dt) (dueOps order (now + dt) (dt / CHECK_PERIOD + 1) now n).2.2 r)

theorem runOps_append (v : Variant) : ∀ (a : List Op) (s : DState) (b : List Op),
    runOps v s (a ++ b) = ((runOps v (runOps v s a).1 b).1, (runOps v s a).2 ++ (runOps v (runOps v s a).1 b).2)
  | [], _, _ => rfl
  | o :: a, s, b => by
    rw [List.cons_append, runOps_cons, runOps_cons, runOps_append v a _ b]
    rfl

theorem evsOf_append (a b : List Out) : evsOf (a ++ b) = evsOf a ++ evsOf b := by simp [evsOf]

theorem tick_to (v : Variant) (d : DState) (n : Nat) (h : d.now ≤ n) : step v d (.tick (n - d.now)) = ({ d with now := n }, {}) := by
  simp only [step]
  rw [Nat.add_sub_cancel' h]

/-- `fireDue` is `runOps` over `dueOps` -/
theorem fireDue_eq (v : Variant) (order : List Nat) (target : Nat) :
    ∀ (k : Nat) (ts : TState) (out : Out) (n : Nat), ts.next = some n → ts.d.now ≤ n →
      (fireDue v order target k ts out).1.d = (runOps v ts.d (dueOps order target k ts.d.now n).1).1 ∧
      (fireDue v order target k ts out).1.next = some (dueOps order target k ts.d.now n).2.2 ∧
      (fireDue v order target k ts out).1.d.now = (dueOps order target k ts.d.now n).2.1 ∧
      (fireDue v order target k ts out).2.events = out.events ++ evsOf (runOps v ts.d (dueOps order target k ts.d.now n).1).2
  | 0, ts, out, n, hn, _ => by simp [fireDue, dueOps, runOps, evsOf, hn]
  | k+1, ts, out, n, hn, hle => by
    unfold fireDue dueOps
    rw [hn]
    simp only
    by_cases h : n ≤ target
    · rw [if_pos h, if_pos h, timerGoesOn_expire]
      simp only [if_true]
      have ih := fireDue_eq v order target k
        ⟨(step v { ts.d with now := n } (.sweep order)).1, some (n + CHECK_PERIOD)⟩
        (out.append (step v { ts.d with now := n } (.sweep order)).2) (n + CHECK_PERIOD) rfl
        (by show (step v { ts.d with now := n } (.sweep order)).1.now ≤ n + CHECK_PERIOD
            rw [sweep_now]; exact Nat.le_add_right _ _)
      have hnow : (step v { ts.d with now := n } (.sweep order)).1.now = n := sweep_now v _ order
      simp only [hnow] at ih
      obtain ⟨i1, i2, i3, i4⟩ := ih
      rw [runOps_cons, runOps_cons, tick_to v ts.d n hle]
      refine ⟨i1, i2, i3, ?_⟩
      rw [i4, evsOf_cons, evsOf_cons]
      simp [Out.append, List.append_assoc]
    · rw [if_neg h, if_neg h]
      simp [runOps, evsOf, hn]

theorem tstep_event_eq (v : Variant) (ts : TState) (op : Op) : (⟨(step v ts.d op).1, ts.next⟩ : TState).d = (step v ts.d op).1 := rfl

/-- A TIMED HISTORY IS A HISTORY.  From a state in which the timer is set and not overdue: the discovery state a timed history
    leads to, and the LinkEvents it raises, are those of the plain history `expand` writes out (every sweep an op, at its time). -/
theorem runT_eq (v : Variant) : ∀ (ops : List TOp) (ts : TState), TOK ts →
    ∀ n, ts.next = some n →
      (runT v ts ops).1.d = (runOps v ts.d (expand ts.d.now n ops)).1 ∧
      evsOf (runT v ts ops).2 = evsOf (runOps v ts.d (expand ts.d.now n ops)).2
  | [], ts, _, n, _ => by simp [runT, expand, runOps]
  | op :: ops, ts, hok, n, hn => by
    have hok' := tstep_ok v ts op hok
    have evcase : ∀ (o : Op), (∀ dt, o ≠ .tick dt) → (tstep v ts op) = (⟨(step v ts.d o).1, ts.next⟩, (step v ts.d o).2) →
        expand ts.d.now n (op :: ops) = o :: expand ts.d.now n ops →
        (runT v ts (op :: ops)).1.d = (runOps v ts.d (expand ts.d.now n (op :: ops))).1 ∧
        evsOf (runT v ts (op :: ops)).2 = evsOf (runOps v ts.d (expand ts.d.now n (op :: ops))).2 := by
      intro o hnt hts hex
      have hnow : (step v ts.d o).1.now = ts.d.now := by
        rw [step_now]
        cases o with
        | tick dt => exact absurd rfl (hnt dt)
        | _ => rfl
      rw [runT_cons, hex, runOps_cons, evsOf_cons, evsOf_cons]
      rw [hts] at hok' ⊢
      have ih := runT_eq v ops ⟨(step v ts.d o).1, ts.next⟩ hok' n hn
      simp only [hnow] at ih
      exact ⟨ih.1, by rw [ih.2]⟩
    cases op with
    | up d ps => exact evcase (.up d ps) (fun _ c => by cases c) rfl rfl
    | down d o => exact evcase (.down d o) (fun _ c => by cases c) rfl rfl
    | probe l o => exact evcase (.probe l o) (fun _ c => by cases c) rfl rfl
    | wait dt order =>
      obtain ⟨n0, hi, hlt⟩ := hok.ex
      have hnn : n0 = n := Option.some.inj (hi.next.symm.trans hn)
      subst hnn
      obtain ⟨e1, e2, e3, e4⟩ := fireDue_eq v order (ts.d.now + dt) (dt / CHECK_PERIOD + 1) ts {} n0 hn hi.le
      obtain ⟨n', hi', _⟩ := hok'.ex
      have hfuel : (if n0 ≤ ts.d.now + dt then (ts.d.now + dt - n0) / 5000 + 1 else 0) ≤ dt / CHECK_PERIOD + 1 := by
        unfold CHECK_PERIOD
        by_cases h3 : n0 ≤ ts.d.now + dt
        · rw [if_pos h3]
          have : (ts.d.now + dt - n0) / 5000 ≤ dt / 5000 := Nat.div_le_div_right (by omega)
          omega
        · rw [if_neg h3]; omega
      obtain ⟨_, _, _, hle'⟩ := fireDue_inv v order (ts.d.now + dt) (dt / CHECK_PERIOD + 1) ts {} n0 hi (Nat.le_add_right _ _) hfuel
      have hnext : (tstep v ts (.wait dt order)).1.next = some (dueOps order (ts.d.now + dt) (dt / CHECK_PERIOD + 1) ts.d.now n0).2.2 := e2
      have hnow : (tstep v ts (.wait dt order)).1.d.now = ts.d.now + dt := rfl
      have ih := runT_eq v ops (tstep v ts (.wait dt order)).1 hok' _ hnext
      rw [hnow] at ih
      rw [runT_cons]
      show (runT v (tstep v ts (.wait dt order)).1 ops).1.d = _ ∧
        evsOf ((tstep v ts (.wait dt order)).2 :: (runT v (tstep v ts (.wait dt order)).1 ops).2) = _
      unfold expand
      rw [runOps_append, runOps_cons]
      have hmid : (step v (runOps v ts.d (dueOps order (ts.d.now + dt) (dt / CHECK_PERIOD + 1) ts.d.now n0).1).1
          (.tick (ts.d.now + dt - (dueOps order (ts.d.now + dt) (dt / CHECK_PERIOD + 1) ts.d.now n0).2.1))) =
          ((tstep v ts (.wait dt order)).1.d, {}) := by
        rw [← e1, ← e3]
        rw [tick_to v _ _ hle']
        rfl
      rw [hmid]
      refine ⟨ih.1, ?_⟩
      rw [evsOf_cons, evsOf_append, evsOf_cons, ih.2]
      have : (tstep v ts (.wait dt order)).2.events =
          evsOf (runOps v ts.d (dueOps order (ts.d.now + dt) (dt / CHECK_PERIOD + 1) ts.d.now n0).1).2 := by
        have h4 : (fireDue v order (ts.d.now + dt) (dt / CHECK_PERIOD + 1) ts {}).2.events =
            evsOf (runOps v ts.d (dueOps order (ts.d.now + dt) (dt / CHECK_PERIOD + 1) ts.d.now n0).1).2 := by
          rw [e4]; rfl
        exact h4
      rw [this]
      simp

/-! ### configured link timeout (`stepOfC`, Model/Discovery.lean Part 5) -/

/-- WHATEVER THE CONFIGURED TIMEOUT: right after an expiry sweep every link left was in the adjacency before and was last probed at
    most the configured link timeout ago (the links of a silent switch are withdrawn) -/
theorem sweepC_young (c : Cfg) (v : Variant) (s : DState) (choose : Choose) (o : List Nat) (l : Link) (t : Nat)
    (hm : (l, t) ∈ (stepOfC c v s choose (.sweep o)).1.adj) : (l, t) ∈ s.adj ∧ s.now ≤ t + c.linkTimeout := by
  simp only [stepOfC] at hm
  split at hm
  · rename_i he
    refine ⟨hm, Nat.le_of_not_lt fun hlt => ?_⟩
    have hk : l ∈ keys (s.adj.filter fun e => decide (e.2 + c.linkTimeout < s.now)) :=
      List.mem_map.mpr ⟨(l, t), List.mem_filter.mpr ⟨hm, by simpa using hlt⟩, rfl⟩
    rw [List.isEmpty_iff.mp he] at hk
    cases hk
  · have hm' : (l, t) ∈ without s.adj (keys (s.adj.filter fun e => decide (e.2 + c.linkTimeout < s.now))) := hm
    obtain ⟨hin, hnot⟩ := (mem_without _ _ l t).mp hm'
    refine ⟨hin, Nat.le_of_not_lt fun hlt => hnot ?_⟩
    exact List.mem_map.mpr ⟨(l, t), List.mem_filter.mpr ⟨hin, by simpa using hlt⟩, rfl⟩

/-- ... and a sweep withdraws only links that were last probed longer ago than the configured timeout: every LinkEvent it raises is a
    removal of such a link -/
theorem sweepC_events (c : Cfg) (v : Variant) (s : DState) (choose : Choose) (o : List Nat) (a : Bool) (l : Link)
    (hm : (a, l) ∈ (stepOfC c v s choose (.sweep o)).2.events) : a = false ∧ ∃ t, (l, t) ∈ s.adj ∧ t + c.linkTimeout < s.now := by
  simp only [stepOfC] at hm
  split at hm
  · cases hm
  · have hm' : (a, l) ∈ (keys (s.adj.filter fun e => decide (e.2 + c.linkTimeout < s.now))).map fun l => (false, l) := hm
    obtain ⟨l', hl', he⟩ := List.mem_map.mp hm'
    cases he
    obtain ⟨e, hef, hel⟩ := List.mem_map.mp hl'
    obtain ⟨hin, hp⟩ := List.mem_filter.mp hef
    refine ⟨rfl, e.2, ?_, by simpa using hp⟩
    rw [← hel]; exact hin

end Pox.Discovery
