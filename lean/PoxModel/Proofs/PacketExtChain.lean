import PoxModel.Proofs.Lldp
import PoxModel.Proofs.PacketChain
/-!
# The extended chain parser `xparse`: hand-over from the original parsers to the phase-2 classes (C14; core only)

`xparse` runs the original `ethParse` / `ipv4Parse` / `udpParse` with the recording continuation `probe` and continues
in `XPkt` (`lift`, `contOf`).  These lemmas show that the glue dispatches exactly like `ethernet.parse_next`,
`ipv4.parse` and `udp.parse`, and compose the per-class theorems into whole-frame statements for the frames the
controller itself emits and consumes (LLDP probes).
-/
namespace Pox.Packet
open Pox Pox.PktLayout Pox.Checksum

/-- the EtherType demultiplexer over `XPkt` (ethernet.py:71-90, 123-130) -/
def xEthNext (next : XNext) (t : Nat) (payload : Bytes) (allowLlc : Bool := true) : XPkt :=
  if t = 0x8100 then next none (.core .vlan) payload
  else if t = 0x0806 ∨ t = 0x8035 then next none (.core .arp) payload
  else if t = 0x0800 then next none (.core .ipv4) payload
  else if t = 0x86dd then next none .ipv6 payload
  else if t = 0x88cc then next none .lldp payload
  else if t = 0x888e then next none .eapol payload
  else if t = 0x8847 ∨ t = 0x8848 then next none .mpls payload
  else if t < 1536 ∧ allowLlc then next none .llc payload
  else .raw payload

theorem lift_parseNext (next : XNext) (t : Nat) (payload : Bytes) (allowLlc : Bool) :
    lift (contOf next) (parseNext probe t payload allowLlc) = xEthNext next t payload allowLlc := by
  unfold parseNext xEthNext
  by_cases h1 : t = 0x8100
  · simp [h1, probe, kindTag, lift, contOf]
  by_cases h2 : t = 0x0806 ∨ t = 0x8035
  · simp [h1, h2, probe, kindTag, lift, contOf]
  by_cases h3 : t = 0x0800
  · simp [h1, h2, h3, probe, kindTag, lift, contOf]
  by_cases h4 : t = 0x86dd
  · simp [h1, h2, h3, h4, lift, contOf]
  by_cases h5 : t = 0x88cc
  · simp [h1, h2, h3, h4, h5, lift, contOf]
  by_cases h6 : t = 0x888e
  · simp [h1, h2, h3, h4, h5, h6, lift, contOf]
  by_cases h7 : t = 0x8847 ∨ t = 0x8848
  · simp [h1, h2, h3, h4, h5, h6, h7, lift, contOf]
  by_cases h8 : t < 1536 ∧ allowLlc = true
  · simp [h1, h2, h3, h4, h5, h6, h7, h8, lift, contOf]
  · simp [h1, h2, h3, h4, h5, h6, h7, h8, lift]

/-- `ethernet(raw = hdr + payload)` in the extended model -/
theorem xparse_eth (cfg : XCfg) (f : Nat) (ctx : Option XCtx) (h : Eth) (payload : Bytes) (hf : h.Fits) :
    xparse cfg (f + 1) ctx (.core .eth) (ethBytes h ++ payload) = .eth h (xEthNext (xparse cfg f) h.type payload) := by
  show lift (contOf (xparse cfg f)) (ethParse probe (ethBytes h ++ payload)) = _
  rw [eth_parse probe h payload hf]
  simp only [lift, lift_parseNext]

theorem xparse_vlan (cfg : XCfg) (f : Nat) (ctx : Option XCtx) (h : Vlan) (payload : Bytes) (hf : h.Fits) :
    xparse cfg (f + 1) ctx (.core .vlan) (vlanBytes h ++ payload) = .vlan h (xEthNext (xparse cfg f) h.ethType payload) := by
  show lift (contOf (xparse cfg f)) (vlanParse probe (vlanBytes h ++ payload)) = _
  rw [vlan_parse probe h payload hf]
  simp only [lift, lift_parseNext]

/-- the IPv4 protocol demultiplexer over `XPkt` (ipv4.py:147-173) -/
def xIp4Next (next : XNext) (frag proto : Nat) (payload : Bytes) : XPkt :=
  let nx : XPkt :=
    if frag ≠ 0 then .raw payload
    else if proto = 17 then next none (.core .udp) payload
    else if proto = 6 then next none (.core .tcp) payload
    else if proto = 1 then next none (.core .icmp) payload
    else if proto = 2 then next none .igmp payload
    else if proto = 47 then next none .gre payload
    else .raw payload
  if isUnparsedX nx then .raw payload else nx

theorem xparse_ipv4 (cfg : XCfg) (f : Nat) (ctx : Option XCtx) (h : IPv4) (payload : Bytes) (hf : h.Fits)
    (hn : h.hl * 4 + payload.length < 65536) :
    xparse cfg (f + 1) ctx (.core .ipv4) (ipv4Bytes h payload.length ++ payload)
      = .ipv4 (ipv4Upd h payload.length) (xIp4Next (xparse cfg f) h.frag h.proto payload) := by
  show lift (contOf (xparse cfg f)) (ipv4Parse probe (ipv4Bytes h payload.length ++ payload)) = _
  rw [ipv4_parse probe h payload hf hn]
  unfold ipv4Dispatch xIp4Next
  by_cases h0 : h.frag ≠ 0
  · simp [h0, lift, isUnparsed, isUnparsedX, markBytes]
  by_cases h1 : h.proto = 17
  · simp [h0, h1, probe, kindTag, lift, isUnparsed, contOf, markBytes]
  by_cases h2 : h.proto = 6
  · simp [h0, h1, h2, probe, kindTag, lift, isUnparsed, contOf, markBytes]
  by_cases h3 : h.proto = 1
  · simp [h0, h1, h2, h3, probe, kindTag, lift, isUnparsed, contOf, markBytes]
  by_cases h4 : h.proto = 2
  · simp [h0, h1, h2, h3, h4, lift, isUnparsed, contOf, markBytes]
  by_cases h5 : h.proto = 47
  · simp [h0, h1, h2, h3, h4, h5, lift, isUnparsed, contOf, markBytes]
  · simp [h0, h1, h2, h3, h4, h5, lift, isUnparsed, isUnparsedX, markBytes]

/-- which payload class the UDP ports select (udp.py:97-117, in this order) -/
def udpSel (h : Udp) : Option String :=
  if h.dport = 67 ∨ h.dport = 68 then some "dhcp"
  else if h.dport = 53 ∨ h.sport = 53 then some "dns"
  else if h.dport = 5353 ∨ h.sport = 5353 then some "dns"
  else if h.dport = 520 ∨ h.sport = 520 then some "rip"
  else if h.dport = 4789 ∨ h.sport = 4789 then some "vxlan"
  else none

/-- `udp(raw = hdr + payload)` in the extended model: the header fields are kept and the payload goes to RIP / VXLAN
(or stays opaque); DHCP and DNS remain outside the model -/
theorem xparse_udp (cfg : XCfg) (f : Nat) (ctx : Option XCtx) (c : IPCtx) (h : Udp) (payload : Bytes) (hf : h.Fits)
    (hn : payload.length + 8 < 65536) :
    xparse cfg (f + 1) ctx (.core .udp) (udpBytes c h payload ++ payload)
      = .udp (udpUpd c h payload)
          (match udpSel h with
           | some tag => contOf (xparse cfg f) tag payload
           | none => .raw payload) := by
  have hcs := udpCsumSpec_lt c h payload
  have he := udp_encode h hf payload.length _ hn hcs
  obtain ⟨hu, hd, hl8⟩ := unpack_take udpL _ _ payload he (udp_fits h hf _ _ hn hcs)
  have hsz : size udpL = 8 := rfl
  rw [hsz] at hu hd hl8
  have hlen : (udpBytes c h payload ++ payload).length = 8 + payload.length := by
    rw [List.length_append, udpBytes_length]
  have c1 : ¬ (8 + payload.length < 8) := by omega
  have c2 : ¬ (payload.length + 8 < 8) := by omega
  have c3 : ¬ (8 + payload.length < payload.length + 8) := by omega
  show udpParseX (xparse cfg f) (udpBytes c h payload ++ payload) = _
  unfold udpParseX udpParse udpSel
  simp only [hlen, c1, if_false]
  unfold udpBytes
  simp only [hu, hd, c2, c3, if_false]
  by_cases h1 : h.dport = 67 ∨ h.dport = 68
  · simp [h1, udpUpd]
  by_cases h2 : h.dport = 53 ∨ h.sport = 53
  · simp [h1, h2, udpUpd]
  by_cases h3 : h.dport = 5353 ∨ h.sport = 5353
  · simp [h1, h2, h3, udpUpd]
  by_cases h4 : h.dport = 520 ∨ h.sport = 520
  · simp [h1, h2, h3, h4, udpUpd]
  by_cases h5 : h.dport = 4789 ∨ h.sport = 4789
  · simp [h1, h2, h3, h4, h5, udpUpd]
  · simp [h1, h2, h3, h4, h5, udpUpd, lift]

/-! ## the frame the discovery component sends and receives: Ethernet + LLDP PDU -/

/-- **LLDP probe frame.**  For every Ethernet header with EtherType 0x88cc and every well-formed LLDP PDU, `pack()` is the
14-byte header followed by the TLVs, `ethernet(raw = those bytes)` is the same Ethernet header with an `lldp` payload
holding the same TLV list, and packing that again reproduces the frame. -/
theorem lldp_frame_roundtrip (cfg : XCfg) (e : Eth) (c p t : Tlv) (mid : List Tlv) (he : e.Fits) (hty : e.type = 0x88cc) (hc : c.OK)
    (hp : p.OK) (ht : t.OK) (tc : tlvType c = 1) (tp : tlvType p = 2) (tt : tlvType t = 3)
    (hmid : ∀ q ∈ mid, q.OK ∧ tlvType q ≠ 0) :
    let tlvs := c :: p :: t :: (mid ++ [.end_])
    let frame := ethBytes e ++ lldpBytes tlvs
    xpack cfg none (.eth e (.lldp tlvs)) = .ok frame ∧
    xparseTop cfg (.core .eth) frame = .eth e (.lldp tlvs) ∧
    xpack cfg none (xparseTop cfg (.core .eth) frame) = .ok frame := by
  intro tlvs frame
  obtain ⟨hh, hpar⟩ := lldp_parse c p t mid hc hp ht tc tp tt hmid
  have hpack : xpack cfg none (.eth e (.lldp tlvs)) = .ok frame := by
    simp [xpack, xpackU, hh, ethHdr_ok e he, bind, Except.bind, pure, Except.pure, frame, tlvs]
  have hparse : xparseTop cfg (.core .eth) frame = .eth e (.lldp tlvs) := by
    have hlen : frame.length + 1 = (frame.length - 1) + 1 + 1 := by
      have : 14 ≤ frame.length := by simp [frame, ethBytes_length e he]
      omega
    unfold xparseTop
    rw [hlen, xparse_eth cfg _ none e _ he]
    simp only [xEthNext, hty]
    simp only [show ((0x88cc : Nat) = 0x8100) = False by decide, show ((0x88cc : Nat) = 0x0806 ∨ (0x88cc : Nat) = 0x8035) = False by decide,
      show ((0x88cc : Nat) = 0x0800) = False by decide, show ((0x88cc : Nat) = 0x86dd) = False by decide, if_false, if_true]
    have hx : xparse cfg (frame.length - 1 + 1) none .lldp (lldpBytes tlvs) = lldpParse (lldpBytes tlvs) := rfl
    rw [hx, hpar]
  exact ⟨hpack, hparse, by rw [hparse]; exact hpack⟩

end Pox.Packet
