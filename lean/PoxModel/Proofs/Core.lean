import PoxModel.Model.Core
/-! Invariants of the C08 machine (`Model/Core.lean`), proved for every reachable state: every operation history, every
program of user code, every intermediate point of every operation.  Core Lean only. -/
namespace Pox.Core

/-! ## reachability -/

/-- `Reach P ops m`: `m` is a state of the machine while (or after) the history `ops` is executed; the last operation of `ops`
may still be in progress.  A new operation starts only when the previous one has returned (`stack = []`). -/
inductive Reach (P : Prog) : List Op → M → Prop
  | init : Reach P [] {}
  | op {ops m} (o : Op) : Reach P ops m → m.stack = [] → Reach P (ops ++ [o]) (startOp o m)
  | step {ops m} : Reach P ops m → Reach P ops (step P m)

theorem Reach.run {P ops m} (h : Reach P ops m) (n : Nat) : Reach P ops (run P n m) := by
  induction n generalizing m with
  | zero => exact h
  | succ n ih =>
    unfold Pox.Core.run
    split
    · exact h
    · exact ih h.step

theorem exec_reach_aux {P fuel} (os : List Op) : ∀ {pre m0 m}, Reach P pre m0 → m0.stack = [] →
    exec P fuel os m0 = some m → Reach P (pre ++ os) m ∧ m.stack = [] := by
  induction os with
  | nil => intro pre m0 m h hs he; simp [exec] at he; subst he; simpa using ⟨h, hs⟩
  | cons o os ih =>
    intro pre m0 m h hs he
    simp only [exec] at he
    split at he
    · rename_i hst
      have := ih ((Reach.op o h hs).run fuel) hst he
      simpa [List.append_assoc] using this
    · cases he

theorem execMarks_exec {P fuel} (os : List Op) : ∀ {m0 marks m mk}, execMarks P fuel os m0 marks = some (m, mk) →
    exec P fuel os m0 = some m := by
  induction os with
  | nil => intro m0 marks m mk h; simp [execMarks] at h; simp [exec, h.1]
  | cons o os ih =>
    intro m0 marks m mk h
    simp only [execMarks] at h
    simp only [exec]
    split at h
    · exact ih h
    · cases h

/-! ## events -/

def isFired (id : Nat) : Ev → Bool
  | .fired i _ => i == id
  | _ => false

/-- how many times the callback of waiter `id` has been invoked -/
def firedCount (log : List Ev) (id : Nat) : Nat := log.countP (isFired id)

def Ev.notFired : Ev → Prop
  | .fired _ _ => False
  | _ => True

theorem firedCount_append (l1 l2 : List Ev) (id : Nat) : firedCount (l1 ++ l2) id = firedCount l1 id + firedCount l2 id := by
  simp [firedCount, List.countP_append]

theorem firedCount_single_notFired {ev : Ev} (h : ev.notFired) (id : Nat) : firedCount [ev] id = 0 := by
  cases ev <;> simp_all [firedCount, isFired, Ev.notFired]

theorem firedCount_single_fired (i id : Nat) (s : List Name) : firedCount [Ev.fired i s] id = if i = id then 1 else 0 := by
  by_cases h : i = id <;> simp [firedCount, isFired, h]

/-! ## the rendezvous invariant (independent of the control stack) -/

structure CoreInv (c : Core) : Prop where
  idlt : ∀ e ∈ c.decls, e.id < c.nextId
  uniq : ∀ e ∈ c.decls, ∀ e' ∈ c.decls, e.id = e'.id → e = e'
  wsub : ∀ e ∈ c.waiters, e ∈ c.decls
  wnodup : c.waiters.Nodup
  cnt : ∀ e ∈ c.decls, firedCount c.log e.id = if e ∈ c.waiters then 0 else 1
  early : ∀ id snap, Ev.fired id snap ∈ c.log →
    ∃ e ∈ c.decls, e.id = id ∧ (∀ d ∈ e.deps, d ∈ snap) ∧ (∀ d ∈ snap, d ∈ c.comps)

theorem ready_iff (c : Core) (e : Entry) : ready c e = true ↔ ∀ d ∈ e.deps, d ∈ c.comps := by
  simp [ready, List.all_eq_true]

theorem coreInv_init : CoreInv {} := by
  constructor <;> simp

/-- the registry grows, the log gets events that are not callback invocations, nothing else the invariant mentions changes -/
theorem coreInv_weak {c c' : Core} (h : CoreInv c) (hc : ∀ d ∈ c.comps, d ∈ c'.comps) (hw : c'.waiters = c.waiters)
    (hn : c'.nextId = c.nextId) (hd : c'.decls = c.decls)
    (hl : ∃ l, c'.log = c.log ++ l ∧ ∀ ev ∈ l, ev.notFired) : CoreInv c' := by
  obtain ⟨l, hl, hnf⟩ := hl
  have hcount : ∀ id, firedCount c'.log id = firedCount c.log id := by
    intro id
    rw [hl, firedCount_append]
    have : firedCount l id = 0 := by
      clear hl
      induction l with
      | nil => rfl
      | cons a l ih =>
        have h1 : firedCount (a :: l) id = firedCount [a] id + firedCount l id := firedCount_append [a] l id
        rw [h1, firedCount_single_notFired (hnf a (by simp)), ih (fun ev hev => hnf ev (by simp [hev]))]
    omega
  constructor
  · rw [hd, hn]; exact h.idlt
  · rw [hd]; exact h.uniq
  · rw [hd, hw]; exact h.wsub
  · rw [hw]; exact h.wnodup
  · rw [hd, hw]; intro e he; rw [hcount]; exact h.cnt e he
  · intro id snap hm
    rw [hl, List.mem_append] at hm
    rcases hm with hm | hm
    · obtain ⟨e, he, h1, h2, h3⟩ := h.early id snap hm
      exact ⟨e, hd ▸ he, h1, h2, fun d hd' => hc d (h3 d hd')⟩
    · exact absurd (hnf _ hm) (by simp [Ev.notFired])

/-- `call_when_ready` up to the append -/
theorem coreInv_declare {c : Core} (h : CoreInv c) (deps : List Name) (b : Nat) :
    CoreInv { c with waiters := c.waiters ++ [⟨c.nextId, deps, b⟩], nextId := c.nextId + 1,
                     decls := c.decls ++ [⟨c.nextId, deps, b⟩] } := by
  have hfresh : ∀ e ∈ c.decls, e.id ≠ c.nextId := fun e he => Nat.ne_of_lt (h.idlt e he)
  have hnotin : (⟨c.nextId, deps, b⟩ : Entry) ∉ c.decls := fun hm => hfresh _ hm rfl
  have hnew0 : firedCount c.log c.nextId = 0 := by
    unfold firedCount
    rw [List.countP_eq_zero]
    intro ev hev
    cases ev with
    | fired i s =>
      obtain ⟨e, he, h1, _⟩ := h.early i s hev
      have := hfresh e he
      simp [isFired]; omega
    | _ => simp [isFired]
  constructor
  · intro e he
    simp only [List.mem_append, List.mem_singleton] at he
    rcases he with he | rfl
    · exact Nat.lt_succ_of_lt (h.idlt e he)
    · exact Nat.lt_succ_self _
  · intro e he e' he' hid
    simp only [List.mem_append, List.mem_singleton] at he he'
    rcases he with he | rfl <;> rcases he' with he' | rfl
    · exact h.uniq e he e' he' hid
    · exact absurd hid (hfresh e he)
    · exact absurd hid.symm (hfresh e' he')
    · rfl
  · intro e he
    simp only [List.mem_append, List.mem_singleton] at he ⊢
    rcases he with he | rfl
    · exact Or.inl (h.wsub e he)
    · exact Or.inr rfl
  · simp only
    rw [List.nodup_append]
    refine ⟨h.wnodup, by simp, ?_⟩
    intro a ha b' hb'
    simp only [List.mem_singleton] at hb'
    subst hb'
    intro heq; subst heq
    exact hnotin (h.wsub _ ha)
  · intro e he
    simp only [List.mem_append, List.mem_singleton] at he ⊢
    rcases he with he | rfl
    · have hne : e ≠ ⟨c.nextId, deps, b⟩ := fun heq => hnotin (heq ▸ he)
      have := h.cnt e he
      simp only [hne, or_false]
      exact this
    · simp [hnew0]
  · intro id snap hm
    obtain ⟨e, he, h1, h2, h3⟩ := h.early id snap hm
    exact ⟨e, by simp [he], h1, h2, h3⟩

/-- `_try_waiter` past its tests: remove the entry, invoke the callback -/
theorem coreInv_fire {c : Core} (h : CoreInv c) {e : Entry} (hw : e ∈ c.waiters) (hr : ready c e = true) :
    CoreInv (fire c e) := by
  have hed := h.wsub e hw
  have hmem : ∀ x, x ∈ c.waiters.erase e ↔ x ≠ e ∧ x ∈ c.waiters := fun x => h.wnodup.mem_erase_iff
  constructor
  · exact h.idlt
  · exact h.uniq
  · intro x hx; exact h.wsub x ((hmem x).1 hx).2
  · exact h.wnodup.erase e
  · intro x hx
    show firedCount (c.log ++ [Ev.fired e.id c.comps]) x.id = if x ∈ c.waiters.erase e then 0 else 1
    rw [firedCount_append, firedCount_single_fired, h.cnt x hx]
    by_cases hxe : x = e
    · subst hxe
      simp [hw, hmem]
    · have hid : ¬ e.id = x.id := fun hid => hxe (h.uniq x hx e hed hid.symm)
      simp [hid, hmem, hxe]
  · intro id snap hm
    show ∃ e' ∈ c.decls, _
    have hm' : Ev.fired id snap ∈ c.log ++ [Ev.fired e.id c.comps] := hm
    rw [List.mem_append, List.mem_singleton] at hm'
    rcases hm' with hm' | hm'
    · exact h.early id snap hm'
    · injection hm' with h1 h2
      subst h1 h2
      exact ⟨e, hed, rfl, (ready_iff c e).1 hr, fun d hd => hd⟩


theorem coreInv_logEv {c : Core} (h : CoreInv c) {ev : Ev} (hev : ev.notFired) : CoreInv (c.logEv ev) :=
  coreInv_weak h (fun _ hd => hd) rfl rfl rfl ⟨[ev], rfl, by simpa using hev⟩

theorem coreInv_waiterNotify {c : Core} (h : CoreInv c) : CoreInv (waiterNotify c) := by
  unfold waiterNotify; split
  · exact h
  · exact coreInv_logEv h (by simp [Ev.notFired])

theorem coreInv_enterStage2 {P : Prog} {c : Core} (h : CoreInv c) : CoreInv (enterStage2 P c).1 :=
  coreInv_weak h (fun _ hd => hd) rfl rfl rfl ⟨[.up c.deferrals.length], rfl, by simp [Ev.notFired]⟩

theorem coreInv_doQuit {P : Prog} {c : Core} (h : CoreInv c) : CoreInv (doQuit P c).1 := by
  unfold doQuit; split
  · exact h
  · split
    · exact coreInv_weak h (fun _ hd => hd) rfl rfl rfl ⟨[], by simp, by simp⟩
    · exact coreInv_weak h (fun _ hd => hd) rfl rfl rfl ⟨[.goingDown], rfl, by simp [Ev.notFired]⟩

theorem coreInv_declareStep {P : Prog} {c : Core} (h : CoreInv c) (deps : List Name) (b : Nat) (tail : List Frame) :
    CoreInv (declareStep P c deps b tail).1 := by
  have h1 := coreInv_declare h deps b
  simp only [declareStep]
  split
  · rename_i hr
    exact coreInv_fire h1 (by simp) hr
  · exact h1

theorem coreInv_stepAct {P : Prog} {c : Core} (h : CoreInv c) (a : Act) : CoreInv (stepAct P c a).1 := by
  cases a with
  | register n =>
    refine coreInv_weak h ?_ rfl rfl rfl ⟨[], by simp [stepAct], by simp⟩
    intro d hd; simp only [stepAct]; split <;> simp [hd]
  | declare deps b => exact coreInv_declareStep h deps b []
  | listen deps b => exact coreInv_declareStep h deps b [.notifyIfUp]
  | getDeferral => exact coreInv_weak h (fun _ hd => hd) rfl rfl rfl ⟨[], by simp [stepAct], by simp⟩
  | release k =>
    simp only [stepAct]
    split
    · exact h
    · split
      · exact h
      · have h1 : CoreInv { c with deferrals := c.deferrals.erase k } :=
          coreInv_weak h (fun _ hd => hd) rfl rfl rfl ⟨[], by simp, by simp⟩
        split
        · exact coreInv_enterStage2 (P := P) h1
        · exact h1
  | quit =>
    simp only [stepAct]
    split
    · exact coreInv_weak h (fun _ hd => hd) rfl rfl rfl ⟨[], by simp, by simp⟩
    · exact coreInv_doQuit h
  | raise => exact h

theorem coreInv_stepPass {P : Prog} {c : Core} (h : CoreInv c) (snap : List Entry) (ch : Bool) :
    CoreInv (stepPass P c snap ch).1 := by
  unfold stepPass
  split
  · exact h
  · exact h
  · split
    · rename_i hc
      simp only [Bool.and_eq_true, List.contains_iff_mem] at hc
      exact coreInv_fire h hc.1 hc.2
    · exact h

theorem coreInv_stepTop {P : Prog} {c : Core} (h : CoreInv c) (x : Bool) (f : Frame) : CoreInv (stepTop P c x f).1 := by
  unfold stepTop
  split
  · cases f <;> simp only [stepExc] <;> first | exact h | exact coreInv_logEv h (by simp [Ev.notFired])
  · cases f with
    | script acts =>
      cases acts with
      | nil => exact h
      | cons a as => exact coreInv_stepAct h a
    | pass snap ch => exact coreInv_stepPass h snap ch
    | cbEnd id => exact h
    | notifyIfUp => simp only [stepNorm]; split; exact h; exact coreInv_waiterNotify h
    | goUpStart => exact coreInv_weak h (fun _ hd => hd) rfl rfl rfl ⟨[.goingUp], rfl, by simp [Ev.notFired]⟩
    | goUpCont =>
      simp only [stepNorm]
      have h1 : CoreInv { c with stage := 1 } := coreInv_weak h (fun _ hd => hd) rfl rfl rfl ⟨[], by simp, by simp⟩
      split
      · exact coreInv_enterStage2 (P := P) h1
      · exact h1
    | stage2Cont => exact coreInv_waiterNotify h
    | quitCont => exact coreInv_logEv h (by simp [Ev.notFired])
    | ticks n =>
      cases n with
      | zero => exact h
      | succ n => exact coreInv_doQuit h
    | opEnd => exact h

theorem coreInv_step {P : Prog} {m : M} (h : CoreInv m.core) : CoreInv (step P m).core := by
  unfold step
  split
  · exact h
  · exact coreInv_stepTop h _ _

theorem coreInv_startOp {m : M} (h : CoreInv m.core) (o : Op) : CoreInv (startOp o m).core := by
  cases o with
  | act a => exact h
  | goUp => exact h
  | tick => exact coreInv_weak h (fun _ hd => hd) rfl rfl rfl ⟨[], by simp [startOp], by simp⟩

theorem Reach.coreInv {P ops m} (h : Reach P ops m) : CoreInv m.core := by
  induction h with
  | init => exact coreInv_init
  | op o _ _ ih => exact coreInv_startOp ih o
  | step _ ih => exact coreInv_step ih

/-! ## the fix-point invariant: when an operation returns, no pending waiter is ready -/

def Frame.isPass : Frame → Bool
  | .pass _ _ => true
  | _ => false

def Frame.isCbEnd : Frame → Bool
  | .cbEnd _ => true
  | _ => false

/-- a `_try_waiters` loop that is not on top of the stack is inside the `try` of the callback it is running -/
def PassOK : List Frame → Prop
  | f :: g :: rest => (g.isPass = true → f.isCbEnd = true) ∧ PassOK (g :: rest)
  | _ => True

def HeadNotPass : List Frame → Prop
  | g :: _ => g.isPass = false
  | [] => True

/-- `_try_waiters`' post-condition -/
def Settled (c : Core) : Prop := ∀ e ∈ c.waiters, ready c e = false

/-- this loop will look (again) at every pending waiter that is ready now -/
def Covers (c : Core) : Frame → Prop
  | .pass snap ch => ch = true ∨ ∀ e ∈ c.waiters, ready c e = true → e ∈ snap
  | _ => False

def Covered (c : Core) (st : List Frame) : Prop := ∃ f ∈ st, Covers c f

structure SInv (m : M) : Prop where
  passOK : PassOK m.stack
  excTop : m.exc = true → HeadNotPass m.stack
  settled : Settled m.core ∨ Covered m.core m.stack

theorem passOK_tail {f : Frame} {rest : List Frame} (h : PassOK (f :: rest)) : PassOK rest := by
  cases rest with
  | nil => trivial
  | cons g r => exact h.2

theorem headNotPass_of {f : Frame} {rest : List Frame} (h : PassOK (f :: rest)) (hf : f.isCbEnd = false) : HeadNotPass rest := by
  cases rest with
  | nil => trivial
  | cons g r =>
    show g.isPass = false
    cases hg : g.isPass with
    | false => rfl
    | true => have := h.1 hg; simp [hf] at this

theorem passOK_cons {f : Frame} {rest : List Frame} (h : PassOK rest) (hh : f.isCbEnd = true ∨ HeadNotPass rest) : PassOK (f :: rest) := by
  cases rest with
  | nil => trivial
  | cons g r =>
    refine ⟨fun hg => ?_, h⟩
    rcases hh with hh | hh
    · exact hh
    · have : g.isPass = false := hh
      simp [this] at hg

theorem passOK_append_nonpass {fr rest : List Frame} (h : PassOK rest) (hfr : ∀ g ∈ fr, g.isPass = false)
    (hh : fr = [] ∨ HeadNotPass rest) : PassOK (fr ++ rest) ∧ (fr ≠ [] → HeadNotPass (fr ++ rest)) := by
  induction fr with
  | nil => exact ⟨h, fun hne => absurd rfl hne⟩
  | cons g fr ih =>
    have hrest : HeadNotPass rest := by
      rcases hh with hh | hh
      · cases hh
      · exact hh
    have ih' := ih (fun g' hg' => hfr g' (by simp [hg'])) (Or.inr hrest)
    refine ⟨?_, fun _ => hfr g (by simp)⟩
    apply passOK_cons ih'.1
    right
    cases fr with
    | nil => exact hrest
    | cons g' fr' => exact hfr g' (by simp)

theorem settled_congr {c c' : Core} (hw : c'.waiters = c.waiters) (hc : c'.comps = c.comps) (h : Settled c) : Settled c' := by
  intro e he; rw [hw] at he; have := h e he; simpa [ready, hc] using this

theorem covers_congr {c c' : Core} (hw : c'.waiters = c.waiters) (hc : c'.comps = c.comps) {f : Frame} (h : Covers c f) : Covers c' f := by
  cases f <;> try exact h
  rename_i snap ch
  rcases h with h | h
  · exact Or.inl h
  · right; intro e he hr; rw [hw] at he; exact h e he (by simpa [ready, hc] using hr)

theorem covered_congr {c c' : Core} (hw : c'.waiters = c.waiters) (hc : c'.comps = c.comps) {st : List Frame} (h : Covered c st) : Covered c' st := by
  obtain ⟨f, hf, hcov⟩ := h
  exact ⟨f, hf, covers_congr hw hc hcov⟩

theorem covered_pop {c : Core} {f : Frame} {rest fr : List Frame} (h : Covered c (f :: rest)) (hf : f.isPass = false) : Covered c (fr ++ rest) := by
  obtain ⟨g, hg, hcov⟩ := h
  rcases List.mem_cons.1 hg with rfl | hg
  · cases g <;> simp_all [Covers, Frame.isPass]
  · exact ⟨g, by simp [hg], hcov⟩

/-- a step that neither touches the waiters/registry nor involves a `_try_waiters` loop -/
structure Benign (c : Core) (f : Frame) (r : Core × List Frame × Bool) : Prop where
  w : r.1.waiters = c.waiters
  cmp : r.1.comps = c.comps
  np : ∀ g ∈ r.2.1, g.isPass = false
  cb : f.isCbEnd = true → r.2.1 = []
  ex : r.2.2 = true → r.2.1 ≠ [] ∨ f.isCbEnd = false

theorem sinv_benign {c : Core} {f : Frame} {rest : List Frame} {x : Bool} {c' : Core} {fr : List Frame} {x' : Bool}
    (h : SInv ⟨c, f :: rest, x⟩) (hf : f.isPass = false) (hb : Benign c f (c', fr, x')) : SInv ⟨c', fr ++ rest, x'⟩ := by
  have hrest := passOK_tail h.passOK
  have hh : fr = [] ∨ HeadNotPass rest := by
    cases hcb : f.isCbEnd with
    | true => exact Or.inl (hb.cb hcb)
    | false => exact Or.inr (headNotPass_of h.passOK hcb)
  have hp := passOK_append_nonpass hrest hb.np hh
  constructor
  · exact hp.1
  · intro hx
    rcases hb.ex hx with hne | hcb
    · exact hp.2 hne
    · by_cases hnil : fr = []
      · show HeadNotPass (fr ++ rest)
        rw [hnil]; exact headNotPass_of h.passOK hcb
      · exact hp.2 hnil
  · rcases h.settled with hs | hcov
    · exact Or.inl (settled_congr hb.w hb.cmp hs)
    · exact Or.inr (covered_congr hb.w hb.cmp (covered_pop hcov hf))

@[simp] theorem waiterNotify_waiters (c : Core) : (waiterNotify c).waiters = c.waiters := by
  unfold waiterNotify; split <;> rfl
@[simp] theorem waiterNotify_comps (c : Core) : (waiterNotify c).comps = c.comps := by
  unfold waiterNotify; split <;> rfl

theorem benign_stepExc {P : Prog} {c : Core} {f : Frame} (hf : f.isPass = false) : Benign c f (stepExc P c f) := by
  cases f <;> constructor <;> simp_all [stepExc, Core.logEv, Frame.isPass, Frame.isCbEnd]

theorem benign_doQuit {P : Prog} {c : Core} {f : Frame} (tail : List Frame) (hf : f.isCbEnd = false)
    (ht : ∀ g ∈ tail, g.isPass = false) :
    Benign c f ((doQuit P c).1, (doQuit P c).2 ++ tail, false) := by
  unfold doQuit
  split
  · constructor <;> simp_all
  · split
    · constructor <;> simp_all
    · constructor <;> simp_all [Frame.isPass]

theorem erase_append_self {α} [DecidableEq α] {l : List α} {a : α} (h : a ∉ l) : (l ++ [a]).erase a = l := by
  induction l with
  | nil => simp
  | cons b l ih =>
    have hne : b ≠ a := fun heq => h (by simp [heq])
    have hnot : a ∉ l := fun hm => h (by simp [hm])
    simp [hne, ih hnot]

theorem fresh_not_waiting {c : Core} (h : CoreInv c) (deps : List Name) (b : Nat) : (⟨c.nextId, deps, b⟩ : Entry) ∉ c.waiters := by
  intro hm
  have := h.idlt _ (h.wsub _ hm)
  simp at this


/-- nothing new became ready: every ready pending waiter of `c'` was a ready pending waiter of `c` -/
theorem settled_covered_mono {c c' : Core} {st : List Frame}
    (hsub : ∀ e ∈ c'.waiters, ready c' e = true → e ∈ c.waiters ∧ ready c e = true)
    (h : Settled c ∨ Covered c st) : Settled c' ∨ Covered c' st := by
  rcases h with hs | ⟨f, hf, hcov⟩
  · left
    intro e he
    cases hr : ready c' e with
    | false => rfl
    | true => have := hsub e he hr; rw [hs e this.1] at this; exact absurd this.2 (by simp)
  · right
    refine ⟨f, hf, ?_⟩
    cases f <;> try exact hcov
    rcases hcov with hcov | hcov
    · exact Or.inl hcov
    · exact Or.inr fun e he hr => hcov e (hsub e he hr).1 (hsub e he hr).2

theorem benign_act {P : Prog} {c : Core} {a : Act} {as : List Act}
    (ha : match a with | .register _ => False | .declare _ _ => False | .listen _ _ => False | _ => True) :
    Benign c (.script (a :: as)) ((stepAct P c a).1, (stepAct P c a).2.1 ++ [.script as], (stepAct P c a).2.2) := by
  cases a with
  | register n => exact absurd ha (by simp)
  | declare d b => exact absurd ha (by simp)
  | listen d b => exact absurd ha (by simp)
  | getDeferral => constructor <;> simp [stepAct, Frame.isPass, Frame.isCbEnd]
  | raise => constructor <;> simp [stepAct, Frame.isPass, Frame.isCbEnd]
  | release k =>
    simp only [stepAct]
    split
    · constructor <;> simp [Frame.isPass, Frame.isCbEnd]
    · split
      · constructor <;> simp [Frame.isPass, Frame.isCbEnd]
      · split
        · constructor <;> simp [enterStage2, Frame.isPass, Frame.isCbEnd]
        · constructor <;> simp [Frame.isPass, Frame.isCbEnd]
  | quit =>
    simp only [stepAct]
    split
    · constructor <;> simp [Frame.isPass, Frame.isCbEnd]
    · exact benign_doQuit [.script as] rfl (by simp [Frame.isPass])

theorem sinv_declareStep {P : Prog} {c : Core} {a : Act} {as : List Act} {rest : List Frame}
    (hc : CoreInv c) (h : SInv ⟨c, .script (a :: as) :: rest, false⟩) (deps : List Name) (b : Nat) (tail : List Frame)
    (ht : ∀ g ∈ tail, g.isPass = false) :
    SInv ⟨(declareStep P c deps b tail).1, ((declareStep P c deps b tail).2.1 ++ [.script as]) ++ rest,
          (declareStep P c deps b tail).2.2⟩ := by
  have hfresh := fresh_not_waiting hc deps b
  simp only [declareStep]
  split
  · -- ready at once: appended and removed again
    refine sinv_benign h rfl ?_
    constructor
    · simp [fire, erase_append_self hfresh]
    · simp [fire]
    · intro g hg
      simp only [List.append_assoc, List.cons_append, List.nil_append, List.mem_cons, List.mem_append,
        List.not_mem_nil, or_false] at hg
      rcases hg with rfl | rfl | hg | rfl
      · rfl
      · rfl
      · exact ht g hg
      · rfl
    · simp [Frame.isCbEnd]
    · simp
  · rename_i hnr
    have hnr' : ready { c with waiters := c.waiters ++ [⟨c.nextId, deps, b⟩], nextId := c.nextId + 1,
                               decls := c.decls ++ [⟨c.nextId, deps, b⟩] } ⟨c.nextId, deps, b⟩ = false := by
      simpa using hnr
    have hrest := passOK_tail h.passOK
    have hp := passOK_append_nonpass (fr := tail ++ [.script as]) hrest
      (by intro g hg; simp only [List.mem_append, List.mem_singleton] at hg
          rcases hg with hg | rfl
          · exact ht g hg
          · rfl)
      (Or.inr (headNotPass_of h.passOK rfl))
    constructor
    · exact hp.1
    · intro hx; cases hx
    · have hcov : Settled c ∨ Covered c ((tail ++ [.script as]) ++ rest) := by
        rcases h.settled with hs | hcv
        · exact Or.inl hs
        · exact Or.inr (covered_pop hcv rfl)
      refine settled_covered_mono ?_ hcov
      intro e he hr
      simp only [List.mem_append, List.mem_singleton] at he
      rcases he with he | rfl
      · exact ⟨he, by simpa [ready] using hr⟩
      · rw [hnr'] at hr; cases hr

theorem sinv_stepPass {P : Prog} {c : Core} {snap : List Entry} {ch : Bool} {rest : List Frame}
    (hc : CoreInv c) (h : SInv ⟨c, .pass snap ch :: rest, false⟩) :
    SInv ⟨(stepPass P c snap ch).1, (stepPass P c snap ch).2.1 ++ rest, (stepPass P c snap ch).2.2⟩ := by
  have hrest := passOK_tail h.passOK
  have hhead : HeadNotPass rest := headNotPass_of h.passOK rfl
  cases snap with
  | nil =>
    cases ch with
    | false =>
      -- the pass ended and nothing fired: the loop ends
      show SInv ⟨c, rest, false⟩
      refine ⟨hrest, (fun hx => by cases hx), ?_⟩
      rcases h.settled with hs | ⟨f, hf, hcov⟩
      · exact Or.inl hs
      · rcases List.mem_cons.1 hf with rfl | hf
        · rcases hcov with hcov | hcov
          · cases hcov
          · left; intro e he
            cases hr : ready c e with
            | false => rfl
            | true => exact absurd (hcov e he hr) (by simp)
        · exact Or.inr ⟨f, hf, hcov⟩
    | true =>
      -- something fired: a new pass over a fresh copy of the list
      show SInv ⟨c, .pass c.waiters false :: rest, false⟩
      exact ⟨passOK_cons hrest (Or.inr hhead), (fun hx => by cases hx),
        Or.inr ⟨_, List.mem_cons_self, Or.inr fun e he _ => he⟩⟩
  | cons e es =>
    simp only [stepPass]
    split
    · refine ⟨?_, (fun hx => by cases hx), Or.inr ⟨.pass es true, by simp, Or.inl rfl⟩⟩
      show PassOK (Frame.script _ :: Frame.cbEnd _ :: Frame.pass es true :: rest)
      exact ⟨by simp [Frame.isPass], by simp [Frame.isCbEnd], passOK_cons hrest (Or.inr hhead)⟩
    · rename_i hno
      refine ⟨passOK_cons hrest (Or.inr hhead), (fun hx => by cases hx), ?_⟩
      rcases h.settled with hs | ⟨f, hf, hcov⟩
      · exact Or.inl hs
      · right
        rcases List.mem_cons.1 hf with rfl | hf
        · refine ⟨.pass es ch, List.mem_cons_self, ?_⟩
          rcases hcov with hcov | hcov
          · exact Or.inl hcov
          · right; intro e' he' hr'
            have := hcov e' he' hr'
            rcases List.mem_cons.1 this with rfl | hm
            · exfalso; apply hno; simp [he', hr']
            · exact hm
        · exact ⟨f, by simp [hf], hcov⟩

theorem sinv_stepTop {P : Prog} {c : Core} {f : Frame} {rest : List Frame} {x : Bool}
    (hc : CoreInv c) (h : SInv ⟨c, f :: rest, x⟩) :
    SInv ⟨(stepTop P c x f).1, (stepTop P c x f).2.1 ++ rest, (stepTop P c x f).2.2⟩ := by
  unfold stepTop
  split
  · rename_i hx
    have hf : f.isPass = false := h.excTop hx
    exact sinv_benign h hf (benign_stepExc hf)
  · rename_i hx
    have hx : x = false := by simpa using hx
    subst hx
    cases f with
    | script acts =>
      cases acts with
      | nil => exact sinv_benign h rfl (by constructor <;> simp [stepNorm, Frame.isCbEnd])
      | cons a as =>
        cases a with
        | register n =>
          simp only [stepNorm, stepAct]
          have hp : PassOK (Frame.script as :: rest) :=
            passOK_cons (passOK_tail h.passOK) (Or.inr (headNotPass_of h.passOK rfl))
          exact ⟨⟨by simp [Frame.isPass], hp⟩, (fun hx => by cases hx), Or.inr ⟨.pass [] true, by simp, Or.inl rfl⟩⟩
        | declare deps b => exact sinv_declareStep hc h deps b [] (by simp)
        | listen deps b => exact sinv_declareStep hc h deps b [.notifyIfUp] (by simp [Frame.isPass])
        | getDeferral => exact sinv_benign h rfl (benign_act (by simp))
        | release k => exact sinv_benign h rfl (benign_act (by simp))
        | quit => exact sinv_benign h rfl (benign_act (by simp))
        | raise => exact sinv_benign h rfl (benign_act (by simp))
    | pass snap ch => exact sinv_stepPass hc h
    | cbEnd id => exact sinv_benign h rfl (by constructor <;> simp [stepNorm])
    | notifyIfUp =>
      refine sinv_benign h rfl ?_
      constructor <;> simp only [stepNorm] <;> (try split) <;> simp [Frame.isCbEnd]
    | goUpStart =>
      refine sinv_benign h rfl ?_
      constructor <;> simp [stepNorm, Frame.isCbEnd, Frame.isPass]
    | goUpCont =>
      simp only [stepNorm]
      split
      · refine sinv_benign h rfl ?_
        constructor <;> simp [enterStage2, Frame.isCbEnd, Frame.isPass]
      · refine sinv_benign h rfl ?_
        constructor <;> simp [Frame.isCbEnd]
    | stage2Cont =>
      refine sinv_benign h rfl ?_
      constructor <;> simp [stepNorm, Frame.isCbEnd]
    | quitCont =>
      refine sinv_benign h rfl ?_
      constructor <;> simp [stepNorm, Core.logEv, Frame.isCbEnd, Frame.isPass]
    | ticks n =>
      cases n with
      | zero => exact sinv_benign h rfl (by constructor <;> simp [stepNorm, Frame.isCbEnd])
      | succ n => exact sinv_benign h rfl (benign_doQuit [.ticks n] rfl (by simp [Frame.isPass]))
    | opEnd => exact sinv_benign h rfl (by constructor <;> simp [stepNorm, Frame.isCbEnd])

theorem sinv_step {P : Prog} {m : M} (hc : CoreInv m.core) (h : SInv m) : SInv (step P m) := by
  unfold step
  split
  · exact h
  · rename_i f rest hst
    have h' : SInv ⟨m.core, f :: rest, m.exc⟩ := by rw [← hst]; exact h
    exact sinv_stepTop hc h'

theorem sinv_startOp {m : M} (h : SInv m) (hq : m.stack = []) (o : Op) : SInv (startOp o m) := by
  have hs : Settled m.core := by
    rcases h.settled with hs | ⟨f, hf, _⟩
    · exact hs
    · rw [hq] at hf; cases hf
  cases o with
  | act a => exact ⟨⟨by simp [Frame.isPass], trivial⟩, (fun hx => by cases hx), Or.inl hs⟩
  | goUp => exact ⟨⟨by simp [Frame.isPass], trivial⟩, (fun hx => by cases hx), Or.inl hs⟩
  | tick => exact ⟨⟨by simp [Frame.isPass], trivial⟩, (fun hx => by cases hx), Or.inl (settled_congr rfl rfl hs)⟩

theorem Reach.sinv {P ops m} (h : Reach P ops m) : SInv m := by
  induction h with
  | init => exact ⟨trivial, (fun hx => by cases hx), Or.inl (by intro e he; cases he)⟩
  | op o hr hq ih => exact sinv_startOp ih hq o
  | step hr ih => exact sinv_step hr.coreInv ih

/-- when an operation has returned, no pending waiter is ready -/
theorem Reach.settled {P ops m} (h : Reach P ops m) (hq : m.stack = []) : Settled m.core := by
  rcases h.sinv.settled with hs | ⟨f, hf, _⟩
  · exact hs
  · rw [hq] at hf; cases hf


/-! ## lifecycle -/

def isGoingUp : Ev → Bool
  | .goingUp => true
  | _ => false
def isUp : Ev → Bool
  | .up _ => true
  | _ => false
def isGoingDown : Ev → Bool
  | .goingDown => true
  | _ => false
def isDown : Ev → Bool
  | .down => true
  | _ => false
def isLife (e : Ev) : Bool := isGoingUp e || isUp e || isGoingDown e || isDown e

def Frame.isGoUpStart : Frame → Bool
  | .goUpStart => true
  | _ => false
def Frame.isGoUpCont : Frame → Bool
  | .goUpCont => true
  | _ => false
def Frame.isQuitCont : Frame → Bool
  | .quitCont => true
  | _ => false

/-- every event satisfying `q` is preceded by an event satisfying `p` -/
def Before (p q : Ev → Bool) (log : List Ev) : Prop :=
  ∀ l1 x l2, log = l1 ++ x :: l2 → q x = true → ∃ y ∈ l1, p y = true

theorem before_append {p q : Ev → Bool} {log l : List Ev} (h : Before p q log) (hl : ∀ ev ∈ l, q ev = false) :
    Before p q (log ++ l) := by
  intro l1 x l2 heq hq
  rcases List.append_eq_append_iff.1 heq with ⟨a', h1, h2⟩ | ⟨c', h1, h2⟩
  · have : x ∈ l := by rw [h2]; simp
    rw [hl x this] at hq; cases hq
  · cases c' with
    | nil =>
      have : x ∈ l := by simp at h2; rw [← h2]; simp
      rw [hl x this] at hq; cases hq
    | cons y c'' =>
      simp at h2
      obtain ⟨rfl, _⟩ := h2
      exact h l1 x c'' h1 hq

theorem before_snoc {p q : Ev → Bool} {log : List Ev} {ev : Ev} (h : Before p q log) (hp : ∃ y ∈ log, p y = true) :
    Before p q (log ++ [ev]) := by
  intro l1 x l2 heq hq
  rcases List.append_eq_append_iff.1 heq with ⟨a', h1, h2⟩ | ⟨c', h1, h2⟩
  · obtain ⟨y, hy, hpy⟩ := hp
    exact ⟨y, by rw [h1]; simp [hy], hpy⟩
  · cases c' with
    | nil =>
      obtain ⟨y, hy, hpy⟩ := hp
      exact ⟨y, by simpa [h1] using hy, hpy⟩
    | cons y c'' =>
      simp at h2
      obtain ⟨rfl, _⟩ := h2
      exact h l1 x c'' h1 hq

theorem countP_append_silent {p : Ev → Bool} {log l : List Ev} (hl : ∀ ev ∈ l, p ev = false) :
    (log ++ l).countP p = log.countP p := by
  rw [List.countP_append]
  have : l.countP p = 0 := by
    rw [List.countP_eq_zero]; intro ev hev; simp [hl ev hev]
  omega

theorem exists_of_countP_pos {p : Ev → Bool} {log : List Ev} (h : 0 < log.countP p) : ∃ y ∈ log, p y = true :=
  List.countP_pos_iff.1 h

/-- the lifecycle invariant of the repaired code, for histories that call `goUp` at most `G ≤ 1` times -/
structure LInv (G : Nat) (m : M) : Prop where
  l1 : m.core.log.countP isGoingUp + m.stack.countP Frame.isGoUpStart ≤ G
  l2 : m.stack.countP Frame.isGoUpCont + (if 1 ≤ m.core.stage then 1 else 0) ≤ m.core.log.countP isGoingUp
  l3 : m.core.log.countP isUp = if m.core.stage = 2 then 1 else 0
  l3' : m.core.stage ≤ 2
  l4 : m.core.startingUp = true ↔ m.core.log.countP isGoingUp = 0
  l5 : m.core.log.countP isGoingDown = if m.core.running then 0 else 1
  l6 : m.core.running = false → m.core.startingUp = false
  l7 : m.core.log.countP isDown + m.stack.countP Frame.isQuitCont = m.core.log.countP isGoingDown
  l8 : ∀ k, Ev.up k ∈ m.core.log → k = 0
  l9 : m.core.stage = 1 → m.core.deferrals ≠ []
  o1 : Before isGoingUp isUp m.core.log
  o2 : Before isGoingUp isGoingDown m.core.log
  o3 : Before isGoingDown isDown m.core.log

/-- a step that is invisible to the lifecycle -/
structure Silent (c : Core) (f : Frame) (c' : Core) (fr : List Frame) : Prop where
  su : c'.startingUp = c.startingUp
  ru : c'.running = c.running
  st : c'.stage = c.stage
  df : c.stage = 1 → c.deferrals ≠ [] → c'.deferrals ≠ []
  lg : ∃ l, c'.log = c.log ++ l ∧ ∀ ev ∈ l, isLife ev = false
  ns : fr.countP Frame.isGoUpStart ≤ [f].countP Frame.isGoUpStart
  nc : fr.countP Frame.isGoUpCont ≤ [f].countP Frame.isGoUpCont
  nq : fr.countP Frame.isQuitCont = [f].countP Frame.isQuitCont

theorem isLife_false {ev : Ev} (h : isLife ev = false) :
    isGoingUp ev = false ∧ isUp ev = false ∧ isGoingDown ev = false ∧ isDown ev = false := by
  simp only [isLife, Bool.or_eq_false_iff] at h
  exact ⟨h.1.1.1, h.1.1.2, h.1.2, h.2⟩

theorem linv_silent {G : Nat} {c c' : Core} {f : Frame} {rest fr : List Frame} {x x' : Bool}
    (h : LInv G ⟨c, f :: rest, x⟩) (hs : Silent c f c' fr) : LInv G ⟨c', fr ++ rest, x'⟩ := by
  obtain ⟨l, hl, hlife⟩ := hs.lg
  have e1 : c'.log.countP isGoingUp = c.log.countP isGoingUp := by
    rw [hl]; exact countP_append_silent fun ev hev => (isLife_false (hlife ev hev)).1
  have e2 : c'.log.countP isUp = c.log.countP isUp := by
    rw [hl]; exact countP_append_silent fun ev hev => (isLife_false (hlife ev hev)).2.1
  have e3 : c'.log.countP isGoingDown = c.log.countP isGoingDown := by
    rw [hl]; exact countP_append_silent fun ev hev => (isLife_false (hlife ev hev)).2.2.1
  have e4 : c'.log.countP isDown = c.log.countP isDown := by
    rw [hl]; exact countP_append_silent fun ev hev => (isLife_false (hlife ev hev)).2.2.2
  have h1 := h.l1; have h2 := h.l2; have h7 := h.l7
  have ns := hs.ns; have nc := hs.nc; have nq := hs.nq
  simp only [List.countP_cons, List.countP_nil, Nat.zero_add] at h1 h2 h7 ns nc nq
  constructor
  · show c'.log.countP isGoingUp + (fr ++ rest).countP Frame.isGoUpStart ≤ G
    rw [e1, List.countP_append]; omega
  · show (fr ++ rest).countP Frame.isGoUpCont + (if 1 ≤ c'.stage then 1 else 0) ≤ c'.log.countP isGoingUp
    rw [e1, List.countP_append, hs.st]; omega
  · show c'.log.countP isUp = if c'.stage = 2 then 1 else 0
    rw [e2, hs.st]; exact h.l3
  · show c'.stage ≤ 2
    rw [hs.st]; exact h.l3'
  · show c'.startingUp = true ↔ c'.log.countP isGoingUp = 0
    rw [e1, hs.su]; exact h.l4
  · show c'.log.countP isGoingDown = if c'.running then 0 else 1
    rw [e3, hs.ru]; exact h.l5
  · show c'.running = false → c'.startingUp = false
    rw [hs.ru, hs.su]; exact h.l6
  · show c'.log.countP isDown + (fr ++ rest).countP Frame.isQuitCont = c'.log.countP isGoingDown
    rw [e3, e4, List.countP_append]; omega
  · intro k hk
    have hk' : Ev.up k ∈ c.log ++ l := hl ▸ hk
    rcases List.mem_append.1 hk' with hk' | hk'
    · exact h.l8 k hk'
    · have := (isLife_false (hlife _ hk')).2.1; simp [isUp] at this
  · show c'.stage = 1 → c'.deferrals ≠ []
    rw [hs.st]; exact fun h1' => hs.df h1' (h.l9 h1')
  · show Before isGoingUp isUp c'.log
    rw [hl]; exact before_append h.o1 fun ev hev => (isLife_false (hlife ev hev)).2.1
  · show Before isGoingUp isGoingDown c'.log
    rw [hl]; exact before_append h.o2 fun ev hev => (isLife_false (hlife ev hev)).2.2.1
  · show Before isGoingDown isDown c'.log
    rw [hl]; exact before_append h.o3 fun ev hev => (isLife_false (hlife ev hev)).2.2.2


theorem silent_pop {c : Core} {f : Frame} (hq : f.isQuitCont = false) : Silent c f c [] :=
  ⟨rfl, rfl, rfl, fun _ h => h, ⟨[], by simp, by simp⟩, by simp, by simp, by simp [hq]⟩

theorem silent_log {c : Core} {f : Frame} {ev : Ev} (hq : f.isQuitCont = false) (hev : isLife ev = false)
    (fr : List Frame) (h1 : fr.countP Frame.isGoUpStart = 0) (h2 : fr.countP Frame.isGoUpCont = 0)
    (h3 : fr.countP Frame.isQuitCont = 0) : Silent c f (c.logEv ev) fr :=
  ⟨rfl, rfl, rfl, fun _ h => h, ⟨[ev], rfl, by simpa using hev⟩, by simp [h1], by simp [h2], by simp [h3, hq]⟩

theorem silent_stepExc {P : Prog} {c : Core} {f : Frame} (hq : f.isQuitCont = false) :
    Silent c f (stepExc P c f).1 (stepExc P c f).2.1 := by
  cases f with
  | quitCont => simp [Frame.isQuitCont] at hq
  | cbEnd id => exact silent_log hq (by simp [isLife, isGoingUp, isUp, isGoingDown, isDown]) [] rfl rfl rfl
  | ticks n => exact silent_log hq (by simp [isLife, isGoingUp, isUp, isGoingDown, isDown]) [.ticks n] rfl rfl rfl
  | opEnd => exact silent_log hq (by simp [isLife, isGoingUp, isUp, isGoingDown, isDown]) [] rfl rfl rfl
  | script a => exact silent_pop hq
  | pass a b => exact silent_pop hq
  | notifyIfUp => exact silent_pop hq
  | goUpStart => exact silent_pop hq
  | goUpCont => exact silent_pop hq
  | stage2Cont => exact silent_pop hq

theorem silent_waiterNotify {c : Core} {f : Frame} (hq : f.isQuitCont = false) : Silent c f (waiterNotify c) [] := by
  unfold waiterNotify
  split
  · exact ⟨rfl, rfl, rfl, fun _ h => h, ⟨[], by simp, by simp⟩, by simp, by simp, by simp [hq]⟩
  · exact ⟨rfl, rfl, rfl, fun _ h => h, ⟨[_], rfl, by simp [isLife, isGoingUp, isUp, isGoingDown, isDown]⟩,
      by simp, by simp, by simp [hq]⟩

theorem silent_declareStep {P : Prog} {c : Core} {f : Frame} (deps : List Name) (b : Nat) (tail tail' : List Frame)
    (hf : f.isQuitCont = false)
    (h1 : (tail ++ tail').countP Frame.isGoUpStart = 0) (h2 : (tail ++ tail').countP Frame.isGoUpCont = 0)
    (h3 : (tail ++ tail').countP Frame.isQuitCont = 0) :
    Silent c f (declareStep P c deps b tail).1 ((declareStep P c deps b tail).2.1 ++ tail') := by
  simp only [declareStep]
  split
  · refine ⟨rfl, rfl, rfl, fun _ h => h, ⟨[_], rfl, by simp [isLife, isGoingUp, isUp, isGoingDown, isDown]⟩, ?_, ?_, ?_⟩
    · simp only [List.append_assoc, List.cons_append, List.nil_append, List.countP_cons]; simp [h1, Frame.isGoUpStart]
    · simp only [List.append_assoc, List.cons_append, List.nil_append, List.countP_cons]; simp [h2, Frame.isGoUpCont]
    · rw [show [f].countP Frame.isQuitCont = 0 by simp [hf]]
      simp only [List.append_assoc, List.cons_append, List.nil_append, List.countP_cons]; simp [h3, Frame.isQuitCont]
  · exact ⟨rfl, rfl, rfl, fun _ h => h, ⟨[], by simp, by simp⟩, by simp [h1], by simp [h2], by simp [h3, hf]⟩

theorem silent_stepPass {P : Prog} {c : Core} (snap : List Entry) (ch : Bool) :
    Silent c (.pass snap ch) (stepPass P c snap ch).1 (stepPass P c snap ch).2.1 := by
  unfold stepPass
  split
  · exact ⟨rfl, rfl, rfl, fun _ h => h, ⟨[], by simp, by simp⟩, by simp, by simp, by simp [Frame.isQuitCont]⟩
  · exact ⟨rfl, rfl, rfl, fun _ h => h, ⟨[], by simp, by simp⟩, by simp [Frame.isGoUpStart], by simp [Frame.isGoUpCont],
      by simp [Frame.isQuitCont]⟩
  · split
    · exact ⟨rfl, rfl, rfl, fun _ h => h, ⟨[_], rfl, by simp [isLife, isGoingUp, isUp, isGoingDown, isDown]⟩,
        by simp [Frame.isGoUpStart], by simp [Frame.isGoUpCont], by simp [Frame.isQuitCont]⟩
    · exact ⟨rfl, rfl, rfl, fun _ h => h, ⟨[], by simp, by simp⟩, by simp [Frame.isGoUpStart], by simp [Frame.isGoUpCont],
        by simp [Frame.isQuitCont]⟩

/-- `raiseEvent(GoingUpEvent())` -/
theorem linv_goUpStart {P : Prog} {G : Nat} {c : Core} {rest : List Frame}
    (h : LInv G ⟨c, .goUpStart :: rest, false⟩) :
    LInv G ⟨{ c with startingUp := false, log := c.log ++ [.goingUp] }, [.script P.onGoingUp, .goUpCont] ++ rest, false⟩ := by
  have h1 := h.l1; have h2 := h.l2; have h7 := h.l7
  simp only [List.countP_cons, Frame.isGoUpStart, Frame.isGoUpCont, Frame.isQuitCont] at h1 h2 h7
  constructor
  · simp only [List.countP_append, List.countP_cons, List.countP_nil, isGoingUp, Frame.isGoUpStart, List.cons_append,
      List.nil_append]
    simp at h1 ⊢; omega
  · simp only [List.countP_append, List.countP_cons, List.countP_nil, isGoingUp, Frame.isGoUpCont, List.cons_append,
      List.nil_append]
    simp at h2 ⊢; omega
  · simpa [List.countP_append, isUp] using h.l3
  · exact h.l3'
  · simp [List.countP_append, isGoingUp]
  · simpa [List.countP_append, isGoingDown] using h.l5
  · intro _; rfl
  · simp only [List.countP_append, List.countP_cons, List.countP_nil, isDown, isGoingDown, Frame.isQuitCont,
      List.cons_append, List.nil_append]
    simp at h7 ⊢; omega
  · intro k hk
    have hk' : Ev.up k ∈ c.log ++ [Ev.goingUp] := hk
    simp at hk'; exact h.l8 k hk'
  · exact h.l9
  · exact before_append h.o1 (by simp [isUp])
  · exact before_append h.o2 (by simp [isGoingDown])
  · exact before_append h.o3 (by simp [isDown])

theorem goingUp_logged {G : Nat} {m : M} (h : LInv G m) (hpos : 0 < m.core.log.countP isGoingUp) :
    ∃ y ∈ m.core.log, isGoingUp y = true := exists_of_countP_pos hpos

theorem countP_snoc (p : Ev → Bool) (log : List Ev) (ev : Ev) :
    (log ++ [ev]).countP p = log.countP p + (if p ev then 1 else 0) := by
  simp [List.countP_append, List.countP_cons]

theorem mem_up_snoc {log : List Ev} {ev : Ev} {k : Nat} (h : Ev.up k ∈ log ++ [ev]) : Ev.up k ∈ log ∨ ev = Ev.up k := by
  rcases List.mem_append.1 h with h | h
  · exact Or.inl h
  · exact Or.inr (List.mem_singleton.1 h).symm

/-- `_goUp_stage2` reached through `goUp` or through the release of the last deferral: stage 0/1 → 2, UpEvent logged -/
theorem linv_enterStage2 {P : Prog} {G : Nat} {c : Core} {f : Frame} {rest tail : List Frame} {x : Bool}
    (h : LInv G ⟨c, f :: rest, x⟩) (c1 : Core)
    (hlog : c1.log = c.log) (hsu : c1.startingUp = c.startingUp) (hru : c1.running = c.running)
    (hdef : c1.deferrals = []) (hst : c.stage ≠ 2)
    (hcont : tail.countP Frame.isGoUpCont + rest.countP Frame.isGoUpCont + 1 ≤ c.log.countP isGoingUp)
    (hstart : tail.countP Frame.isGoUpStart = 0)
    (hquit : tail.countP Frame.isQuitCont = (if f.isQuitCont then 1 else 0)) :
    LInv G ⟨(enterStage2 P c1).1, tail ++ rest, false⟩ := by
  have hl : (enterStage2 P c1).1.log = c.log ++ [.up 0] := by simp [enterStage2, hlog, hdef]
  have hs2 : (enterStage2 P c1).1.stage = 2 := rfl
  have hsu' : (enterStage2 P c1).1.startingUp = c.startingUp := hsu
  have hru' : (enterStage2 P c1).1.running = c.running := hru
  have hgu : 0 < c.log.countP isGoingUp := by omega
  have h1 := h.l1; have h3 := h.l3; have h7 := h.l7
  simp only [List.countP_cons] at h1 h7
  rw [if_neg hst] at h3
  constructor
  · show (enterStage2 P c1).1.log.countP isGoingUp + (tail ++ rest).countP Frame.isGoUpStart ≤ G
    rw [hl, countP_snoc, List.countP_append, hstart]; simp only [isGoingUp]; simp; omega
  · show (tail ++ rest).countP Frame.isGoUpCont + (if 1 ≤ (enterStage2 P c1).1.stage then 1 else 0) ≤ _
    rw [hl, countP_snoc, List.countP_append, hs2]; simp only [isGoingUp]; simp; omega
  · show (enterStage2 P c1).1.log.countP isUp = if (enterStage2 P c1).1.stage = 2 then 1 else 0
    rw [hl, countP_snoc, hs2, h3]; simp [isUp]
  · show (enterStage2 P c1).1.stage ≤ 2
    rw [hs2]; exact Nat.le_refl 2
  · show (enterStage2 P c1).1.startingUp = true ↔ (enterStage2 P c1).1.log.countP isGoingUp = 0
    rw [hl, countP_snoc, hsu']; simp only [isGoingUp]; simpa using h.l4
  · show (enterStage2 P c1).1.log.countP isGoingDown = if (enterStage2 P c1).1.running then 0 else 1
    rw [hl, countP_snoc, hru']; simp only [isGoingDown]; simpa using h.l5
  · show (enterStage2 P c1).1.running = false → (enterStage2 P c1).1.startingUp = false
    rw [hru', hsu']; exact h.l6
  · show (enterStage2 P c1).1.log.countP isDown + (tail ++ rest).countP Frame.isQuitCont = (enterStage2 P c1).1.log.countP isGoingDown
    rw [hl, countP_snoc, countP_snoc, List.countP_append, hquit]; simp only [isDown, isGoingDown]; simp; omega
  · intro k hk
    have hk' : Ev.up k ∈ c.log ++ [Ev.up 0] := hl ▸ hk
    rcases mem_up_snoc hk' with hk' | hk'
    · exact h.l8 k hk'
    · injection hk' with hk'; exact hk'.symm
  · show (enterStage2 P c1).1.stage = 1 → _
    rw [hs2]; intro hh; cases hh
  · show Before isGoingUp isUp (enterStage2 P c1).1.log
    rw [hl]; exact before_snoc h.o1 (exists_of_countP_pos hgu)
  · show Before isGoingUp isGoingDown (enterStage2 P c1).1.log
    rw [hl]; exact before_append h.o2 (by simp [isGoingDown])
  · show Before isGoingDown isDown (enterStage2 P c1).1.log
    rw [hl]; exact before_append h.o3 (by simp [isDown])

/-- `_quit` past its guards: GoingDownEvent -/
theorem linv_goDown {P : Prog} {G : Nat} {c : Core} {f : Frame} {rest tail : List Frame} {x : Bool}
    (h : LInv G ⟨c, f :: rest, x⟩) (hrun : c.running = true) (hsu : c.startingUp = false)
    (hf1 : f.isGoUpStart = false) (hf2 : f.isGoUpCont = false) (hf3 : f.isQuitCont = false)
    (ht1 : tail.countP Frame.isGoUpStart = 0) (ht2 : tail.countP Frame.isGoUpCont = 0) (ht3 : tail.countP Frame.isQuitCont = 0) :
    LInv G ⟨{ c with running := false, log := c.log ++ [.goingDown] },
            ([.script P.onGoingDown, .quitCont] ++ tail) ++ rest, false⟩ := by
  have h1 := h.l1; have h2 := h.l2; have h7 := h.l7; have h5 := h.l5; have h4 := h.l4
  simp only [List.countP_cons, hf1, hf2, hf3] at h1 h2 h7
  rw [hrun] at h5
  have hgu : 0 < c.log.countP isGoingUp := by
    rcases Nat.eq_zero_or_pos (c.log.countP isGoingUp) with h0 | hp
    · have := h4.2 h0; rw [hsu] at this; cases this
    · exact hp
  have hS : (([Frame.script P.onGoingDown, Frame.quitCont] ++ tail) ++ rest).countP Frame.isGoUpStart = rest.countP Frame.isGoUpStart := by
    rw [List.countP_append, List.countP_append, ht1]
    have : [Frame.script P.onGoingDown, Frame.quitCont].countP Frame.isGoUpStart = 0 := rfl
    omega
  have hC : (([Frame.script P.onGoingDown, Frame.quitCont] ++ tail) ++ rest).countP Frame.isGoUpCont = rest.countP Frame.isGoUpCont := by
    rw [List.countP_append, List.countP_append, ht2]
    have : [Frame.script P.onGoingDown, Frame.quitCont].countP Frame.isGoUpCont = 0 := rfl
    omega
  have hQ : (([Frame.script P.onGoingDown, Frame.quitCont] ++ tail) ++ rest).countP Frame.isQuitCont = rest.countP Frame.isQuitCont + 1 := by
    rw [List.countP_append, List.countP_append, ht3]
    have : [Frame.script P.onGoingDown, Frame.quitCont].countP Frame.isQuitCont = 1 := rfl
    omega
  constructor
  · show (c.log ++ [Ev.goingDown]).countP isGoingUp + _ ≤ G
    rw [hS, countP_snoc]; simp only [isGoingUp]; simp at h1 ⊢; omega
  · show _ + (if 1 ≤ c.stage then 1 else 0) ≤ (c.log ++ [Ev.goingDown]).countP isGoingUp
    rw [hC, countP_snoc]; simp only [isGoingUp]; simp at h2 ⊢; omega
  · show (c.log ++ [Ev.goingDown]).countP isUp = _
    rw [countP_snoc]; simp only [isUp]; simpa using h.l3
  · exact h.l3'
  · show c.startingUp = true ↔ (c.log ++ [Ev.goingDown]).countP isGoingUp = 0
    rw [countP_snoc]; simp only [isGoingUp]; simpa using h.l4
  · show (c.log ++ [Ev.goingDown]).countP isGoingDown = if false then 0 else 1
    rw [countP_snoc]; simp only [isGoingDown]; simp at h5 ⊢; omega
  · intro _; exact hsu
  · show (c.log ++ [Ev.goingDown]).countP isDown + _ = (c.log ++ [Ev.goingDown]).countP isGoingDown
    rw [hQ, countP_snoc, countP_snoc]; simp only [isDown, isGoingDown]; simp at h7 ⊢; omega
  · intro k hk
    have hk' : Ev.up k ∈ c.log ++ [Ev.goingDown] := hk
    rcases mem_up_snoc hk' with hk' | hk'
    · exact h.l8 k hk'
    · cases hk'
  · exact h.l9
  · exact before_append h.o1 (by simp [isUp])
  · exact before_snoc h.o2 (exists_of_countP_pos hgu)
  · exact before_append h.o3 (by simp [isDown])

/-- `_quit` after the `try` around GoingDownEvent: DownEvent -/
theorem linv_quitCont {P : Prog} {G : Nat} {c : Core} {rest : List Frame} {x : Bool}
    (h : LInv G ⟨c, .quitCont :: rest, x⟩) : LInv G ⟨c.logEv .down, [.script P.onDown] ++ rest, false⟩ := by
  have h1 := h.l1; have h2 := h.l2; have h7 := h.l7
  simp only [List.countP_cons, Frame.isGoUpStart, Frame.isGoUpCont, Frame.isQuitCont] at h1 h2 h7
  have hgd : 0 < c.log.countP isGoingDown := by simp at h7; omega
  have hS : ([Frame.script P.onDown] ++ rest).countP Frame.isGoUpStart = rest.countP Frame.isGoUpStart := by
    simp [List.countP_cons, Frame.isGoUpStart]
  have hC : ([Frame.script P.onDown] ++ rest).countP Frame.isGoUpCont = rest.countP Frame.isGoUpCont := by
    simp [List.countP_cons, Frame.isGoUpCont]
  have hQ : ([Frame.script P.onDown] ++ rest).countP Frame.isQuitCont = rest.countP Frame.isQuitCont := by
    simp [List.countP_cons, Frame.isQuitCont]
  constructor
  · show (c.log ++ [Ev.down]).countP isGoingUp + _ ≤ G
    rw [hS, countP_snoc]; simp only [isGoingUp]; simp at h1 ⊢; omega
  · show _ + (if 1 ≤ c.stage then 1 else 0) ≤ (c.log ++ [Ev.down]).countP isGoingUp
    rw [hC, countP_snoc]; simp only [isGoingUp]; simp at h2 ⊢; omega
  · show (c.log ++ [Ev.down]).countP isUp = if c.stage = 2 then 1 else 0
    rw [countP_snoc]; simp only [isUp]; simpa using h.l3
  · exact h.l3'
  · show c.startingUp = true ↔ (c.log ++ [Ev.down]).countP isGoingUp = 0
    rw [countP_snoc]; simp only [isGoingUp]; simpa using h.l4
  · show (c.log ++ [Ev.down]).countP isGoingDown = if c.running then 0 else 1
    rw [countP_snoc]; simp only [isGoingDown]; simpa using h.l5
  · exact h.l6
  · show (c.log ++ [Ev.down]).countP isDown + _ = (c.log ++ [Ev.down]).countP isGoingDown
    rw [hQ, countP_snoc, countP_snoc]; simp only [isDown, isGoingDown]; simp at h7 ⊢; omega
  · intro k hk
    have hk' : Ev.up k ∈ c.log ++ [Ev.down] := hk
    rcases mem_up_snoc hk' with hk' | hk'
    · exact h.l8 k hk'
    · cases hk'
  · exact h.l9
  · exact before_append h.o1 (by simp [isUp])
  · exact before_append h.o2 (by simp [isGoingDown])
  · exact before_snoc h.o3 (exists_of_countP_pos hgd)


/-- `goUp` after GoingUp has been delivered while a deferral is outstanding: stage 0 → 1 -/
theorem linv_stage1 {G : Nat} {c : Core} {rest : List Frame}
    (h : LInv G ⟨c, .goUpCont :: rest, false⟩) (hst : c.stage = 0) (hdef : c.deferrals ≠ []) :
    LInv G ⟨{ c with stage := 1 }, rest, false⟩ := by
  have h1 := h.l1; have h2 := h.l2; have h7 := h.l7; have h3 := h.l3
  simp only [List.countP_cons, Frame.isGoUpStart, Frame.isGoUpCont, Frame.isQuitCont] at h1 h2 h7
  constructor
  · show c.log.countP isGoingUp + rest.countP Frame.isGoUpStart ≤ G
    simp at h1; omega
  · show rest.countP Frame.isGoUpCont + (if 1 ≤ 1 then 1 else 0) ≤ c.log.countP isGoingUp
    simp [hst] at h2 ⊢; omega
  · show c.log.countP isUp = if 1 = 2 then 1 else 0
    simp [hst] at h3 ⊢; exact h3
  · show 1 ≤ 2
    omega
  · exact h.l4
  · exact h.l5
  · exact h.l6
  · show c.log.countP isDown + rest.countP Frame.isQuitCont = c.log.countP isGoingDown
    simp at h7; omega
  · exact h.l8
  · intro _; exact hdef
  · exact h.o1
  · exact h.o2
  · exact h.o3

theorem linv_doQuit {P : Prog} {G : Nat} {c : Core} {f : Frame} {rest tail : List Frame}
    (h : LInv G ⟨c, f :: rest, false⟩)
    (hf1 : f.isGoUpStart = false) (hf2 : f.isGoUpCont = false) (hf3 : f.isQuitCont = false)
    (ht1 : tail.countP Frame.isGoUpStart = 0) (ht2 : tail.countP Frame.isGoUpCont = 0) (ht3 : tail.countP Frame.isQuitCont = 0) :
    LInv G ⟨(doQuit P c).1, ((doQuit P c).2 ++ tail) ++ rest, false⟩ := by
  unfold doQuit
  split
  · exact linv_silent h ⟨rfl, rfl, rfl, fun _ h => h, ⟨[], by simp, by simp⟩, by simp [ht1], by simp [ht2], by simp [ht3, hf3]⟩
  · split
    · exact linv_silent h ⟨rfl, rfl, rfl, fun _ h => h, ⟨[], by simp, by simp⟩, by simp [ht1], by simp [ht2], by simp [ht3, hf3]⟩
    · rename_i hr hs
      exact linv_goDown h (by simpa using hr) (by simpa using hs) hf1 hf2 hf3 ht1 ht2 ht3

theorem linv_stepAct {P : Prog} {G : Nat} {c : Core} {a : Act} {as : List Act} {rest : List Frame}
    (hP : P.repaired = true) (h : LInv G ⟨c, .script (a :: as) :: rest, false⟩) :
    LInv G ⟨(stepAct P c a).1, ((stepAct P c a).2.1 ++ [.script as]) ++ rest, (stepAct P c a).2.2⟩ := by
  cases a with
  | register n =>
    exact linv_silent h ⟨rfl, rfl, rfl, fun _ h => h, ⟨[], by simp [stepAct], by simp⟩,
      by simp [stepAct, Frame.isGoUpStart], by simp [stepAct, Frame.isGoUpCont], by simp [stepAct, Frame.isQuitCont]⟩
  | declare deps b => exact linv_silent h (silent_declareStep deps b [] [.script as] rfl rfl rfl rfl)
  | listen deps b => exact linv_silent h (silent_declareStep deps b [.notifyIfUp] [.script as] rfl rfl rfl rfl)
  | getDeferral =>
    exact linv_silent h ⟨rfl, rfl, rfl, fun _ _ => by simp [stepAct], ⟨[], by simp [stepAct], by simp⟩,
      by simp [stepAct, Frame.isGoUpStart], by simp [stepAct, Frame.isGoUpCont], by simp [stepAct, Frame.isQuitCont]⟩
  | raise =>
    exact linv_silent h ⟨rfl, rfl, rfl, fun _ h => h, ⟨[], by simp [stepAct], by simp⟩,
      by simp [stepAct, Frame.isGoUpStart], by simp [stepAct, Frame.isGoUpCont], by simp [stepAct, Frame.isQuitCont]⟩
  | quit =>
    simp only [stepAct]
    split
    · exact linv_silent h ⟨rfl, rfl, rfl, fun _ h => h, ⟨[], by simp, by simp⟩,
        by simp [Frame.isGoUpStart], by simp [Frame.isGoUpCont], by simp [Frame.isQuitCont]⟩
    · exact linv_doQuit h rfl rfl rfl rfl rfl rfl
  | release k =>
    simp only [stepAct]
    split
    · exact linv_silent h ⟨rfl, rfl, rfl, fun _ h => h, ⟨[], by simp, by simp⟩,
        by simp [Frame.isGoUpStart], by simp [Frame.isGoUpCont], by simp [Frame.isQuitCont]⟩
    · split
      · exact linv_silent h ⟨rfl, rfl, rfl, fun _ h => h, ⟨[], by simp, by simp⟩,
          by simp [Frame.isGoUpStart], by simp [Frame.isGoUpCont], by simp [Frame.isQuitCont]⟩
      · split
        · rename_i hcond
          simp only [stageOpen, hP, Bool.not_true, Bool.false_or, Bool.and_eq_true, List.isEmpty_iff, beq_iff_eq] at hcond
          have h2 := h.l2
          simp only [List.countP_cons, Frame.isGoUpCont, hcond.2] at h2
          refine linv_enterStage2 (P := P) (tail := [.script P.onUp, .stage2Cont, .script as]) h _ rfl rfl rfl hcond.1
            (by rw [hcond.2]; decide) ?_ rfl rfl
          have : [Frame.script P.onUp, Frame.stage2Cont, Frame.script as].countP Frame.isGoUpCont = 0 := rfl
          simp at h2; omega
        · rename_i hcond
          refine linv_silent h ⟨rfl, rfl, rfl, ?_, ⟨[], by simp, by simp⟩,
            by simp [Frame.isGoUpStart], by simp [Frame.isGoUpCont], by simp [Frame.isQuitCont]⟩
          intro hst _ hempty
          apply hcond
          have he : c.deferrals.erase k = [] := hempty
          simp [stageOpen, hP, hst, he]

theorem linv_stepTop {P : Prog} {G : Nat} {c : Core} {f : Frame} {rest : List Frame} {x : Bool}
    (hP : P.repaired = true) (hG : G ≤ 1) (h : LInv G ⟨c, f :: rest, x⟩) :
    LInv G ⟨(stepTop P c x f).1, (stepTop P c x f).2.1 ++ rest, (stepTop P c x f).2.2⟩ := by
  unfold stepTop
  split
  · cases f with
    | quitCont => exact linv_quitCont h
    | script a => exact linv_silent h (silent_stepExc rfl)
    | pass a b => exact linv_silent h (silent_stepExc rfl)
    | cbEnd a => exact linv_silent h (silent_stepExc rfl)
    | notifyIfUp => exact linv_silent h (silent_stepExc rfl)
    | goUpStart => exact linv_silent h (silent_stepExc rfl)
    | goUpCont => exact linv_silent h (silent_stepExc rfl)
    | stage2Cont => exact linv_silent h (silent_stepExc rfl)
    | ticks n => exact linv_silent h (silent_stepExc rfl)
    | opEnd => exact linv_silent h (silent_stepExc rfl)
  · rename_i hx
    have hx : x = false := by simpa using hx
    subst hx
    cases f with
    | script acts =>
      cases acts with
      | nil => exact linv_silent h (silent_pop rfl)
      | cons a as => exact linv_stepAct hP h
    | pass snap ch => exact linv_silent h (silent_stepPass snap ch)
    | cbEnd id => exact linv_silent h (silent_pop rfl)
    | notifyIfUp =>
      simp only [stepNorm]
      split
      · exact linv_silent h (silent_pop rfl)
      · exact linv_silent h (silent_waiterNotify rfl)
    | goUpStart => exact linv_goUpStart h
    | goUpCont =>
      have h1 := h.l1; have h2 := h.l2
      simp only [List.countP_cons, Frame.isGoUpStart, Frame.isGoUpCont] at h1 h2
      have hst : c.stage = 0 := by
        rcases Nat.eq_zero_or_pos c.stage with h0 | hp
        · exact h0
        · have : (1 ≤ c.stage) := hp
          simp [this] at h2; simp at h1; omega
      simp only [stepNorm]
      split
      · rename_i hemp
        refine linv_enterStage2 (P := P) (tail := [.script P.onUp, .stage2Cont]) h { c with stage := 1 } rfl rfl rfl
          (by simpa using hemp) (by rw [hst]; decide) ?_ rfl rfl
        have : [Frame.script P.onUp, Frame.stage2Cont].countP Frame.isGoUpCont = 0 := rfl
        simp [hst] at h2; omega
      · rename_i hemp
        exact linv_stage1 h hst (by simpa using hemp)
    | stage2Cont => exact linv_silent h (silent_waiterNotify rfl)
    | quitCont => exact linv_quitCont h
    | ticks n =>
      cases n with
      | zero => exact linv_silent h (silent_pop rfl)
      | succ n => exact linv_doQuit (tail := [.ticks n]) h rfl rfl rfl rfl rfl rfl
    | opEnd => exact linv_silent h (silent_pop rfl)

theorem linv_step {P : Prog} {G : Nat} {m : M} (hP : P.repaired = true) (hG : G ≤ 1) (h : LInv G m) : LInv G (step P m) := by
  unfold step
  split
  · exact h
  · rename_i f rest hst
    have h' : LInv G ⟨m.core, f :: rest, m.exc⟩ := by rw [← hst]; exact h
    exact linv_stepTop hP hG h'

theorem linv_init : LInv 0 {} := by
  constructor <;> simp [Before]

theorem linv_startOp {G : Nat} {m : M} (h : LInv G m) (hq : m.stack = []) (o : Op) :
    LInv (G + (if o = .goUp then 1 else 0)) (startOp o m) := by
  have h1 := h.l1; have h2 := h.l2; have h7 := h.l7
  rw [hq] at h1 h2 h7
  simp only [List.countP_nil, Nat.add_zero, Nat.zero_add] at h1 h2 h7
  cases o with
  | act a =>
    have e : (if Op.act a = Op.goUp then 1 else 0) = 0 := by simp
    rw [e]
    have s1 : [Frame.script [a], Frame.opEnd].countP Frame.isGoUpStart = 0 := rfl
    have s2 : [Frame.script [a], Frame.opEnd].countP Frame.isGoUpCont = 0 := rfl
    have s3 : [Frame.script [a], Frame.opEnd].countP Frame.isQuitCont = 0 := rfl
    refine ⟨?_, ?_, h.l3, h.l3', h.l4, h.l5, h.l6, ?_, h.l8, h.l9, h.o1, h.o2, h.o3⟩
    · show m.core.log.countP isGoingUp + [Frame.script [a], Frame.opEnd].countP Frame.isGoUpStart ≤ G + 0
      omega
    · show [Frame.script [a], Frame.opEnd].countP Frame.isGoUpCont + (if 1 ≤ m.core.stage then 1 else 0) ≤ m.core.log.countP isGoingUp
      omega
    · show m.core.log.countP isDown + [Frame.script [a], Frame.opEnd].countP Frame.isQuitCont = m.core.log.countP isGoingDown
      omega
  | goUp =>
    have e : (if Op.goUp = Op.goUp then 1 else 0) = 1 := by simp
    rw [e]
    have s1 : [Frame.goUpStart, Frame.opEnd].countP Frame.isGoUpStart = 1 := rfl
    have s2 : [Frame.goUpStart, Frame.opEnd].countP Frame.isGoUpCont = 0 := rfl
    have s3 : [Frame.goUpStart, Frame.opEnd].countP Frame.isQuitCont = 0 := rfl
    refine ⟨?_, ?_, h.l3, h.l3', h.l4, h.l5, h.l6, ?_, h.l8, h.l9, h.o1, h.o2, h.o3⟩
    · show m.core.log.countP isGoingUp + [Frame.goUpStart, Frame.opEnd].countP Frame.isGoUpStart ≤ G + 1
      omega
    · show [Frame.goUpStart, Frame.opEnd].countP Frame.isGoUpCont + (if 1 ≤ m.core.stage then 1 else 0) ≤ m.core.log.countP isGoingUp
      omega
    · show m.core.log.countP isDown + [Frame.goUpStart, Frame.opEnd].countP Frame.isQuitCont = m.core.log.countP isGoingDown
      omega
  | tick =>
    have e : (if Op.tick = Op.goUp then 1 else 0) = 0 := by simp
    rw [e]
    have s1 : [Frame.ticks m.core.pendingQuit, Frame.opEnd].countP Frame.isGoUpStart = 0 := rfl
    have s2 : [Frame.ticks m.core.pendingQuit, Frame.opEnd].countP Frame.isGoUpCont = 0 := rfl
    have s3 : [Frame.ticks m.core.pendingQuit, Frame.opEnd].countP Frame.isQuitCont = 0 := rfl
    refine ⟨?_, ?_, h.l3, h.l3', h.l4, h.l5, h.l6, ?_, h.l8, h.l9, h.o1, h.o2, h.o3⟩
    · show m.core.log.countP isGoingUp + [Frame.ticks m.core.pendingQuit, Frame.opEnd].countP Frame.isGoUpStart ≤ G + 0
      omega
    · show [Frame.ticks m.core.pendingQuit, Frame.opEnd].countP Frame.isGoUpCont + (if 1 ≤ m.core.stage then 1 else 0) ≤ m.core.log.countP isGoingUp
      omega
    · show m.core.log.countP isDown + [Frame.ticks m.core.pendingQuit, Frame.opEnd].countP Frame.isQuitCont = m.core.log.countP isGoingDown
      omega

theorem Reach.linv {P ops m} (h : Reach P ops m) (hP : P.repaired = true) (hG : ops.count .goUp ≤ 1) :
    LInv (ops.count .goUp) m := by
  induction h with
  | init => exact linv_init
  | @op ops m o hr hq ih =>
    have hc : (ops ++ [o]).count .goUp = ops.count .goUp + (if o = .goUp then 1 else 0) := by
      rw [List.count_append]
      by_cases ho : o = .goUp <;> simp [ho]
    rw [hc] at hG ⊢
    exact linv_startOp (ih (by omega)) hq o
  | step hr ih => exact linv_step hP hG (ih hG)


/-! ## what one step adds to the log -/

def isOpRaised : Ev → Bool
  | .opRaised => true
  | _ => false

/-- the events a step appends: a callback invocation records the registry as it is at that moment; `opRaised` is recorded
only by the bottom frame of an operation when an exception reaches it -/
structure LogStep (c : Core) (x : Bool) (f : Frame) (c' : Core) : Prop where
  ext : ∃ l, c'.log = c.log ++ l ∧ (∀ id snap, Ev.fired id snap ∈ l → snap = c.comps) ∧
        (Ev.opRaised ∈ l → f = .opEnd ∧ x = true)

theorem logStep_same {c : Core} {x : Bool} {f : Frame} {c' : Core} (h : c'.log = c.log) : LogStep c x f c' :=
  ⟨[], by simp [h], by simp, by simp⟩

theorem logStep_one {c : Core} {x : Bool} {f : Frame} {c' : Core} {ev : Ev} (h : c'.log = c.log ++ [ev])
    (h1 : ∀ id snap, ev = Ev.fired id snap → snap = c.comps) (h2 : ev = .opRaised → f = .opEnd ∧ x = true) :
    LogStep c x f c' :=
  ⟨[ev], h, by intro id snap hm; exact h1 id snap (List.mem_singleton.1 hm).symm,
   by intro hm; exact h2 (List.mem_singleton.1 hm).symm⟩

theorem logStep_waiterNotify {c : Core} {x : Bool} {f : Frame} : LogStep c x f (waiterNotify c) := by
  unfold waiterNotify; split
  · exact logStep_same rfl
  · exact logStep_one rfl (by simp) (by simp)

theorem logStep_doQuit {P : Prog} {c : Core} {x : Bool} {f : Frame} : LogStep c x f (doQuit P c).1 := by
  unfold doQuit; split
  · exact logStep_same rfl
  · split
    · exact logStep_same rfl
    · exact logStep_one rfl (by simp) (by simp)

theorem logStep_declareStep {P : Prog} {c : Core} {x : Bool} {f : Frame} (deps : List Name) (b : Nat) (tail : List Frame) :
    LogStep c x f (declareStep P c deps b tail).1 := by
  simp only [declareStep]; split
  · exact logStep_one (ev := .fired c.nextId c.comps) rfl (by intro id snap h; injection h with _ h2; exact h2.symm) (by simp)
  · exact logStep_same rfl

theorem logStep_stepAct {P : Prog} {c : Core} {x : Bool} {f : Frame} (a : Act) : LogStep c x f (stepAct P c a).1 := by
  cases a with
  | register n => exact logStep_same rfl
  | declare deps b => exact logStep_declareStep deps b []
  | listen deps b => exact logStep_declareStep deps b [.notifyIfUp]
  | getDeferral => exact logStep_same rfl
  | raise => exact logStep_same rfl
  | quit =>
    simp only [stepAct]; split
    · exact logStep_same rfl
    · exact logStep_doQuit
  | release k =>
    simp only [stepAct]; split
    · exact logStep_same rfl
    · split
      · exact logStep_same rfl
      · split
        · exact logStep_one (ev := .up (c.deferrals.erase k).length) rfl (by simp) (by simp)
        · exact logStep_same rfl

theorem logStep_stepTop {P : Prog} {c : Core} (x : Bool) (f : Frame) : LogStep c x f (stepTop P c x f).1 := by
  unfold stepTop
  split
  · rename_i hx
    cases f with
    | cbEnd id => exact logStep_one rfl (by simp) (by simp)
    | quitCont => exact logStep_one rfl (by simp) (by simp)
    | ticks n => exact logStep_one rfl (by simp) (by simp)
    | opEnd => exact logStep_one rfl (by simp) (by simp [hx])
    | script a => exact logStep_same rfl
    | pass a b => exact logStep_same rfl
    | notifyIfUp => exact logStep_same rfl
    | goUpStart => exact logStep_same rfl
    | goUpCont => exact logStep_same rfl
    | stage2Cont => exact logStep_same rfl
  · cases f with
    | script acts =>
      cases acts with
      | nil => exact logStep_same rfl
      | cons a as => exact logStep_stepAct a
    | pass snap ch =>
      simp only [stepNorm]
      unfold stepPass
      split
      · exact logStep_same rfl
      · exact logStep_same rfl
      · split
        · exact logStep_one (ev := .fired _ c.comps) rfl (by intro id snap h; injection h with _ h2; exact h2.symm) (by simp)
        · exact logStep_same rfl
    | cbEnd id => exact logStep_same rfl
    | notifyIfUp =>
      simp only [stepNorm]; split
      · exact logStep_same rfl
      · exact logStep_waiterNotify
    | goUpStart => exact logStep_one (ev := .goingUp) rfl (by simp) (by simp)
    | goUpCont =>
      simp only [stepNorm]; split
      · exact logStep_one (ev := .up c.deferrals.length) rfl (by simp) (by simp)
      · exact logStep_same rfl
    | stage2Cont => exact logStep_waiterNotify
    | quitCont => exact logStep_one (ev := .down) rfl (by simp) (by simp)
    | ticks n =>
      cases n with
      | zero => exact logStep_same rfl
      | succ n => exact logStep_doQuit
    | opEnd => exact logStep_same rfl


/-! ## `goUp` delivers GoingUp or raises -/

@[simp] theorem waiterNotify_stage (c : Core) : (waiterNotify c).stage = c.stage := by
  unfold waiterNotify; split <;> rfl

theorem stage_pos_doQuit {P : Prog} {c : Core} (h : 1 ≤ c.stage) : 1 ≤ (doQuit P c).1.stage := by
  unfold doQuit; split
  · exact h
  · split <;> exact h

theorem stage_pos_stepAct {P : Prog} {c : Core} (h : 1 ≤ c.stage) (a : Act) : 1 ≤ (stepAct P c a).1.stage := by
  cases a with
  | register n => exact h
  | declare deps b => simp only [stepAct, declareStep]; split <;> exact h
  | listen deps b => simp only [stepAct, declareStep]; split <;> exact h
  | getDeferral => exact h
  | raise => exact h
  | quit =>
    simp only [stepAct]; split
    · exact h
    · exact stage_pos_doQuit h
  | release k =>
    simp only [stepAct]; split
    · exact h
    · split
      · exact h
      · split
        · show 1 ≤ 2; omega
        · exact h

theorem stage_pos_stepTop {P : Prog} {c : Core} (h : 1 ≤ c.stage) (x : Bool) (f : Frame) : 1 ≤ (stepTop P c x f).1.stage := by
  unfold stepTop
  split
  · cases f <;> exact h
  · cases f with
    | script acts =>
      cases acts with
      | nil => exact h
      | cons a as => exact stage_pos_stepAct h a
    | pass snap ch =>
      simp only [stepNorm]; unfold stepPass
      split
      · exact h
      · exact h
      · split <;> exact h
    | cbEnd id => exact h
    | notifyIfUp => simp only [stepNorm]; split; exact h; simpa using h
    | goUpStart => exact h
    | goUpCont =>
      simp only [stepNorm]; split
      · show 1 ≤ 2; omega
      · show 1 ≤ 1; omega
    | stage2Cont => simpa [stepNorm] using h
    | quitCont => exact h
    | ticks n =>
      cases n with
      | zero => exact h
      | succ n => exact stage_pos_doQuit h
    | opEnd => exact h

/-- progress of a `goUp()` call: not yet at the raise, inside GoingUp delivery, delivered (stage ≥ 1), unwinding to the caller,
or returned to the caller with an exception -/
def GoUpProgress (m : M) : Prop :=
  (m.stack = [.goUpStart, .opEnd] ∧ m.exc = false) ∨ (∃ upper, m.stack = upper ++ [.goUpCont, .opEnd]) ∨
  1 ≤ m.core.stage ∨ (m.exc = true ∧ m.stack = [.opEnd]) ∨ (m.stack = [] ∧ m.core.log.getLast? = some .opRaised)

theorem goUpProgress_step {P : Prog} {m : M} (h : GoUpProgress m) : GoUpProgress (step P m) := by
  obtain ⟨c, st, x⟩ := m
  rcases h with ⟨hst, hx⟩ | ⟨upper, hst⟩ | hs | ⟨hx, hst⟩ | ⟨hst, hl⟩
  · simp only at hst hx; subst hst hx
    right; left
    exact ⟨[.script P.onGoingUp], by simp [step, stepTop, stepNorm]⟩
  · simp only at hst; subst hst
    cases upper with
    | nil =>
      cases x with
      | true => right; right; right; left; simp [step, stepTop, stepExc]
      | false =>
        right; right; left
        show 1 ≤ (stepTop P c false .goUpCont).1.stage
        simp only [stepTop, stepNorm, Bool.false_eq_true, ↓reduceIte]
        split
        · show 1 ≤ 2; omega
        · show 1 ≤ 1; omega
    | cons f u =>
      right; left
      exact ⟨(stepTop P c x f).2.1 ++ u, by simp [step, List.append_assoc]⟩
  · right; right; left
    cases st with
    | nil => exact hs
    | cons f rest => exact stage_pos_stepTop hs x f
  · simp only at hx hst; subst hx hst
    right; right; right; right
    simp [step, stepTop, stepExc, Core.logEv]
  · simp only at hst; subst hst
    right; right; right; right
    exact ⟨rfl, hl⟩

theorem goUpProgress_run {P : Prog} (n : Nat) {m : M} (h : GoUpProgress m) : GoUpProgress (run P n m) := by
  induction n generalizing m with
  | zero => exact h
  | succ n ih =>
    unfold Pox.Core.run
    split
    · exact h
    · exact ih (goUpProgress_step h)


/-! ## `register`, `call_when_ready`, `listen_to_dependencies` never raise to their caller -/

def Act.isRendezvous : Act → Bool
  | .register _ => true
  | .declare _ _ => true
  | .listen _ _ => true
  | _ => false

/-- what is left of the operation's own code below the callbacks it runs: nothing in it can raise -/
inductive Base : List Frame → Prop
  | nil : Base []
  | script : Base [.script []]
  | notify : Base [.notifyIfUp, .script []]
  | pass (s : List Entry) (ch : Bool) : Base [.pass s ch, .script []]

theorem noOpEnd_doQuit {P : Prog} {c : Core} : ∀ g ∈ (doQuit P c).2, g ≠ Frame.opEnd := by
  unfold doQuit; split
  · simp
  · split <;> simp

theorem noOpEnd_stepAct {P : Prog} {c : Core} (a : Act) : ∀ g ∈ (stepAct P c a).2.1, g ≠ Frame.opEnd := by
  cases a with
  | register n => simp [stepAct]
  | declare deps b => simp only [stepAct, declareStep]; split <;> simp
  | listen deps b => simp only [stepAct, declareStep]; split <;> simp
  | getDeferral => simp [stepAct]
  | raise => simp [stepAct]
  | quit =>
    simp only [stepAct]; split
    · simp
    · exact noOpEnd_doQuit
  | release k =>
    simp only [stepAct]; split
    · simp
    · split
      · simp
      · split <;> simp [enterStage2]

/-- the bottom frame of an operation is never pushed by a step -/
theorem noOpEnd_stepTop {P : Prog} {c : Core} (x : Bool) (f : Frame) : ∀ g ∈ (stepTop P c x f).2.1, g ≠ Frame.opEnd := by
  unfold stepTop
  split
  · cases f <;> simp [stepExc]
  · cases f with
    | script acts =>
      cases acts with
      | nil => simp [stepNorm]
      | cons a as =>
        intro g hg
        simp only [stepNorm, List.mem_append, List.mem_singleton] at hg
        rcases hg with hg | rfl
        · exact noOpEnd_stepAct a g hg
        · simp
    | pass snap ch =>
      simp only [stepNorm]; unfold stepPass
      split
      · simp
      · simp
      · split <;> simp
    | cbEnd id => simp [stepNorm]
    | notifyIfUp => simp [stepNorm]
    | goUpStart => simp [stepNorm]
    | goUpCont => simp only [stepNorm]; split <;> simp [enterStage2]
    | stage2Cont => simp [stepNorm]
    | quitCont => simp [stepNorm]
    | ticks n =>
      cases n with
      | zero => simp [stepNorm]
      | succ n =>
        intro g hg
        simp only [stepNorm, List.mem_append, List.mem_singleton] at hg
        rcases hg with hg | rfl
        · exact noOpEnd_doQuit g hg
        · simp
    | opEnd => simp [stepNorm]

/-- every piece of user code on the stack runs inside the `try` of a callback (`cbEnd` below it) -/
def Guarded (m : M) : Prop :=
  m.stack = [] ∨
  (∃ a, a.isRendezvous = true ∧ m.stack = [.script [a], .opEnd] ∧ m.exc = false) ∨
  (∃ base, Base base ∧ m.stack = base ++ [.opEnd] ∧ m.exc = false) ∨
  (∃ u id base, Base base ∧ (∀ g ∈ u, g ≠ Frame.opEnd) ∧ m.stack = u ++ [.cbEnd id] ++ base ++ [.opEnd])

theorem guarded_step {P : Prog} {m : M} (h : Guarded m) : Guarded (step P m) := by
  obtain ⟨c, st, x⟩ := m
  rcases h with hst | ⟨a, ha, hst, hx⟩ | ⟨base, hb, hst, hx⟩ | ⟨u, id, base, hb, hu, hst⟩
  · simp only at hst; subst hst; left; rfl
  · simp only at hst hx; subst hst hx
    cases a with
    | register n =>
      right; right; left
      exact ⟨_, Base.pass [] true, by simp [step, stepTop, stepNorm, stepAct], by simp [step, stepTop, stepNorm, stepAct]⟩
    | declare deps b =>
      by_cases hr : ready { c with waiters := c.waiters ++ [⟨c.nextId, deps, b⟩], nextId := c.nextId + 1,
                                   decls := c.decls ++ [⟨c.nextId, deps, b⟩] } ⟨c.nextId, deps, b⟩ = true
      · right; right; right
        exact ⟨[.script (P.body b)], c.nextId, _, Base.script, by simp,
          by simp [step, stepTop, stepNorm, stepAct, declareStep, hr]⟩
      · right; right; left
        exact ⟨_, Base.script, by simp [step, stepTop, stepNorm, stepAct, declareStep, hr],
          by simp [step, stepTop, stepNorm, stepAct, declareStep, hr]⟩
    | listen deps b =>
      by_cases hr : ready { c with waiters := c.waiters ++ [⟨c.nextId, deps, b⟩], nextId := c.nextId + 1,
                                   decls := c.decls ++ [⟨c.nextId, deps, b⟩] } ⟨c.nextId, deps, b⟩ = true
      · right; right; right
        exact ⟨[.script (P.body b)], c.nextId, _, Base.notify, by simp,
          by simp [step, stepTop, stepNorm, stepAct, declareStep, hr]⟩
      · right; right; left
        exact ⟨_, Base.notify, by simp [step, stepTop, stepNorm, stepAct, declareStep, hr],
          by simp [step, stepTop, stepNorm, stepAct, declareStep, hr]⟩
    | getDeferral => simp [Act.isRendezvous] at ha
    | release k => simp [Act.isRendezvous] at ha
    | quit => simp [Act.isRendezvous] at ha
    | raise => simp [Act.isRendezvous] at ha
  · simp only at hst hx; subst hst hx
    cases hb with
    | nil => left; simp [step, stepTop, stepNorm]
    | script => right; right; left; exact ⟨_, Base.nil, by simp [step, stepTop, stepNorm], by simp [step, stepTop, stepNorm]⟩
    | notify =>
      right; right; left
      exact ⟨_, Base.script, by simp [step, stepTop, stepNorm], by simp [step, stepTop, stepNorm]⟩
    | pass s ch =>
      cases s with
      | nil =>
        cases ch with
        | false =>
          right; right; left
          exact ⟨_, Base.script, by simp [step, stepTop, stepNorm, stepPass], by simp [step, stepTop, stepNorm, stepPass]⟩
        | true =>
          right; right; left
          exact ⟨_, Base.pass c.waiters false, by simp [step, stepTop, stepNorm, stepPass],
            by simp [step, stepTop, stepNorm, stepPass]⟩
      | cons e es =>
        by_cases hf : e ∈ c.waiters ∧ ready c e = true
        · right; right; right
          exact ⟨[.script (P.body e.body)], e.id, _, Base.pass es true, by simp,
            by simp [step, stepTop, stepNorm, stepPass, hf]⟩
        · right; right; left
          exact ⟨_, Base.pass es ch, by simp [step, stepTop, stepNorm, stepPass, hf],
            by simp [step, stepTop, stepNorm, stepPass, hf]⟩
  · simp only at hst; subst hst
    cases u with
    | nil =>
      right; right; left
      refine ⟨base, hb, ?_, ?_⟩ <;> cases x <;> simp [step, stepTop, stepNorm, stepExc]
    | cons f u' =>
      right; right; right
      refine ⟨(stepTop P c x f).2.1 ++ u', id, base, hb, ?_, by simp [step, List.append_assoc]⟩
      intro g hg
      rcases List.mem_append.1 hg with hg | hg
      · exact noOpEnd_stepTop x f g hg
      · exact hu g (by simp [hg])

theorem guarded_no_opRaised {P : Prog} {m : M} (h : Guarded m) :
    (step P m).core.log.countP isOpRaised = m.core.log.countP isOpRaised := by
  obtain ⟨c, st, x⟩ := m
  cases st with
  | nil => rfl
  | cons f rest =>
    obtain ⟨l, hl, _, hop⟩ := (logStep_stepTop (P := P) (c := c) x f).ext
    show (stepTop P c x f).1.log.countP isOpRaised = c.log.countP isOpRaised
    rw [hl]
    apply countP_append_silent
    intro ev hev
    cases ev <;> try rfl
    -- an `opRaised` record would need the bottom frame on top with an exception pending
    exfalso
    obtain ⟨hf, hx⟩ := hop hev
    subst hf hx
    rcases h with hst | ⟨a, _, hst, _⟩ | ⟨base, hb, hst, hx⟩ | ⟨u, id, base, hb, hu, hst⟩
    · cases hst
    · cases hst
    · cases hx
    · simp only at hst
      cases u with
      | nil => cases hst
      | cons g u' =>
        have hg : g = Frame.opEnd := by
          have := List.head_eq_of_cons_eq hst
          exact this.symm
        exact hu g (by simp) hg

theorem guarded_run {P : Prog} (n : Nat) {m : M} (h : Guarded m) :
    Guarded (run P n m) ∧ (run P n m).core.log.countP isOpRaised = m.core.log.countP isOpRaised := by
  induction n generalizing m with
  | zero => exact ⟨h, rfl⟩
  | succ n ih =>
    unfold Pox.Core.run
    split
    · exact ⟨h, rfl⟩
    · have := ih (guarded_step (P := P) h)
      exact ⟨this.1, by rw [this.2, guarded_no_opRaised h]⟩

/-! ## listener wiring: handler-name parsing and the autoBind prefix rule -/

theorem splitU_ne_nil (s : List Char) : splitU s ≠ [] := by
  induction s with
  | nil => simp [splitU]
  | cons c cs ih =>
    simp only [splitU]
    split
    · simp
    · split <;> simp

theorem splitU_append (a b : List Char) : splitU (a ++ '_' :: b) = splitU a ++ splitU b := by
  induction a with
  | nil =>
    simp only [List.nil_append, splitU]
    cases h : splitU b with
    | nil => exact absurd h (splitU_ne_nil b)
    | cons w ws => simp
  | cons c a ih =>
    simp only [List.cons_append, splitU, ih]
    cases h : splitU a with
    | nil => exact absurd h (splitU_ne_nil a)
    | cons w ws =>
      simp only [List.cons_append]
      split <;> simp

theorem splitU_noU (e : List Char) (h : '_' ∉ e) : splitU e = [e] := by
  induction e with
  | nil => rfl
  | cons c e ih =>
    have hc : c ≠ '_' := fun hc => h (by simp [hc])
    have he : '_' ∉ e := fun hm => h (by simp [hm])
    simp [splitU, ih he, hc]

theorem joinU_splitU (s : List Char) : joinU (splitU s) = s := by
  induction s with
  | nil => rfl
  | cons c cs ih =>
    simp only [splitU]
    cases h : splitU cs with
    | nil => exact absurd h (splitU_ne_nil cs)
    | cons w ws =>
      rw [h] at ih
      by_cases hc : c = '_'
      · subst hc
        simp only [if_true]
        show [] ++ '_' :: joinU (w :: ws) = '_' :: cs
        rw [ih]; rfl
      · simp only [hc, if_false]
        cases ws with
        | nil => simp only [joinU] at ih ⊢; rw [ih]
        | cons w' ws' =>
          simp only [joinU] at ih ⊢
          rw [← ih]; rfl

theorem dropLast_append_singleton (l : List (List Char)) (x : List Char) : (l ++ [x]).dropLast = l := by
  simp

/-- **parsing**: for every component name `c` (any characters, underscores included, even empty) and every event name without
an underscore, the handler `_handle_<c>_<e>` names exactly the component `c`. -/
theorem handlerComponent_spec (c e : List Char) (he : '_' ∉ e) : handlerComponentL (handlerName c e) = some c := by
  have hp : handlePrefix.isPrefixOf (handlerName c e) = true := by
    simp [handlerName, handlePrefix, List.isPrefixOf]
  have hs : splitU (handlerName c e) = [[], ['h', 'a', 'n', 'd', 'l', 'e']] ++ (splitU c ++ [e]) := by
    have : handlerName c e = [] ++ '_' :: (['h', 'a', 'n', 'd', 'l', 'e'] ++ '_' :: (c ++ '_' :: e)) := by
      simp [handlerName, handlePrefix]
    rw [this, splitU_append, splitU_append, splitU_append, splitU_noU e he]
    rfl
  have hlen : ¬ (splitU (handlerName c e)).length < 4 := by
    rw [hs]
    have := splitU_ne_nil c
    cases hsc : splitU c with
    | nil => exact absurd hsc this
    | cons w ws => simp
  simp only [handlerComponentL, hp, if_true, hlen, if_false]
  rw [hs]
  simp [joinU_splitU]

theorem isPrefixOf_append_self (p s : List Char) : p.isPrefixOf (p ++ s) = true := by
  induction p with
  | nil => simp [List.isPrefixOf]
  | cons a p ih => simp [List.isPrefixOf, ih]

/-- **binding**: `addListeners(sink, prefix=c)` binds `_handle_<c>_<e>` to the event named `e` (component names that are
non-empty and do not start with an underscore; `e` arbitrary). -/
theorem boundEvent_spec (c e : List Char) (ch : Char) (cs : List Char) (hc : c = ch :: cs) (hch : ch ≠ '_') :
    boundEventL c (handlerName c e) = some e := by
  subst hc
  have hb : bindPrefixL (ch :: cs) = '_' :: ch :: cs := by simp [bindPrefixL, hch]
  have hn : handlerName (ch :: cs) e = (['_', 'h', 'a', 'n', 'd', 'l', 'e'] ++ bindPrefixL (ch :: cs) ++ ['_']) ++ e := by
    simp [handlerName, handlePrefix, hb]
  simp only [boundEventL]
  rw [hn, isPrefixOf_append_self]
  simp

theorem mem_dedupG {α} [DecidableEq α] (l : List α) (a : α) : a ∈ dedupG l ↔ a ∈ l := by
  induction l with
  | nil => simp [dedupG]
  | cons b l ih =>
    simp only [dedupG]
    split
    · rename_i hb
      constructor
      · intro h; exact List.mem_cons_of_mem _ (ih.1 h)
      · intro h
        rcases List.mem_cons.1 h with rfl | h
        · exact hb
        · exact ih.2 h
    · simp [ih]

theorem nodup_dedupG {α} [DecidableEq α] (l : List α) : (dedupG l).Nodup := by
  induction l with
  | nil => simp [dedupG]
  | cons b l ih =>
    simp only [dedupG]
    split
    · exact ih
    · rename_i hb; exact List.nodup_cons.2 ⟨hb, ih⟩

theorem listenDeps_mem (explicit attrs : List Str) (c : Str) :
    c ∈ listenDepsL explicit attrs ↔ c ∈ explicit ∨ ∃ a ∈ attrs, handlerComponentL a = some c := by
  simp [listenDepsL, mem_dedupG, List.mem_filterMap]

theorem wiring_mem (deps attrs : List Str) (events : Str → Option (List Str)) (a c e : Str) :
    (a, c, e) ∈ wiringL deps attrs events ↔
      c ∈ deps ∧ a ∈ attrs ∧ boundEventL c a = some e ∧ ∃ evs, events c = some evs ∧ e ∈ evs := by
  simp only [wiringL, List.mem_flatMap]
  constructor
  · rintro ⟨c', hc', hm⟩
    cases hev : events c' with
    | none => rw [hev] at hm; cases hm
    | some evs =>
      rw [hev] at hm
      simp only [List.mem_filterMap] at hm
      obtain ⟨a', ha', hm⟩ := hm
      cases hb : boundEventL c' a' with
      | none => rw [hb] at hm; cases hm
      | some ev =>
        rw [hb] at hm
        simp only at hm
        split at hm
        · rename_i hin
          injection hm with hm
          injection hm with h1 h2
          injection h2 with h2 h3
          subst h1 h2 h3
          exact ⟨hc', ha', hb, evs, hev, hin⟩
        · cases hm
  · rintro ⟨hc, ha, hb, evs, hev, hin⟩
    refine ⟨c, hc, ?_⟩
    rw [hev]
    simp only [List.mem_filterMap]
    exact ⟨a, ha, by simp [hb, hin]⟩

theorem bindOne_fst {c : Str} {evs : List Str} {a : Str} {t : Str × Str × Str}
    (h : (match boundEventL c a with
          | some ev => if ev ∈ evs then some (a, c, ev) else none
          | none => none) = some t) : t.1 = a := by
  cases hb : boundEventL c a with
  | none => rw [hb] at h; cases h
  | some ev =>
    rw [hb] at h; simp only at h
    split at h
    · injection h with h; rw [← h]
    · cases h

theorem wiring_one_nodup (c : Str) (evs : List Str) (attrs : List Str) (ha : attrs.Nodup) :
    (attrs.filterMap fun a =>
        match boundEventL c a with
        | some ev => if ev ∈ evs then some (a, c, ev) else none
        | none => none).Nodup := by
  induction attrs with
  | nil => simp
  | cons a as iha =>
    have ha' : a ∉ as := (List.nodup_cons.1 ha).1
    have has := (List.nodup_cons.1 ha).2
    simp only [List.filterMap_cons]
    split
    · exact iha has
    · rename_i t ht
      refine List.nodup_cons.2 ⟨?_, iha has⟩
      intro hm
      simp only [List.mem_filterMap] at hm
      obtain ⟨a', ha'm, hg⟩ := hm
      have e1 := bindOne_fst ht
      have e2 := bindOne_fst hg
      exact ha' (by rw [← e1, e2]; exact ha'm)

/-- each handler attribute is bound at most once per component: the list of listeners added has no duplicates -/
theorem wiring_nodup (deps attrs : List Str) (events : Str → Option (List Str)) (hd : deps.Nodup) (ha : attrs.Nodup) :
    (wiringL deps attrs events).Nodup := by
  induction deps with
  | nil => simp [wiringL]
  | cons c cs ih =>
    have hc : c ∉ cs := (List.nodup_cons.1 hd).1
    have hcs := (List.nodup_cons.1 hd).2
    have hsplit : wiringL (c :: cs) attrs events = wiringL [c] attrs events ++ wiringL cs attrs events := by
      simp [wiringL]
    rw [hsplit, List.nodup_append]
    refine ⟨?_, ih hcs, ?_⟩
    · simp only [wiringL, List.flatMap_cons, List.flatMap_nil, List.append_nil]
      cases events c with
      | none => simp
      | some evs => exact wiring_one_nodup c evs attrs ha
    · intro x hx y hy hxy
      subst hxy
      obtain ⟨a, c', e⟩ := x
      have h1 := (wiring_mem [c] attrs events a c' e).1 hx
      have h2 := (wiring_mem cs attrs events a c' e).1 hy
      have : c' = c := by simpa using h1.1
      subst this
      exact hc h2.1

/-! ## `running` and `starting_up` only ever go from true to false -/

structure QMono (c c' : Core) : Prop where
  run : c.running = false → c'.running = false
  su : c.startingUp = false → c'.startingUp = false

theorem qmono_same {c c' : Core} (h1 : c'.running = c.running) (h2 : c'.startingUp = c.startingUp) : QMono c c' :=
  ⟨fun h => h1 ▸ h, fun h => h2 ▸ h⟩

theorem qmono_doQuit {P : Prog} {c : Core} : QMono c (doQuit P c).1 := by
  unfold doQuit; split
  · exact qmono_same rfl rfl
  · split
    · exact qmono_same rfl rfl
    · exact ⟨fun _ => rfl, fun h => h⟩

theorem qmono_waiterNotify {c : Core} : QMono c (waiterNotify c) := by
  unfold waiterNotify; split <;> exact qmono_same rfl rfl

theorem qmono_stepAct {P : Prog} {c : Core} (a : Act) : QMono c (stepAct P c a).1 := by
  cases a with
  | register n => exact qmono_same rfl rfl
  | declare deps b => simp only [stepAct, declareStep]; split <;> exact qmono_same rfl rfl
  | listen deps b => simp only [stepAct, declareStep]; split <;> exact qmono_same rfl rfl
  | getDeferral => exact qmono_same rfl rfl
  | raise => exact qmono_same rfl rfl
  | quit =>
    simp only [stepAct]; split
    · exact qmono_same rfl rfl
    · exact qmono_doQuit
  | release k =>
    simp only [stepAct]; split
    · exact qmono_same rfl rfl
    · split
      · exact qmono_same rfl rfl
      · split <;> exact qmono_same rfl rfl

theorem qmono_stepTop {P : Prog} {c : Core} (x : Bool) (f : Frame) : QMono c (stepTop P c x f).1 := by
  unfold stepTop
  split
  · cases f <;> exact qmono_same rfl rfl
  · cases f with
    | script acts =>
      cases acts with
      | nil => exact qmono_same rfl rfl
      | cons a as => exact qmono_stepAct a
    | pass snap ch =>
      simp only [stepNorm]; unfold stepPass
      split
      · exact qmono_same rfl rfl
      · exact qmono_same rfl rfl
      · split <;> exact qmono_same rfl rfl
    | cbEnd id => exact qmono_same rfl rfl
    | notifyIfUp => simp only [stepNorm]; split; exact qmono_same rfl rfl; exact qmono_waiterNotify
    | goUpStart => exact ⟨fun h => h, fun _ => rfl⟩
    | goUpCont => simp only [stepNorm]; split <;> exact qmono_same rfl rfl
    | stage2Cont => exact qmono_waiterNotify
    | quitCont => exact qmono_same rfl rfl
    | ticks n =>
      cases n with
      | zero => exact qmono_same rfl rfl
      | succ n => exact qmono_doQuit
    | opEnd => exact qmono_same rfl rfl

theorem running_false_run {P : Prog} (n : Nat) {m : M} (h : m.core.running = false) : (run P n m).core.running = false := by
  induction n generalizing m with
  | zero => exact h
  | succ n ih =>
    unfold Pox.Core.run
    split
    · exact h
    · rename_i f rest hst
      apply ih
      show (step P m).core.running = false
      unfold step
      rw [hst]
      exact (qmono_stepTop m.exc f).run h

/-! ## `_try_waiters` returns only when nothing pending is ready — wherever it was called from -/

/-- a `_try_waiters` loop whose current pass has fired nothing is on top of the stack and has still to look at every pending
waiter that is ready; loops further down are suspended inside a callback they have just fired (`changed = True`) -/
structure PInv (m : M) : Prop where
  top : ∀ snap rest, m.stack = .pass snap false :: rest → ∀ e ∈ m.core.waiters, ready m.core e = true → e ∈ snap
  buried : ∀ f rest, m.stack = f :: rest → ∀ snap ch, Frame.pass snap ch ∈ rest → ch = true

theorem newFrames_doQuit {P : Prog} {c : Core} : ∀ snap ch, Frame.pass snap ch ∉ (doQuit P c).2 := by
  intro snap ch
  unfold doQuit; split
  · simp
  · split <;> simp

theorem newFrames_stepAct {P : Prog} {c : Core} (a : Act) :
    ∀ snap ch, Frame.pass snap ch ∈ (stepAct P c a).2.1 → ch = true := by
  intro snap ch
  cases a with
  | register n => simp [stepAct]
  | declare deps b => simp only [stepAct, declareStep]; split <;> simp
  | listen deps b => simp only [stepAct, declareStep]; split <;> simp
  | getDeferral => simp [stepAct]
  | raise => simp [stepAct]
  | quit =>
    simp only [stepAct]; split
    · simp
    · intro h; exact absurd h (newFrames_doQuit snap ch)
  | release k =>
    simp only [stepAct]; split
    · simp
    · split
      · simp
      · split <;> simp [enterStage2]

/-- frames pushed by a step whose top frame is not a loop: any loop among them starts with `changed = True` -/
theorem newFrames_stepTop {P : Prog} {c : Core} (x : Bool) (f : Frame) (hf : f.isPass = false ∨ x = true) :
    ∀ snap ch, Frame.pass snap ch ∈ (stepTop P c x f).2.1 → ch = true := by
  intro snap ch
  unfold stepTop
  split
  · cases f <;> simp [stepExc]
  · rename_i hx
    have hfp : f.isPass = false := by
      rcases hf with hf | hf
      · exact hf
      · exact absurd hf hx
    cases f with
    | script acts =>
      cases acts with
      | nil => simp [stepNorm]
      | cons a as =>
        intro hg
        simp only [stepNorm, List.mem_append, List.mem_singleton] at hg
        rcases hg with hg | hg
        · exact newFrames_stepAct a snap ch hg
        · cases hg
    | pass s' ch' => simp [Frame.isPass] at hfp
    | cbEnd id => simp [stepNorm]
    | notifyIfUp => simp [stepNorm]
    | goUpStart => simp [stepNorm]
    | goUpCont => simp only [stepNorm]; split <;> simp [enterStage2]
    | stage2Cont => simp [stepNorm]
    | quitCont => simp [stepNorm]
    | ticks n =>
      cases n with
      | zero => simp [stepNorm]
      | succ n =>
        intro hg
        simp only [stepNorm, List.mem_append, List.mem_singleton] at hg
        rcases hg with hg | hg
        · exact absurd hg (newFrames_doQuit snap ch)
        · cases hg
    | opEnd => simp [stepNorm]

theorem pinv_stepTop {P : Prog} {c : Core} {f : Frame} {rest : List Frame} {x : Bool}
    (h : PInv ⟨c, f :: rest, x⟩) (hs : SInv ⟨c, f :: rest, x⟩) :
    PInv ⟨(stepTop P c x f).1, (stepTop P c x f).2.1 ++ rest, (stepTop P c x f).2.2⟩ := by
  have hrest : ∀ snap ch, Frame.pass snap ch ∈ rest → ch = true := h.buried f rest rfl
  by_cases hcase : f.isPass = false ∨ x = true
  · -- the top frame is not a running loop
    have hnew := newFrames_stepTop (P := P) (c := c) x f hcase
    have hall : ∀ snap ch, Frame.pass snap ch ∈ (stepTop P c x f).2.1 ++ rest → ch = true := by
      intro snap ch hm
      rcases List.mem_append.1 hm with hm | hm
      · exact hnew snap ch hm
      · exact hrest snap ch hm
    constructor
    · intro snap rest' hst
      have : Frame.pass snap false ∈ (stepTop P c x f).2.1 ++ rest := by
        show Frame.pass snap false ∈ (⟨(stepTop P c x f).1, (stepTop P c x f).2.1 ++ rest, (stepTop P c x f).2.2⟩ : M).stack
        rw [hst]; simp
      exact absurd (hall snap false this) (by simp)
    · intro g rest' hst snap ch hm
      apply hall snap ch
      have : (stepTop P c x f).2.1 ++ rest = g :: rest' := hst
      rw [this]; simp [hm]
  · -- a loop is running
    have hx : x = false := by
      cases x with
      | false => rfl
      | true => exact absurd (Or.inr rfl) hcase
    subst hx
    cases f with
    | pass snap ch =>
      cases snap with
      | nil =>
        cases ch with
        | false =>
          show PInv ⟨c, rest, false⟩
          constructor
          · intro snap rest' hst
            have : Frame.pass snap false ∈ rest := by rw [show rest = Frame.pass snap false :: rest' from hst]; simp
            exact absurd (hrest snap false this) (by simp)
          · intro g rest' hst snap ch hm
            exact hrest snap ch (by rw [show rest = g :: rest' from hst]; simp [hm])
        | true =>
          show PInv ⟨c, Frame.pass c.waiters false :: rest, false⟩
          constructor
          · intro snap rest' hst e he _
            injection hst with h1 _
            injection h1 with h1 _
            exact h1 ▸ he
          · intro g rest' hst snap ch hm
            injection hst with _ h2
            exact hrest snap ch (h2 ▸ hm)
      | cons e es =>
        simp only [stepTop, stepNorm, stepPass, Bool.false_eq_true, ↓reduceIte]
        split
        · constructor
          · intro snap rest' hst
            simp only [List.cons_append, List.nil_append, List.cons.injEq] at hst
            exact absurd hst.1 (by simp)
          · intro g rest' hst snap ch' hm
            simp only [List.cons_append, List.nil_append, List.cons.injEq] at hst
            rw [← hst.2] at hm
            simp only [List.mem_cons] at hm
            rcases hm with hm | hm | hm
            · cases hm
            · injection hm with _ h4
            · exact hrest snap ch' hm
        · rename_i hno
          constructor
          · intro snap' rest' hst e' he' hr'
            simp only [List.cons_append, List.nil_append, List.cons.injEq, Frame.pass.injEq] at hst
            obtain ⟨⟨h1, h1'⟩, _⟩ := hst
            subst h1 h1'
            have := h.top (e :: es) rest rfl e' he' hr'
            rcases List.mem_cons.1 this with rfl | hm
            · exfalso; apply hno; simp [he', hr']
            · exact hm
          · intro g rest' hst snap ch' hm
            simp only [List.cons_append, List.nil_append, List.cons.injEq] at hst
            exact hrest snap ch' (hst.2 ▸ hm)
    | script a => exact absurd (Or.inl rfl) hcase
    | cbEnd a => exact absurd (Or.inl rfl) hcase
    | notifyIfUp => exact absurd (Or.inl rfl) hcase
    | goUpStart => exact absurd (Or.inl rfl) hcase
    | goUpCont => exact absurd (Or.inl rfl) hcase
    | stage2Cont => exact absurd (Or.inl rfl) hcase
    | quitCont => exact absurd (Or.inl rfl) hcase
    | ticks n => exact absurd (Or.inl rfl) hcase
    | opEnd => exact absurd (Or.inl rfl) hcase

theorem pinv_step {P : Prog} {m : M} (h : PInv m) (hs : SInv m) : PInv (step P m) := by
  unfold step
  split
  · exact h
  · rename_i f rest hst
    have h' : PInv ⟨m.core, f :: rest, m.exc⟩ := by rw [← hst]; exact h
    have hs' : SInv ⟨m.core, f :: rest, m.exc⟩ := by rw [← hst]; exact hs
    exact pinv_stepTop h' hs'

theorem pinv_startOp (m : M) (o : Op) : PInv (startOp o m) := by
  cases o <;>
  · refine ⟨?_, ?_⟩
    · intro snap rest hst
      simp only [startOp, List.cons.injEq] at hst
      exact absurd hst.1 (by simp)
    · intro g rest' hst snap ch hm
      simp only [startOp, List.cons.injEq] at hst
      rw [← hst.2] at hm
      simp at hm

theorem Reach.pinv {P ops m} (h : Reach P ops m) : PInv m := by
  induction h with
  | init => exact ⟨(fun _ _ hst => by cases hst), (fun _ _ hst => by cases hst)⟩
  | op o hr hq ih => exact pinv_startOp _ o
  | step hr ih => exact pinv_step ih hr.sinv

end Pox.Core
